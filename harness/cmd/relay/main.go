// Harness for the signaling relay (C20, C22, C24, C25): drives the real
// signaling/rpc/server.Server through Server.Session / Server.Listen with fake
// streams and scripted (partly malicious) clients, waits for quiescence after
// every scripted operation, records what every stream received, how every call
// ended and the relay maps, emits one correspondence case per script for
// SignalRelay/Run.v and checks the property text directly on what was observed.
package main

import (
	"context"
	"errors"
	"fmt"
	"io"
	"math/rand"
	"os"
	"path/filepath"
	"regexp"
	"runtime"
	"sort"
	"strconv"
	"strings"
	"sync"
	"time"

	"github.com/aperturerobotics/bifrost/crypto"
	"github.com/aperturerobotics/bifrost/hash"
	"github.com/aperturerobotics/bifrost/peer"
	signaling "github.com/aperturerobotics/bifrost/signaling/rpc"
	sigsrv "github.com/aperturerobotics/bifrost/signaling/rpc/server"
	"github.com/aperturerobotics/starpc/srpc"
	"github.com/sirupsen/logrus"
	"verifharness/internal/hx"
)

func main() {
	// one P: goroutines readied by the relay run when the driver yields, so
	// "yield until nothing changes" is an exact quiescence test (no sleeps).
	runtime.GOMAXPROCS(1)
	hx.Main(run)
}

const (
	eReplaced = 1
	eCanceled = 2
	eStream   = 3
	eRejected = 4
)

var errStream = errors.New("verif: stream closed by the scripted client")

type ctxKey struct{}

type peerInfo struct {
	priv crypto.PrivKey
	id   peer.ID
	str  string
}

// ---- fake streams ----

type baseStream struct {
	ctx    context.Context
	cancel context.CancelFunc
	// back-pressure: while gated, every Send parks until the script opens the gate
	gmu    sync.Mutex
	gated  bool
	gate   chan struct{}
	parked bool
}

func (b *baseStream) arm() {
	b.gmu.Lock()
	b.gated, b.gate = true, make(chan struct{})
	b.gmu.Unlock()
}
func (b *baseStream) open() {
	b.gmu.Lock()
	if b.gated {
		b.gated = false
		close(b.gate)
	}
	b.gmu.Unlock()
}
func (b *baseStream) isGated() bool  { b.gmu.Lock(); defer b.gmu.Unlock(); return b.gated }
func (b *baseStream) isParked() bool { b.gmu.Lock(); defer b.gmu.Unlock(); return b.parked }

// flow blocks the caller (the relay goroutine inside strm.Send) while the gate is closed.
// and fails, like a real stream, when the context is cancelled or the stream breaks meanwhile.
func (b *baseStream) flow(broken <-chan struct{}) error {
	b.gmu.Lock()
	if !b.gated {
		b.gmu.Unlock()
		return nil
	}
	g := b.gate
	b.parked = true
	b.gmu.Unlock()
	var err error
	select {
	case <-g:
	case <-b.ctx.Done():
		err = b.ctx.Err()
	case <-broken:
		err = errStream
	}
	b.gmu.Lock()
	b.parked = false
	if err != nil {
		b.gated = false
	}
	b.gmu.Unlock()
	return err
}

func (b *baseStream) Context() context.Context      { return b.ctx }
func (b *baseStream) MsgSend(msg srpc.Message) error { return errors.New("verif: MsgSend not used") }
func (b *baseStream) MsgRecv(msg srpc.Message) error { return errors.New("verif: MsgRecv not used") }
func (b *baseStream) CloseSend() error               { return nil }
func (b *baseStream) Close() error                   { return nil }

type lcall struct {
	baseStream
	id   int
	p    int
	mu   sync.Mutex
	out  []int // encoded: 2q+1 = SetPeer q, 2q = ClearPeer q
	seen int
	segs [][]int
	done bool
	err  error
	w    *world
}

func (l *lcall) Send(m0 *signaling.ListenResponse) error {
	if err := l.flow(nil); err != nil {
		return err
	}
	// wire fidelity: what the client sees is the marshalled message
	data, err := m0.MarshalVT()
	if err != nil {
		return err
	}
	m := &signaling.ListenResponse{}
	if err := m.UnmarshalVT(data); err != nil {
		return err
	}
	l.mu.Lock()
	defer l.mu.Unlock()
	switch b := m.GetBody().(type) {
	case *signaling.ListenResponse_SetPeer:
		l.out = append(l.out, 2*l.w.pidx(b.SetPeer)+1)
	case *signaling.ListenResponse_ClearPeer:
		l.out = append(l.out, 2*l.w.pidx(b.ClearPeer))
	default:
		l.out = append(l.out, 1000001)
	}
	return nil
}
func (l *lcall) SendAndClose(m *signaling.ListenResponse) error { return l.Send(m) }

type resp struct {
	kind int // 0 opened 1 closed 2 ack 3 clear 4 recv
	n    uint64
	m    *signaling.SessionMsg
}

type scall struct {
	baseStream
	id       int
	src      int
	dst      int // -1 when the init was invalid
	valid    bool
	reqCh    chan []byte
	closed   chan struct{}
	closedMu sync.Once
	mu       sync.Mutex
	out      []resp
	done     bool
	err      error
	lastSent *minfo
	lastGood *minfo
	chk      int
	chkOpen  bool
	chkEp    uint64
	chkRecv  map[uint64]bool
	w        *world
}

// next returns the next packet of the client, as bytes.
func (s *scall) next() ([]byte, error) {
	select {
	case r := <-s.reqCh:
		return r, nil
	default:
	}
	select {
	case r := <-s.reqCh:
		return r, nil
	case <-s.closed:
		return nil, errStream
	}
}

// MsgRecv behaves like a real srpc stream: it unmarshals the packet INTO the
// object passed by the callee (protobuf merge semantics, no reset).
func (s *scall) MsgRecv(msg srpc.Message) error {
	data, err := s.next()
	if err != nil {
		return err
	}
	return msg.UnmarshalVT(data)
}
func (s *scall) Recv() (*signaling.SessionRequest, error) {
	m := new(signaling.SessionRequest)
	if err := s.MsgRecv(m); err != nil {
		return nil, err
	}
	return m, nil
}
func (s *scall) RecvTo(m *signaling.SessionRequest) error { return s.MsgRecv(m) }
func (s *scall) Send(m0 *signaling.SessionResponse) error {
	if err := s.flow(s.closed); err != nil {
		return err
	}
	// wire fidelity: marshal when the stream accepts the message, record what a client would decode
	data, err := m0.MarshalVT()
	if err != nil {
		return err
	}
	m := &signaling.SessionResponse{}
	if err := m.UnmarshalVT(data); err != nil {
		return err
	}
	s.mu.Lock()
	defer s.mu.Unlock()
	switch b := m.GetBody().(type) {
	case *signaling.SessionResponse_Opened:
		s.out = append(s.out, resp{kind: 0, n: b.Opened})
	case *signaling.SessionResponse_Closed:
		s.out = append(s.out, resp{kind: 1})
	case *signaling.SessionResponse_AckMsg:
		s.out = append(s.out, resp{kind: 2, n: b.AckMsg})
	case *signaling.SessionResponse_ClearMsg:
		s.out = append(s.out, resp{kind: 3, n: b.ClearMsg})
	case *signaling.SessionResponse_RecvMsg:
		s.out = append(s.out, resp{kind: 4, m: b.RecvMsg})
	default:
		s.out = append(s.out, resp{kind: 9})
	}
	return nil
}
func (s *scall) SendAndClose(m *signaling.SessionResponse) error { return s.Send(m) }
func (s *scall) closeStream()                                   { s.closedMu.Do(func() { close(s.closed) }) }

// minfo is what the harness knows about a SessionMsg it constructed.
type minfo struct {
	tag      int
	key      string // marshalled bytes
	pk       int    // attached signature.pub_key: 0 none, k+1 key of peer k, 99 unparsable
	kind     string // good foreign tampered wrongctx unsigned spoofed
	signer   int    // key that really signed (index), -1 none
	seqno    uint64
	ver      bool // result of the real ExtractAndVerify
	from     int  // index of the peer id ExtractAndVerify returned (np+7 if unknown)
	msg      *signaling.SessionMsg
	call     int    // session call it was submitted on
	subEpoch uint64 // relay epoch of that call's session when it was submitted
	subSeq   uint64 // session_seqno it was submitted with
	hadSess  bool
}

type world struct {
	c      *hx.Ctx
	rng    *rand.Rand
	srv    *sigsrv.Server
	peers  []peerInfo
	idx    map[string]int
	lcalls []*lcall
	scalls []*scall
	msgs   []*minfo
	byKey  map[string]*minfo // bytes of a SessionMsg -> its latest submission
	subs   map[string][]*minfo // bytes -> every submission
	tagOf  map[string]int
	ops    []string
	descs  []string
	sizes  [][3]int
	tags   int
	failed map[string]bool
	timed  bool
	ctls   []ctlSub // every ack/clear request submitted
}

// ctlSub is an ack or clear request as submitted: on which call, for which message seqno, stamped with which epoch.
type ctlSub struct {
	call int
	kind string
	n    uint64
	seq  uint64
}

// stamped: the partner of s submitted an ack/clear of message n stamped with epoch ep.
func (w *world) stamped(s *scall, kind string, n, ep uint64) bool {
	for _, c := range w.ctls {
		from := w.scalls[c.call]
		if c.kind == kind && c.n == n && c.seq == ep && from.valid && from.src == s.dst && from.dst == s.src {
			return true
		}
	}
	return false
}

func (w *world) pidx(s string) int {
	if i, ok := w.idx[s]; ok {
		return i
	}
	return len(w.peers) + 7
}

type detReader struct{ r *rand.Rand }

func (d detReader) Read(p []byte) (int, error) {
	for i := range p {
		p[i] = byte(d.r.Intn(256))
	}
	return len(p), nil
}

func newWorld(c *hx.Ctx, np int) *world {
	w := &world{c: c, rng: c.Rng, idx: map[string]int{}, byKey: map[string]*minfo{}, subs: map[string][]*minfo{}, tagOf: map[string]int{}, failed: map[string]bool{}}
	for i := 0; i < np; i++ {
		priv, _, err := crypto.GenerateKeyPairWithReader(crypto.KeyType_Ed25519, 0, detReader{c.Rng})
		if err != nil {
			panic(err)
		}
		id, err := peer.IDFromPrivateKey(priv)
		if err != nil {
			panic(err)
		}
		w.peers = append(w.peers, peerInfo{priv: priv, id: id, str: id.String()})
	}
	// model peer ids are the ranks of the id strings (newSessionKey compares strings)
	sort.Slice(w.peers, func(i, j int) bool { return strings.Compare(w.peers[i].str, w.peers[j].str) < 0 })
	for i, p := range w.peers {
		w.idx[p.str] = i
	}
	log := logrus.New()
	log.SetOutput(io.Discard)
	log.SetLevel(logrus.PanicLevel)
	w.srv = sigsrv.NewServerWithIdentify(logrus.NewEntry(log), func(ctx context.Context) (peer.ID, error) {
		v, _ := ctx.Value(ctxKey{}).(peer.ID)
		if v == "" {
			return "", errors.New("verif: no identity")
		}
		return v, nil
	})
	return w
}

func classify(err error) int {
	switch {
	case err == nil:
		return 0
	case errors.Is(err, signaling.ErrUserpedSession), errors.Is(err, signaling.ErrUserpedListen):
		return eReplaced
	case errors.Is(err, context.Canceled):
		return eCanceled
	case errors.Is(err, errStream):
		return eStream
	default:
		return eRejected
	}
}

// ---- quiescence ----

func (w *world) fingerprint() string {
	var sb strings.Builder
	for _, l := range w.lcalls {
		l.mu.Lock()
		fmt.Fprintf(&sb, "L%d:%d:%v:%v;", l.id, len(l.out), l.done, l.isParked())
		l.mu.Unlock()
	}
	for _, s := range w.scalls {
		s.mu.Lock()
		fmt.Fprintf(&sb, "S%d:%d:%v:%d:%v;", s.id, len(s.out), s.done, len(s.reqCh), s.isParked())
		s.mu.Unlock()
	}
	sb.WriteString(w.srv.VerifState().Fingerprint())
	return sb.String()
}

func (w *world) pending() bool {
	for _, s := range w.scalls {
		if len(s.reqCh) != 0 && !s.isDone() {
			return true
		}
	}
	return false
}

func (s *scall) isDone() bool { s.mu.Lock(); defer s.mu.Unlock(); return s.done }
func (l *lcall) isDone() bool { l.mu.Lock(); defer l.mu.Unlock(); return l.done }

// settle yields until the observable state has not changed for several
// consecutive yields (with GOMAXPROCS(1) one yield normally drains every
// runnable goroutine; the repetition covers the scheduler's fairness ticks),
// and then also across a short real sleep of the driver.
func (w *world) settle() {
	if w.timed {
		w.settleTimed()
		return
	}
	const need = 12
	last := ""
	stable := 0
	for i := 0; i < 200000; i++ {
		runtime.Gosched()
		fp := w.fingerprint()
		if fp == last && !w.pending() {
			stable++
			if stable >= need {
				// belt and braces: block the driver for a moment (every other goroutine of the
				// single P runs until it blocks) and look again
				time.Sleep(100 * time.Microsecond)
				if w.fingerprint() == last && !w.pending() {
					return
				}
				stable = 0
			}
		} else {
			stable = 0
			last = fp
		}
	}
	panic("verif: relay did not become quiescent")
}

// settleTimed is used by the race scripts only (several Ps, real time): the
// state must not change for 10 ms.
func (w *world) settleTimed() {
	last := ""
	stable := 0
	for i := 0; i < 20000; i++ {
		time.Sleep(time.Millisecond)
		fp := w.fingerprint()
		if fp == last && !w.pending() {
			stable++
			if stable >= 10 {
				return
			}
		} else {
			stable = 0
			last = fp
		}
	}
	panic("verif: relay did not become quiescent (timed)")
}

// ---- scripted operations ----

func (w *world) record(term, desc string) {
	w.ops = append(w.ops, term)
	w.descs = append(w.descs, desc)
}

func (w *world) afterOp() {
	w.settle()
	// close the streams of calls that returned (frees their read goroutines)
	for _, s := range w.scalls {
		if s.isDone() {
			s.closeStream()
		}
	}
	w.settle()
	for _, l := range w.lcalls {
		l.mu.Lock()
		if len(l.out) > l.seen {
			seg := append([]int{}, l.out[l.seen:]...)
			sort.Ints(seg)
			l.segs = append(l.segs, seg)
			l.seen = len(l.out)
		}
		l.mu.Unlock()
	}
	st := w.srv.VerifState()
	alive := 0
	for _, l := range w.lcalls {
		if !l.isDone() {
			alive++
		}
	}
	for _, s := range w.scalls {
		if !s.isDone() {
			alive++
		}
	}
	w.sizes = append(w.sizes, [3]int{len(st.Peers), len(st.Sessions), alive})
	w.oracle(st)
}

func (w *world) listenStart(p int) {
	ctx, cancel := context.WithCancel(context.WithValue(context.Background(), ctxKey{}, w.peers[p].id))
	l := &lcall{baseStream: baseStream{ctx: ctx, cancel: cancel}, id: len(w.lcalls), p: p, w: w}
	w.lcalls = append(w.lcalls, l)
	w.record(act("ListenStart", nat(l.id), nat(p)), fmt.Sprintf("L%d=Listen(p%d)", l.id, p))
	go func() {
		err := w.srv.Listen(&signaling.ListenRequest{}, l)
		l.mu.Lock()
		l.done, l.err = true, err
		l.mu.Unlock()
	}()
	w.afterOp()
}

func (w *world) listenCancel(l *lcall) {
	w.record(act("ListenEnd", nat(l.id)), fmt.Sprintf("cancel L%d", l.id))
	l.cancel()
	w.afterOp()
}

type reqSpec struct {
	ctl  string // "ack" / "clear" for control requests
	n    uint64
	term string
	desc string
	req  *signaling.SessionRequest // nil = close the stream (Recv error)
	mi   *minfo
}

func (w *world) sessStart(src int, seq uint64, r reqSpec, dst int, valid bool) *scall {
	ctx, cancel := context.WithCancel(context.WithValue(context.Background(), ctxKey{}, w.peers[src].id))
	s := &scall{baseStream: baseStream{ctx: ctx, cancel: cancel}, id: len(w.scalls), src: src, dst: dst, valid: valid,
		reqCh: make(chan []byte, 64), closed: make(chan struct{}), w: w}
	w.scalls = append(w.scalls, s)
	w.record(act("SessStart", nat(s.id), nat(src), nat(int(seq)), r.term),
		fmt.Sprintf("S%d=Session(p%d) first{seq=%d %s}", s.id, src, seq, r.desc))
	if r.req == nil {
		s.closeStream()
	} else {
		r.req.SessionSeqno = seq
		s.reqCh <- wire(r.req)
	}
	if r.mi != nil {
		r.mi.call, r.mi.subSeq = s.id, seq
		w.byKey[r.mi.key] = r.mi
		w.subs[r.mi.key] = append(w.subs[r.mi.key], r.mi)
	}
	go func() {
		err := w.srv.Session(s)
		s.mu.Lock()
		s.done, s.err = true, err
		s.mu.Unlock()
	}()
	w.afterOp()
	return s
}

func (w *world) epochOf(s *scall) (uint64, bool) {
	if !s.valid {
		return 0, false
	}
	a, b := w.peers[s.src].str, w.peers[s.dst].str
	if strings.Compare(a, b) >= 0 {
		a, b = b, a
	}
	for _, v := range w.srv.VerifState().Sessions {
		if v.PeerA == a && v.PeerB == b {
			return v.Seqno, true
		}
	}
	return 0, false
}

func (w *world) sessReq(s *scall, seq uint64, r reqSpec) {
	w.record(act("SessReq", nat(s.id), nat(int(seq)), r.term), fmt.Sprintf("S%d<-{seq=%d %s}", s.id, seq, r.desc))
	if r.mi != nil {
		r.mi.call, r.mi.subSeq = s.id, seq
		r.mi.subEpoch, r.mi.hadSess = w.epochOf(s)
		w.byKey[r.mi.key] = r.mi
		w.subs[r.mi.key] = append(w.subs[r.mi.key], r.mi)
		s.lastSent = r.mi
		if r.mi.kind == "good" {
			s.lastGood = r.mi
		}
	}
	if r.ctl != "" {
		w.ctls = append(w.ctls, ctlSub{call: s.id, kind: r.ctl, n: r.n, seq: seq})
	}
	before := w.srv.VerifState().Fingerprint()
	ep, had := w.epochOf(s)
	outsBefore := w.totalOut()
	if r.req == nil {
		s.closeStream()
	} else {
		r.req.SessionSeqno = seq
		pkt := wire(r.req)
		if w.rng.Intn(8) == 0 {
			// an unknown field (number 15, varint) must be ignored by the decoder
			pkt = append(pkt, 0x78, 0x01)
			w.c.Class("wire-unknown-field")
		}
		s.reqCh <- pkt
	}
	w.afterOp()
	// C20 clauses on the epoch, straight from the property text
	if had && !s.isGated() && r.req != nil && r.req.GetInit() == nil && r.req.GetBody() != nil {
		// "good" = the request passes the authenticity checks (those come before the epoch test)
		good := r.mi == nil || (r.mi.ver && r.mi.from == s.src)
		if seq > ep && good && !s.isDone() {
			w.fail("C20", "future-epoch-not-rejected", fmt.Sprintf("request with session seqno %d > relay epoch %d did not end the call", seq, ep))
		}
		if seq < ep && good {
			if w.srv.VerifState().Fingerprint() != before || w.totalOut() != outsBefore {
				w.fail("C20", "stale-epoch-had-effect", fmt.Sprintf("request with session seqno %d < relay epoch %d changed the relay state or produced output", seq, ep))
			}
		}
	}
}

func wire(r *signaling.SessionRequest) []byte {
	b, err := r.MarshalVT()
	if err != nil {
		panic(err)
	}
	return b
}

func msgKey(m *signaling.SessionMsg) string {
	b, err := m.MarshalVT()
	if err != nil {
		panic(err)
	}
	return string(b)
}

// register gives byte-identical messages the same tag (the relay sees bytes).
func (w *world) register(mi *minfo) {
	mi.key = msgKey(mi.msg)
	if t, ok := w.tagOf[mi.key]; ok {
		mi.tag = t
	} else {
		w.tagOf[mi.key] = mi.tag
	}
	w.msgs = append(w.msgs, mi)
}

func (w *world) totalOut() int {
	n := 0
	for _, s := range w.scalls {
		s.mu.Lock()
		n += len(s.out)
		s.mu.Unlock()
	}
	for _, l := range w.lcalls {
		l.mu.Lock()
		n += len(l.out)
		l.mu.Unlock()
	}
	return n
}

func (w *world) gateL(l *lcall) {
	w.record(hx.App("GateL", nat(l.id)), fmt.Sprintf("gate L%d (its Sends block)", l.id))
	l.arm()
	w.afterOp()
}
func (w *world) gateS(s *scall) {
	w.record(hx.App("GateS", nat(s.id)), fmt.Sprintf("gate S%d (its Sends block)", s.id))
	s.arm()
	w.afterOp()
}
func (w *world) openL(l *lcall) {
	w.record(hx.App("OpenL", nat(l.id)), fmt.Sprintf("open gate L%d", l.id))
	l.open()
	w.afterOp()
}
func (w *world) openS(s *scall) {
	w.record(hx.App("OpenS", nat(s.id)), fmt.Sprintf("open gate S%d", s.id))
	s.open()
	w.afterOp()
}
// abort: the context is cancelled (or the stream breaks) while the call is parked inside Send
func (w *world) abortL(l *lcall) {
	w.record(hx.App("AbortL", nat(l.id)), fmt.Sprintf("cancel L%d while it is parked in Send", l.id))
	l.cancel()
	w.afterOp()
}
func (w *world) abortS(s *scall, cancel bool) {
	if cancel {
		w.record(hx.App("AbortS", nat(s.id), "true"), fmt.Sprintf("cancel S%d while it is parked in Send", s.id))
		s.cancel()
	} else {
		w.record(hx.App("AbortS", nat(s.id), "false"), fmt.Sprintf("stream of S%d breaks while it is parked in Send", s.id))
		s.closeStream()
	}
	w.afterOp()
}

func (w *world) anyGated() bool {
	for _, l := range w.lcalls {
		if l.isGated() {
			return true
		}
	}
	for _, s := range w.scalls {
		if s.isGated() {
			return true
		}
	}
	return false
}
func (w *world) gatedListenPeers() []int {
	var o []int
	for _, l := range w.lcalls {
		if l.isGated() && !l.isDone() {
			o = append(o, l.p)
		}
	}
	return o
}

func (w *world) openAll() {
	for _, l := range w.lcalls {
		if l.isGated() {
			w.openL(l)
		}
	}
	for _, s := range w.scalls {
		if s.isGated() {
			w.openS(s)
		}
	}
}

// calls that are live and not gated: only these are cancelled or sent
// error-producing requests (a parked call cannot observe them in a
// deterministic order)
func (w *world) freeS() []*scall {
	var o []*scall
	for _, s := range w.liveS() {
		if !s.isGated() {
			o = append(o, s)
		}
	}
	return o
}
func (w *world) freeL() []*lcall {
	var o []*lcall
	for _, l := range w.liveL() {
		if !l.isGated() {
			o = append(o, l)
		}
	}
	return o
}

func (w *world) sessCancel(s *scall) {
	w.record(act("SessEnd", nat(s.id), "true"), fmt.Sprintf("cancel S%d", s.id))
	s.cancel()
	w.afterOp()
}

// ---- request construction ----

var encCtxOnce sync.Once
var encCtx string

// signalingContext reads the signing context of session messages from the
// source tree under test (it is an unexported constant of signaling/rpc).
func signalingContext() string {
	encCtxOnce.Do(func() {
		repo := os.Getenv("VERIF_REPO")
		if repo == "" {
			repo = "/repo"
		}
		b, err := os.ReadFile(filepath.Join(repo, "signaling", "rpc", "signaling.go"))
		if err != nil {
			return
		}
		if m := regexp.MustCompile(`const encContext = "([^"]*)"`).FindSubmatch(b); m != nil {
			encCtx = string(m[1])
		}
	})
	return encCtx
}

// verifyIndependently decides what ExtractAndVerify must answer for a message
// without calling the signaling-level function the relay uses: the peer-level
// verification with the key derived from from_peer_id (an attached
// signature.pub_key must parse but is otherwise ignored).
func verifyIndependently(m *signaling.SessionMsg) (bool, peer.ID) {
	ctx := signalingContext()
	if ctx == "" {
		_, pid, err := m.ExtractAndVerify()
		return err == nil, pid
	}
	_, pid, err := m.GetSignedMsg().ExtractAndVerify(ctx)
	return err == nil, pid
}

// signedBy: the body of m is signed, in the signaling context, by the key of peer p and claims p as sender.
func (w *world) signedBy(m *signaling.SessionMsg, p int) (bool, error) {
	ctx := signalingContext()
	sm := m.GetSignedMsg()
	if ctx == "" {
		_, pid, err := m.ExtractAndVerify()
		return err == nil && pid.String() == w.peers[p].str, err
	}
	if len(sm.GetData()) == 0 || sm.GetFromPeerId() != w.peers[p].str {
		return false, errors.New("verif: empty body or foreign sender")
	}
	err := sm.Verify(ctx, w.peers[p].priv.GetPublic())
	return err == nil, err
}

// attachPubKey populates the optional signature.pub_key: 1 = the key that really signed,
// 2 = the key of the claimed sender / stream, 3 = another peer's key, 4 = unparsable bytes.
func (w *world) attachPubKey(mi *minfo, m *signaling.SessionMsg, mode, signer, claimed int) {
	if m.GetSignedMsg().GetSignature() == nil {
		return
	}
	var k int
	switch mode {
	case 1:
		k = signer
	case 2:
		k = claimed
	case 3:
		k = (claimed + 1 + w.rng.Intn(len(w.peers)-1)) % len(w.peers)
	default:
		m.SignedMsg.Signature.PubKey = []byte{0xff, 0x01, 0x02, 0x03}
		mi.pk = 99
		return
	}
	if k < 0 || k >= len(w.peers) {
		return
	}
	b, err := crypto.MarshalPublicKey(w.peers[k].priv.GetPublic())
	if err != nil {
		panic(err)
	}
	m.SignedMsg.Signature.PubKey = b
	mi.pk = k + 1
}

func (w *world) newMsg(signer int, kind string, seqno uint64) *minfo {
	w.tags++
	mi := &minfo{tag: w.tags, kind: kind, signer: signer, seqno: seqno, call: -1}
	data := []byte(fmt.Sprintf("payload-%d-%d", w.tags, w.rng.Intn(1000)))
	var m *signaling.SessionMsg
	var err error
	switch kind {
	case "good", "foreign":
		m, err = signaling.NewSessionMsg(w.peers[signer].priv, hash.HashType_HashType_BLAKE3, data, seqno)
	case "tampered":
		m, err = signaling.NewSessionMsg(w.peers[signer].priv, hash.HashType_HashType_BLAKE3, data, seqno)
		if err == nil {
			d := append([]byte{}, m.SignedMsg.Data...)
			d[w.rng.Intn(len(d))] ^= byte(1 + w.rng.Intn(255))
			m.SignedMsg.Data = d
		}
	case "wrongctx":
		var sm *peer.SignedMsg
		sm, err = peer.NewSignedMsg("some other context 2024", w.peers[signer].priv, hash.HashType_HashType_BLAKE3, data)
		m = &signaling.SessionMsg{SignedMsg: sm, Seqno: seqno}
	case "unsigned":
		if w.rng.Intn(2) == 0 {
			m = &signaling.SessionMsg{Seqno: seqno}
		} else {
			m = &signaling.SessionMsg{Seqno: seqno, SignedMsg: &peer.SignedMsg{FromPeerId: w.peers[signer].str, Data: data}}
		}
		mi.signer = -1
	case "spoofed-pk":
		// signed by another key K, claims `signer` as sender and carries K as signature.pub_key
		k := (signer + 1 + w.rng.Intn(len(w.peers)-1)) % len(w.peers)
		m, err = signaling.NewSessionMsg(w.peers[k].priv, hash.HashType_HashType_BLAKE3, data, seqno)
		if err == nil {
			m.SignedMsg.FromPeerId = w.peers[signer].str
			w.attachPubKey(mi, m, 1, k, signer)
		}
	case "spoofed":
		// signed by `signer` but claims to come from another peer
		m, err = signaling.NewSessionMsg(w.peers[signer].priv, hash.HashType_HashType_BLAKE3, data, seqno)
		if err == nil {
			m.SignedMsg.FromPeerId = w.peers[(signer+1)%len(w.peers)].str
		}
	default:
		panic(kind)
	}
	if err != nil {
		panic(err)
	}
	// every class also comes with the optional signature.pub_key populated
	if kind != "spoofed-pk" && mi.signer >= 0 && w.rng.Intn(3) == 0 {
		w.attachPubKey(mi, m, 1+w.rng.Intn(4), mi.signer, w.pidx(m.GetSignedMsg().GetFromPeerId()))
	}
	ok, from := verifyIndependently(m)
	mi.ver = ok
	mi.from = w.pidx(from.String())
	mi.msg = m
	w.register(mi)
	return mi
}

// derive builds a message from one that was submitted earlier on the same
// stream, keeping some fields and changing others (stateful attacker).
//   body    : same seqno, sender and signature bytes, replaced body
//   hashty  : same body and signature bytes, other hash type in the signature
//   sender  : same body and signature, from_peer_id replaced by another peer's
//   reseq   : byte-identical signed message under another message seqno (the seqno is not signed)
//   same    : byte-identical retransmit (a fresh copy)
func (w *world) derive(base *minfo, how string) *minfo {
	w.tags++
	m := base.msg.CloneVT()
	mi := &minfo{tag: w.tags, kind: "derived-" + how, signer: base.signer, seqno: base.seqno, call: -1, pk: base.pk}
	switch how {
	case "body":
		if m.SignedMsg == nil {
			m.SignedMsg = &peer.SignedMsg{}
		}
		m.SignedMsg.Data = []byte(fmt.Sprintf("forged payload %d that was never signed", w.tags))
	case "hashty":
		if m.SignedMsg != nil && m.SignedMsg.Signature != nil {
			if m.SignedMsg.Signature.HashType == hash.HashType_HashType_BLAKE3 {
				m.SignedMsg.Signature.HashType = hash.HashType_HashType_SHA256
			} else {
				m.SignedMsg.Signature.HashType = hash.HashType_HashType_BLAKE3
			}
		}
	case "sender":
		if m.SignedMsg != nil {
			m.SignedMsg.FromPeerId = w.peers[(base.signer+1+len(w.peers))%len(w.peers)].str
		}
	case "pubkey":
		// same body, sender and signature bytes, signature.pub_key (unsigned, optional) added or replaced
		mi.pk = base.pk
		w.attachPubKey(mi, m, 1+w.rng.Intn(4), base.signer, w.pidx(m.GetSignedMsg().GetFromPeerId()))
	case "reseq":
		m.Seqno = base.seqno + 1 + uint64(w.rng.Intn(2))
		mi.seqno = m.Seqno
	case "same":
	default:
		panic(how)
	}
	ok, from := verifyIndependently(m)
	mi.ver = ok
	mi.from = w.pidx(from.String())
	mi.msg = m
	// authentic = the real verification under the real key accepts exactly this body
	if (how == "reseq" || how == "same" || how == "pubkey") && base.kind == "good" {
		mi.kind = "good"
	}
	w.register(mi)
	return mi
}

func msgTerm(mi *minfo) string {
	return hx.App("Build_msg", nat(int(mi.seqno)), nat(mi.tag), hx.Bool(mi.ver), nat(mi.from), nat(mi.pk))
}

func (w *world) rSend(mi *minfo) reqSpec {
	return reqSpec{term: hx.App("RSend", msgTerm(mi)), desc: fmt.Sprintf("send %s msg#%d seqno=%d signer=p%d", mi.kind, mi.tag, mi.seqno, mi.signer),
		req: &signaling.SessionRequest{Body: &signaling.SessionRequest_SendMsg{SendMsg: mi.msg}}, mi: mi}
}
func rAck(n uint64) reqSpec {
	return reqSpec{ctl: "ack", n: n, term: hx.App("RAck", nat(int(n))), desc: fmt.Sprintf("ack %d", n),
		req: &signaling.SessionRequest{Body: &signaling.SessionRequest_AckMsg{AckMsg: n}}}
}
func rClear(n uint64) reqSpec {
	return reqSpec{ctl: "clear", n: n, term: hx.App("RClear", nat(int(n))), desc: fmt.Sprintf("clear %d", n),
		req: &signaling.SessionRequest{Body: &signaling.SessionRequest_ClearMsg{ClearMsg: n}}}
}
func (w *world) rInit(dst int) reqSpec {
	return reqSpec{term: hx.App("RInit", hx.Opt(true, nat(dst))), desc: fmt.Sprintf("init p%d", dst),
		req: &signaling.SessionRequest{Body: &signaling.SessionRequest_Init{Init: &signaling.SessionInit{PeerId: w.peers[dst].str}}}}
}
func (w *world) rInitBad() reqSpec {
	s := ""
	if w.rng.Intn(2) == 0 {
		s = "!!not-a-peer-id!!"
	}
	return reqSpec{term: "(RInit None)", desc: fmt.Sprintf("init %q", s),
		req: &signaling.SessionRequest{Body: &signaling.SessionRequest_Init{Init: &signaling.SessionInit{PeerId: s}}}}
}
func rUnknown() reqSpec {
	return reqSpec{term: "RUnknown", desc: "empty body", req: &signaling.SessionRequest{}}
}
func rEOF() reqSpec { return reqSpec{term: "REof", desc: "stream error"} }

// ---- direct property oracle ----

func (w *world) fail(prop, key, what string) {
	if prop != w.c.Prop {
		// clauses of the sibling properties are evaluated by their own check
		return
	}
	if w.failed[key] {
		return
	}
	w.failed[key] = true
	w.c.Failf(key, map[string]any{"peers": len(w.peers), "script": append([]string{}, w.descs...)}, "%s", what)
}

func lastAnn(out []resp) (open bool, epoch uint64, any bool) {
	for i := len(out) - 1; i >= 0; i-- {
		switch out[i].kind {
		case 0:
			return true, out[i].n, true
		case 1:
			return false, 0, true
		}
	}
	return false, 0, false
}

// oracle runs at every quiescent point.
func (w *world) oracle(st sigsrv.VerifSnapshot) {
	// open session requests (harness bookkeeping: valid init, handler not returned)
	type pair struct{ src, dst int }
	open := map[pair][]*scall{}
	for _, s := range w.scalls {
		if s.valid && !s.isDone() {
			open[pair{s.src, s.dst}] = append(open[pair{s.src, s.dst}], s)
		}
	}
	// a call ends with the replaced error only if a newer call for the same key was started
	for i, l := range w.lcalls {
		if l.isDone() && classify(l.err) == eReplaced {
			newer := false
			for _, l2 := range w.lcalls[i+1:] {
				newer = newer || l2.p == l.p
			}
			if !newer {
				w.fail("C25", "replaced-without-replacement", fmt.Sprintf("L%d of p%d ended with the replaced error but no newer Listen call of p%d exists", l.id, l.p, l.p))
			}
		}
	}
	for i, s := range w.scalls {
		if s.valid && s.isDone() && classify(s.err) == eReplaced {
			newer := false
			for _, s2 := range w.scalls[i+1:] {
				newer = newer || (s2.valid && s2.src == s.src && s2.dst == s.dst)
			}
			if !newer {
				w.fail("C25", "replaced-without-replacement", fmt.Sprintf("S%d (p%d->p%d) ended with the replaced error but no newer Session call for that pair exists", s.id, s.src, s.dst))
			}
		}
	}
	// the clauses about quiescent states are evaluated only when no stream is gated
	if !w.anyGated() {
	// C25: one session per ordered pair, one listen per peer, replaced calls end with the replaced error
	for k, l := range open {
		if len(l) > 1 {
			w.fail("C25", "two-active-sessions", fmt.Sprintf("%d Session calls p%d->p%d are active at quiescence", len(l), k.src, k.dst))
		}
	}
	activeL := map[int][]*lcall{}
	for _, l := range w.lcalls {
		if !l.isDone() {
			activeL[l.p] = append(activeL[l.p], l)
		}
	}
	for p, l := range activeL {
		if len(l) > 1 {
			w.fail("C25", "two-active-listens", fmt.Sprintf("%d Listen calls of p%d are active at quiescence", len(l), p))
		}
	}
	// a call that was followed by a newer call with the same key must have ended; with the replaced error unless it was ended otherwise first
	lastL := map[int]*lcall{}
	for _, l := range w.lcalls {
		if prev := lastL[l.p]; prev != nil && !prev.isDone() {
			w.fail("C25", "listen-not-replaced", fmt.Sprintf("L%d of p%d still active after L%d started", prev.id, l.p, l.id))
		}
		lastL[l.p] = l
	}
	lastS := map[pair]*scall{}
	for _, s := range w.scalls {
		if !s.valid {
			continue
		}
		k := pair{s.src, s.dst}
		if prev := lastS[k]; prev != nil && !prev.isDone() {
			w.fail("C25", "session-not-replaced", fmt.Sprintf("S%d p%d->p%d still active after S%d started", prev.id, s.src, s.dst, s.id))
		}
		lastS[k] = s
	}
	// all calls ended => no relay state
	allDone := true
	for _, l := range w.lcalls {
		allDone = allDone && l.isDone()
	}
	for _, s := range w.scalls {
		allDone = allDone && s.isDone()
	}
	if allDone && (len(st.Peers) != 0 || len(st.Sessions) != 0) {
		w.fail("C25", "leftover-state", fmt.Sprintf("all calls ended but relay keeps %d peer trackers and %d sessions", len(st.Peers), len(st.Sessions)))
	}
	// C24: announced set == peers with an open session request towards the listener
	for p, ls := range activeL {
		if len(ls) != 1 {
			continue
		}
		l := ls[0]
		ann := map[int]bool{}
		l.mu.Lock()
		for _, e := range l.out {
			if e%2 == 1 {
				ann[e/2] = true
			} else {
				delete(ann, e/2)
			}
		}
		l.mu.Unlock()
		want := map[int]bool{}
		for k, v := range open {
			if k.dst == p && len(v) > 0 {
				want[k.src] = true
			}
		}
		if !sameSet(ann, want) {
			w.fail("C24", "listener-set-mismatch", fmt.Sprintf("L%d of p%d: announced %v, peers with an open session request %v", l.id, p, keys(ann), keys(want)))
		}
	}
	// C22: both attached => each was told the current epoch; alone => not told "open"
	for _, v := range st.Sessions {
		a, b := w.idx[v.PeerA], w.idx[v.PeerB]
		ca, cb := open[pair{a, b}], open[pair{b, a}]
		if len(ca) == 1 && len(cb) == 1 {
			for _, s := range []*scall{ca[0], cb[0]} {
				s.mu.Lock()
				isOpen, ep, _ := lastAnn(s.out)
				s.mu.Unlock()
				if !isOpen || ep != v.Seqno {
					w.fail("C22", "epoch-not-announced", fmt.Sprintf("S%d (p%d->p%d): both peers attached at epoch %d but last announcement is open=%v epoch=%d", s.id, s.src, s.dst, v.Seqno, isOpen, ep))
				}
			}
		} else {
			for _, l := range [][]*scall{ca, cb} {
				if len(l) == 1 {
					s := l[0]
					s.mu.Lock()
					isOpen, ep, _ := lastAnn(s.out)
					s.mu.Unlock()
					if isOpen {
						w.fail("C22", "close-not-announced", fmt.Sprintf("S%d (p%d->p%d): partner not attached but last announcement is Opened(%d)", s.id, s.src, s.dst, ep))
					}
				}
			}
		}
	}
	}
	// per delivered message: C20 authenticity/routing and C22 no cross-epoch delivery
	for _, s := range w.scalls {
		s.mu.Lock()
		out := append([]resp{}, s.out...)
		s.mu.Unlock()
		// every response is judged once, when it is first observed (a later byte-identical
		// submission must not be confused with the one that was delivered)
		if s.chkRecv == nil {
			s.chkRecv = map[uint64]bool{}
		}
		curOpen, curEp, recvInEpoch := s.chkOpen, s.chkEp, s.chkRecv
		todo := out[s.chk:]
		s.chk = len(out)
		defer func(s *scall) { s.chkOpen, s.chkEp, s.chkRecv = curOpen, curEp, recvInEpoch }(s)
		for _, r := range todo {
			switch r.kind {
			case 0:
				curOpen, curEp = true, r.n
				recvInEpoch = map[uint64]bool{}
			case 1:
				curOpen = false
				recvInEpoch = map[uint64]bool{}
			case 2: // ack n: this call must have submitted a message n in the epoch last announced to it
				ok := false
				for _, mi := range w.msgs {
					if mi.call == s.id && mi.seqno == r.n && mi.hadSess && mi.subEpoch == curEp && mi.subSeq == curEp {
						ok = true
					}
				}
				if !curOpen || !ok {
					w.fail("C22", "cross-epoch-ack", fmt.Sprintf("S%d got AckMsg(%d) in epoch open=%v %d without having submitted message %d in that epoch", s.id, r.n, curOpen, curEp, r.n))
				}
				// and the partner must have acknowledged it with a request stamped with THIS epoch
				if curOpen && !w.stamped(s, "ack", r.n, curEp) {
					w.fail("C22", "cross-epoch-ack", fmt.Sprintf("S%d got AckMsg(%d) in epoch %d but its partner never submitted an ack of %d stamped with epoch %d (an ack of an older epoch was credited)", s.id, r.n, curEp, r.n, curEp))
				}
			case 3: // clear n: the message n must have been delivered to this call in the same epoch
				if !curOpen || !recvInEpoch[r.n] {
					w.fail("C22", "cross-epoch-clear", fmt.Sprintf("S%d got ClearMsg(%d) in epoch open=%v %d without a RecvMsg %d in that epoch", s.id, r.n, curOpen, curEp, r.n))
				}
				if curOpen && !w.stamped(s, "clear", r.n, curEp) {
					w.fail("C22", "cross-epoch-clear", fmt.Sprintf("S%d got ClearMsg(%d) in epoch %d but its partner never submitted a clear of %d stamped with epoch %d", s.id, r.n, curEp, r.n, curEp))
				}
			case 4:
				key := msgKey(r.m)
				subs := w.subs[key]
				if len(subs) == 0 {
					w.fail("C20", "forwarded-unknown-message", fmt.Sprintf("S%d received a message no client submitted", s.id))
					continue
				}
				// the relay sees bytes: judge the delivery against every submission of these
				// bytes and report only if none of them justifies it
				type verdict struct{ prop, key, what string }
				judge := func(mi *minfo) []verdict {
					var v []verdict
					if mi.call < 0 {
						return []verdict{{"C20", "forwarded-unknown-message", fmt.Sprintf("S%d received msg#%d that was never submitted", s.id, mi.tag)}}
					}
					if ok, verr := w.signedBy(r.m, w.scalls[mi.call].src); !ok {
						return []verdict{{"C20", "forwarded-does-not-verify", fmt.Sprintf("S%d (p%d) received %s msg#%d whose body is not signed by the key of the stream that submitted it (p%d): %v", s.id, s.src, mi.kind, mi.tag, w.scalls[mi.call].src, verr)}}
					}
					if mi.kind != "good" {
						return []verdict{{"C20", "forwarded-unauthentic-" + mi.kind, fmt.Sprintf("S%d (p%d) received %s msg#%d", s.id, s.src, mi.kind, mi.tag)}}
					}
					from := w.scalls[mi.call]
					if mi.signer != from.src {
						v = append(v, verdict{"C20", "forwarded-foreign-signer", fmt.Sprintf("msg#%d signed by p%d was submitted on the stream of p%d and forwarded", mi.tag, mi.signer, from.src)})
					}
					if !(from.valid && from.dst == s.src && s.dst == from.src) {
						v = append(v, verdict{"C20", "forwarded-to-wrong-peer", fmt.Sprintf("msg#%d submitted on S%d (p%d->p%d) was delivered to S%d (p%d->p%d)", mi.tag, from.id, from.src, from.dst, s.id, s.src, s.dst)})
					}
					if mi.subSeq != mi.subEpoch {
						v = append(v, verdict{"C20", "forwarded-wrong-epoch", fmt.Sprintf("msg#%d submitted with session seqno %d at relay epoch %d was forwarded", mi.tag, mi.subSeq, mi.subEpoch)})
					}
					if !curOpen || curEp != mi.subEpoch {
						v = append(v, verdict{"C22", "cross-epoch-delivery", fmt.Sprintf("msg#%d submitted in epoch %d delivered to S%d after announcement open=%v epoch=%d", mi.tag, mi.subEpoch, s.id, curOpen, curEp)})
					}
					return v
				}
				var worst []verdict
				ok := false
				for i := len(subs) - 1; i >= 0; i-- {
					v := judge(subs[i])
					if len(v) == 0 {
						ok = true
						break
					}
					if worst == nil {
						worst = v
					}
				}
				if !ok {
					for _, v := range worst {
						w.fail(v.prop, v.key, v.what)
					}
				}
				recvInEpoch[r.m.GetSeqno()] = true
			}
		}
	}
}

func nat(v int) string { return strconv.Itoa(v) }
func act(ctor string, args ...string) string { return hx.App("Act", hx.App(ctor, args...)) }
func natList(l []int) string {
	items := make([]string, len(l))
	for i, b := range l {
		items[i] = nat(b)
	}
	return hx.List(items)
}

func sameSet(a, b map[int]bool) bool {
	if len(a) != len(b) {
		return false
	}
	for k := range a {
		if !b[k] {
			return false
		}
	}
	return true
}
func keys(m map[int]bool) []int {
	var o []int
	for k := range m {
		o = append(o, k)
	}
	sort.Ints(o)
	return o
}

// ---- script generation ----

func (w *world) liveS() []*scall {
	var o []*scall
	for _, s := range w.scalls {
		if !s.isDone() {
			o = append(o, s)
		}
	}
	return o
}
func (w *world) liveL() []*lcall {
	var o []*lcall
	for _, l := range w.lcalls {
		if !l.isDone() {
			o = append(o, l)
		}
	}
	return o
}

// weights per property: listen, attach, valid traffic, malicious traffic, detach
type profile struct{ listen, attach, traffic, evil, stateful, detach, badStart, gate int }

var profiles = map[string]profile{
	"C20": {listen: 1, attach: 5, traffic: 8, evil: 6, stateful: 6, detach: 2, badStart: 2, gate: 2},
	"C22": {listen: 1, attach: 8, traffic: 7, evil: 5, stateful: 2, detach: 5, badStart: 1, gate: 3},
	"C24": {listen: 6, attach: 8, traffic: 1, evil: 1, stateful: 0, detach: 6, badStart: 1, gate: 4},
	"C25": {listen: 6, attach: 7, traffic: 2, evil: 2, stateful: 1, detach: 7, badStart: 1, gate: 4},
}

func (w *world) lastRecv(s *scall) (uint64, bool) {
	s.mu.Lock()
	defer s.mu.Unlock()
	for i := len(s.out) - 1; i >= 0; i-- {
		if s.out[i].kind == 4 {
			return s.out[i].m.GetSeqno(), true
		}
	}
	return 0, false
}

// olderEpoch: one of the epochs before the current one, the most recent ones more often.
func (w *world) olderEpoch(s *scall) uint64 {
	ep, _ := w.epochOf(s)
	if ep == 0 {
		return 0
	}
	d := uint64(1 + w.rng.Intn(3))
	if d > ep {
		d = ep
	}
	return ep - d
}

func (w *world) seqFor(s *scall, style int) uint64 {
	ep, _ := w.epochOf(s)
	switch style {
	case 0:
		return ep
	case 1: // stale
		if ep == 0 {
			return 0
		}
		return uint64(w.rng.Intn(int(ep)))
	default: // future
		return ep + 1 + uint64(w.rng.Intn(3))
	}
}

func (w *world) script(nops int, pf profile) {
	np := len(w.peers)
	const maxL, maxS = 7, 12
	total := pf.listen + pf.attach + pf.traffic + pf.evil + pf.stateful + pf.detach + pf.badStart + pf.gate
	ttlL := map[*lcall]int{}
	ttlS := map[*scall]int{}
	for i := 0; i < nops; i++ {
		// gates stay closed for 1-4 further operations
		for _, l := range w.lcalls {
			if t, ok := ttlL[l]; ok {
				if t <= 0 {
					delete(ttlL, l)
					if l.isParked() && w.rng.Intn(3) == 0 {
						w.abortL(l)
						w.c.Class("op-abort-parked-listen")
					} else {
						w.openL(l)
					}
				} else {
					ttlL[l] = t - 1
				}
			}
		}
		for _, sc := range w.scalls {
			if t, ok := ttlS[sc]; ok {
				if t <= 0 {
					delete(ttlS, sc)
					if sc.isParked() && w.rng.Intn(3) == 0 {
						w.abortS(sc, w.rng.Intn(2) == 0)
						w.c.Class("op-abort-parked-session")
					} else {
						w.openS(sc)
					}
				} else {
					ttlS[sc] = t - 1
				}
			}
		}
		x := w.rng.Intn(total)
		switch {
		case x >= total-pf.gate:
			if w.rng.Intn(2) == 0 {
				if ls := w.freeL(); len(ls) > 0 {
					l := ls[w.rng.Intn(len(ls))]
					w.gateL(l)
					ttlL[l] = 1 + w.rng.Intn(4)
					w.c.Class("op-gate-listen")
				}
			} else if ls := w.freeS(); len(ls) > 0 {
				sc := ls[w.rng.Intn(len(ls))]
				w.gateS(sc)
				ttlS[sc] = 1 + w.rng.Intn(4)
				w.c.Class("op-gate-session")
			}
		case x < pf.listen:
			if len(w.lcalls) < maxL {
				p := w.rng.Intn(np)
				if gl := w.gatedListenPeers(); len(gl) > 0 && w.rng.Intn(2) == 0 {
					p = gl[w.rng.Intn(len(gl))]
				}
				w.listenStart(p)
				w.c.Class("op-listen-start")
			}
		case x < pf.listen+pf.attach:
			if len(w.scalls) < maxS {
				src := w.rng.Intn(np)
				dst := w.rng.Intn(np - 1)
				if dst >= src {
					dst++
				}
				// bias towards pairs already in use so that usurps and re-attachments are frequent
				if ls := w.scalls; len(ls) > 0 && w.rng.Intn(3) != 0 {
					o := ls[w.rng.Intn(len(ls))]
					if o.valid {
						if w.rng.Intn(2) == 0 {
							src, dst = o.src, o.dst
						} else {
							src, dst = o.dst, o.src
						}
					}
				}
				// while a listener is gated, aim at its peer so that wants change under it
				if gl := w.gatedListenPeers(); len(gl) > 0 && w.rng.Intn(2) == 0 {
					dst = gl[w.rng.Intn(len(gl))]
					src = w.rng.Intn(np - 1)
					if src >= dst {
						src++
					}
				}
				w.sessStart(src, 0, w.rInit(dst), dst, true)
				w.c.Class("op-session-start")
			}
		case x < pf.listen+pf.attach+pf.traffic:
			ls := w.liveS()
			if len(ls) == 0 {
				continue
			}
			s := ls[w.rng.Intn(len(ls))]
			switch w.rng.Intn(4) {
			case 0, 1:
				mi := w.newMsg(s.src, "good", uint64(1+w.rng.Intn(3)))
				// a gated call must not be sent a request that makes its read goroutine fail (an
				// unparsable attached key does): after the gate opens Go's select would be a coin toss
				for k := 0; s.isGated() && !mi.ver && k < 8; k++ {
					mi = w.newMsg(s.src, "good", uint64(1+w.rng.Intn(3)))
				}
				if s.isGated() && !mi.ver {
					continue
				}
				w.sessReq(s, w.seqFor(s, 0), w.rSend(mi))
				w.c.Class("op-send-good")
			case 2:
				if n, ok := w.lastRecv(s); ok {
					w.sessReq(s, w.seqFor(s, 0), rAck(n))
					w.c.Class("op-ack-received")
				}
			default:
				if s.lastSent != nil {
					w.sessReq(s, w.seqFor(s, 0), rClear(s.lastSent.seqno))
					w.c.Class("op-clear-sent")
				}
			}
		case x < pf.listen+pf.attach+pf.traffic+pf.evil:
			ls := w.freeS()
			if len(ls) == 0 {
				continue
			}
			s := ls[w.rng.Intn(len(ls))]
			switch w.rng.Intn(10) {
			case 0:
				w.sessReq(s, w.seqFor(s, 0), w.rSend(w.newMsg((s.src+1+w.rng.Intn(np-1))%np, "foreign", uint64(1+w.rng.Intn(3)))))
				w.c.Class("op-send-foreign-signer")
			case 1:
				kinds := []string{"tampered", "wrongctx", "unsigned", "spoofed", "spoofed-pk", "spoofed-pk"}
				w.sessReq(s, w.seqFor(s, 0), w.rSend(w.newMsg(s.src, kinds[w.rng.Intn(len(kinds))], uint64(1+w.rng.Intn(3)))))
				w.c.Class("op-send-unverifiable")
			case 2:
				if w.rng.Intn(2) == 0 {
					// session_seqno 0 is not encoded on the wire (proto3 default) and must still be read as 0
					w.sessReq(s, w.seqFor(s, 0), rAck(uint64(100+w.rng.Intn(4))))
					w.sessReq(s, 0, w.rSend(w.newMsg(s.src, "good", uint64(1+w.rng.Intn(3)))))
					w.c.Class("op-send-epoch-zero-after-current")
				} else {
					w.sessReq(s, w.seqFor(s, 1), w.rSend(w.newMsg(s.src, "good", uint64(1+w.rng.Intn(3)))))
					w.c.Class("op-send-stale-epoch")
				}
			case 3:
				w.sessReq(s, w.seqFor(s, 2), w.rSend(w.newMsg(s.src, "good", uint64(1+w.rng.Intn(3)))))
				w.c.Class("op-send-future-epoch")
			case 4:
				w.sessReq(s, w.seqFor(s, 0), rAck(uint64(w.rng.Intn(4))))
				w.c.Class("op-ack-unsolicited")
			case 5:
				w.sessReq(s, w.seqFor(s, 0), rClear(uint64(w.rng.Intn(4))))
				w.c.Class("op-clear-unsolicited")
			case 6:
				if n, ok := w.lastRecv(s); ok && w.rng.Intn(2) == 0 {
					// a delayed ack of the message currently held, stamped with an older epoch
					// (message seqnos restart after a re-open, so the seqno may match again)
					w.sessReq(s, w.olderEpoch(s), rAck(n))
					w.c.Class("op-ack-received-stale-tag")
				} else {
					w.sessReq(s, w.seqFor(s, 1+w.rng.Intn(2)), rAck(uint64(w.rng.Intn(4))))
					w.c.Class("op-ack-wrong-epoch")
				}
			case 7:
				if s.lastSent != nil && w.rng.Intn(2) == 0 {
					w.sessReq(s, w.olderEpoch(s), rClear(s.lastSent.seqno))
					w.c.Class("op-clear-sent-stale-tag")
				} else {
					w.sessReq(s, w.seqFor(s, 1+w.rng.Intn(2)), rClear(uint64(w.rng.Intn(4))))
					w.c.Class("op-clear-wrong-epoch")
				}
			case 8:
				if w.rng.Intn(2) == 0 {
					w.sessReq(s, w.seqFor(s, 0), rUnknown())
				} else {
					w.sessReq(s, w.seqFor(s, 0), w.rInit(s.src))
				}
				w.c.Class("op-unexpected-request")
			default:
				w.sessReq(s, 0, rEOF())
				w.c.Class("op-stream-error")
			}
		case x < pf.listen+pf.attach+pf.traffic+pf.evil+pf.stateful:
			// stateful attacker: variants derived from what this stream submitted before
			var cands []*scall
			for _, s := range w.freeS() {
				if s.lastSent != nil {
					cands = append(cands, s)
				}
			}
			if len(cands) == 0 {
				continue
			}
			s := cands[w.rng.Intn(len(cands))]
			hows := []string{"body", "body", "hashty", "sender", "reseq", "same", "same", "pubkey", "pubkey"}
			how := hows[w.rng.Intn(len(hows))]
			base := s.lastSent
			if base.kind != "good" && s.lastGood != nil && w.rng.Intn(2) == 0 {
				base = s.lastGood
			}
			w.sessReq(s, w.seqFor(s, 0), w.rSend(w.derive(base, how)))
			w.c.Class("op-derived-" + how)
		case x < pf.listen+pf.attach+pf.traffic+pf.evil+pf.stateful+pf.detach:
			if w.rng.Intn(3) == 0 {
				if ls := w.freeL(); len(ls) > 0 {
					w.listenCancel(ls[w.rng.Intn(len(ls))])
					w.c.Class("op-listen-cancel")
				}
			} else if ls := w.freeS(); len(ls) > 0 {
				pick := ls[w.rng.Intn(len(ls))]
				if gl := w.gatedListenPeers(); len(gl) > 0 {
					for _, sc := range ls {
						if sc.valid && sc.dst == gl[0] {
							pick = sc
						}
					}
				}
				w.sessCancel(pick)
				w.c.Class("op-session-cancel")
			}
		default:
			if len(w.scalls) >= maxS {
				continue
			}
			src := w.rng.Intn(np)
			dst := (src + 1) % np
			var s *scall
			switch w.rng.Intn(6) {
			case 0: // request before Init
				s = w.sessStart(src, 0, w.rSend(w.newMsg(src, "good", 1)), -1, false)
			case 1:
				s = w.sessStart(src, 0, rAck(0), -1, false)
			case 2: // non-zero seqno on init
				s = w.sessStart(src, uint64(1+w.rng.Intn(3)), w.rInit(dst), -1, false)
			case 3:
				s = w.sessStart(src, 0, w.rInitBad(), -1, false)
			case 4: // self dial
				s = w.sessStart(src, 0, w.rInit(src), -1, false)
			default:
				s = w.sessStart(src, 0, rEOF(), -1, false)
			}
			w.c.Class("op-bad-first-request")
			if !s.isDone() {
				w.fail("C20", "bad-init-accepted", fmt.Sprintf("S%d: first request was not a valid Init with seqno 0 but the call did not end", s.id))
			}
		}
	}
}

// finish optionally ends every call (C25 "no leftover state") and emits the case.
func (w *world) finish(endAll bool) {
	w.openAll()
	if endAll {
		for _, s := range w.liveS() {
			w.sessCancel(s)
		}
		for _, l := range w.liveL() {
			w.listenCancel(l)
		}
	}
	st := w.srv.VerifState()
	np := len(w.peers)
	lobs := make([]string, len(w.lcalls))
	for i, l := range w.lcalls {
		segs := make([]string, len(l.segs))
		for j, sg := range l.segs {
			segs[j] = natList(sg)
		}
		fin := "None"
		if l.isDone() {
			fin = hx.Opt(true, nat(classify(l.err)))
		}
		lobs[i] = "(" + hx.List(segs) + ", " + fin + ")"
	}
	sobs := make([]string, len(w.scalls))
	nontrivial := 0
	for i, s := range w.scalls {
		rs := make([]string, len(s.out))
		for j, r := range s.out {
			switch r.kind {
			case 0:
				rs[j] = hx.App("SOpened", nat(int(r.n)))
			case 1:
				rs[j] = "SClosed"
			case 2:
				rs[j] = hx.App("SAck", nat(int(r.n)))
			case 3:
				rs[j] = hx.App("SClear", nat(int(r.n)))
			case 4:
				if mi := w.byKey[msgKey(r.m)]; mi != nil {
					rs[j] = hx.App("SRecv", msgTerm(mi))
				} else {
					rs[j] = "(SRecv (Build_msg 0 0 false 0 0))"
				}
				nontrivial++
			default:
				rs[j] = "(SAck 999999)"
			}
		}
		fin := "None"
		if s.isDone() {
			fin = hx.Opt(true, nat(classify(s.err)))
		}
		sobs[i] = "(" + hx.List(rs) + ", " + fin + ")"
	}
	sizes := make([]string, len(w.sizes))
	for i, z := range w.sizes {
		sizes[i] = fmt.Sprintf("(%s, %s, %s)", nat(z[0]), nat(z[1]), nat(z[2]))
	}
	pv := make([]string, np)
	for p := 0; p < np; p++ {
		if v, ok := st.Peers[w.peers[p].str]; ok {
			ws := make([]int, len(v.Wants))
			for i, q := range v.Wants {
				ws[i] = w.pidx(q)
			}
			sort.Ints(ws)
			pv[p] = fmt.Sprintf("(Some (%s, %s))", hx.Bool(v.Listening), natList(ws))
		} else {
			pv[p] = "None"
		}
	}
	var sv []string
	for p := 0; p < np; p++ {
		for q := p + 1; q < np; q++ {
			t := "None"
			for _, v := range st.Sessions {
				if v.PeerA == w.peers[p].str && v.PeerB == w.peers[q].str {
					t = fmt.Sprintf("(Some (%s, %s, %s))", nat(int(v.Seqno)), hx.Bool(v.AttachedA), hx.Bool(v.AttachedB))
				}
			}
			sv = append(sv, t)
		}
	}
	term := fmt.Sprintf("({| rc_np := %s; rc_nl := %s; rc_ns := %s;\n     rc_ops := %s;\n     rc_lobs := %s;\n     rc_sobs := %s;\n     rc_sizes := %s;\n     rc_peers := %s;\n     rc_sess := %s |})%%nat",
		nat(np), nat(len(w.lcalls)), nat(len(w.scalls)), hx.List(w.ops), hx.List(lobs), hx.List(sobs), hx.List(sizes), hx.List(pv), hx.List(sv))
	w.c.Case(term, map[string]any{"peers": np, "script": w.descs})
	if nontrivial > 0 || len(w.lcalls) > 0 {
		w.c.Nontrivial(strings.Join(w.descs, ";"))
	}
	// release everything (not part of the case)
	for _, s := range w.scalls {
		s.cancel()
		s.closeStream()
	}
	for _, l := range w.lcalls {
		l.cancel()
	}
	for i := 0; i < 20; i++ {
		runtime.Gosched()
	}
}

// raceRounds: oracle only, no Coq case. A multi-megabyte message keeps the
// relay's read goroutine busy verifying (hashing) for milliseconds; meanwhile
// the partner detaches and re-attaches. No message stamped epoch e may be
// delivered after Opened(e') with e' > e (checked by the per-delivery oracle).
func raceRounds(c *hx.Ctx, rounds int) {
	runtime.GOMAXPROCS(4)
	defer runtime.GOMAXPROCS(1)
	for i := 0; i < rounds; i++ {
		w := newWorld(c, 2)
		w.timed = true
		a := w.sessStart(0, 0, w.rInit(1), 1, true)
		b := w.sessStart(1, 0, w.rInit(0), 0, true)
		w.tags++
		data := make([]byte, 6<<20)
		for j := 0; j < len(data); j += 4096 {
			data[j] = byte(c.Rng.Intn(256))
		}
		m, err := signaling.NewSessionMsg(w.peers[0].priv, hash.HashType_HashType_SHA256, data, 1)
		if err != nil {
			panic(err)
		}
		mi := &minfo{tag: w.tags, kind: "good", signer: 0, seqno: 1, call: a.id, ver: true, from: 0, msg: m}
		w.register(mi)
		ep, had := w.epochOf(a)
		mi.subSeq, mi.subEpoch, mi.hadSess = ep, ep, had
		w.byKey[mi.key] = mi
		w.subs[mi.key] = append(w.subs[mi.key], mi)
		delay := time.Duration(50+c.Rng.Intn(2500)) * time.Microsecond
		w.record("race", fmt.Sprintf("S%d<-{seq=%d send good %d-byte msg#%d}; after %v: cancel S%d and re-attach p1, without waiting for the relay", a.id, ep, len(data), mi.tag, delay, b.id))
		req := &signaling.SessionRequest{SessionSeqno: ep, Body: &signaling.SessionRequest_SendMsg{SendMsg: m}}
		a.reqCh <- wire(req)
		time.Sleep(delay)
		b.cancel()
		w.sessStart(1, 0, w.rInit(0), 0, true)
		w.afterOp()
		c.Eval()
		c.Class("race-big-message-vs-reopen")
		for _, s := range w.scalls {
			s.cancel()
			s.closeStream()
		}
		time.Sleep(2 * time.Millisecond)
	}
}

func run(c *hx.Ctx) {
	c.Imports = "SignalRelay.Model SignalRelay.Run"
	c.Type = "relay_case"
	c.Agree = "relay_agree"
	c.ShardSize = 40
	pf, ok := profiles[c.Prop]
	if !ok {
		panic("unknown property " + c.Prop)
	}
	c.Rule = "one case = one script of 6-40 scripted operations (listen start/cancel/usurp, session attach/usurp/detach/re-attach, sends with good/foreign/tampered/wrong-context/unsigned/spoofed signatures made with real keys, stateful variants derived from messages the same stream submitted before (same signature+sender+seqno with another body / hash type / sender, same signed bytes under another seqno, byte-identical retransmit, also across re-opens), zero-valued fields right after non-zero ones on a byte-faithful stream (requests are marshalled and unmarshalled into the callee's object), gated streams (a call parked inside strm.Send for 1-4 further operations, listen and session calls), current/stale/future session seqnos, solicited and unsolicited ack/clear, requests before Init, stream errors) applied to a fresh real Server by 3-4 authenticated clients, waiting for quiescence after every operation; compared: every stream's responses, every call's final error class, map sizes after every operation, final trackers and sessions; non-trivial = script with a delivered message or a listen call"
	fixed(c)
	if c.Prop == "C22" {
		rounds := 20
		if c.Tier == "thorough" {
			rounds = 60
		}
		raceRounds(c, rounds)
	}
	for i := 0; i < c.N; i++ {
		np := 3
		if c.Rng.Intn(4) == 0 {
			np = 4
		}
		w := newWorld(c, np)
		nops := 6 + c.Rng.Intn(30)
		w.script(nops, pf)
		endAll := c.Rng.Intn(3) == 0
		if c.Prop == "C25" {
			endAll = c.Rng.Intn(3) != 0
		}
		w.finish(endAll)
	}
}

// fixed scripts: the histories named in the property texts and in DESIGN.md.
func fixed(c *hx.Ctx) {
	// attach, attach, usurp, message, ack, detach, re-attach
	{
		w := newWorld(c, 3)
		a := w.sessStart(0, 0, w.rInit(1), 1, true)
		b := w.sessStart(1, 0, w.rInit(0), 0, true)
		m := w.newMsg(0, "good", 1)
		w.sessReq(a, w.seqFor(a, 0), w.rSend(m))
		w.sessReq(b, w.seqFor(b, 0), rAck(1))
		b2 := w.sessStart(1, 0, w.rInit(0), 0, true) // usurp while b is registered
		w.sessReq(a, 2, w.rSend(w.newMsg(0, "good", 2)))  // stale epoch: dropped
		w.sessReq(a, w.seqFor(a, 0), w.rSend(w.newMsg(0, "good", 3)))
		w.sessCancel(b2)
		b3 := w.sessStart(1, 0, w.rInit(0), 0, true)
		w.sessReq(b3, w.seqFor(b3, 0), w.rSend(w.newMsg(1, "good", 1)))
		w.sessReq(b3, w.seqFor(b3, 0), rClear(1))
		w.c.Class("fixed-reopen")
		w.finish(true)
	}
	// a pending clear (never broadcast by itself) must not survive a re-open
	{
		w := newWorld(c, 3)
		a := w.sessStart(0, 0, w.rInit(2), 2, true)
		b := w.sessStart(2, 0, w.rInit(0), 0, true)
		w.sessReq(a, w.seqFor(a, 0), w.rSend(w.newMsg(0, "good", 1)))
		w.sessReq(a, w.seqFor(a, 0), rClear(1)) // b.recvClear pending, nobody woken
		a2 := w.sessStart(0, 0, w.rInit(2), 2, true) // usurp: epoch change at registration
		w.sessReq(a2, w.seqFor(a2, 0), w.rSend(w.newMsg(0, "good", 2)))
		w.sessReq(a2, w.seqFor(a2, 0), rClear(2))
		w.sessCancel(a2) // epoch change at cleanup
		w.sessStart(0, 0, w.rInit(2), 2, true)
		w.sessReq(b, w.seqFor(b, 0), w.rSend(w.newMsg(2, "good", 5)))
		w.c.Class("fixed-pending-clear")
		w.finish(true)
	}
	// listen, open, close, open (the tracker must survive); second listen usurps
	{
		w := newWorld(c, 3)
		w.listenStart(1)
		s := w.sessStart(0, 0, w.rInit(1), 1, true)
		w.sessCancel(s)
		w.sessStart(0, 0, w.rInit(1), 1, true)
		w.sessStart(2, 0, w.rInit(1), 1, true)
		w.listenStart(1)
		w.listenCancel(w.lcalls[1])
		w.listenStart(1)
		w.c.Class("fixed-listen")
		w.finish(true)
	}
	// stateful attacker: authentic message, then the same seqno/sender/signature with another body,
	// also across a re-open, plus legitimate retransmits
	{
		w := newWorld(c, 3)
		a := w.sessStart(0, 0, w.rInit(1), 1, true)
		w.sessStart(1, 0, w.rInit(0), 0, true)
		m := w.newMsg(0, "good", 1)
		w.sessReq(a, w.seqFor(a, 0), w.rSend(m))
		w.sessReq(a, w.seqFor(a, 0), w.rSend(w.derive(m, "same")))
		w.sessReq(a, w.seqFor(a, 0), w.rSend(w.derive(m, "reseq")))
		w.sessReq(a, w.seqFor(a, 0), w.rSend(w.derive(m, "body")))
		w.c.Class("fixed-stateful")
		w.finish(false)
	}
	{
		w := newWorld(c, 3)
		a := w.sessStart(0, 0, w.rInit(1), 1, true)
		b := w.sessStart(1, 0, w.rInit(0), 0, true)
		m := w.newMsg(0, "good", 1)
		w.sessReq(a, w.seqFor(a, 0), w.rSend(m))
		w.sessCancel(b)
		w.sessStart(1, 0, w.rInit(0), 0, true) // re-open on a's stream
		w.sessReq(a, w.seqFor(a, 0), w.rSend(w.derive(m, "same"))) // legitimate retransmit
		w.sessReq(a, w.seqFor(a, 0), w.rSend(w.derive(m, "hashty")))
		w.c.Class("fixed-stateful")
		w.finish(false)
	}
	{
		w := newWorld(c, 3)
		a := w.sessStart(0, 0, w.rInit(1), 1, true)
		w.sessStart(1, 0, w.rInit(0), 0, true)
		m := w.newMsg(0, "good", 2)
		w.sessReq(a, w.seqFor(a, 0), w.rSend(m))
		w.sessReq(a, w.seqFor(a, 0), w.rSend(w.derive(m, "sender")))
		w.c.Class("fixed-stateful")
		w.finish(false)
	}
	// back-pressure on a listener: A closes and B opens while Send(SetPeer A) is blocked
	{
		w := newWorld(c, 4)
		w.listenStart(3)
		l := w.lcalls[0]
		w.gateL(l)
		a := w.sessStart(0, 0, w.rInit(3), 3, true) // listener parks in Send(SetPeer 0)
		w.sessCancel(a)
		w.sessStart(1, 0, w.rInit(3), 3, true)
		w.openL(l)
		b2 := w.sessStart(2, 0, w.rInit(3), 3, true)
		w.gateL(l)
		w.sessCancel(b2)
		w.sessStart(0, 0, w.rInit(3), 3, true)
		w.openL(l)
		w.c.Class("fixed-gated-listen")
		w.finish(true)
	}
	// a replaced Listen call stalls in Send while its tracker is released and re-created
	{
		w := newWorld(c, 3)
		w.listenStart(1)
		l1 := w.lcalls[0]
		w.gateL(l1)
		s1 := w.sessStart(0, 0, w.rInit(1), 1, true) // L1 parks in Send(SetPeer 0)
		w.listenStart(1)                              // L2 replaces L1
		w.listenCancel(w.lcalls[1])
		w.sessCancel(s1) // tracker released
		w.listenStart(1) // L3: fresh tracker, nonce 0
		w.openL(l1)      // L1 resumes: must end with the replaced error
		w.sessStart(2, 0, w.rInit(1), 1, true)
		w.c.Class("fixed-gated-listen")
		w.finish(c.Rng.Intn(2) == 0)
	}
	// zero-valued fields right after non-zero ones; a forged packet while the accepted one is still in flight
	{
		w := newWorld(c, 3)
		a := w.sessStart(0, 0, w.rInit(1), 1, true)
		b := w.sessStart(1, 0, w.rInit(0), 0, true)
		w.sessReq(a, w.seqFor(a, 0), rAck(9))                          // current epoch tag
		w.sessReq(a, 0, w.rSend(w.newMsg(0, "good", 1)))               // epoch 0: stale, must be dropped
		w.sessReq(a, w.seqFor(a, 0), w.rSend(w.newMsg(0, "good", 2))) // non-empty body
		w.sessReq(a, w.seqFor(a, 0), rUnknown())                       // empty body right after: unexpected message
		w.c.Class("fixed-wire")
		_ = b
		w.finish(false)
	}
	{
		w := newWorld(c, 3)
		a := w.sessStart(0, 0, w.rInit(1), 1, true)
		b := w.sessStart(1, 0, w.rInit(0), 0, true)
		w.gateS(b)
		m := w.newMsg(0, "good", 1)
		w.sessReq(a, w.seqFor(a, 0), w.rSend(m)) // b takes it and parks in Send before marshalling
		w.sessReq(a, w.seqFor(a, 0), w.rSend(w.derive(m, "body")))
		w.openS(b)
		w.c.Class("fixed-wire")
		w.finish(false)
	}
	{
		w := newWorld(c, 3)
		a := w.sessStart(0, 0, w.rInit(1), 1, true)
		b := w.sessStart(1, 0, w.rInit(0), 0, true)
		w.gateS(a)
		w.sessReq(b, w.seqFor(b, 0), w.rSend(w.newMsg(1, "good", 4))) // a parks in Send(RecvMsg)
		b2 := w.sessStart(1, 0, w.rInit(0), 0, true)                   // epoch changes while a is parked
		w.sessReq(b2, w.seqFor(b2, 0), w.rSend(w.newMsg(1, "good", 5)))
		w.openS(a)
		w.c.Class("fixed-gated-session")
		w.finish(true)
	}
	// a replaced call does not get to see its replacement: it is parked in Send when replaced and then
	// cancelled / its stream breaks; the newer call must stay registered and keep working
	for _, cancel := range []bool{true, false} {
		w := newWorld(c, 3)
		b := w.sessStart(1, 0, w.rInit(0), 0, true)
		s1 := w.sessStart(0, 0, w.rInit(1), 1, true)
		w.gateS(s1)
		w.sessReq(b, w.seqFor(b, 0), w.rSend(w.newMsg(1, "good", 1))) // S1 parks in Send(RecvMsg)
		s2 := w.sessStart(0, 0, w.rInit(1), 1, true)                   // S2 replaces S1
		w.abortS(s1, cancel)                                           // S1 ends for another reason
		w.sessReq(b, w.seqFor(b, 0), w.rSend(w.newMsg(1, "good", 2))) // S2 still gets messages
		w.sessReq(s2, w.seqFor(s2, 0), rAck(2))
		w.c.Class("fixed-replaced-parked")
		w.finish(!cancel)
	}
	{
		w := newWorld(c, 3)
		w.listenStart(1)
		l1 := w.lcalls[0]
		w.gateL(l1)
		w.sessStart(0, 0, w.rInit(1), 1, true) // L1 parks in Send(SetPeer 0)
		w.listenStart(1)                        // L2 replaces L1
		w.abortL(l1)                            // L1 is cancelled before it saw the replacement
		w.sessStart(2, 0, w.rInit(1), 1, true) // L2 must still be told
		w.c.Class("fixed-replaced-parked")
		w.finish(false)
	}
	// the signature object in every encoding: pub_key of the attacker attached to a message that claims the stream's identity
	{
		w := newWorld(c, 3)
		a := w.sessStart(0, 0, w.rInit(1), 1, true)
		w.sessStart(1, 0, w.rInit(0), 0, true)
		m := w.newMsg(0, "good", 1)
		w.sessReq(a, w.seqFor(a, 0), w.rSend(m))
		w.sessReq(a, w.seqFor(a, 0), w.rSend(w.derive(m, "pubkey")))
		w.sessReq(a, w.seqFor(a, 0), w.rSend(w.newMsg(0, "spoofed-pk", 2)))
		w.c.Class("fixed-pubkey")
		w.finish(false)
	}
	// message seqnos restart across a re-open; acks/clears stamped with each older epoch arrive after the
	// new epoch's message with the same seqno was delivered: they must not be credited
	{
		w := newWorld(c, 3)
		a := w.sessStart(0, 0, w.rInit(1), 1, true)
		b := w.sessStart(1, 0, w.rInit(0), 0, true)
		w.sessReq(b, w.seqFor(b, 0), w.rSend(w.newMsg(1, "good", 1))) // #1 delivered to a in epoch 2
		b2 := w.sessStart(1, 0, w.rInit(0), 0, true)                   // b re-attaches over its registered call: epoch 3
		w.sessReq(b2, w.seqFor(b2, 0), w.rSend(w.newMsg(1, "good", 1))) // a new message re-using seqno 1, delivered in epoch 3
		w.sessReq(a, 2, rAck(1))                                       // the delayed ack of epoch 2
		w.sessReq(a, 1, rAck(1))
		w.sessReq(a, w.seqFor(a, 0), rAck(1)) // the real ack
		w.sessReq(a, w.seqFor(a, 0), w.rSend(w.newMsg(0, "good", 1)))
		a2 := w.sessStart(0, 0, w.rInit(1), 1, true) // epoch 4
		w.sessReq(a2, w.seqFor(a2, 0), w.rSend(w.newMsg(0, "good", 1)))
		w.sessReq(a2, 3, rClear(1)) // delayed clear of epoch 3 for the same seqno
		w.sessReq(a2, w.seqFor(a2, 0), rClear(1))
		w.c.Class("fixed-seqno-restart")
		w.finish(true)
	}
	// malicious client
	{
		w := newWorld(c, 3)
		a := w.sessStart(0, 0, w.rInit(1), 1, true)
		w.sessStart(1, 0, w.rInit(0), 0, true)
		w.sessReq(a, w.seqFor(a, 0), rAck(5))
		w.sessReq(a, w.seqFor(a, 0), rClear(5))
		w.sessReq(a, w.seqFor(a, 0), w.rSend(w.newMsg(2, "foreign", 1)))
		a2 := w.sessStart(0, 0, w.rInit(1), 1, true)
		w.sessReq(a2, w.seqFor(a2, 2), w.rSend(w.newMsg(0, "good", 1)))
		w.sessStart(2, 0, w.rSend(w.newMsg(2, "good", 1)), -1, false)
		w.sessStart(2, 3, w.rInit(0), -1, false)
		a3 := w.sessStart(0, 0, w.rInit(1), 1, true)
		w.sessReq(a3, w.seqFor(a3, 0), w.rSend(w.newMsg(0, "tampered", 1)))
		w.c.Class("fixed-malicious")
		w.finish(false)
	}
}
