// Harness for link/solicit matching and stream ownership (C30, C31): runs the
// real ComputeProtocolHash, the real solicitation controller (driven through
// HandleDirective with fake directive instances, and two controllers joined by
// an in-memory link) and the real SolicitMountedStream values, and emits
// correspondence cases for Solicit2/Run.v.
package main

import (
	"bytes"
	"encoding/binary"
	"encoding/hex"
	"fmt"
	"runtime"
	"sort"
	"strings"
	"sync"
	"sync/atomic"
	"time"

	link_solicit "github.com/aperturerobotics/bifrost/link/solicit"
	link_solicit_controller "github.com/aperturerobotics/bifrost/link/solicit/controller"
	"github.com/aperturerobotics/bifrost/peer"
	"github.com/aperturerobotics/bifrost/protocol"
	"github.com/aperturerobotics/controllerbus/directive"
	"verifharness/internal/hx"
)

func main() { hx.Main(run) }

func run(c *hx.Ctx) {
	c.Imports = "Solicit2.Model Solicit2.Run"
	switch c.Prop {
	case "C30":
		c30(c)
	case "C31":
		c31(c)
	default:
		panic("unknown property " + c.Prop)
	}
}

// ---------- printers ----------

func solTerm(s solSpec) string {
	return hx.App("mk_sol", hx.Bytes(s.pid), hx.Bytes(s.ctx), hx.Bytes(s.peer), hx.U(s.tpt))
}
func solsTerm(l []solSpec) string {
	it := make([]string, len(l))
	for i, s := range l {
		it[i] = solTerm(s)
	}
	return hx.List(it)
}
func sideTerm(local, remote []byte, tpt uint64) string {
	return hx.App("mk_side", hx.Bytes(local), hx.Bytes(remote), hx.U(tpt))
}
func intsTerm(l []int) string {
	it := make([]string, len(l))
	for i, x := range l {
		it[i] = fmt.Sprint(x)
	}
	return hx.List(it)
}
func solDesc(s solSpec) string {
	return fmt.Sprintf("{pid=%q ctx=%q peer=%q tpt=%d}", s.pid, s.ctx, s.peer, s.tpt)
}
func solsDesc(l []solSpec) []string {
	o := make([]string, len(l))
	for i, s := range l {
		o[i] = solDesc(s)
	}
	return o
}

// ---------- generators ----------

// splits returns all (pid, ctx) splits of s.
func splits(s []byte) [][2][]byte {
	var out [][2][]byte
	for k := 0; k <= len(s); k++ {
		out = append(out, [2][]byte{append([]byte{}, s[:k]...), append([]byte{}, s[k:]...)})
	}
	return out
}

var baseStrings = []string{"abc", "dexbucket", "a/b", "\x01\x02\x03", "\x03abc", "\x00\x00", "proto/echo:v1", "\x80\x01x"}

// pairUniverse: (pid, ctx) pairs whose concatenations often coincide.
func pairUniverse(c *hx.Ctx) [][2][]byte {
	var u [][2][]byte
	for _, s := range baseStrings {
		u = append(u, splits([]byte(s))...)
	}
	for i := 0; i < 3; i++ {
		u = append(u, splits(c.RandBytes(2+c.Rng.Intn(6)))...)
	}
	// a protocol id whose length prefix looks like the next bytes
	u = append(u, [2][]byte{[]byte("\x02ab"), []byte("c")}, [2][]byte{[]byte("ab"), []byte("\x02abc")},
		[2][]byte{{}, {}}, [2][]byte{{}, []byte("\x00")}, [2][]byte{[]byte("\x00"), {}})
	return u
}

// cat concatenates byte strings into a fresh slice.
func cat(parts ...[]byte) []byte {
	var o []byte
	for _, p := range parts {
		o = append(o, p...)
	}
	if o == nil {
		o = []byte{}
	}
	return o
}

// lengthFramings returns the encodings of n a hash input could plausibly use
// as a length prefix: uvarint, one byte, 2/4/8 bytes big- and little-endian.
func lengthFramings(n int) [][]byte {
	out := [][]byte{binary.AppendUvarint(nil, uint64(n)), {byte(n)}}
	for _, w := range []int{2, 4, 8} {
		be, le := make([]byte, w), make([]byte, w)
		for i := 0; i < w; i++ {
			le[i] = byte(uint64(n) >> (8 * uint(i)))
			be[w-1-i] = le[i]
		}
		out = append(out, be, le)
	}
	return out
}

// injections returns (pid, ctx) pairs that EMBED, in their own bytes, the
// framing a hash input for (P, C) could use: length prefixes of P (and of C)
// and separators, with the whole input as a context-less protocol id, as a
// pid-less context, and with the boundary moved; plus the empty-field and
// nil-vs-empty variants. Any framing that is skipped or ambiguous for some
// shape of input (empty context, empty id, ...) makes one of them collide
// with (P, C).
func injections(c *hx.Ctx, P, C []byte) (out [][2][]byte, core int) {
	add := func(pid, ctx []byte) { out = append(out, [2][]byte{pid, ctx}) }
	whole := func(b []byte) {
		add(b, nil)
		add(b, []byte{})
		add([]byte{}, b)
		if len(b) > 1 {
			k := 1 + c.Rng.Intn(len(b)-1)
			add(b[:k:k], b[k:])
		}
	}
	prefixed := func(f []byte) {
		whole(cat(f, P, C))
		add(cat(f, P), C)
		add(f, cat(P, C))
		add(P, cat(f, C))
	}
	// core: the most plausible framings (uvarint / one-byte length of P,
	// separators) and the empty-field variants; always generated
	lf := lengthFramings(len(P))
	for _, f := range lf[:2] {
		prefixed(f)
	}
	for _, sep := range [][]byte{{0}, {0xff}, {'/'}, {':'}, {0, 0}} {
		whole(cat(P, sep, C))
		add(P, cat(sep, C))
		add(cat(P, sep), C)
	}
	whole(cat(P, C))
	add(P, nil)
	add(P, []byte{})
	add([]byte{}, C)
	add(nil, C)
	add([]byte{}, []byte{})
	add(nil, nil)
	add(C, P)
	core = len(out)
	// extended: wider length prefixes, and a length prefix on the context too
	for _, f := range lf[2:] {
		prefixed(f)
	}
	for _, f := range lf {
		for _, g := range lengthFramings(len(C))[:2] {
			whole(cat(f, P, g, C))
			add(P, cat(g, C))
			add(cat(P, g), C)
		}
	}
	return out, core
}

// injectionBases: (P, C) pairs around which the injection families are built;
// one has a 47-byte printable id, whose uvarint length prefix is the byte '/'.
func injectionBases(c *hx.Ctx) [][2][]byte {
	return [][2][]byte{
		{[]byte("dex/a"), []byte("b")},
		{[]byte("aperture/bifrost/kvstore/replicate/bucket/sync1"), []byte("/tenant-7")},
		{[]byte("abc"), {}},
		{{}, []byte("x")},
		{c.RandBytes(1 + c.Rng.Intn(5)), c.RandBytes(1 + c.Rng.Intn(4))},
	}
}

func admitsGo(s solSpec, remote []byte, tpt uint64) bool {
	if len(s.peer) != 0 && !bytes.Equal(s.peer, remote) {
		return false
	}
	if s.tpt != 0 && s.tpt != tpt {
		return false
	}
	return true
}

// genSols draws n solicitations from a small pool so that equal / shifted pairs are frequent.
func genSols(c *hx.Ctx, pool [][2][]byte, n int, remote, other []byte, tpt uint64) []solSpec {
	out := make([]solSpec, n)
	for i := range out {
		p := pool[c.Rng.Intn(len(pool))]
		s := solSpec{pid: p[0], ctx: p[1]}
		switch c.Rng.Intn(8) {
		case 0, 1:
			s.peer = remote
		case 2:
			s.peer = other
		case 3:
			if len(remote) > 1 {
				s.peer = remote[:len(remote)-1] // a prefix of the remote peer id
			}
		}
		switch c.Rng.Intn(8) {
		case 0, 1:
			s.tpt = tpt
		case 2:
			s.tpt = tpt + 1
		}
		out[i] = s
	}
	return out
}

func smallPool(c *hx.Ctx, uni [][2][]byte) [][2][]byte {
	if c.Rng.Intn(3) == 0 {
		// a base pair, a few pairs that embed its possible framings, one unrelated pair
		bases := injectionBases(c)
		b := bases[c.Rng.Intn(len(bases))]
		inj, _ := injections(c, b[0], b[1])
		pool := [][2][]byte{b, b}
		for i := 0; i < 6; i++ {
			pool = append(pool, inj[c.Rng.Intn(len(inj))])
		}
		return append(pool, uni[c.Rng.Intn(len(uni))])
	}
	// a base string with all its splits plus a couple of unrelated pairs
	s := []byte(baseStrings[c.Rng.Intn(len(baseStrings))])
	if c.Rng.Intn(3) == 0 {
		s = c.RandBytes(2 + c.Rng.Intn(4))
	}
	pool := splits(s)
	for i := 0; i < 2; i++ {
		pool = append(pool, uni[c.Rng.Intn(len(uni))])
	}
	return pool
}

var peerPool = [][]byte{[]byte("peer-A"), []byte("peer-B"), []byte("peer-AB"), []byte("p"), []byte("\x00\x24\x08\x01"), []byte("peer-C")}

func twoPeers(c *hx.Ctx) (a, b, other []byte) {
	i := c.Rng.Intn(len(peerPool))
	j := c.Rng.Intn(len(peerPool) - 1)
	if j >= i {
		j++
	}
	k := 0
	for k == i || k == j {
		k++
	}
	return peerPool[i], peerPool[j], peerPool[k]
}

// ---------- C30 ----------

func c30(c *hx.Ctx) {
	c.Type = "c30_case"
	c.ShardSize = 100
	c.Agree = "c30_agree"
	c.Rule = "ComputeProtocolHash equality pattern on (peer pair, protocol id, context) pairs incl. every boundary-shifted split of short strings; one real controller with constrained solicitations receiving an incoming solicited stream; two real controllers joined by an in-memory link with solicitations on both sides (peer and transport constraints varied, sometimes with a failing stream open); SolicitProtocol directives with one (protocol, context) and different constraints added in every order to one real controller bus; link lifecycle scripts (match, lose the link, re-establish it with the same uuid, parallel link over other transports) with fixed solicitation sets; non-trivial = distinct case with an equality that holds / a directive that is matched"
	uni := pairUniverse(c)

	// 1. hash equality pattern
	nPH := c.N / 4
	sweep := 0
	for i := 0; i < nPH; i++ {
		a, b, _ := twoPeers(c)
		a2, b2 := a, b
		var p, q [2][]byte
		switch {
		case sweep < len(baseStrings)*3 && i%2 == 0:
			// systematic: every pair of splits of one base string
			sp := splits([]byte(baseStrings[sweep%len(baseStrings)]))
			p, q = sp[c.Rng.Intn(len(sp))], sp[c.Rng.Intn(len(sp))]
			sweep++
		case c.Rng.Intn(3) == 0:
			p = uni[c.Rng.Intn(len(uni))]
			q = p
		default:
			p = uni[c.Rng.Intn(len(uni))]
			cat := append(append([]byte{}, p[0]...), p[1]...)
			k := c.Rng.Intn(len(cat) + 1)
			q = [2][]byte{cat[:k], cat[k:]}
		}
		switch c.Rng.Intn(6) {
		case 0:
			a2, b2 = b, a // same link seen from the other end
		case 1:
			a2, b2, _ = twoPeers(c)
		}
		hashCase(c, "hash", a, b, p, a2, b2, q)
	}

	// 1b. encoding injection: (P, C) against pairs whose own bytes contain the
	// framing of (P, C); one session id
	for bi, base := range injectionBases(c) {
		inj, core := injections(c, base[0], base[1])
		a, b, _ := twoPeers(c)
		for vi, v := range inj {
			// quick tier: the core variants in full, a sixth of the extended ones
			if c.Tier != "thorough" && vi >= core && (vi+bi+int(c.Seed))%6 != 0 {
				continue
			}
			hashCase(c, "hash-injection", a, b, base, a, b, v)
		}
		// and some pairs inside the family
		for k := 0; k < 6; k++ {
			hashCase(c, "hash-injection", a, b, inj[c.Rng.Intn(len(inj))], b, a, inj[c.Rng.Intn(len(inj))])
		}
	}

	// 2. one controller, incoming solicited stream
	nInc := c.N / 3
	for i := 0; i < nInc; i++ {
		incoming(c, uni, false)
	}

	// 3. two controllers over an in-memory link
	nTwo := c.N / 8
	if nTwo < 10 {
		nTwo = 10
	}
	for i := 0; i < nTwo; i++ {
		twoNodes(c, uni)
	}
	lateDuplicate(c)

	// 4. directives added to ONE real bus (de-duplication by IsEquivalent)
	busRuns(c)

	// 5. link lifecycle: relink with the same uuid, parallel links
	nLife := c.N / 20
	if nLife < 10 {
		nLife = 10
	}
	for i := 0; i < nLife; i++ {
		lifecycle(c, uni, i)
	}
}

// hashCase runs the real hash functions on two (peer pair, pid, ctx) inputs,
// emits the equality pattern as a case and applies the oracle from the
// property text: for one session id the hashes are equal iff pid and ctx are.
func hashCase(c *hx.Ctx, class string, a, b []byte, p [2][]byte, a2, b2 []byte, q [2][]byte) {
	s1 := link_solicit.ComputeSessionID(peer.ID(a), peer.ID(b))
	s2 := link_solicit.ComputeSessionID(peer.ID(a2), peer.ID(b2))
	h1 := link_solicit.ComputeProtocolHash(s1, protocol.ID(p[0]), p[1])
	h2 := link_solicit.ComputeProtocolHash(s2, protocol.ID(q[0]), q[1])
	eq := bytes.Equal(h1, h2)
	desc := map[string]any{"kind": "hash", "peers1": []string{hx.Hex(a), hx.Hex(b)}, "pid1": hx.Hex(p[0]), "ctx1": hx.Hex(p[1]),
		"peers2": []string{hx.Hex(a2), hx.Hex(b2)}, "pid2": hx.Hex(q[0]), "ctx2": hx.Hex(q[1]), "equal": eq}
	c.Case(hx.App("PH", hx.Bytes(a), hx.Bytes(b), hx.Bytes(p[0]), hx.Bytes(p[1]), hx.Bytes(a2), hx.Bytes(b2), hx.Bytes(q[0]), hx.Bytes(q[1]), hx.Bool(eq)), desc)
	c.Class(class)
	same := bytes.Equal(p[0], q[0]) && bytes.Equal(p[1], q[1])
	sameSid := bytes.Equal(s1, s2)
	if eq {
		c.Nontrivial("ph" + fmt.Sprint(desc))
	}
	if eq && sameSid && !same {
		key := "hash-equal-for-different-solicitations"
		if bytes.Equal(append(append([]byte{}, p[0]...), p[1]...), append(append([]byte{}, q[0]...), q[1]...)) {
			key = "hash-ignores-id-context-boundary"
		}
		c.Failf(key, desc, "ComputeProtocolHash gives the same hash for (%q,%q) and (%q,%q)", p[0], p[1], q[0], q[1])
	}
	if !eq && sameSid && same {
		c.Failf("hash-differs-for-identical-solicitations", desc, "ComputeProtocolHash differs for identical inputs")
	}
	if len(h1) != link_solicit.HashSize {
		c.Failf("hash-size", desc, "hash has %d bytes", len(h1))
	}
}

// incoming runs one controller with solicitations and delivers one incoming
// solicited stream; used by C30 (who is matched) and C31 (who owns the stream).
func incoming(c *hx.Ctx, uni [][2][]byte, ownership bool) {
	local, remote, other := twoPeers(c)
	tpt := uint64(1 + c.Rng.Intn(3))
	pool := smallPool(c, uni)
	nSol := 1 + c.Rng.Intn(5)
	sols := genSols(c, pool, nSol, remote, other, tpt)
	// the remote side's solicitation the stream was opened for
	rp := pool[c.Rng.Intn(len(pool))]
	if ownership || c.Rng.Intn(2) == 0 {
		s := sols[c.Rng.Intn(len(sols))]
		rp = [2][]byte{s.pid, s.ctx}
		if ownership && nSol > 1 && c.Rng.Intn(3) != 0 {
			// several local solicitations for the same (pid, ctx) with different constraints
			k := 1 + c.Rng.Intn(nSol-1)
			for j := 0; j < k; j++ {
				t := &sols[c.Rng.Intn(len(sols))]
				t.pid, t.ctx = s.pid, s.ctx
			}
		}
	}
	ha, hb := local, remote
	if !ownership && c.Rng.Intn(8) == 0 {
		ha, hb, _ = twoPeers(c) // hash computed for another peer pair
	}

	n := newNode(false)
	defer n.close()
	for _, s := range sols {
		n.addSol(s)
	}
	if c.Rng.Intn(6) == 0 {
		// fault injection: one directive instance refuses the value
		n.rhs[c.Rng.Intn(len(n.rhs))].reject = true
	}
	lnk := &fakeLink{uuid: 42, tpt: tpt, local: peer.ID(local), remote: peer.ID(remote)}
	n.addLink(lnk)
	sid := link_solicit.ComputeSessionID(peer.ID(ha), peer.ID(hb))
	h := link_solicit.ComputeProtocolHash(sid, protocol.ID(rp[0]), rp[1])
	spid := protocol.ID(link_solicit_controller.SolicitStreamPrefix + hex.EncodeToString(h))
	sh := n.streamHandler(spid, peer.ID(local), peer.ID(remote))
	if sh == nil {
		panic("no handler for solicited stream")
	}
	cs := &countStream{}
	ms := &fakeMS{strm: cs, pid: spid, lnk: lnk}
	if err := sh.HandleMountedStream(n.ctx, ms); err != nil {
		panic(err)
	}
	recv := n.received()
	var emitted []int
	distinct := map[directive.Value]struct{}{}
	for i, vs := range recv {
		for _, v := range vs {
			emitted = append(emitted, i)
			distinct[v] = struct{}{}
		}
	}
	desc := map[string]any{"kind": "incoming", "local": hx.Hex(local), "remote": hx.Hex(remote), "transport": tpt,
		"solicitations": solsDesc(sols), "stream_for": fmt.Sprintf("pid=%q ctx=%q peers=%q/%q", rp[0], rp[1], ha, hb), "received": fmt.Sprint(emitted)}
	sameLink := (bytes.Equal(ha, local) && bytes.Equal(hb, remote)) || (bytes.Equal(ha, remote) && bytes.Equal(hb, local))

	// direct oracle for C30 (also evaluated for C31 runs)
	for i, s := range sols {
		want := sameLink && bytes.Equal(s.pid, rp[0]) && bytes.Equal(s.ctx, rp[1]) && admitsGo(s, remote, tpt)
		got := len(recv[i]) > 0
		if got && !want {
			key := "matched-different-solicitation"
			if bytes.Equal(s.pid, rp[0]) && bytes.Equal(s.ctx, rp[1]) && sameLink {
				key = "matched-despite-constraint"
			} else if sameLink && bytes.Equal(append(append([]byte{}, s.pid...), s.ctx...), append(append([]byte{}, rp[0]...), rp[1]...)) {
				key = "matched-shifted-boundary"
			}
			c.Failf(key, desc, "solicitation %d %s received the stream opened for (%q,%q)", i, solDesc(s), rp[0], rp[1])
		}
		if !got && want {
			c.Failf("not-matched-identical-solicitation", desc, "solicitation %d %s did not receive the stream opened for the same protocol and context", i, solDesc(s))
		}
		if len(recv[i]) > 1 {
			c.Failf("value-delivered-twice", desc, "solicitation %d received %d values for one stream", i, len(recv[i]))
		}
	}

	if !ownership {
		c.Case(hx.App("Inc", sideTerm(local, remote, tpt), solsTerm(sols), hx.Bytes(ha), hx.Bytes(hb), hx.Bytes(rp[0]), hx.Bytes(rp[1]), intsTerm(emitted)), desc)
		c.Class(fmt.Sprintf("incoming-%dmatched", min(len(emitted), 3)))
		if len(emitted) > 0 {
			c.Nontrivial("inc" + fmt.Sprint(desc))
		}
		return
	}

	// ---- C31: operations by the holders of the values ----
	if len(distinct) > 1 {
		c.Failf("one-value-per-solicitation", desc, "%d distinct SolicitMountedStream values were created for one stream (%d matching solicitations)", len(distinct), len(emitted))
	}
	var ops []struct {
		idx int
		op  int
	}
	nOps := 0
	if len(emitted) > 0 {
		nOps = 1 + c.Rng.Intn(6)
	}
	opT := []string{}
	resT := []string{}
	streams := 0
	var trace []string
	for k := 0; k < nOps; k++ {
		idx := emitted[c.Rng.Intn(len(emitted))]
		op := opAccept
		if c.Rng.Intn(4) == 0 {
			op = opClose
			if c.Rng.Intn(2) == 0 {
				op = opCloseErr
			}
		} else if c.Rng.Intn(8) == 0 {
			op = opIsAccepted
		}
		ops = append(ops, struct{ idx, op int }{idx, op})
		v := recv[idx][0].(link_solicit.SolicitMountedStream)
		r, gotMS := applyOp(v, cs, op)
		if r == "RStream" {
			streams++
			if gotMS != ms {
				c.Failf("accept-returned-other-stream", desc, "AcceptMountedStream returned a different stream")
			}
			if cs.closes.Load() != 0 {
				c.Failf("accept-after-close", desc, "AcceptMountedStream returned a stream the solicitation had closed")
			}
		}
		opT = append(opT, fmt.Sprintf("(%d, %s)", idx, opNames[op]))
		resT = append(resT, r)
		trace = append(trace, fmt.Sprintf("sol%d.%s=%s", idx, opNames[op], r))
	}
	desc["ops"] = strings.Join(trace, " ")
	desc["values"] = len(distinct)
	if streams > 1 {
		c.Failf("two-owners", desc, "%d AcceptMountedStream calls returned the same stream", streams)
	}
	if streams > 0 && cs.closes.Load() > 0 {
		c.Failf("accepted-stream-closed", desc, "the stream was accepted and closed by the solicitation (%d closes)", cs.closes.Load())
	}
	c.Case(hx.App("Ctl", sideTerm(local, remote, tpt), solsTerm(sols), hx.Bytes(rp[0]), hx.Bytes(rp[1]), intsTerm(emitted), fmt.Sprint(len(distinct)),
		hx.List(opT), hx.List(resT), fmt.Sprint(cs.closes.Load())), desc)
	c.Class(fmt.Sprintf("controller-%dmatching", min(len(emitted), 3)))
	if len(emitted) > 1 && streams == 1 {
		c.Nontrivial("ctl" + fmt.Sprint(desc))
	}

	// concurrent accepts by every holder (oracle only)
	if len(emitted) > 1 && c.Rng.Intn(2) == 0 {
		n2 := newNode(false)
		defer n2.close()
		for _, s := range sols {
			n2.addSol(s)
		}
		n2.addLink(lnk)
		sh2 := n2.streamHandler(spid, peer.ID(local), peer.ID(remote))
		cs2 := &countStream{}
		ms2 := &fakeMS{strm: cs2, pid: spid, lnk: lnk}
		_ = sh2.HandleMountedStream(n2.ctx, ms2)
		var wg sync.WaitGroup
		var mtx sync.Mutex
		owners := 0
		start := make(chan struct{})
		for _, vs := range n2.received() {
			for _, v := range vs {
				for rep := 0; rep < 2; rep++ {
					wg.Add(1)
					go func(v directive.Value) {
						defer wg.Done()
						<-start
						got, _, err := v.(link_solicit.SolicitMountedStream).AcceptMountedStream()
						if err == nil && got != nil {
							mtx.Lock()
							owners++
							mtx.Unlock()
						}
					}(v)
				}
			}
		}
		close(start)
		wg.Wait()
		c.Eval()
		c.Class("controller-concurrent-accept")
		if owners > 1 {
			c.Failf("two-owners", desc, "concurrent run: %d AcceptMountedStream calls returned the same stream", owners)
		}
		if owners == 0 {
			c.Failf("no-owner", desc, "concurrent run: no AcceptMountedStream call returned the stream")
		}
	}
}

// settle waits until the expected number of values has been delivered (bounded:
// missing deliveries are what the oracle then reports) and after that until no
// further value is delivered and no transient goroutine remains for a few
// consecutive samples. The expectation only shortens / bounds the wait; the
// verdict is taken on what was delivered.
func settle(na, nb *node, expect int64, deadline time.Time) {
	soft := time.Now().Add(3 * time.Second)
	for na.total.Load()+nb.total.Load() < expect && time.Now().Before(soft) && time.Now().Before(deadline) {
		time.Sleep(300 * time.Microsecond)
	}
	stable := 0
	lastG, lastV := -1, int64(-1)
	for stable < 5 && time.Now().Before(deadline) {
		time.Sleep(1500 * time.Microsecond)
		g, v := runtime.NumGoroutine(), na.total.Load()+nb.total.Load()
		if g == lastG && v == lastV {
			stable++
		} else {
			stable = 0
		}
		lastG, lastV = g, v
	}
}

// lateDuplicate records (without judging) what happens to a solicitation that
// is registered after an identical one of the same side was matched.
func lateDuplicate(c *hx.Ctx) {
	pa, pb := []byte("peer-A"), []byte("peer-B")
	na, nb := newNode(true), newNode(true)
	conns := &connSet{}
	la := &fakeLink{uuid: 7, tpt: 1, local: peer.ID(pa), remote: peer.ID(pb), other: nb, conns: conns}
	lb := &fakeLink{uuid: 9, tpt: 1, local: peer.ID(pb), remote: peer.ID(pa), other: na, conns: conns}
	la.otherLink, lb.otherLink = lb, la
	s := solSpec{pid: []byte("proto"), ctx: []byte("ctx")}
	r1 := na.addSol(s)
	rb := nb.addSol(s)
	na.addLink(la)
	nb.addLink(lb)
	deadline := time.Now().Add(10 * time.Second)
	for (r1.CountValues(false) == 0 || rb.CountValues(false) == 0) && time.Now().Before(deadline) {
		time.Sleep(200 * time.Microsecond)
	}
	settle(na, nb, 2, deadline)
	r2 := na.addSol(s)
	sen := solSpec{pid: []byte("verif/sentinel"), ctx: []byte{1}}
	sa, sb := na.addSol(sen), nb.addSol(sen)
	for (sa.CountValues(false) == 0 || sb.CountValues(false) == 0) && time.Now().Before(deadline) {
		time.Sleep(200 * time.Microsecond)
	}
	settle(na, nb, 4, deadline)
	c.Eval()
	c.Extra["late_identical_solicitation"] = map[string]any{"first_received": r1.CountValues(false), "late_received": r2.CountValues(false), "remote_received": rb.CountValues(false),
		"note": "one stream per (link, hash): ls.matched is never cleared (controller.go evaluateMatches)"}
	if r2.CountValues(false) == 0 {
		c.Class("probe-late-identical-solicitation-unmatched")
	} else {
		c.Class("probe-late-identical-solicitation-matched")
	}
	na.close()
	nb.close()
	conns.closeAll()
}

// busIncoming: SolicitProtocol directives with the SAME (protocol, context) and
// different peer/transport constraints are added, in the given order, to one
// real controller bus (so the bus may merge directives it finds equivalent);
// a link that some of the constraints allow and some do not; one incoming
// solicited stream for that (protocol, context). Observed: which references
// received a value.
func busIncoming(c *hx.Ctx, sols []solSpec, local, remote []byte, tpt uint64, class string) {
	bn := newBusNode()
	defer bn.close()
	for _, s := range sols {
		bn.addSol(s)
	}
	lnk := &fakeLink{uuid: 43, tpt: tpt, local: peer.ID(local), remote: peer.ID(remote)}
	bn.addLink(lnk)
	pid, ctx := sols[0].pid, sols[0].ctx
	sid := link_solicit.ComputeSessionID(peer.ID(local), peer.ID(remote))
	h := link_solicit.ComputeProtocolHash(sid, protocol.ID(pid), ctx)
	spid := protocol.ID(link_solicit_controller.SolicitStreamPrefix + hex.EncodeToString(h))
	sh := bn.streamHandler(spid, peer.ID(local), peer.ID(remote))
	if sh == nil {
		panic("no handler for solicited stream")
	}
	ms := &fakeMS{strm: &countStream{}, pid: spid, lnk: lnk}
	if err := sh.HandleMountedStream(bn.ctx, ms); err != nil {
		panic(err)
	}
	expect := int64(0)
	for _, s := range sols {
		if bytes.Equal(s.pid, pid) && bytes.Equal(s.ctx, ctx) && admitsGo(s, remote, tpt) {
			expect++
		}
	}
	// bounded wait for the expected deliveries, then a short look for extra ones
	soft := time.Now().Add(3 * time.Second)
	for bn.total.Load() < expect && time.Now().Before(soft) {
		time.Sleep(200 * time.Microsecond)
	}
	last := int64(-1)
	for k := 0; k < 4; k++ {
		time.Sleep(time.Millisecond)
		if v := bn.total.Load(); v != last {
			last, k = v, 0
		}
	}
	var emitted []int
	merged := []string{}
	for i, rc := range bn.refs {
		for range rc.values() {
			emitted = append(emitted, i)
		}
		for j := 0; j < i; j++ {
			if bn.instances[i] == bn.instances[j] {
				merged = append(merged, fmt.Sprintf("%d=%d", j, i))
			}
		}
	}
	desc := map[string]any{"kind": "one-bus", "local": hx.Hex(local), "remote": hx.Hex(remote), "transport": tpt,
		"solicitations_in_order_added": solsDesc(sols), "stream_for": fmt.Sprintf("pid=%q ctx=%q", pid, ctx),
		"received": fmt.Sprint(emitted), "merged_by_bus": strings.Join(merged, ",")}
	c.Case(hx.App("Inc", sideTerm(local, remote, tpt), solsTerm(sols), hx.Bytes(local), hx.Bytes(remote), hx.Bytes(pid), hx.Bytes(ctx), intsTerm(emitted)), desc)
	c.Class(class)
	if len(emitted) > 0 && len(emitted) < len(sols) {
		c.Nontrivial("bus" + fmt.Sprint(desc))
	}
	for i, s := range sols {
		want := bytes.Equal(s.pid, pid) && bytes.Equal(s.ctx, ctx) && admitsGo(s, remote, tpt)
		got := len(bn.refs[i].values())
		switch {
		case got > 0 && !want:
			key := "matched-different-solicitation"
			if bytes.Equal(s.pid, pid) && bytes.Equal(s.ctx, ctx) {
				key = "matched-despite-constraint"
			}
			c.Failf(key, desc, "solicitation %d %s (added to the bus in this order) received the stream on a link to peer %q over transport %d that its own constraints do not allow", i, solDesc(s), remote, tpt)
		case got == 0 && want:
			c.Failf("not-matched-identical-solicitation", desc, "solicitation %d %s did not receive the stream opened for the same protocol and context on a link its constraints allow", i, solDesc(s))
		case got > 1:
			c.Failf("value-delivered-twice", desc, "solicitation %d received %d values for one stream", i, got)
		}
	}
}

// busRuns: every ordered pair of constraint shapes, and random triples.
func busRuns(c *hx.Ctx) {
	local, remote, other := []byte("peer-L"), []byte("peer-R"), []byte("peer-X")
	tpt := uint64(2)
	shapes := func(pid, ctx []byte) []solSpec {
		return []solSpec{
			{pid: pid, ctx: ctx},
			{pid: pid, ctx: ctx, peer: remote},
			{pid: pid, ctx: ctx, peer: other},
			{pid: pid, ctx: ctx, tpt: tpt},
			{pid: pid, ctx: ctx, tpt: tpt + 1},
			{pid: pid, ctx: ctx, peer: other, tpt: tpt},
		}
	}
	pid, ctx := []byte("dex"), []byte("bucket")
	sh := shapes(pid, ctx)
	for i := range sh {
		for j := range sh {
			busIncoming(c, []solSpec{sh[i], sh[j]}, local, remote, tpt, "one-bus-ordered-pair")
		}
	}
	n := c.N / 40
	for k := 0; k < n; k++ {
		l, r, o := twoPeers(c)
		t := uint64(1 + c.Rng.Intn(3))
		p := [][2][]byte{{[]byte("proto/echo"), nil}, {[]byte("dex"), []byte("bucket")}, {[]byte("a"), []byte("bc")}}[c.Rng.Intn(3)]
		var sols []solSpec
		for m := 0; m < 3; m++ {
			s := solSpec{pid: p[0], ctx: p[1]}
			switch c.Rng.Intn(4) {
			case 1:
				s.peer = r
			case 2:
				s.peer = o
			}
			switch c.Rng.Intn(4) {
			case 1:
				s.tpt = t
			case 2:
				s.tpt = t + 1
			}
			sols = append(sols, s)
		}
		if c.Rng.Intn(3) == 0 {
			sols = append(sols, solSpec{pid: []byte("ab"), ctx: []byte("c")})
		}
		busIncoming(c, sols, l, r, t, "one-bus-triple")
	}
}

var lifeFailures int

// lifecycle: two real controllers with FIXED solicitation sets; links between
// them come up, are matched, go down, come up again with the same link uuid, or
// come up in parallel (other uuid, other transports). At every settle point
// each solicitation must have received exactly one new stream per new link on
// which the other side solicits the same (protocol, context) and both sides'
// constraints allow that link - the property on EVERY link, whatever happened
// on earlier ones.
func lifecycle(c *hx.Ctx, uni [][2][]byte, script int) {
	if lifeFailures >= 3 {
		// every missing delivery costs the bounded wait: three concrete failing histories are enough
		c.Class("lifecycle-skipped-after-failures")
		return
	}
	pa, pb, other := twoPeers(c)
	pool := smallPool(c, uni)
	type linkDef struct {
		ida, idb uint64
		ta, tb   uint64
	}
	defs := []linkDef{{7, 9, 1, 1}, {8, 10, 2, 3}}
	sa := genSols(c, pool, 1+c.Rng.Intn(3), pb, other, defs[c.Rng.Intn(2)].ta)
	sb := genSols(c, pool, 1+c.Rng.Intn(3), pa, other, defs[c.Rng.Intn(2)].tb)
	for _, l := range [][]solSpec{sa, sb} {
		for i := range l {
			if len(l[i].pid) == 0 {
				l[i].pid = []byte("x")
			}
		}
	}
	// an unconstrained identical pair is always there: every link must match it
	common := solSpec{pid: []byte("verif/common"), ctx: []byte{0xff, 0x00}}
	sa, sb = append(sa, common), append(sb, common)

	// scripts over (up k / down k / settle)
	const (
		up = iota
		down
		settleAct
	)
	type step struct{ kind, link int }
	scripts := [][]step{
		{{up, 0}, {settleAct, 0}, {down, 0}, {up, 0}, {settleAct, 0}},                                                     // relink, same uuid
		{{up, 0}, {settleAct, 0}, {up, 1}, {settleAct, 0}},                                                                // parallel link
		{{up, 0}, {settleAct, 0}, {down, 0}, {settleAct, 0}, {up, 0}, {settleAct, 0}, {down, 0}, {up, 0}, {settleAct, 0}}, // twice
		{{up, 0}, {up, 1}, {settleAct, 0}, {down, 0}, {down, 1}, {up, 1}, {settleAct, 0}, {up, 0}, {settleAct, 0}},
		{{up, 1}, {settleAct, 0}, {down, 1}, {up, 0}, {settleAct, 0}, {up, 1}, {settleAct, 0}},
	}
	sc := scripts[script%len(scripts)]

	base := runtime.NumGoroutine()
	na, nb := newNode(true), newNode(true)
	for i := 0; i < len(sa) || i < len(sb); i++ {
		if i < len(sa) {
			na.addSol(sa[i])
		}
		if i < len(sb) {
			nb.addSol(sb[i])
		}
	}
	var la, lb [2]*fakeLink
	var conns [2]*connSet
	mk := func(k int) {
		d := defs[k]
		conns[k] = &connSet{}
		la[k] = &fakeLink{uuid: d.ida, tpt: d.ta, local: peer.ID(pa), remote: peer.ID(pb), other: nb, conns: conns[k]}
		lb[k] = &fakeLink{uuid: d.idb, tpt: d.tb, local: peer.ID(pb), remote: peer.ID(pa), other: na, conns: conns[k]}
		la[k].otherLink, lb[k].otherLink = lb[k], la[k]
	}
	isUp := [2]bool{}
	fresh := [2]bool{} // came up since the last settle
	countA, countB := make([]int, len(sa)), make([]int, len(sb))
	var newA, newB [][]int
	var terms, names []string
	expectTotal := int64(0)
	deadline := time.Now().Add(20 * time.Second)
	failed := false
	desc := map[string]any{"kind": "link-lifecycle", "peerA": hx.Hex(pa), "peerB": hx.Hex(pb), "solicitationsA": solsDesc(sa), "solicitationsB": solsDesc(sb),
		"links": "link 0: uuid 7/9 transports 1/1; link 1: uuid 8/10 transports 2/3 (same peers)"}
	wantOn := func(mine, theirs []solSpec, i int, myRemote, theirRemote []byte, myT, theirT uint64) bool {
		s := mine[i]
		for _, t := range theirs {
			if bytes.Equal(s.pid, t.pid) && bytes.Equal(s.ctx, t.ctx) && admitsGo(s, myRemote, myT) && admitsGo(t, theirRemote, theirT) {
				return true
			}
		}
		return false
	}
	for si, st := range sc {
		switch st.kind {
		case up:
			if isUp[st.link] {
				continue
			}
			mk(st.link)
			nb.addLink(lb[st.link])
			na.addLink(la[st.link])
			isUp[st.link], fresh[st.link] = true, true
			d := defs[st.link]
			// the model names a link by one id: side a's uuid
			terms = append(terms, hx.App("LinkUp", hx.Nat(int(d.ida)), sideTerm(pa, pb, d.ta), sideTerm(pb, pa, d.tb)))
			names = append(names, fmt.Sprintf("up(link %d)", st.link))
		case down:
			if !isUp[st.link] {
				continue
			}
			na.removeLink(la[st.link])
			nb.removeLink(lb[st.link])
			conns[st.link].closeAll()
			isUp[st.link], fresh[st.link] = false, false
			// let the control loops of that link end
			for i := 0; i < 200; i++ {
				time.Sleep(200 * time.Microsecond)
				if i > 10 && runtime.NumGoroutine() <= base+2*(len(sa)+len(sb))+8 {
					break
				}
			}
			terms = append(terms, hx.App("LinkDown", hx.Nat(int(defs[st.link].ida))))
			names = append(names, fmt.Sprintf("down(link %d)", st.link))
		case settleAct:
			// expected new deliveries (reference computation, bounds the wait and is the oracle)
			wantA, wantB := make([]int, len(sa)), make([]int, len(sb))
			for k := 0; k < 2; k++ {
				if !fresh[k] {
					continue
				}
				d := defs[k]
				for i := range sa {
					if wantOn(sa, sb, i, pb, pa, d.ta, d.tb) {
						wantA[i]++
						expectTotal++
					}
				}
				for i := range sb {
					if wantOn(sb, sa, i, pa, pb, d.tb, d.ta) {
						wantB[i]++
						expectTotal++
					}
				}
				fresh[k] = false
			}
			settle(na, nb, expectTotal, deadline)
			ra, rb := na.received(), nb.received()
			var da, db []int
			for i := range sa {
				for j := countA[i]; j < len(ra[i]); j++ {
					da = append(da, i)
				}
			}
			for i := range sb {
				for j := countB[i]; j < len(rb[i]); j++ {
					db = append(db, i)
				}
			}
			names = append(names, fmt.Sprintf("settle(newA=%v newB=%v)", da, db))
			desc["history"] = strings.Join(names, "; ")
			for i := range sa {
				got := len(ra[i]) - countA[i]
				if got != wantA[i] && !failed {
					failed = true
					lifeFailures++
					key := "not-matched-on-new-link"
					if got > wantA[i] {
						key = "matched-without-identical-solicitation"
					}
					c.Failf(key, desc, "step %d: side A solicitation %d %s received %d new stream(s); %d link(s) came up on which the other side solicits the same protocol and context and all constraints allow the link", si, i, solDesc(sa[i]), got, wantA[i])
				}
				countA[i] = len(ra[i])
			}
			for i := range sb {
				got := len(rb[i]) - countB[i]
				if got != wantB[i] && !failed {
					failed = true
					lifeFailures++
					key := "not-matched-on-new-link"
					if got > wantB[i] {
						key = "matched-without-identical-solicitation"
					}
					c.Failf(key, desc, "step %d: side B solicitation %d %s received %d new stream(s); %d link(s) came up on which the other side solicits the same protocol and context and all constraints allow the link", si, i, solDesc(sb[i]), got, wantB[i])
				}
				countB[i] = len(rb[i])
			}
			// everything counted so far is the new baseline for the bounded wait
			expectTotal = na.total.Load() + nb.total.Load()
			newA, newB = append(newA, da), append(newB, db)
			terms = append(terms, "Settle")
		}
	}
	na.close()
	nb.close()
	for k := range conns {
		if conns[k] != nil {
			conns[k].closeAll()
		}
	}
	for i := 0; i < 2000 && runtime.NumGoroutine() > base; i++ {
		time.Sleep(100 * time.Microsecond)
	}
	lst := func(l [][]int) string {
		it := make([]string, len(l))
		for i := range l {
			it[i] = intsTerm(l[i])
		}
		return hx.List(it)
	}
	desc["history"] = strings.Join(names, "; ")
	c.Case(hx.App("Life", solsTerm(sa), solsTerm(sb), hx.List(terms), lst(newA), lst(newB)), desc)
	c.Class(fmt.Sprintf("lifecycle-script%d", script%len(scripts)))
	c.Nontrivial("life" + fmt.Sprint(desc))
}

// twoNodes joins two real controllers by an in-memory link.
func twoNodes(c *hx.Ctx, uni [][2][]byte) {
	pa, pb, other := twoPeers(c)
	ta, tb := uint64(1+c.Rng.Intn(3)), uint64(1+c.Rng.Intn(3))
	pool := smallPool(c, uni)
	sa := genSols(c, pool, 1+c.Rng.Intn(4), pb, other, ta)
	sb := genSols(c, pool, 1+c.Rng.Intn(4), pa, other, tb)
	// protocol ids on a bus are never empty (Validate); keep both sides valid here
	fix := func(l []solSpec) {
		for i := range l {
			if len(l[i].pid) == 0 {
				l[i].pid = []byte("x")
			}
		}
	}
	fix(sa)
	fix(sb)
	// solicitations before or after the link comes up
	before := c.Rng.Intn(2) == 0
	if !before {
		// One stream is opened per (link, hash): a solicitation registered after
		// its hash was matched gets nothing (see lateDuplicate). When the
		// solicitations arrive one by one the outcome for two admitted
		// solicitations of one side with the same (pid, ctx) depends on timing,
		// so such pairs are only generated in the registered-before-link runs.
		uniq := func(l []solSpec, remote []byte, t uint64) []solSpec {
			var out []solSpec
			for _, s := range l {
				dup := false
				for _, o := range out {
					if bytes.Equal(o.pid, s.pid) && bytes.Equal(o.ctx, s.ctx) && admitsGo(o, remote, t) && admitsGo(s, remote, t) {
						dup = true
					}
				}
				if !dup {
					out = append(out, s)
				}
			}
			return out
		}
		sa, sb = uniq(sa, pb, ta), uniq(sb, pa, tb)
	}
	sentinel := solSpec{pid: []byte("verif/sentinel"), ctx: []byte{0xff, 0x00, 0xff}}

	base := runtime.NumGoroutine()
	na, nb := newNode(true), newNode(true)
	conns := &connSet{}
	la := &fakeLink{uuid: 7, tpt: ta, local: peer.ID(pa), remote: peer.ID(pb), other: nb, conns: conns}
	lb := &fakeLink{uuid: 9, tpt: tb, local: peer.ID(pb), remote: peer.ID(pa), other: na, conns: conns}
	la.otherLink, lb.otherLink = lb, la
	// fault injection: the first solicited stream (not the sentinel's) cannot be opened
	faulty := c.Rng.Intn(6) == 0
	if faulty {
		ssid := link_solicit.ComputeSessionID(peer.ID(pa), peer.ID(pb))
		spid := protocol.ID(link_solicit_controller.SolicitStreamPrefix + hex.EncodeToString(link_solicit.ComputeProtocolHash(ssid, protocol.ID(sentinel.pid), sentinel.ctx)))
		var failed atomic.Bool
		fo := func(pid protocol.ID) bool {
			return strings.HasPrefix(string(pid), link_solicit_controller.SolicitStreamPrefix) && pid != spid && !failed.Swap(true)
		}
		la.failOpen, lb.failOpen = fo, fo
	}
	addAll := func() {
		for i := 0; i < len(sa) || i < len(sb); i++ {
			if i < len(sa) {
				na.addSol(sa[i])
			}
			if i < len(sb) {
				nb.addSol(sb[i])
			}
		}
	}
	if before {
		addAll()
	}
	na.addLink(la)
	nb.addLink(lb)
	if !before {
		addAll()
	}
	sra := na.addSol(sentinel)
	srb := nb.addSol(sentinel)
	deadline := time.Now().Add(10 * time.Second)
	for (sra.CountValues(false) == 0 || srb.CountValues(false) == 0) && time.Now().Before(deadline) {
		time.Sleep(200 * time.Microsecond)
	}
	sentinelOK := sra.CountValues(false) > 0 && srb.CountValues(false) > 0
	expect := int64(2) // the sentinels
	countExp := func(mine, theirs []solSpec, myRemote, theirRemote []byte, myT, theirT uint64) {
		for _, s := range mine {
			for _, t := range theirs {
				if bytes.Equal(s.pid, t.pid) && bytes.Equal(s.ctx, t.ctx) && admitsGo(s, myRemote, myT) && admitsGo(t, theirRemote, theirT) {
					expect++
					break
				}
			}
		}
	}
	if !faulty {
		countExp(sa, sb, pb, pa, ta, tb)
		countExp(sb, sa, pa, pb, tb, ta)
	}
	settle(na, nb, expect, deadline)
	ra, rb := na.received(), nb.received()
	na.close()
	nb.close()
	conns.closeAll()
	for i := 0; i < 2000 && runtime.NumGoroutine() > base; i++ {
		time.Sleep(100 * time.Microsecond)
	}

	flat := func(r [][]directive.Value, n int) []int {
		var out []int
		for i := 0; i < n; i++ {
			for range r[i] {
				out = append(out, i)
			}
		}
		return out
	}
	fa, fb := flat(ra, len(sa)), flat(rb, len(sb))
	desc := map[string]any{"kind": "two-controllers", "peerA": hx.Hex(pa), "peerB": hx.Hex(pb), "transportA": ta, "transportB": tb,
		"solicitationsA": solsDesc(sa), "solicitationsB": solsDesc(sb), "receivedA": fmt.Sprint(fa), "receivedB": fmt.Sprint(fb), "added_before_link": before}
	if !sentinelOK {
		c.Failf("sentinel-never-matched", desc, "two identical unconstrained solicitations were not matched within 10s")
		return
	}
	if faulty {
		// one match has no stream: only "nobody receives what is not theirs" is judged
		desc["fault"] = "first solicited OpenMountedStream returned an error"
		c.Eval()
		c.Class("two-open-fails")
	} else {
		c.Case(hx.App("Two", sideTerm(pa, pb, ta), solsTerm(sa), sideTerm(pb, pa, tb), solsTerm(sb), intsTerm(fa), intsTerm(fb)), desc)
		c.Class(fmt.Sprintf("two-%dmatched", min(len(fa), 3)))
		if len(fa) > 0 {
			c.Nontrivial("two" + fmt.Sprint(desc))
		}
	}
	// direct oracle
	check := func(name string, mine, theirs []solSpec, got [][]directive.Value, myRemote, theirRemote []byte, myT, theirT uint64) {
		for i, s := range mine {
			want := false
			for _, t := range theirs {
				if bytes.Equal(s.pid, t.pid) && bytes.Equal(s.ctx, t.ctx) && admitsGo(s, myRemote, myT) && admitsGo(t, theirRemote, theirT) {
					want = true
				}
			}
			switch {
			case len(got[i]) > 0 && !want:
				key := "matched-different-solicitation"
				for _, t := range theirs {
					if bytes.Equal(s.pid, t.pid) && bytes.Equal(s.ctx, t.ctx) {
						key = "matched-despite-constraint"
					}
				}
				c.Failf(key, desc, "side %s solicitation %d %s received a stream although no admitted solicitation of the other side names the same protocol and context", name, i, solDesc(s))
			case len(got[i]) == 0 && want && !faulty:
				c.Failf("not-matched-identical-solicitation", desc, "side %s solicitation %d %s was not matched although the other side solicits the same protocol and context and all constraints admit the link", name, i, solDesc(s))
			case len(got[i]) > 1:
				c.Failf("matched-twice", desc, "side %s solicitation %d received %d streams", name, i, len(got[i]))
			}
		}
	}
	check("A", sa, sb, ra, pb, pa, ta, tb)
	check("B", sb, sa, rb, pa, pb, tb, ta)
}

// ---------- C31 ----------

const (
	opAccept = iota
	opClose
	opIsAccepted
	opCloseErr // Close() while the underlying stream's Close returns an error
)

var opNames = []string{"Accept", "(Close true)", "IsAccepted", "(Close false)"}

// applyOp runs one call on a real value and returns the model's result name.
func applyOp(v link_solicit.SolicitMountedStream, cs *countStream, op int) (string, any) {
	switch op {
	case opAccept:
		ms, already, err := v.AcceptMountedStream()
		switch {
		case err != nil:
			return "RErr", nil
		case already:
			return "RAlready", nil
		default:
			return "RStream", ms
		}
	case opClose, opCloseErr:
		if cs != nil {
			cs.failNext.Store(op == opCloseErr)
		}
		b := v.(interface{ Close() bool }).Close()
		if cs != nil {
			cs.failNext.Store(false)
		}
		return "(RBool " + hx.Bool(b) + ")", nil
	default:
		b := v.(interface{ IsAccepted() bool }).IsAccepted()
		return "(RBool " + hx.Bool(b) + ")", nil
	}
}

func newValue(kind int) (link_solicit.SolicitMountedStream, *countStream) {
	cs := &countStream{}
	switch kind {
	case 0:
		return link_solicit.NewSolicitMountedStream(&fakeMS{strm: cs, pid: "solicit:00"}), cs
	case 1:
		return link_solicit.NewSolicitMountedStream(nil), cs
	default:
		return link_solicit.NewSolicitMountedStreamWithErr(fmt.Errorf("closed")), cs
	}
}

func c31(c *hx.Ctx) {
	c.Type = "c31_case"
	c.ShardSize = 100
	c.Agree = "c31_agree"
	c.Rule = "Accept/Close/IsAccepted call lists on real SolicitMountedStream values (sequential: all lists up to length 4 plus random longer ones; concurrent: goroutines released together, result counts must be those of some interleaving of the model); real controller with several local solicitations (different peer/transport constraints) matching one incoming stream, then calls by the holders; non-trivial = distinct case in which exactly one of several holders/calls obtained the stream"
	uni := pairUniverse(c)

	// 1. sequential op lists on one value
	emitSeq := func(kind int, ops []int, class string) {
		v, cs := newValue(kind)
		res := make([]string, len(ops))
		names := make([]string, len(ops))
		streams := 0
		closedTrue := false
		for i, op := range ops {
			before := cs.closes.Load()
			r, _ := applyOp(v, cs, op)
			res[i] = r
			names[i] = opNames[op]
			desc := map[string]any{"kind": "value-sequential", "init": kind, "ops": strings.Join(names[:i+1], ","), "results": strings.Join(res[:i+1], ",")}
			if r == "RStream" {
				streams++
				if closedTrue {
					c.Failf("accept-after-close", desc, "AcceptMountedStream returned the stream after a Close() call that returned true or reached the underlying stream")
				}
				if cs.closes.Load() > 0 {
					c.Failf("accepted-stream-closed", desc, "the stream handed out had been closed by the solicitation")
				}
			}
			if (op == opClose || op == opCloseErr) && cs.closes.Load() > before {
				closedTrue = true // the call closed the underlying stream (whatever that close returned)
			}
			if (op == opClose || op == opCloseErr) && r == "(RBool true)" {
				closedTrue = true
				if streams > 0 {
					c.Failf("accepted-stream-closed", desc, "Close() closed a stream that had been accepted")
				}
			}
		}
		desc := map[string]any{"kind": "value-sequential", "init": kind, "ops": strings.Join(names, ","), "results": strings.Join(res, ","), "stream_closes": cs.closes.Load()}
		if streams > 1 {
			c.Failf("two-owners", desc, "%d AcceptMountedStream calls returned the stream", streams)
		}
		if streams > 0 && cs.closes.Load() > 0 {
			c.Failf("accepted-stream-closed", desc, "stream accepted and closed by the solicitation")
		}
		c.Case(hx.App("WSeq", fmt.Sprint(kind), hx.List(names), hx.List(res), fmt.Sprint(cs.closes.Load())), desc)
		c.Class(class)
		if streams == 1 && len(ops) > 1 {
			c.Nontrivial("seq" + fmt.Sprint(kind) + strings.Join(names, ","))
		}
	}
	maxLen := 4
	if c.Tier == "thorough" {
		maxLen = 6
	}
	for n := 0; n <= maxLen; n++ {
		total := 1
		for i := 0; i < n; i++ {
			total *= 4
		}
		for code := 0; code < total; code++ {
			ops := make([]int, n)
			x := code
			for i := range ops {
				ops[i] = x % 4 // Accept, Close, IsAccepted, Close with a failing stream close
				x /= 4
			}
			emitSeq(0, ops, "value-exhaustive")
			if n <= 2 {
				emitSeq(1, ops, "value-exhaustive-nil")
				emitSeq(2, ops, "value-exhaustive-err")
			}
		}
	}
	for i := 0; i < c.N/4; i++ {
		n := 5 + c.Rng.Intn(12)
		ops := make([]int, n)
		for j := range ops {
			switch r := c.Rng.Intn(10); {
			case r < 5:
				ops[j] = opAccept
			case r < 7:
				ops[j] = opClose
			case r < 9:
				ops[j] = opCloseErr
			default:
				ops[j] = opIsAccepted
			}
		}
		kind := 0
		if c.Rng.Intn(8) == 0 {
			kind = 1 + c.Rng.Intn(2)
		}
		emitSeq(kind, ops, "value-random")
	}

	// 2. concurrent calls on one value
	for i := 0; i < c.N/3; i++ {
		na, nc := c.Rng.Intn(5), c.Rng.Intn(4)
		if na+nc == 0 {
			na = 2
		}
		kind := 0
		if c.Rng.Intn(10) == 0 {
			kind = 1 + c.Rng.Intn(2)
		}
		v, cs := newValue(kind)
		counts := map[string]int{}
		var mtx sync.Mutex
		var wg sync.WaitGroup
		start := make(chan struct{})
		failing := i%4 == 1
		if failing {
			cs.failAll.Store(true) // every underlying stream close returns an error
		}
		// close-window schedule: the Accept calls start while a Close is inside
		// its critical section (the stream's own Close takes a while)
		window := kind == 0 && nc > 0 && na > 0 && i%3 == 0
		acceptGo := start
		if window {
			acceptGo = make(chan struct{})
			var once sync.Once
			release := func() { once.Do(func() { close(acceptGo) }) }
			cs.onClose = func() {
				release()
				for k := 0; k < 10; k++ {
					runtime.Gosched()
				}
				time.Sleep(150 * time.Microsecond)
			}
			time.AfterFunc(20*time.Millisecond, release)
		}
		for g := 0; g < na+nc; g++ {
			op := opAccept
			if g >= na {
				op = opClose
			}
			wg.Add(1)
			go func(op, g int) {
				defer wg.Done()
				<-start
				if op == opAccept {
					<-acceptGo
				}
				if (g+i)%3 == 0 {
					runtime.Gosched()
				}
				r, _ := applyOp(v, nil, op)
				if op == opClose {
					r = "C" + r
				}
				mtx.Lock()
				counts[r]++
				mtx.Unlock()
			}(op, g)
		}
		close(start)
		wg.Wait()
		obs := []int{counts["RStream"], counts["RAlready"], counts["RErr"], counts["C(RBool true)"], counts["C(RBool false)"], int(cs.closes.Load())}
		desc := map[string]any{"kind": "value-concurrent", "init": kind, "accepts": na, "closes": nc, "stream_close_fails": failing,
			"stream/already/err/closeTrue/closeFalse/streamCloses": fmt.Sprint(obs)}
		if obs[0] > 1 {
			c.Failf("two-owners", desc, "%d concurrent AcceptMountedStream calls returned the stream", obs[0])
		}
		if obs[0] > 0 && obs[5] > 0 {
			c.Failf("accepted-stream-closed", desc, "the stream was handed out and closed by the solicitation")
		}
		// after everything: a value whose Close returned true or reached the stream must refuse Accept
		if obs[3] > 0 || obs[5] > 0 {
			if r, _ := applyOp(v, nil, opAccept); r == "RStream" {
				c.Failf("accept-after-close", desc, "AcceptMountedStream returned the stream after Close() had returned true")
			}
		}
		c.Case(hx.App("WConc", fmt.Sprint(kind), fmt.Sprint(na), fmt.Sprint(nc), intsTerm(obs)), desc)
		if window {
			c.Class("value-concurrent-close-window")
		} else {
			c.Class("value-concurrent")
		}
		if obs[0] == 1 && na+nc > 1 {
			c.Nontrivial("conc" + fmt.Sprint(desc))
		}
	}

	// 3. the controller: several local solicitations matching one incoming stream
	for i := 0; i < c.N/3; i++ {
		incoming(c, uni, true)
	}

	// 4. simultaneous-entry hammer (oracle only)
	budget := 2500 * time.Millisecond
	if c.Tier == "thorough" {
		budget = 15 * time.Second
	}
	hammer(c, budget)
}

// hammer: K callers spinning on a two-phase barrier (all arrived, then go) enter
// AcceptMountedStream on a FRESH value within nanoseconds of each other, one
// core each; thousands of rounds inside the time budget; in a third of the
// rounds one more caller races Close. This is the only lever a black-box
// harness has on a race inside one method (a lock-free check followed by a
// locked update): it needs real parallelism, so the hit rate depends on the
// machine. Batches of rounds with a fixed K (mostly 2-4: fewer cores needed at
// the same instant); only the K+1 workers of the running batch spin.
// Oracle: at most one caller per value obtains the stream; if a Close returned
// true or reached the stream, none does.
func hammer(c *hx.Ctx, budget time.Duration) {
	old := runtime.GOMAXPROCS(runtime.NumCPU())
	defer runtime.GOMAXPROCS(old)
	maxK := runtime.NumCPU() - 2
	if maxK > 16 {
		maxK = 16
	}
	if maxK < 2 {
		maxK = 2
	}
	ks := []int{2, 3, 2, 4, 2, 8, 3, 2, 16, 4}
	deadline := time.Now().Add(budget)
	per := budget / time.Duration(len(ks))
	rounds, multi, closedRounds, aborted := 0, 0, 0, false
	for bi := 0; time.Now().Before(deadline) && !aborted; bi++ {
		k := ks[bi%len(ks)]
		if k > maxK {
			k = maxK
		}
		end := time.Now().Add(per)
		if end.After(deadline) {
			end = deadline
		}
		r, m, cl, ab := hammerBatch(c, k, end, rounds)
		rounds += r
		multi += m
		closedRounds += cl
		aborted = ab
	}
	if aborted {
		c.Class("value-hammer-aborted")
	} else {
		c.Class("value-hammer")
	}
	c.Extra["hammer"] = map[string]any{"rounds": rounds, "rounds_with_close": closedRounds, "rounds_with_several_owners": multi,
		"max_callers": maxK, "budget_ms": budget.Milliseconds(), "aborted": aborted}
}

func hammerBatch(c *hx.Ctx, k int, end time.Time, roundBase int) (rounds, multi, closedRounds int, aborted bool) {
	type slot struct {
		res int32 // 0 none, 1 stream, 2 already, 3 err, 4 close true, 5 close false
		_   [60]byte
	}
	type cmdWord struct {
		round atomic.Int64 // the round this worker takes part in (written by the driver only)
		_     [56]byte
	}
	var (
		cur    atomic.Pointer[link_solicit.SolicitMountedStream]
		ready  atomic.Int64
		done   atomic.Int64
		quit   atomic.Bool
		party  atomic.Int64
		closer atomic.Int64
	)
	slots := make([]slot, k+1)
	cmds := make([]cmdWord, k+1)
	var wg sync.WaitGroup
	for w := 0; w <= k; w++ {
		wg.Add(1)
		go func(w int) {
			defer wg.Done()
			seen := int64(0)
			for {
				spins := 0
				for cmds[w].round.Load() == seen {
					if quit.Load() {
						return
					}
					if spins++; spins&0x3ff == 0 {
						runtime.Gosched()
					}
				}
				seen = cmds[w].round.Load()
				v := *cur.Load()
				isCloser := closer.Load() == int64(w)
				ready.Add(1)
				for ready.Load() < party.Load() {
					if quit.Load() {
						return
					}
				}
				var r int32
				if isCloser {
					if v.(interface{ Close() bool }).Close() {
						r = 4
					} else {
						r = 5
					}
				} else {
					_, already, err := v.AcceptMountedStream()
					switch {
					case err != nil:
						r = 3
					case already:
						r = 2
					default:
						r = 1
					}
				}
				atomic.StoreInt32(&slots[w].res, r)
				done.Add(1)
			}
		}(w)
	}
	for time.Now().Before(end) && !aborted {
		withClose := rounds%3 == 2
		cs := &countStream{}
		v := link_solicit.NewSolicitMountedStream(&fakeMS{strm: cs, pid: "solicit:00"})
		n := k
		closer.Store(-1)
		if withClose {
			closer.Store(int64(k))
			n = k + 1
		}
		cur.Store(&v)
		party.Store(int64(n))
		ready.Store(0)
		done.Store(0)
		for w := 0; w < n; w++ {
			atomic.StoreInt32(&slots[w].res, 0)
		}
		for w := 0; w < n; w++ {
			cmds[w].round.Store(int64(rounds + 1))
		}
		spins := 0
		roundStart := time.Now()
		for done.Load() < int64(n) {
			if spins++; spins&0xff == 0 {
				runtime.Gosched()
				if spins&0xffff == 0 && time.Since(roundStart) > 5*time.Second {
					aborted = true // starved machine: give up rather than hang
					break
				}
			}
		}
		if aborted {
			break
		}
		streams, closeTrue := 0, false
		for w := 0; w < n; w++ {
			switch atomic.LoadInt32(&slots[w].res) {
			case 0:
				panic("hammer: a participant did not report")
			case 1:
				streams++
			case 4:
				closeTrue = true
			}
		}
		rounds++
		c.Eval()
		if withClose {
			closedRounds++
		}
		desc := map[string]any{"kind": "value-hammer", "callers": k, "with_close": withClose, "round": roundBase + rounds,
			"callers_that_got_the_stream": streams, "close_returned_true": closeTrue, "stream_closes": cs.closes.Load()}
		if streams > 1 {
			multi++
			if multi <= 2 {
				c.Failf("two-owners", desc, "%d of %d simultaneous AcceptMountedStream calls on one fresh value returned the stream", streams, k)
			}
		}
		if streams > 0 && (closeTrue || cs.closes.Load() > 0) {
			c.Failf("accepted-stream-closed", desc, "the stream was handed out and closed by the solicitation in one round")
		}
		if streams == 0 && !closeTrue {
			c.Failf("no-owner", desc, "no caller obtained the stream and no Close succeeded")
		}
	}
	quit.Store(true)
	wg.Wait()
	return
}

func min(a, b int) int {
	if a < b {
		return a
	}
	return b
}

var _ = sort.Ints
