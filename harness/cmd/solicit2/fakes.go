package main

import (
	"context"
	"io"
	"sync"
	"sync/atomic"
	"time"

	"github.com/aperturerobotics/bifrost/link"
	link_solicit "github.com/aperturerobotics/bifrost/link/solicit"
	link_solicit_controller "github.com/aperturerobotics/bifrost/link/solicit/controller"
	"github.com/aperturerobotics/bifrost/peer"
	"github.com/aperturerobotics/bifrost/protocol"
	"github.com/aperturerobotics/bifrost/stream"
	"github.com/aperturerobotics/controllerbus/bus"
	"github.com/aperturerobotics/controllerbus/bus/inmem"
	"github.com/aperturerobotics/controllerbus/directive"
	cdc "github.com/aperturerobotics/controllerbus/directive/controller"
	"github.com/sirupsen/logrus"
)

var le = func() *logrus.Entry {
	l := logrus.New()
	l.SetOutput(io.Discard)
	l.SetLevel(logrus.ErrorLevel)
	return logrus.NewEntry(l)
}()

// ---- directive.Instance ----

type fakeRef struct{}

func (fakeRef) Release() {}

type fakeInst struct {
	dir directive.Directive
	ctx context.Context
	mtx sync.Mutex
	// handlers added with AddReference
	handlers []directive.ReferenceHandler
}

func (f *fakeInst) GetContext() context.Context       { return f.ctx }
func (f *fakeInst) GetDirective() directive.Directive { return f.dir }
func (f *fakeInst) GetDirectiveIdent() string         { return f.dir.GetName() }
func (f *fakeInst) GetResolverErrors() []error        { return nil }
func (f *fakeInst) AddReference(cb directive.ReferenceHandler, weak bool) directive.Reference {
	f.mtx.Lock()
	if cb != nil {
		f.handlers = append(f.handlers, cb)
	}
	f.mtx.Unlock()
	return fakeRef{}
}
func (f *fakeInst) AddDisposeCallback(cb func()) func()                { return func() {} }
func (f *fakeInst) AddIdleCallback(cb directive.IdleCallback) func()   { return func() {} }
func (f *fakeInst) AddStateCallback(cb directive.StateCallback) func() { return func() {} }
func (f *fakeInst) CloseIfUnreferenced(inclWeakRefs bool) bool         { return false }
func (f *fakeInst) Close()                                             {}

var _ directive.Instance = (*fakeInst)(nil)

// ---- directive.ResolverHandler ----

type fakeRH struct {
	mtx    sync.Mutex
	vals   []directive.Value
	idle   chan struct{}
	once   sync.Once
	total  *atomic.Int64
	nextID uint32
	// reject: AddValue returns accepted=false; the values are kept in offered
	reject  bool
	offered []directive.Value
}

func newRH(total *atomic.Int64) *fakeRH { return &fakeRH{idle: make(chan struct{}), total: total} }

func (h *fakeRH) AddValue(v directive.Value) (uint32, bool) {
	h.mtx.Lock()
	if h.reject {
		// fault injection: the directive instance refuses the value
		h.offered = append(h.offered, v)
		h.mtx.Unlock()
		return 0, false
	}
	h.vals = append(h.vals, v)
	h.nextID++
	id := h.nextID
	h.mtx.Unlock()
	if h.total != nil {
		h.total.Add(1)
	}
	return id, true
}
func (h *fakeRH) RemoveValue(id uint32) (directive.Value, bool) { return nil, false }
func (h *fakeRH) CountValues(all bool) int {
	h.mtx.Lock()
	defer h.mtx.Unlock()
	return len(h.vals)
}
func (h *fakeRH) ClearValues() []uint32 { return nil }
func (h *fakeRH) MarkIdle(idle bool) {
	if idle {
		h.once.Do(func() { close(h.idle) })
	}
}
func (h *fakeRH) AddValueRemovedCallback(id uint32, cb func()) func()  { return func() {} }
func (h *fakeRH) AddResolverRemovedCallback(cb func()) func()          { return func() {} }
func (h *fakeRH) AddResolver(res directive.Resolver, cb func()) func() { return func() {} }
func (h *fakeRH) values() []directive.Value {
	h.mtx.Lock()
	defer h.mtx.Unlock()
	return append(append([]directive.Value{}, h.vals...), h.offered...)
}

var _ directive.ResolverHandler = (*fakeRH)(nil)

// ---- streams ----

// countStream is a stream that only counts Close calls.
type countStream struct {
	closes atomic.Int32
	// onClose, if set, runs inside Close (i.e. inside the caller's critical
	// section): used to open a scheduling window while a close is in progress.
	onClose func()
	// fault injection: the next Close (failNext) or every Close (failAll)
	// returns an error, as a stream does whose link is already gone
	failNext atomic.Bool
	failAll  atomic.Bool
}

func (s *countStream) Read(b []byte) (int, error)         { return 0, io.EOF }
func (s *countStream) Write(b []byte) (int, error)        { return len(b), nil }
func (s *countStream) SetReadDeadline(t time.Time) error  { return nil }
func (s *countStream) SetWriteDeadline(t time.Time) error { return nil }
func (s *countStream) SetDeadline(t time.Time) error      { return nil }
func (s *countStream) Close() error {
	s.closes.Add(1)
	if s.onClose != nil {
		s.onClose()
	}
	if s.failNext.Swap(false) || s.failAll.Load() {
		return io.ErrClosedPipe
	}
	return nil
}

var _ stream.Stream = (*countStream)(nil)

// bufConn is one end of an in-memory duplex stream with unbounded buffering
// (writes never block, like a transport stream with a send window; net.Pipe is
// synchronous and would couple the two control loops).
type bufHalf struct {
	mtx    sync.Mutex
	cond   *sync.Cond
	buf    []byte
	closed bool
}

func newBufHalf() *bufHalf { h := &bufHalf{}; h.cond = sync.NewCond(&h.mtx); return h }

type bufConn struct {
	rd, wr *bufHalf
}

func bufPipe() (*bufConn, *bufConn) {
	a, b := newBufHalf(), newBufHalf()
	return &bufConn{rd: a, wr: b}, &bufConn{rd: b, wr: a}
}

func (c *bufConn) Read(p []byte) (int, error) {
	h := c.rd
	h.mtx.Lock()
	defer h.mtx.Unlock()
	for len(h.buf) == 0 && !h.closed {
		h.cond.Wait()
	}
	if len(h.buf) == 0 {
		return 0, io.EOF
	}
	n := copy(p, h.buf)
	h.buf = h.buf[n:]
	return n, nil
}
func (c *bufConn) Write(p []byte) (int, error) {
	h := c.wr
	h.mtx.Lock()
	defer h.mtx.Unlock()
	if h.closed {
		return 0, io.ErrClosedPipe
	}
	h.buf = append(h.buf, p...)
	h.cond.Broadcast()
	return len(p), nil
}
func (c *bufConn) Close() error {
	for _, h := range []*bufHalf{c.rd, c.wr} {
		h.mtx.Lock()
		h.closed = true
		h.cond.Broadcast()
		h.mtx.Unlock()
	}
	return nil
}
func (c *bufConn) SetReadDeadline(t time.Time) error  { return nil }
func (c *bufConn) SetWriteDeadline(t time.Time) error { return nil }
func (c *bufConn) SetDeadline(t time.Time) error      { return nil }

var _ stream.Stream = (*bufConn)(nil)

type fakeMS struct {
	strm stream.Stream
	pid  protocol.ID
	lnk  link.MountedLink
}

func (m *fakeMS) GetStream() stream.Stream     { return m.strm }
func (m *fakeMS) GetProtocolID() protocol.ID   { return m.pid }
func (m *fakeMS) GetOpenOpts() stream.OpenOpts { return stream.OpenOpts{} }
func (m *fakeMS) GetPeerID() peer.ID           { return m.lnk.GetRemotePeer() }
func (m *fakeMS) GetLink() link.MountedLink    { return m.lnk }

var _ link.MountedStream = (*fakeMS)(nil)

// ---- links ----

// fakeLink is one end of an in-memory link. If other != nil, streams opened
// here are delivered to the controller of the other end.
type fakeLink struct {
	uuid          uint64
	tpt           uint64
	local, remote peer.ID
	other         *node
	otherLink     *fakeLink
	conns         *connSet
	failOpen      func(pid protocol.ID) bool
}

type connSet struct {
	mtx   sync.Mutex
	conns []io.Closer
}

func (c *connSet) add(x ...io.Closer) {
	c.mtx.Lock()
	c.conns = append(c.conns, x...)
	c.mtx.Unlock()
}
func (c *connSet) closeAll() {
	c.mtx.Lock()
	for _, x := range c.conns {
		x.Close()
	}
	c.mtx.Unlock()
}

func (l *fakeLink) GetLinkUUID() uint64            { return l.uuid }
func (l *fakeLink) GetTransportUUID() uint64       { return l.tpt }
func (l *fakeLink) GetRemoteTransportUUID() uint64 { return 0 }
func (l *fakeLink) GetLocalPeer() peer.ID          { return l.local }
func (l *fakeLink) GetRemotePeer() peer.ID         { return l.remote }
func (l *fakeLink) OpenMountedStream(ctx context.Context, pid protocol.ID, opts stream.OpenOpts) (link.MountedStream, error) {
	if l.other == nil {
		return nil, io.ErrClosedPipe
	}
	if l.failOpen != nil && l.failOpen(pid) {
		// fault injection: the stream cannot be opened
		return nil, io.ErrClosedPipe
	}
	c1, c2 := bufPipe()
	l.conns.add(c1, c2)
	h := l.other.streamHandler(pid, l.otherLink.local, l.otherLink.remote)
	if h == nil {
		c1.Close()
		c2.Close()
		return nil, io.ErrClosedPipe
	}
	if err := h.HandleMountedStream(l.other.ctx, &fakeMS{strm: c2, pid: pid, lnk: l.otherLink}); err != nil {
		c1.Close()
		c2.Close()
		return nil, err
	}
	return &fakeMS{strm: c1, pid: pid, lnk: l}, nil
}

var _ link.MountedLink = (*fakeLink)(nil)

// ---- a node: one real solicitation controller driven through HandleDirective ----

type solSpec struct {
	pid, ctx, peer []byte
	tpt            uint64
}

type node struct {
	ctx    context.Context
	cancel context.CancelFunc
	ctrl   *link_solicit_controller.Controller
	rhs    []*fakeRH
	total  atomic.Int64
	linkH  directive.ReferenceHandler
	linkDi *fakeInst
}

func newNode(execute bool) *node {
	ctx, cancel := context.WithCancel(context.Background())
	ctrl, err := link_solicit_controller.NewController(le, &link_solicit_controller.Config{})
	if err != nil {
		panic(err)
	}
	n := &node{ctx: ctx, cancel: cancel, ctrl: ctrl}
	if execute {
		if err := ctrl.Execute(ctx); err != nil {
			panic(err)
		}
	}
	return n
}

// addSol registers a SolicitProtocol directive and waits until the controller tracks it.
func (n *node) addSol(s solSpec) *fakeRH {
	di := &fakeInst{dir: link_solicit.NewSolicitProtocol(protocol.ID(s.pid), s.ctx, peer.ID(s.peer), s.tpt), ctx: n.ctx}
	ress, err := n.ctrl.HandleDirective(n.ctx, di)
	if err != nil || len(ress) != 1 {
		panic("solicit controller did not return a resolver for SolicitProtocol")
	}
	rh := newRH(&n.total)
	go func() { _ = ress[0].Resolve(n.ctx, rh) }()
	select {
	case <-rh.idle:
	case <-time.After(10 * time.Second):
		panic("SolicitProtocol resolver did not become idle")
	}
	n.rhs = append(n.rhs, rh)
	return rh
}

// addLink announces the link through the EstablishLinkWithPeer watcher.
func (n *node) addLink(l *fakeLink) {
	if n.linkH == nil {
		di := &fakeInst{dir: link.NewEstablishLinkWithPeer("", l.remote), ctx: n.ctx}
		if _, err := n.ctrl.HandleDirective(n.ctx, di); err != nil {
			panic(err)
		}
		if len(di.handlers) != 1 {
			panic("solicit controller did not watch EstablishLinkWithPeer")
		}
		n.linkH = di.handlers[0]
		n.linkDi = di
	}
	n.linkH.HandleValueAdded(n.linkDi, directive.NewAttachedValue(uint32(l.uuid), link.MountedLink(l)))
}

// removeLink reports the link as gone through the EstablishLinkWithPeer watcher.
func (n *node) removeLink(l *fakeLink) {
	n.linkH.HandleValueRemoved(n.linkDi, directive.NewAttachedValue(uint32(l.uuid), link.MountedLink(l)))
}

// streamHandler asks the controller for the handler of an incoming stream.
func (n *node) streamHandler(pid protocol.ID, local, remote peer.ID) link.MountedStreamHandler {
	di := &fakeInst{dir: link.NewHandleMountedStream(pid, local, remote), ctx: n.ctx}
	ress, err := n.ctrl.HandleDirective(n.ctx, di)
	if err != nil || len(ress) == 0 {
		return nil
	}
	rh := newRH(nil)
	if err := ress[0].Resolve(n.ctx, rh); err != nil {
		return nil
	}
	for _, v := range rh.values() {
		if h, ok := v.(link.MountedStreamHandler); ok {
			return h
		}
	}
	return nil
}

func (n *node) close() { n.cancel() }

// received returns, per solicitation index, the values its handler got.
func (n *node) received() [][]directive.Value {
	out := make([][]directive.Value, len(n.rhs))
	for i, rh := range n.rhs {
		out[i] = rh.values()
	}
	return out
}

// ---- a real controller bus with the solicitation controller on it ----

// refCollector is the reference handler of one AddDirective call.
type refCollector struct {
	mtx  sync.Mutex
	vals []directive.Value
	n    *atomic.Int64
}

func (r *refCollector) HandleValueAdded(_ directive.Instance, v directive.AttachedValue) {
	r.mtx.Lock()
	r.vals = append(r.vals, v.GetValue())
	r.mtx.Unlock()
	r.n.Add(1)
}
func (r *refCollector) HandleValueRemoved(directive.Instance, directive.AttachedValue) {}
func (r *refCollector) HandleInstanceDisposed(directive.Instance)                      {}
func (r *refCollector) values() []directive.Value {
	r.mtx.Lock()
	defer r.mtx.Unlock()
	return append([]directive.Value{}, r.vals...)
}

type busNode struct {
	*node
	b    bus.Bus
	refs []*refCollector
	rels []directive.Reference
	// instances[i] == instances[j] when the bus merged the two directives
	instances []directive.Instance
}

// newBusNode builds an in-memory controller bus (real directive controller,
// real de-duplication by IsEquivalent) and adds a real solicitation controller.
func newBusNode() *busNode {
	n := newNode(false)
	dc := cdc.NewController(n.ctx, le)
	b := inmem.NewBus(dc)
	if _, err := b.AddController(n.ctx, n.ctrl, nil); err != nil {
		panic(err)
	}
	return &busNode{node: n, b: b}
}

// addSol adds a SolicitProtocol directive to the bus and waits until the
// directive instance is idle (the controller's resolver has registered it).
func (bn *busNode) addSol(s solSpec) {
	rc := &refCollector{n: &bn.total}
	di, ref, err := bn.b.AddDirective(link_solicit.NewSolicitProtocol(protocol.ID(s.pid), s.ctx, peer.ID(s.peer), s.tpt), rc)
	if err != nil {
		panic(err)
	}
	idle := make(chan struct{})
	var once sync.Once
	rel := di.AddIdleCallback(func(isIdle bool, _ []error) {
		if isIdle {
			once.Do(func() { close(idle) })
		}
	})
	select {
	case <-idle:
	case <-time.After(10 * time.Second):
		panic("SolicitProtocol directive did not become idle on the bus")
	}
	rel()
	bn.refs = append(bn.refs, rc)
	bn.rels = append(bn.rels, ref)
	bn.instances = append(bn.instances, di)
}

func (bn *busNode) close() {
	for _, r := range bn.rels {
		r.Release()
	}
	bn.node.close()
}
