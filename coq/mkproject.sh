#!/bin/sh
# regenerate _CoqProject and Makefile from the files present
cd "$(dirname "$0")"
{ echo "-Q theories Bifrost"; echo "-arg -w -arg -notation-overridden,-deprecated-hint-without-locality,-deprecated-instance-without-locality"; find theories -name '*.v' | LC_ALL=C sort; } > _CoqProject.new
if ! cmp -s _CoqProject.new _CoqProject; then mv _CoqProject.new _CoqProject; else rm _CoqProject.new; fi
if [ ! -f Makefile ] || [ _CoqProject -nt Makefile ]; then coq_makefile -f _CoqProject -o Makefile >/dev/null; fi
