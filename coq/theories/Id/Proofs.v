(* Proofs for C10 (peer IDs) and C15 (content hashes). *)
From Bifrost Require Import Lib.Base Lib.Varint Lib.Sym Lib.Base58 Id.Pb Id.PbProofs Id.Model.
From Bifrost Require Import gen.Ident gen.IdentHash.

(* ---------- uvarint encodings ---------- *)

Lemma uvarint_of_enc v : 0 <= v < two64 -> uvarint_of (varint_enc v) v.
Proof.
  intros H. unfold uvarint_of. pose proof (varint_roundtrip v [] H) as R.
  rewrite app_nil_r in R. exact R.
Qed.

Lemma uvarint_of_app c v rest : uvarint_of c v -> varint_dec (c ++ rest) = VOk v (length c).
Proof.
  unfold uvarint_of, varint_dec. intros H.
  pose proof (vdec_prefix _ _ _ _ _ rest H) as P. rewrite firstn_all in P. exact P.
Qed.

Lemma uvarint_of_nonempty c v : uvarint_of c v -> c <> [].
Proof. unfold uvarint_of. intros H ->. cbn in H. discriminate. Qed.

Lemma uvarint_of_firstn b v n : varint_dec b = VOk v n -> uvarint_of (firstn n b) v /\ (n <= length b)%nat.
Proof.
  intros H. pose proof (vdec_n _ _ _ _ _ H) as [_ Hn]. split; [|exact Hn].
  unfold uvarint_of, varint_dec in *. pose proof (vdec_prefix _ _ _ _ _ [] H) as P.
  rewrite app_nil_r in P. rewrite firstn_length_le by exact Hn. exact P.
Qed.

Lemma gfrom_ok b n : (n <= length b)%nat -> gfrom b (Z.of_nat n) = Ok (skipn n b).
Proof.
  intros H. unfold gfrom, gslice, zlen.
  replace ((0 <=? Z.of_nat n) && (Z.of_nat n <=? Z.of_nat (length b)) && (Z.of_nat (length b) <=? Z.of_nat (length b))) with true by lia.
  rewrite Nat2Z.id. rewrite firstn_all2; [reflexivity|]. rewrite skipn_length. lia.
Qed.

Lemma gfrom_no_panic b n : (n <= length b)%nat -> gfrom b (Z.of_nat n) <> Panic.
Proof. intros H. rewrite gfrom_ok by exact H. discriminate. Qed.

Lemma app_eq_len {A} (a c x y : list A) : length a = length c -> a ++ x = c ++ y -> a = c /\ x = y.
Proof.
  revert c; induction a as [|h a IH]; intros [|k c] L E; cbn in *; try discriminate; auto.
  inversion E; subst. destruct (IH c) as [-> ->]; auto.
Qed.

(* ---------- decodeMultihash: exactly the strings c ++ l ++ d ---------- *)

Lemma decode_multihash_complete c l d code :
  uvarint_of c code -> uvarint_of l (zlen d) -> decode_multihash (c ++ l ++ d) = Ok (code, d).
Proof.
  intros Hc Hl. unfold decode_multihash.
  destruct (c ++ l ++ d) as [|x r] eqn:E.
  { apply app_eq_nil in E as [E _]. exfalso. exact (uvarint_of_nonempty _ _ Hc E). }
  rewrite <- E. rewrite (uvarint_of_app c code (l ++ d) Hc).
  rewrite gfrom_ok by (rewrite app_length; lia). rewrite skipn_app_len. cbn [obind].
  rewrite (uvarint_of_app l (zlen d) d Hl).
  rewrite gfrom_ok by (rewrite app_length; lia). rewrite skipn_app_len. cbn [obind].
  rewrite Z.eqb_refl. reflexivity.
Qed.

Lemma decode_multihash_sound b code d :
  decode_multihash b = Ok (code, d) ->
  exists c l, b = c ++ l ++ d /\ uvarint_of c code /\ uvarint_of l (zlen d).
Proof.
  unfold decode_multihash. destruct b as [|x r] eqn:Eb; [discriminate|]. rewrite <- Eb. clear Eb x r.
  destruct (varint_dec b) as [cv n|] eqn:E1; [|discriminate].
  destruct (uvarint_of_firstn _ _ _ E1) as [Hc Hn].
  rewrite gfrom_ok by exact Hn. cbn [obind].
  destruct (varint_dec (skipn n b)) as [dl m|] eqn:E2; [|discriminate].
  destruct (uvarint_of_firstn _ _ _ E2) as [Hl Hm].
  rewrite gfrom_ok by exact Hm. cbn [obind].
  destruct (zlen (skipn m (skipn n b)) =? dl) eqn:E3; [|discriminate].
  intros H. inversion H; subst. apply Z.eqb_eq in E3.
  exists (firstn n b), (firstn m (skipn n b)). split; [|split].
  - rewrite firstn_skipn. rewrite firstn_skipn. reflexivity.
  - exact Hc.
  - rewrite E3. exact Hl.
Qed.

Lemma decode_multihash_no_panic b : decode_multihash b <> Panic.
Proof.
  unfold decode_multihash. destruct b as [|x r] eqn:Eb; [discriminate|]. rewrite <- Eb. clear Eb x r.
  destruct (varint_dec b) as [cv n|] eqn:E1; [|discriminate].
  destruct (uvarint_of_firstn _ _ _ E1) as [_ Hn].
  rewrite gfrom_ok by exact Hn. cbn [obind].
  destruct (varint_dec (skipn n b)) as [dl m|] eqn:E2; [|discriminate].
  destruct (uvarint_of_firstn _ _ _ E2) as [_ Hm].
  rewrite gfrom_ok by exact Hm. cbn [obind].
  destruct (zlen (skipn m (skipn n b)) =? dl); discriminate.
Qed.

Lemma decode_encode_multihash code d :
  0 <= code < two64 -> zlen d < two64 -> decode_multihash (encode_multihash code d) = Ok (code, d).
Proof.
  intros Hc Hd. unfold encode_multihash. apply decode_multihash_complete.
  - apply uvarint_of_enc, Hc.
  - apply uvarint_of_enc. unfold zlen in *. lia.
Qed.

(* ---------- generated constants: the facts the proofs need ---------- *)

Lemma mh_identity_range : 0 <= mh_identity < two64.
Proof. unfold mh_identity, two64. lia. Qed.

Lemma key_type_int32 : is_int32 key_type_ed25519.
Proof. unfold is_int32, key_type_ed25519, two31. lia. Qed.

Lemma pub_size_small : 0 <= ed25519_pub_size < two31.
Proof. unfold ed25519_pub_size, two31. lia. Qed.

Lemma wf_pub_len pk : wf_pub pk -> zlen pk < two63.
Proof. intros [H _]. rewrite H. pose proof pub_size_small. unfold two31, two63 in *. lia. Qed.

Lemma marshal_pub_len pk : wf_pub pk -> zlen (marshal_pub pk) < two64.
Proof.
  intros [H _]. unfold marshal_pub, pb2_marshal, zlen in *. rewrite app_length.
  set (A := if key_type_ed25519 =? 0 then [] else 8 :: varint_enc (to_uint64 key_type_ed25519)).
  set (C := match pk with [] => [] | _ :: _ => 18 :: varint_enc (Z.of_nat (length pk)) ++ pk end).
  assert (L1 : (length A <= 11)%nat).
  { unfold A. destruct (key_type_ed25519 =? 0); cbn [length]; [lia|]. pose proof (venc_length_le 10 (to_uint64 key_type_ed25519)). unfold varint_enc. lia. }
  assert (L2 : (length C <= 11 + length pk)%nat).
  { unfold C. destruct pk; cbn [length]; [lia|]. rewrite app_length. cbn [length].
    pose proof (venc_length_le 10 (Z.of_nat (S (length pk)))). unfold varint_enc. lia. }
  pose proof pub_size_small. unfold two31, two64 in *. lia.
Qed.

(* ---------- C10 ---------- *)

Lemma unmarshal_marshal_pub pk : wf_pub pk -> unmarshal_pub (marshal_pub pk) = Ok pk.
Proof.
  intros Hpk. unfold unmarshal_pub, marshal_pub.
  rewrite pb2_roundtrip by (try apply key_type_int32; apply wf_pub_len, Hpk).
  cbn [obind]. rewrite Z.eqb_refl. destruct Hpk as [H _]. rewrite H, Z.eqb_refl. reflexivity.
Qed.

Theorem extract_id_from_pub pk : wf_pub pk -> extract_pub (id_from_pub pk) = Ok pk.
Proof.
  intros Hpk. unfold extract_pub, id_from_pub.
  rewrite decode_encode_multihash by (try apply mh_identity_range; apply marshal_pub_len, Hpk).
  cbn [obind fst snd]. rewrite Z.eqb_refl. rewrite unmarshal_marshal_pub by exact Hpk.
  cbn [obind]. unfold matches_pub, id_from_pub. rewrite bytes_eqb_refl. reflexivity.
Qed.

Theorem id_from_pub_inj a b : wf_pub a -> wf_pub b -> id_from_pub a = id_from_pub b -> a = b.
Proof.
  intros Ha Hb E.
  pose proof (extract_id_from_pub a Ha) as Xa. pose proof (extract_id_from_pub b Hb) as Xb.
  rewrite E in Xa. rewrite Xa in Xb. inversion Xb; reflexivity.
Qed.

Theorem matches_iff_derived id pk : matches_pub id pk = true <-> id = id_from_pub pk.
Proof. unfold matches_pub. rewrite bytes_eqb_spec. split; congruence. Qed.

(* an id matches at most one key *)
Theorem matches_unique id a b : wf_pub a -> wf_pub b ->
  matches_pub id a = true -> matches_pub id b = true -> a = b.
Proof.
  intros Ha Hb Ma Mb. apply matches_iff_derived in Ma, Mb. apply id_from_pub_inj; congruence.
Qed.

Theorem id_from_bytes_exact b r : id_from_bytes b = Ok r <-> r = b /\ wf_id b.
Proof.
  unfold id_from_bytes, wf_id. split.
  - destruct (decode_multihash b) as [[code d]|e|] eqn:E; cbn [obind fst]; try discriminate.
    destruct (code =? mh_identity) eqn:Ec; [|discriminate]. intros H; inversion H; subst.
    apply Z.eqb_eq in Ec. subst code. split; [reflexivity|].
    destruct (decode_multihash_sound _ _ _ E) as (c & l & Hb & Hc & Hl). exists c, l, d. auto.
  - intros [-> (c & l & d & Hb & Hc & Hl)]. subst b.
    rewrite (decode_multihash_complete c l d mh_identity Hc Hl). cbn [obind fst].
    rewrite Z.eqb_refl. reflexivity.
Qed.

Theorem id_from_pub_wf pk : wf_pub pk -> wf_id (id_from_pub pk).
Proof.
  intros Hpk. unfold wf_id, id_from_pub, encode_multihash.
  exists (varint_enc mh_identity), (varint_enc (zlen (marshal_pub pk))), (marshal_pub pk).
  split; [reflexivity|]. split; apply uvarint_of_enc; [apply mh_identity_range|].
  pose proof (marshal_pub_len pk Hpk). unfold zlen in *. lia.
Qed.

Theorem id_from_bytes_accepts_derived pk : wf_pub pk -> id_from_bytes (id_from_pub pk) = Ok (id_from_pub pk).
Proof. intros H. apply id_from_bytes_exact. split; [reflexivity|apply id_from_pub_wf, H]. Qed.

(* well-formed ids are self-delimiting *)
Theorem wf_id_prefix_free : forall a c x y, wf_id a -> wf_id c -> a ++ x = c ++ y -> a = c.
Proof.
  intros a c x y (ca & la & da & Ea & Hca & Hla) (cc & lc & dc & Ec & Hcc & Hlc) E. subst a c.
  rewrite <- !app_assoc in E.
  pose proof (uvarint_of_app ca _ (la ++ da ++ x) Hca) as D1.
  pose proof (uvarint_of_app cc _ (lc ++ dc ++ y) Hcc) as D2.
  rewrite E in D1. rewrite D1 in D2. inversion D2 as [L1].
  destruct (app_eq_len _ _ _ _ L1 E) as [-> E'].
  pose proof (uvarint_of_app la _ (da ++ x) Hla) as D3.
  pose proof (uvarint_of_app lc _ (dc ++ y) Hlc) as D4.
  rewrite E' in D3. rewrite D3 in D4. inversion D4 as [[V L2]].
  destruct (app_eq_len _ _ _ _ L2 E') as [-> E''].
  assert (L3 : length da = length dc) by (unfold zlen in V; lia).
  destruct (app_eq_len _ _ _ _ L3 E'') as [-> _]. reflexivity.
Qed.

Lemma id_from_bytes_nonempty b r : id_from_bytes b = Ok r -> b <> [].
Proof. unfold id_from_bytes, decode_multihash. intros H ->. cbn in H. discriminate. Qed.

Theorem id_text_roundtrip b : all_bytes b = true -> id_from_bytes b = Ok b ->
  idb58_decode (idb58_encode b) = Ok b.
Proof.
  intros Hb H. unfold idb58_decode, idb58_encode.
  rewrite b58_roundtrip; [exact H|apply all_bytes_ok, Hb|eapply id_from_bytes_nonempty; eauto].
Qed.

Lemma wf_pub_id_bytes pk : wf_pub pk -> all_bytes (id_from_pub pk) = true.
Proof.
  intros Hpk. unfold id_from_pub, encode_multihash.
  apply all_bytes_app. split; [apply varint_enc_bytes; apply mh_identity_range|].
  apply all_bytes_app. split; [apply varint_enc_bytes; unfold zlen; lia|].
  apply pb2_marshal_bytes; [apply Hpk|apply wf_pub_len, Hpk].
Qed.

Theorem id_text_roundtrip_pub pk : wf_pub pk ->
  idb58_decode (idb58_encode (id_from_pub pk)) = Ok (id_from_pub pk).
Proof.
  intros Hpk. apply id_text_roundtrip; [apply wf_pub_id_bytes, Hpk|apply id_from_bytes_accepts_derived, Hpk].
Qed.

(* the text form is canonical: accepted text is the encoding of the id it yields *)
Theorem id_text_canonical s id : idb58_decode s = Ok id -> idb58_encode id = s /\ wf_id id.
Proof.
  unfold idb58_decode, idb58_encode. destruct (b58_decode s) as [m|e|] eqn:E; try discriminate.
  intros H. apply id_from_bytes_exact in H as [-> W]. split; [|exact W].
  apply b58_decode_encode in E. tauto.
Qed.

Theorem id_text_inj a b : all_bytes a = true -> all_bytes b = true ->
  idb58_encode a = idb58_encode b -> a = b.
Proof. intros Ha Hb. apply b58_encode_inj; apply all_bytes_ok; assumption. Qed.

Theorem id_from_bytes_total b : id_from_bytes b <> Panic.
Proof.
  unfold id_from_bytes. pose proof (decode_multihash_no_panic b).
  destruct (decode_multihash b) as [[c d]|e|]; cbn [obind fst]; try discriminate; try contradiction.
  destruct (c =? mh_identity); discriminate.
Qed.

Theorem idb58_decode_total s : idb58_decode s <> Panic.
Proof.
  unfold idb58_decode. pose proof (b58_decode_total s).
  destruct (b58_decode s); try discriminate; try contradiction. apply id_from_bytes_total.
Qed.

Lemma decode_multihash_bytes b code d : all_bytes b = true -> decode_multihash b = Ok (code, d) -> all_bytes d = true.
Proof.
  intros Hb H. destruct (decode_multihash_sound _ _ _ H) as (c & l & E & _ & _). subst b.
  apply all_bytes_app in Hb as [_ Hb]. apply all_bytes_app in Hb as [_ Hb]. exact Hb.
Qed.

Theorem unmarshal_pub_total d : all_bytes d = true -> unmarshal_pub d <> Panic.
Proof.
  intros Hd. unfold unmarshal_pub. pose proof (pb2_unmarshal_total d Hd).
  destruct (pb2_unmarshal d) as [[ty k]|e|]; cbn [obind]; try discriminate; try contradiction.
  destruct (ty =? key_type_ed25519); [|discriminate]. destruct (zlen k =? ed25519_pub_size); discriminate.
Qed.

Theorem extract_pub_total id : all_bytes id = true -> extract_pub id <> Panic.
Proof.
  intros Hb. unfold extract_pub. pose proof (decode_multihash_no_panic id).
  destruct (decode_multihash id) as [[c d]|e|] eqn:E; cbn [obind fst snd]; try discriminate; try contradiction.
  destruct (c =? mh_identity); [|discriminate].
  pose proof (unmarshal_pub_total d (decode_multihash_bytes _ _ _ Hb E)) as T.
  destruct (unmarshal_pub d) as [pk|e|]; cbn [obind]; try discriminate; try contradiction.
  destruct (matches_pub id pk); discriminate.
Qed.

(* ExtractPublicKey succeeds exactly on the id derived from the key it returns *)
Theorem extract_pub_sound id pk : extract_pub id = Ok pk ->
  id = id_from_pub pk /\ zlen pk = ed25519_pub_size /\ id_from_bytes id = Ok id.
Proof.
  unfold extract_pub, id_from_bytes.
  destruct (decode_multihash id) as [[c d]|e|]; cbn [obind fst snd]; try discriminate.
  destruct (c =? mh_identity); [|discriminate].
  destruct (unmarshal_pub d) as [k|e|] eqn:U; cbn [obind]; try discriminate.
  destruct (matches_pub id k) eqn:M; [|discriminate].
  intros H; inversion H; subst. apply matches_iff_derived in M. split; [exact M|]. split; [|reflexivity].
  unfold unmarshal_pub in U. destruct (pb2_unmarshal d) as [[ty raw]|e|]; cbn [obind] in U; try discriminate.
  destruct (ty =? key_type_ed25519); [|discriminate].
  destruct (zlen raw =? ed25519_pub_size) eqn:E; [|discriminate]. inversion U; subst. apply Z.eqb_eq in E. exact E.
Qed.

Theorem extract_pub_iff pk : wf_pub pk -> forall id, extract_pub id = Ok pk <-> id = id_from_pub pk.
Proof.
  intros Hpk id. split.
  - intros H. apply extract_pub_sound in H. tauto.
  - intros ->. apply extract_id_from_pub, Hpk.
Qed.

(* IDFromBytes still accepts other encodings of an id (Go's Uvarint accepts
   non-minimal varints); ExtractPublicKey refuses them *)
Definition noncanonical_example : bytes := 128 :: 0 :: skipn 1 (id_from_pub (repeat 7 32)).
Theorem id_noncanonical_no_key :
  id_from_bytes noncanonical_example = Ok noncanonical_example /\
  extract_pub noncanonical_example = Err ENotCanonical.
Proof. vm_compute. split; reflexivity. Qed.

(* ---------- C15 ---------- *)

Theorem verify_data_exact ty stored data h :
  verify_data ty stored data = Ok h <-> hash_sum ty data = Ok h /\ stored = h.
Proof.
  unfold verify_data. destruct (hash_sum ty data) as [s|e|]; cbn [obind]; try (split; [discriminate|intros [? _]; discriminate]).
  destruct (Nat.eqb (length s) (length stored)) eqn:El; cbn [negb].
  - destruct (sbytes_eqb s stored) eqn:Es.
    + apply sbytes_eqb_spec in Es. subst. split; [intros H; inversion H; auto|intros [H _]; exact H].
    + split; [discriminate|]. intros [H ->]. inversion H; subst.
      assert (sbytes_eqb h h = true) by (apply sbytes_eqb_spec; reflexivity). congruence.
  - split; [discriminate|]. intros [H ->]. inversion H; subst. rewrite Nat.eqb_refl in El. discriminate.
Qed.

Theorem verify_data_ok_iff ty stored data :
  is_ok (verify_data ty stored data) = true <-> hash_sum ty data = Ok stored.
Proof.
  split.
  - destruct (verify_data ty stored data) as [h|e|] eqn:E; try discriminate. intros _.
    apply verify_data_exact in E as [E ->]. exact E.
  - intros H. assert (E : verify_data ty stored data = Ok stored) by (apply verify_data_exact; auto).
    rewrite E. reflexivity.
Qed.

Lemma zmem_in k l : zmem k l = true <-> In k l.
Proof.
  unfold zmem. rewrite existsb_exists. split.
  - intros (x & Hx & E). apply Z.eqb_eq in E. subst. exact Hx.
  - intros H. exists k. split; [exact H|apply Z.eqb_refl].
Qed.

Theorem hash_validate_iff ty dg :
  hash_validate ty dg = Ok tt <-> In ty hash_validate_accept /\ zlen dg = hash_len ty.
Proof.
  unfold hash_validate, hash_type_validate. rewrite <- zmem_in.
  destruct (zmem ty hash_validate_accept); cbn [obind].
  - destruct (zlen dg =? hash_len ty) eqn:E.
    + apply Z.eqb_eq in E. tauto.
    + apply Z.eqb_neq in E. split; [discriminate|tauto].
  - split; [discriminate|intros [? _]; discriminate].
Qed.

(* the generated tables are coherent: every accepted type other than UNKNOWN
   is one Sum supports, and Sum's digest has the length Validate asks for *)
Lemma hash_tables_coherent :
  forallb (fun t => (t =? hash_type_unknown) ||
                    (zmem t hash_sum_types && (zassoc t hash_sum_len_table 0 =? hash_len t) && (0 <=? t)
                     && (0 <? hash_len t)))
          hash_validate_accept = true.
Proof. vm_compute. reflexivity. Qed.

Lemma hash_sum_types_accepted :
  forallb (fun t => zmem t hash_validate_accept && negb (t =? hash_type_unknown) && (0 <=? t)
                    && (0 <? zassoc t hash_sum_len_table 0)) hash_sum_types = true.
Proof. vm_compute. reflexivity. Qed.

Theorem hash_validate_known ty dg : ty <> hash_type_unknown -> hash_validate ty dg = Ok tt ->
  forall data, exists h, hash_sum ty data = Ok h /\ Z.of_nat (length h) = zlen dg.
Proof.
  intros Hne H data. apply hash_validate_iff in H as [Hin Hl].
  pose proof hash_tables_coherent as C. rewrite forallb_forall in C. specialize (C ty Hin).
  apply orb_true_iff in C as [C|C]; [apply Z.eqb_eq in C; contradiction|].
  rewrite !andb_true_iff in C. destruct C as [[[C1 C2] C3] C4]. apply Z.eqb_eq in C2.
  unfold hash_sum. rewrite C1. eexists. split; [reflexivity|].
  rewrite fout_length. rewrite C2. rewrite Hl. apply Z2Nat.id. lia.
Qed.

Theorem hash_validate_zero_refuted :
  hash_validate hash_type_unknown [] = Ok tt /\ forall data, hash_sum hash_type_unknown data = Err EHashType.
Proof. split; [vm_compute; reflexivity|intros; vm_compute; reflexivity]. Qed.

(* conversely every hash produced by Sum validates *)
Theorem hash_sum_validates ty data h dg : hash_sum ty data = Ok h -> length dg = length h ->
  hash_validate ty dg = Ok tt.
Proof.
  unfold hash_sum. destruct (zmem ty hash_sum_types) eqn:M; [|discriminate].
  intros H L. inversion H; subst. rewrite fout_length in L.
  apply zmem_in in M. pose proof hash_sum_types_accepted as C. rewrite forallb_forall in C.
  specialize (C ty M). rewrite !andb_true_iff in C. destruct C as [[[C1 C2] C3] C4].
  apply hash_validate_iff. split; [apply zmem_in, C1|].
  pose proof hash_tables_coherent as D. rewrite forallb_forall in D. specialize (D ty (proj1 (zmem_in _ _) C1)).
  apply orb_true_iff in D as [D|D]; [rewrite D in C2; discriminate|].
  rewrite !andb_true_iff in D. destruct D as [[[D1 D2] D3] D4]. apply Z.eqb_eq in D2.
  unfold zlen. rewrite L, <- D2. apply Z2Nat.id. lia.
Qed.

(* idealised collision freedom: a digest determines the algorithm and the data *)
Theorem hash_sum_inj t1 d1 t2 d2 h : hash_sum t1 d1 = Ok h -> hash_sum t2 d2 = Ok h -> t1 = t2 /\ d1 = d2.
Proof.
  unfold hash_sum. destruct (zmem t1 hash_sum_types) eqn:M1; [|discriminate].
  destruct (zmem t2 hash_sum_types) eqn:M2; [|discriminate].
  set (n1 := Z.to_nat (zassoc t1 hash_sum_len_table 0)) in *.
  set (n2 := Z.to_nat (zassoc t2 hash_sum_len_table 0)) in *.
  intros H1 H2.
  assert (E : fout (Z.to_nat t1) n1 (lift d1) = fout (Z.to_nat t2) n2 (lift d2)) by congruence.
  apply zmem_in in M1, M2. pose proof hash_sum_types_accepted as C. rewrite forallb_forall in C.
  pose proof (C t1 M1) as C1. pose proof (C t2 M2) as C2.
  rewrite !andb_true_iff in C1, C2. destruct C1 as [[[_ _] P1] N1]. destruct C2 as [[[_ _] P2] N2].
  assert (L : n1 = n2).
  { apply (f_equal (@length sym)) in E. rewrite !fout_length in E. exact E. }
  rewrite L in E. apply fout_inj in E as [F A]; [|unfold n2; lia].
  split; [lia|apply lift_inj, A].
Qed.

Theorem verify_binds_data ty data data' h h' :
  hash_sum ty data' = Ok h -> verify_data ty h data = Ok h' -> data = data'.
Proof.
  intros S V. apply verify_data_exact in V as [V ->]. destruct (hash_sum_inj _ _ _ _ _ V S); auto.
Qed.

Theorem hash_binary_roundtrip ty dg : is_int32 ty -> zlen dg < two63 ->
  hash_unmarshal (hash_marshal ty dg) = Ok (ty, dg).
Proof. apply pb2_roundtrip. Qed.

Lemma pb2_marshal_nonempty ty dg : ty <> 0 \/ dg <> [] -> pb2_marshal ty dg <> [].
Proof.
  unfold pb2_marshal. intros [H|H].
  - destruct (ty =? 0) eqn:E; [apply Z.eqb_eq in E; contradiction|]. discriminate.
  - destruct dg; [contradiction|]. intros E. apply app_eq_nil in E as [_ E]. discriminate.
Qed.

Theorem hash_b58_roundtrip ty dg : is_int32 ty -> zlen dg < two63 -> all_bytes dg = true ->
  ty <> 0 \/ dg <> [] -> hash_parse_b58 (hash_marshal_string ty dg) = Ok (ty, dg).
Proof.
  intros Hty Hl Hb Hne. unfold hash_parse_b58, hash_marshal_string, hash_marshal.
  rewrite b58_roundtrip.
  - apply hash_binary_roundtrip; assumption.
  - apply all_bytes_ok. apply pb2_marshal_bytes; assumption.
  - apply pb2_marshal_nonempty, Hne.
Qed.

Theorem hash_b58_zero_refuted : hash_parse_b58 (hash_marshal_string 0 []) = Err EB58.
Proof. vm_compute. reflexivity. Qed.

Theorem hash_unmarshal_total b : all_bytes b = true -> hash_unmarshal b <> Panic.
Proof. apply pb2_unmarshal_total. Qed.

Theorem hash_parse_b58_total s : hash_parse_b58 s <> Panic.
Proof.
  unfold hash_parse_b58. destruct (b58_decode s) as [m|e|] eqn:E; try discriminate.
  - apply hash_unmarshal_total. apply b58_decode_encode in E as [_ E]. apply all_bytes_ok, E.
  - exfalso. eapply b58_decode_total; eauto.
Qed.

Theorem compare_hash_iff a b : compare_hash a b = true <-> a = b.
Proof.
  destruct a as [[t1 d1]|], b as [[t2 d2]|]; cbn [compare_hash]; try (split; [discriminate|congruence]); [|tauto].
  rewrite !andb_true_iff, Z.eqb_eq, Nat.eqb_eq, bytes_eqb_spec. split.
  - intros [[-> _] ->]. reflexivity.
  - intros H; inversion H; subst. auto.
Qed.

Theorem verify_validate_total ty stored data dg :
  verify_data ty stored data <> Panic /\ hash_validate ty dg <> Panic /\ hash_sum ty data <> Panic.
Proof.
  unfold verify_data, hash_validate, hash_type_validate, hash_sum. repeat split.
  - destruct (zmem ty hash_sum_types); cbn [obind]; [|discriminate].
    destruct (negb _); [discriminate|]. destruct (sbytes_eqb _ _); discriminate.
  - destruct (zmem ty hash_validate_accept); cbn [obind]; [|discriminate]. destruct (_ =? _); discriminate.
  - destruct (zmem ty hash_sum_types); discriminate.
Qed.
