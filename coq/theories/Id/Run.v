(* Correspondence for C10 (peer IDs) and C15 (content hashes): run the model
   on the inputs the implementation ran on and compare the observations. *)
From Bifrost Require Import Lib.Base Lib.Varint Lib.Sym Lib.Base58 Id.Pb Id.Model.

(* observation of a Go call returning (value, error), panics caught.
   OErr k: k = 0 means "some error" (class not observable without comparing
   strings), otherwise the class given by a sentinel error (errors.Is). *)
Inductive obs (A : Type) : Type :=
| OOk (a : A)
| OErr (k : nat)
| OPanic.
Arguments OOk {A} a.
Arguments OErr {A} k.
Arguments OPanic {A}.

Definition obs_agree {A} (eqb : A -> A -> bool) (m : outcome A) (o : obs A) : bool :=
  match m, o with
  | Ok a, OOk b => eqb a b
  | Err k, OErr k' => Nat.eqb k' 0 || Nat.eqb k k'
  | Panic, OPanic => true
  | _, _ => false
  end.

Definition unit_eqb (a b : unit) : bool := true.
Definition pair_eqb (a b : Z * bytes) : bool := (fst a =? fst b) && bytes_eqb (snd a) (snd b).

Inductive c10_case :=
| IdBytes (b : bytes) (o : obs bytes)                (* IDFromBytes *)
| Extract (id : bytes) (o : obs bytes)               (* ID.ExtractPublicKey -> raw key *)
| FromPub (pk : bytes) (id : bytes)                  (* IDFromPublicKey of a 32-byte key *)
| Matches (id pk : bytes) (o : bool)                 (* ID.MatchesPublicKey *)
| B58Dec (s : bytes) (o : obs bytes)                 (* IDB58Decode *)
| B58Enc (id : bytes) (s : bytes)                    (* IDB58Encode / ID.String *)
| RawB58Dec (s : bytes) (o : obs bytes)              (* mr-tron base58.Decode against the specification *)
| ParsePeerId (s : bytes) (o : obs (option bytes))   (* confparse.ParsePeerID *)
| UnmarshalPub (d : bytes) (o : obs bytes)           (* crypto.UnmarshalPublicKey -> raw key *)
| MarshalPub (pk : bytes) (d : bytes).               (* crypto.MarshalPublicKey *)

Definition c10_agree (c : c10_case) : bool :=
  match c with
  | IdBytes b o => obs_agree bytes_eqb (id_from_bytes b) o
  | Extract id o => obs_agree bytes_eqb (extract_pub id) o
  | FromPub pk id => bytes_eqb (id_from_pub pk) id
  | Matches id pk o => Bool.eqb (matches_pub id pk) o
  | B58Dec s o => obs_agree bytes_eqb (idb58_decode s) o
  | B58Enc id s => bytes_eqb (idb58_encode id) s
  | RawB58Dec s o => obs_agree bytes_eqb (b58_decode s) o
  | ParsePeerId s o => obs_agree (option_eqb bytes_eqb) (parse_peer_id s) o
  | UnmarshalPub d o => obs_agree bytes_eqb (unmarshal_pub d) o
  | MarshalPub pk d => bytes_eqb (marshal_pub pk) d
  end.

(* how the harness built the stored digest of a verification case *)
Inductive digest_desc :=
| DRaw (b : bytes)                                   (* bytes not produced by a hash function *)
| DSum (ty : Z) (data : bytes) (keep : nat).         (* first keep bytes of Sum(ty, data) *)

Definition digest_of (d : digest_desc) : sbytes :=
  match d with
  | DRaw b => lift b
  | DSum ty data keep => match hash_sum ty data with Ok h => firstn keep h | _ => [] end
  end.

Inductive c15_case :=
| HVerify (ty : Z) (stored : digest_desc) (data : bytes) (o : obs nat)   (* VerifyData; Ok carries len of the returned digest *)
| HSumLen (ty : Z) (data : bytes) (o : obs nat)                          (* HashType.Sum: length *)
| HSumEq (t1 : Z) (d1 : bytes) (t2 : Z) (d2 : bytes) (eq : bool)         (* equality of two digests (both types supported) *)
| HValidate (ty : Z) (digest : bytes) (o : obs unit)
| HMarshal (ty : Z) (digest : bytes) (b : bytes)
| HUnmarshal (b : bytes) (o : obs (Z * bytes))
| HString (ty : Z) (digest : bytes) (s : bytes)
| HParse (s : bytes) (o : obs (Z * bytes))
| HCompare (a b : option (Z * bytes)) (eq : bool)
(* the same operations on hashes obtained by DECODING enc (UnmarshalVT); a failed decode is OErr 20.
   dgbytes/stored: the harness states that the digest bytes dgbytes are the value of the description stored *)
| HVerifyDec (enc : bytes) (dgbytes : bytes) (stored : digest_desc) (data : bytes) (o : obs nat)
| HValidateDec (enc : bytes) (o : obs unit)
| HCompareDec (enc1 enc2 : bytes) (o : obs bool).

Definition c15_agree (c : c15_case) : bool :=
  match c with
  | HVerify ty st data o =>
      obs_agree Nat.eqb (h <- verify_data ty (digest_of st) data ;; Ok (length h)) o
  | HSumLen ty data o => obs_agree Nat.eqb (h <- hash_sum ty data ;; Ok (length h)) o
  | HSumEq t1 d1 t2 d2 eq =>
      match hash_sum t1 d1, hash_sum t2 d2 with
      | Ok a, Ok b => Bool.eqb (sbytes_eqb a b) eq
      | _, _ => false
      end
  | HValidate ty dg o => obs_agree unit_eqb (hash_validate ty dg) o
  | HMarshal ty dg b => bytes_eqb (hash_marshal ty dg) b
  | HUnmarshal b o => obs_agree pair_eqb (hash_unmarshal b) o
  | HString ty dg s => bytes_eqb (hash_marshal_string ty dg) s
  | HParse s o => obs_agree pair_eqb (hash_parse_b58 s) o
  | HCompare a b eq => Bool.eqb (compare_hash a b) eq
  | HVerifyDec enc dgbytes st data o =>
      obs_agree Nat.eqb
        (r <- hash_unmarshal enc ;;
         let '(ty, dg) := r in
         let stored := if bytes_eqb dg dgbytes then digest_of st else lift dg in
         h <- verify_data ty stored data ;; Ok (length h)) o
  | HValidateDec enc o =>
      obs_agree unit_eqb (r <- hash_unmarshal enc ;; hash_validate (fst r) (snd r)) o
  | HCompareDec e1 e2 o =>
      obs_agree Bool.eqb
        (a <- hash_unmarshal e1 ;; b <- hash_unmarshal e2 ;; Ok (compare_hash (Some a) (Some b))) o
  end.
