(* Proofs about the protobuf model Id/Pb.v: round trip and totality. *)
From Bifrost Require Import Lib.Base Lib.Varint Id.Pb.

Lemma to_int32_uint64 ty : is_int32 ty -> to_int32 (to_uint64 ty) = ty.
Proof.
  unfold is_int32, to_int32, to_uint64, two31, two32, two64. intros H.
  assert (E : (ty mod 18446744073709551616) mod 4294967296 = ty mod 4294967296).
  { change 18446744073709551616 with (4294967296 * 4294967296).
    rewrite Z.rem_mul_r by lia.
    rewrite Z.mul_comm, Z.mod_add by lia. apply Z.mod_mod. lia. }
  rewrite E. clear E.
  destruct (Z_lt_ge_dec ty 0) as [L|G].
  - assert (E : ty mod 4294967296 = ty + 4294967296).
    { symmetry. apply Z.mod_unique with (q := -1); lia. }
    rewrite E. destruct (ty + 4294967296 <? 2147483648) eqn:C; lia.
  - rewrite Z.mod_small by lia. destruct (ty <? 2147483648) eqn:C; lia.
Qed.

Lemma to_uint64_range ty : 0 <= to_uint64 ty < two64.
Proof. unfold to_uint64, two64. apply Z.mod_pos_bound. lia. Qed.

Lemma to_int32_small v : 0 <= v < two31 -> to_int32 v = v.
Proof.
  unfold to_int32, two31, two32. intros H. rewrite Z.mod_small by lia.
  destruct (v <? 2147483648) eqn:C; lia.
Qed.

Lemma skipn_app_len {A} (a b : list A) : skipn (length a) (a ++ b) = b.
Proof. induction a; cbn; auto. Qed.

Lemma firstn_app_len {A} (a b : list A) : firstn (length a) (a ++ b) = a.
Proof. induction a; cbn; [destruct b; reflexivity|f_equal; auto]. Qed.

Lemma gslice_prefix d rest : gslice (d ++ rest) 0 (zlen d) = Ok d.
Proof.
  unfold gslice, zlen. rewrite app_length.
  replace ((0 <=? 0) && (0 <=? Z.of_nat (length d)) && (Z.of_nat (length d) <=? Z.of_nat (length d + length rest))) with true by lia.
  rewrite Z.sub_0_r, Nat2Z.id. cbn [Z.to_nat skipn]. rewrite firstn_app_len. reflexivity.
Qed.

Lemma zskip_prefix d rest : zskip (zlen d) (d ++ rest) = rest.
Proof.
  unfold zskip, zlen. rewrite app_length. destruct rest as [|x rest].
  - rewrite app_nil_r. cbn [length]. replace (Z.of_nat (length d + 0) <=? Z.of_nat (length d)) with true by lia. reflexivity.
  - cbn [length]. replace (Z.of_nat (length d + S (length rest)) <=? Z.of_nat (length d)) with false by lia.
    rewrite Nat2Z.id. apply skipn_app_len.
Qed.

(* one iteration of the decoder on a field-1 record *)
Lemma pb2_loop_f1 f v rest ty data : 0 <= v < two64 ->
  pb2_loop (S f) (8 :: varint_enc v ++ rest) ty data = pb2_loop f rest (to_int32 v) data.
Proof.
  intros Hv. cbn [pb2_loop].
  change (varint_dec (8 :: varint_enc v ++ rest)) with (VOk 8 1).
  cbn [skipn]. change (8 mod 8 =? 4) with false. change (to_int32 (8 / 8)) with 1.
  change (1 <=? 0) with false. change (1 =? 1) with true. change (negb (8 mod 8 =? 0)) with false.
  cbv iota. rewrite varint_roundtrip by exact Hv. rewrite skipn_app_len. reflexivity.
Qed.

(* one iteration on a field-2 record *)
Lemma pb2_loop_f2 f d rest ty data : zlen d < two63 ->
  pb2_loop (S f) (18 :: varint_enc (zlen d) ++ d ++ rest) ty data = pb2_loop f rest ty d.
Proof.
  intros Hd. cbn [pb2_loop].
  change (varint_dec (18 :: varint_enc (zlen d) ++ d ++ rest)) with (VOk 18 1).
  cbn [skipn]. change (18 mod 8 =? 4) with false. change (to_int32 (18 / 8)) with 2.
  change (2 <=? 0) with false. change (2 =? 1) with false. change (2 =? 2) with true.
  change (negb (18 mod 8 =? 2)) with false. cbv iota.
  assert (Hr : 0 <= zlen d < two64) by (unfold zlen, two63, two64 in *; lia).
  rewrite varint_roundtrip by exact Hr. rewrite skipn_app_len.
  replace (two63 <=? zlen d) with false by lia.
  replace (zlen (d ++ rest) <? zlen d) with false by (unfold zlen; rewrite app_length; lia).
  rewrite gslice_prefix. cbn [obind]. rewrite zskip_prefix. reflexivity.
Qed.

Lemma pb2_loop_nil f ty data : pb2_loop (S f) [] ty data = Ok (ty, data).
Proof. reflexivity. Qed.

Lemma pb2_loop_f1' f v rest ty data : (0 < f)%nat -> 0 <= v < two64 ->
  pb2_loop f (8 :: varint_enc v ++ rest) ty data = pb2_loop (pred f) rest (to_int32 v) data.
Proof. intros Hf Hv. destruct f; [lia|]. apply pb2_loop_f1, Hv. Qed.

Lemma pb2_loop_f2' f d rest ty data : (0 < f)%nat -> zlen d < two63 ->
  pb2_loop f (18 :: varint_enc (zlen d) ++ d ++ rest) ty data = pb2_loop (pred f) rest ty d.
Proof. intros Hf Hv. destruct f; [lia|]. apply pb2_loop_f2, Hv. Qed.

Lemma pb2_loop_nil' f ty data : (0 < f)%nat -> pb2_loop f [] ty data = Ok (ty, data).
Proof. intros Hf. destruct f; [lia|]. reflexivity. Qed.

Theorem pb2_roundtrip ty data :
  is_int32 ty -> zlen data < two63 -> pb2_unmarshal (pb2_marshal ty data) = Ok (ty, data).
Proof.
  intros Hty Hd. unfold pb2_unmarshal, pb2_marshal.
  pose proof (venc_length_pos 10 (zlen data) ltac:(lia)) as Hp1.
  pose proof (venc_length_pos 10 (to_uint64 ty) ltac:(lia)) as Hp2.
  fold (varint_enc (zlen data)) in Hp1. fold (varint_enc (to_uint64 ty)) in Hp2.
  destruct (ty =? 0) eqn:E0; destruct data as [|x data'] eqn:Ed.
  - apply Z.eqb_eq in E0. subst. reflexivity.
  - apply Z.eqb_eq in E0. subst ty. rewrite <- Ed in *. cbn [app].
    replace (18 :: varint_enc (zlen data) ++ data) with (18 :: varint_enc (zlen data) ++ data ++ []) by (rewrite app_nil_r; reflexivity).
    rewrite pb2_loop_f2' by (try exact Hd; lia).
    apply pb2_loop_nil'. cbn [length pred]. rewrite app_length. lia.
  - rewrite app_nil_r.
    replace (8 :: varint_enc (to_uint64 ty)) with (8 :: varint_enc (to_uint64 ty) ++ []) by (rewrite app_nil_r; reflexivity).
    rewrite pb2_loop_f1' by (try apply to_uint64_range; lia).
    rewrite to_int32_uint64 by exact Hty.
    apply pb2_loop_nil'. cbn [length pred]. rewrite app_length. lia.
  - rewrite <- Ed in *.
    replace ((8 :: varint_enc (to_uint64 ty)) ++ 18 :: varint_enc (zlen data) ++ data)
      with (8 :: varint_enc (to_uint64 ty) ++ (18 :: varint_enc (zlen data) ++ data ++ [])) by (rewrite app_nil_r; reflexivity).
    rewrite pb2_loop_f1' by (try apply to_uint64_range; lia).
    rewrite pb2_loop_f2'; [|cbn [length pred]; rewrite app_length; cbn [length]; lia|exact Hd].
    rewrite to_int32_uint64 by exact Hty.
    apply pb2_loop_nil'. cbn [length pred]. rewrite !app_length. cbn [length]. rewrite !app_length. lia.
Qed.

(* marshalling is injective on the domain of the round trip *)
Lemma pb2_marshal_inj t1 d1 t2 d2 :
  is_int32 t1 -> is_int32 t2 -> zlen d1 < two63 -> zlen d2 < two63 ->
  pb2_marshal t1 d1 = pb2_marshal t2 d2 -> t1 = t2 /\ d1 = d2.
Proof.
  intros H1 H2 L1 L2 E.
  pose proof (pb2_roundtrip t1 d1 H1 L1) as R1. pose proof (pb2_roundtrip t2 d2 H2 L2) as R2.
  rewrite E in R1. rewrite R1 in R2. inversion R2; auto.
Qed.

(* ---- totality: no Go panic on any byte string ---- *)

Lemma skip_loop_no_panic : forall f buf pos depth, skip_loop f buf pos depth <> Panic.
Proof.
  induction f as [|f IH]; intros buf pos depth; cbn [skip_loop]; [discriminate|].
  destruct buf as [|b0 buf']; [discriminate|].
  destruct (skv 10 0 (b0 :: buf')) as [[w n]|]; [|discriminate].
  set (rest := skipn n (b0 :: buf')).
  assert (C : forall r p d, (if two63 <=? p then Err EPb else if d =? 0 then Ok p else skip_loop f r p d) <> Panic).
  { intros r p d. destruct (two63 <=? p); [discriminate|]. destruct (d =? 0); [discriminate|apply IH]. }
  destruct (b0 mod 8 =? 0).
  { destruct (skv 10 0 rest) as [[? m]|]; [apply C|discriminate]. }
  destruct (b0 mod 8 =? 1); [apply C|].
  destruct (b0 mod 8 =? 2).
  { destruct (skv 10 0 rest) as [[len m]|]; [|discriminate]. destruct (len <? 0); [discriminate|apply C]. }
  destruct (b0 mod 8 =? 3); [apply C|].
  destruct (b0 mod 8 =? 4).
  { destruct (depth =? 0); [discriminate|apply C]. }
  destruct (b0 mod 8 =? 5); [apply C|discriminate].
Qed.

Lemma all_bytes_skipn n b : all_bytes b = true -> all_bytes (skipn n b) = true.
Proof.
  revert b; induction n as [|n IH]; intros b H; [exact H|].
  destruct b as [|x b]; [reflexivity|]. cbn [skipn]. apply IH.
  unfold all_bytes in *. cbn [forallb] in H. apply andb_true_iff in H. tauto.
Qed.

Lemma all_bytes_firstn n b : all_bytes b = true -> all_bytes (firstn n b) = true.
Proof.
  revert b; induction n as [|n IH]; intros b H; [reflexivity|].
  destruct b as [|x b]; [reflexivity|]. unfold all_bytes in *. cbn [firstn forallb] in *.
  apply andb_true_iff in H as [H1 H2]. rewrite H1. cbn. apply IH. exact H2.
Qed.

Lemma all_bytes_zskip n b : all_bytes b = true -> all_bytes (zskip n b) = true.
Proof. intros H. unfold zskip. destruct (zlen b <=? n); [reflexivity|apply all_bytes_skipn, H]. Qed.

Lemma all_bytes_app a b : all_bytes (a ++ b) = true <-> all_bytes a = true /\ all_bytes b = true.
Proof. unfold all_bytes. rewrite forallb_app, andb_true_iff. tauto. Qed.

Lemma varint_dec_nonneg buf v n : all_bytes buf = true -> varint_dec buf = VOk v n -> 0 <= v.
Proof. intros Hb H. pose proof (vdec_value _ _ _ _ _ Hb H). lia. Qed.

Lemma pb2_loop_no_panic : forall f buf ty data, all_bytes buf = true -> pb2_loop f buf ty data <> Panic.
Proof.
  induction f as [|f IH]; intros buf ty data Hb; cbn [pb2_loop]; [discriminate|].
  destruct buf as [|b0 buf']; [discriminate|].
  destruct (varint_dec (b0 :: buf')) as [wire n|] eqn:Ew; [|discriminate].
  set (rest := skipn n (b0 :: buf')).
  assert (Hrest : all_bytes rest = true) by (apply all_bytes_skipn, Hb).
  destruct (wire mod 8 =? 4); [discriminate|].
  destruct (to_int32 (wire / 8) <=? 0); [discriminate|].
  destruct (to_int32 (wire / 8) =? 1).
  { destruct (negb (wire mod 8 =? 0)); [discriminate|].
    destruct (varint_dec rest) as [v m|]; [|discriminate]. apply IH. apply all_bytes_skipn, Hrest. }
  destruct (to_int32 (wire / 8) =? 2).
  { destruct (negb (wire mod 8 =? 2)); [discriminate|].
    destruct (varint_dec rest) as [v m|] eqn:Ev; [|discriminate].
    pose proof (varint_dec_nonneg _ _ _ Hrest Ev) as Hv.
    destruct (two63 <=? v); [discriminate|].
    destruct (zlen (skipn m rest) <? v) eqn:El; [discriminate|].
    unfold gslice.
    replace ((0 <=? 0) && (0 <=? v) && (v <=? zlen (skipn m rest))) with true by lia.
    cbn [obind]. apply IH. apply all_bytes_zskip, all_bytes_skipn, Hrest. }
  destruct (pb_skip (b0 :: buf')) as [k|e|] eqn:Es.
  - destruct (zlen (b0 :: buf') <? k); [discriminate|]. apply IH. apply all_bytes_zskip, Hb.
  - discriminate.
  - exfalso. eapply skip_loop_no_panic. exact Es.
Qed.

Theorem pb2_unmarshal_total buf : all_bytes buf = true -> pb2_unmarshal buf <> Panic.
Proof. intros H. apply pb2_loop_no_panic, H. Qed.

Lemma varint_enc_bytes v : 0 <= v -> all_bytes (varint_enc v) = true.
Proof. apply venc_bytes. Qed.

Lemma pb2_marshal_bytes ty data : all_bytes data = true -> zlen data < two63 ->
  all_bytes (pb2_marshal ty data) = true.
Proof.
  intros Hd Hl. unfold pb2_marshal. apply all_bytes_app. split.
  - destruct (ty =? 0); [reflexivity|].
    change (8 :: varint_enc (to_uint64 ty)) with ([8] ++ varint_enc (to_uint64 ty)).
    apply all_bytes_app. split; [reflexivity|]. apply varint_enc_bytes. apply to_uint64_range.
  - destruct data as [|x d]; [reflexivity|].
    change (18 :: varint_enc (zlen (x :: d)) ++ x :: d) with ([18] ++ varint_enc (zlen (x :: d)) ++ x :: d).
    apply all_bytes_app. split; [reflexivity|]. apply all_bytes_app. split; [|exact Hd].
    apply varint_enc_bytes. unfold zlen. lia.
Qed.
