(* Model of peer/id.go (multihash peer IDs), crypto.Marshal/UnmarshalPublicKey
   and hash/hash.go.  No proofs here.
   A public key is its raw byte string (Ed25519PublicKey.k). *)
From Bifrost Require Import Lib.Base Lib.Varint Lib.Sym Lib.Base58 Id.Pb.
From Bifrost Require Import gen.Ident gen.IdentHash.

(* error classes *)
Definition EShort : nat := 1%nat.        (* multihash too short *)
Definition EVarint : nat := 2%nat.       (* invalid multihash varint (code) *)
Definition ELenVarint : nat := 3%nat.    (* invalid digest length varint *)
Definition EMismatch : nat := 4%nat.     (* digest length mismatch *)
Definition ENotIdentity : nat := 5%nat.  (* code is not the identity function *)
Definition EBadKeyType : nat := 6%nat.   (* crypto.ErrBadKeyType *)
Definition EKeyLen : nat := 7%nat.       (* wrong raw key length *)
Definition ENotCanonical : nat := 8%nat. (* id is not the canonical encoding of its public key *)
(* EPb = 20 (Id/Pb.v), EB58 = 58 (Lib/Base58.v) *)

(* ---------- peer/id.go ---------- *)

(* encodeMultihash: PutUvarint(code) ++ PutUvarint(len digest) ++ digest *)
Definition encode_multihash (code : Z) (digest : bytes) : bytes :=
  varint_enc code ++ varint_enc (zlen digest) ++ digest.

(* decodeMultihash *)
Definition decode_multihash (b : bytes) : outcome (Z * bytes) :=
  match b with
  | [] => Err EShort
  | _ :: _ =>
      match varint_dec b with
      | VErr => Err EVarint                           (* n <= 0 *)
      | VOk code n =>
          b1 <- gfrom b (Z.of_nat n) ;;                (* b = b[n:] *)
          match varint_dec b1 with
          | VErr => Err ELenVarint
          | VOk dlen m =>
              b2 <- gfrom b1 (Z.of_nat m) ;;
              if zlen b2 =? dlen then Ok (code, b2) else Err EMismatch
          end
      end
  end.

(* crypto.MarshalPublicKey / UnmarshalPublicKey for Ed25519 keys *)
Definition marshal_pub (pk : bytes) : bytes := pb2_marshal key_type_ed25519 pk.

Definition unmarshal_pub (data : bytes) : outcome bytes :=
  r <- pb2_unmarshal data ;;
  let '(ty, d) := r in
  if ty =? key_type_ed25519 then               (* PubKeyUnmarshallers lookup *)
    (if zlen d =? ed25519_pub_size then Ok d else Err EKeyLen)
  else Err EBadKeyType.

Definition id_from_pub (pk : bytes) : bytes := encode_multihash mh_identity (marshal_pub pk).

Definition id_from_bytes (b : bytes) : outcome bytes :=
  r <- decode_multihash b ;;
  if fst r =? mh_identity then Ok b else Err ENotIdentity.

Definition matches_pub (id pk : bytes) : bool := bytes_eqb (id_from_pub pk) id.

(* ID.ExtractPublicKey: the embedded key is returned only if the id is the one
   derived from it (other encodings of the same key are rejected) *)
Definition extract_pub (id : bytes) : outcome bytes :=
  r <- decode_multihash id ;;
  if fst r =? mh_identity then
    pk <- unmarshal_pub (snd r) ;;
    if matches_pub id pk then Ok pk else Err ENotCanonical
  else Err ENotIdentity.

Definition idb58_encode (id : bytes) : bytes := b58_encode id.

Definition idb58_decode (s : bytes) : outcome bytes :=
  match b58_decode s with
  | Ok m => id_from_bytes m
  | Err e => Err e
  | Panic => Panic
  end.

(* util/confparse/peer_id.go ParsePeerID: the empty string is "no id" *)
Definition parse_peer_id (s : bytes) : outcome (option bytes) :=
  match s with
  | [] => Ok None
  | _ => id <- idb58_decode s ;; Ok (Some id)
  end.

(* well-formed public key / well-formed id *)
Definition wf_pub (pk : bytes) : Prop := zlen pk = ed25519_pub_size /\ all_bytes pk = true.

(* c is a complete (possibly non-minimal) uvarint encoding of v, as accepted by binary.Uvarint *)
Definition uvarint_of (c : bytes) (v : Z) : Prop := varint_dec c = VOk v (length c).

Definition wf_id (b : bytes) : Prop :=
  exists c l d, b = c ++ l ++ d /\ uvarint_of c mh_identity /\ uvarint_of l (zlen d).

(* ---------- hash/hash.go ---------- *)

Definition EHashType : nat := 10%nat.    (* hash type unknown *)
Definition EHashLen : nat := 11%nat.     (* expected hash length *)
Definition EHashMismatch : nat := 12%nat.

Fixpoint zassoc (k : Z) (l : list (Z * Z)) (dflt : Z) : Z :=
  match l with
  | [] => dflt
  | (k', v) :: l' => if k =? k' then v else zassoc k l' dflt
  end.

Definition zmem (k : Z) (l : list Z) : bool := existsb (Z.eqb k) l.

(* HashType.Validate *)
Definition hash_type_validate (ty : Z) : outcome unit :=
  if zmem ty hash_validate_accept then Ok tt else Err EHashType.

(* HashType.GetHashLen *)
Definition hash_len (ty : Z) : Z := zassoc ty hash_len_table 0.

(* HashType.Sum: the digest is a free function symbol (one per hash type) of
   the data; the number of bytes is the size of the library's array *)
Definition hash_sum (ty : Z) (data : bytes) : outcome sbytes :=
  if zmem ty hash_sum_types
  then Ok (fout (Z.to_nat ty) (Z.to_nat (zassoc ty hash_sum_len_table 0)) (lift data))
  else Err EHashType.

(* Hash.Validate *)
Definition hash_validate (ty : Z) (digest : bytes) : outcome unit :=
  _ <- hash_type_validate ty ;;
  if zlen digest =? hash_len ty then Ok tt else Err EHashLen.

(* Hash.VerifyData: the stored digest is a symbolic byte string *)
Definition verify_data (ty : Z) (stored : sbytes) (data : bytes) : outcome sbytes :=
  h <- hash_sum ty data ;;
  if negb (Nat.eqb (length h) (length stored)) then Err EHashMismatch
  else if sbytes_eqb h stored then Ok h else Err EHashMismatch.

(* Hash.CompareHash on possibly nil hashes *)
Definition compare_hash (a b : option (Z * bytes)) : bool :=
  match a, b with
  | None, None => true
  | Some (t1, d1), Some (t2, d2) =>
      (t1 =? t2) && Nat.eqb (length d1) (length d2) && bytes_eqb d1 d2
  | _, _ => false
  end.

(* MarshalVT / UnmarshalVT, MarshalString / ParseFromB58 *)
Definition hash_marshal (ty : Z) (digest : bytes) : bytes := pb2_marshal ty digest.
Definition hash_unmarshal (b : bytes) : outcome (Z * bytes) := pb2_unmarshal b.
Definition hash_marshal_string (ty : Z) (digest : bytes) : bytes := b58_encode (hash_marshal ty digest).
Definition hash_parse_b58 (s : bytes) : outcome (Z * bytes) :=
  match b58_decode s with
  | Ok m => hash_unmarshal m
  | Err e => Err e
  | Panic => Panic
  end.
