(* Model of the generated protobuf code (protobuf-go-lite, *.pb.go) for the
   three messages that share the shape
       message M { Enum f1 = 1; bytes f2 = 2; }
   crypto.PublicKey, crypto.PrivateKey (crypto/crypto.pb.go) and hash.Hash
   (hash/hash.pb.go): MarshalVT / UnmarshalVT, including the handling of
   unknown fields through protobuf_go_lite.Skip.  No proofs here.

   The decoder is written over the remaining suffix of the buffer instead of
   an index; every Go slice expression on the path is a [gslice] that yields
   Panic when out of range. *)
From Bifrost Require Import Lib.Base Lib.Varint.

Definition EPb : nat := 20%nat.          (* every protobuf wire error *)

Definition two31 : Z := 2147483648.
Definition two32 : Z := 4294967296.
Definition two63 : Z := 9223372036854775808.

Definition zlen (b : bytes) : Z := Z.of_nat (length b).

(* Go conversions: uint64 -> int32 (KeyType(_v), int32(wire >> 3)) and
   int32 -> uint64 (uint64(m.KeyType), sign extending) *)
Definition to_int32 (v : Z) : Z := let m := v mod two32 in if m <? two31 then m else m - two32.
Definition to_uint64 (v : Z) : Z := v mod two64.
Definition is_int32 (v : Z) : Prop := - two31 <= v < two31.

(* Go slice expression b[lo:hi]: panics when out of range *)
Definition gslice (b : bytes) (lo hi : Z) : outcome bytes :=
  if (0 <=? lo) && (lo <=? hi) && (hi <=? zlen b)
  then Ok (firstn (Z.to_nat (hi - lo)) (skipn (Z.to_nat lo) b))
  else Panic.
Definition gfrom (b : bytes) (lo : Z) : outcome bytes := gslice b lo (zlen b).

(* advance an index by n (n may be far beyond the end) *)
Definition zskip (n : Z) (b : bytes) : bytes := if zlen b <=? n then [] else skipn (Z.to_nat n) b.

(* ---- MarshalVT: field 1 omitted when 0, field 2 omitted when empty ---- *)
Definition pb2_marshal (ty : Z) (data : bytes) : bytes :=
  (if ty =? 0 then [] else 8 :: varint_enc (to_uint64 ty)) ++
  (match data with [] => [] | _ => 18 :: varint_enc (zlen data) ++ data end).

(* ---- protobuf_go_lite.Skip ---- *)

(* the lenient varint loop inlined three times in Skip: at most ten bytes, no
   check on the tenth; value as accumulated in a 64-bit signed int (only bit 0
   of the tenth group survives the shift by 63, as the sign bit) *)
Fixpoint skv (fuel : nat) (i : Z) (buf : bytes) : option (Z * nat) :=
  match fuel with
  | O => None
  | S f =>
      match buf with
      | [] => None
      | b :: r =>
          let g := b mod 128 in
          let c := if i <? 9 then g * 2 ^ (7 * i) else if Z.odd g then - two63 else 0 in
          if b <? 128 then Some (c, 1%nat)
          else match skv f (i + 1) r with
               | None => None
               | Some (v, n) => Some (c + v, S n)
               end
      end
  end.

(* one iteration per record; pos = iNdEx, result = offset after the first
   complete record (may exceed the buffer: the caller checks) *)
Fixpoint skip_loop (fuel : nat) (buf : bytes) (pos depth : Z) : outcome Z :=
  match fuel with
  | O => Err EPb
  | S f =>
      match buf with
      | [] => Err EPb                                   (* loop condition iNdEx < l fails: ErrUnexpectedEOF *)
      | b0 :: _ =>
          match skv 10 0 buf with
          | None => Err EPb
          | Some (_, n) =>
              let rest := skipn n buf in
              let pos1 := pos + Z.of_nat n in
              let wt := b0 mod 8 in
              let continue (rest' : bytes) (pos' depth' : Z) : outcome Z :=
                if two63 <=? pos' then Err EPb            (* iNdEx < 0 after overflow *)
                else if depth' =? 0 then Ok pos'
                else skip_loop f rest' pos' depth' in
              if wt =? 0 then
                match skv 10 0 rest with
                | None => Err EPb
                | Some (_, m) => continue (skipn m rest) (pos1 + Z.of_nat m) depth
                end
              else if wt =? 1 then continue (zskip 8 rest) (pos1 + 8) depth
              else if wt =? 2 then
                match skv 10 0 rest with
                | None => Err EPb
                | Some (len, m) =>
                    if len <? 0 then Err EPb
                    else continue (zskip len (skipn m rest)) (pos1 + Z.of_nat m + len) depth
                end
              else if wt =? 3 then continue rest pos1 (depth + 1)
              else if wt =? 4 then (if depth =? 0 then Err EPb else continue rest pos1 (depth - 1))
              else if wt =? 5 then continue (zskip 4 rest) (pos1 + 4) depth
              else Err EPb
          end
      end
  end.

Definition pb_skip (buf : bytes) : outcome Z := skip_loop (S (length buf)) buf 0 0.

(* ---- UnmarshalVT ---- *)
Fixpoint pb2_loop (fuel : nat) (buf : bytes) (ty : Z) (data : bytes) : outcome (Z * bytes) :=
  match fuel with
  | O => Err EPb
  | S f =>
      match buf with
      | [] => Ok (ty, data)
      | _ :: _ =>
          match varint_dec buf with
          | VErr => Err EPb
          | VOk wire n =>
              let rest := skipn n buf in
              let field := to_int32 (wire / 8) in
              let wt := wire mod 8 in
              if wt =? 4 then Err EPb
              else if field <=? 0 then Err EPb
              else if field =? 1 then
                if negb (wt =? 0) then Err EPb
                else match varint_dec rest with
                     | VErr => Err EPb
                     | VOk v m => pb2_loop f (skipn m rest) (to_int32 v) data
                     end
              else if field =? 2 then
                if negb (wt =? 2) then Err EPb
                else match varint_dec rest with
                     | VErr => Err EPb
                     | VOk v m =>
                         let rest2 := skipn m rest in
                         if two63 <=? v then Err EPb               (* byteLen < 0 *)
                         else if zlen rest2 <? v then Err EPb      (* postIndex > l (or overflowed) *)
                         else d <- gslice rest2 0 v ;; pb2_loop f (zskip v rest2) ty d
                     end
              else
                match pb_skip buf with
                | Ok k => if zlen buf <? k then Err EPb else pb2_loop f (zskip k buf) ty data
                | Err e => Err e
                | Panic => Panic
                end
          end
      end
  end.

Definition pb2_unmarshal (buf : bytes) : outcome (Z * bytes) := pb2_loop (S (length buf)) buf 0 [].
