(* Model of the solicitation matching (link/solicit/controller/controller.go:
   getSolicitEntries, evaluateMatches, resolveMatch) and of the value handed to
   matching directives (link/solicit/solicit-mounted.go).  No proofs here.
   The protocol hash and session id come from Solicit/Model.v (hash.go). *)
From Bifrost Require Import Lib.Base Lib.Lex Lib.Sym Lib.Varint Solicit.Model.

(* ---------- solicitations and links (C30) ---------- *)

(* a SolicitProtocol directive: protocol id, context, optional peer constraint
   (empty = any), optional transport constraint (0 = any) *)
Record sol := mk_sol { s_pid : bytes; s_ctx : bytes; s_peer : bytes; s_tpt : Z }.

(* a mounted link as one side sees it: GetLocalPeer, GetRemotePeer, GetTransportUUID *)
Record side := mk_side { l_local : bytes; l_remote : bytes; l_tpt : Z }.

(* the two filters at the top of the loops of getSolicitEntries and resolveMatch:
   if pid := PeerID(); len(pid) != 0 && pid != remotePeer { continue }
   if tid := TransportID(); tid != 0 && tid != transportUUID { continue } *)
Definition allows (l : side) (s : sol) : bool :=
  negb (negb (Nat.eqb (length s.(s_peer)) 0) && negb (bytes_eqb s.(s_peer) l.(l_remote)))
  && negb (negb (Z.eqb s.(s_tpt) 0) && negb (Z.eqb s.(s_tpt) l.(l_tpt))).

(* addLink: sessionID := ComputeSessionID(localPeer, remotePeer) *)
Definition side_sid (l : side) : sbytes := session_id l.(l_local) l.(l_remote).

Definition sol_hash (sid : sbytes) (s : sol) : sbytes := protocol_hash sid s.(s_pid) s.(s_ctx).

(* getSolicitEntries + ComputeProtocolHashes: the hashes one side announces
   (as a set: the order is the byte order of the real BLAKE3 values, which the
   symbolic model does not have; FindMatchingHashes on sorted lists is the
   intersection by the C32 theorems) *)
Definition local_hashes (l : side) (sols : list sol) : list sbytes :=
  map (sol_hash (side_sid l)) (filter (allows l) sols).

Definition smem (h : sbytes) (hs : list sbytes) : bool := existsb (sbytes_eqb h) hs.

(* evaluateMatches: the hashes in both announced sets (one stream is opened per
   hash, ls.matched removes repetitions) *)
Fixpoint sdedup (hs : list sbytes) : list sbytes :=
  match hs with
  | [] => []
  | h :: r => if smem h r then sdedup r else h :: sdedup r
  end.

Definition matched_hashes (la : side) (sa : list sol) (lb : side) (sb : list sol) : list sbytes :=
  sdedup (filter (fun h => smem h (local_hashes lb sb)) (local_hashes la sa)).

(* resolveMatch: the indices of the local solicitations that receive the value
   for a stream opened for hash h on this link *)
Fixpoint resolve_from (l : side) (h : sbytes) (i : nat) (sols : list sol) : list nat :=
  match sols with
  | [] => []
  | s :: r =>
      if allows l s && sbytes_eqb (sol_hash (side_sid l) s) h
      then i :: resolve_from l h (S i) r else resolve_from l h (S i) r
  end.
Definition resolve_match (l : side) (sols : list sol) (h : sbytes) : list nat :=
  resolve_from l h 0%nat sols.

(* all directives (by index) that receive a value on side a when both sides run *)
Definition receivers (la : side) (sa : list sol) (lb : side) (sb : list sol) : list nat :=
  flat_map (resolve_match la sa) (matched_hashes la sa lb sb).

(* solicitation a of side la and solicitation b of side lb are matched with
   each other: a stream is opened for a hash that resolves to both *)
Definition matched (la : side) (a : sol) (lb : side) (b : sol) : bool :=
  allows la a && allows lb b && sbytes_eqb (sol_hash (side_sid la) a) (sol_hash (side_sid lb) b).

(* the two ends of one link *)
Definition ends_of_one_link (la lb : side) : Prop :=
  l_local la = l_remote lb /\ l_remote la = l_local lb.

(* ---------- the value: solicitMountedStream (C31) ---------- *)

Record wstate := mk_w {
  w_ms : bool;        (* s.ms != nil *)
  w_err : bool;       (* s.err != nil *)
  w_acc : bool;       (* s.accepted *)
  w_closes : nat      (* ghost: calls of ms.GetStream().Close() made by the wrapper *)
}.

(* Close carries an input bit: whether the underlying ms.GetStream().Close()
   returned nil (true) or an error (false); the current code ignores the result *)
Inductive wop := Accept | Close (under_ok : bool) | IsAccepted.

Inductive wres :=
| RStream      (* (s.ms, false, nil): the caller now owns the stream *)
| RAlready     (* (nil, true, nil) *)
| RErr         (* (nil, false, err) *)
| RBool (b : bool).

(* one action = one s.mu region *)
Definition wstep (w : wstate) (o : wop) : wstate * wres :=
  match o with
  | Accept =>
      if w.(w_err) then (w, RErr)
      else if w.(w_acc) then (w, RAlready)
      else (mk_w w.(w_ms) w.(w_err) true w.(w_closes), RStream)
  | IsAccepted => (w, RBool w.(w_acc))
  | Close _ =>
      (* s.ms.GetStream().Close() -- result not looked at -- ; s.err = errSolicitationClosed; return true *)
      if w.(w_acc) || negb w.(w_ms) then (w, RBool false)
      else (mk_w w.(w_ms) true w.(w_acc) (S w.(w_closes)), RBool true)
  end.

Fixpoint wrun (w : wstate) (ops : list wop) : wstate * list wres :=
  match ops with
  | [] => (w, [])
  | o :: rest =>
      let (w1, r) := wstep w o in
      let (w2, rs) := wrun w1 rest in (w2, r :: rs)
  end.

Definition w_new : wstate := mk_w true false false 0.      (* NewSolicitMountedStream(ms) *)
Definition w_nil : wstate := mk_w false false false 0.     (* NewSolicitMountedStream(nil) *)
Definition w_errv : wstate := mk_w false true false 0.     (* NewSolicitMountedStreamWithErr(err) *)

Definition wres_eqb (a b : wres) : bool :=
  match a, b with
  | RStream, RStream | RAlready, RAlready | RErr, RErr => true
  | RBool x, RBool y => Bool.eqb x y
  | _, _ => false
  end.

(* ---------- controller + values: who owns a stream (C31) ---------- *)

Inductive action :=
| Resolve (h : sbytes) (st : nat)    (* resolveMatch(ls, h, ms) for the stream st *)
| Op (v : nat) (o : wop).            (* a holder of value v calls Accept / Close *)

Record sys := mk_sys {
  vals : nat -> option (nat * wstate);   (* value id -> (stream, wrapper state) *)
  next : nat;                            (* number of values created *)
  emitted : list (nat * nat);            (* (solicitation index, value id) handed to handler.AddValue *)
  used : list nat;                       (* ghost: streams already passed to resolveMatch *)
  got : list nat;                        (* ghost: streams returned by AcceptMountedStream, one entry per return *)
  closed : list nat                      (* ghost: streams closed by a wrapper's Close, one entry per call *)
}.

Definition sys_init : sys := mk_sys (fun _ => None) 0 [] [] [] [].

Definition upd (f : nat -> option (nat * wstate)) (v : nat) (x : nat * wstate) :=
  fun k => if Nat.eqb k v then Some x else f k.

Definition nmem (x : nat) (l : list nat) : bool := existsb (Nat.eqb x) l.

(* resolveMatch: ONE value for all matching solicitations (created only if there is a match) *)
Definition sys_step (l : side) (sols : list sol) (s : sys) (a : action) : option sys :=
  match a with
  | Resolve h st =>
      if nmem st s.(used) then None   (* each stream reaches resolveMatch once *)
      else
        match resolve_match l sols h with
        | [] => Some (mk_sys s.(vals) s.(next) s.(emitted) (st :: s.(used)) s.(got) s.(closed))
        | ms =>
            let v := s.(next) in
            Some (mk_sys (upd s.(vals) v (st, w_new)) (S v)
                         (s.(emitted) ++ map (fun i => (i, v)) ms) (st :: s.(used)) s.(got) s.(closed))
        end
  | Op v o =>
      match s.(vals) v with
      | None => None
      | Some (st, w) =>
          let (w', r) := wstep w o in
          Some (mk_sys (upd s.(vals) v (st, w')) s.(next) s.(emitted) s.(used)
                       (match r with RStream => st :: s.(got) | _ => s.(got) end)
                       (match o, r with Close _, RBool true => st :: s.(closed) | _, _ => s.(closed) end))
      end
  end.

Fixpoint sys_run (l : side) (sols : list sol) (s : sys) (acts : list action) : option sys :=
  match acts with
  | [] => Some s
  | a :: rest => match sys_step l sols s a with Some s' => sys_run l sols s' rest | None => None end
  end.

Definition count_nat (x : nat) (l : list nat) : nat := count_occ Nat.eq_dec l x.

(* ---------- link lifecycle: the matched set is per link (C30) ---------- *)
(* linkState.matched lives and dies with the linkState: addLink creates it
   empty (and does nothing if the uuid is already tracked), removeLink drops it.
   The solicitation sets sa / sb are fixed; Settle = both control loops have
   exchanged their hashes and evaluateMatches has run on every link. *)
Record lnk := mk_lnk { k_a : side; k_b : side; k_matched : list sbytes }.

Inductive laction :=
| LinkUp (id : nat) (la lb : side)   (* addLink on both controllers, link uuid id *)
| LinkDown (id : nat)                (* removeLink on both controllers *)
| Settle.

Definition lstate := list (nat * lnk).

Definition is_up (id : nat) (ls : lstate) : bool := existsb (fun p => Nat.eqb (fst p) id) ls.
Definition ldrop (id : nat) (ls : lstate) : lstate := filter (fun p => negb (Nat.eqb (fst p) id)) ls.

(* evaluateMatches on one link: the matches not yet in ls.matched *)
Definition new_hashes (sa sb : list sol) (k : lnk) : list sbytes :=
  filter (fun h => negb (smem h k.(k_matched))) (matched_hashes k.(k_a) sa k.(k_b) sb).

(* the directives (by index) that receive a value for the new streams of one link *)
Definition deliveries_a (sa sb : list sol) (k : lnk) : list nat :=
  flat_map (resolve_match k.(k_a) sa) (new_hashes sa sb k).
Definition deliveries_b (sa sb : list sol) (k : lnk) : list nat :=
  flat_map (resolve_match k.(k_b) sb) (new_hashes sa sb k).

Definition settle_link (sa sb : list sol) (p : nat * lnk) : nat * lnk :=
  (fst p, mk_lnk (snd p).(k_a) (snd p).(k_b) ((snd p).(k_matched) ++ new_hashes sa sb (snd p))).

(* observation of a step: per link uuid, the deliveries on side a and on side b *)
Definition lstep (sa sb : list sol) (ls : lstate) (a : laction)
  : lstate * list (nat * (list nat * list nat)) :=
  match a with
  | LinkUp id la lb => if is_up id ls then (ls, []) else ((id, mk_lnk la lb []) :: ls, [])
  | LinkDown id => (ldrop id ls, [])
  | Settle =>
      (map (settle_link sa sb) ls,
       map (fun p => (fst p, (deliveries_a sa sb (snd p), deliveries_b sa sb (snd p)))) ls)
  end.

Fixpoint lrun (sa sb : list sol) (ls : lstate) (acts : list laction) : lstate :=
  match acts with
  | [] => ls
  | a :: rest => lrun sa sb (fst (lstep sa sb ls a)) rest
  end.
