(* Correspondence for C30 / C31: run the model on the inputs the implementation ran on.
   All numbers in case terms are Z (indices are converted here). *)
From Bifrost Require Import Lib.Base Lib.Lex Lib.Sym Solicit.Model Solicit2.Model gen.Solicit2.

Definition zidx (l : list nat) : list Z := map Z.of_nat l.
Definition zlist_eqb : list Z -> list Z -> bool := list_eqb Z.eqb.

Definition zcount (x : Z) (l : list Z) : nat := count_occ_b Z.eqb x l.

(* same multiset of indices below n *)
Definition same_counts (n : nat) (a b : list Z) : bool :=
  Nat.eqb (length a) (length b) &&
  forallb (fun i => Nat.eqb (zcount (Z.of_nat i) a) (zcount (Z.of_nat i) b)) (seq 0 n).

(* the announced set is not truncated: at most DefaultMaxHashes (regenerated from config.go) entries *)
Definition fits_one_exchange (sols : list sol) : bool :=
  Z.of_nat (length sols) <=? solicit_default_max_hashes.

(* ---------- C30 ---------- *)
Inductive c30_case :=
(* ComputeProtocolHash(ComputeSessionID(a,b), pid, ctx) == ...(a',b', pid', ctx') ? *)
| PH (a b pid ctx a' b' pid' ctx' : bytes) (obs_equal : bool)
(* one controller with solicitations sols on link l; an incoming solicited stream
   whose hash was computed from (a', b', pid, ctx); observed: the indices of the
   directives whose handler received a value, ascending *)
| Inc (l : side) (sols : list sol) (a' b' pid ctx : bytes) (emitted : list Z)
(* two controllers joined by one link; observed: for each side the directive
   indices that received a value (one entry per value) *)
| Two (la : side) (sa : list sol) (lb : side) (sb : list sol) (ra rb : list Z)
(* link lifecycle between two controllers with fixed solicitation sets: links come
   up, go down, come up again (same uuid) or in parallel; observed at every
   Settle: the directive indices that received a NEW value, per side *)
| Life (sa sb : list sol) (acts : list laction) (newa newb : list (list Z)).

Fixpoint life_obs (sa sb : list sol) (ls : lstate) (acts : list laction) : list (list Z) * list (list Z) :=
  match acts with
  | [] => ([], [])
  | a :: rest =>
      let (ls', o) := lstep sa sb ls a in
      let (ra, rb) := life_obs sa sb ls' rest in
      match a with
      | Settle => (zidx (flat_map (fun x => fst (snd x)) o) :: ra, zidx (flat_map (fun x => snd (snd x)) o) :: rb)
      | _ => (ra, rb)
      end
  end.

Fixpoint all_same_counts (n : nat) (a b : list (list Z)) : bool :=
  match a, b with
  | [], [] => true
  | x :: a', y :: b' => same_counts n x y && all_same_counts n a' b'
  | _, _ => false
  end.

Definition c30_agree (c : c30_case) : bool :=
  match c with
  | PH a b pid ctx a' b' pid' ctx' obs =>
      Bool.eqb (sbytes_eqb (protocol_hash (session_id a b) pid ctx)
                           (protocol_hash (session_id a' b') pid' ctx')) obs
  | Inc l sols a' b' pid ctx emitted =>
      zlist_eqb (zidx (resolve_match l sols (protocol_hash (session_id a' b') pid ctx))) emitted
  | Two la sa lb sb ra rb =>
      (* computeHashes truncates to maxHashes entries in hash byte order: outside the model *)
      negb (fits_one_exchange sa && fits_one_exchange sb) ||
      same_counts (length sa) (zidx (receivers la sa lb sb)) ra &&
      same_counts (length sb) (zidx (receivers lb sb la sa)) rb
  | Life sa sb acts newa newb =>
      negb (fits_one_exchange sa && fits_one_exchange sb) ||
      let (ra, rb) := life_obs sa sb [] acts in
      all_same_counts (length sa) ra newa && all_same_counts (length sb) rb newb
  end.

(* ---------- C31 ---------- *)
Definition winit (k : Z) : wstate :=
  if k =? 0 then w_new else if k =? 1 then w_nil else w_errv.

Fixpoint all_lists (n : nat) : list (list wop) :=
  match n with
  | O => [[]]
  | S k => flat_map (fun l => [Accept :: l; Close true :: l]) (all_lists k)
  end.

Definition is_accept (o : wop) : bool := match o with Accept => true | _ => false end.

(* summary of a run: #stream #already #err #close-true #close-false, stream closes *)
Definition summary (w : wstate) (ops : list wop) : list Z :=
  let (wf, rs) := wrun w ops in
  let cnt r := Z.of_nat (count_occ_b wres_eqb r rs) in
  [cnt RStream; cnt RAlready; cnt RErr; cnt (RBool true); cnt (RBool false); Z.of_nat wf.(w_closes)].

(* results of per-directive operations on the values handed out by one resolveMatch *)
Fixpoint ctl_ops (s : sys) (ops : list (Z * wop)) : option (list wres * sys) :=
  match ops with
  | [] => Some ([], s)
  | (i, o) :: rest =>
      match find (fun p => Z.eqb (Z.of_nat (fst p)) i) s.(emitted) with
      | None => None
      | Some (_, v) =>
          match s.(vals) v with
          | None => None
          | Some (st, w) =>
              let r := snd (wstep w o) in
              match sys_step (mk_side [] [] 0) [] s (Op v o) with
              | None => None
              | Some s' =>
                  match ctl_ops s' rest with
                  | None => None
                  | Some (rs, sf) => Some (r :: rs, sf)
                  end
              end
          end
      end
  end.

Inductive c31_case :=
(* sequential calls on one real value; init 0: NewSolicitMountedStream(ms), 1: (nil), 2: WithErr *)
| WSeq (init : Z) (ops : list wop) (res : list wres) (closes : Z)
(* na Accept and nc Close calls issued concurrently; observed result counts *)
| WConc (init : Z) (na nc : Z) (obs : list Z)
(* real controller: solicitations, one incoming stream for hash(pid, ctx) on link l:
   who received a value, how many distinct value objects, then operations by
   directive index with their results; closes = Close() calls seen by the stream *)
| Ctl (l : side) (sols : list sol) (pid ctx : bytes) (emitted : list Z) (nvalues : Z)
      (ops : list (Z * wop)) (res : list wres) (closes : Z).

Definition c31_agree (c : c31_case) : bool :=
  match c with
  | WSeq k ops res closes =>
      let (wf, rs) := wrun (winit k) ops in
      list_eqb wres_eqb rs res && Z.eqb (Z.of_nat wf.(w_closes)) closes
  | WConc k na nc obs =>
      existsb (fun ops => Nat.eqb (length (filter is_accept ops)) (Z.to_nat na)
                          && zlist_eqb (summary (winit k) ops) obs)
              (all_lists (Z.to_nat (na + nc)))
  | Ctl l sols pid ctx em nvalues ops res closes =>
      match sys_step l sols sys_init (Resolve (protocol_hash (side_sid l) pid ctx) 0%nat) with
      | None => false
      | Some s =>
          zlist_eqb (map (fun p => Z.of_nat (fst p)) s.(emitted)) em &&
          Z.eqb (Z.of_nat s.(next)) nvalues &&
          match ctl_ops s ops with
          | None => false
          | Some (rs, sf) =>
              list_eqb wres_eqb rs res && Z.eqb (Z.of_nat (length sf.(closed))) closes
          end
      end
  end.
