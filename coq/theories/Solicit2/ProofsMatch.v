(* C30: the protocol hash binds (protocol id, context) and the matching of two
   solicitations on a link is equality of both fields plus the constraints. *)
From Bifrost Require Import Lib.Base Lib.Lex Lib.Sym Lib.Varint Solicit.Model Solicit.Proofs Solicit2.Model.

Lemma app_inv_len {A} : forall (a c x y : list A),
  length a = length c -> a ++ x = c ++ y -> a = c /\ x = y.
Proof.
  induction a as [|p a IH]; intros [|q c] x y L E; cbn in *; try discriminate; auto.
  inversion E; subst. destruct (IH c x y) as [-> ->]; auto.
Qed.

(* uvarint(len pid) || pid || ctx parses uniquely *)
Lemma framed_inj pid ctx pid' ctx' :
  Z.of_nat (length pid) < two64 -> Z.of_nat (length pid') < two64 ->
  varint_enc (Z.of_nat (length pid)) ++ pid ++ ctx =
  varint_enc (Z.of_nat (length pid')) ++ pid' ++ ctx' ->
  pid = pid' /\ ctx = ctx'.
Proof.
  intros B B' E.
  pose proof (varint_roundtrip (Z.of_nat (length pid)) (pid ++ ctx) ltac:(lia)) as R.
  pose proof (varint_roundtrip (Z.of_nat (length pid')) (pid' ++ ctx') ltac:(lia)) as R'.
  rewrite E in R. rewrite R in R'. injection R' as Hn _.
  apply Nat2Z.inj in Hn. rewrite Hn in E. apply app_inv_head in E.
  apply app_inv_len in E; [exact E|exact Hn].
Qed.

Lemma hash_size_pos : (0 < hash_size)%nat.
Proof. vm_compute. lia. Qed.

(* equal hashes <-> equal session id, protocol id and context *)
Lemma protocol_hash_inj sid sid' pid ctx pid' ctx' :
  length sid = length sid' ->
  Z.of_nat (length pid) < two64 -> Z.of_nat (length pid') < two64 ->
  (protocol_hash sid pid ctx = protocol_hash sid' pid' ctx' <->
   sid = sid' /\ pid = pid' /\ ctx = ctx').
Proof.
  intros L B B'. split.
  - intros H. unfold protocol_hash in H. apply fout_inj in H as [_ H]; [|apply hash_size_pos].
    apply app_inv_len in H as [Hs H]; [|exact L]. split; [exact Hs|].
    rewrite <- !lift_app in H. apply lift_inj in H. apply framed_inj; assumption.
  - intros [-> [-> ->]]. reflexivity.
Qed.

Lemma session_id_length a b : length (session_id a b) = hash_size.
Proof. unfold session_id. apply fout_length. Qed.

Lemma protocol_hash_same_sid sid pid ctx pid' ctx' :
  Z.of_nat (length pid) < two64 -> Z.of_nat (length pid') < two64 ->
  (protocol_hash sid pid ctx = protocol_hash sid pid' ctx' <-> pid = pid' /\ ctx = ctx').
Proof.
  intros B B'. rewrite (protocol_hash_inj sid sid pid ctx pid' ctx' eq_refl B B'). tauto.
Qed.

(* the readable form of the two filters *)
Lemma allows_spec l s :
  allows l s = true <->
  (s_peer s = [] \/ s_peer s = l_remote l) /\ (s_tpt s = 0 \/ s_tpt s = l_tpt l).
Proof.
  unfold allows. rewrite andb_true_iff, !negb_true_iff, !andb_false_iff, !negb_false_iff.
  rewrite Nat.eqb_eq, !Z.eqb_eq, bytes_eqb_spec.
  assert (length (s_peer s) = 0%nat <-> s_peer s = []) as -> by (destruct (s_peer s); cbn; split; congruence).
  tauto.
Qed.

Definition wf_sol (s : sol) : Prop := Z.of_nat (length (s_pid s)) < two64.

Lemma ends_same_sid la lb : ends_of_one_link la lb -> side_sid la = side_sid lb.
Proof. intros [E1 E2]. unfold side_sid. rewrite E1, E2. apply session_id_sym. Qed.

Lemma matched_iff la lb a b :
  ends_of_one_link la lb -> wf_sol a -> wf_sol b ->
  (matched la a lb b = true <->
   s_pid a = s_pid b /\ s_ctx a = s_ctx b /\ allows la a = true /\ allows lb b = true).
Proof.
  intros E Wa Wb. unfold matched, sol_hash. rewrite (ends_same_sid la lb E).
  rewrite !andb_true_iff, sbytes_eqb_spec, (protocol_hash_same_sid _ _ _ _ _ Wa Wb). tauto.
Qed.

(* on two different links (different peer pairs give different session ids, C32)
   or with a different split of the same bytes nothing matches: corollary *)
Lemma split_never_matches la lb a b :
  ends_of_one_link la lb -> wf_sol a -> wf_sol b ->
  s_pid a ++ s_ctx a = s_pid b ++ s_ctx b -> s_pid a <> s_pid b ->
  matched la a lb b = false.
Proof.
  intros E Wa Wb _ N. destruct (matched la a lb b) eqn:M; [|reflexivity].
  apply (matched_iff la lb a b E Wa Wb) in M. tauto.
Qed.

(* ---- the operational definitions agree with the pairwise predicate ---- *)

Lemma smem_in h hs : smem h hs = true <-> In h hs.
Proof.
  unfold smem. rewrite existsb_exists. split.
  - intros [x [Hx E]]. apply sbytes_eqb_spec in E. subst. exact Hx.
  - intros H. exists h. split; [exact H|apply sbytes_eqb_spec; reflexivity].
Qed.

Lemma sdedup_in h hs : In h (sdedup hs) <-> In h hs.
Proof.
  induction hs as [|x r IH]; cbn [sdedup]; [tauto|].
  destruct (smem x r) eqn:M.
  - rewrite IH. cbn. apply smem_in in M. split; [auto|intros [->|?]; auto].
  - cbn. rewrite IH. tauto.
Qed.

Lemma sdedup_nodup hs : NoDup (sdedup hs).
Proof.
  induction hs as [|x r IH]; cbn [sdedup]; [constructor|].
  destruct (smem x r) eqn:M; [exact IH|].
  constructor; [|exact IH]. rewrite sdedup_in. intros H. apply smem_in in H. congruence.
Qed.

Lemma local_hashes_in l sols h :
  In h (local_hashes l sols) <->
  exists s, In s sols /\ allows l s = true /\ sol_hash (side_sid l) s = h.
Proof.
  unfold local_hashes. rewrite in_map_iff. split.
  - intros [s [E H]]. apply filter_In in H as [H1 H2]. exists s. auto.
  - intros [s [H1 [H2 E]]]. exists s. split; [exact E|]. apply filter_In. auto.
Qed.

Lemma resolve_from_in l h : forall sols k i,
  In i (resolve_from l h k sols) <->
  exists s, (k <= i)%nat /\ nth_error sols (i - k) = Some s /\
            allows l s = true /\ sol_hash (side_sid l) s = h.
Proof.
  induction sols as [|s r IH]; intros k i; cbn [resolve_from].
  - split; [intros []|]. intros [s [_ [H _]]]. destruct (i - k)%nat; discriminate.
  - assert (Step : In i (resolve_from l h (S k) r) <->
                   exists s0, (k < i)%nat /\ nth_error r (i - S k) = Some s0 /\
                              allows l s0 = true /\ sol_hash (side_sid l) s0 = h).
    { rewrite IH. split; intros [s0 [A B]]; exists s0; split; auto; lia. }
    destruct (allows l s && sbytes_eqb (sol_hash (side_sid l) s) h) eqn:C.
    + apply andb_true_iff in C as [C1 C2]. apply sbytes_eqb_spec in C2.
      cbn [In]. rewrite Step. split.
      * intros [<-|[s0 [A [B D]]]].
        -- exists s. rewrite Nat.sub_diag. cbn. auto.
        -- exists s0. split; [lia|]. replace (i - k)%nat with (S (i - S k)) by lia. cbn. auto.
      * intros [s0 [A [B D]]]. destruct (Nat.eq_dec k i) as [->|N]; [left; reflexivity|right].
        exists s0. split; [lia|]. replace (i - k)%nat with (S (i - S k)) in B by lia. cbn in B. auto.
    + rewrite Step. split.
      * intros [s0 [A [B D]]]. exists s0. split; [lia|].
        replace (i - k)%nat with (S (i - S k)) by lia. cbn. auto.
      * intros [s0 [A [B [D1 D2]]]]. destruct (Nat.eq_dec k i) as [->|N].
        -- rewrite Nat.sub_diag in B. cbn in B. injection B as ->.
           rewrite D1 in C. cbn [andb] in C. rewrite <- D2 in C.
           assert (sbytes_eqb (sol_hash (side_sid l) s0) (sol_hash (side_sid l) s0) = true)
             by (apply sbytes_eqb_spec; reflexivity). congruence.
        -- exists s0. split; [lia|]. replace (i - k)%nat with (S (i - S k)) in B by lia. cbn in B. auto.
Qed.

Lemma resolve_match_in l sols h i :
  In i (resolve_match l sols h) <->
  exists s, nth_error sols i = Some s /\ allows l s = true /\ sol_hash (side_sid l) s = h.
Proof.
  unfold resolve_match. rewrite resolve_from_in. rewrite Nat.sub_0_r.
  split; intros [s H]; exists s; [tauto|]. split; [lia|tauto].
Qed.

(* directive i of side a receives a stream exactly when some solicitation of
   side b is matched with it *)
Lemma receivers_iff la sa lb sb i :
  In i (receivers la sa lb sb) <->
  exists a b, nth_error sa i = Some a /\ In b sb /\ matched la a lb b = true.
Proof.
  unfold receivers, matched_hashes. rewrite in_flat_map. split.
  - intros [h [Hh Hi]]. apply (proj1 (sdedup_in _ _)) in Hh. apply filter_In in Hh as [Ha Hb].
    apply smem_in in Hb. apply local_hashes_in in Hb as [b [Hb1 [Hb2 Hb3]]].
    apply resolve_match_in in Hi as [a [Ha1 [Ha2 Ha3]]].
    exists a, b. split; [exact Ha1|]. split; [exact Hb1|].
    unfold matched. rewrite Ha2, Hb2, Ha3, Hb3. cbn. apply sbytes_eqb_spec. reflexivity.
  - intros [a [b [Ha [Hb M]]]]. unfold matched in M.
    apply andb_true_iff in M as [M M3]. apply andb_true_iff in M as [M1 M2].
    apply sbytes_eqb_spec in M3.
    exists (sol_hash (side_sid la) a). split.
    + apply sdedup_in. apply filter_In. split.
      * apply local_hashes_in. exists a. split; [eapply nth_error_In; eauto|auto].
      * apply smem_in. apply local_hashes_in. exists b. auto.
    + apply resolve_match_in. exists a. auto.
Qed.

(* ---- link lifecycle: a link that comes up after ANY history is matched afresh ---- *)

Lemma matched_hashes_in la sa lb sb h :
  In h (matched_hashes la sa lb sb) <-> In h (local_hashes la sa) /\ In h (local_hashes lb sb).
Proof.
  unfold matched_hashes. rewrite sdedup_in, filter_In, smem_in. tauto.
Qed.

Lemma filter_all_true {A} (f : A -> bool) l : (forall x, In x l -> f x = true) -> filter f l = l.
Proof.
  induction l as [|x l IH]; intros H; cbn; [reflexivity|].
  rewrite (H x (or_introl eq_refl)). f_equal. apply IH. intros y Hy. apply H. right. exact Hy.
Qed.

Lemma new_hashes_fresh sa sb la lb :
  new_hashes sa sb (mk_lnk la lb []) = matched_hashes la sa lb sb.
Proof. unfold new_hashes. cbn. apply filter_all_true. intros; reflexivity. Qed.

(* whatever happened before (matches on this uuid or on parallel links, links
   lost and re-established, any number of settles): if the uuid is not tracked,
   bringing the link up and settling delivers exactly to the matched directives *)
Lemma link_up_after_any_history sa sb hist id la lb :
  let ls := lrun sa sb [] hist in
  is_up id ls = false ->
  let ls1 := fst (lstep sa sb ls (LinkUp id la lb)) in
  In (id, (receivers la sa lb sb, flat_map (resolve_match lb sb) (matched_hashes la sa lb sb)))
     (snd (lstep sa sb ls1 Settle)).
Proof.
  cbn zeta. intros U. cbn [lstep]. rewrite U. cbn [fst snd map].
  left. unfold deliveries_a, deliveries_b. cbn [snd fst]. rewrite new_hashes_fresh. reflexivity.
Qed.

(* the b side of that observation is the set of b's matched directives *)
Lemma deliveries_b_iff la sa lb sb j :
  ends_of_one_link la lb ->
  (In j (flat_map (resolve_match lb sb) (matched_hashes la sa lb sb)) <->
   exists b a, nth_error sb j = Some b /\ In a sa /\ matched lb b la a = true).
Proof.
  intros E. rewrite <- (receivers_iff lb sb la sa j). unfold receivers.
  rewrite !in_flat_map. split; intros [h [H1 H2]]; exists h; split; auto;
    apply matched_hashes_in; apply matched_hashes_in in H1; tauto.
Qed.

(* LinkDown forgets the link, so the uuid can come up again *)
Lemma link_down_forgets sa sb ls id : is_up id (fst (lstep sa sb ls (LinkDown id))) = false.
Proof.
  cbn. unfold is_up, ldrop. induction ls as [|p ls IH]; cbn; [reflexivity|].
  destruct (Nat.eqb (fst p) id) eqn:E; cbn; [exact IH|]. rewrite E. exact IH.
Qed.

(* one stream per hash and link incarnation: a second settle delivers nothing new *)
Lemma settle_twice_nothing_new sa sb p :
  new_hashes sa sb (snd (settle_link sa sb p)) = [].
Proof.
  unfold settle_link, new_hashes. cbn [snd k_a k_b k_matched].
  set (M := matched_hashes (k_a (snd p)) sa (k_b (snd p)) sb).
  set (K := k_matched (snd p)).
  assert (H : forall l, (forall h, In h l -> In h M) ->
              filter (fun h => negb (smem h (K ++ filter (fun h0 => negb (smem h0 K)) M))) l = []).
  { induction l as [|h l IH]; intros Hl; cbn; [reflexivity|].
    assert (S : smem h (K ++ filter (fun h0 => negb (smem h0 K)) M) = true).
    { apply smem_in. apply in_or_app. destruct (smem h K) eqn:E; [left; apply smem_in, E|right].
      apply filter_In. split; [apply Hl; left; reflexivity|rewrite E; reflexivity]. }
    rewrite S. cbn. apply IH. intros x Hx. apply Hl. right. exact Hx. }
  apply H. auto.
Qed.
