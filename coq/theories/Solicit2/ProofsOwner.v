(* C31: a solicited stream has at most one owner. *)
From Bifrost Require Import Lib.Base Lib.Sym Solicit2.Model.

Definition wres_dec : forall a b : wres, {a = b} + {a <> b}.
Proof. decide equality. apply Bool.bool_dec. Defined.

Definition rcount (r : wres) (rs : list wres) : nat := count_occ wres_dec rs r.

Lemma wrun_cons w o ops :
  wrun w (o :: ops) = (fst (wrun (fst (wstep w o)) ops), snd (wstep w o) :: snd (wrun (fst (wstep w o)) ops)).
Proof. cbn [wrun]. destruct (wstep w o) as [w1 r]. cbn. destruct (wrun w1 ops). reflexivity. Qed.

Lemma wrun_app : forall a b w,
  wrun w (a ++ b) = (fst (wrun (fst (wrun w a)) b), snd (wrun w a) ++ snd (wrun (fst (wrun w a)) b)).
Proof.
  induction a as [|o a IH]; intros b w.
  - cbn. destruct (wrun w b); reflexivity.
  - rewrite <- app_comm_cons, !wrun_cons, IH. cbn. reflexivity.
Qed.

(* accepted and err are sticky *)
Lemma wstep_sticky w o :
  (w_acc w = true -> w_acc (fst (wstep w o)) = true) /\
  (w_err w = true -> w_err (fst (wstep w o)) = true).
Proof.
  destruct w as [ms er ac cl], o; cbn; destruct er, ac, ms; cbn; auto.
Qed.

Lemma no_stream_once_taken : forall ops w,
  w_acc w = true \/ w_err w = true -> ~ In RStream (snd (wrun w ops)).
Proof.
  induction ops as [|o ops IH]; intros w H; [cbn; tauto|].
  rewrite wrun_cons. cbn [snd In]. intros [E|E].
  - destruct w as [ms er ac cl], o; cbn in *; destruct er, ac, ms; cbn in *;
      try discriminate; destruct H; discriminate.
  - revert E. apply IH. destruct (wstep_sticky w o) as [A B]. destruct H; auto.
Qed.

Lemma stream_result_sets_acc w o : snd (wstep w o) = RStream -> w_acc (fst (wstep w o)) = true.
Proof. destruct w as [ms er ac cl], o; cbn; destruct er, ac, ms; cbn; congruence. Qed.

(* over every list of Accept / Close / IsAccepted calls on one value (= every
   interleaving of the mutex regions), at most one Accept returns the stream *)
Lemma at_most_one_accept : forall ops w, (rcount RStream (snd (wrun w ops)) <= 1)%nat.
Proof.
  induction ops as [|o ops IH]; intros w; [cbn; lia|].
  rewrite wrun_cons. unfold rcount. cbn [snd count_occ].
  destruct (wres_dec (snd (wstep w o)) RStream) as [E|N].
  - pose proof (no_stream_once_taken ops _ (or_introl (stream_result_sets_acc w o E))) as H.
    apply (count_occ_not_In wres_dec) in H. rewrite H. lia.
  - apply IH.
Qed.

(* a successful Close leaves err set: every later Accept fails with the error *)
Lemma accept_fails_when_err : forall ops w i,
  w_err w = true -> nth_error ops i = Some Accept -> nth_error (snd (wrun w ops)) i = Some RErr.
Proof.
  induction ops as [|o ops IH]; intros w i H N; [destruct i; discriminate|].
  rewrite wrun_cons. destruct i as [|i]; cbn in *.
  - injection N as ->. cbn. rewrite H. reflexivity.
  - apply IH; [apply wstep_sticky; exact H|exact N].
Qed.

Lemma close_true_sets_err w b : snd (wstep w (Close b)) = RBool true -> w_err (fst (wstep w (Close b))) = true.
Proof. destruct w as [ms er ac cl]; cbn; destruct ac, ms; cbn; congruence. Qed.

Lemma closed_then_accept_fails pre post w b i :
  snd (wstep (fst (wrun w pre)) (Close b)) = RBool true ->
  nth_error post i = Some Accept ->
  nth_error (snd (wrun w (pre ++ Close b :: post))) (length pre + 1 + i) = Some RErr
  /\ ~ In RStream (snd (wrun (fst (wstep (fst (wrun w pre)) (Close b))) post)).
Proof.
  intros C N. pose proof (close_true_sets_err _ _ C) as E. split.
  - rewrite wrun_app. cbn [snd]. rewrite wrun_cons. cbn [snd].
    assert (L : length (snd (wrun w pre)) = length pre).
    { clear. revert w. induction pre as [|o pre IH]; intros w; [reflexivity|].
      rewrite wrun_cons. cbn. rewrite IH. reflexivity. }
    rewrite nth_error_app2 by lia. rewrite L.
    replace (length pre + 1 + i - length pre)%nat with (S i) by lia. cbn [nth_error].
    apply accept_fails_when_err; assumption.
  - apply no_stream_once_taken. right. exact E.
Qed.

(* a Close call that reaches the underlying stream (not accepted, ms present)
   returns true and leaves the value closed WHATEVER the stream's own Close
   returned: no later call hands the stream out *)
Lemma close_reaching_stream_closes_value w b post :
  w_acc w = false -> w_ms w = true ->
  snd (wstep w (Close b)) = RBool true
  /\ w_closes (fst (wstep w (Close b))) = S (w_closes w)
  /\ ~ In RStream (snd (wrun (fst (wstep w (Close b))) post))
  /\ forall i, nth_error post i = Some Accept ->
               nth_error (snd (wrun (fst (wstep w (Close b))) post)) i = Some RErr.
Proof.
  intros A M. destruct w as [ms er ac cl]. cbn in A, M. subst. cbn.
  split; [reflexivity|]. split; [reflexivity|]. split.
  - apply no_stream_once_taken. right. reflexivity.
  - intros i N. apply accept_fails_when_err; [reflexivity|exact N].
Qed.

(* the wrapper never closes a stream it has handed out (and never hands out one it closed) *)
Definition wgood (w : wstate) : Prop := w_closes w <> 0%nat -> w_err w = true /\ w_acc w = false.

Lemma wstep_good w o : wgood w -> wgood (fst (wstep w o)).
Proof.
  unfold wgood. destruct w as [ms er ac cl], o; cbn; destruct er, ac, ms; cbn; intros H; auto;
    intros N; try (destruct (H N); discriminate); auto.
Qed.

Lemma accepted_never_closed : forall ops w,
  wgood w -> w_acc w = false ->
  wgood (fst (wrun w ops)) /\
  (In RStream (snd (wrun w ops)) -> w_closes (fst (wrun w ops)) = 0%nat).
Proof.
  assert (G : forall ops w, wgood w -> wgood (fst (wrun w ops))).
  { induction ops as [|o ops IH]; intros w H; [exact H|]. rewrite wrun_cons. cbn [fst]. apply IH, wstep_good, H. }
  assert (A : forall ops w, w_acc w = true -> w_acc (fst (wrun w ops)) = true).
  { induction ops as [|o ops IH]; intros w H; [exact H|]. rewrite wrun_cons. cbn [fst]. apply IH, wstep_sticky, H. }
  assert (S1 : forall ops w, In RStream (snd (wrun w ops)) -> w_acc (fst (wrun w ops)) = true).
  { induction ops as [|o ops IH]; intros w H; [destruct H|]. rewrite wrun_cons in *. cbn [fst snd In] in *.
    destruct H as [H|H]; [apply A, stream_result_sets_acc, H|apply IH, H]. }
  intros ops w Gw _. split; [apply G, Gw|]. intros H.
  specialize (S1 ops w H). specialize (G ops w Gw). unfold wgood in G.
  destruct (Nat.eq_dec (w_closes (fst (wrun w ops))) 0) as [E|N]; [exact E|].
  destruct (G N). congruence.
Qed.

(* ---------- the controller hands ONE value to all matching solicitations ---------- *)

Lemma resolve_shares_one_value l sols s h st s' :
  sys_step l sols s (Resolve h st) = Some s' ->
  exists v, forall i w, In (i, w) (emitted s') -> In (i, w) (emitted s) \/ (w = v /\ In i (resolve_match l sols h)).
Proof.
  cbn. destruct (nmem st (used s)); [discriminate|].
  destruct (resolve_match l sols h) as [|m ms] eqn:R; intros H; injection H as <-; cbn.
  - exists 0%nat. auto.
  - exists (next s). intros i w Hin. apply in_app_or in Hin as [Hin|Hin]; [auto|right].
    change ((m, next s) :: map (fun i : nat => (i, next s)) ms)
      with (map (fun i : nat => (i, next s)) (m :: ms)) in Hin.
    apply in_map_iff in Hin as [j [E Hj]]. injection E as <- <-. auto.
Qed.

(* ---------- system invariant ---------- *)

Definition acc_n (w : wstate) : nat := if w_acc w then 1%nat else 0%nat.

Record sinv (s : sys) : Prop := mk_sinv {
  v_fresh : forall v, (next s <= v)%nat -> vals s v = None;
  v_inj : forall v v' st w w', vals s v = Some (st, w) -> vals s v' = Some (st, w') -> v = v';
  v_used : forall v st w, vals s v = Some (st, w) -> In st (used s);
  v_count : forall v st w, vals s v = Some (st, w) ->
            count_nat st (got s) = acc_n w /\ (In st (closed s) -> w_acc w = false /\ w_err w = true)
            /\ wgood w;
  v_orphan : forall st, (In st (got s) \/ In st (closed s)) -> exists v w, vals s v = Some (st, w)
}.

Lemma sinv_init : sinv sys_init.
Proof.
  constructor; cbn; intros; try discriminate; try tauto.
Qed.

Lemma nmem_in x l : nmem x l = true <-> In x l.
Proof.
  unfold nmem. rewrite existsb_exists. split.
  - intros [y [Hy E]]. apply Nat.eqb_eq in E. subst. exact Hy.
  - intros H. exists x. split; [exact H|apply Nat.eqb_refl].
Qed.

Lemma wgood_new : wgood w_new.
Proof. unfold wgood. cbn. congruence. Qed.

Lemma sinv_step l sols s a s' : sinv s -> sys_step l sols s a = Some s' -> sinv s'.
Proof.
  intros [Hf Hi Hu Hc Ho] H. destruct a as [h st|v o]; cbn in H.
  - (* Resolve *)
    destruct (nmem st (used s)) eqn:U; [discriminate|].
    assert (Nu : ~ In st (used s)) by (rewrite <- nmem_in; congruence).
    destruct (resolve_match l sols h) as [|m ms]; injection H as <-.
    + constructor; cbn; auto. intros v st' w Hv. right. eapply Hu; eauto.
    + constructor; cbn; unfold upd.
      * intros v Hv. destruct (Nat.eqb v (next s)) eqn:E; [apply Nat.eqb_eq in E; lia|]. apply Hf. lia.
      * intros v v' st' w w'.
        destruct (Nat.eqb v (next s)) eqn:E, (Nat.eqb v' (next s)) eqn:E';
          try apply Nat.eqb_eq in E; try apply Nat.eqb_eq in E'; intros A B.
        -- congruence.
        -- injection A as <- <-. exfalso. apply Nu. eapply Hu; eauto.
        -- injection B as <- <-. exfalso. apply Nu. eapply Hu; eauto.
        -- eapply Hi; eauto.
      * intros v st' w. destruct (Nat.eqb v (next s)); intros A.
        -- injection A as <- <-. left. reflexivity.
        -- right. eapply Hu; eauto.
      * intros v st' w. destruct (Nat.eqb v (next s)) eqn:E; intros A.
        -- injection A as <- <-. split; [|split; [|apply wgood_new]].
           ++ unfold acc_n, count_nat. cbn. apply count_occ_not_In. intros G.
              destruct (Ho st (or_introl G)) as [v0 [w0 V0]]. apply Nu. eapply Hu; eauto.
           ++ intros G. destruct (Ho st (or_intror G)) as [v0 [w0 V0]]. exfalso. apply Nu. eapply Hu; eauto.
        -- eapply Hc; eauto.
      * intros st' G. destruct (Ho st' G) as [v0 [w0 V0]]. exists v0, w0.
        destruct (Nat.eqb v0 (next s)) eqn:E; [|exact V0].
        apply Nat.eqb_eq in E. subst. rewrite Hf in V0 by lia. discriminate.
  - (* Op *)
    destruct (vals s v) as [[st w]|] eqn:V; [|discriminate].
    destruct (wstep w o) as [w' r] eqn:W. injection H as <-.
    destruct (Hc v st w V) as [C1 [C2 C3]].
    assert (G' : wgood w') by (pose proof (wstep_good w o C3) as G; rewrite W in G; exact G).
    constructor; cbn; unfold upd.
    + intros k Hk. destruct (Nat.eqb k v) eqn:E; [|apply Hf; exact Hk].
      apply Nat.eqb_eq in E. subst. rewrite Hf in V by exact Hk. discriminate.
    + intros k k' st' x x'.
      destruct (Nat.eqb k v) eqn:E, (Nat.eqb k' v) eqn:E';
        try apply Nat.eqb_eq in E; try apply Nat.eqb_eq in E'; intros A B.
      * congruence.
      * injection A as <- <-. subst. eapply Hi; eauto.
      * injection B as <- <-. subst. eapply Hi; eauto.
      * eapply Hi; eauto.
    + intros k st' x. destruct (Nat.eqb k v); intros A.
      * injection A as <- <-. eapply Hu; eauto.
      * eapply Hu; eauto.
    + intros k st' x. destruct (Nat.eqb k v) eqn:E; intros A.
      * (* the value acted on *)
        injection A as <- <-. split; [|split; [|exact G']].
        -- destruct w as [ms er ac cl], o; cbn in W; destruct er, ac, ms; cbn in W;
             injection W as <- <-; unfold acc_n, count_nat in *; cbn in *;
             try (destruct (Nat.eq_dec st st); [|congruence]); try lia; try exact C1.
        -- destruct w as [ms er ac cl], o; cbn in W; destruct er, ac, ms; cbn in W;
             injection W as <- <-; cbn in *; intros I; auto;
             try (destruct I as [I|I]; auto); try (destruct (C2 I); discriminate).
      * (* another value: another stream *)
        apply Nat.eqb_neq in E.
        assert (Ns : st' <> st) by (intros ->; apply E; eapply Hi; eauto).
        destruct (Hc k st' x A) as [D1 [D2 D3]]. split; [|split; [|exact D3]].
        -- destruct r; auto. unfold count_nat in *. cbn. destruct (Nat.eq_dec st st'); [congruence|exact D1].
        -- intros I. apply D2. destruct o; auto. destruct r as [| | |[|]]; auto.
           destruct I as [I|I]; [congruence|exact I].
    + intros st' G.
      assert (G0 : st' = st \/ In st' (got s) \/ In st' (closed s)).
      { destruct G as [G|G].
        - destruct r; auto. destruct G as [G|G]; auto.
        - destruct o; auto. destruct r as [| | |[|]]; auto. destruct G as [G|G]; auto. }
      destruct G0 as [->|G0].
      * exists v, w'. rewrite Nat.eqb_refl. reflexivity.
      * destruct (Ho st' G0) as [v0 [w0 V0]].
        destruct (Nat.eqb v0 v) eqn:E.
        -- apply Nat.eqb_eq in E. subst. rewrite V in V0. injection V0 as <- <-.
           exists v, w'. rewrite Nat.eqb_refl. reflexivity.
        -- exists v0, w0. rewrite E. exact V0.
Qed.

Lemma sinv_run l sols : forall acts s s', sinv s -> sys_run l sols s acts = Some s' -> sinv s'.
Proof.
  induction acts as [|a acts IH]; intros s s' I H; cbn in H.
  - injection H as <-. exact I.
  - destruct (sys_step l sols s a) as [s1|] eqn:E; [|discriminate].
    eapply IH; [eapply sinv_step; eauto|exact H].
Qed.

(* every stream is returned by at most one AcceptMountedStream call, over all
   values and all solicitations it was handed to *)
Lemma one_owner l sols acts s st :
  sys_run l sols sys_init acts = Some s -> (count_nat st (got s) <= 1)%nat.
Proof.
  intros H. pose proof (sinv_run l sols _ _ _ sinv_init H) as [Hf Hi Hu Hc Ho].
  destruct (in_dec Nat.eq_dec st (got s)) as [I|N].
  - destruct (Ho st (or_introl I)) as [v [w V]]. destruct (Hc v st w V) as [C _].
    rewrite C. unfold acc_n. destruct (w_acc w); lia.
  - unfold count_nat. rewrite (proj1 (count_occ_not_In Nat.eq_dec _ _) N). lia.
Qed.

(* a stream that was accepted is never closed by a solicitation value, and a
   stream closed by one is never handed out *)
Lemma owned_not_closed l sols acts s st :
  sys_run l sols sys_init acts = Some s -> ~ (In st (got s) /\ In st (closed s)).
Proof.
  intros H [I J]. pose proof (sinv_run l sols _ _ _ sinv_init H) as [Hf Hi Hu Hc Ho].
  destruct (Ho st (or_introl I)) as [v [w V]]. destruct (Hc v st w V) as [C [D _]].
  destruct (D J) as [A _]. unfold acc_n in C. rewrite A in C.
  apply (count_occ_In Nat.eq_dec) in I. unfold count_nat in C. lia.
Qed.
