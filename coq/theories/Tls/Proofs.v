(* Proofs for C03: what an accepted certificate chain proves. *)
From Bifrost Require Import Lib.Base Lib.Sym gen.Tls gen.TlsOid Tls.Model.

Lemma chain_len_one : tls_chain_len = 1.
Proof. reflexivity. Qed.

Lemma find_key_ext_some l e :
  find_key_ext l = Some e ->
  In e l /\ e_oid e = tls_extension_oid /\
  exists pre post, l = pre ++ e :: post /\ forall x, In x pre -> e_oid x <> tls_extension_oid.
Proof.
  induction l as [|x l IH]; cbn [find_key_ext]; [discriminate|].
  destruct (oid_eqb (e_oid x) tls_extension_oid) eqn:E.
  - intros H; inversion H; subst. apply (list_eqb_spec Z.eqb Z.eqb_eq) in E.
    split; [left; reflexivity|]. split; [exact E|]. exists [], l. split; [reflexivity|intros ? []].
  - intros H. destruct (IH H) as (H1 & H2 & pre & post & -> & H3).
    split; [right; exact H1|]. split; [exact H2|].
    exists (x :: pre), post. split; [reflexivity|].
    intros y [<-|Hy]; [|auto]. intros Ey.
    assert (oid_eqb (e_oid x) tls_extension_oid = true) by (apply (list_eqb_spec Z.eqb Z.eqb_eq); exact Ey).
    congruence.
Qed.

Lemma find_key_ext_none l :
  find_key_ext l = None <-> forall x, In x l -> e_oid x <> tls_extension_oid.
Proof.
  induction l as [|x l IH]; cbn [find_key_ext]; [split; [intros _ ? []|reflexivity]|].
  destruct (oid_eqb (e_oid x) tls_extension_oid) eqn:E.
  - split; [discriminate|]. intros H. exfalso. apply (H x); [left; reflexivity|].
    apply (list_eqb_spec Z.eqb Z.eqb_eq), E.
  - rewrite IH. split.
    + intros H y [<-|Hy]; [|auto]. intros Ey.
      assert (oid_eqb (e_oid x) tls_extension_oid = true) by (apply (list_eqb_spec Z.eqb Z.eqb_eq); exact Ey).
      congruence.
    + intros H y Hy. apply H. right; exact Hy.
Qed.

Lemma sig_verify_true k m s : sig_verify k m s = true <-> s = SigBy k m.
Proof.
  destruct s as [k' m'|]; cbn [sig_verify]; [|split; discriminate].
  rewrite andb_true_iff, Nat.eqb_eq, sbytes_eqb_spec. split; [intros [-> ->]; reflexivity|].
  intros E; inversion E; auto.
Qed.

Theorem chain_rejects_wrong_length chain :
  length chain <> 1%nat -> pubkey_from_chain chain = Err E_CHAIN_LEN.
Proof.
  intros H. unfold pubkey_from_chain. rewrite chain_len_one.
  destruct (Z.eqb_spec (Z.of_nat (length chain)) 1); [lia|reflexivity].
Qed.

Lemma chain_len_cases chain :
  (exists c, chain = [c]) \/ pubkey_from_chain chain = Err E_CHAIN_LEN.
Proof.
  destruct chain as [|c [|c' rest]].
  - right. apply chain_rejects_wrong_length. cbn. lia.
  - left. eauto.
  - right. apply chain_rejects_wrong_length. cbn. lia.
Qed.

Lemma chain_single c :
  pubkey_from_chain [c] =
  match find_key_ext (c_exts c) with
  | None => Err E_NO_EXT
  | Some e =>
      if negb (c_verify_ok c) then Err E_VERIFY else
      if checks_self_sig && negb (c_self_signed c) then Err E_VERIFY else
      match e_value e with
      | ExtGarbage => Err E_ASN1
      | SignedKey PkGarbage _ => Err E_PUBKEY
      | SignedKey (PkOf k) s =>
          if negb (c_pkix_ok c) then Err E_PKIX else
          if sig_verify k (binding_msg (c_key c)) s then Ok k else Err E_SIG
      end
  end.
Proof. unfold pubkey_from_chain. rewrite chain_len_one. reflexivity. Qed.

(* an accepted chain is exactly one certificate that verifies as its own root
   and whose first key extension is a signature, by the returned key, over
   certificate_prefix ++ PKIX(certificate key) *)
Theorem chain_accept_iff chain k :
  pubkey_from_chain chain = Ok k <->
  exists c e, chain = [c] /\ c_verify_ok c = true /\ c_pkix_ok c = true /\
    find_key_ext (c_exts c) = Some e /\
    e_value e = SignedKey (PkOf k) (SigBy k (binding_msg (c_key c))) /\
    (checks_self_sig = true -> c_self_signed c = true).
Proof.
  split.
  - destruct (chain_len_cases chain) as [[c ->]|E]; [|rewrite E; discriminate].
    rewrite chain_single.
    destruct (find_key_ext (c_exts c)) as [e|] eqn:Ef; [|discriminate].
    destruct (c_verify_ok c) eqn:Ev; cbn [negb]; [|discriminate].
    destruct (checks_self_sig && negb (c_self_signed c)) eqn:Ess; [discriminate|].
    destruct (e_value e) as [[k'|] s|] eqn:Ee; try discriminate.
    destruct (c_pkix_ok c) eqn:Ep; cbn [negb]; [|discriminate].
    destruct (sig_verify k' (binding_msg (c_key c)) s) eqn:Es; [|discriminate].
    intros H; inversion H; subst. apply sig_verify_true in Es. subst s.
    exists c, e. repeat split; auto.
    intros Hc. rewrite Hc in Ess. cbn [andb] in Ess. destruct (c_self_signed c); [reflexivity|discriminate].
  - intros (c & e & -> & Hv & Hp & Hf & He & Hss). rewrite chain_single.
    assert (Ess : checks_self_sig && negb (c_self_signed c) = false).
    { destruct checks_self_sig; [rewrite Hss; reflexivity|reflexivity]. }
    rewrite Hf, Hv, Ess, He, Hp. cbn [negb].
    assert (sig_verify k (binding_msg (c_key c)) (SigBy k (binding_msg (c_key c))) = true)
      by (apply sig_verify_true; reflexivity).
    rewrite H. reflexivity.
Qed.

Theorem chain_total chain : pubkey_from_chain chain <> Panic.
Proof.
  destruct (chain_len_cases chain) as [[c ->]|E]; [|rewrite E; discriminate].
  rewrite chain_single.
  destruct (find_key_ext _); [|discriminate]. destruct (c_verify_ok c); cbn [negb]; [|discriminate].
  destruct (checks_self_sig && negb (c_self_signed c)); [discriminate|].
  destruct (e_value e) as [[?|] ?|]; try discriminate.
  destruct (c_pkix_ok c); cbn [negb]; [|discriminate]. destruct (sig_verify _ _ _); discriminate.
Qed.

Theorem chain_rejects_missing_ext c :
  (forall x, In x (c_exts c) -> e_oid x <> tls_extension_oid) -> pubkey_from_chain [c] = Err E_NO_EXT.
Proof.
  intros H. apply find_key_ext_none in H. rewrite chain_single, H. reflexivity.
Qed.

Theorem chain_rejects_unverified c :
  c_verify_ok c = false -> is_err (pubkey_from_chain [c]) = true.
Proof.
  intros H. rewrite chain_single.
  destruct (find_key_ext _); [|reflexivity]. rewrite H. reflexivity.
Qed.

Lemma id_of_inj a b : id_of a = id_of b -> a = b.
Proof. unfold id_of. lia. Qed.

Lemma id_of_nonzero a : id_of a <> 0.
Proof. unfold id_of. lia. Qed.

Lemma parse_chain_some raw chain :
  parse_chain raw = Some chain <-> raw = map RawCert chain.
Proof.
  revert chain. induction raw as [|r raw IH]; intros chain; cbn [parse_chain].
  - split; [intros H; inversion H; reflexivity|]. destruct chain; [reflexivity|discriminate].
  - destruct r as [c|].
    + destruct (parse_chain raw) as [l|] eqn:E.
      * split; [intros H; inversion H; subst; cbn; f_equal; apply IH; reflexivity|].
        destruct chain as [|c' chain]; cbn; [discriminate|]. intros H; inversion H; subst.
        f_equal. f_equal. assert (Some l = Some chain) by (apply IH; reflexivity). congruence.
      * split; [discriminate|]. destruct chain as [|c' chain]; cbn; [discriminate|].
        intros H; inversion H; subst. assert (None = Some chain) by (apply IH; reflexivity). discriminate.
    + split; [discriminate|]. destruct chain; cbn; discriminate.
Qed.

(* VerifyPeerCertificate accepts only what PubKeyFromCertChain accepts, and with
   an expected peer only that peer *)
Theorem verify_peer_ok remote raw k :
  verify_peer remote raw = Ok k <->
  exists chain, raw = map RawCert chain /\ pubkey_from_chain chain = Ok k /\
                (remote = 0 \/ id_of k = remote).
Proof.
  unfold verify_peer. split.
  - destruct (parse_chain raw) as [chain|] eqn:Ep; [|discriminate].
    apply parse_chain_some in Ep. destruct (pubkey_from_chain chain) as [k'| |] eqn:Ek; cbn [obind]; try discriminate.
    destruct (Z.eqb_spec remote 0) as [->|Hr]; cbn [negb andb].
    + intros H; inversion H; subst. exists chain. auto.
    + destruct (Z.eqb_spec (id_of k') remote) as [Hi|Hi]; cbn [negb]; [|discriminate].
      intros H; inversion H; subst. exists chain. auto.
  - intros (chain & -> & Hk & Hr).
    assert (Ep : parse_chain (map RawCert chain) = Some chain) by (apply parse_chain_some; reflexivity).
    rewrite Ep, Hk. cbn [obind]. destruct Hr as [->|Hr].
    + reflexivity.
    + rewrite Hr, Z.eqb_refl. cbn [negb]. rewrite andb_false_r. reflexivity.
Qed.

Theorem verify_peer_expected remote raw k :
  remote <> 0 -> verify_peer remote raw = Ok k -> id_of k = remote.
Proof.
  intros Hr H. apply verify_peer_ok in H as (chain & _ & _ & [H|H]); [contradiction|exact H].
Qed.

Theorem verify_peer_total remote raw : verify_peer remote raw <> Panic.
Proof.
  unfold verify_peer. destruct (parse_chain raw) as [chain|]; [|discriminate].
  pose proof (chain_total chain). destruct (pubkey_from_chain chain); cbn [obind]; try congruence.
  destruct (_ && _); discriminate.
Qed.

(* the link's remote peer is the id of the key extracted from the chain *)
Theorem link_remote_is_chain_key chain id :
  link_remote_peer chain = Ok id <-> exists k, pubkey_from_chain chain = Ok k /\ id = id_of k.
Proof.
  unfold link_remote_peer. destruct (pubkey_from_chain chain) as [k| |]; cbn [obind].
  - split; [intros H; inversion H; eauto|intros (k' & H & ->); inversion H; reflexivity].
  - split; [discriminate|intros (k' & H & _); discriminate].
  - split; [discriminate|intros (k' & H & _); discriminate].
Qed.

(* a successful handshake: exactly one certificate, bound to key k by k's own
   signature, the presenter proved possession of the certificate key, the link
   names id_of k, and if a peer was required it is that peer *)
Theorem handshake_ok expected a id :
  handshake expected a = Ok id ->
  a_proves_key a = true /\
  exists c e k, a_raw a = [RawCert c] /\ id = id_of k /\
    c_verify_ok c = true /\ find_key_ext (c_exts c) = Some e /\
    e_value e = SignedKey (PkOf k) (SigBy k (binding_msg (c_key c))) /\
    (expected = 0 \/ id = expected) /\ (checks_self_sig = true -> c_self_signed c = true).
Proof.
  unfold handshake. destruct (a_proves_key a); cbn [negb]; [|discriminate].
  destruct (verify_peer expected (a_raw a)) as [k| |] eqn:Ev; cbn [obind]; try discriminate.
  apply verify_peer_ok in Ev as (chain & Eraw & Hk & Hexp).
  assert (Ep : parse_chain (a_raw a) = Some chain) by (apply parse_chain_some; exact Eraw).
  rewrite Ep. intros H. apply link_remote_is_chain_key in H as (k' & Hk' & ->).
  rewrite Hk in Hk'. inversion Hk'; subst k'.
  apply chain_accept_iff in Hk as (c & e & -> & Hv & _ & Hf & He & Hss).
  split; [reflexivity|]. exists c, e, k. cbn [map] in Eraw. repeat split; auto.
Qed.

(* ---- impersonation ---- *)
Lemma pkix_inj a b : pkix a = pkix b -> a = b.
Proof.
  unfold pkix. intros H. apply fout_inj in H; [|lia]. destruct H as [_ H]. inversion H; reflexivity.
Qed.

Lemma binding_msg_inj a b : binding_msg a = binding_msg b -> a = b.
Proof. unfold binding_msg. intros H. apply app_inv_head in H. apply pkix_inj, H. Qed.

(* What someone who does not hold the victim's private key can present:
   every signature by the victim's key occurring in the presented certificates
   was made by the victim, i.e. binds one of the victim's own certificate keys
   (VK); and the private keys of those certificate keys never left the victim,
   so the presenter cannot prove possession of them. *)
Definition not_holding (victim : nat) (VK : list Z) (a : attempt) : Prop :=
  (forall c e pk m, In (RawCert c) (a_raw a) -> In e (c_exts c) ->
                    e_value e = SignedKey pk (SigBy victim m) ->
                    exists ck, In ck VK /\ m = binding_msg ck) /\
  (a_proves_key a = true -> forall c, In (RawCert c) (a_raw a) -> ~ In (c_key c) VK).

Theorem impostor_never_named victim VK expected a id :
  not_holding victim VK a -> handshake expected a = Ok id -> id <> id_of victim.
Proof.
  intros [Hs Hp] H Eid. apply handshake_ok in H as (Hk & c & e & k & Er & -> & _ & Hf & He & _ & _).
  apply id_of_inj in Eid. subst k.
  apply find_key_ext_some in Hf as (Hin & _).
  assert (Hc : In (RawCert c) (a_raw a)) by (rewrite Er; left; reflexivity).
  destruct (Hs c e _ _ Hc Hin He) as (ck & Hck & Hm).
  apply binding_msg_inj in Hm. subst ck.
  exact (Hp Hk c Hc Hck).
Qed.

(* history form: over any sequence of connection attempts by parties that do
   not hold the victim's key, no established link names the victim *)
Theorem history_never_names_victim victim VK expected l :
  Forall (not_holding victim VK) l -> ~ In (id_of victim) (established expected l).
Proof.
  induction l as [|a l IH]; intros HF; [intros []|].
  inversion HF as [|? ? Ha Hl]; subst. cbn [established].
  destruct (handshake expected a) as [id| |] eqn:E; try (apply IH; exact Hl).
  intros [Hid|Hin]; [|apply IH in Hl; contradiction].
  eapply impostor_never_named; eauto.
Qed.

(* every established link, in any sequence of attempts, names the key that
   signed the binding of the certificate whose key was proved *)
Theorem history_links_authenticated expected l id :
  In id (established expected l) ->
  exists a c e k, In a l /\ a_proves_key a = true /\ a_raw a = [RawCert c] /\ id = id_of k /\
    find_key_ext (c_exts c) = Some e /\
    e_value e = SignedKey (PkOf k) (SigBy k (binding_msg (c_key c))) /\
    (expected = 0 \/ id = expected).
Proof.
  induction l as [|a l IH]; [intros []|]. cbn [established].
  assert (Hrec : In id (established expected l) ->
    exists a0 c e k, In a0 (a :: l) /\ a_proves_key a0 = true /\ a_raw a0 = [RawCert c] /\ id = id_of k /\
      find_key_ext (c_exts c) = Some e /\
      e_value e = SignedKey (PkOf k) (SigBy k (binding_msg (c_key c))) /\
      (expected = 0 \/ id = expected)).
  { intros H. destruct (IH H) as (a' & c & e & k & Hin & R). exists a', c, e, k. split; [right; exact Hin|exact R]. }
  destruct (handshake expected a) as [id'| |] eqn:E; try exact Hrec.
  intros [<-|H]; [|exact (Hrec H)].
  apply handshake_ok in E as (Hk & c & e & k & Er & Eid & _ & Hf & He & Hx & _).
  exists a, c, e, k. repeat split; auto. left; reflexivity.
Qed.

(* ---- is the certificate's own signature checked? ---- *)
Theorem accepted_is_self_signed_when_checked chain k :
  checks_self_sig = true -> pubkey_from_chain chain = Ok k ->
  exists c, chain = [c] /\ c_self_signed c = true.
Proof.
  intros Hc H. apply chain_accept_iff in H as (c & e & -> & _ & _ & _ & _ & Hss). eauto.
Qed.

(* x509 Verify with the certificate as its own root answers yes for a
   certificate signed by another key (observed by the harness on real
   certificates); without a separate signature check such a chain is accepted *)
Definition resigned_cert : cert :=
  mkCert true [mkExt tls_extension_oid false (SignedKey (PkOf 3) (SigBy 3 (binding_msg 1)))] false 1 true.

Theorem non_self_signed_accepted_when_unchecked :
  checks_self_sig = false ->
  pubkey_from_chain [resigned_cert] = Ok 3%nat /\ c_self_signed resigned_cert = false.
Proof.
  intros Hc. split; [|reflexivity]. apply chain_accept_iff.
  exists resigned_cert, (mkExt tls_extension_oid false (SignedKey (PkOf 3) (SigBy 3 (binding_msg 1)))).
  split; [reflexivity|]. split; [reflexivity|]. split; [reflexivity|]. split; [reflexivity|].
  split; [reflexivity|]. intros H. congruence.
Qed.

(* ---- expected peer, whichever layer enforces it ---- *)
Theorem dial_expected_ok k x a id :
  x <> 0 -> dial_expected k x a = Ok id ->
  id = x /\ a_proves_key a = true /\
  exists c e key, a_raw a = [RawCert c] /\ id = id_of key /\
    find_key_ext (c_exts c) = Some e /\
    e_value e = SignedKey (PkOf key) (SigBy key (binding_msg (c_key c))).
Proof.
  intros Hx. destruct k; cbn [dial_expected].
  - intros H. apply handshake_ok in H as (Hk & c & e & key & Hr & Hid & _ & Hf & He & [H0|H0] & _);
      [contradiction|].
    split; [exact H0|]. split; [exact Hk|]. exists c, e, key. auto.
  - destruct (handshake 0 a) as [id'| |] eqn:E; cbn [obind]; try discriminate.
    destruct (Z.eqb_spec x 0); [contradiction|]. cbn [negb andb].
    destruct (Z.eqb_spec id' x) as [Hi|Hi]; cbn [negb]; [|discriminate].
    intros H. injection H as <-.
    apply handshake_ok in E as (Hk & c & e & key & Hr & Hid & _ & Hf & He & _).
    split; [exact Hi|]. split; [exact Hk|]. exists c, e, key. auto.
Qed.

(* the two layers refuse exactly the same dials *)
Theorem enforcement_layers_agree x a :
  is_ok (dial_expected AtTls x a) = is_ok (dial_expected PostCheck x a).
Proof.
  cbn [dial_expected]. unfold handshake. destruct (a_proves_key a); cbn [negb]; [|reflexivity].
  unfold verify_peer. destruct (parse_chain (a_raw a)) as [chain|]; [|reflexivity].
  unfold link_remote_peer.
  destruct (pubkey_from_chain chain) as [k| |]; cbn [obind]; try reflexivity.
  rewrite Z.eqb_refl. cbn [negb andb obind].
  destruct (Z.eqb_spec x 0) as [->|Hx]; cbn [negb andb obind]; [reflexivity|].
  destruct (Z.eqb (id_of k) x); reflexivity.
Qed.
