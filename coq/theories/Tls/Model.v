(* Model of crypto/tls/tls.go (PubKeyFromCertChain, ConfigForPeer's
   VerifyPeerCertificate) and transport/common/quic/session.go + link.go
   (DetermineSessionIdentity, NewLink's remote peer).

   x509/asn1 parsing and x509 path verification are oracles: a certificate is
   given as data (what the Go library parsed / answered).  The key-binding
   signature is symbolic: [SigBy k m] is a signature made with the private key
   of peer key [k] over the symbolic byte string [m]; there is no other way to
   obtain a term that verifies under k (unforgeability = freeness). *)
From Bifrost Require Import Lib.Base Lib.Sym gen.Tls gen.TlsOid.

Definition FN_PKIX : nat := 11%nat.
(* x509.MarshalPKIXPublicKey(cert.PublicKey): an injective encoding of the certificate key *)
Definition pkix (certkey : Z) : sbytes := fout FN_PKIX 4 [B certkey].

Inductive sigterm :=
| SigBy (k : nat) (m : sbytes)
| SigGarbage.

Inductive pkbytes :=
| PkOf (k : nat)            (* crypto.UnmarshalPublicKey succeeds with peer key k *)
| PkGarbage.                (* it fails *)

Inductive extval :=
| SignedKey (pk : pkbytes) (sig : sigterm)   (* asn1.Unmarshal into signedKey succeeds *)
| ExtGarbage.                                (* it fails *)

Record ext := mkExt { e_oid : list Z; e_critical : bool; e_value : extval }.

Record cert := mkCert {
  c_verify_ok : bool;   (* oracle: cert.Verify with the certificate as its own root (self-signed,
                           signature valid, in validity period, no unhandled critical extension
                           left after the key extension was marked handled) *)
  c_exts : list ext;    (* cert.Extensions in order *)
  c_self_signed : bool; (* observed: the certificate's signature verifies under its own public key *)
  c_key : Z;            (* the certificate's own (ECDSA) public key *)
  c_pkix_ok : bool      (* x509.MarshalPKIXPublicKey(cert.PublicKey) succeeds *)
}.

Inductive rawcert :=
| RawCert (c : cert)    (* x509.ParseCertificate succeeds *)
| RawGarbage.

(* error classes *)
Definition E_CHAIN_LEN : nat := 1%nat.
Definition E_NO_EXT : nat := 2%nat.
Definition E_VERIFY : nat := 3%nat.
Definition E_ASN1 : nat := 4%nat.
Definition E_PUBKEY : nat := 5%nat.
Definition E_PKIX : nat := 6%nat.
Definition E_SIG : nat := 7%nat.
Definition E_PARSE : nat := 8%nat.
Definition E_PEER_MISMATCH : nat := 9%nat.
Definition E_TLS : nat := 10%nat.

Definition oid_eqb (a b : list Z) : bool := list_eqb Z.eqb a b.  (* extensionIDEqual *)

(* first extension with the key-extension OID (the loop breaks at the first match) *)
Fixpoint find_key_ext (l : list ext) : option ext :=
  match l with
  | [] => None
  | e :: l' => if oid_eqb (e_oid e) tls_extension_oid then Some e else find_key_ext l'
  end.

(* the byte string the peer key must have signed *)
Definition binding_msg (certkey : Z) : sbytes := lift tls_certificate_prefix ++ pkix certkey.

(* pubKey.Verify(msg, sig) *)
Definition sig_verify (k : nat) (m : sbytes) (s : sigterm) : bool :=
  match s with
  | SigBy k' m' => Nat.eqb k' k && sbytes_eqb m' m
  | SigGarbage => false
  end.

(* does PubKeyFromCertChain check the certificate's own signature in addition to
   x509 Verify (which accepts a certificate found in the root pool as is)?
   regenerated from the source *)
Definition checks_self_sig : bool := 0 <? tls_self_signature_checks.

(* PubKeyFromCertChain *)
Definition pubkey_from_chain (chain : list cert) : outcome nat :=
  if negb (Z.eqb (Z.of_nat (length chain)) tls_chain_len) then Err E_CHAIN_LEN else
  match chain with
  | [] => Panic                                   (* chain[0] *)
  | c :: _ =>
      match find_key_ext (c_exts c) with
      | None => Err E_NO_EXT
      | Some e =>
          if negb (c_verify_ok c) then Err E_VERIFY else
          if checks_self_sig && negb (c_self_signed c) then Err E_VERIFY else
          match e_value e with
          | ExtGarbage => Err E_ASN1
          | SignedKey PkGarbage _ => Err E_PUBKEY
          | SignedKey (PkOf k) s =>
              if negb (c_pkix_ok c) then Err E_PKIX else
              if sig_verify k (binding_msg (c_key c)) s then Ok k else Err E_SIG
          end
      end
  end.

(* peer.IDFromPublicKey on peer key k; 0 is the empty peer id (injectivity is C10) *)
Definition id_of (k : nat) : Z := Z.of_nat k + 1.

Fixpoint parse_chain (raw : list rawcert) : option (list cert) :=
  match raw with
  | [] => Some []
  | RawGarbage :: _ => None
  | RawCert c :: raw' => match parse_chain raw' with Some l => Some (c :: l) | None => None end
  end.

(* the VerifyPeerCertificate callback installed by Identity.ConfigForPeer(remote) *)
Definition verify_peer (remote : Z) (raw : list rawcert) : outcome nat :=
  match parse_chain raw with
  | None => Err E_PARSE
  | Some chain =>
      k <- pubkey_from_chain chain ;;
      if negb (Z.eqb remote 0) && negb (Z.eqb (id_of k) remote) then Err E_PEER_MISMATCH
      else Ok k
  end.

(* DetermineSessionIdentity(sess) / NewLink: the link's remote peer *)
Definition link_remote_peer (peer_certs : list cert) : outcome Z :=
  k <- pubkey_from_chain peer_certs ;; Ok (id_of k).

(* One handshake as seen by the local end: the remote presents [raw] and either
   proves possession of the private key of the leaf certificate (TLS 1.3
   CertificateVerify, trusted third-party code) or not.  On success the
   transport builds a link from the session's peer certificates. *)
Record attempt := mkAttempt { a_raw : list rawcert; a_proves_key : bool }.

Definition handshake (expected : Z) (a : attempt) : outcome Z :=
  if negb (a_proves_key a) then Err E_TLS else
  _ <- verify_peer expected (a_raw a) ;;
  match parse_chain (a_raw a) with
  | Some chain => link_remote_peer chain
  | None => Err E_PARSE
  end.

(* links established by a sequence of connection attempts *)
Fixpoint established (expected : Z) (l : list attempt) : list Z :=
  match l with
  | [] => []
  | a :: l' =>
      match handshake expected a with
      | Ok id => id :: established expected l'
      | _ => established expected l'
      end
  end.

(* ---- expected-peer enforcement at the level callers use it ----
   Transport.DialPeer(x, addr): either the dial function passes x to the TLS
   handshake (ConfigForPeer(x): the session dial helpers with a peer id), or --
   pconn, inproc, udp, websocket dial functions -- the handshake is made with an
   EMPTY expected peer and DialPeer compares the link's remote peer with x
   afterwards. *)
Inductive enforcement := AtTls | PostCheck.

Definition dial_expected (k : enforcement) (x : Z) (a : attempt) : outcome Z :=
  match k with
  | AtTls => handshake x a
  | PostCheck =>
      id <- handshake 0 a ;;
      if negb (Z.eqb x 0) && negb (Z.eqb id x) then Err E_PEER_MISMATCH else Ok id
  end.

(* who "answers" a dial made with an empty TLS constraint (input of Dial/Model.v) *)
Definition answerer (a : attempt) : option Z :=
  match handshake 0 a with Ok id => Some id | _ => None end.
