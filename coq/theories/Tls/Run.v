(* Correspondence for C03: the certificate data the Go x509/asn1 libraries
   produced, the symbolic signature terms the harness built the certificates
   from, and what crypto/tls and transport/common/quic answered. *)
From Bifrost Require Import Lib.Base Lib.Sym Tls.Model Link.Model Dial.Model Dial.Run.

(* observed result: k >= 0 accepted with peer key k (or peer id for Shake), -1 error, -2 panic *)
Definition obs_of_nat (o : outcome nat) : Z :=
  match o with Ok k => Z.of_nat k | Err _ => -1 | Panic => -2 end.
Definition obs_of_z (o : outcome Z) : Z :=
  match o with Ok k => k | Err _ => -1 | Panic => -2 end.

Inductive c03_case :=
| Chain (chain : list cert) (obs : Z)                       (* PubKeyFromCertChain *)
| Verify (remote : Z) (raw : list rawcert) (obs : Z)        (* ConfigForPeer(remote).VerifyPeerCertificate *)
| Shake (expected : Z) (a : attempt) (obs : Z)              (* real QUIC/TLS handshake + NewLink: link remote peer *)
(* Transport.DialPeer calls with different expected peers, overlapping on one
   address (dial functions with an empty TLS constraint + DialPeer's post-check):
   result per call, see Dial/Run.v Shared *)
| SharedDial (a : Z) (e : list cev) (obs : list Z).

(* the message a harness-built signature covers: prefix bytes ++ PKIX(cert key) *)
Definition msg_of (prefix : bytes) (certkey : Z) : sbytes := lift prefix ++ pkix certkey.

Definition c03_agree (c : c03_case) : bool :=
  match c with
  | Chain chain obs => Z.eqb (obs_of_nat (pubkey_from_chain chain)) obs
  | Verify remote raw obs => Z.eqb (obs_of_nat (verify_peer remote raw)) obs
  | Shake expected a obs => Z.eqb (obs_of_z (handshake expected a)) obs
  | SharedDial a e obs => c05_agree (Shared a e obs)
  end.
