(* Model of the transport controller's link tables
   (transport/controller/transport-handler.go, controller.go flushEstablishedLink,
   establish-link.go, mounted-link.go, mounted-stream.go) as a labelled
   transition system.  One action = one bcast lock region.

   A link is a Go pointer: in the model a [nat] (the "ptr"), whose immutable
   attributes (GetUUID, remote address, GetLocalPeer, GetRemotePeer) are given
   by a universe function [U : nat -> link].  Two distinct ptrs may share a
   uuid, an address or a remote peer.  Peer ids are [Z], 0 is the empty id. *)
From Bifrost Require Import Lib.Base gen.LinkCtl.

Record link := mkLink { l_uuid : Z; l_addr : Z; l_local : Z; l_remote : Z }.

(* Go maps as association lists with unique keys; only [aget] matters. *)
Definition amap (V : Type) := list (Z * V).

Fixpoint aget {V} (k : Z) (m : amap V) : option V :=
  match m with
  | [] => None
  | (k', v) :: m' => if Z.eqb k k' then Some v else aget k m'
  end.

Fixpoint adel {V} (k : Z) (m : amap V) : amap V :=
  match m with
  | [] => []
  | (k', v) :: m' => if Z.eqb k k' then adel k m' else (k', v) :: adel k m'
  end.

Definition aset {V} (k : Z) (v : V) (m : amap V) : amap V := (k, v) :: adel k m.

(* peerLinks[i] = peerLinks[len-1]; peerLinks = peerLinks[:len-1] for the first
   i with peerLinks[i] == el (controller.go flushEstablishedLink) *)
Fixpoint swap_remove (x : nat) (l : list nat) : list nat :=
  match l with
  | [] => []
  | y :: t =>
      if Nat.eqb y x then
        match t with
        | [] => []
        | _ => last t y :: removelast t
        end
      else y :: swap_remove x t
  end.

(* first key whose value is the link (HandleLinkLost slow path: range over the map) *)
Fixpoint find_val (p : nat) (m : amap nat) : option Z :=
  match m with
  | [] => None
  | (k, q) :: m' => if Nat.eqb q p then Some k else find_val p m'
  end.

Record state := mkState {
  st_peer : Z;                    (* c.peerID *)
  st_links : amap nat;            (* c.links : uuid -> establishedLink (one per link ptr) *)
  st_by_peer : amap (list nat);   (* c.linksByPeerID *)
  st_closed : list nat;           (* links on which Close was called *)
  (* running EstablishLinkWithPeer(src, dst) directives with the values their
     establishLinkResolver emitted at its last pass (it only re-reads the
     table when woken by broadcast()) *)
  st_dirs : list (Z * Z * list nat);
  st_ready : bool                 (* c.tpt != nil: Execute has constructed the transport *)
}.

(* the controller once its transport is constructed; [init0]: before that
   (start-up, slow constructor, between Execute retries) *)
Definition init (me : Z) : state := mkState me [] [] [] [] true.
Definition init0 (me : Z) : state := mkState me [] [] [] [] false.

(* does HandleLinkLost wake the resolvers?  regenerated from the source *)
(* both flush branches of HandleLinkLost (fast path, slow path) call broadcast() *)
Definition lost_broadcasts : bool := 2 <=? link_lost_broadcast_calls.

Inductive action :=
| Est (p : nat)                   (* HandleLinkEstablished(lnk) lock region *)
| Lost (p : nat)                  (* HandleLinkLost(lnk) lock region *)
| Resolve (src dst : Z)           (* a reference on EstablishLinkWithPeer(src, dst) *)
| Ready.                          (* Execute: the constructor returned; c.tpt, c.peerID set; broadcast() *)

Section Ctl.
  Variable U : nat -> link.

  Definition uuid_of (p : nat) : Z := l_uuid (U p).
  Definition remote_of (p : nat) : Z := l_remote (U p).
  Definition local_of (p : nat) : Z := l_local (U p).

  Definition peer_links (r : Z) (s : state) : list nat :=
    match aget r (st_by_peer s) with Some l => l | None => [] end.

  (* flushEstablishedLink(el, _) with el.lnk = p; mtx held *)
  Definition flush (s : state) (p : nat) : state :=
    let r := remote_of p in
    let pl := swap_remove p (peer_links r s) in
    mkState (st_peer s)
            (adel (uuid_of p) (st_links s))
            (match pl with [] => adel r (st_by_peer s) | _ => aset r pl (st_by_peer s) end)
            (p :: st_closed s) (st_dirs s) (st_ready s).

  Definition insert (s : state) (p : nat) : state :=
    mkState (st_peer s)
            (aset (uuid_of p) p (st_links s))
            (aset (remote_of p) (peer_links (remote_of p) s ++ [p]) (st_by_peer s))
            (st_closed s) (st_dirs s) (st_ready s).

  Definition close_only (s : state) (p : nat) : state :=
    mkState (st_peer s) (st_links s) (st_by_peer s) (p :: st_closed s) (st_dirs s) (st_ready s).

  (* HandleLinkEstablished (execCtx non-nil, transport resolved) *)
  Definition do_est (s : state) (p : nat) : state :=
    if Z.eqb (remote_of p) (st_peer s) then close_only s p  (* self-dial *)
    else
      match aget (uuid_of p) (st_links s) with
      | Some q =>
          if Nat.eqb q p then s                               (* duplicate call *)
          else insert (flush s q) p                           (* close the older link with this uuid *)
      | None => insert s p
      end.

  (* HandleLinkLost *)
  Definition do_lost (s : state) (p : nat) : state :=
    let slow :=
      match find_val p (st_links s) with
      | Some k =>
          flush (mkState (st_peer s) (adel k (st_links s)) (st_by_peer s) (st_closed s) (st_dirs s) (st_ready s)) p
      | None => s
      end in
    match aget (uuid_of p) (st_links s) with
    | Some q =>
        if Nat.eqb q p
        then flush (mkState (st_peer s) (adel (uuid_of p) (st_links s)) (st_by_peer s) (st_closed s) (st_dirs s) (st_ready s)) p
        else slow
    | None => slow
    end.

  (* values of an EstablishLinkWithPeer(src, dst) directive after one pass of
     the resolver loop (resolveEstablishLink + establishLinkResolver.Resolve) *)
  Definition resolve (s : state) (src dst : Z) : list nat :=
    if negb (st_ready s) then []      (* the resolver waits in GetTransport: nothing emitted yet *)
    else if Z.eqb dst 0 then []
    else if negb (Z.eqb src 0) && negb (Z.eqb src (st_peer s)) then []
    else peer_links dst s.

  (* ---- running directives ---- *)
  Definition set_dirs (s : state) (d : list (Z * Z * list nat)) : state :=
    mkState (st_peer s) (st_links s) (st_by_peer s) (st_closed s) d (st_ready s).

  Fixpoint dir_find (src dst : Z) (d : list (Z * Z * list nat)) : option (list nat) :=
    match d with
    | [] => None
    | (a, b, v) :: d' => if Z.eqb a src && Z.eqb b dst then Some v else dir_find src dst d'
    end.

  (* start a resolver for (src, dst) unless that directive is already running *)
  Definition dir_start (s : state) (src dst : Z) : state :=
    match dir_find src dst (st_dirs s) with
    | Some _ => s
    | None => set_dirs s (st_dirs s ++ [(src, dst, resolve s src dst)])
    end.

  (* broadcast(): every parked resolver re-reads linksByPeerID[dst] *)
  Definition refresh (s : state) : state :=
    set_dirs s (map (fun e => match e with (a, b, _) => (a, b, resolve s a b) end) (st_dirs s)).

  (* did HandleLinkEstablished take the path that stores the link (and broadcasts)? *)
  Definition est_stores (s : state) (p : nat) : bool :=
    negb (Z.eqb (remote_of p) (st_peer s)) &&
    negb (option_eqb Nat.eqb (aget (uuid_of p) (st_links s)) (Some p)).

  Definition set_ready (s : state) : state :=
    mkState (st_peer s) (st_links s) (st_by_peer s) (st_closed s) (st_dirs s) true.

  (* did HandleLinkLost find the link (fast or slow path)? *)
  Definition lost_flushes (s : state) (p : nat) : bool :=
    option_eqb Nat.eqb (aget (uuid_of p) (st_links s)) (Some p) ||
    match find_val p (st_links s) with Some _ => true | None => false end.

  (* lb: whether HandleLinkLost broadcasts *)
  Definition step_gen (lb : bool) (s : state) (a : action) : state * list nat :=
    match a with
    | Est p =>
        (* execCtx == nil (Execute has not stored its handles yet, or has exited):
           "link established while transport exited, closing link" *)
        if negb (st_ready s) then (close_only s p, []) else
        let s' := do_est s p in
        if est_stores s p
        then (* newEstablishedLink adds EstablishLinkWithPeer(local, remote); broadcast() *)
          (refresh (dir_start s' (local_of p) (remote_of p)), [])
        else (s', [])
    | Lost p =>
        let s' := do_lost s p in
        (* broadcast() follows flushEstablishedLink in the branch that found the link *)
        ((if lb && lost_flushes s p then refresh s' else s'), [])
    | Resolve src dst =>
        (* a reference on EstablishLinkWithPeer(src, dst): joins the running
           directive or starts its resolver; an empty source also asserts
           EstablishLinkWithPeer(transport peer, dst) *)
        if Z.eqb dst 0 then (s, [])
        else
          let s1 := dir_start s src dst in
          let s2 := if Z.eqb src 0 then dir_start s1 (st_peer s) dst else s1 in
          (s2, match dir_find src dst (st_dirs s2) with Some v => v | None => [] end)
    | Ready =>
        (* every resolver parked in GetTransport now makes its pass: the source
           check happens HERE, against the transport's peer id, whenever the
           directive arrived *)
        (refresh (set_ready s), [])
    end.

  Definition step := step_gen lost_broadcasts.

  Definition run_gen (lb : bool) (s : state) (h : list action) : state :=
    fold_left (fun s a => fst (step_gen lb s a)) h s.
  Definition run_from (s : state) (h : list action) : state := run_gen lost_broadcasts s h.
  Definition run (me : Z) (h : list action) : state := run_from (init me) h.

  (* observations of every action of the history, in order *)
  Fixpoint trace (s : state) (h : list action) : list (list nat) :=
    match h with
    | [] => []
    | a :: h' => snd (step s a) :: trace (fst (step s a)) h'
    end.

  (* Controller.GetPeerLinks: range over c.links filtered by remote peer *)
  Definition get_peer_links (s : state) (r : Z) : list nat :=
    filter (fun q => Z.eqb (remote_of q) r) (map snd (st_links s)).

  (* mounted-stream.go newMountedStream: linkPeer = mountedLink.GetRemotePeer()
     = link.GetRemotePeer(); HandleIncomingStream's directive carries
     (local peer of the link, GetPeerID of the mounted stream) *)
  Definition mounted_link_remote (p : nat) : Z := remote_of p.
  Definition mounted_stream_peer (p : nat) : Z := mounted_link_remote p.
  Definition incoming_directive (p : nat) : Z * Z := (local_of p, mounted_stream_peer p).

  (* ---- specification: the links established and not yet lost ---- *)
  (* replacement semantics: a newly established link supersedes the live
     link(s) with the same identifier; a link whose remote is the local peer is
     never live; re-reporting a live link changes nothing. *)
  Definition live_step (me : Z) (L : list nat) (a : action) : list nat :=
    match a with
    | Est p =>
        if Z.eqb (remote_of p) me then L
        else if existsb (Nat.eqb p) L then L
        else p :: filter (fun q => negb (Z.eqb (uuid_of q) (uuid_of p))) L
    | Lost p => filter (fun q => negb (Nat.eqb q p)) L
    | Resolve _ _ => L
    | Ready => L
    end.
  Definition live (me : Z) (h : list action) : list nat := fold_left (live_step me) h [].
End Ctl.
