(* The quic transport's own table (transport/common/quic/quic.go): links keyed
   by remote address; HandleSession usurps the link registered at the address,
   handleLinkLost tells the controller about a closed link -- depending on the
   source -- only when it is still the registered one.  Composed with the
   controller LTS of Link/Model.v. *)
From Bifrost Require Import Lib.Base gen.LinkCtl Link.Model Link.Maps Link.Proofs.

Inductive qaction :=
| Session (p : nat)   (* HandleSession(sess) producing link p (lock region t.mtx) *)
| Closed (p : nat).   (* link p's closed callback: handleLinkLost(addr, p) *)

Record qstate := mkQ {
  q_links : amap nat;        (* t.links : remote address -> link *)
  q_closed : list nat        (* links the transport closed itself (usurped) *)
}.

Definition needs_current : bool := 0 <? quic_lost_needs_current.

Section Quic.
  Variable U : nat -> link.
  Definition addr_of (p : nat) : Z := l_addr (U p).

  (* nc: whether the controller is told only about a still-registered link *)
  Definition qstep (nc : bool) (t : qstate) (a : qaction) : qstate * list action :=
    match a with
    | Session p =>
        let old := aget (addr_of p) (q_links t) in
        (mkQ (aset (addr_of p) p (q_links t))
             (match old with Some q => q :: q_closed t | None => q_closed t end),
         [Est p])                              (* go t.handler.HandleLinkEstablished(lnk) *)
    | Closed p =>
        let rel := option_eqb Nat.eqb (aget (addr_of p) (q_links t)) (Some p) in
        (mkQ (if rel then adel (addr_of p) (q_links t) else q_links t) (q_closed t),
         if rel || negb nc then [Lost p] else [])
    end.

  (* the controller events produced by a transport history *)
  Fixpoint emitted (nc : bool) (t : qstate) (h : list qaction) : list action :=
    match h with
    | [] => []
    | a :: h' => snd (qstep nc t a) ++ emitted nc (fst (qstep nc t a)) h'
    end.

  Definition qinit : qstate := mkQ [] [].

  (* when every closed link is reported, a Closed event always reaches the controller *)
  Lemma closed_emits_lost t p : snd (qstep false t (Closed p)) = [Lost p].
  Proof. cbn [qstep snd]. rewrite orb_true_r. reflexivity. Qed.

  Lemma emitted_app nc : forall h t h',
    emitted nc t (h ++ h') =
    emitted nc t h ++ emitted nc (fold_left (fun t a => fst (qstep nc t a)) h t) h'.
  Proof.
    induction h as [|a h IH]; intros t h'; [reflexivity|].
    cbn [app emitted fold_left]. rewrite IH, app_assoc. reflexivity.
  Qed.

  Lemma emitted_est nc : forall h t q, In (Est q) (emitted nc t h) -> In (Session q) h.
  Proof.
    induction h as [|a h IH]; intros t q; cbn [emitted]; [intros []|].
    rewrite in_app_iff. intros [H|H]; [|right; eapply IH; exact H].
    destruct a as [p|p]; cbn [qstep snd] in H.
    - destruct H as [H|[]]. inversion H; subst. left; reflexivity.
    - destruct (_ || _); [destruct H as [H|[]]; discriminate|destruct H].
  Qed.

  (* so, composed with the controller: once link p's close callback has run and
     p is not handed over again, neither reporting path of the controller has p *)
  Theorem closed_link_not_reported_when_always_told lb me h h' p r :
    ~ In (Session p) h' ->
    ~ In p (peer_links r (run_gen U lb (init me) (emitted false qinit (h ++ Closed p :: h')))).
  Proof.
    intros Hn. rewrite emitted_app. cbn [emitted]. rewrite closed_emits_lost.
    cbn [app]. apply (lost_never_reported U lb true); [apply wf_true|].
    intros H. apply emitted_est in H. contradiction.
  Qed.
End Quic.

(* when the controller is only told about still-registered links: peer 3 takes
   over the address of the link to peer 2 (different peer => different uuid);
   the transport closes the old link, its close callback runs, and the
   controller keeps reporting it *)
Definition usurp_univ : nat -> link := fun p =>
  match p with
  | 0%nat => mkLink 100 7 1 2
  | _ => mkLink 200 7 1 3
  end.
Definition usurp_history : list qaction := [Session 0%nat; Session 1%nat; Closed 0%nat].

Theorem usurped_link_still_reported_when_only_current_told :
  let evs := emitted usurp_univ true qinit usurp_history in
  evs = [Est 0%nat; Est 1%nat]
  /\ In 0%nat (q_closed (fold_left (fun t a => fst (qstep usurp_univ true t a)) usurp_history qinit))
  /\ get_peer_links usurp_univ (run_gen usurp_univ true (init 1) evs) 2 = [0%nat]
  /\ yielded usurp_univ true true 1 evs 1 2 = [0%nat].
Proof. vm_compute. repeat split; auto. Qed.

(* a reconnect of the same peer from the same address has the same uuid: the
   controller itself replaces the old link, whatever the transport reports *)
Theorem same_peer_usurp_consistent nc :
  let U : nat -> link := fun _ => mkLink 100 7 1 2 in
  let evs := emitted U nc qinit [Session 0%nat; Session 1%nat; Closed 0%nat] in
  get_peer_links U (run_gen U true (init 1) evs) 2 = [1%nat].
Proof. destruct nc; vm_compute; reflexivity. Qed.
