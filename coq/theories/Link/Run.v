(* Correspondence for C04/C06: run the controller LTS on the history the real
   transport controller was driven with and compare the observable tables. *)
From Bifrost Require Import Lib.Base Link.Model.

Definition univ_fn (univ : list link) : nat -> link := fun p => nth p univ (mkLink 0 0 0 0).

Definition nat_set_eqb (a b : list nat) : bool :=
  forallb (fun x => existsb (Nat.eqb x) b) a && forallb (fun x => existsb (Nat.eqb x) a) b.

(* exact set with no duplicates on the model side *)
Definition nat_set_exact (model obs : list nat) : bool :=
  nat_set_eqb model obs && Nat.eqb (length model) (length obs).

Inductive link_case :=
| Hist (univ : list link) (me : Z)
       (startup : bool)                   (* true: the transport constructor has not returned yet (Ready is in h) *)
       (early : list action)              (* HandleLinkEstablished calls made before/during construction: they
                                             block until the constructor returns and then run in some order *)
       (held : list (Z * Z))              (* directives already referenced (running) before the history *)
       (h : list action)
       (obs : list (list nat))            (* per action: directive values of a Resolve, [] otherwise *)
       (links : list (Z * nat))           (* snapshot c.links *)
       (by_peer : list (Z * list nat))    (* snapshot c.linksByPeerID *)
       (gpl : list (Z * list nat))        (* Controller.GetPeerLinks for every peer of the universe *)
       (closed : list nat)                (* links whose Close was called at least once *)
| Stream (univ : list link) (p : nat) (obs_dir_local obs_dir_remote obs_stream_peer obs_mlink_remote : Z)
| Conc (univ : list link) (me : Z) (h : list action) (links : list (Z * nat))
(* bursts: the events of one phase are issued together from parallel goroutines
   released by a barrier (incl. several reports for the SAME link object), the
   phases one after the other with quiescence in between; both tables observed *)
| Bursts (univ : list link) (me : Z) (phases : list (list action))
         (links : list (Z * nat)) (by_peer : list (Z * list nat)).

Fixpoint list_list_eqb (a b : list (list nat)) : bool :=
  match a, b with
  | [], [] => true
  | x :: a', y :: b' => nat_set_exact x y && list_list_eqb a' b'
  | _, _ => false
  end.

Definition links_eqb (model : amap nat) (obs : list (Z * nat)) : bool :=
  Nat.eqb (length model) (length obs) &&
  forallb (fun kv => option_eqb Nat.eqb (aget (fst kv) model) (Some (snd kv))) obs.

(* all interleavings: insert x at every position / permutations (small histories only) *)
Fixpoint inserts {A} (x : A) (l : list A) : list (list A) :=
  match l with
  | [] => [[x]]
  | y :: t => (x :: l) :: map (cons y) (inserts x t)
  end.
Fixpoint perms {A} (l : list A) : list (list A) :=
  match l with
  | [] => [[]]
  | x :: t => flat_map (inserts x) (perms t)
  end.

(* the lock region of an early callback runs either between the moment the
   constructor returned and the Ready region (execCtx still nil: refused and
   closed) or after the Ready region; all orders *)
Fixpoint insert_around_ready (before after h : list action) : list action :=
  match h with
  | [] => before ++ after
  | Ready :: h' => before ++ Ready :: after ++ h'
  | a :: h' => a :: insert_around_ready before after h'
  end.

Fixpoint splits {A} (l : list A) : list (list A * list A) :=
  match l with
  | [] => [([], [])]
  | x :: t => flat_map (fun p => [(x :: fst p, snd p); (fst p, x :: snd p)]) (splits t)
  end.

Definition schedules (early : list action) : list (list action * list action) :=
  flat_map (fun p => map (fun q => (fst p, q)) (perms (snd p))) (splits early).

(* every order of the lock regions inside each phase, phases in sequence *)
Fixpoint orderings (phases : list (list action)) : list (list action) :=
  match phases with
  | [] => [[]]
  | ph :: rest => flat_map (fun p => map (app p) (orderings rest)) (perms ph)
  end.

Definition link_agree (c : link_case) : bool :=
  match c with
  | Hist univ me startup early held h obs links by_peer gpl closed =>
      let U := univ_fn univ in
      let s0 := set_dirs (if startup then init0 me else init me) (map (fun k => (fst k, snd k, [])) held) in
      existsb (fun perm =>
        let h' := insert_around_ready (fst perm) (snd perm) h in
        let s := run_from U s0 h' in
        list_list_eqb (trace U s0 h') obs
        && links_eqb (st_links s) links
        && Nat.eqb (length (st_by_peer s)) (length by_peer)
        && forallb (fun e => nat_set_exact (peer_links (fst e) s) (snd e)) by_peer
        && forallb (fun e => nat_set_exact (get_peer_links U s (fst e)) (snd e)) gpl
        && nat_set_eqb (st_closed s) closed) (schedules early)
  | Stream univ p dl dr sp mr =>
      let U := univ_fn univ in
      Z.eqb (fst (incoming_directive U p)) dl && Z.eqb (snd (incoming_directive U p)) dr
      && Z.eqb (mounted_stream_peer U p) sp && Z.eqb (mounted_link_remote U p) mr
  | Conc univ me h links =>
      (* events delivered from concurrent goroutines: the final table is the
         model's table for at least one ordering of the lock regions *)
      let U := univ_fn univ in
      existsb (fun h' => links_eqb (st_links (run U me h')) links) (perms h)
  | Bursts univ me phases links by_peer =>
      let U := univ_fn univ in
      existsb (fun h' =>
        let s := run U me h' in
        links_eqb (st_links s) links
        && Nat.eqb (length (st_by_peer s)) (length by_peer)
        && forallb (fun e => nat_set_exact (peer_links (fst e) s) (snd e)) by_peer)
        (orderings phases)
  end.
