(* Invariant of the controller link tables and refinement to the live-link specification. *)
From Bifrost Require Import Lib.Base Link.Model Link.Maps.

Section Proofs.
  Variable U : nat -> link.
  Variable lb : bool.   (* does HandleLinkLost broadcast *)
  Variable rdy : bool.  (* is the transport already constructed in the initial state *)
  Definition initr (me : Z) : state := mkState me [] [] [] [] rdy.
  Notation uuid_of := (uuid_of U).
  Notation remote_of := (remote_of U).
  Notation local_of := (local_of U).
  Notation flush := (flush U).
  Notation insert := (insert U).
  Notation do_est := (do_est U).
  Notation do_lost := (do_lost U).
  Notation step := (step_gen U lb).
  Notation run_from := (run_gen U lb).
  Notation run me h := (run_gen U lb (initr me) h).
  Notation live := (live U).
  Notation live_step := (live_step U).

  Definition lget (s : state) (k : Z) : option nat := aget k (st_links s).

  (* ---- views of the two operations ---- *)
  Lemma flush_peer s p : st_peer (flush s p) = st_peer s.
  Proof. reflexivity. Qed.

  Lemma flush_lget s p k :
    lget (flush s p) k = if Z.eqb k (uuid_of p) then None else lget s k.
  Proof. unfold lget, flush. cbn [st_links]. apply aget_adel. Qed.

  Lemma flush_pl s p r :
    peer_links r (flush s p) =
    if Z.eqb r (remote_of p) then swap_remove p (peer_links r s) else peer_links r s.
  Proof.
    unfold flush, peer_links at 1. cbn [st_by_peer].
    destruct (swap_remove p (peer_links (remote_of p) s)) as [|x l] eqn:E.
    - rewrite aget_adel. destruct (Z.eqb_spec r (remote_of p)) as [->|]; [symmetry; exact E|reflexivity].
    - rewrite aget_aset. destruct (Z.eqb_spec r (remote_of p)) as [->|]; [symmetry; exact E|reflexivity].
  Qed.

  Lemma flush_closed s p : st_closed (flush s p) = p :: st_closed s.
  Proof. reflexivity. Qed.

  Lemma insert_lget s p k :
    lget (insert s p) k = if Z.eqb k (uuid_of p) then Some p else lget s k.
  Proof. unfold lget, insert. cbn [st_links]. apply aget_aset. Qed.

  Lemma insert_pl s p r :
    peer_links r (insert s p) =
    if Z.eqb r (remote_of p) then peer_links r s ++ [p] else peer_links r s.
  Proof.
    unfold insert, peer_links at 1. cbn [st_by_peer]. rewrite aget_aset.
    destruct (Z.eqb_spec r (remote_of p)) as [->|]; reflexivity.
  Qed.

  (* ---- invariant ---- *)
  Record Inv (s : state) : Prop := {
    inv_keys : NoDup (map fst (st_links s));
    inv_pkeys : NoDup (map fst (st_by_peer s));
    inv_uuid : forall k q, lget s k = Some q -> uuid_of q = k;
    inv_index : forall r q, In q (peer_links r s) <-> (lget s (uuid_of q) = Some q /\ remote_of q = r);
    inv_nodup : forall r, NoDup (peer_links r s);
    inv_noself : forall q, lget s (uuid_of q) = Some q -> remote_of q <> st_peer s
  }.

  Lemma inv_init me : Inv (initr me).
  Proof.
    constructor; unfold lget, peer_links; cbn.
    - constructor.
    - constructor.
    - discriminate.
    - intros r q. split; [tauto|intros [H _]; discriminate].
    - constructor.
    - discriminate.
  Qed.

  Lemma inv_flush s q : Inv s -> lget s (uuid_of q) = Some q -> Inv (flush s q).
  Proof.
    intros I Hq. constructor.
    - unfold flush; cbn [st_links]. apply nodup_adel, I.
    - unfold flush; cbn [st_by_peer].
      destruct (swap_remove q _); [apply nodup_adel|apply nodup_aset]; apply I.
    - intros k x. rewrite flush_lget. destruct (Z.eqb k (uuid_of q)); [discriminate|apply I].
    - intros r x. rewrite flush_pl, flush_lget.
      destruct (swap_remove_spec q (peer_links r s) (inv_nodup _ I r)) as [_ Hsr].
      destruct (Z.eqb_spec r (remote_of q)) as [->|Hr].
      + rewrite Hsr, (inv_index _ I).
        destruct (Z.eqb_spec (uuid_of x) (uuid_of q)) as [E|E].
        * split; [|intros [H _]; discriminate].
          intros [[H1 _] H2]. rewrite E, Hq in H1. congruence.
        * split; [tauto|]. intros [H1 H2]. split; [tauto|]. intros ->. congruence.
      + rewrite (inv_index _ I).
        destruct (Z.eqb_spec (uuid_of x) (uuid_of q)) as [E|E]; [|tauto].
        split; [|intros [H _]; discriminate].
        intros [H1 H2]. rewrite E, Hq in H1. congruence.
    - intros r. rewrite flush_pl. destruct (Z.eqb r (remote_of q)); [|apply I].
      apply swap_remove_spec, I.
    - intros x. rewrite flush_lget, flush_peer.
      destruct (Z.eqb (uuid_of x) (uuid_of q)); [discriminate|apply I].
  Qed.

  Lemma inv_insert s p :
    Inv s -> lget s (uuid_of p) = None -> remote_of p <> st_peer s -> Inv (insert s p).
  Proof.
    intros I Hp Hself. constructor.
    - unfold insert; cbn [st_links]. apply nodup_aset, I.
    - unfold insert; cbn [st_by_peer]. apply nodup_aset, I.
    - intros k x. rewrite insert_lget. destruct (Z.eqb_spec k (uuid_of p)) as [->|].
      + intros E; inversion E; reflexivity.
      + apply I.
    - intros r x. rewrite insert_pl, insert_lget.
      destruct (Z.eqb_spec (uuid_of x) (uuid_of p)) as [E|E].
      + assert (Hx : forall r', ~ In x (peer_links r' s)).
        { intros r' H. apply (inv_index _ I) in H as [H _]. rewrite E, Hp in H. discriminate. }
        destruct (Z.eqb_spec r (remote_of p)) as [->|Hr].
        * rewrite in_app_iff. cbn [In]. split.
          -- intros [H|[<-|[]]]; [exfalso; eapply Hx, H|tauto].
          -- intros [H _]. inversion H; subst. tauto.
        * split; [intros H; exfalso; eapply Hx, H|].
          intros [H1 H2]. inversion H1; subst. contradiction.
      + assert (Hne : x <> p) by (intros ->; contradiction).
        destruct (Z.eqb_spec r (remote_of p)) as [->|Hr].
        * rewrite in_app_iff, (inv_index _ I). cbn [In]. split; [|tauto].
          intros [H|[<-|[]]]; [exact H|contradiction].
        * apply I.
    - intros r. rewrite insert_pl. destruct (Z.eqb_spec r (remote_of p)) as [->|]; [|apply I].
      assert (Hni : ~ In p (peer_links (remote_of p) s)).
      { intros H. apply (inv_index _ I) in H as [H _]. rewrite Hp in H. discriminate. }
      pose proof (inv_nodup _ I (remote_of p)) as Hnd.
      clear -Hni Hnd. induction (peer_links (remote_of p) s) as [|a l IH]; cbn.
      + constructor; [intros []|constructor].
      + inversion Hnd; subst. constructor.
        * rewrite in_app_iff. cbn. cbn in Hni. intros [?|[?|[]]]; [contradiction|subst; tauto].
        * apply IH; [cbn in Hni; tauto|assumption].
    - intros x. rewrite insert_lget. unfold insert; cbn [st_peer].
      destruct (Z.eqb_spec (uuid_of x) (uuid_of p)) as [E|E].
      + intros H; inversion H; subst. exact Hself.
      + apply I.
  Qed.

  (* HandleLinkLost: under the invariant the slow path finds nothing the fast
     path did not find, and the pre-deletion is absorbed by the flush *)
  Lemma do_lost_eq s p :
    Inv s -> do_lost s p = if option_eqb Nat.eqb (lget s (uuid_of p)) (Some p) then flush s p else s.
  Proof.
    intros I. unfold do_lost.
    assert (Hpre : Model.flush U (mkState (st_peer s) (adel (uuid_of p) (st_links s)) (st_by_peer s) (st_closed s) (st_dirs s) (st_ready s)) p
                   = flush s p).
    { unfold Model.flush. cbn [st_peer st_links st_by_peer st_closed st_dirs st_ready]. rewrite adel_idem.
      unfold peer_links. cbn [st_by_peer]. reflexivity. }
    assert (Hslow : lget s (uuid_of p) <> Some p -> find_val p (st_links s) = None).
    { intros Hn. destruct (find_val p (st_links s)) as [k|] eqn:E; [|reflexivity].
      apply find_val_some in E; [|apply I].
      pose proof (inv_uuid _ I _ _ E) as Hk. subst k. contradiction. }
    unfold lget in *. fold (Model.uuid_of U p).
    destruct (aget (uuid_of p) (st_links s)) as [q|] eqn:Eq; cbn [option_eqb].
    - destruct (Nat.eqb_spec q p) as [->|Hn]; [exact Hpre|].
      rewrite Hslow; [reflexivity|congruence].
    - rewrite Hslow; [reflexivity|congruence].
  Qed.

  (* the table part of a step; directives are bookkeeping on top of it *)
  Definition core (s : state) (a : action) : state :=
    match a with
    | Est p => if st_ready s then do_est s p else close_only s p
    | Lost p => do_lost s p | Resolve _ _ => s | Ready => set_ready s end.

  Lemma set_dirs_eta s : set_dirs s (st_dirs s) = s.
  Proof. destruct s; reflexivity. Qed.

  Lemma dir_start_core s a b : exists d, dir_start s a b = set_dirs s d.
  Proof.
    unfold dir_start. destruct (dir_find a b (st_dirs s)).
    - exists (st_dirs s). symmetry. apply set_dirs_eta.
    - eexists. reflexivity.
  Qed.

  Lemma step_core s a : exists d, fst (step s a) = set_dirs (core s a) d.
  Proof.
    destruct a as [p|p|src dst|]; cbn [step_gen core].
    - destruct (st_ready s); cbn [negb]; [|cbn [fst]; exists (st_dirs (close_only s p)); symmetry; apply set_dirs_eta].
      destruct (est_stores U s p); cbn [fst].
      + destruct (dir_start_core (do_est s p) (Model.local_of U p) (Model.remote_of U p)) as [d ->].
        eexists. reflexivity.
      + exists (st_dirs (do_est s p)). symmetry. apply set_dirs_eta.
    - destruct (lb && lost_flushes U s p); cbn [fst].
      + eexists. reflexivity.
      + exists (st_dirs (do_lost s p)). symmetry. apply set_dirs_eta.
    - destruct (Z.eqb dst 0); cbn [fst]; [exists (st_dirs s); symmetry; apply set_dirs_eta|].
      destruct (dir_start_core s src dst) as [d ->].
      destruct (Z.eqb src 0).
      + destruct (dir_start_core (set_dirs s d) (st_peer s) dst) as [d' ->]. exists d'. reflexivity.
      + exists d. reflexivity.
    - cbn [fst]. eexists. reflexivity.
  Qed.

  Lemma core_peer s a : st_peer (core s a) = st_peer s.
  Proof.
    destruct a as [p|p|src dst|]; cbn [core]; [| |reflexivity|reflexivity].
    - destruct (st_ready s); [|reflexivity].
      unfold Model.do_est. destruct (Z.eqb _ _); [reflexivity|].
      destruct (aget _ _) as [q|]; [destruct (Nat.eqb q p)|]; reflexivity.
    - unfold Model.do_lost.
      destruct (aget _ _) as [q|]; [destruct (Nat.eqb q p)|]; try reflexivity;
        destruct (find_val _ _); reflexivity.
  Qed.

  Lemma step_peer s a : st_peer (fst (step s a)) = st_peer s.
  Proof. destruct (step_core s a) as [d ->]. apply core_peer. Qed.

  Lemma inv_set_dirs s d : Inv s -> Inv (set_dirs s d).
  Proof. intros [A B C D E F]. constructor; assumption. Qed.

  Lemma inv_close_only s p : Inv s -> Inv (close_only s p).
  Proof. intros I. destruct I. constructor; assumption. Qed.

  Lemma inv_core s a : Inv s -> Inv (core s a).
  Proof.
    intros I. destruct a as [p|p|src dst|]; cbn [core]; [| |exact I|destruct I; constructor; assumption].
    - destruct (st_ready s); [|apply inv_close_only, I].
      unfold Model.do_est. destruct (Z.eqb_spec (remote_of p) (st_peer s)) as [Hs|Hs].
      + apply inv_close_only, I.
      + fold (lget s (uuid_of p)). destruct (lget s (uuid_of p)) as [q|] eqn:Eq.
        * destruct (Nat.eqb_spec q p) as [->|Hn]; [exact I|].
          pose proof (inv_uuid _ I _ _ Eq) as Hu.
          assert (Hq : lget s (uuid_of q) = Some q) by (rewrite Hu; exact Eq).
          apply inv_insert.
          -- apply inv_flush; assumption.
          -- rewrite flush_lget, Hu, Z.eqb_refl. reflexivity.
          -- exact Hs.
        * apply inv_insert; assumption.
    - rewrite do_lost_eq by exact I.
      destruct (lget s (uuid_of p)) as [q|] eqn:Eq; cbn [option_eqb]; [|exact I].
      destruct (Nat.eqb_spec q p) as [->|]; [|exact I].
      apply inv_flush; assumption.
  Qed.

  Lemma inv_step s a : Inv s -> Inv (fst (step s a)).
  Proof. intros I. destruct (step_core s a) as [d ->]. apply inv_set_dirs, inv_core, I. Qed.

  Lemma inv_run_from s h : Inv s -> Inv (run_from s h).
  Proof.
    revert s. induction h as [|a h IH]; intros s I; [exact I|].
    apply IH, inv_step, I.
  Qed.

  Lemma inv_run me h : Inv (run me h).
  Proof. apply inv_run_from, inv_init. Qed.

  (* ---- refinement: the links table is exactly the live set ---- *)
  Definition Rel (s : state) (L : list nat) : Prop :=
    forall q, In q L <-> lget s (uuid_of q) = Some q.

  Lemma existsb_eqb p L : existsb (Nat.eqb p) L = true <-> In p L.
  Proof.
    rewrite existsb_exists. split.
    - intros [x [H E]]. apply Nat.eqb_eq in E. subst. exact H.
    - intros H. exists p. split; [exact H|apply Nat.eqb_refl].
  Qed.

  (* an establish lock region only counts when the controller is executing *)
  Definition enabled (s : state) (a : action) : Prop :=
    match a with Est _ => st_ready s = true | _ => True end.

  Lemma rel_core s L a :
    Inv s -> Rel s L -> enabled s a -> Rel (core s a) (live_step (st_peer s) L a).
  Proof.
    intros I R En. destruct a as [p|p|src dst|]; cbn [core Model.live_step]; [| |exact R|exact R].
    - cbn [enabled] in En. rewrite En. unfold Model.do_est. destruct (Z.eqb_spec (remote_of p) (st_peer s)) as [Hs|Hs]; [exact R|].
      fold (lget s (uuid_of p)).
      assert (Hins : forall s1, (forall k, lget s1 k = if Z.eqb k (uuid_of p) then None else lget s k) ->
                Rel (insert s1 p) (p :: filter (fun q => negb (Z.eqb (Model.uuid_of U q) (uuid_of p))) L)).
      { intros s1 H1 x. cbn [In]. rewrite filter_In, insert_lget, H1.
        destruct (Z.eqb_spec (uuid_of x) (uuid_of p)) as [E|E]; cbn [negb].
        - split; [intros [->|[_ H]]; [reflexivity|discriminate]|intros H; inversion H; auto].
        - rewrite (R x). split; [intros [->|[H _]]; [contradiction|exact H]|].
          intros H. right. split; [exact H|reflexivity]. }
      destruct (lget s (uuid_of p)) as [q|] eqn:Eq.
      + destruct (Nat.eqb_spec q p) as [->|Hn].
        * assert (Hin : In p L) by (apply R; exact Eq).
          apply existsb_eqb in Hin. rewrite Hin. exact R.
        * assert (Hni : existsb (Nat.eqb p) L = false).
          { destruct (existsb (Nat.eqb p) L) eqn:E; [|reflexivity].
            apply existsb_eqb, R in E. congruence. }
          rewrite Hni. apply Hins. intros k. rewrite flush_lget.
          rewrite (inv_uuid _ I _ _ Eq). reflexivity.
      + assert (Hni : existsb (Nat.eqb p) L = false).
        { destruct (existsb (Nat.eqb p) L) eqn:E; [|reflexivity].
          apply existsb_eqb, R in E. congruence. }
        rewrite Hni. apply Hins. intros k.
        destruct (Z.eqb_spec k (uuid_of p)) as [->|]; [exact Eq|reflexivity].
    - rewrite do_lost_eq by exact I. intros x. rewrite filter_In, (R x).
      destruct (lget s (uuid_of p)) as [q|] eqn:Eq; cbn [option_eqb].
      + destruct (Nat.eqb_spec q p) as [->|Hn].
        * rewrite flush_lget. destruct (Z.eqb_spec (uuid_of x) (uuid_of p)) as [E|E].
          -- split; [|discriminate]. intros [H1 H2]. rewrite E, Eq in H1. inversion H1; subst.
             rewrite Nat.eqb_refl in H2. discriminate.
          -- split; [tauto|]. intros H. split; [exact H|].
             destruct (Nat.eqb_spec x p) as [->|]; [contradiction|reflexivity].
        * split; [tauto|]. intros H. split; [exact H|].
          destruct (Nat.eqb_spec x p) as [->|]; [|reflexivity]. congruence.
      + split; [tauto|]. intros H. split; [exact H|].
        destruct (Nat.eqb_spec x p) as [->|]; [|reflexivity]. congruence.
  Qed.

  Lemma rel_step s L a :
    Inv s -> Rel s L -> enabled s a -> Rel (fst (step s a)) (live_step (st_peer s) L a).
  Proof. intros I R En. destruct (step_core s a) as [d ->]. apply (rel_core s L a I R En). Qed.

  (* histories in which no establish lock region runs before the controller
     executes (r = executing at the start) *)
  Fixpoint wf (r : bool) (h : list action) : Prop :=
    match h with
    | [] => True
    | Ready :: h' => wf true h'
    | Est _ :: h' => r = true /\ wf r h'
    | _ :: h' => wf r h'
    end.

  Lemma wf_true h : wf true h.
  Proof. induction h as [|a h IH]; [exact I|]. destruct a; cbn; auto. Qed.

  Lemma wf_app_l h : forall r h', wf r (h ++ h') -> wf r h.
  Proof.
    induction h as [|a h IH]; intros r h' H; [exact I|].
    destruct a; cbn in *; [destruct H; split; eauto|eauto|eauto|eauto].
  Qed.

  Definition ready_after (r : bool) (a : action) : bool := match a with Ready => true | _ => r end.

  Lemma core_ready s a : st_ready (core s a) = ready_after (st_ready s) a.
  Proof.
    destruct a as [p|p|? ?|]; cbn [core ready_after]; [| |reflexivity|reflexivity].
    - destruct (st_ready s) eqn:E; [|exact E].
      unfold Model.do_est. destruct (Z.eqb _ _); [exact E|].
      destruct (aget _ _) as [q|]; [destruct (Nat.eqb q p)|]; exact E.
    - unfold Model.do_lost.
      destruct (aget _ _) as [q|]; [destruct (Nat.eqb q p)|]; try reflexivity;
        destruct (find_val _ _); reflexivity.
  Qed.

  Lemma step_ready_eq s a : st_ready (fst (step s a)) = ready_after (st_ready s) a.
  Proof. destruct (step_core s a) as [d ->]. apply core_ready. Qed.

  Lemma wf_head r a h : wf r (a :: h) -> (match a with Est _ => r = true | _ => True end) /\ wf (ready_after r a) h.
  Proof. destruct a; cbn; tauto. Qed.

  Lemma rel_run_from me h : forall s L,
    Inv s -> Rel s L -> st_peer s = me -> wf (st_ready s) h ->
    Rel (run_from s h) (fold_left (live_step me) h L).
  Proof.
    induction h as [|a h IH]; intros s L I R Hme Hwf; [exact R|].
    apply wf_head in Hwf as [Hen Hwf].
    cbn [Model.run_gen fold_left].
    change (Rel (run_from (fst (step s a)) h) (fold_left (live_step me) h (live_step me L a))).
    apply IH; [apply inv_step, I| |rewrite step_peer; exact Hme|rewrite step_ready_eq; exact Hwf].
    rewrite <- Hme. apply rel_step; [assumption|assumption|].
    destruct a; cbn [enabled]; auto.
  Qed.

  Lemma rel_run me h : wf rdy h -> Rel (run me h) (live me h).
  Proof.
    intros Hwf.
    apply (rel_run_from me h (initr me) []); [apply inv_init| |reflexivity|exact Hwf].
    intros q. unfold lget; cbn. split; [tauto|discriminate].
  Qed.

  (* ---- reported links ---- *)
  Lemma get_peer_links_spec s r q :
    Inv s -> (In q (get_peer_links U s r) <-> lget s (uuid_of q) = Some q /\ remote_of q = r).
  Proof.
    intros I. unfold get_peer_links. rewrite filter_In, (in_vals _ _ (inv_keys _ I)).
    rewrite Z.eqb_eq. split.
    - intros [[k H] E]. split; [|exact E]. rewrite (inv_uuid _ I _ _ H). exact H.
    - intros [H E]. split; [eauto|exact E].
  Qed.

  (* the two reporting paths agree with each other and with the live set *)
  Theorem reported_is_live me h r q :
    wf rdy h ->
    (In q (peer_links r (run me h)) <-> In q (live me h) /\ remote_of q = r).
  Proof.
    intros Hwf. rewrite (inv_index _ (inv_run me h)), (rel_run me h Hwf q). reflexivity.
  Qed.

  Theorem get_peer_links_is_live me h r q :
    wf rdy h ->
    (In q (get_peer_links U (run me h) r) <-> In q (live me h) /\ remote_of q = r).
  Proof.
    intros Hwf. rewrite (get_peer_links_spec _ _ _ (inv_run me h)), (rel_run me h Hwf q). reflexivity.
  Qed.

  Theorem reported_nodup me h r : NoDup (peer_links r (run me h)).
  Proof. apply inv_nodup, inv_run. Qed.

  Lemma run_app me h h' : run me (h ++ h') = run_from (run me h) h'.
  Proof. unfold Model.run_gen. apply fold_left_app. Qed.

  Lemma live_app me h h' : live me (h ++ h') = fold_left (live_step me) h' (live me h).
  Proof. unfold Model.live. apply fold_left_app. Qed.

  Lemma run_from_peer h : forall s, st_peer (run_from s h) = st_peer s.
  Proof.
    induction h as [|a h IH]; intros s; [reflexivity|].
    cbn [Model.run_gen fold_left]. change (st_peer (run_from (fst (step s a)) h) = st_peer s).
    rewrite IH. apply step_peer.
  Qed.

  Lemma run_peer me h : st_peer (run me h) = me.
  Proof. apply (run_from_peer h (initr me)). Qed.

  (* ---- properties of the live specification ---- *)
  Lemma live_lost_absent me : forall h' L q,
    ~ In q L -> ~ In (Est q) h' -> ~ In q (fold_left (live_step me) h' L).
  Proof.
    induction h' as [|a h' IH]; intros L q HL Hh; [exact HL|].
    cbn [fold_left]. apply IH; [|intros H; apply Hh; right; exact H].
    destruct a as [p|p|src dst|]; cbn [Model.live_step]; [| |exact HL|exact HL].
    - destruct (Z.eqb _ me); [exact HL|].
      destruct (existsb _ L); [exact HL|].
      cbn [In]. rewrite filter_In. intros [->|[H _]]; [apply Hh; left; reflexivity|contradiction].
    - rewrite filter_In. tauto.
  Qed.

  (* a lost link is not reported again unless the transport reports it established again *)
  Theorem lost_never_reported me h h' q r :
    wf rdy (h ++ Lost q :: h') ->
    ~ In (Est q) h' -> ~ In q (peer_links r (run me (h ++ Lost q :: h'))).
  Proof.
    intros Hwf Hh H. apply (reported_is_live _ _ _ _ Hwf) in H as [H _].
    rewrite live_app in H. cbn [fold_left] in H.
    revert H. apply live_lost_absent; [|exact Hh].
    cbn [Model.live_step]. rewrite filter_In, Nat.eqb_refl. cbn. intros [_ H0]; discriminate.
  Qed.

  (* losing one link never removes another one (in particular the newer link
     that replaced it under the same uuid) *)
  Lemma wf_snoc_lost h p : wf rdy h -> wf rdy (h ++ [Lost p]).
  Proof.
    generalize rdy. induction h as [|a h IH]; intros r H; [exact I|].
    destruct a; cbn in *; [destruct H; split; auto|auto|auto|auto].
  Qed.

  Theorem lost_keeps_others me h p q r :
    wf rdy h ->
    p <> q -> In q (peer_links r (run me h)) -> In q (peer_links r (run me (h ++ [Lost p]))).
  Proof.
    intros Hwf Hne H. apply (reported_is_live _ _ _ _ Hwf) in H as [H Hr].
    apply (reported_is_live _ _ _ _ (wf_snoc_lost h p Hwf)).
    split; [|exact Hr]. rewrite live_app. cbn [fold_left Model.live_step].
    rewrite filter_In. split; [exact H|]. destruct (Nat.eqb_spec q p); [congruence|reflexivity].
  Qed.

  (* replacement: after Est q1; Est q2 (same uuid); Lost q1, the newer q2 is reported *)
  Theorem newer_survives me h q1 q2 :
    wf rdy (h ++ [Est q1; Est q2]) ->
    q1 <> q2 -> remote_of q2 <> me ->
    In q2 (peer_links (remote_of q2) (run me (h ++ [Est q1; Est q2; Lost q1]))).
  Proof.
    intros Hwf Hne Hs.
    replace (h ++ [Est q1; Est q2; Lost q1]) with ((h ++ [Est q1; Est q2]) ++ [Lost q1])
      by (rewrite <- app_assoc; reflexivity).
    apply lost_keeps_others; [exact Hwf|exact Hne|].
    apply (reported_is_live _ _ _ _ Hwf). split; [|reflexivity].
    replace (h ++ [Est q1; Est q2]) with ((h ++ [Est q1]) ++ [Est q2])
      by (rewrite <- app_assoc; reflexivity).
    rewrite live_app. cbn [fold_left Model.live_step].
    destruct (Z.eqb_spec (remote_of q2) me); [contradiction|].
    destruct (existsb (Nat.eqb q2) (live me (h ++ [Est q1]))) eqn:E.
    - apply existsb_eqb, E.
    - left; reflexivity.
  Qed.

  (* and the replaced link is no longer reported *)
  Theorem replaced_not_reported me h q1 q2 r :
    wf rdy (h ++ [Est q2]) ->
    q1 <> q2 -> uuid_of q1 = uuid_of q2 -> remote_of q2 <> me ->
    ~ In q1 (peer_links r (run me (h ++ [Est q2]))) \/ In q2 (live me h).
  Proof.
    intros Hwf Hne Hu Hs.
    destruct (existsb (Nat.eqb q2) (live me h)) eqn:E; [right; apply existsb_eqb, E|left].
    intros H. apply (reported_is_live _ _ _ _ Hwf) in H as [H _].
    rewrite live_app in H. cbn [fold_left Model.live_step] in H.
    destruct (Z.eqb_spec (remote_of q2) me); [contradiction|].
    rewrite E in H. cbn [In] in H. rewrite filter_In in H.
    destruct H as [->|[_ H]]; [congruence|].
    rewrite Hu, Z.eqb_refl in H. discriminate.
  Qed.

  (* at most one live link per identifier *)
  Theorem live_unique_uuid me h q1 q2 :
    wf rdy h ->
    In q1 (live me h) -> In q2 (live me h) -> uuid_of q1 = uuid_of q2 -> q1 = q2.
  Proof.
    intros Hwf H1 H2 E. apply (rel_run me h Hwf) in H1. apply (rel_run me h Hwf) in H2.
    rewrite E in H1. congruence.
  Qed.

  (* a duplicate report of an established link changes nothing (a self-dial is
     closed again) *)
  Lemma do_est_lget s p : remote_of p <> st_peer s -> lget (do_est s p) (uuid_of p) = Some p.
  Proof.
    intros Hs. unfold Model.do_est. destruct (Z.eqb_spec (remote_of p) (st_peer s)); [contradiction|].
    fold (lget s (uuid_of p)). destruct (lget s (uuid_of p)) as [q|] eqn:Eq.
    - destruct (Nat.eqb_spec q p) as [->|]; [exact Eq|].
      rewrite insert_lget, Z.eqb_refl. reflexivity.
    - rewrite insert_lget, Z.eqb_refl. reflexivity.
  Qed.

  Theorem dup_est_idempotent s p :
    do_est (do_est s p) p =
    if Z.eqb (remote_of p) (st_peer s) then close_only (close_only s p) p else do_est s p.
  Proof.
    destruct (Z.eqb_spec (remote_of p) (st_peer s)) as [Hs|Hs].
    - unfold Model.do_est at 2. destruct (Z.eqb_spec (remote_of p) (st_peer s)); [|contradiction].
      unfold Model.do_est. cbn [st_peer close_only].
      destruct (Z.eqb_spec (remote_of p) (st_peer s)); [reflexivity|contradiction].
    - pose proof (do_est_lget s p Hs) as H.
      assert (Hp : st_peer (do_est s p) = st_peer s).
      { unfold Model.do_est. destruct (Z.eqb _ _); [reflexivity|].
        destruct (aget _ _) as [q|]; [destruct (Nat.eqb q p)|]; reflexivity. }
      unfold Model.do_est at 1. rewrite Hp.
      destruct (Z.eqb_spec (remote_of p) (st_peer s)); [contradiction|].
      unfold lget in H. fold (Model.uuid_of U p). rewrite H, Nat.eqb_refl. reflexivity.
  Qed.

  (* ---- closing ---- *)
  (* every link ever reported established is in the table or has been closed *)
  Lemma closed_mono_step s a q : In q (st_closed s) -> In q (st_closed (fst (step s a))).
  Proof.
    intros H. destruct (step_core s a) as [d ->]. cbn [set_dirs st_closed].
    destruct a as [p|p|src dst|]; cbn [core]; [| |exact H|exact H].
    - destruct (st_ready s); [|right; exact H].
      unfold Model.do_est. destruct (Z.eqb _ _); [right; exact H|].
      destruct (aget _ _) as [x|]; [destruct (Nat.eqb x p)|]; cbn; auto.
    - unfold Model.do_lost.
      destruct (aget _ _) as [x|]; [destruct (Nat.eqb x p)|]; cbn; auto;
        destruct (find_val _ _); cbn; auto.
  Qed.

  Definition Tracked (s : state) (q : nat) : Prop :=
    lget s (uuid_of q) = Some q \/ In q (st_closed s).

  Lemma tracked_step s a q : Inv s -> Tracked s q -> Tracked (fst (step s a)) q.
  Proof.
    intros I [H|H]; [|right; apply closed_mono_step, H].
    destruct (step_core s a) as [d ->].
    change (Tracked (core s a) q).
    destruct a as [p|p|src dst|]; cbn [core]; [| |left; exact H|left; exact H].
    - destruct (st_ready s); [|left; exact H].
      unfold Model.do_est. destruct (Z.eqb _ _); [left; exact H|].
      fold (lget s (uuid_of p)). destruct (lget s (uuid_of p)) as [x|] eqn:Ex.
      + destruct (Nat.eqb_spec x p) as [->|Hn]; [left; exact H|].
        pose proof (inv_uuid _ I _ _ Ex) as Hu.
        destruct (Z.eqb_spec (uuid_of q) (uuid_of p)) as [E|E].
        * right. rewrite E, Ex in H. inversion H; subst. cbn. auto.
        * left. rewrite insert_lget, flush_lget, Hu.
          destruct (Z.eqb_spec (uuid_of q) (uuid_of p)); [contradiction|exact H].
      + left. rewrite insert_lget.
        destruct (Z.eqb_spec (uuid_of q) (uuid_of p)) as [E|E]; [|exact H].
        rewrite E, Ex in H. discriminate.
    - rewrite do_lost_eq by exact I.
      destruct (lget s (uuid_of p)) as [x|] eqn:Ex; cbn [option_eqb]; [|left; exact H].
      destruct (Nat.eqb_spec x p) as [->|]; [|left; exact H].
      destruct (Z.eqb_spec (uuid_of q) (uuid_of p)) as [E|E].
      + right. rewrite E, Ex in H. inversion H; subst. cbn. auto.
      + left. rewrite flush_lget. destruct (Z.eqb_spec (uuid_of q) (uuid_of p)); [contradiction|exact H].
  Qed.

  Lemma tracked_est s q : Inv s -> Tracked (fst (step s (Est q))) q.
  Proof.
    intros I. destruct (step_core s (Est q)) as [d ->].
    change (Tracked (core s (Est q)) q). cbn [core].
    destruct (st_ready s); [|right; cbn; auto].
    destruct (Z.eqb_spec (remote_of q) (st_peer s)) as [Hs|Hs].
    - right. unfold Model.do_est. destruct (Z.eqb_spec (remote_of q) (st_peer s)); [|contradiction].
      cbn. auto.
    - left. apply do_est_lget, Hs.
  Qed.

  Lemma tracked_run_from h : forall s q, Inv s -> Tracked s q -> Tracked (run_from s h) q.
  Proof.
    induction h as [|a h IH]; intros s q I T; [exact T|].
    apply (IH (fst (step s a))); [apply inv_step, I|apply tracked_step; assumption].
  Qed.

  Theorem established_tracked me h q : In (Est q) h -> Tracked (run me h) q.
  Proof.
    intros H. apply in_split in H as [h1 [h2 ->]].
    rewrite run_app. cbn [Model.run_gen fold_left].
    apply (tracked_run_from h2 (fst (step (run me h1) (Est q)))).
    - apply inv_step, inv_run.
    - apply tracked_est, inv_run.
  Qed.

  (* a link that was established and then reported lost has been closed *)
  Theorem lost_is_closed me h h' q :
    wf rdy (h ++ Lost q :: h') ->
    In (Est q) h -> ~ In (Est q) h' -> In q (st_closed (run me (h ++ Lost q :: h'))).
  Proof.
    intros Hwf He Hn.
    assert (T : Tracked (run me (h ++ Lost q :: h')) q).
    { apply established_tracked. apply in_or_app. left; exact He. }
    destruct T as [T|T]; [|exact T].
    exfalso. apply (rel_run me _ Hwf) in T. rewrite live_app in T. cbn [fold_left] in T.
    revert T. apply live_lost_absent; [|exact Hn].
    cbn [Model.live_step]. rewrite filter_In, Nat.eqb_refl. cbn. intros [_ H0]; discriminate.
  Qed.

  (* a closed-by-the-controller link is never in the tables: nothing reported is closed
     unless it was re-established; stated for the common case of no re-establishment *)

  (* ---- C04 ---- *)
  Theorem resolve_sound me h src dst q :
    wf rdy h ->
    In q (resolve (run me h) src dst) ->
    dst <> 0 /\ (src = 0 \/ src = me) /\ remote_of q = dst /\ remote_of q <> me /\ In q (live me h).
  Proof.
    intros Hwf. unfold resolve. rewrite run_peer.
    destruct (st_ready _); cbn [negb]; [|intros []].
    destruct (Z.eqb_spec dst 0); [intros []|].
    destruct (Z.eqb_spec src 0) as [->|Hs]; cbn [negb andb].
    - intros H. pose proof H as H'. apply (reported_is_live _ _ _ _ Hwf) in H as [H1 H2].
      apply (inv_index _ (inv_run me h)) in H' as [H3 _].
      apply (inv_noself _ (inv_run me h)) in H3. rewrite run_peer in H3. tauto.
    - destruct (Z.eqb_spec src me) as [->|]; cbn [negb]; [|intros []].
      intros H. pose proof H as H'. apply (reported_is_live _ _ _ _ Hwf) in H as [H1 H2].
      apply (inv_index _ (inv_run me h)) in H' as [H3 _].
      apply (inv_noself _ (inv_run me h)) in H3. rewrite run_peer in H3. tauto.
  Qed.

  (* live links were reported established by the transport *)
  Lemma live_established me : forall h L q,
    In q (fold_left (live_step me) h L) -> In q L \/ In (Est q) h.
  Proof.
    induction h as [|a h IH]; intros L q H; [left; exact H|].
    cbn [fold_left] in H. apply IH in H as [H|H]; [|right; right; exact H].
    destruct a as [p|p|src dst|]; cbn [Model.live_step] in H; [| |left; exact H|left; exact H].
    - destruct (Z.eqb _ me); [left; exact H|].
      destruct (existsb _ L); [left; exact H|].
      cbn [In] in H. rewrite filter_In in H. destruct H as [->|[H _]]; [right; left; reflexivity|left; exact H].
    - rewrite filter_In in H. left; tauto.
  Qed.

  (* a request for a link from src to dst only yields links between them,
     given the transport contract: links it reports have its own peer as local peer *)
  Theorem resolve_between me h src dst q :
    wf rdy h ->
    (forall p, In (Est p) h -> local_of p = me) ->
    In q (resolve (run me h) src dst) ->
    (src = 0 \/ local_of q = src) /\ remote_of q = dst /\ local_of q = me /\ remote_of q <> me.
  Proof.
    intros Hwf Hc H. apply (resolve_sound _ _ _ _ _ Hwf) in H as (_ & Hs & Hr & Hn & HL).
    apply live_established in HL as [HL|HE]; [destruct HL|].
    rewrite (Hc _ HE). destruct Hs as [-> | ->]; tauto.
  Qed.

  (* a self-dial is closed, leaves the tables unchanged and is never yielded *)
  Theorem self_dial_closed s p :
    remote_of p = st_peer s ->
    do_est s p = close_only s p.
  Proof.
    intros H. unfold Model.do_est. destruct (Z.eqb_spec (remote_of p) (st_peer s)); [reflexivity|contradiction].
  Qed.

  Theorem self_never_yielded me h src dst q :
    wf rdy h ->
    remote_of q = me -> ~ In q (resolve (run me h) src dst).
  Proof. intros Hwf H Hin. apply (resolve_sound _ _ _ _ _ Hwf) in Hin. tauto. Qed.

  Theorem self_never_reported me h r q :
    remote_of q = me -> ~ In q (get_peer_links U (run me h) r).
  Proof.
    intros H Hin. apply (get_peer_links_spec _ _ _ (inv_run me h)) in Hin as [Hin _].
    apply (inv_noself _ (inv_run me h)) in Hin. rewrite run_peer in Hin. contradiction.
  Qed.

  (* every stream mounted on a link reports that link's remote peer *)
  Theorem stream_peer_is_link_remote p :
    mounted_stream_peer U p = remote_of p /\ incoming_directive U p = (local_of p, remote_of p).
  Proof. split; reflexivity. Qed.
  (* ---- running directives (the values EstablishLinkWithPeer yields) ---- *)
  Lemma resolve_set_dirs s d a b : resolve (set_dirs s d) a b = resolve s a b.
  Proof. reflexivity. Qed.

  Lemma resolve_sound_state s a b q :
    Inv s -> In q (resolve s a b) ->
    (a = 0 \/ a = st_peer s) /\ b <> 0 /\ remote_of q = b /\ remote_of q <> st_peer s
    /\ lget s (uuid_of q) = Some q.
  Proof.
    intros I. unfold resolve.
    destruct (st_ready s); cbn [negb]; [|intros []].
    destruct (Z.eqb_spec b 0); [intros []|].
    assert (Hpl : In q (peer_links b s) ->
                  remote_of q = b /\ remote_of q <> st_peer s /\ lget s (uuid_of q) = Some q).
    { intros H. apply (inv_index _ I) in H as [H1 H2]. pose proof (inv_noself _ I _ H1). tauto. }
    destruct (Z.eqb_spec a 0) as [->|Ha]; cbn [negb andb].
    - intros H. apply Hpl in H. tauto.
    - destruct (Z.eqb_spec a (st_peer s)) as [->|]; cbn [negb]; [|intros []].
      intros H. apply Hpl in H. tauto.
  Qed.

  Lemma dir_find_in a b d v : dir_find a b d = Some v -> In (a, b, v) d.
  Proof.
    induction d as [|[[a' b'] v'] d IH]; cbn [dir_find]; [discriminate|].
    destruct (Z.eqb_spec a' a) as [->|]; cbn [andb]; [|right; auto].
    destruct (Z.eqb_spec b' b) as [->|]; [|right; auto].
    intros E; inversion E; subst. left; reflexivity.
  Qed.

  Lemma dir_start_dirs s a b x :
    In x (st_dirs (dir_start s a b)) -> In x (st_dirs s) \/ x = (a, b, resolve s a b).
  Proof.
    unfold dir_start. destruct (dir_find a b (st_dirs s)); [left; assumption|].
    cbn [set_dirs st_dirs]. rewrite in_app_iff. cbn [In]. intros [H|[H|[]]]; auto.
  Qed.

  Lemma dir_start_tables s a b : exists d, dir_start s a b = set_dirs s d.
  Proof. apply dir_start_core. Qed.

  Lemma refresh_dirs s a b v : In (a, b, v) (st_dirs (refresh s)) -> v = resolve s a b.
  Proof.
    unfold refresh. cbn [set_dirs st_dirs]. rewrite in_map_iff.
    intros [[[a' b'] v'] [E _]]. inversion E; subst. reflexivity.
  Qed.

  Lemma core_dirs s a : st_dirs (core s a) = st_dirs s.
  Proof.
    destruct a as [p|p|? ?|]; cbn [core]; [| |reflexivity|reflexivity].
    - destruct (st_ready s); [|reflexivity].
      unfold Model.do_est. destruct (Z.eqb _ _); [reflexivity|].
      destruct (aget _ _) as [q|]; [destruct (Nat.eqb q p)|]; reflexivity.
    - unfold Model.do_lost.
      destruct (aget _ _) as [q|]; [destruct (Nat.eqb q p)|]; try reflexivity;
        destruct (find_val _ _); reflexivity.
  Qed.

  Definition DirOk (me : Z) (h : list action) (a b : Z) (q : nat) : Prop :=
    (a = 0 \/ a = me) /\ b <> 0 /\ remote_of q = b /\ remote_of q <> me /\ In (Est q) h.

  Lemma run_snoc me h x : run me (h ++ [x]) = fst (step (run me h) x).
  Proof. rewrite run_app. reflexivity. Qed.

  (* a link only enters the table through its own establish lock region *)
  Lemma core_lget_sub s a k q :
    Inv s -> lget (core s a) k = Some q -> lget s k = Some q \/ a = Est q.
  Proof.
    intros I. destruct a as [p|p|? ?|]; cbn [core]; [| |auto|auto].
    - destruct (st_ready s); [|auto].
      unfold Model.do_est. destruct (Z.eqb _ _); [auto|].
      fold (lget s (uuid_of p)). destruct (lget s (uuid_of p)) as [x|] eqn:Ex.
      + destruct (Nat.eqb x p); [auto|].
        rewrite insert_lget, flush_lget. destruct (Z.eqb k (uuid_of p)).
        * intros H; inversion H; auto.
        * destruct (Z.eqb k (uuid_of x)); [discriminate|auto].
      + rewrite insert_lget. destruct (Z.eqb k (uuid_of p)); [intros H; inversion H; auto|auto].
    - rewrite do_lost_eq by exact I. destruct (option_eqb _ _ _); [|auto].
      rewrite flush_lget. destruct (Z.eqb k (uuid_of p)); [discriminate|auto].
  Qed.

  Lemma table_established me h : forall k q, lget (run me h) k = Some q -> In (Est q) h.
  Proof.
    induction h as [|x h IH] using rev_ind; intros k q H; [discriminate|].
    rewrite run_snoc in H. destruct (step_core (run me h) x) as [d E]. rewrite E in H.
    change (lget (core (run me h) x) k = Some q) in H.
    apply core_lget_sub in H; [|apply inv_run]. destruct H as [H| ->].
    - apply in_or_app. left. eapply IH, H.
    - apply in_or_app. right. left. reflexivity.
  Qed.

  Lemma lget_established me h q : lget (run me h) (uuid_of q) = Some q -> In (Est q) h.
  Proof. apply table_established. Qed.

  Lemma resolve_ok me h s' a b q :
    Inv s' -> st_peer s' = me ->
    (forall q, lget s' (uuid_of q) = Some q -> In (Est q) h) ->
    In q (resolve s' a b) -> DirOk me h a b q.
  Proof.
    intros I Hp HE H. apply resolve_sound_state in H; [|exact I].
    rewrite Hp in H. destruct H as (H1 & H2 & H3 & H4 & H5). unfold DirOk. repeat split; auto.
  Qed.

  Theorem dirs_sound me h : forall a b v q,
    In (a, b, v) (st_dirs (run me h)) -> In q v -> DirOk me h a b q.
  Proof.
    induction h as [|x h IH] using rev_ind; [intros a b v q []|].
    intros a b v q Hin Hq.
    assert (Hmono : forall a b q, DirOk me h a b q -> DirOk me (h ++ [x]) a b q).
    { unfold DirOk. intros ? ? ? (?&?&?&?&?). repeat split; auto. apply in_or_app; auto. }
    pose proof (inv_run me h) as I. pose proof (run_peer me h) as Hp.
    assert (Hnew : forall s', s' = run me (h ++ [x]) ->
                   forall d, In q (resolve (set_dirs s' d) a b) -> DirOk me (h ++ [x]) a b q).
    { intros s' -> d H. rewrite resolve_set_dirs in H.
      eapply resolve_ok; [apply inv_run|apply run_peer|apply lget_established|exact H]. }
    assert (Hcur : In q (resolve (run me h) a b) -> DirOk me (h ++ [x]) a b q).
    { intros H. apply Hmono. eapply resolve_ok; [exact I|exact Hp|apply lget_established|exact H]. }
    rewrite run_snoc in Hin. rewrite run_snoc in Hnew.
    set (s := run me h) in *.
    destruct x as [p|p|src dst|]; cbn [step_gen] in Hin, Hnew.
    - destruct (st_ready s); cbn [negb] in Hin, Hnew;
        [|cbn [fst close_only st_dirs] in Hin; apply Hmono; eapply IH; eassumption].
      destruct (est_stores U s p); cbn [fst] in Hin, Hnew.
      + pose proof (refresh_dirs _ _ _ _ Hin) as ->.
        destruct (dir_start_tables (do_est s p) (Model.local_of U p) (Model.remote_of U p)) as [d Ed].
        rewrite Ed in Hq. apply (Hnew _ eq_refl d).
        rewrite Ed. exact Hq.
      + assert (Ed : st_dirs (do_est s p) = st_dirs s).
        { unfold Model.do_est. destruct (Z.eqb _ _); [reflexivity|].
          destruct (aget _ _) as [x|]; [destruct (Nat.eqb x p)|]; reflexivity. }
        rewrite Ed in Hin. apply Hmono. eapply IH; eassumption.
    - destruct (lb && lost_flushes U s p); cbn [fst] in Hin, Hnew.
      + pose proof (refresh_dirs _ _ _ _ Hin) as ->.
        apply (Hnew _ eq_refl (st_dirs (refresh (do_lost s p)))). exact Hq.
      + change (do_lost s p) with (core s (Lost p)) in Hin. rewrite core_dirs in Hin.
        apply Hmono. eapply IH; eassumption.
    - destruct (Z.eqb dst 0); cbn [fst] in Hin; [apply Hmono; eapply IH; eassumption|].
      assert (H1 : forall s1 a' b', (forall x, In x (st_dirs s1) -> In x (st_dirs s) \/ exists a'' b'', x = (a'', b'', resolve s a'' b'')) ->
                   (exists d, s1 = set_dirs s d) ->
                   forall x, In x (st_dirs (dir_start s1 a' b')) -> In x (st_dirs s) \/ exists a'' b'', x = (a'', b'', resolve s a'' b'')).
      { intros s1 a' b' Hs1 [d ->] y Hy. apply dir_start_dirs in Hy as [Hy|Hy]; [auto|].
        right. exists a', b'. rewrite Hy. reflexivity. }
      assert (H0 : forall x, In x (st_dirs s) -> In x (st_dirs s) \/ exists a'' b'', x = (a'', b'', resolve s a'' b'')) by auto.
      assert (Hfin : In (a, b, v) (st_dirs s) \/ exists a'' b'', (a, b, v) = (a'', b'', resolve s a'' b'')).
      { destruct (Z.eqb src 0).
        - eapply (H1 (dir_start s src dst)); [|apply dir_start_tables|exact Hin].
          apply (H1 s); [exact H0|exists (st_dirs s); symmetry; apply set_dirs_eta].
        - eapply (H1 s); [exact H0|exists (st_dirs s); symmetry; apply set_dirs_eta|exact Hin]. }
      destruct Hfin as [Hold|[a'' [b'' E]]].
      + apply Hmono. eapply IH; eassumption.
      + injection E as Ea Eb Ev. rewrite Ev in Hq. rewrite <- Ea, <- Eb in Hq. apply Hcur, Hq.
    - cbn [fst] in Hin, Hnew. pose proof (refresh_dirs _ _ _ _ Hin) as ->.
      apply (Hnew _ eq_refl []). exact Hq.
  Qed.

  (* the transport, once constructed, stays constructed *)
  Lemma step_ready s a : st_ready s = true -> st_ready (fst (step s a)) = true.
  Proof. intros H. rewrite step_ready_eq, H. destruct a; reflexivity. Qed.

  Lemma run_from_ready h : forall s, st_ready s = true -> st_ready (run_from s h) = true.
  Proof.
    induction h as [|a h IH]; intros s H; [exact H|].
    cbn [Model.run_gen fold_left]. apply (IH (fst (step s a))), step_ready, H.
  Qed.

  Lemma run_ready me h : rdy = true \/ In Ready h -> st_ready (run me h) = true.
  Proof.
    intros [H|H].
    - apply run_from_ready. exact H.
    - apply in_split in H as [h1 [h2 ->]]. rewrite run_app. cbn [Model.run_gen fold_left].
      apply (run_from_ready h2 (fst (step (run me h1) Ready))). reflexivity.
  Qed.

  (* what a request yields when it is made after history h *)
  Definition yielded (me : Z) (h : list action) (src dst : Z) : list nat :=
    snd (step (run me h) (Resolve src dst)).

  Theorem yielded_sound me h src dst q :
    In q (yielded me h src dst) -> DirOk me h src dst q.
  Proof.
    unfold yielded. intros H.
    assert (D : DirOk me (h ++ [Resolve src dst]) src dst q).
    { cbn [step_gen] in H. destruct (Z.eqb dst 0) eqn:E0; [destruct H|]. cbn [snd] in H.
      match type of H with In q (match dir_find _ _ (st_dirs ?s2) with _ => _ end) =>
        destruct (dir_find src dst (st_dirs s2)) as [v|] eqn:Ef; [|destruct H];
        assert (Es : s2 = run me (h ++ [Resolve src dst])) end.
      { rewrite run_snoc. cbn [step_gen]. rewrite E0. reflexivity. }
      apply dir_find_in in Ef. rewrite Es in Ef. eapply dirs_sound; eassumption. }
    destruct D as (H1 & H2 & H3 & H4 & H5). unfold DirOk. repeat split; auto.
    apply in_app_or in H5 as [H5|[H5|[]]]; [exact H5|discriminate].
  Qed.
End Proofs.

(* ---- when HandleLinkLost broadcasts, the directives are always fresh ---- *)
Section Fresh.
  Variable U : nat -> link.
  Variable rdy : bool.
  Notation step := (step_gen U true).
  Notation run me h := (run_gen U true (initr rdy me) h).

  Definition Fresh (s : state) : Prop :=
    forall a b v, In (a, b, v) (st_dirs s) -> v = resolve s a b.

  Lemma fresh_refresh s : Fresh (refresh s).
  Proof. intros a b v H. apply refresh_dirs in H. exact H. Qed.

  Lemma fresh_dir_start s a b : Fresh s -> Fresh (dir_start s a b).
  Proof.
    intros F a' b' v H. destruct (dir_start_core s a b) as [d E].
    pose proof H as H'. apply dir_start_dirs in H' as [H'|H'].
    - rewrite E, resolve_set_dirs. apply F, H'.
    - inversion H'; subst. rewrite E, resolve_set_dirs. reflexivity.
  Qed.

  Lemma fresh_step s a : Inv U s -> Fresh s -> Fresh (fst (step s a)).
  Proof.
    intros I F. destruct a as [p|p|src dst|]; cbn [step_gen].
    - destruct (st_ready s) eqn:Er; cbn [negb];
        [|cbn [fst]; intros a b v H; rewrite (F a b v H); unfold resolve; cbn [close_only st_ready]; rewrite Er; reflexivity].
      destruct (est_stores U s p) eqn:E; cbn [fst]; [apply fresh_refresh|].
      (* nothing stored: self-dial or duplicate, linksByPeerID unchanged *)
      unfold est_stores in E. unfold Model.do_est.
      destruct (Z.eqb (Model.remote_of U p) (st_peer s)); cbn [negb andb] in E.
      + intros a b v H. apply (F a b v H).
      + destruct (aget (Model.uuid_of U p) (st_links s)) as [q|]; cbn [option_eqb] in E.
        * destruct (Nat.eqb q p); [exact F|discriminate].
        * discriminate.
    - cbn [andb]. destruct (lost_flushes U s p) eqn:E; cbn [fst]; [apply fresh_refresh|].
      (* the link was not in the table: nothing changes *)
      unfold lost_flushes in E. apply orb_false_iff in E as [E1 E2].
      unfold Model.do_lost.
      destruct (find_val p (st_links s)); [discriminate|].
      destruct (aget (Model.uuid_of U p) (st_links s)) as [q|]; cbn [option_eqb] in E1; [|exact F].
      rewrite E1. exact F.
    - destruct (Z.eqb dst 0); cbn [fst]; [exact F|].
      destruct (Z.eqb src 0); [apply fresh_dir_start|]; apply fresh_dir_start, F.
    - cbn [fst]. apply fresh_refresh.
  Qed.

  Lemma fresh_run me h : Fresh (run me h).
  Proof.
    induction h as [|x h IH] using rev_ind; [intros a b v []|].
    rewrite (run_snoc U true rdy). apply fresh_step; [apply (inv_run U true rdy)|exact IH].
  Qed.

  Lemma dir_find_start s a b :
    exists v, dir_find a b (st_dirs (dir_start s a b)) = Some v.
  Proof.
    unfold dir_start. destruct (dir_find a b (st_dirs s)) as [v|] eqn:E; [exists v; exact E|].
    cbn [set_dirs st_dirs]. exists (resolve s a b).
    induction (st_dirs s) as [|[[a' b'] v'] d IH]; cbn [dir_find app] in *.
    - rewrite !Z.eqb_refl. reflexivity.
    - destruct (Z.eqb a' a && Z.eqb b' b); [discriminate|auto].
  Qed.

  Lemma dir_find_keep s a b a' b' v :
    dir_find a b (st_dirs s) = Some v -> dir_find a b (st_dirs (dir_start s a' b')) = Some v.
  Proof.
    intros H. unfold dir_start. destruct (dir_find a' b' (st_dirs s)); [exact H|].
    cbn [set_dirs st_dirs]. revert H.
    induction (st_dirs s) as [|[[x y] w] d IH]; cbn [dir_find app]; [discriminate|].
    destruct (Z.eqb x a && Z.eqb y b); auto.
  Qed.

  (* with a broadcast after every table change, a request yields exactly the
     live links between the two peers *)
  Theorem yielded_is_live_when_lost_broadcasts me h src dst q :
    rdy = true \/ In Ready h -> wf rdy h ->
    In q (yielded U true rdy me h src dst) <->
    dst <> 0 /\ (src = 0 \/ src = me) /\ In q (live U me h) /\ Model.remote_of U q = dst.
  Proof.
    intros Hready Hwf. apply (run_ready U true rdy me h) in Hready.
    unfold yielded. cbn [step_gen].
    pose proof (run_peer U true rdy me h) as Hp.
    destruct (Z.eqb_spec dst 0) as [->|Hd]; cbn [snd]; [split; [intros []|tauto]|].
    set (s := run_gen U true (initr rdy me) h) in *.
    set (s1 := dir_start s src dst).
    set (s2 := if Z.eqb src 0 then dir_start s1 (st_peer s) dst else s1).
    assert (F2 : Fresh s2).
    { unfold s2. destruct (Z.eqb src 0); [apply fresh_dir_start|]; apply fresh_dir_start, (fresh_run me h). }
    assert (T2 : exists d, s2 = set_dirs s d).
    { unfold s2, s1. destruct (dir_start_core s src dst) as [d ->].
      destruct (Z.eqb src 0); [|eauto].
      destruct (dir_start_core (set_dirs s d) (st_peer s) dst) as [d' ->]. exists d'. reflexivity. }
    assert (E2 : exists v, dir_find src dst (st_dirs s2) = Some v).
    { unfold s2. destruct (dir_find_start s src dst) as [v Hv]. fold s1 in Hv.
      destruct (Z.eqb src 0); [|eauto]. exists v. apply dir_find_keep, Hv. }
    destruct E2 as [v Ev]. rewrite Ev.
    pose proof (F2 _ _ _ (dir_find_in _ _ _ _ Ev)) as ->.
    destruct T2 as [d T2]. rewrite T2, resolve_set_dirs. clear F2 Ev T2. subst s2 s1 s.
    unfold resolve. rewrite Hready. cbn [negb]. destruct (Z.eqb_spec dst 0); [contradiction|]. rewrite Hp.
    destruct (Z.eqb_spec src 0) as [->|Hs]; cbn [negb andb].
    - rewrite (reported_is_live U true rdy me h dst q Hwf). tauto.
    - destruct (Z.eqb_spec src me) as [->|]; cbn [negb].
      + rewrite (reported_is_live U true rdy me h dst q Hwf). tauto.
      + split; [intros []|]. intros (_ & [?|?] & _); contradiction.
  Qed.
End Fresh.

(* ---- when it does not, a lost link keeps being yielded ---- *)
Definition stale_univ : nat -> link := fun _ => mkLink 100 1 1 2.
Definition stale_history : list action := [Resolve 1 2; Est 0%nat; Lost 0%nat].

Theorem lost_link_still_yielded_without_broadcast :
  In 0%nat (yielded stale_univ false true 1 stale_history 1 2) /\
  live stale_univ 1 stale_history = [] /\
  get_peer_links stale_univ (run_gen stale_univ false (init 1) stale_history) 2 = [] /\
  In 0%nat (st_closed (run_gen stale_univ false (init 1) stale_history)).
Proof. vm_compute. repeat split; auto. Qed.

(* ---- start-up ordering: when a request arrives does not matter ---- *)
Definition is_request (a : action) : bool := match a with Resolve _ _ => true | _ => false end.

Lemma live_requests_prefix U me pre h :
  forallb is_request pre = true -> live U me (pre ++ Ready :: h) = live U me h.
Proof.
  intros Hp. unfold live. rewrite fold_left_app. cbn [fold_left live_step].
  replace (fold_left (live_step U me) pre []) with (@nil nat); [reflexivity|].
  induction pre as [|a pre IH]; [reflexivity|]. cbn [forallb] in Hp. apply andb_true_iff in Hp as [Ha Hp].
  destruct a; try discriminate. cbn [fold_left live_step]. apply IH, Hp.
Qed.

(* requests made while the transport is not yet constructed (any sources and
   targets, any number) followed by the construction and then any history h
   yield exactly what the same request yields when made after h on a
   controller whose transport was constructed first: in particular a request
   with a foreign source yields nothing, whenever it arrived *)
Theorem arrival_time_irrelevant U me pre h src dst q :
  forallb is_request pre = true ->
  (In q (yielded U true false me (pre ++ Ready :: h) src dst) <->
   In q (yielded U true true me h src dst)).
Proof.
  intros Hp.
  assert (Hwf : wf false (pre ++ Ready :: h)).
  { clear -Hp. induction pre as [|a pre IH]; [apply wf_true|].
    cbn [forallb] in Hp. apply andb_true_iff in Hp as [Ha Hp]. destruct a; try discriminate.
    cbn. apply IH, Hp. }
  rewrite (yielded_is_live_when_lost_broadcasts U false me (pre ++ Ready :: h) src dst q)
    by (first [right; apply in_or_app; right; left; reflexivity|exact Hwf]).
  rewrite (yielded_is_live_when_lost_broadcasts U true me h src dst q) by (first [left; reflexivity|apply wf_true]).
  rewrite (live_requests_prefix U me pre h Hp). reflexivity.
Qed.

(* and the directive that was started before the construction itself holds
   exactly those values afterwards (it is re-evaluated, not trusted) *)
Theorem early_directive_values U me pre h a b v q :
  In (a, b, v) (st_dirs (run_gen U true (initr false me) (pre ++ Ready :: h))) -> In q v ->
  (a = 0 \/ a = me) /\ b <> 0 /\ remote_of U q = b /\ remote_of U q <> me.
Proof.
  intros Hin Hq. destruct (dirs_sound U true false me _ _ _ _ _ Hin Hq) as (H1 & H2 & H3 & H4 & _). auto.
Qed.

(* ---- start-up: link callbacks ---- *)
(* The tables (everything but the running directives) evolve independently of
   the directives. *)
Definition teq (s s' : state) : Prop :=
  st_peer s = st_peer s' /\ st_links s = st_links s' /\ st_by_peer s = st_by_peer s' /\
  st_closed s = st_closed s' /\ st_ready s = st_ready s'.

Lemma teq_set_dirs s d : teq (set_dirs s d) s.
Proof. repeat split. Qed.

Lemma teq_trans a b c : teq a b -> teq b c -> teq a c.
Proof. unfold teq. intros (?&?&?&?&?) (?&?&?&?&?). repeat split; congruence. Qed.

Lemma teq_sym a b : teq a b -> teq b a.
Proof. unfold teq. intros (?&?&?&?&?). repeat split; congruence. Qed.

Lemma teq_core U s s' a : teq s s' -> teq (core U s a) (core U s' a).
Proof.
  destruct s as [p l b c d r], s' as [p' l' b' c' d' r']. unfold teq. cbn.
  intros (-> & -> & -> & -> & ->).
  destruct a as [q|q|? ?|]; cbn [core]; [| |repeat split|repeat split].
  - destruct r'; [|repeat split].
    unfold do_est, insert, flush, close_only, peer_links. cbn.
    destruct (Z.eqb _ p'); [repeat split|].
    destruct (aget _ l') as [x|]; [destruct (Nat.eqb x q)|]; repeat split.
  - unfold do_lost, flush, peer_links. cbn.
    destruct (aget _ l') as [x|]; [destruct (Nat.eqb x q)|]; try (repeat split; fail);
      destruct (find_val q l'); repeat split.
Qed.

Lemma teq_step U lb s s' a : teq s s' -> teq (fst (step_gen U lb s a)) (fst (step_gen U lb s' a)).
Proof.
  intros H. destruct (step_core U lb s a) as [d ->]. destruct (step_core U lb s' a) as [d' ->].
  eapply teq_trans; [apply teq_set_dirs|]. eapply teq_trans; [apply teq_core, H|].
  apply teq_sym, teq_set_dirs.
Qed.

Lemma teq_run U lb h : forall s s', teq s s' -> teq (run_gen U lb s h) (run_gen U lb s' h).
Proof.
  induction h as [|a h IH]; intros s s' H; [exact H|].
  cbn [run_gen fold_left]. apply (IH (fst (step_gen U lb s a)) (fst (step_gen U lb s' a))), teq_step, H.
Qed.

Lemma requests_only_tables U lb pre : forall s,
  forallb is_request pre = true -> teq (run_gen U lb s pre) s.
Proof.
  induction pre as [|a pre IH]; intros s Hp; [repeat split|].
  cbn [forallb] in Hp. apply andb_true_iff in Hp as [Ha Hp]. destruct a; try discriminate.
  cbn [run_gen fold_left]. eapply teq_trans; [apply IH, Hp|].
  destruct (step_core U lb s (Resolve src dst)) as [d ->]. apply teq_set_dirs.
Qed.

(* HandleLinkEstablished calls made before or while the transport is being
   constructed block until it is, so their lock regions run after Ready (in any
   order: [k] is arbitrary).  The tables, the closed links (self-dials
   included) and the readiness are then exactly those of a controller that was
   constructed first and received the same callbacks: nothing is decided
   against the not-yet-initialised controller. *)
Theorem startup_tables_irrelevant U lb me pre k :
  forallb is_request pre = true ->
  teq (run_gen U lb (init0 me) (pre ++ Ready :: k)) (run_gen U lb (init me) k).
Proof.
  intros Hp. unfold run_gen at 1. rewrite fold_left_app. cbn [fold_left].
  change (teq (run_gen U lb (fst (step_gen U lb (run_gen U lb (init0 me) pre) Ready)) k) (run_gen U lb (init me) k)).
  apply teq_run. cbn [step_gen fst].
  eapply teq_trans; [apply teq_set_dirs|].
  pose proof (requests_only_tables U lb pre (init0 me) Hp) as (H1 & H2 & H3 & H4 & _).
  unfold teq, set_ready. cbn. rewrite H1, H2, H3, H4. repeat split.
Qed.
