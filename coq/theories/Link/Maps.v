(* Lemmas about association-list maps and swap-removal used by the link-table proofs. *)
From Bifrost Require Import Lib.Base Link.Model.
From Coq Require Import Permutation.

Lemma aget_adel {V} k k' (m : amap V) :
  aget k (adel k' m) = if Z.eqb k k' then None else aget k m.
Proof.
  induction m as [|[a v] m IH]; cbn [adel aget].
  - destruct (Z.eqb k k'); reflexivity.
  - destruct (Z.eqb_spec k' a) as [->|Hn].
    + rewrite IH. destruct (Z.eqb_spec k a); reflexivity.
    + cbn [aget]. rewrite IH.
      destruct (Z.eqb_spec k a) as [->|]; [|reflexivity].
      destruct (Z.eqb_spec a k'); [congruence|reflexivity].
Qed.

Lemma aget_aset {V} k k' (v : V) (m : amap V) :
  aget k (aset k' v m) = if Z.eqb k k' then Some v else aget k m.
Proof.
  unfold aset. cbn [aget]. rewrite aget_adel. destruct (Z.eqb k k'); reflexivity.
Qed.

Lemma keys_adel {V} k k' (m : amap V) :
  In k' (map fst (adel k m)) -> In k' (map fst m) /\ k' <> k.
Proof.
  induction m as [|[a v] m IH]; cbn [adel map fst In]; [tauto|].
  destruct (Z.eqb_spec k a) as [->|Hn].
  - intros H. apply IH in H. tauto.
  - cbn [map fst In]. intros [->|H]; [split; [left; reflexivity|congruence]|].
    apply IH in H. tauto.
Qed.

Lemma nodup_adel {V} k (m : amap V) : NoDup (map fst m) -> NoDup (map fst (adel k m)).
Proof.
  induction m as [|[a v] m IH]; cbn [adel map fst]; [auto|].
  intros H. inversion H as [|? ? Hni Hnd]; subst.
  destruct (Z.eqb k a); [auto|].
  cbn [map fst]. constructor; [|auto].
  intros Hin. apply keys_adel in Hin. tauto.
Qed.

Lemma nodup_aset {V} k (v : V) (m : amap V) : NoDup (map fst m) -> NoDup (map fst (aset k v m)).
Proof.
  intros H. unfold aset. cbn [map fst]. constructor.
  - intros Hin. apply keys_adel in Hin. tauto.
  - apply nodup_adel, H.
Qed.

Lemma adel_idem {V} k (m : amap V) : adel k (adel k m) = adel k m.
Proof.
  induction m as [|[a v] m IH]; cbn [adel]; [reflexivity|].
  destruct (Z.eqb_spec k a) as [->|Hn]; [exact IH|].
  cbn [adel]. destruct (Z.eqb_spec k a); [contradiction|]. rewrite IH. reflexivity.
Qed.

Lemma aget_some_key {V} k (v : V) m : aget k m = Some v -> In k (map fst m).
Proof.
  induction m as [|[a w] m IH]; cbn [aget map fst In]; [discriminate|].
  destruct (Z.eqb_spec k a); [left; congruence|right; auto].
Qed.

Lemma aget_in {V} k (v : V) m : aget k m = Some v -> In (k, v) m.
Proof.
  induction m as [|[a w] m IH]; cbn [aget In]; [discriminate|].
  destruct (Z.eqb_spec k a) as [->|]; [intros E; inversion E; auto|auto].
Qed.

Lemma in_aget {V} k (v : V) m : NoDup (map fst m) -> In (k, v) m -> aget k m = Some v.
Proof.
  induction m as [|[a w] m IH]; cbn [aget In map fst]; [tauto|].
  intros Hnd [E|Hin].
  - inversion E; subst. rewrite Z.eqb_refl. reflexivity.
  - inversion Hnd as [|? ? Hni Hnd']; subst.
    destruct (Z.eqb_spec k a) as [->|]; [|auto].
    exfalso. apply Hni. change a with (fst (a, v)). apply in_map, Hin.
Qed.

Lemma in_vals {V} (v : V) m :
  NoDup (map fst m) -> (In v (map snd m) <-> exists k, aget k m = Some v).
Proof.
  intros Hnd. split.
  - intros H. apply in_map_iff in H as [[k w] [E Hin]]. cbn in E; subst.
    exists k. apply in_aget; auto.
  - intros [k H]. apply aget_in in H. change v with (snd (k, v)). apply in_map, H.
Qed.

Lemma find_val_some p m k :
  NoDup (map fst m) -> find_val p m = Some k -> aget k m = Some p.
Proof.
  induction m as [|[a q] m IH]; cbn [find_val aget map fst]; [discriminate|].
  intros Hnd. inversion Hnd as [|? ? Hni Hnd']; subst.
  destruct (Nat.eqb_spec q p) as [->|Hn].
  - intros E; inversion E; subst. rewrite Z.eqb_refl. reflexivity.
  - intros H. specialize (IH Hnd' H).
    destruct (Z.eqb_spec k a) as [->|]; [|exact IH].
    exfalso. apply Hni. eapply aget_some_key, IH.
Qed.

Lemma find_val_none p m k : find_val p m = None -> aget k m <> Some p.
Proof.
  induction m as [|[a q] m IH]; cbn [find_val aget]; [discriminate|].
  destruct (Nat.eqb_spec q p) as [->|Hn]; [discriminate|].
  intros H. destruct (Z.eqb k a); [congruence|auto].
Qed.

Lemma swap_remove_spec x l :
  NoDup l -> NoDup (swap_remove x l) /\ forall y, In y (swap_remove x l) <-> In y l /\ y <> x.
Proof.
  induction l as [|y0 t IH]; cbn [swap_remove]; intros Hnd.
  - split; [constructor|]. cbn. tauto.
  - inversion Hnd as [|? ? Hni Hnd']; subst.
    destruct (Nat.eqb_spec y0 x) as [->|Hn].
    + destruct t as [|t0 t'] eqn:Et.
      * split; [constructor|]. cbn. intros y. split; [tauto|]. intros [[->|[]] H]. congruence.
      * rewrite <- Et in *.
        assert (Hne : t <> []) by (rewrite Et; discriminate).
        assert (P : Permutation (last t x :: removelast t) t).
        { pose proof (app_removelast_last x Hne) as E.
          set (a := last t x) in *. set (r := removelast t) in *.
          rewrite E. apply Permutation_cons_append. }
        split.
        -- eapply Permutation_NoDup; [apply Permutation_sym, P|exact Hnd'].
        -- intros y. split.
           ++ intros H. apply (Permutation_in _ P) in H. split; [right; exact H|].
              intros ->. contradiction.
           ++ intros [[->|H] Hy]; [congruence|].
              apply (Permutation_in _ (Permutation_sym P)), H.
    + destruct (IH Hnd') as [IH1 IH2]. split.
      * constructor; [|exact IH1]. intros H. apply IH2 in H. tauto.
      * intros y. cbn [In]. rewrite IH2. split.
        -- intros [->|[H1 H2]]; [split; [left; reflexivity|exact Hn]|tauto].
        -- intros [[->|H1] H2]; [left; reflexivity|right; tauto].
Qed.

Lemma swap_remove_notin x l : ~ In x l -> swap_remove x l = l.
Proof.
  induction l as [|y t IH]; cbn [swap_remove In]; [reflexivity|].
  intros H. destruct (Nat.eqb_spec y x) as [->|]; [tauto|]. rewrite IH; tauto.
Qed.
