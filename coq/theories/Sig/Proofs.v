(* C01 / C02: the sign body is injective in (context, hash type, data); hence a
   signature verifies exactly for the key, context, hash type and data it was
   made with, and a signed message is accepted only when all of its fields and
   the verifier's context are the ones that were signed. *)
From Bifrost Require Import Lib.Base Lib.Sym Lib.SigSym gen.Sig gen.SigHash Sig.Model.

(* ---- facts about the regenerated tables, checked by computation ---- *)

Definition is_digit (c : Z) : bool := (48 <=? c) && (c <=? 57).

(* every digest is non-empty *)
Definition tbl_c1 : bool := forallb (fun p => 0 <? snd p) hash_sum_table.
(* the decimal form of every hash type consists of digits ... *)
Definition tbl_c2 : bool := forallb (fun p => forallb is_digit (itoa (fst p))) hash_sum_table.
(* ... and is different for different types *)
Definition tbl_c3 : bool :=
  forallb (fun p => forallb (fun q => (fst p =? fst q) || negb (bytes_eqb (itoa (fst p)) (itoa (fst q))))
                            hash_sum_table) hash_sum_table.
(* the separator ends with a byte that is not a digit *)
Definition tbl_c4 : bool := match rev sig_sep with c :: _ => negb (is_digit c) | [] => false end.
(* UNKNOWN has no digest function; every other validated type has one *)
Definition tbl_c5 : bool := match ht_lookup hash_unknown hash_sum_table with None => true | Some _ => false end.
Definition tbl_c6 : bool :=
  forallb (fun v => (v =? hash_unknown) || match ht_lookup v hash_sum_table with Some _ => true | None => false end)
          hash_validate_ok.
(* Validate accepts every type that has a digest function *)
Definition tbl_c7 : bool := forallb (fun p => ht_validate (fst p)) hash_sum_table.

Definition table_ok : bool := tbl_c1 && tbl_c2 && tbl_c3 && tbl_c4 && tbl_c5 && tbl_c6 && tbl_c7.

Lemma tbl_c1_ok : tbl_c1 = true. Proof. vm_compute. reflexivity. Qed.
Lemma tbl_c2_ok : tbl_c2 = true. Proof. vm_compute. reflexivity. Qed.
Lemma tbl_c3_ok : tbl_c3 = true. Proof. vm_compute. reflexivity. Qed.
Lemma tbl_c4_ok : tbl_c4 = true. Proof. vm_compute. reflexivity. Qed.
Lemma tbl_c5_ok : tbl_c5 = true. Proof. vm_compute. reflexivity. Qed.
Lemma tbl_c6_ok : tbl_c6 = true. Proof. vm_compute. reflexivity. Qed.
Lemma tbl_c7_ok : tbl_c7 = true. Proof. vm_compute. reflexivity. Qed.

Lemma table_ok_true : table_ok = true.
Proof. vm_compute. reflexivity. Qed.

Lemma ht_lookup_in ht t len : ht_lookup ht t = Some len -> In (ht, len) t.
Proof.
  induction t as [|[v l] t IH]; cbn [ht_lookup]; [discriminate|].
  destruct (Z.eqb_spec ht v) as [->|_]; intros H.
  - injection H as ->. left. reflexivity.
  - right. auto.
Qed.

Lemma tbl_len_pos ht len : ht_lookup ht hash_sum_table = Some len -> 0 < len.
Proof.
  intros H. apply ht_lookup_in in H. pose proof tbl_c1_ok as K. unfold tbl_c1 in K.
  rewrite forallb_forall in K. specialize (K _ H). cbn [snd] in K. lia.
Qed.

Lemma tbl_itoa_digits ht len : ht_lookup ht hash_sum_table = Some len ->
  forallb is_digit (itoa ht) = true.
Proof.
  intros H. apply ht_lookup_in in H. pose proof tbl_c2_ok as K. unfold tbl_c2 in K.
  rewrite forallb_forall in K. exact (K _ H).
Qed.

Lemma tbl_itoa_inj ht len ht' len' :
  ht_lookup ht hash_sum_table = Some len -> ht_lookup ht' hash_sum_table = Some len' ->
  itoa ht = itoa ht' -> ht = ht'.
Proof.
  intros H H' E. apply ht_lookup_in in H. apply ht_lookup_in in H'.
  pose proof tbl_c3_ok as K. unfold tbl_c3 in K.
  rewrite forallb_forall in K. specialize (K _ H). rewrite forallb_forall in K.
  specialize (K _ H'). cbn [fst] in K.
  apply orb_true_iff in K as [E1|E1]; [lia|].
  rewrite E, bytes_eqb_refl in E1. discriminate.
Qed.

Lemma tbl_sep_end : exists c rs, rev sig_sep = c :: rs /\ is_digit c = false.
Proof.
  pose proof tbl_c4_ok as K. unfold tbl_c4 in K.
  destruct (rev sig_sep) as [|c rs]; [discriminate|].
  exists c, rs. split; [reflexivity|]. destruct (is_digit c); [discriminate|reflexivity].
Qed.

Lemma tbl_unknown_none : ht_lookup hash_unknown hash_sum_table = None.
Proof.
  pose proof tbl_c5_ok as K. unfold tbl_c5 in K.
  destruct (ht_lookup hash_unknown hash_sum_table); [discriminate|reflexivity].
Qed.

Lemma tbl_validated_has_sum ht : ht_validate ht = true -> ht <> hash_unknown ->
  exists len, ht_lookup ht hash_sum_table = Some len.
Proof.
  intros Hv Hn. pose proof tbl_c6_ok as K. unfold tbl_c6 in K.
  unfold ht_validate in Hv. apply existsb_exists in Hv as [v [Hin Hv]]. apply Z.eqb_eq in Hv. subst v.
  rewrite forallb_forall in K. specialize (K _ Hin).
  apply orb_true_iff in K as [E|E]; [lia|].
  destruct (ht_lookup ht hash_sum_table) as [len|]; [eauto|discriminate].
Qed.

Lemma tbl_sum_validated ht len : ht_lookup ht hash_sum_table = Some len -> ht_validate ht = true.
Proof.
  intros H. apply ht_lookup_in in H. pose proof tbl_c7_ok as K. unfold tbl_c7 in K.
  rewrite forallb_forall in K. exact (K _ H).
Qed.

(* ---- list reasoning ---- *)

(* a string of digits followed by a non-digit: the split point is determined *)
Lemma split_at_nondigit : forall a b x y c c',
  forallb is_digit a = true -> forallb is_digit b = true ->
  is_digit c = false -> is_digit c' = false ->
  a ++ c :: x = b ++ c' :: y -> a = b /\ x = y.
Proof.
  induction a as [|p a IH]; intros [|q b] x y c c' Ha Hb Hc Hc' E; cbn [app forallb] in *.
  - injection E as _ E. auto.
  - injection E as E _. subst. apply andb_true_iff in Hb as [Hb _]. congruence.
  - injection E as E _. subst. apply andb_true_iff in Ha as [Ha _]. congruence.
  - injection E as E1 E2. apply andb_true_iff in Ha as [_ Ha]. apply andb_true_iff in Hb as [_ Hb].
    destruct (IH b x y c c' Ha Hb Hc Hc' E2). subst. auto.
Qed.

Lemma rev_inj {A} (a b : list A) : rev a = rev b -> a = b.
Proof. intros H. rewrite <- (rev_involutive a), H. apply rev_involutive. Qed.

Lemma forallb_rev {A} (f : A -> bool) l : forallb f (rev l) = forallb f l.
Proof.
  induction l as [|x l IH]; cbn [rev forallb]; [reflexivity|].
  rewrite forallb_app, IH. cbn [forallb]. rewrite andb_true_r. apply andb_comm.
Qed.

(* the concrete part of the sign body determines context and hash type *)
Lemma sign_prefix_inj ctx ht len ctx' ht' len' :
  ht_lookup ht hash_sum_table = Some len -> ht_lookup ht' hash_sum_table = Some len' ->
  ctx ++ sig_sep ++ itoa ht ++ sig_sep = ctx' ++ sig_sep ++ itoa ht' ++ sig_sep ->
  ctx = ctx' /\ ht = ht'.
Proof.
  intros H H' E.
  replace (ctx ++ sig_sep ++ itoa ht ++ sig_sep) with ((ctx ++ sig_sep ++ itoa ht) ++ sig_sep) in E
    by (rewrite <- !app_assoc; reflexivity).
  replace (ctx' ++ sig_sep ++ itoa ht' ++ sig_sep) with ((ctx' ++ sig_sep ++ itoa ht') ++ sig_sep) in E
    by (rewrite <- !app_assoc; reflexivity).
  apply app_inv_tail in E. apply (f_equal (@rev Z)) in E.
  rewrite !rev_app_distr in E. rewrite <- !app_assoc in E.
  destruct tbl_sep_end as [c [rs [Hs Hc]]]. rewrite Hs in E. cbn [app] in E.
  apply split_at_nondigit in E; try assumption;
    try (rewrite forallb_rev; eapply tbl_itoa_digits; eassumption).
  destruct E as [E1 E2]. apply rev_inj in E1. apply app_inv_head in E2. apply rev_inj in E2.
  split; [assumption|]. eapply tbl_itoa_inj; eassumption.
Qed.

Lemma digest_no_lead ht len data : no_lead_B (digest ht len data).
Proof. apply fout_no_lead. Qed.

(* the sign body is injective in (context, hash type, data) *)
Theorem sign_body_inj ctx ht len data ctx' ht' len' data' :
  ht_lookup ht hash_sum_table = Some len -> ht_lookup ht' hash_sum_table = Some len' ->
  sign_body ctx ht (digest ht len data) = sign_body ctx' ht' (digest ht' len' data') ->
  ctx = ctx' /\ ht = ht' /\ data = data'.
Proof.
  intros H H' E. unfold sign_body in E.
  rewrite !app_assoc in E. rewrite <- !lift_app in E.
  apply lift_app_inj in E; try apply digest_no_lead. destruct E as [Ep Ed].
  rewrite <- !app_assoc in Ep.
  destruct (sign_prefix_inj _ _ _ _ _ _ H H' Ep) as [-> ->].
  repeat split. unfold digest in Ed.
  apply fout_inj2 in Ed; [|pose proof (tbl_len_pos _ _ H); lia].
  destruct Ed as [_ [_ Ed]]. apply lift_inj. exact Ed.
Qed.

(* ---- small facts ---- *)

Lemma verify_true pk body s : verify pk body s = true <-> s = SigOf pk body.
Proof.
  destruct s as [k b| |]; cbn [verify]; try (split; [discriminate|discriminate]).
  destruct (Nat.eqb_spec k pk) as [->|Hne].
  - rewrite sbytes_eqb_spec. split; congruence.
  - split; [discriminate|]. intros E. congruence.
Qed.

Lemma hash_sum_ok ht data d : hash_sum ht data = Ok d <->
  exists len, ht_lookup ht hash_sum_table = Some len /\ d = digest ht len data.
Proof.
  unfold hash_sum. destruct (ht_lookup ht hash_sum_table) as [len|].
  - split; [intros H; injection H as <-; eauto|intros [l [E ->]]; injection E as ->; reflexivity].
  - split; [discriminate|intros [l [E _]]; discriminate].
Qed.

Lemma not_ok_err {A} (o : outcome A) : o <> Panic -> (forall x, o <> Ok x) -> exists e, o = Err e.
Proof. destruct o as [x|e|]; intros Hp Ho; [exfalso; eapply Ho; reflexivity|eauto|contradiction]. Qed.

(* ---- C02 ---- *)

(* exact characterisation of a successful verification *)
Theorem verify_with_public_true ctx pk data s :
  verify_with_public ctx pk data s = Ok true <->
  exists len, s_ht s <> hash_unknown /\ ht_validate (s_ht s) = true /\
              ht_lookup (s_ht s) hash_sum_table = Some len /\
              s_data s = SigOf pk (sign_body ctx (s_ht s) (digest (s_ht s) len data)).
Proof.
  unfold verify_with_public. destruct (Z.eqb_spec (s_ht s) hash_unknown) as [E0|N0].
  { split; [discriminate|]. intros [len [H _]]. contradiction. }
  destruct (sig_is_empty (s_data s)) eqn:Es.
  { split; [discriminate|]. intros [len [_ [_ [_ H]]]]. rewrite H in Es. discriminate. }
  destruct (ht_validate (s_ht s)) eqn:Ev; cbn [negb].
  2:{ split; [discriminate|]. intros [len [_ [H _]]]. discriminate. }
  unfold hash_sum. destruct (ht_lookup (s_ht s) hash_sum_table) as [len|] eqn:El; cbn [obind].
  - split.
    + intros H. injection H as H. apply verify_true in H. exists len. auto.
    + intros [len' [_ [_ [E H]]]]. injection E as <-. f_equal. apply verify_true. exact H.
  - split; [discriminate|]. intros [len [_ [_ [E _]]]]. discriminate.
Qed.

Lemma new_signature_ok ctx k ht data incl s :
  new_signature ctx k ht data incl = Ok s <->
  exists len, ht_lookup ht hash_sum_table = Some len /\
    s = {| s_pub := if incl then PubOf k else PubNone; s_ht := ht;
           s_data := SigOf k (sign_body ctx ht (digest ht len data)) |}.
Proof.
  unfold new_signature, hash_sum.
  destruct (ht_lookup ht hash_sum_table) as [len|] eqn:El; cbn [obind].
  - rewrite (tbl_sum_validated _ _ El). cbn [negb]. split.
    + intros H. injection H as <-. eauto.
    + intros [l [E ->]]. injection E as ->. reflexivity.
  - split; [discriminate|]. intros [l [E _]]. discriminate.
Qed.

Lemma tbl_lookup_not_unknown ht len : ht_lookup ht hash_sum_table = Some len -> ht <> hash_unknown.
Proof. intros H E. subst. rewrite tbl_unknown_none in H. discriminate. Qed.

(* the signature bytes of an honest signature verify exactly under the same
   key, context, hash type and data *)
Theorem signature_binds ctx k ht data incl s0 ctx' pk ht' data' pub' :
  new_signature ctx k ht data incl = Ok s0 ->
  (verify_with_public ctx' pk data' {| s_pub := pub'; s_ht := ht'; s_data := s_data s0 |} = Ok true
   <-> pk = k /\ ctx' = ctx /\ ht' = ht /\ data' = data).
Proof.
  intros H0. apply new_signature_ok in H0 as [len [El ->]]. cbn [s_data].
  rewrite verify_with_public_true. cbn [s_ht s_data]. split.
  - intros [len' [_ [_ [El' E]]]]. injection E as Ek Eb.
    apply sign_body_inj in Eb; try assumption. destruct Eb as [? [? ?]]. subst. auto.
  - intros [-> [-> [-> ->]]]. exists len. repeat split; auto.
    + eapply tbl_lookup_not_unknown; eauto.
    + eapply tbl_sum_validated; eauto.
Qed.

Theorem verify_with_public_rejects ctx pk data s :
  s_ht s = hash_unknown \/ ht_validate (s_ht s) = false \/ s_data s = SigEmpty ->
  exists e, verify_with_public ctx pk data s = Err e.
Proof.
  unfold verify_with_public. intros H.
  destruct (Z.eqb_spec (s_ht s) hash_unknown) as [E0|N0]; [eauto|].
  destruct (sig_is_empty (s_data s)) eqn:Es; [eauto|].
  destruct (ht_validate (s_ht s)) eqn:Ev; cbn [negb]; [|eauto].
  destruct H as [H|[H|H]]; [contradiction|discriminate|rewrite H in Es; discriminate].
Qed.

Theorem verify_with_public_forged ctx pk data s :
  (forall body, s_data s <> SigOf pk body) -> verify_with_public ctx pk data s <> Ok true.
Proof.
  intros H E. apply verify_with_public_true in E as [len [_ [_ [_ E]]]]. eapply H; eauto.
Qed.

Theorem signature_validate_ok s :
  signature_validate s = Ok tt <->
  ht_validate (s_ht s) = true /\ s_data s <> SigEmpty /\ s_pub s <> PubBad.
Proof.
  unfold signature_validate. destruct (ht_validate (s_ht s)); cbn [negb].
  2:{ split; [discriminate|]. intros [H _]. discriminate. }
  destruct (s_data s) as [k b|n|]; cbn [sig_is_empty];
    try (destruct (s_pub s); split; try discriminate; try (intros; repeat split; discriminate);
         intros [_ [_ H]]; contradiction).
  split; [discriminate|]. intros [_ [H _]]. contradiction.
Qed.

Theorem verify_with_public_total ctx pk data s : verify_with_public ctx pk data s <> Panic.
Proof.
  unfold verify_with_public, hash_sum.
  destruct (s_ht s =? hash_unknown); [discriminate|].
  destruct (sig_is_empty (s_data s)); [discriminate|].
  destruct (negb (ht_validate (s_ht s))); [discriminate|].
  destruct (ht_lookup (s_ht s) hash_sum_table); cbn [obind]; discriminate.
Qed.

Theorem new_signature_total ctx k ht data incl : new_signature ctx k ht data incl <> Panic.
Proof.
  unfold new_signature, hash_sum. destruct (ht_lookup ht hash_sum_table); cbn [obind]; [|discriminate].
  destruct (negb (ht_validate ht)); discriminate.
Qed.

Theorem signature_validate_total s : signature_validate s <> Panic.
Proof.
  unfold signature_validate. destruct (negb (ht_validate (s_ht s))); [discriminate|].
  destruct (sig_is_empty (s_data s)); [discriminate|]. destruct (s_pub s); discriminate.
Qed.

(* ---- C01 ---- *)

Theorem extract_and_verify_sound ctx m k :
  extract_and_verify ctx m = Ok k ->
  m_from m = SenderOf k /\ m_data m <> [] /\
  exists len, ht_lookup (s_ht (m_sig m)) hash_sum_table = Some len /\
    s_data (m_sig m) =
      SigOf k (sign_body ctx (s_ht (m_sig m)) (digest (s_ht (m_sig m)) len (m_data m))).
Proof.
  unfold extract_and_verify.
  destruct (m_data m) as [|b0 body] eqn:Ed; cbn [is_nil]; [discriminate|].
  destruct (m_from m) as [k0| | |] eqn:Ef; try discriminate;
    destruct (signature_validate (m_sig m)) as [[]|e|]; cbn [obind]; try discriminate;
    unfold extract_pub_key; rewrite Ef; cbn [obind]; try discriminate.
  unfold msg_verify. rewrite Ed.
  destruct (verify_with_public ctx k0 (b0 :: body) (m_sig m)) as [[|]|e|] eqn:Ev; cbn [obind]; try discriminate.
  intros H. injection H as <-.
  apply verify_with_public_true in Ev as [len [_ [_ [El Es]]]].
  repeat split; [discriminate|]. exists len. auto.
Qed.

Theorem extract_and_verify_total ctx m : extract_and_verify ctx m <> Panic.
Proof.
  unfold extract_and_verify, extract_pub_key, msg_verify.
  destruct (is_nil (m_data m)); [discriminate|].
  pose proof (signature_validate_total (m_sig m)) as Hv.
  destruct (m_from m) as [k0| | |]; try discriminate;
    destruct (signature_validate (m_sig m)) as [[]|e|]; cbn [obind]; try discriminate;
    try congruence.
  pose proof (verify_with_public_total ctx k0 (m_data m) (m_sig m)) as Ht.
  destruct (verify_with_public ctx k0 (m_data m) (m_sig m)) as [[|]|e|]; cbn [obind]; try discriminate.
  congruence.
Qed.

Lemma new_signed_msg_ok ctx k ht data m :
  new_signed_msg ctx k ht data = Ok m <->
  data <> [] /\ exists len, ht_lookup ht hash_sum_table = Some len /\
    m = {| m_from := SenderOf k;
           m_sig := {| s_pub := PubNone; s_ht := ht;
                       s_data := SigOf k (sign_body ctx ht (digest ht len data)) |};
           m_data := data |}.
Proof.
  unfold new_signed_msg. destruct data as [|b0 body]; cbn [is_nil].
  { split; [discriminate|]. intros [H _]. contradiction. }
  destruct (new_signature ctx k ht (b0 :: body) false) as [s|e|] eqn:En; cbn [obind].
  - apply new_signature_ok in En as [len [El ->]]. split.
    + intros H. injection H as <-. split; [discriminate|]. eauto.
    + intros [_ [len' [El' ->]]]. rewrite El in El'. injection El' as <-. reflexivity.
  - split; [discriminate|]. intros [_ [len [El _]]].
    assert (X : new_signature ctx k ht (b0 :: body) false =
                Ok {| s_pub := PubNone; s_ht := ht;
                      s_data := SigOf k (sign_body ctx ht (digest ht len (b0 :: body))) |})
      by (apply new_signature_ok; eauto).
    congruence.
  - exfalso. eapply new_signature_total; eauto.
Qed.

(* an honest message is accepted, and the key returned is the signer's *)
Theorem honest_accepted ctx k ht data m :
  new_signed_msg ctx k ht data = Ok m -> extract_and_verify ctx m = Ok k.
Proof.
  intros H. apply new_signed_msg_ok in H as [Hd [len [El ->]]].
  unfold extract_and_verify. cbn [m_data m_from m_sig].
  destruct data as [|b0 body]; [contradiction|]. cbn [is_nil].
  assert (Hv : ht_validate ht = true) by (eapply tbl_sum_validated; eauto).
  unfold signature_validate. cbn [s_ht s_data s_pub sig_is_empty]. rewrite Hv. cbn [negb obind].
  cbn [extract_pub_key m_from obind]. unfold msg_verify. cbn [m_data m_sig].
  assert (E : verify_with_public ctx k (b0 :: body)
                {| s_pub := PubNone; s_ht := ht;
                   s_data := SigOf k (sign_body ctx ht (digest ht len (b0 :: body))) |} = Ok true).
  { apply verify_with_public_true. exists len. cbn [s_ht s_data]. repeat split; auto.
    eapply tbl_lookup_not_unknown; eauto. }
  rewrite E. reflexivity.
Qed.

(* closure under every combination of changes: whoever presents the signature
   bytes of an honest message is accepted only with exactly the signed body,
   the signer as sender, the signed hash type and the signing context *)
Theorem tamper_closure ctx k ht data m ctx' m' k' :
  new_signed_msg ctx k ht data = Ok m ->
  s_data (m_sig m') = s_data (m_sig m) ->
  extract_and_verify ctx' m' = Ok k' ->
  ctx' = ctx /\ m_from m' = SenderOf k /\ k' = k /\ m_data m' = data /\ s_ht (m_sig m') = ht.
Proof.
  intros H Hs Ha. apply new_signed_msg_ok in H as [Hd [len [El ->]]]. cbn [m_sig s_data] in Hs.
  apply extract_and_verify_sound in Ha as [Hf [_ [len' [El' Es]]]].
  rewrite Hs in Es. injection Es as Ek Eb.
  apply sign_body_inj in Eb; try assumption. destruct Eb as [? [? ?]]. subst. auto.
Qed.

Theorem tamper_rejected ctx k ht data m ctx' m' :
  new_signed_msg ctx k ht data = Ok m ->
  s_data (m_sig m') = s_data (m_sig m) ->
  (ctx', m_from m', m_data m', s_ht (m_sig m')) <> (ctx, SenderOf k, data, ht) ->
  exists e, extract_and_verify ctx' m' = Err e.
Proof.
  intros H Hs Hne. apply not_ok_err; [apply extract_and_verify_total|].
  intros k' Ha. destruct (tamper_closure _ _ _ _ _ _ _ _ H Hs Ha) as [? [? [? [? ?]]]].
  apply Hne. congruence.
Qed.

(* signature bytes that no key produced (garbage, truncated, extended, flipped, empty) *)
Theorem forged_rejected ctx m :
  (forall k body, s_data (m_sig m) <> SigOf k body) -> exists e, extract_and_verify ctx m = Err e.
Proof.
  intros H. apply not_ok_err; [apply extract_and_verify_total|].
  intros k Ha. apply extract_and_verify_sound in Ha as [_ [_ [len [_ Es]]]]. eapply H; eauto.
Qed.

(* signature transplanted from a different honest message *)
Theorem transplant_rejected ctx k ht data m ctx2 k2 ht2 data2 m2 pub :
  new_signed_msg ctx k ht data = Ok m ->
  new_signed_msg ctx2 k2 ht2 data2 = Ok m2 ->
  (ctx2, k2, ht2, data2) <> (ctx, k, ht, data) ->
  exists e, extract_and_verify ctx
    {| m_from := m_from m;
       m_sig := {| s_pub := pub; s_ht := s_ht (m_sig m); s_data := s_data (m_sig m2) |};
       m_data := m_data m |} = Err e.
Proof.
  intros H H2 Hne. apply not_ok_err; [apply extract_and_verify_total|].
  intros k' Ha.
  eapply tamper_closure in Ha; [|exact H2|reflexivity].
  destruct Ha as [E1 [E2 [E3 [E4 E5]]]].
  cbn [m_from m_data m_sig s_ht] in *.
  apply new_signed_msg_ok in H as [_ [len [_ ->]]]. cbn [m_from m_data m_sig s_ht] in *.
  apply Hne. injection E2 as E2. congruence.
Qed.
