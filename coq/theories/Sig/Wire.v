(* UnmarshalSignedMsg followed by ExtractAndVerify, on raw wire bytes.
   The generated UnmarshalVT is the generic wire decoder Lib/Proto.v at the
   descriptor of peer.SignedMsg regenerated from peer/peer.proto (gen/Descs.v);
   this file turns the decoded value tree into the symbolic message of
   Sig/Model.v.  Definitions only. *)
From Bifrost Require Import Lib.Base Lib.Sym Lib.Varint Lib.Proto gen.Descs Sig.Model.

(* field numbers of peer.SignedMsg / peer.Signature (peer/peer.proto); the
   kinds the descriptor gives them are checked in Sig/WireProofs.v, so a schema
   change breaks that lemma instead of silently changing the meaning *)
Definition F_FROM : Z := 1.
Definition F_SIGNATURE : Z := 2.
Definition F_DATA : Z := 3.
Definition F_PUBKEY : Z := 1.
Definition F_HASHTYPE : Z := 2.
Definition F_SIGDATA : Z := 3.

Definition schema_ok : bool :=
  match find_field d_peer_SignedMsg F_FROM, find_field d_peer_SignedMsg F_SIGNATURE,
        find_field d_peer_SignedMsg F_DATA with
  | Some (LSingle, KBytes), Some (LSingle, KMsg ds), Some (LSingle, KBytes) =>
      match find_field ds F_PUBKEY, find_field ds F_HASHTYPE, find_field ds F_SIGDATA with
      | Some (LSingle, KBytes), Some (LSingle, KScalar SInt32), Some (LSingle, KBytes) =>
          (length d_peer_SignedMsg =? 3)%nat && (length ds =? 3)%nat
      | _, _, _ => false
      end
  | _, _, _ => false
  end.

(* the concrete fields of the decoded Go struct: singular scalar / bytes fields
   are last-one-wins, the singular message field merges *)
Record wire_fields := { w_from : bytes; w_pub : bytes; w_ht : Z; w_sig : bytes; w_data : bytes }.

Definition fields_of (t : list fval) : wire_fields :=
  let st := match merged_msg F_SIGNATURE t with Some s => s | None => [] end in
  {| w_from := last_bytes F_FROM t [];
     w_pub := last_bytes F_PUBKEY st [];
     w_ht := last_var F_HASHTYPE st 0;
     w_sig := last_bytes F_SIGDATA st [];
     w_data := last_bytes F_DATA t [] |}.

(* symbolic reading of concrete field values (which key a sender string embeds,
   which Sign call produced these signature bytes, whether a pub_key parses):
   data of the case, as in Sig/Model.v.  Whether a field is EMPTY is decided
   here from the decoded bytes, not by the reading. *)
Record reading := { r_sender : bytes -> sender; r_pub : bytes -> pubfield; r_sig : bytes -> sigv }.

Definition smsg_of (R : reading) (w : wire_fields) : smsg :=
  {| m_from := if is_nil (w_from w) then SenderEmpty else r_sender R (w_from w);
     m_sig := {| s_pub := if is_nil (w_pub w) then PubNone else r_pub R (w_pub w);
                 s_ht := w_ht w;
                 s_data := if is_nil (w_sig w) then SigEmpty else r_sig R (w_sig w) |};
     m_data := w_data w |}.

(* UnmarshalSignedMsg: every decoder error is one class here *)
Definition unmarshal_signed_msg (wire : bytes) : outcome wire_fields :=
  match decode d_peer_SignedMsg wire with
  | Ok t => Ok (fields_of t)
  | Err _ => Err E_DECODE
  | Panic => Panic
  end.

Definition decode_and_verify_wire (R : reading) (ctx wire : bytes) : outcome nat :=
  w <- unmarshal_signed_msg wire ;;
  extract_and_verify ctx (smsg_of R w).
