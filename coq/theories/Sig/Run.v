(* Correspondence for C01 / C02 (peer/signed-msg.go, peer/signature.go). *)
From Bifrost Require Export Lib.Base Lib.Sym Lib.SigSym gen.Sig gen.SigHash Sig.Model.
From Bifrost Require Export Lib.Proto gen.Descs Sig.Wire Lib.SigPatt.

(* how the harness names signature bytes: the bytes NewSignature returned for
   (key, context, hash type, data), other non-empty bytes (numbered), or none *)
Inductive sigt :=
| SigReal (k : nat) (ctx : bytes) (ht : Z) (data : bytes)
| SigJunk (n : nat)
| SigNone.

Definition eval_sig (s : sigt) : sigv :=
  match s with
  | SigReal k ctx ht data =>
      match new_signature ctx k ht data false with
      | Ok sg => s_data sg
      | _ => SigGarbage 0
      end
  | SigJunk n => SigGarbage (S n)
  | SigNone => SigEmpty
  end.

Definition mk_sigobj (pub : pubfield) (ht : Z) (s : sigt) : signature :=
  {| s_pub := pub; s_ht := ht; s_data := eval_sig s |}.

Definition mk_msg (from : sender) (pub : pubfield) (ht : Z) (s : sigt) (data : bytes) : smsg :=
  {| m_from := from; m_sig := mk_sigobj pub ht s; m_data := data |}.

(* class of a result: 0 ok, error class, 99 panic; and the key returned on ok *)
Definition res_cls {A} (o : outcome A) : nat :=
  match o with Ok _ => 0%nat | Err e => e | Panic => 99%nat end.
Definition res_key (o : outcome nat) : nat := match o with Ok k => k | _ => 0%nat end.

Inductive c01_case :=
(* ExtractAndVerify(ctx) on a message built field by field *)
| Msg (ctx : bytes) (from : sender) (pub : pubfield) (ht : Z) (s : sigt) (data : bytes)
      (obs_cls obs_key : nat)
(* UnmarshalSignedMsg(wire) then ExtractAndVerify(ctx) on raw (mutated, random)
   wire bytes.  from / pub / s are the symbolic readings of the non-empty
   decoded from_peer_id / pub_key / sig_data values; dec = the concrete fields of
   the Go struct when the real decoder succeeded (from, pub_key, hash_type,
   sig_data, data), None when it returned an error *)
| WireRaw (wire ctx : bytes) (from : sender) (pub : pubfield) (s : sigt)
          (obs_cls obs_key : nat) (dec : option (bytes * bytes * Z * bytes * bytes))
(* NewSignedMsg(ctx, k, ht, data) *)
| SignMsg (ctx : bytes) (k : nat) (ht : Z) (data : bytes) (obs_cls : nat).

Definition c01_agree (c : c01_case) : bool :=
  match c with
  | Msg ctx from pub ht s data oc ok =>
      let r := extract_and_verify ctx (mk_msg from pub ht s data) in
      Nat.eqb (res_cls r) oc && Nat.eqb (res_key r) ok
  | WireRaw wire ctx from pub sg oc ok dec =>
      let R := {| r_sender := fun _ => from; r_pub := fun _ => pub; r_sig := fun _ => eval_sig sg |} in
      let r := decode_and_verify_wire R ctx wire in
      Nat.eqb (res_cls r) oc && Nat.eqb (res_key r) ok &&
      match unmarshal_signed_msg wire, dec with
      | Ok w, Some (f, p, h, sd, d) =>
          bytes_eqb (w_from w) f && bytes_eqb (w_pub w) p && (w_ht w =? h) &&
          bytes_eqb (w_sig w) sd && bytes_eqb (w_data w) d
      | Err _, None => true
      | _, _ => false
      end
  | SignMsg ctx k ht data oc =>
      Nat.eqb (res_cls (new_signed_msg ctx k ht data)) oc
  end.

Inductive c02_case :=
(* VerifyWithPublic(ctx, pk, data): 0 = (false, nil), 1 = (true, nil), 2 = error, 99 = panic *)
| VerifyPub (ctx : bytes) (pk : nat) (data : bytes) (pub : pubfield) (ht : Z) (s : sigt) (obs : nat)
(* Signature.Validate: 0 ok, error class, 99 panic *)
| Validate (pub : pubfield) (ht : Z) (s : sigt) (obs : nat)
(* NewSignature: 0 ok (hash type and pub_key field as requested), error class, 99 panic *)
| NewSig (ctx : bytes) (k : nat) (ht : Z) (data : bytes) (incl : bool) (obs : nat).

Definition verify_cls (o : outcome bool) : nat :=
  match o with Ok false => 0 | Ok true => 1 | Err _ => 2 | Panic => 99 end%nat.

Definition c02_agree (c : c02_case) : bool :=
  match c with
  | VerifyPub ctx pk data pub ht s obs =>
      Nat.eqb (verify_cls (verify_with_public ctx pk data (mk_sigobj pub ht s))) obs
  | Validate pub ht s obs =>
      Nat.eqb (res_cls (signature_validate (mk_sigobj pub ht s))) obs
  | NewSig ctx k ht data incl obs =>
      Nat.eqb (res_cls (new_signature ctx k ht data incl)) obs
  end.
