From Bifrost Require Import Lib.Base Lib.Sym Lib.Varint Lib.Proto Lib.ProtoProofs gen.Descs
  Sig.Model Sig.Proofs Sig.Wire.

Lemma schema_ok_true : schema_ok = true.
Proof. vm_compute. reflexivity. Qed.

Theorem unmarshal_signed_msg_total wire : len wire < two63 -> unmarshal_signed_msg wire <> Panic.
Proof.
  intros H. unfold unmarshal_signed_msg.
  pose proof (decode_no_panic d_peer_SignedMsg wire H) as D.
  destruct (decode d_peer_SignedMsg wire); try discriminate. congruence.
Qed.

(* unconditional: decoding arbitrary bytes and verifying never panics *)
Theorem decode_and_verify_wire_total R ctx wire :
  len wire < two63 -> decode_and_verify_wire R ctx wire <> Panic.
Proof.
  intros H. unfold decode_and_verify_wire.
  pose proof (unmarshal_signed_msg_total wire H) as D.
  destruct (unmarshal_signed_msg wire) as [w|e|]; cbn [obind]; try discriminate; try congruence.
  apply extract_and_verify_total.
Qed.

(* and acceptance of wire bytes is acceptance of the decoded message: soundness carries over *)
Theorem decode_and_verify_wire_sound R ctx wire k :
  decode_and_verify_wire R ctx wire = Ok k ->
  exists w, unmarshal_signed_msg wire = Ok w /\ extract_and_verify ctx (smsg_of R w) = Ok k.
Proof.
  unfold decode_and_verify_wire. destruct (unmarshal_signed_msg wire) as [w|e|]; cbn [obind]; try discriminate.
  eauto.
Qed.
