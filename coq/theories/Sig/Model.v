(* Models of peer/signature.go (NewSignature, Signature.Validate,
   Signature.VerifyWithPublic) and peer/signed-msg.go (Sign, Verify,
   ExtractPubKey, ExtractAndVerify) as they are now in /repo.  No proofs here.

   Keys are atoms (nat).  A signature value is either the signature made with
   key k over a symbolic body, or bytes that are no signature of anything
   (garbage, empty): unforgeability is the freeness of SigOf.  Digests are the
   outputs of one free function per hash type (Lib/Sym.v). *)
From Bifrost Require Import Lib.Base Lib.Sym Lib.SigSym gen.Sig gen.SigHash.

(* error classes *)
Definition E_EMPTYBODY : nat := 1%nat.    (* ErrEmptyBody *)
Definition E_EMPTYPEER : nat := 2%nat.    (* ErrEmptyPeerID *)
Definition E_HASHTYPE : nat := 3%nat.     (* HashType.Validate / HashType.Sum: unknown type *)
Definition E_SIGEMPTY : nat := 4%nat.     (* Signature.Validate: no signature bytes (ErrSignatureInvalid) *)
Definition E_PUBFIELD : nat := 5%nat.     (* Signature.Validate: pub_key field does not parse *)
Definition E_SENDER_ID : nat := 6%nat.    (* from_peer_id is not a peer ID *)
Definition E_SENDER_KEY : nat := 7%nat.   (* peer ID parses, embedded key does not *)
Definition E_HASHMISSING : nat := 8%nat.  (* VerifyWithPublic: hash type UNKNOWN *)
Definition E_SIGINVALID : nat := 9%nat.   (* Verify: signature does not verify (ErrSignatureInvalid) *)
Definition E_SIGEMPTY_V : nat := 10%nat.  (* VerifyWithPublic: signature empty *)
Definition E_DECODE : nat := 11%nat.      (* UnmarshalSignedMsg failed *)

(* ---- hash ---- *)

Definition ht_validate (ht : Z) : bool := existsb (Z.eqb ht) hash_validate_ok.

Fixpoint ht_lookup (ht : Z) (t : list (Z * Z)) : option Z :=
  match t with
  | [] => None
  | (v, len) :: t' => if ht =? v then Some len else ht_lookup ht t'
  end.

(* one free function per hash type, digest length from the table *)
Definition digest (ht len : Z) (data : bytes) : sbytes :=
  fout (Z.to_nat ht) (Z.to_nat len) (lift data).

(* hash.Sum(ht, data) *)
Definition hash_sum (ht : Z) (data : bytes) : outcome sbytes :=
  match ht_lookup ht hash_sum_table with
  | Some len => Ok (digest ht len data)
  | None => Err E_HASHTYPE
  end.

(* ---- strconv.Itoa ---- *)

Fixpoint digits (fuel : nat) (v : Z) (acc : bytes) : bytes :=
  match fuel with
  | O => acc
  | S f => let acc' := (48 + v mod 10) :: acc in
           if v <? 10 then acc' else digits f (v / 10) acc'
  end.

Definition itoa (v : Z) : bytes :=
  if v <? 0 then 45 :: digits 20 (- v) [] else digits 20 v [].

(* bytes.Join([ctx, itoa(ht), digest], sep) *)
Definition sign_body (ctx : bytes) (ht : Z) (d : sbytes) : sbytes :=
  lift ctx ++ lift sig_sep ++ lift (itoa ht) ++ lift sig_sep ++ d.

(* ---- signatures ---- *)

Inductive sigv :=
| SigOf (k : nat) (body : sbytes)   (* privKey_k.Sign(body) *)
| SigGarbage (n : nat)              (* non-empty bytes that are no signature *)
| SigEmpty.

Definition sig_is_empty (s : sigv) : bool := match s with SigEmpty => true | _ => false end.

(* pubKey_pk.Verify(body, sig) *)
Definition verify (pk : nat) (body : sbytes) (s : sigv) : bool :=
  match s with
  | SigOf k b => if Nat.eqb k pk then sbytes_eqb b body else false
  | _ => false
  end.

(* the pub_key field of a Signature object *)
Inductive pubfield :=
| PubNone
| PubOf (k : nat)
| PubBad.

Record signature := { s_pub : pubfield; s_ht : Z; s_data : sigv }.

(* a nil *Signature reads as the zero value *)
Definition sig_nil : signature := {| s_pub := PubNone; s_ht := 0; s_data := SigEmpty |}.

(* NewSignature -> NewSignatureWithHashedData *)
Definition new_signature (ctx : bytes) (k : nat) (ht : Z) (data : bytes) (incl : bool) : outcome signature :=
  d <- hash_sum ht data ;;
  if negb (ht_validate ht) then Err E_HASHTYPE
  else Ok {| s_pub := if incl then PubOf k else PubNone;
             s_ht := ht;
             s_data := SigOf k (sign_body ctx ht d) |}.

(* Signature.Validate *)
Definition signature_validate (s : signature) : outcome unit :=
  if negb (ht_validate (s_ht s)) then Err E_HASHTYPE
  else if sig_is_empty (s_data s) then Err E_SIGEMPTY
  else match s_pub s with
       | PubBad => Err E_PUBFIELD
       | _ => Ok tt
       end.

(* Signature.VerifyWithPublic: (ok, err) *)
Definition verify_with_public (ctx : bytes) (pk : nat) (data : bytes) (s : signature) : outcome bool :=
  let ht := s_ht s in
  if ht =? hash_unknown then Err E_HASHMISSING
  else if sig_is_empty (s_data s) then Err E_SIGEMPTY_V
  else if negb (ht_validate ht) then Err E_HASHTYPE
  else
    d <- hash_sum ht data ;;
    Ok (verify pk (sign_body ctx ht d) (s_data s)).

(* ---- signed messages ---- *)

(* what the from_peer_id field is: the ID codec itself is property C10 *)
Inductive sender :=
| SenderOf (k : nat)   (* a peer ID embedding the public key of k *)
| SenderBadID          (* does not decode to a peer ID *)
| SenderBadKey         (* a peer ID whose embedded key does not parse, or is not canonically encoded *)
| SenderEmpty.

Record smsg := { m_from : sender; m_sig : signature; m_data : bytes }.

(* SignedMsg.Verify *)
Definition msg_verify (ctx : bytes) (pk : nat) (m : smsg) : outcome unit :=
  ok <- verify_with_public ctx pk (m_data m) (m_sig m) ;;
  if ok then Ok tt else Err E_SIGINVALID.

(* SignedMsg.ExtractPubKey *)
Definition extract_pub_key (m : smsg) : outcome nat :=
  match m_from m with
  | SenderOf k => Ok k
  | SenderBadKey => Err E_SENDER_KEY
  | SenderBadID | SenderEmpty => Err E_SENDER_ID
  end.

Definition is_nil {A} (l : list A) : bool := match l with [] => true | _ => false end.

(* SignedMsg.ExtractAndVerify; the result is the key extracted from the sender ID *)
Definition extract_and_verify (ctx : bytes) (m : smsg) : outcome nat :=
  if is_nil (m_data m) then Err E_EMPTYBODY
  else match m_from m with
       | SenderEmpty => Err E_EMPTYPEER
       | _ =>
           _ <- signature_validate (m_sig m) ;;
           k <- extract_pub_key m ;;
           (* sigErr := m.Verify(...); if sigErr != nil { return ..., sigErr } *)
           _ <- msg_verify ctx k m ;;
           Ok k
       end.

(* SignedMsg.Sign / NewSignedMsg *)
Definition new_signed_msg (ctx : bytes) (k : nat) (ht : Z) (data : bytes) : outcome smsg :=
  if is_nil data then Err E_EMPTYBODY
  else
    s <- new_signature ctx k ht data false ;;
    Ok {| m_from := SenderOf k; m_sig := s; m_data := data |}.

(* UnmarshalSignedMsg followed by ExtractAndVerify on raw wire bytes: Sig/Wire.v *)

Definition verify_cls_ok (o : outcome bool) : bool := match o with Ok true => true | _ => false end.
