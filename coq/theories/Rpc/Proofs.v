(* C35 proofs. *)
From Bifrost Require Import Lib.Base Lib.StrOps gen.Rpc Rpc.Model.

Definition re_holds (r : re_opt) (s : bytes) : bool := match r with Some f => f s | None => false end.
Definition re_allows (r : re_opt) (s : bytes) : bool := match r with Some f => f s | None => true end.
Definition any_prefix (s : bytes) (P : list bytes) : bool := existsb (has_prefix s) P.

Lemma first_match_bool {A} (f : A -> bool) l :
  (match first_match f l with Some _ => true | None => false end) = existsb f l.
Proof. induction l as [|x l IH]; cbn; [reflexivity|]. destruct (f x); cbn; auto. Qed.

Lemma any_prefix_spec s P : any_prefix s P = true <-> exists p, In p P /\ exists r, s = p ++ r.
Proof.
  unfold any_prefix. rewrite existsb_exists. split; intros [p [H1 H2]]; exists p; split; auto;
    apply has_prefix_spec; exact H2.
Qed.

(* boolean normal form of the filter chain *)
Lemma rpc_service_matches_nf P re L sre svc srv :
  rpc_service_matches P re L sre svc srv =
  ((negb (nonempty P) && negb (re_configured re) && negb (nonempty L))
   || any_prefix svc P || re_holds re svc || mem svc L) && re_allows sre srv.
Proof.
  unfold rpc_service_matches, any_prefix. rewrite <- first_match_bool.
  destruct P as [|p0 P']; cbn [nonempty negb andb orb];
    destruct re as [f|]; cbn [re_configured re_holds negb andb orb];
    destruct L as [|l0 L']; cbn [nonempty negb andb orb];
    try destruct (first_match (has_prefix svc) (p0 :: P')); cbn [negb andb orb];
    try destruct (f svc); cbn [negb andb orb];
    try destruct (mem svc (l0 :: L')); cbn [negb andb orb];
    destruct sre as [g|]; cbn [re_allows]; try destruct (g srv); try reflexivity.
Qed.

Lemma rpc_service_matches_spec P re L sre svc srv :
  rpc_service_matches P re L sre svc srv = true <->
  ((P = [] /\ re = None /\ L = [])
   \/ (exists p, In p P /\ exists r, svc = p ++ r)
   \/ (exists f, re = Some f /\ f svc = true)
   \/ In svc L)
  /\ (forall g, sre = Some g -> g srv = true).
Proof.
  rewrite rpc_service_matches_nf, andb_true_iff, !orb_true_iff, !andb_true_iff, !negb_true_iff,
    !nonempty_false, any_prefix_spec, mem_spec.
  assert (re_configured re = false <-> re = None) as E1
    by (destruct re; cbn; split; congruence).
  assert (re_holds re svc = true <-> exists f, re = Some f /\ f svc = true) as E2.
  { destruct re as [f|]; cbn; split.
    - intros H; exists f; auto.
    - intros [f' [H1 H2]]; inversion H1; subst; auto.
    - discriminate.
    - intros [f' [H1 _]]; discriminate. }
  assert (re_allows sre srv = true <-> forall g, sre = Some g -> g srv = true) as E3.
  { destruct sre as [g|]; cbn; split.
    - intros H g' H'; inversion H'; subst; auto.
    - intros H; apply H; reflexivity.
    - intros _ g' H'; discriminate.
    - reflexivity. }
  rewrite E1, E2, E3. tauto.
Qed.

(* ---- CheckStripPrefix / PrefixInvoker ---- *)

Lemma check_strip_prefix_first P1 p P2 rest :
  (forall q, In q P1 -> has_prefix (p ++ rest) q = false) ->
  check_strip_prefix (p ++ rest) (P1 ++ p :: P2) = Ok (rest, p).
Proof.
  intros Hn. unfold check_strip_prefix.
  assert (nonempty (P1 ++ p :: P2) = true) as -> by (destruct P1; reflexivity). cbn [negb].
  assert (first_match (has_prefix (p ++ rest)) (P1 ++ p :: P2) = Some p) as ->.
  { apply first_match_some. exists P1, P2. split; [reflexivity|]. split; [apply has_prefix_app|exact Hn]. }
  rewrite drop_len_prefix. reflexivity.
Qed.

Lemma prefix_invoker_strips P1 p P2 rest :
  p <> [] ->
  (forall q, In q P1 -> has_prefix (p ++ rest) q = false) ->
  prefix_invoker_sees (P1 ++ p :: P2) (p ++ rest) = Ok (Some rest).
Proof.
  intros Hp Hn. unfold prefix_invoker_sees.
  assert (nonempty (P1 ++ p :: P2) = true) as -> by (destruct P1; reflexivity).
  rewrite (check_strip_prefix_first _ _ _ _ Hn). cbn [obind fst snd].
  apply nonempty_true in Hp. rewrite Hp. reflexivity.
Qed.

Lemma check_strip_prefix_total id P : exists r m, check_strip_prefix id P = Ok (r, m).
Proof.
  unfold check_strip_prefix. destruct (nonempty P); cbn [negb]; [|eauto].
  destruct (first_match (has_prefix id) P) as [p|] eqn:E; [|eauto].
  apply first_match_some in E as [l1 [l2 [_ [H _]]]].
  apply has_prefix_spec in H as [r ->]. rewrite drop_len_prefix. cbn. eauto.
Qed.

Lemma prefix_invoker_total P s : exists o, prefix_invoker_sees P s = Ok o.
Proof.
  unfold prefix_invoker_sees. destruct (nonempty P); [|eauto].
  destruct (check_strip_prefix_total s P) as [r [m ->]]. cbn. destruct (nonempty m); eauto.
Qed.

(* whatever the inner invoker is called with is the request minus a configured prefix *)
Lemma prefix_invoker_sound P s s' :
  P <> [] -> prefix_invoker_sees P s = Ok (Some s') ->
  exists p, In p P /\ p <> [] /\ s = p ++ s' /\ first_match (has_prefix s) P = Some p.
Proof.
  intros HP. unfold prefix_invoker_sees, check_strip_prefix.
  apply nonempty_true in HP. rewrite HP. cbn [negb].
  destruct (first_match (has_prefix s) P) as [p|] eqn:E; cbn.
  - pose proof E as E'. apply first_match_some in E as [l1 [l2 [HL [H _]]]].
    apply has_prefix_spec in H as [r ->]. rewrite drop_len_prefix. cbn.
    destruct (nonempty p) eqn:Np; [|discriminate]. intros X; inversion X; subst.
    exists p. split; [apply in_or_app; right; left; reflexivity|].
    split; [apply nonempty_true; exact Np|]. split; auto.
  - discriminate.
Qed.

Lemma rpc_service_strip P1 p P2 rest :
  p <> [] -> (forall q, In q P1 -> has_prefix (p ++ rest) q = false) ->
  rpc_service_sees (P1 ++ p :: P2) true (p ++ rest) = Ok (Some rest).
Proof. intros. unfold rpc_service_sees. apply prefix_invoker_strips; auto. Qed.

Lemma rpc_service_nostrip P s : rpc_service_sees P false s = Ok (Some s).
Proof. reflexivity. Qed.

Lemma rpc_service_strip_noprefixes s : rpc_service_sees [] true s = Ok (Some s).
Proof. reflexivity. Qed.

(* matched by regex/list only while stripping with a non-empty prefix list: unimplemented *)
Lemma rpc_service_strip_none P s :
  P <> [] -> (forall q, In q P -> has_prefix s q = false) -> rpc_service_sees P true s = Ok None.
Proof.
  intros HP Hn. unfold rpc_service_sees, prefix_invoker_sees, check_strip_prefix.
  apply nonempty_true in HP. rewrite HP. cbn [negb].
  apply first_match_none in Hn. rewrite Hn. reflexivity.
Qed.

(* ---- InvokerController ---- *)
Lemma invoker_matches_spec P s :
  (forall q, In q P -> q <> []) ->
  (invoker_matches P s = Ok true <-> (P = [] \/ exists p, In p P /\ exists r, s = p ++ r)) /\
  (invoker_matches P s = Ok true \/ invoker_matches P s = Ok false).
Proof.
  intros Hne. unfold invoker_matches, check_strip_prefix.
  destruct P as [|p0 P']; cbn [nonempty negb].
  - split; [split; auto|auto].
  - destruct (first_match (has_prefix s) (p0 :: P')) as [p|] eqn:E.
    + pose proof E as E'. apply first_match_some in E as [l1 [l2 [HL [H _]]]].
      assert (In p (p0 :: P')) as Hin by (rewrite HL; apply in_or_app; right; left; reflexivity).
      apply has_prefix_spec in H as [r ->]. rewrite drop_len_prefix. cbn [obind fst snd].
      assert (nonempty p = true) as -> by (apply nonempty_true; apply Hne; exact Hin).
      split; [|auto]. split; [|reflexivity]. intros _. right. exists p. split; eauto.
    + cbn. split; [|auto]. split; [discriminate|]. intros [H|[p [Hin [r Hr]]]]; [discriminate|].
      exfalso. pose proof (proj1 (first_match_none _ _) E p Hin) as X.
      rewrite Hr, has_prefix_app in X. discriminate.
Qed.

(* ---- HTTP ---- *)
Lemma http_matches_nf P re path :
  http_matches P re path =
  (negb (nonempty P) && negb (re_configured re)) || any_prefix path P || re_holds re path.
Proof.
  unfold http_matches, http_match, any_prefix. rewrite <- first_match_bool.
  destruct P as [|p0 P']; cbn [nonempty negb andb orb];
    destruct re as [f|]; cbn [re_configured re_holds negb andb orb fst];
    try destruct (first_match (has_prefix path) (p0 :: P')); cbn [negb andb orb fst];
    try destruct (f path); reflexivity.
Qed.

Lemma http_matches_spec P re path :
  http_matches P re path = true <->
  (P = [] /\ re = None)
  \/ (exists p, In p P /\ exists r, path = p ++ r)
  \/ (exists f, re = Some f /\ f path = true).
Proof.
  rewrite http_matches_nf, !orb_true_iff, !andb_true_iff, !negb_true_iff, nonempty_false, any_prefix_spec.
  assert (re_configured re = false <-> re = None) as E1 by (destruct re; cbn; split; congruence).
  assert (re_holds re path = true <-> exists f, re = Some f /\ f path = true) as E2.
  { destruct re as [f|]; cbn; split.
    - intros H; exists f; auto.
    - intros [f' [H1 H2]]; inversion H1; subst; auto.
    - discriminate.
    - intros [f' [H1 _]]; discriminate. }
  rewrite E1, E2. tauto.
Qed.

Lemma http_strip P1 p P2 rest re :
  p <> [] -> (forall q, In q P1 -> has_prefix (p ++ rest) q = false) ->
  http_matches (P1 ++ p :: P2) re (p ++ rest) = true /\
  http_sees (P1 ++ p :: P2) true re (p ++ rest) = Ok (Some rest).
Proof.
  intros Hp Hn.
  assert (first_match (has_prefix (p ++ rest)) (P1 ++ p :: P2) = Some p) as FM.
  { apply first_match_some. exists P1, P2. split; [reflexivity|]. split; [apply has_prefix_app|exact Hn]. }
  assert (nonempty (P1 ++ p :: P2) = true) as NE by (destruct P1; reflexivity).
  assert (http_match (P1 ++ p :: P2) re (p ++ rest) = (true, p)) as HM.
  { unfold http_match. rewrite NE, FM. cbn. reflexivity. }
  split.
  - unfold http_matches. rewrite HM. reflexivity.
  - unfold http_sees. rewrite HM. cbn [snd andb].
    apply nonempty_true in Hp. rewrite Hp.
    unfold http_strip_prefix. rewrite has_prefix_app, drop_len_prefix. cbn [obind].
    rewrite app_length. destruct p; [discriminate|]. cbn [length].
    destruct (Nat.ltb_spec (length rest) (S (length p) + length rest)); [reflexivity|lia].
Qed.

Lemma http_nostrip P re path : http_sees P false re path = Ok (Some path).
Proof. reflexivity. Qed.

Lemma http_sees_total P strip re path : exists o, http_sees P strip re path = Ok o.
Proof.
  unfold http_sees. remember (snd (http_match P re path)) as sp. clear Heqsp.
  destruct (strip && nonempty sp); [|eauto].
  unfold http_strip_prefix. destruct (has_prefix path sp) eqn:E; [|eauto].
  apply has_prefix_spec in E as [r E]. subst path. rewrite drop_len_prefix. cbn.
  match goal with |- context [if ?c then _ else _] => destruct c end; eauto.
Qed.

Lemma mux_method_nonempty m : m <> [] -> mux_method m = m.
Proof. intros H. unfold mux_method. apply nonempty_true in H. rewrite H. reflexivity. Qed.
