(* C35 / C36 correspondence. *)
From Bifrost Require Export Lib.Base Lib.StrOps Lib.Varint Rpc.Model Rpc.Access.

Definition konst (o : option bool) : re_opt := option_map (fun b => fun _ : bytes => b) o.

Definition seen_eqb (m : outcome (option bytes)) (obs : option (option bytes)) : bool :=
  match obs with
  | None => true                       (* the value was not resolved in this case *)
  | Some o =>
      match m with
      | Ok x => option_eqb bytes_eqb x o
      | _ => false
      end
  end.

(* regex results are the oracle values observed for exactly this query *)
Inductive c35_case :=
| RpcSvc (prefixes : list bytes) (strip : bool) (re_svc : option bool) (lst : list bytes)
         (re_srv : option bool) (service server : bytes)
         (obs_match : bool) (obs_sees : option (option bytes))
| RpcInv (prefixes : list bytes) (service : bytes) (obs_match : bool) (obs_sees : option (option bytes))
| Http (prefixes : list bytes) (strip : bool) (re_path : option bool) (path : bytes)
       (obs_match : bool) (obs_sees : option (option bytes))
| Mux (method obs_method : bytes).

Definition c35_agree (c : c35_case) : bool :=
  match c with
  | RpcSvc P strip re L sre svc srv om os =>
      Bool.eqb (rpc_service_matches P (konst re) L (konst sre) svc srv) om
      && (if om then seen_eqb (rpc_service_sees P strip svc) os else true)
  | RpcInv P svc om os =>
      (match invoker_matches P svc with Ok b => Bool.eqb b om | _ => false end)
      && (if om then seen_eqb (invoker_sees P svc) os else true)
  | Http P strip re path om os =>
      Bool.eqb (http_matches P (konst re) path) om
      && (if om then seen_eqb (http_sees P strip (konst re) path) os else true)
  | Mux m o => bytes_eqb (mux_method m) o
  end.

Definition resp_eqb (a b : resp) : bool :=
  match a, b with
  | RExists, RExists => true
  | RRemoved, RRemoved => true
  | RIdle x, RIdle y => Bool.eqb x y
  | _, _ => false
  end.

Fixpoint is_prefix (a b : list resp) : bool :=
  match a, b with
  | [], _ => true
  | x :: a', y :: b' => resp_eqb x y && is_prefix a' b'
  | _ :: _, [] => false
  end.

Definition has_err_action (l : list action) : bool :=
  existsb (fun a => match a with IdleCb _ true true => true | _ => false end) l.

(* Hist: callbacks (no Drain: the send loop runs concurrently), then Dispose.
   obs_sent = what the fake stream received; obs_result 1 = the call returned
   a resolver error, 2 = "directive disposed".
   obs_quiescent = what the stream had received once the call was quiescent after the last
   callback and BEFORE Dispose (callbacks are also delivered from inside strm.Send).
   Without a resolver error the sent stream is schedule independent: exactly
   the queued responses; with one, it is a prefix and the call returns either way. *)
Inductive c36_case :=
| Hist (l : list action) (obs_quiescent : list resp) (obs_sent : list resp) (obs_result : nat)
| CidEnc (service server obs_bytes : bytes)
| CidDec (buf : bytes) (obs : option (bytes * bytes)).

Definition c36_agree (c : c36_case) : bool :=
  match c with
  | Hist l q sent res =>
      let '(s, out) := run init (l ++ [Dispose]) in
      if has_err_action l then
        is_prefix sent out && (Nat.eqb res 1 || Nat.eqb res 2) && is_prefix q out
      else
        list_eqb resp_eqb sent out && Nat.eqb res 2
        && (let sq := fst (run init (l ++ [Drain])) in
            negb (woken sq) && list_eqb resp_eqb (Access.sent sq) q)
        && (let '(s2, _) := step s Drain in Nat.eqb (result s2) 2 && list_eqb resp_eqb (Access.sent s2) sent)
  | CidEnc svc srv obs => bytes_eqb (encode_req svc srv) obs
  | CidDec buf obs =>
      (* the harness hands base58(buf) to UnmarshalComponentID: decoding undoes the
         encoding except that the zero-length string is refused *)
      match unmarshal_component_id (fun d => match d with [] => None | _ => Some d end) buf, obs with
      | Ok (a, b), Some (a', b') => bytes_eqb a a' && bytes_eqb b b'
      | Err 1%nat, None => true
      | Err 3%nat, None => true
      | Err 2%nat, _ => true           (* unknown field numbers: outside the model *)
      | _, _ => false
      end
  end.
