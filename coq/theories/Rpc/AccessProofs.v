(* C36 proofs: invariants of the LookupRpcService response stream over all callback histories,
   and the component-ID round trip. *)
From Bifrost Require Import Lib.Base Lib.StrOps Lib.Varint Rpc.Access.

Lemma memz_spec id l : memz id l = true <-> In id l.
Proof.
  unfold memz. rewrite existsb_exists. split.
  - intros [x [H E]]. apply Z.eqb_eq in E. subst. exact H.
  - intros H. exists id. split; [exact H|apply Z.eqb_refl].
Qed.

Lemma memz_false id l : memz id l = false <-> ~ In id l.
Proof. rewrite <- memz_spec. destruct (memz id l); split; congruence. Qed.

Lemma delz_in id l x : In x (delz id l) <-> In x l /\ x <> id.
Proof.
  unfold delz. rewrite filter_In, negb_true_iff, Z.eqb_neq. split; intros [H1 H2]; split; auto.
Qed.

Lemma delz_nodup id l : NoDup l -> NoDup (delz id l).
Proof. apply NoDup_filter. Qed.

Lemma delz_length id l : NoDup l -> In id l -> S (length (delz id l)) = length l.
Proof.
  induction l as [|x l IH]; intros ND Hin; [destruct Hin|].
  inversion ND as [|? ? Hx ND']; subst. cbn [delz filter].
  destruct (Z.eqb_spec id x) as [->|N]; cbn [negb].
  - fold (delz x l). assert (delz x l = l) as ->; [|reflexivity].
    unfold delz. clear IH ND ND' Hin. induction l as [|y l IH]; [reflexivity|].
    cbn [filter]. destruct (Z.eqb_spec x y) as [->|N]; cbn [negb].
    + exfalso. apply Hx. left; reflexivity.
    + f_equal. apply IH. intros H. apply Hx. right; exact H.
  - cbn [length]. f_equal. fold (delz id l). apply IH; auto.
    destruct Hin as [->|H]; [contradiction|exact H].
Qed.

Definition isz (s : st) : bool := Nat.eqb (length (vals s)) 0.

Lemma er_proj_app a b : er_proj (a ++ b) = er_proj a ++ er_proj b.
Proof. induction a as [|[| |x] a IH]; cbn; congruence. Qed.

Lemma idle_proj_app a b : idle_proj (a ++ b) = idle_proj a ++ idle_proj b.
Proof. induction a as [|[| |x] a IH]; cbn; congruence. Qed.

Lemma step_terminated s a : result s <> 0%nat -> step s a = (s, []).
Proof. unfold step. destruct (result s); [contradiction|reflexivity]. Qed.

Lemma run_terminated s l : result s <> 0%nat -> run s l = (s, []).
Proof.
  induction l as [|a l IH]; intros H; cbn [run]; [reflexivity|].
  rewrite (step_terminated s a H), (IH H). reflexivity.
Qed.

(* ---- exactness of a single step ---- *)
Lemma step_exact s a :
  NoDup (vals s) -> fresh_add s a ->
  let s' := fst (step s a) in let out := snd (step s a) in
  (In RExists out <-> length (vals s) = 0%nat /\ length (vals s') = 1%nat) /\
  (In RRemoved out <-> length (vals s) = 1%nat /\ length (vals s') = 0%nat) /\
  (forall b, In (RIdle b) out <-> idle s <> b /\ idle s' = b) /\
  NoDup (vals s').
Proof.
  intros ND FR.
  assert (TRIV : forall s0 : st, NoDup (vals s0) ->
    (In RExists [] <-> length (vals s0) = 0%nat /\ length (vals s0) = 1%nat) /\
    (In RRemoved [] <-> length (vals s0) = 1%nat /\ length (vals s0) = 0%nat) /\
    (forall b, In (RIdle b) [] <-> idle s0 <> b /\ idle s0 = b) /\ NoDup (vals s0)).
  { intros s0 N0. split; [split; [intros []|intros [? ?]; lia]|].
    split; [split; [intros []|intros [? ?]; lia]|].
    split; [intros b0; split; [intros []|intros [? ?]; congruence]|exact N0]. }
  unfold step. destruct (result s) eqn:R; [|cbn [fst snd]; apply TRIV; exact ND].
  destruct a as [id ok|id|b e rl| |]; cbn [fresh_add] in FR.
  - destruct ok; cbn [negb]; [|cbn [fst snd]; apply TRIV; exact ND].
    apply memz_false in FR. rewrite FR. cbn [length fst snd enq set_vals vals idle].
    assert (NoDup (id :: vals s)) as ND' by (constructor; [apply memz_false; exact FR|exact ND]).
    destruct (vals s) as [|v0 vs] eqn:V; cbn [length Nat.eqb].
    + split; [split; [intros _; split; reflexivity|intros _; left; reflexivity]|].
      split; [split; [intros [H|[]]; discriminate|intros [? ?]; lia]|].
      split; [intros b0; split; [intros [H|[]]; discriminate|intros [? ?]; congruence]|exact ND'].
    + destruct vs; cbn [length Nat.eqb].
      * split; [split; [intros []|intros [? ?]; lia]|].
        split; [split; [intros []|intros [? ?]; lia]|].
        split; [intros b0; split; [intros []|intros [? ?]; congruence]|exact ND'].
      * split; [split; [intros []|intros [? ?]; lia]|].
        split; [split; [intros []|intros [? ?]; lia]|].
        split; [intros b0; split; [intros []|intros [? ?]; congruence]|exact ND'].
  - destruct (memz id (vals s)) eqn:M; cbn [negb]; [|cbn [fst snd]; apply TRIV; exact ND].
    apply memz_spec in M. pose proof (delz_length id _ ND M) as L.
    pose proof (delz_nodup id _ ND) as ND'.
    cbn [fst snd enq set_vals vals idle].
    destruct (length (delz id (vals s))) eqn:D; cbn [Nat.eqb].
    + split; [split; [intros [H|[]]; discriminate|intros [? ?]; lia]|].
      split; [split; [intros _; split; lia|intros _; left; reflexivity]|].
      split; [intros b0; split; [intros [H|[]]; discriminate|intros [? ?]; congruence]|exact ND'].
    + split; [split; [intros []|intros [? ?]; lia]|].
      split; [split; [intros []|intros [? ?]; lia]|].
      split; [intros b0; split; [intros []|intros [? ?]; congruence]|exact ND'].
  - set (s1 := if negb (res_err s) && e then _ else s).
    assert (idle s1 = idle s /\ vals s1 = vals s) as [I1 V1] by (unfold s1; destruct (negb (res_err s) && e); auto).
    destruct (Bool.eqb b (idle s1)) eqn:E; cbn [fst snd enq vals idle]; rewrite ?V1, ?I1.
    + split; [split; [intros []|intros [? ?]; lia]|].
      split; [split; [intros []|intros [? ?]; lia]|].
      split; [intros b0; split; [intros []|intros [? ?]; congruence]|exact ND].
    + apply eqb_false_iff in E. rewrite I1 in E.
      split; [split; [intros [H|[]]; discriminate|intros [? ?]; lia]|].
      split; [split; [intros [H|[]]; discriminate|intros [? ?]; lia]|].
      split; [|exact ND]. intros b0; split.
      * intros [H|[]]. inversion H; subst. split; [congruence|reflexivity].
      * intros [_ H]. subst. left; reflexivity.
  - destruct (disposed s); cbn [fst snd vals idle]; apply (TRIV s ND).
  - destruct (negb (woken s)); [cbn [fst snd]; apply (TRIV s ND)|].
    destruct (idle s && res_err s && res_real s); cbn [fst snd vals idle]; apply (TRIV s ND).
Qed.

(* ---- Exists / Removed alternate, starting with Exists ---- *)
Lemma step_alt s a X :
  NoDup (vals s) -> fresh_add s a ->
  alt (isz (fst (step s a))) X -> alt (isz s) (er_proj (snd (step s a)) ++ X).
Proof.
  intros ND FR. unfold step, isz. destruct (result s) eqn:R; [|cbn; auto].
  destruct a as [id ok|id|b e rl| |]; cbn [fresh_add] in FR.
  - destruct ok; cbn [negb]; [|cbn; auto].
    apply memz_false in FR. rewrite FR. cbn [length fst snd enq set_vals vals].
    destruct (vals s) as [|v0 vs]; cbn [length Nat.eqb er_proj app alt]; [auto|].
    destruct vs; cbn; auto.
  - destruct (memz id (vals s)) eqn:M; cbn [negb]; [|cbn; auto].
    apply memz_spec in M. pose proof (delz_length id _ ND M) as L.
    cbn [fst snd enq set_vals vals].
    destruct (length (delz id (vals s))) eqn:D; cbn [Nat.eqb er_proj app alt].
    + rewrite <- L. cbn. auto.
    + rewrite <- L. cbn. auto.
  - set (s1 := if negb (res_err s) && e then _ else s).
    assert (vals s1 = vals s) as V1 by (unfold s1; destruct (negb (res_err s) && e); auto).
    destruct (Bool.eqb b (idle s1)); cbn [fst snd enq vals er_proj app]; rewrite V1; auto.
  - destruct (disposed s); cbn; auto.
  - destruct (negb (woken s)); [cbn; auto|]. destruct (idle s && res_err s && res_real s); cbn; auto.
Qed.

Lemma step_nodup s a : NoDup (vals s) -> fresh_add s a -> NoDup (vals (fst (step s a))).
Proof. intros ND FR. apply (step_exact s a ND FR). Qed.

Lemma run_alt l : forall s,
  NoDup (vals s) -> wf_hist s l -> alt (isz s) (er_proj (snd (run s l))).
Proof.
  induction l as [|a l IH]; intros s ND WF; cbn [run]; [cbn; auto|].
  destruct WF as [FR WF].
  destruct (step s a) as [s1 o1] eqn:E1. destruct (run s1 l) as [s2 o2] eqn:E2.
  cbn [snd]. rewrite er_proj_app.
  replace o1 with (snd (step s a)) by (rewrite E1; reflexivity).
  apply step_alt; auto. rewrite E1. cbn [fst].
  replace o2 with (snd (run s1 l)) by (rewrite E2; reflexivity).
  apply IH.
  - replace s1 with (fst (step s a)) by (rewrite E1; reflexivity). apply step_nodup; auto.
  - cbn [fst] in WF. exact WF.
Qed.

Theorem exists_removed_alternate l :
  wf_hist init l -> alt true (er_proj (snd (run init l))).
Proof. intros WF. apply (run_alt l init); [constructor|exact WF]. Qed.

Lemma wf_histb_spec l : forall s, wf_histb s l = true <-> wf_hist s l.
Proof.
  induction l as [|a l IH]; intros s; cbn [wf_histb wf_hist]; [tauto|].
  rewrite andb_true_iff, IH. unfold wf_histb_step, fresh_add.
  destruct a as [id [|]| | | |]; try tauto. rewrite negb_true_iff, memz_false. tauto.
Qed.

Lemma alt_no_repeat e l : alt e l -> forall a x y b, l = a ++ x :: y :: b -> x <> y.
Proof.
  revert e; induction l as [|z l IH]; intros e H a x y b E.
  - destruct a; discriminate.
  - destruct H as [Hz H]. destruct a as [|a0 a]; cbn in E; injection E as E1 E2.
    + subst l. destruct H as [Hy _]. rewrite <- E1, Hz, Hy. destruct e; discriminate.
    + eapply IH; eauto.
Qed.

(* ---- idle is reported on change only ---- *)
Lemma step_idle_alt s a X :
  alt (negb (idle (fst (step s a)))) X -> alt (negb (idle s)) (idle_proj (snd (step s a)) ++ X).
Proof.
  unfold step. destruct (result s); [|cbn; auto].
  destruct a as [id ok|id|b e rl| |].
  - destruct ok; cbn [negb]; [|cbn; auto].
    cbn [fst snd enq set_vals idle]. destruct (Nat.eqb _ 1); cbn; auto.
  - destruct (memz id (vals s)); cbn [negb]; [|cbn; auto].
    cbn [fst snd enq set_vals idle]. destruct (Nat.eqb _ 0); cbn; auto.
  - set (s1 := if negb (res_err s) && e then _ else s).
    assert (idle s1 = idle s) as I1 by (unfold s1; destruct (negb (res_err s) && e); auto).
    destruct (Bool.eqb b (idle s1)) eqn:E; cbn [fst snd enq idle idle_proj app alt]; rewrite ?I1; auto.
    apply eqb_false_iff in E. rewrite I1 in E. intros H.
    assert (b = negb (idle s)) as Eb by (destruct b, (idle s); cbn; congruence).
    split; [exact Eb|rewrite <- Eb; exact H].
  - destruct (disposed s); cbn; auto.
  - destruct (negb (woken s)); [cbn; auto|]. destruct (idle s && res_err s && res_real s); cbn; auto.
Qed.

Lemma run_idle_alt l : forall s, alt (negb (idle s)) (idle_proj (snd (run s l))).
Proof.
  induction l as [|a l IH]; intros s; cbn [run]; [cbn; auto|].
  destruct (step s a) as [s1 o1] eqn:E1. destruct (run s1 l) as [s2 o2] eqn:E2.
  cbn [snd]. rewrite idle_proj_app.
  replace o1 with (snd (step s a)) by (rewrite E1; reflexivity).
  apply step_idle_alt. rewrite E1. cbn [fst].
  replace o2 with (snd (run s1 l)) by (rewrite E2; reflexivity). apply IH.
Qed.

Theorem idle_reported_on_change l : alt true (idle_proj (snd (run init l))).
Proof. apply (run_idle_alt l init). Qed.

(* ---- what is sent is what was queued, in order ---- *)
Lemma step_sent s a :
  exists tail, sent s ++ queue s ++ snd (step s a) = sent (fst (step s a)) ++ tail /\
               (result (fst (step s a)) <> 1%nat -> tail = queue (fst (step s a))).
Proof.
  unfold step. destruct (result s) eqn:R.
  2:{ cbn. exists (queue s). rewrite app_nil_r. auto. }
  destruct a as [id ok|id|b e rl| |].
  - destruct ok; cbn [negb].
    + cbn [fst snd enq set_vals sent queue result]. eexists; split; [reflexivity|auto].
    + cbn. exists (queue s). rewrite app_nil_r. auto.
  - destruct (memz id (vals s)); cbn [negb].
    + cbn [fst snd enq set_vals sent queue result]. eexists; split; [reflexivity|auto].
    + cbn. exists (queue s). rewrite app_nil_r. auto.
  - set (s1 := if negb (res_err s) && e then _ else s).
    assert (sent s1 = sent s /\ queue s1 = queue s /\ result s1 = result s) as [A [B C]]
      by (unfold s1; destruct (negb (res_err s) && e); auto).
    destruct (Bool.eqb b (idle s1)); cbn [fst snd enq sent queue result]; rewrite ?A, ?B.
    + exists (queue s). rewrite app_nil_r. auto.
    + eexists; split; [reflexivity|auto].
  - destruct (disposed s); cbn; exists (queue s); rewrite app_nil_r; auto.
  - destruct (negb (woken s)); [cbn; exists (queue s); rewrite app_nil_r; auto|].
    destruct (idle s && res_err s && res_real s); cbn [fst snd sent queue result].
    + exists (queue s). rewrite app_nil_r. split; [reflexivity|]. intros H; contradiction.
    + exists []. rewrite !app_nil_r. auto.
Qed.

Lemma run_sent l : forall s,
  exists tail, sent s ++ queue s ++ snd (run s l) = sent (fst (run s l)) ++ tail /\
               (result (fst (run s l)) <> 1%nat -> tail = queue (fst (run s l))).
Proof.
  induction l as [|a l IH]; intros s; cbn [run].
  - cbn. exists (queue s). rewrite app_nil_r. auto.
  - destruct (step_sent s a) as [t1 [H1 T1]].
    destruct (step s a) as [s1 o1] eqn:E1. cbn [fst snd] in *.
    destruct (Nat.eq_dec (result s1) 1) as [R1|R1].
    + rewrite (run_terminated s1 l) by lia. cbn [fst snd]. exists t1. rewrite app_nil_r. split; [exact H1|].
      intros H; contradiction.
    + specialize (T1 R1). subst t1. destruct (IH s1) as [t2 [H2 T2]].
      destruct (run s1 l) as [s2 o2] eqn:E2. cbn [fst snd] in *.
      exists t2. split; [|exact T2].
      rewrite <- H2.
      replace (sent s ++ queue s ++ o1 ++ o2) with ((sent s ++ queue s ++ o1) ++ o2)
        by (rewrite <- !app_assoc; reflexivity).
      rewrite H1. rewrite <- app_assoc. reflexivity.
Qed.

Theorem sent_is_prefix_of_reports l :
  exists tail, snd (run init l) = sent (fst (run init l)) ++ tail /\
               (result (fst (run init l)) <> 1%nat -> tail = queue (fst (run init l))).
Proof. destruct (run_sent l init) as [t [H T]]. exists t. cbn in H. auto. Qed.

(* invariant of the wake-up protocol: whatever is queued (or a pending dispose) has been
   broadcast since the send loop last took its wait channel; once the call has returned the
   queue is empty *)
Definition wake_inv (s : st) : Prop :=
  (result s = 0%nat -> queue s <> [] -> woken s = true) /\
  (result s = 0%nat -> disposed s = true -> woken s = true) /\
  (result s <> 0%nat -> queue s = []).

Lemma app_nonnil_r {A} (l : list A) x : l ++ [x] <> [].
Proof. destruct l; discriminate. Qed.

Lemma step_wake_inv s a : wake_inv s -> wake_inv (fst (step s a)).
Proof.
  intros [I1 [I2 I3]]. unfold step. destruct (result s) eqn:R; [|cbn [fst]; unfold wake_inv; rewrite R; auto].
  specialize (I1 eq_refl). specialize (I2 eq_refl).
  destruct a as [id ok|id|b e rl| |].
  - destruct ok; cbn [negb fst]; [|unfold wake_inv; rewrite R; auto].
    destruct (Nat.eqb _ 1); unfold wake_inv; cbn; rewrite ?R, ?app_nil_r;
      (split; [|split]); auto; try (intros H; contradiction).
  - destruct (memz id (vals s)); cbn [negb fst]; [|unfold wake_inv; rewrite R; auto].
    destruct (Nat.eqb _ 0); unfold wake_inv; cbn; rewrite ?R, ?app_nil_r;
      (split; [|split]); auto; try (intros H; contradiction).
  - destruct (negb (res_err s) && e); cbn [idle]; destruct (Bool.eqb b (idle s));
      unfold wake_inv; cbn; rewrite ?R; (split; [|split]); auto; try (intros H; contradiction).
  - destruct (disposed s) eqn:D; cbn [fst]; unfold wake_inv; cbn; rewrite ?R, ?D;
      (split; [|split]); auto; try (intros H; contradiction).
  - destruct (woken s) eqn:W; cbn [negb fst]; [|unfold wake_inv; rewrite R, W; auto].
    destruct (idle s && res_err s && res_real s); unfold wake_inv; cbn.
    + split; [discriminate|]. split; [discriminate|reflexivity].
    + destruct (disposed s) eqn:D.
      * split; [discriminate|]. split; [discriminate|reflexivity].
      * split; [intros _ H; contradiction|]. split; [discriminate|intros H; contradiction].
Qed.

Lemma run_wake_inv l : forall s, wake_inv s -> wake_inv (fst (run s l)).
Proof.
  induction l as [|a l IH]; intros s I; cbn [run]; [exact I|].
  pose proof (step_wake_inv s a I) as I1.
  destruct (step s a) as [s1 o1]. cbn [fst] in I1. specialize (IH s1 I1).
  destruct (run s1 l) as [s2 o2]. exact IH.
Qed.

Lemma init_wake_inv : wake_inv init.
Proof. unfold wake_inv; cbn. repeat split; auto; try discriminate; intros; contradiction. Qed.

Lemma run_app l1 l2 s :
  run s (l1 ++ l2) =
  let '(s1, o1) := run s l1 in let '(s2, o2) := run s1 l2 in (s2, o1 ++ o2).
Proof.
  revert s; induction l1 as [|a l1 IH]; intros s; cbn [app run].
  - destruct (run s l2); reflexivity.
  - destruct (step s a) as [s1 o1]. rewrite IH.
    destruct (run s1 l1) as [s2 o2]. destruct (run s2 l2) as [s3 o3]. rewrite app_assoc. reflexivity.
Qed.

(* QUIESCENCE: whenever the send loop is parked on an open wait channel (woken = false) and
   the call is still running, nothing is left queued: everything reported has been sent, in
   order - for every callback history and every interleaving with the send loop, including
   callbacks that arrive between a Drain region and the next (i.e. during strm.Send). *)
Theorem quiescent_all_sent l :
  let s' := fst (run init l) in
  result s' = 0%nat -> woken s' = false ->
  queue s' = [] /\ disposed s' = false /\ sent s' = snd (run init l).
Proof.
  intros s' R W. destruct (run_wake_inv l init init_wake_inv) as [I1 [I2 _]]. fold s' in I1, I2.
  assert (queue s' = []) as Q.
  { destruct (queue s') eqn:E; [reflexivity|]. rewrite I1 in W; [discriminate|exact R|discriminate]. }
  split; [exact Q|]. split.
  - destruct (disposed s') eqn:D; [|reflexivity]. rewrite I2 in W; [discriminate|exact R|reflexivity].
  - destruct (sent_is_prefix_of_reports l) as [t [H T]]. fold s' in H, T.
    rewrite T in H by (rewrite R; discriminate). rewrite Q, app_nil_r in H. symmetry; exact H.
Qed.

(* the state a reader of the reports believes is the actual state *)
Lemma last_er_app d a b : last_er d (a ++ b) = last_er (last_er d a) b.
Proof. revert d; induction a as [|[| |x] a IH]; intros d; cbn; auto. Qed.
Lemma last_idle_app d a b : last_idle d (a ++ b) = last_idle (last_idle d a) b.
Proof. revert d; induction a as [|[| |x] a IH]; intros d; cbn; auto. Qed.

Lemma step_last_er s a :
  NoDup (vals s) -> fresh_add s a ->
  last_er (negb (isz s)) (snd (step s a)) = negb (isz (fst (step s a))).
Proof.
  intros ND FR. unfold step, isz. destruct (result s) eqn:R; [|reflexivity].
  destruct a as [id ok|id|b e rl| |]; cbn [fresh_add] in FR.
  - destruct ok; cbn [negb]; [|reflexivity].
    apply memz_false in FR. rewrite FR. cbn [length fst snd enq set_vals vals].
    destruct (vals s) as [|v0 vs]; cbn [length Nat.eqb last_er negb]; [reflexivity|].
    destruct vs; reflexivity.
  - destruct (memz id (vals s)) eqn:M; cbn [negb]; [|reflexivity].
    apply memz_spec in M. pose proof (delz_length id _ ND M) as L.
    cbn [fst snd enq set_vals vals].
    destruct (length (delz id (vals s))) eqn:D; cbn [Nat.eqb last_er negb]; [reflexivity|].
    rewrite <- L. reflexivity.
  - set (s1 := if negb (res_err s) && e then _ else s).
    assert (vals s1 = vals s) as V1 by (unfold s1; destruct (negb (res_err s) && e); auto).
    destruct (Bool.eqb b (idle s1)); cbn [fst snd enq vals last_er]; rewrite V1; reflexivity.
  - destruct (disposed s); reflexivity.
  - destruct (negb (woken s)); [reflexivity|]. destruct (idle s && res_err s && res_real s); reflexivity.
Qed.

Lemma run_last_er l : forall s,
  NoDup (vals s) -> wf_hist s l ->
  last_er (negb (isz s)) (snd (run s l)) = negb (isz (fst (run s l))).
Proof.
  induction l as [|a l IH]; intros s ND WF; cbn [run]; [reflexivity|].
  destruct WF as [FR WF].
  pose proof (step_last_er s a ND FR) as H1. pose proof (step_nodup s a ND FR) as ND1.
  destruct (step s a) as [s1 o1]. cbn [fst snd] in *.
  specialize (IH s1 ND1 WF). destruct (run s1 l) as [s2 o2]. cbn [fst snd] in *.
  rewrite last_er_app, H1. exact IH.
Qed.

Lemma step_last_idle s a : last_idle (idle s) (snd (step s a)) = idle (fst (step s a)).
Proof.
  unfold step. destruct (result s); [|reflexivity].
  destruct a as [id ok|id|b e rl| |].
  - destruct ok; cbn [negb]; [|reflexivity]. cbn [fst snd enq set_vals idle]. destruct (Nat.eqb _ 1); reflexivity.
  - destruct (memz id (vals s)); cbn [negb]; [|reflexivity]. cbn [fst snd enq set_vals idle]. destruct (Nat.eqb _ 0); reflexivity.
  - set (s1 := if negb (res_err s) && e then _ else s).
    assert (idle s1 = idle s) as I1 by (unfold s1; destruct (negb (res_err s) && e); auto).
    destruct (Bool.eqb b (idle s1)) eqn:E; cbn [fst snd enq idle last_idle]; [|reflexivity].
    apply eqb_prop in E. congruence.
  - destruct (disposed s); reflexivity.
  - destruct (negb (woken s)); [reflexivity|]. destruct (idle s && res_err s && res_real s); reflexivity.
Qed.

Lemma run_last_idle l : forall s, last_idle (idle s) (snd (run s l)) = idle (fst (run s l)).
Proof.
  induction l as [|a l IH]; intros s; cbn [run]; [reflexivity|].
  pose proof (step_last_idle s a) as H1. destruct (step s a) as [s1 o1]. cbn [fst snd] in *.
  specialize (IH s1). destruct (run s1 l) as [s2 o2]. cbn [fst snd] in *.
  rewrite last_idle_app, H1. exact IH.
Qed.

(* at quiescence the availability and idle state the remote side has been told equals the
   actual one *)
Theorem quiescent_reported_state l :
  wf_hist init l ->
  let s' := fst (run init l) in
  result s' = 0%nat -> woken s' = false ->
  last_er false (sent s') = negb (Nat.eqb (length (vals s')) 0) /\
  last_idle false (sent s') = idle s'.
Proof.
  intros WF s' R W. destruct (quiescent_all_sent l R W) as [_ [_ S]]. fold s' in S. rewrite S.
  split.
  - apply (run_last_er l init (NoDup_nil _) WF).
  - apply (run_last_idle l init).
Qed.

(* and a send-loop iteration always brings the call to quiescence or to its end *)
Theorem drain_quiesces s : woken (fst (step s Drain)) = false \/ result (fst (step s Drain)) <> 0%nat.
Proof.
  unfold step. destruct (result s) eqn:R; [|right; cbn; rewrite R; discriminate].
  destruct (woken s) eqn:W; cbn [negb]; [|left; exact W].
  destruct (idle s && res_err s && res_real s); left; reflexivity.
Qed.

(* the call ends with the resolver's error only when the directive is idle with a real
   (non-cancellation) first resolver error *)
Definition err_end_ok (s : st) : Prop :=
  result s = 1%nat -> idle s = true /\ res_err s = true /\ res_real s = true.

Lemma step_err_end s a : err_end_ok s -> err_end_ok (fst (step s a)).
Proof.
  intros I. unfold step. destruct (result s) eqn:R; [|cbn [fst]; exact I].
  destruct a as [id ok|id|b e rl| |].
  - destruct ok; cbn [negb fst]; [|exact I]. destruct (Nat.eqb _ 1); unfold err_end_ok; cbn; rewrite ?R; discriminate.
  - destruct (memz id (vals s)); cbn [negb fst]; [|exact I].
    destruct (Nat.eqb _ 0); unfold err_end_ok; cbn; rewrite ?R; discriminate.
  - destruct (negb (res_err s) && e); cbn [idle]; destruct (Bool.eqb b (idle s));
      unfold err_end_ok; cbn; rewrite ?R; try discriminate.
  - destruct (disposed s); cbn [fst]; [exact I|]. unfold err_end_ok; cbn; rewrite ?R; discriminate.
  - destruct (negb (woken s)); cbn [fst]; [exact I|].
    destruct (idle s && res_err s && res_real s) eqn:C; unfold err_end_ok; cbn.
    + intros _. apply andb_true_iff in C as [C C3]. apply andb_true_iff in C as [C1 C2]. auto.
    + destruct (disposed s); discriminate.
Qed.

Theorem error_end_sound l : err_end_ok (fst (run init l)).
Proof.
  assert (forall l s, err_end_ok s -> err_end_ok (fst (run s l))) as G.
  { clear l. induction l as [|a l IH]; intros s I; cbn [run]; [exact I|].
    pose proof (step_err_end s a I) as I1. destruct (step s a) as [s1 o1]. cbn [fst] in I1.
    specialize (IH s1 I1). destruct (run s1 l) as [s2 o2]. exact IH. }
  apply G. unfold err_end_ok; cbn; discriminate.
Qed.

(* and when it is idle with such an error, the next send-loop iteration ends the call with it *)
Lemma drain_returns_error s :
  result s = 0%nat -> woken s = true -> idle s = true -> res_err s = true -> res_real s = true ->
  result (fst (step s Drain)) = 1%nat.
Proof. intros R W I E Rl. unfold step. rewrite R, W, I, E, Rl. reflexivity. Qed.

(* ---- component id round trip ---- *)
Lemma varint_dec_small b x : 0 <= b < 128 -> varint_dec (b :: x) = VOk b 1.
Proof.
  intros H. unfold varint_dec. cbn [vdec].
  destruct (Z.ltb_spec b 128); [|lia]. cbn [Nat.eqb andb]. reflexivity.
Qed.

Lemma dec_field f tag fld s rest svc srv :
  (tag = 10 /\ fld = 1) \/ (tag = 18 /\ fld = 2) ->
  s <> [] -> Z.of_nat (length s) < 9223372036854775808 ->
  dec_req (S f) (enc_field tag s ++ rest) svc srv =
  if fld =? 1 then dec_req f rest s srv else dec_req f rest svc s.
Proof.
  intros Ht Hs Hl. unfold enc_field. apply nonempty_true in Hs. rewrite Hs.
  cbn [app dec_req].
  assert (varint_dec (tag :: (varint_enc (Z.of_nat (length s)) ++ s) ++ rest) = VOk tag 1) as ->
    by (apply varint_dec_small; destruct Ht as [[-> _]|[-> _]]; lia).
  cbn [skipn].
  assert (int32 (tag / 8) = fld /\ tag mod 8 = 2) as [-> ->]
    by (destruct Ht as [[-> ->]|[-> ->]]; split; reflexivity).
  cbn [Z.eqb negb].
  assert ((fld <=? 0) = false) as -> by (destruct Ht as [[_ ->]|[_ ->]]; reflexivity).
  assert ((fld =? 1) || (fld =? 2) = true) as -> by (destruct Ht as [[_ ->]|[_ ->]]; reflexivity).
  rewrite <- app_assoc.
  rewrite varint_roundtrip by (unfold two64; lia).
  rewrite skipn_prefix.
  destruct (Z.leb_spec 9223372036854775808 (Z.of_nat (length s))); [lia|].
  rewrite app_length.
  destruct (Z.ltb_spec (Z.of_nat (length s + length rest)) (Z.of_nat (length s))); [lia|].
  rewrite Nat2Z.id.
  rewrite firstn_app, Nat.sub_diag, firstn_all, firstn_O, app_nil_r.
  rewrite skipn_prefix. reflexivity.
Qed.

Lemma enc_field_len tag s : s <> [] -> (2 <= length (enc_field tag s))%nat.
Proof.
  intros H. unfold enc_field. apply nonempty_true in H. rewrite H. cbn [length].
  rewrite app_length. pose proof (venc_length_pos 10 (Z.of_nat (length s))). unfold varint_enc. lia.
Qed.

Lemma enc_field_empty tag : enc_field tag [] = [].
Proof. reflexivity. Qed.

Theorem decode_encode svc srv :
  Z.of_nat (length svc) < 9223372036854775808 ->
  Z.of_nat (length srv) < 9223372036854775808 ->
  decode_req (encode_req svc srv) = Ok (svc, srv).
Proof.
  intros H1 H2. unfold decode_req, encode_req.
  destruct svc as [|c svc]; destruct srv as [|d srv].
  - reflexivity.
  - rewrite enc_field_empty. cbn [app].
    rewrite <- (app_nil_r (enc_field 18 (d :: srv))) at 2.
    rewrite (dec_field _ 18 2) by (auto; discriminate). reflexivity.
  - rewrite enc_field_empty, app_nil_r.
    rewrite <- (app_nil_r (enc_field 10 (c :: svc))) at 2.
    rewrite (dec_field _ 10 1) by (auto; discriminate). reflexivity.
  - pose proof (enc_field_len 10 (c :: svc)) as L1. pose proof (enc_field_len 18 (d :: srv)) as L2.
    rewrite app_length.
    destruct (length (enc_field 10 (c :: svc))) as [|n1]; [specialize (L1 ltac:(discriminate)); lia|].
    cbn [Nat.add].
    rewrite (dec_field _ 10 1) by (auto; discriminate). cbn [Z.eqb].
    destruct (n1 + length (enc_field 18 (d :: srv)))%nat as [|n2] eqn:E;
      [specialize (L2 ltac:(discriminate)); lia|].
    rewrite <- (app_nil_r (enc_field 18 (d :: srv))).
    rewrite (dec_field _ 18 2) by (auto; discriminate). reflexivity.
Qed.

Lemma encode_req_nonempty svc srv : svc <> [] -> encode_req svc srv <> [].
Proof.
  intros H. unfold encode_req, enc_field. apply nonempty_true in H. rewrite H. discriminate.
Qed.

Section ComponentID.
  Variable b58enc : bytes -> bytes.
  Variable b58dec : bytes -> option bytes.
  (* base58 decodes what it encoded; mr-tron/base58 rejects the empty string, so
     the law is only assumed (and only holds) for non-empty data *)
  Hypothesis b58_roundtrip : forall x, x <> [] -> b58dec (b58enc x) = Some x.

  (* valid requests have a non-empty service id (lookupRpcService.Validate) *)
  Theorem component_id_roundtrip svc srv :
    svc <> [] ->
    Z.of_nat (length svc) < 9223372036854775808 ->
    Z.of_nat (length srv) < 9223372036854775808 ->
    unmarshal_component_id b58dec (marshal_component_id b58enc svc srv) = Ok (svc, srv).
  Proof.
    intros H0 H1 H2. unfold unmarshal_component_id, marshal_component_id.
    rewrite b58_roundtrip by (apply encode_req_nonempty; exact H0). apply decode_encode; auto.
  Qed.
End ComponentID.
