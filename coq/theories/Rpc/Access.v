(* C36 model: rpc/access/server.go LookupRpcService as a transition system over
   the bus callbacks, and rpc/access/access.go component-ID encoding.
   One action per bcast.HoldLock region:
     Add id ok      value-added callback (ok = the value is a LookupRpcServiceValue)
     Remove id      value-removed callback
     IdleCb b e r   idle callback (b = isIdle, e = resErrs contains a non-nil error,
                    r = the first such error is not context.Canceled)
     Dispose        directive-disposed callback
     Drain          one iteration of the send loop (take the queue, then send it) *)
From Bifrost Require Import Lib.Base Lib.StrOps Lib.Varint.

Inductive resp := RExists | RRemoved | RIdle (b : bool).

Inductive action :=
| Add (id : Z) (ok : bool)
| Remove (id : Z)
| IdleCb (is_idle has_err real : bool)
| Dispose
| Drain.

Record st := mkSt {
  vals : list Z;          (* keys of the vals map *)
  idle : bool;            (* resIdle *)
  res_err : bool;         (* resErr != nil *)
  res_real : bool;        (* resErr != context.Canceled (resErr keeps the FIRST error) *)
  disposed : bool;
  queue : list resp;      (* sendQueue *)
  sent : list resp;       (* what strm.Send has been called with *)
  result : nat;           (* 0 running, 1 returned resErr, 2 returned "directive disposed" *)
  woken : bool            (* the wait channel the send loop holds has been closed by a broadcast() *)
}.

Definition init : st := mkSt [] false false false false [] [] 0%nat false.

Definition memz (id : Z) (l : list Z) : bool := existsb (Z.eqb id) l.
Definition delz (id : Z) (l : list Z) : list Z := filter (fun x => negb (Z.eqb id x)) l.

Definition set_vals (s : st) v := mkSt v (idle s) (res_err s) (res_real s) (disposed s) (queue s) (sent s) (result s) (woken s).
(* append to sendQueue and broadcast(); nothing queued = no broadcast *)
Definition enq (s : st) (r : list resp) :=
  mkSt (vals s) (idle s) (res_err s) (res_real s) (disposed s) (queue s ++ r) (sent s) (result s)
       (match r with [] => woken s | _ => true end).

(* step returns the new state and the responses appended to sendQueue by this region.
   The send loop only runs a Drain region after its wait channel was closed (woken); in the
   same region it takes the NEW wait channel (woken := false) and snapshots+clears the queue.
   Taking the channel in a later region would be a different transition system (lost wakeups). *)
Definition step (s : st) (a : action) : st * list resp :=
  match result s with
  | S _ => (s, [])        (* the call has returned: callbacks are released *)
  | O =>
  match a with
  | Add id ok =>
      if negb ok then (s, []) else
      (* vals[id] = struct{}{}; if len(vals) == 1 { queue Exists; broadcast } *)
      let v := if memz id (vals s) then vals s else id :: vals s in
      let out := if Nat.eqb (length v) 1 then [RExists] else [] in
      (enq (set_vals s v) out, out)
  | Remove id =>
      if negb (memz id (vals s)) then (s, []) else
      let v := delz id (vals s) in
      let out := if Nat.eqb (length v) 0 then [RRemoved] else [] in
      (enq (set_vals s v) out, out)
  | IdleCb b e real =>
      (* resErr set for the first time: broadcast *)
      let s1 := if negb (res_err s) && e
                then mkSt (vals s) (idle s) true real (disposed s) (queue s) (sent s) (result s) true else s in
      if Bool.eqb b (idle s1) then (s1, []) else
      let s2 := mkSt (vals s1) b (res_err s1) (res_real s1) (disposed s1) (queue s1) (sent s1) (result s1) (woken s1) in
      (enq s2 [RIdle b], [RIdle b])
  | Dispose =>
      if disposed s then (s, []) else
      (mkSt (vals s) (idle s) (res_err s) (res_real s) true (queue s) (sent s) (result s) true, [])
  | Drain =>
      if negb (woken s) then (s, []) else    (* parked on an open wait channel *)
      (* waitCh = getWaitCh(); currSendQueue = sendQueue; sendQueue = nil;
         if currIdle && currResErr != nil return it; send; if disposed return *)
      (* if currIdle && currResErr != nil && currResErr != context.Canceled { return currResErr } *)
      if idle s && res_err s && res_real s then
        (mkSt (vals s) (idle s) (res_err s) (res_real s) (disposed s) [] (sent s) 1%nat false, [])
      else
        let s1 := mkSt (vals s) (idle s) (res_err s) (res_real s) (disposed s) [] (sent s ++ queue s)
                       (if disposed s then 2%nat else 0%nat) false in
        (s1, [])
  end
  end.

Fixpoint run (s : st) (l : list action) : st * list resp :=
  match l with
  | [] => (s, [])
  | a :: l' => let '(s1, o1) := step s a in let '(s2, o2) := run s1 l' in (s2, o1 ++ o2)
  end.

(* the bus contract: a value id is reported added only while it is not present *)
Definition fresh_add (s : st) (a : action) : Prop :=
  match a with Add id true => ~ In id (vals s) | _ => True end.

Fixpoint wf_hist (s : st) (l : list action) : Prop :=
  match l with
  | [] => True
  | a :: l' => fresh_add s a /\ wf_hist (fst (step s a)) l'
  end.

Definition wf_histb_step (s : st) (a : action) : bool :=
  match a with Add id true => negb (memz id (vals s)) | _ => true end.
Fixpoint wf_histb (s : st) (l : list action) : bool :=
  match l with
  | [] => true
  | a :: l' => wf_histb_step s a && wf_histb (fst (step s a)) l'
  end.

(* projections of the response stream *)
Fixpoint er_proj (l : list resp) : list bool :=
  match l with
  | [] => []
  | RExists :: r => true :: er_proj r
  | RRemoved :: r => false :: er_proj r
  | RIdle _ :: r => er_proj r
  end.
Fixpoint idle_proj (l : list resp) : list bool :=
  match l with
  | [] => []
  | RIdle b :: r => b :: idle_proj r
  | _ :: r => idle_proj r
  end.
(* the availability / idle state a reader of the stream currently believes, starting from d *)
Fixpoint last_er (d : bool) (l : list resp) : bool :=
  match l with
  | [] => d
  | RExists :: r => last_er true r
  | RRemoved :: r => last_er false r
  | RIdle _ :: r => last_er d r
  end.
Fixpoint last_idle (d : bool) (l : list resp) : bool :=
  match l with
  | [] => d
  | RIdle b :: r => last_idle b r
  | _ :: r => last_idle d r
  end.
(* alternating sequence whose first element (if any) is e *)
Fixpoint alt (e : bool) (l : list bool) : Prop :=
  match l with
  | [] => True
  | x :: r => x = e /\ alt (negb e) r
  end.
Fixpoint altb (e : bool) (l : list bool) : bool :=
  match l with
  | [] => true
  | x :: r => Bool.eqb x e && altb (negb e) r
  end.

(* ---- component id: LookupRpcServiceRequest{service_id = 1, server_id = 2} ---- *)
Definition enc_field (tag : Z) (s : bytes) : bytes :=
  if nonempty s then tag :: varint_enc (Z.of_nat (length s)) ++ s else [].

(* MarshalVT *)
Definition encode_req (service server : bytes) : bytes := enc_field 10 service ++ enc_field 18 server.

Definition int32 (z : Z) : Z :=
  let m := z mod 4294967296 in if m <? 2147483648 then m else m - 4294967296.

Definition E_PROTO : nat := 1%nat.
Definition E_UNKNOWN_FIELD : nat := 2%nat.   (* model boundary: unknown fields are not modelled *)
Definition E_B58 : nat := 3%nat.

(* UnmarshalVT, fields 1 and 2; every decoding error is one class *)
Fixpoint dec_req (fuel : nat) (buf svc srv : bytes) : outcome (bytes * bytes) :=
  match buf with
  | [] => Ok (svc, srv)
  | _ =>
    match fuel with
    | O => Err E_PROTO
    | S f =>
      match varint_dec buf with
      | VErr => Err E_PROTO
      | VOk wire n =>
          let rest := skipn n buf in
          let field := int32 (wire / 8) in
          let wt := wire mod 8 in
          if wt =? 4 then Err E_PROTO
          else if field <=? 0 then Err E_PROTO
          else if (field =? 1) || (field =? 2) then
            if negb (wt =? 2) then Err E_PROTO else
            match varint_dec rest with
            | VErr => Err E_PROTO
            | VOk len m =>
                let rest2 := skipn m rest in
                if 9223372036854775808 <=? len then Err E_PROTO
                else if Z.of_nat (length rest2) <? len then Err E_PROTO
                else
                  let s := firstn (Z.to_nat len) rest2 in
                  let rest3 := skipn (Z.to_nat len) rest2 in
                  if field =? 1 then dec_req f rest3 s srv else dec_req f rest3 svc s
            end
          else Err E_UNKNOWN_FIELD
      end
    end
  end.

Definition decode_req (buf : bytes) : outcome (bytes * bytes) := dec_req (S (length buf)) buf [] [].

Section ComponentID.
  (* base58 as an injective encoding: the only law used *)
  Variable b58enc : bytes -> bytes.
  Variable b58dec : bytes -> option bytes.

  Definition marshal_component_id (service server : bytes) : bytes := b58enc (encode_req service server).
  Definition unmarshal_component_id (cid : bytes) : outcome (bytes * bytes) :=
    match b58dec cid with
    | None => Err E_B58
    | Some d => decode_req d
    end.
End ComponentID.
