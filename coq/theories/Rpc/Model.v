(* C35: the filter chains of RpcServiceController, InvokerController,
   HTTPHandlerController and what the wrapped invoker/handler is handed.
   Regular expressions are oracle predicates (bytes -> bool); None = not configured. *)
From Bifrost Require Import Lib.Base Lib.StrOps gen.Rpc.

Definition re_opt := option (bytes -> bool).

Definition re_configured (r : re_opt) : bool := match r with Some _ => true | None => false end.

(* ---- rpc/rpc-service-controller.go HandleDirective ---- *)
Definition rpc_service_matches (prefixes : list bytes) (re : re_opt) (lst : list bytes)
           (srv_re : re_opt) (service server : bytes) : bool :=
  (* matched := len(prefixes) == 0 && re == nil && len(list) == 0 *)
  let m0 := negb (nonempty prefixes) && negb (re_configured re) && negb (nonempty lst) in
  (* if !matched && len(prefixes) != 0 { for ... HasPrefix ... break } *)
  let m1 := if negb m0 && nonempty prefixes
            then (match first_match (has_prefix service) prefixes with Some _ => true | None => m0 end)
            else m0 in
  (* if !matched && re != nil { matched = re.MatchString(serviceID) } *)
  let m2 := if negb m1 then (match re with Some f => f service | None => m1 end) else m1 in
  (* if !matched { if slices.Contains(list, serviceID) { matched = true } } *)
  let m3 := if negb m2 then (if mem service lst then true else m2) else m2 in
  (* if matched && serverIdRe != nil { matched = serverIdRe.MatchString(serverID) } *)
  if m3 then (match srv_re with Some f => f server | None => m3 end) else m3.

(* ---- starpc srpc.CheckStripPrefix ---- *)
Definition check_strip_prefix (id : bytes) (prefixes : list bytes) : outcome (bytes * bytes) :=
  if negb (nonempty prefixes) then Ok (id, [])
  else match first_match (has_prefix id) prefixes with
       | Some p => r <- drop_len p id ;; Ok (r, p)
       | None => Ok (id, [])
       end.

(* ---- starpc srpc.PrefixInvoker.InvokeMethod: which service id the inner
   invoker is called with; None = not called ("unimplemented") ---- *)
Definition prefix_invoker_sees (prefixes : list bytes) (service : bytes) : outcome (option bytes) :=
  if nonempty prefixes then
    sm <- check_strip_prefix service prefixes ;;
    (if nonempty (snd sm) then Ok (Some (fst sm)) else Ok None)
  else Ok (Some service).

(* value transform of RpcServiceController: wrap in a PrefixInvoker iff strip is set *)
Definition rpc_service_sees (prefixes : list bytes) (strip : bool) (service : bytes) : outcome (option bytes) :=
  if strip then prefix_invoker_sees prefixes service else Ok (Some service).

(* ---- rpc/invoker-controller.go ---- *)
Definition invoker_matches (prefixes : list bytes) (service : bytes) : outcome bool :=
  if nonempty prefixes then
    sm <- check_strip_prefix service prefixes ;;
    (if nonempty (snd sm) then Ok true else Ok false)
  else Ok true.

Definition invoker_sees (prefixes : list bytes) (service : bytes) : outcome (option bytes) :=
  prefix_invoker_sees prefixes service.

(* ---- http/http-handler-controller.go HandleDirective: (matched, stripPrefix) ---- *)
Definition http_match (prefixes : list bytes) (re : re_opt) (path : bytes) : bool * bytes :=
  let m0 := negb (nonempty prefixes) && negb (re_configured re) in
  let '(m1, sp) := if negb m0 && nonempty prefixes
                   then (match first_match (has_prefix path) prefixes with
                         | Some p => (true, p) | None => (m0, []) end)
                   else (m0, []) in
  let m2 := if negb m1 then (match re with Some f => f path | None => m1 end) else m1 in
  (m2, sp).

Definition http_matches prefixes re path : bool := fst (http_match prefixes re path).

(* net/http.StripPrefix(prefix, h) on a request without RawPath: the handler is
   called with TrimPrefix(path, prefix) iff that is shorter than path; else 404 (None). *)
Definition http_strip_prefix (prefix path : bytes) : outcome (option bytes) :=
  if has_prefix path prefix then
    p <- drop_len prefix path ;;
    (if (length p <? length path)%nat then Ok (Some p) else Ok None)
  else Ok None.

Definition http_sees (prefixes : list bytes) (strip : bool) (re : re_opt) (path : bytes) : outcome (option bytes) :=
  let sp := snd (http_match prefixes re path) in
  if strip && nonempty sp then http_strip_prefix sp path else Ok (Some path).

(* ---- MatchServeMuxPattern: the method handed to ServeMux.Handler ---- *)
Definition mux_method (m : bytes) : bytes := if nonempty m then m else default_mux_method.
