(* Correspondence for C40: run the model on the bytes the implementation ran on.
   Pb     : one generated UnmarshalVT on a byte string; on success the harness
            re-marshals the decoded Go struct (MarshalVT) and the decoded field
            values are compared through the canonical form of both decodings.
   Recv   : stream/packet Session.RecvMsg on a finite stream.
   RxPkt  : util/rwc PacketConn rx pump, first packet of a finite stream.
   Estab  : transport/controller readStreamEstablishHeader on a finite stream.
   For the readers the measured heap allocation of the call (bytes,
   runtime.MemStats.TotalAlloc delta) must lie between the large buffers of the
   model's allocation trace and that trace plus the decoder's linear overhead. *)
From Bifrost Require Import Lib.Base Lib.Varint Lib.Proto Decode.Model.
From Bifrost Require Export gen.Descs gen.Decode.

Inductive pb_obs :=
| ObsOk (out : bytes)     (* accepted; re-marshalled value (or the packet for RxPkt) *)
| ObsErr (k : nat)        (* rejected; error class *)
| ObsPanic.

Inductive c40_case :=
| Pb (d : desc) (input : bytes) (obs : pb_obs)
| Recv (max : Z) (d : desc) (stream : bytes) (obs : pb_obs) (lft : Z) (alloc : Z)
| RxPkt (max : Z) (stream : bytes) (obs : pb_obs) (alloc : Z)
| Estab (stream : bytes) (obs : pb_obs) (lft : Z) (alloc : Z).

Definition same_value (d : desc) (t : list fval) (out : bytes) : bool :=
  match decode d out with
  | Ok t' => tree_eqb (canon d t) (canon d t')
  | _ => false
  end.

Definition pb_agree (d : desc) (r : outcome (list fval)) (obs : pb_obs) : bool :=
  match r, obs with
  | Ok t, ObsOk out => same_value d t out
  | Err k, ObsErr k' => Nat.eqb k k'
  | Panic, ObsPanic => true
  | _, _ => false
  end.

Definition sum (tr : list Z) : Z := fold_right Z.add 0 tr.
(* buffers of at least 64 bytes are certainly heap allocations of at least that size *)
Definition big (tr : list Z) : Z := sum (filter (fun a => 64 <=? a) tr).
Definition alloc_slack : Z := 4096.
Definition alloc_ok (tr : list Z) (slen measured : Z) : bool :=
  (big tr <=? measured) && (measured <=? 2 * sum tr + 160 * slen + alloc_slack).

Definition reader_agree (d : desc) (r : list Z * outcome (list fval * bytes))
           (slen : Z) (obs : pb_obs) (lft alloc : Z) : bool :=
  alloc_ok (fst r) slen alloc &&
  match snd r, obs with
  | Ok (t, rest), ObsOk out => same_value d t out && (len rest =? lft)
  | Err k, ObsErr k' => Nat.eqb k k'
  | Panic, ObsPanic => true
  | _, _ => false
  end.

Definition c40_agree (c : c40_case) : bool :=
  match c with
  | Pb d input obs => pb_agree d (decode d input) obs
  | Recv max d s obs lft alloc =>
      reader_agree d (recv_msg dec_session_prefix_len max d s) (len s) obs lft alloc
  | RxPkt max s obs alloc =>
      let r := rx_packet dec_pktconn_prefix_len max s in
      alloc_ok (fst r) (len s) alloc &&
      match snd r, obs with
      | Ok (p, _), ObsOk out => bytes_eqb p out
      | Err k, ObsErr k' => Nat.eqb k k'
      | _, _ => false
      end
  | Estab s obs lft alloc =>
      reader_agree d_transport_controller_StreamEstablish
        (read_establish dec_hdr_prefetch dec_stream_establish_max d_transport_controller_StreamEstablish s)
        (len s) obs lft alloc
  end.
