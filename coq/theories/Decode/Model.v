(* C40 model: (1) the canonical form of a decoded message (what the Go struct
   holds after UnmarshalVT: last-one-wins scalars, merged sub-messages,
   appended repeated fields, oneof replacement, collected unknown fields),
   used by the correspondence check to compare decoded field values;
   (2) the three length-prefixed readers that sit in front of the wire decoder
   on the network paths, with their allocation trace (list of requested buffer
   sizes).  The wire decoder itself is Lib/Proto.v.  Definitions only. *)
From Bifrost Require Import Lib.Base Lib.Varint Lib.Proto.

(* ---------- canonical form ---------- *)

Fixpoint fval_eqb (a b : fval) : bool :=
  match a, b with
  | FVar n v, FVar m w => (n =? m) && (v =? w)
  | FBytes n x, FBytes m y => (n =? m) && bytes_eqb x y
  | FMsg n x, FMsg m y =>
      (n =? m) &&
      (fix go (l1 l2 : list fval) : bool :=
         match l1, l2 with
         | [], [] => true
         | a' :: l1', b' :: l2' => fval_eqb a' b' && go l1' l2'
         | _, _ => false
         end) x y
  | FUnknown x, FUnknown y => bytes_eqb x y
  | _, _ => false
  end.
Definition tree_eqb : list fval -> list fval -> bool := list_eqb fval_eqb.

Definition is_known (e : fval) : bool := match e with FUnknown _ => false | _ => true end.
Definition with_fn (fn : Z) (evs : list fval) : list fval :=
  filter (fun e => is_known e && (fnum e =? fn)) evs.
Definition unknown_of (evs : list fval) : bytes :=
  concat (map (fun e => match e with FUnknown r => r | _ => [] end) evs).
Definition sub_of (e : fval) : list fval := match e with FMsg _ s => s | _ => [] end.

Definition group_members (d : desc) (g : nat) : list Z :=
  flat_map (fun e : Z * label * kind =>
              let '(n, l, _) := e in
              match l with LOneof g' => if Nat.eqb g g' then [n] else [] | _ => [] end) d.

(* the maximal run of events numbered fn at the END of l: a oneof member of
   message type that is hit again while it is the current case is merged
   (the generated code type-asserts m.Body to the same case and calls UnmarshalVT on it),
   any other member in between replaces it *)
Fixpoint trailing_run (fn : Z) (l : list fval) (acc : list fval) : list fval :=
  match l with
  | [] => acc
  | e :: r => if fnum e =? fn then trailing_run fn r (acc ++ [e]) else trailing_run fn r []
  end.

Definition last_opt {A} (l : list A) : option A :=
  match rev l with [] => None | x :: _ => Some x end.

(* proto3: a singular scalar equal to 0 / an empty singular bytes field is the
   same as an absent one; oneof members keep presence *)
Fixpoint norm (fuel : nat) (d : desc) (evs : list fval) : list fval :=
  match fuel with
  | O => evs
  | S f =>
      let nf (e : Z * label * kind) : list fval :=
        let '(num, lab, k) := e in
        match lab with
        | LSingle =>
            match k with
            | KScalar _ => let v := last_var num evs 0 in if v =? 0 then [] else [FVar num v]
            | KBytes => match last_bytes num evs [] with [] => [] | b => [FBytes num b] end
            | KMsg d' =>
                match merged_msg num evs with
                | None => []
                | Some sub => [FMsg num (norm f d' sub)]
                end
            end
        | LRepeated =>
            match k with
            | KMsg d' => map (fun x => FMsg num (norm f d' (sub_of x))) (with_fn num evs)
            | _ => with_fn num evs
            end
        | LOneof g =>
            let mem := group_members d g in
            let gevs := filter (fun x => is_known x && existsb (Z.eqb (fnum x)) mem) evs in
            match last_opt gevs with
            | Some x =>
                if fnum x =? num then
                  match k with
                  | KMsg d' => [FMsg num (norm f d' (flat_map sub_of (trailing_run num gevs [])))]
                  | _ => [x]
                  end
                else []
            | None => []
            end
        end in
      flat_map nf d ++ (match unknown_of evs with [] => [] | u => [FUnknown u] end)
  end.

Definition norm_depth : nat := 32.
Definition canon (d : desc) (evs : list fval) : list fval := norm norm_depth d evs.

(* ---------- length-prefixed readers ---------- *)

(* little-endian unsigned integer of a prefix (binary.LittleEndian.Uint32 on 4 bytes) *)
Fixpoint le_uint (b : bytes) : Z :=
  match b with [] => 0 | x :: r => x + le_uint r * 256 end.

Definition max_int32 : Z := 2147483647.

(* A reader is run on `s`, the bytes the remote side delivers before closing
   the stream.  Result: allocation trace (requested sizes, in order) and the
   outcome (decoded value and the bytes left on the stream). *)

(* stream/packet Session.RecvMsg:
     data := make([]byte, 4); ReadFull; messageLen := LE32(data)
     if messageLen > 0 { if messageLen > max -> error;
                         data = make([]byte, messageLen); ReadFull; UnmarshalVT }
     else msg.Reset() *)
Definition recv_msg (pfx max : Z) (d : desc) (s : bytes) : list Z * outcome (list fval * bytes) :=
  if len s <? pfx then ([pfx], Err E_EOF) else
  let mlen := le_uint (firstn (Z.to_nat pfx) s) in
  let rest := skipn (Z.to_nat pfx) s in
  if 0 <? mlen then
    if max <? mlen then ([pfx], Err E_OTHER)
    else if len rest <? mlen then ([pfx; mlen], Err E_EOF)
    else ([pfx; mlen],
          r <- decode d (firstn (Z.to_nat mlen) rest) ;; Ok (r, skipn (Z.to_nat mlen) rest))
  else ([pfx], Ok ([], rest)).

(* util/rwc PacketConn.rxPump, one packet:
     ReadFull(header[:]); pktLen := LE32; 0 -> error; > max -> error;
     pktBuf := getArenaBuf(pktLen); ReadFull *)
Definition rx_packet (pfx max : Z) (s : bytes) : list Z * outcome (bytes * bytes) :=
  if len s <? pfx then ([], Err E_EOF) else
  let plen := le_uint (firstn (Z.to_nat pfx) s) in
  let rest := skipn (Z.to_nat pfx) s in
  if plen =? 0 then ([], Err E_OTHER)
  else if max <? plen then ([], Err E_OTHER)
  else if len rest <? plen then ([plen], Err E_EOF)
  else ([plen], Ok (firstn (Z.to_nat plen) rest, skipn (Z.to_nat plen) rest)).

(* transport/controller readStreamEstablishHeader:
     b := make([]byte, 4); readAtLeast 4; headerLen, n := ConsumeVarint(b)
     n <= 0 -> error; > MaxInt32 -> error; > max || == 0 -> error
     headerBuf := make([]byte, headerLen); copy(headerBuf, b[n:]); read the rest; UnmarshalVT
   the bytes of the prefetch that lie beyond the header are consumed (lost) *)
Definition read_establish (pre max : Z) (d : desc) (s : bytes) : list Z * outcome (list fval * bytes) :=
  if len s <? pre then ([pre], Err E_EOF) else
  match varint_dec (firstn (Z.to_nat pre) s) with
  | VErr => ([pre], Err E_OTHER)
  | VOk hl n =>
      if max_int32 <? hl then ([pre], Err E_OTHER)
      else if (max <? hl) || (hl =? 0) then ([pre], Err E_OTHER)
      else
        let body := skipn n s in
        if len body <? hl then ([pre; hl], Err E_EOF)
        else ([pre; hl],
              r <- decode d (firstn (Z.to_nat hl) body) ;;
              Ok (r, skipn (Z.to_nat (Z.max pre (Z.of_nat n + hl))) s))
  end.
