(* C40 proofs: the length-prefixed readers never request a buffer above their
   limit, never panic, and what the wire decoder builds from an accepted frame
   is bounded by the limit; instantiation of the generic decoder theorems at
   every regenerated descriptor. *)
From Bifrost Require Import Lib.Base Lib.Varint Lib.Proto Lib.ProtoProofs Decode.Model.
From Bifrost Require Import gen.Descs gen.Decode.

Definition all_le (m : Z) (tr : list Z) : Prop := Forall (fun a => a <= m) tr.
Definition total (tr : list Z) : Z := fold_right Z.add 0 tr.

Lemma len_firstn_le n (b : bytes) : len (firstn n b) <= len b /\ len (firstn n b) <= Z.of_nat n.
Proof. unfold len. rewrite firstn_length. lia. Qed.

Lemma len_firstn_z z (b : bytes) : 0 <= z -> len (firstn (Z.to_nat z) b) <= z.
Proof. intros H. pose proof (len_firstn_le (Z.to_nat z) b). lia. Qed.

Lemma len_skipn_le n (b : bytes) : len (skipn n b) <= len b.
Proof. unfold len. rewrite skipn_length. lia. Qed.

(* ---- Session.RecvMsg ---- *)
Lemma recv_msg_alloc pfx max d s : all_le (Z.max pfx max) (fst (recv_msg pfx max d s)).
Proof.
  unfold recv_msg, all_le. destruct (len s <? pfx); cbn [fst]; [repeat constructor; lia|].
  cbv zeta. destruct (0 <? _); cbn [fst]; [|repeat constructor; lia].
  destruct (Z.ltb_spec max (le_uint (firstn (Z.to_nat pfx) s))); cbn [fst]; [repeat constructor; lia|].
  destruct (len _ <? _); cbn [fst]; repeat constructor; lia.
Qed.

Lemma recv_msg_spec pfx max d s : len s < two63 ->
  ospec (fun r => tsize (fst r) <= Z.max 0 max /\ tcount (fst r) <= Z.max 0 max /\ len (snd r) <= len s)
        (snd (recv_msg pfx max d s)).
Proof.
  intros Hl. unfold recv_msg. destruct (len s <? pfx); cbn [snd]; [err|].
  cbv zeta. set (mlen := le_uint _). set (rest := skipn _ s).
  pose proof (len_skipn_le (Z.to_nat pfx) s) as Hrest. fold rest in Hrest.
  destruct (Z.ltb_spec 0 mlen); cbn [snd].
  - destruct (Z.ltb_spec max mlen); cbn [snd]; [err|].
    destruct (len rest <? mlen); cbn [snd]; [err|].
    pose proof (len_firstn_le (Z.to_nat mlen) rest) as [F1 F2].
    eapply ospec_bind; [apply decode_spec; lia|]. intros r [R1 R2].
    apply ospec_ok. cbn [fst snd]. pose proof (len_skipn_le (Z.to_nat mlen) rest). lia.
  - apply ospec_ok. cbn [fst snd tsize tcount]. lia.
Qed.

Theorem recv_msg_no_panic pfx max d s : len s < two63 -> snd (recv_msg pfx max d s) <> Panic.
Proof. intros Hl E. pose proof (recv_msg_spec pfx max d s Hl) as H. rewrite E in H. exact H. Qed.

Theorem recv_msg_decoded_bound pfx max d s t rest : len s < two63 ->
  snd (recv_msg pfx max d s) = Ok (t, rest) -> tsize t <= Z.max 0 max /\ tcount t <= Z.max 0 max.
Proof.
  intros Hl E. pose proof (recv_msg_spec pfx max d s Hl) as H. rewrite E in H.
  cbn [ospec fst snd] in H. tauto.
Qed.

(* buffers requested + byte strings built by the decoder, for one message *)
Theorem recv_msg_total_alloc pfx max d s t rest : len s < two63 -> 0 <= pfx ->
  snd (recv_msg pfx max d s) = Ok (t, rest) ->
  total (fst (recv_msg pfx max d s)) + tsize t <= pfx + 2 * Z.max 0 max.
Proof.
  intros Hl Hp E. pose proof (recv_msg_decoded_bound pfx max d s t rest Hl E) as [B _].
  revert E. unfold recv_msg. destruct (len s <? pfx); cbn [fst snd]; [discriminate|].
  cbv zeta. destruct (Z.ltb_spec 0 (le_uint (firstn (Z.to_nat pfx) s))); cbn [fst snd].
  - destruct (Z.ltb_spec max (le_uint (firstn (Z.to_nat pfx) s))); cbn [fst snd]; [discriminate|].
    destruct (len _ <? _); cbn [fst snd]; [discriminate|]. intros _. unfold total. cbn [fold_right]. lia.
  - intros _. unfold total. cbn [fold_right]. lia.
Qed.

(* ---- PacketConn.rxPump ---- *)
Lemma rx_packet_alloc pfx max s : all_le max (fst (rx_packet pfx max s)).
Proof.
  unfold rx_packet, all_le. destruct (len s <? pfx); cbn [fst]; [constructor|].
  cbv zeta. destruct (_ =? 0); cbn [fst]; [constructor|].
  destruct (Z.ltb_spec max (le_uint (firstn (Z.to_nat pfx) s))); cbn [fst]; [constructor|].
  destruct (len _ <? _); cbn [fst]; repeat constructor; lia.
Qed.

Theorem rx_packet_no_panic pfx max s : snd (rx_packet pfx max s) <> Panic.
Proof.
  unfold rx_packet. destruct (len s <? pfx); cbn [snd]; [discriminate|].
  cbv zeta. destruct (_ =? 0); cbn [snd]; [discriminate|].
  destruct (max <? _); cbn [snd]; [discriminate|].
  destruct (len _ <? _); cbn [snd]; discriminate.
Qed.

Theorem rx_packet_size pfx max s p rest :
  snd (rx_packet pfx max s) = Ok (p, rest) -> len p <= Z.max 0 max.
Proof.
  unfold rx_packet. destruct (len s <? pfx); cbn [snd]; [discriminate|].
  cbv zeta. set (plen := le_uint _). set (r := skipn _ s).
  destruct (Z.eqb_spec plen 0); cbn [snd]; [discriminate|].
  destruct (Z.ltb_spec max plen); cbn [snd]; [discriminate|].
  destruct (Z.ltb_spec (len r) plen); cbn [snd]; [discriminate|].
  intros E. injection E as <- _.
  unfold len in *. rewrite firstn_length. lia.
Qed.

(* ---- readStreamEstablishHeader ---- *)
Lemma read_establish_alloc pre max d s : all_le (Z.max pre max) (fst (read_establish pre max d s)).
Proof.
  unfold read_establish, all_le. destruct (len s <? pre); cbn [fst]; [repeat constructor; lia|].
  destruct (varint_dec _) as [hl n|]; cbn [fst]; [|repeat constructor; lia].
  destruct (max_int32 <? hl); cbn [fst]; [repeat constructor; lia|].
  destruct (Z.ltb_spec max hl); cbn [orb fst]; [repeat constructor; lia|].
  destruct (hl =? 0); cbn [fst]; [repeat constructor; lia|].
  cbv zeta. destruct (len _ <? hl); cbn [fst]; repeat constructor; lia.
Qed.

Lemma read_establish_spec pre max d s : len s < two63 ->
  ospec (fun r => tsize (fst r) <= Z.max 0 max /\ tcount (fst r) <= Z.max 0 max)
        (snd (read_establish pre max d s)).
Proof.
  intros Hl. unfold read_establish. destruct (len s <? pre); cbn [snd]; [err|].
  destruct (varint_dec _) as [hl n|]; cbn [snd]; [|err].
  destruct (max_int32 <? hl); cbn [snd]; [err|].
  destruct (Z.ltb_spec max hl); cbn [orb snd]; [err|].
  destruct (Z.eqb_spec hl 0); cbn [snd]; [err|].
  cbv zeta. destruct (len _ <? hl); cbn [snd]; [err|].
  pose proof (len_firstn_le (Z.to_nat hl) (skipn n s)) as [F1 F2].
  pose proof (len_skipn_le n s).
  eapply ospec_bind; [apply decode_spec; lia|]. intros r [R1 R2].
  apply ospec_ok. cbn [fst snd]. lia.
Qed.

Theorem read_establish_no_panic pre max d s : len s < two63 -> snd (read_establish pre max d s) <> Panic.
Proof. intros Hl E. pose proof (read_establish_spec pre max d s Hl) as H. rewrite E in H. exact H. Qed.

Theorem read_establish_decoded_bound pre max d s t rest : len s < two63 ->
  snd (read_establish pre max d s) = Ok (t, rest) -> tsize t <= Z.max 0 max /\ tcount t <= Z.max 0 max.
Proof.
  intros Hl E. pose proof (read_establish_spec pre max d s Hl) as H. rewrite E in H.
  cbn [ospec fst snd] in H. tauto.
Qed.

(* ---- every regenerated descriptor ---- *)
Definition decoder_safe (d : desc) : Prop :=
  forall buf, len buf < two63 ->
    decode d buf <> Panic /\ decode d buf <> Err E_FUEL /\
    (forall t, decode d buf = Ok t -> 0 <= tsize t <= len buf /\ tcount t <= len buf).

Lemma any_decoder_safe d : decoder_safe d.
Proof.
  intros buf Hl. split; [apply decode_no_panic; exact Hl|].
  split; [apply decode_fuel_ok; exact Hl|]. intros t E. apply (decode_alloc d buf t Hl E).
Qed.

Theorem all_descs_safe : Forall (fun nd => decoder_safe (snd nd)) all_descs.
Proof. apply Forall_forall. intros nd _. apply any_decoder_safe. Qed.

(* ---- the configured readers of /repo (limits regenerated from source) ---- *)
Theorem floodsub_recv_alloc s :
  all_le dec_floodsub_max_msg (fst (recv_msg dec_session_prefix_len dec_floodsub_max_msg d_floodsub_Packet s)).
Proof.
  pose proof (recv_msg_alloc dec_session_prefix_len dec_floodsub_max_msg d_floodsub_Packet s) as H.
  assert (E : Z.max dec_session_prefix_len dec_floodsub_max_msg = dec_floodsub_max_msg) by (vm_compute; reflexivity).
  rewrite E in H. exact H.
Qed.

Theorem solicit_recv_alloc s :
  all_le dec_solicit_max_msg
         (fst (recv_msg dec_session_prefix_len dec_solicit_max_msg d_link_solicit_SolicitationExchange s)).
Proof.
  pose proof (recv_msg_alloc dec_session_prefix_len dec_solicit_max_msg d_link_solicit_SolicitationExchange s) as H.
  assert (E : Z.max dec_session_prefix_len dec_solicit_max_msg = dec_solicit_max_msg) by (vm_compute; reflexivity).
  rewrite E in H. exact H.
Qed.

Theorem establish_alloc s :
  all_le dec_stream_establish_max
         (fst (read_establish dec_hdr_prefetch dec_stream_establish_max d_transport_controller_StreamEstablish s)).
Proof.
  pose proof (read_establish_alloc dec_hdr_prefetch dec_stream_establish_max d_transport_controller_StreamEstablish s) as H.
  assert (E : Z.max dec_hdr_prefetch dec_stream_establish_max = dec_stream_establish_max) by (vm_compute; reflexivity).
  rewrite E in H. exact H.
Qed.
