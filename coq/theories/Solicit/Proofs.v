From Bifrost Require Import Lib.Base Lib.Lex Lib.Sym Solicit.Model.

Lemma session_id_sym a b : session_id a b = session_id b a.
Proof.
  unfold session_id.
  destruct (lex_gt a b) eqn:E1, (lex_gt b a) eqn:E2; try reflexivity.
  - rewrite lex_gt_lt in E1. unfold lex_gt, lex_lt in *.
    destruct (lex_cmp b a); discriminate.
  - assert (a = b) as ->; [|reflexivity].
    apply lex_cmp_eq. unfold lex_gt in *. rewrite (lex_cmp_antisym a b) in E2.
    destruct (lex_cmp a b); cbn in *; congruence.
Qed.

(* Injectivity needs peer IDs to be self-delimiting: P is any prefix-free set
   of byte strings (instantiated with well-formed multihashes in Id/). *)
Section SessionInj.
  Variable P : bytes -> Prop.
  Hypothesis P_prefix_free : forall a c x y, P a -> P c -> a ++ x = c ++ y -> a = c.

  Lemma session_id_inj a b c d :
    P a -> P b -> P c -> P d ->
    session_id a b = session_id c d -> (a = c /\ b = d) \/ (a = d /\ b = c).
  Proof.
    intros Pa Pb Pc Pd H. unfold session_id in H.
    apply fout_inj in H as [_ H]; [|vm_compute; lia].
    rewrite <- !lift_app in H. apply lift_inj in H.
    destruct (lex_gt a b), (lex_gt c d).
    - pose proof (P_prefix_free _ _ _ _ Pb Pd H); subst. apply app_inv_head in H. auto.
    - pose proof (P_prefix_free _ _ _ _ Pb Pc H); subst. apply app_inv_head in H. auto.
    - pose proof (P_prefix_free _ _ _ _ Pa Pd H); subst. apply app_inv_head in H. auto.
    - pose proof (P_prefix_free _ _ _ _ Pa Pc H); subst. apply app_inv_head in H. auto.
  Qed.
End SessionInj.

Lemma find_matching_unfold x l' y r' :
  find_matching (x :: l') (y :: r') =
  match lex_cmp x y with
  | Eq => x :: find_matching l' r'
  | Lt => find_matching l' (y :: r')
  | Gt => find_matching (x :: l') r'
  end.
Proof. reflexivity. Qed.

Lemma find_matching_nil_r l : find_matching l [] = [].
Proof. destruct l; reflexivity. Qed.

Definition beq_dec : forall a b : bytes, {a = b} + {a <> b} := list_eq_dec Z.eq_dec.
Definition cnt (x : bytes) (l : list bytes) : nat := count_occ beq_dec l x.

Lemma cnt_zero_below y x l :
  lex_sorted (x :: l) -> lex_cmp y x = Lt -> cnt y (x :: l) = 0%nat.
Proof.
  intros [Hx _] Hlt. unfold cnt. apply count_occ_not_In. intros [E|Hin].
  - subst. rewrite lex_cmp_refl in Hlt. discriminate.
  - specialize (Hx _ Hin).
    assert (lex_cmp y y = Lt); [|rewrite lex_cmp_refl in *; discriminate].
    destruct (lex_cmp x y) eqn:E; [|eapply lex_cmp_trans_lt; eauto|congruence].
    apply lex_cmp_eq in E; subst. rewrite lex_cmp_refl in Hlt; discriminate.
Qed.

Lemma find_matching_count x : forall l r,
  lex_sorted l -> lex_sorted r ->
  cnt x (find_matching l r) = Nat.min (cnt x l) (cnt x r).
Proof.
  induction l as [|a l IHl]; intros r Hl Hr; [reflexivity|].
  induction r as [|b r IHr]; [rewrite find_matching_nil_r; cbn; lia|].
  rewrite find_matching_unfold.
  destruct (lex_cmp a b) eqn:E.
  - apply lex_cmp_eq in E; subst b. destruct Hl as [_ Hl], Hr as [_ Hr].
    unfold cnt in *. cbn [count_occ]. specialize (IHl r Hl Hr).
    destruct (beq_dec a x); lia.
  - rewrite (IHl (b :: r)); [|apply Hl|exact Hr].
    unfold cnt. cbn [count_occ]. destruct (beq_dec a x) as [->|]; [|reflexivity].
    pose proof (cnt_zero_below x b r Hr E) as Z0. unfold cnt in Z0. cbn [count_occ] in Z0. lia.
  - rewrite IHr; [|apply Hr].
    unfold cnt. cbn [count_occ]. destruct (beq_dec b x) as [->|]; [|reflexivity].
    assert (E' : lex_cmp x a = Lt) by (rewrite (lex_cmp_antisym a x), E; reflexivity).
    pose proof (cnt_zero_below x a l Hl E') as Z0. unfold cnt in Z0. cbn [count_occ] in Z0. lia.
Qed.

(* every element of the result comes from l, in the order of l *)
Inductive sublist {A} : list A -> list A -> Prop :=
| sub_nil l : sublist [] l
| sub_take x s l : sublist s l -> sublist (x :: s) (x :: l)
| sub_skip x s l : sublist s l -> sublist s (x :: l).

Lemma find_matching_sublist : forall l r, sublist (find_matching l r) l.
Proof.
  induction l as [|a l IHl]; intros r; [constructor|].
  induction r as [|b r IHr]; [rewrite find_matching_nil_r; constructor|].
  rewrite find_matching_unfold. destruct (lex_cmp a b).
  - apply sub_take, IHl.
  - apply sub_skip, IHl.
  - exact IHr.
Qed.

Lemma sublist_in {A} (s l : list A) x : sublist s l -> In x s -> In x l.
Proof. induction 1; cbn; intros Hin; try tauto; destruct Hin; auto. Qed.

Lemma sublist_sorted s l : sublist s l -> lex_sorted l -> lex_sorted s.
Proof.
  induction 1 as [l|x s l Hs IH|x s l Hs IH]; cbn; intros Hl; auto.
  - destruct Hl as [H1 H2]. split; [|auto]. intros y Hy. apply H1. eapply sublist_in; eauto.
  - apply IH, Hl.
Qed.

Lemma find_matching_sorted l r : lex_sorted l -> lex_sorted (find_matching l r).
Proof. intros. eapply sublist_sorted; [apply find_matching_sublist|assumption]. Qed.

(* set reading: membership is exactly membership in both *)
Lemma find_matching_in x l r :
  lex_sorted l -> lex_sorted r ->
  (In x (find_matching l r) <-> In x l /\ In x r).
Proof.
  intros Hl Hr. pose proof (find_matching_count x l r Hl Hr) as C. unfold cnt in C.
  rewrite (count_occ_In beq_dec), (count_occ_In beq_dec l), (count_occ_In beq_dec r). lia.
Qed.
