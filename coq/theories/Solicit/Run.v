(* Correspondence: run the model on the inputs the implementation ran on. *)
From Bifrost Require Import Lib.Base Lib.Lex Lib.Sym Solicit.Model.

Inductive c32_case :=
| SidEq (a b c d : bytes) (obs_equal : bool)
| Match (l r : list bytes) (obs : list bytes).

Definition c32_agree (c : c32_case) : bool :=
  match c with
  | SidEq a b c d obs => Bool.eqb (sbytes_eqb (session_id a b) (session_id c d)) obs
  | Match l r obs => list_eqb bytes_eqb (find_matching l r) obs
  end.
