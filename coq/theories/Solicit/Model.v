(* Model of link/solicit/hash.go: session identifier, protocol hash, sorted intersection. *)
From Bifrost Require Import Lib.Base Lib.Lex Lib.Sym Lib.Varint gen.Solicit.

Definition FN_BLAKE3 : nat := 3%nat.
(* HashSize, regenerated from link/solicit/hash.go *)
Definition hash_size : nat := Z.to_nat solicit_hash_size.

(* ComputeSessionID: BLAKE3(lower || higher), peers ordered as Go strings. *)
Definition session_id (a b : bytes) : sbytes :=
  let lo := if lex_gt a b then b else a in
  let hi := if lex_gt a b then a else b in
  fout FN_BLAKE3 hash_size (lift lo ++ lift hi).

(* ComputeProtocolHash: BLAKE3(session_id || uvarint(len protocol_id) || protocol_id || context). *)
Definition protocol_hash (sid : sbytes) (pid ctx : bytes) : sbytes :=
  fout FN_BLAKE3 hash_size
       (sid ++ lift (varint_enc (Z.of_nat (length pid))) ++ lift pid ++ lift ctx).

(* FindMatchingHashes: the two-index merge loop; i advances on Lt, j on Gt, both on Eq. *)
Fixpoint find_matching (l r : list bytes) : list bytes :=
  match l with
  | [] => []
  | x :: l' =>
      (fix inner (r : list bytes) : list bytes :=
         match r with
         | [] => []
         | y :: r' =>
             match lex_cmp x y with
             | Eq => x :: find_matching l' r'
             | Lt => find_matching l' (y :: r')
             | Gt => inner r'
             end
         end) r
  end.
