(* C37 proofs: equivalence implies equal resolution parameters, per type.
   These proofs are checked against the REGENERATED gen/Equiv.v: dropping a
   comparison from a Go IsEquivalent removes a conjunct and the proof of that
   type no longer closes. *)
From Bifrost Require Import Lib.Base gen.Equiv Dir.Model.

Definition injective (f : bytes -> bytes) : Prop := forall x y, f x = f y -> x = y.

Ltac equiv_tac H Hinj :=
  repeat (apply andb_true_iff in H; let H' := fresh "E" in destruct H as [H H']);
  repeat match goal with
         | E : bytes_eqb _ _ = true |- _ => apply bytes_eqb_spec in E
         | E : Z.eqb _ _ = true |- _ => apply Z.eqb_eq in E
         end;
  repeat match goal with
         | E : ?f _ = ?f _ |- _ => apply Hinj in E
         end;
  cbn in *; subst; try congruence; reflexivity.

Section Equiv.
  Variable str : bytes -> bytes.
  Hypothesis str_inj : injective str.

  Lemma solicitProtocol_sound a b :
    solicitProtocol_is_equivalent str a b = true -> solicitProtocol_params a = solicitProtocol_params b.
  Proof. destruct a, b. unfold solicitProtocol_is_equivalent, solicitProtocol_params. intros H. equiv_tac H str_inj. Qed.

  Lemma establishLinkWithPeer_sound a b :
    establishLinkWithPeer_is_equivalent str a b = true -> establishLinkWithPeer_params a = establishLinkWithPeer_params b.
  Proof. destruct a, b. unfold establishLinkWithPeer_is_equivalent, establishLinkWithPeer_params. intros H. equiv_tac H str_inj. Qed.

  Lemma handleMountedStream_sound a b :
    handleMountedStream_is_equivalent str a b = true -> handleMountedStream_params a = handleMountedStream_params b.
  Proof. destruct a, b. unfold handleMountedStream_is_equivalent, handleMountedStream_params. intros H. equiv_tac H str_inj. Qed.

  Lemma dialTptAddr_sound a b :
    dialTptAddr_is_equivalent str a b = true -> dialTptAddr_params a = dialTptAddr_params b.
  Proof.
    destruct a as [[aa ar] asrc adst], b as [[ba br] bsrc bdst].
    unfold dialTptAddr_is_equivalent, dialTptAddr_params. intros H. equiv_tac H str_inj.
  Qed.

  Lemma lookupTptAddr_sound a b :
    lookupTptAddr_is_equivalent str a b = true -> lookupTptAddr_params a = lookupTptAddr_params b.
  Proof. destruct a, b. unfold lookupTptAddr_is_equivalent, lookupTptAddr_params. intros H. equiv_tac H str_inj. Qed.

  Lemma lookupTransport_sound a b :
    lookupTransport_is_equivalent str a b = true -> lookupTransport_params a = lookupTransport_params b.
  Proof. destruct a, b. unfold lookupTransport_is_equivalent, lookupTransport_params. intros H. equiv_tac H str_inj. Qed.

  Lemma lookupRpcService_sound a b :
    lookupRpcService_is_equivalent str a b = true -> lookupRpcService_params a = lookupRpcService_params b.
  Proof. destruct a, b. unfold lookupRpcService_is_equivalent, lookupRpcService_params. intros H. equiv_tac H str_inj. Qed.

  Lemma lookupRpcClient_sound a b :
    lookupRpcClient_is_equivalent str a b = true -> lookupRpcClient_params a = lookupRpcClient_params b.
  Proof. destruct a, b. unfold lookupRpcClient_is_equivalent, lookupRpcClient_params. intros H. equiv_tac H str_inj. Qed.

  Lemma lookupHTTPHandler_sound a b :
    lookupHTTPHandler_is_equivalent str a b = true -> lookupHTTPHandler_params a = lookupHTTPHandler_params b.
  Proof.
    destruct a as [am [au ap] ac], b as [bm [bu bp] bc].
    unfold lookupHTTPHandler_is_equivalent, lookupHTTPHandler_params. intros H. equiv_tac H str_inj.
  Qed.

  Lemma signalPeer_sound a b :
    signalPeer_is_equivalent str a b = true -> signalPeer_params a = signalPeer_params b.
  Proof. destruct a, b. unfold signalPeer_is_equivalent, signalPeer_params. intros H. equiv_tac H str_inj. Qed.

  Lemma getPeer_sound a b :
    getPeer_is_equivalent str a b = true -> getPeer_params a = getPeer_params b.
  Proof. destruct a, b. unfold getPeer_is_equivalent, getPeer_params. intros H. equiv_tac H str_inj. Qed.
End Equiv.

(* String() equal, Path different: the HTTP lookup is de-duplicated on a rendering that does not
   determine the parameter the resolvers read *)
Lemma lookupHTTPHandler_refuted :
  exists a b, lookupHTTPHandler_is_equivalent (fun x => x) a b = true /\
              lookupHTTPHandler_resolution_params a <> lookupHTTPHandler_resolution_params b.
Proof. exists c37_witness_a, c37_witness_b. split; [reflexivity|discriminate]. Qed.

(* the parameter lists above were written for these struct shapes: a new field in
   the Go struct changes the generated count and forces a review of Dir/Model.v *)
Lemma field_counts_reviewed :
  (solicitProtocol_field_count, establishLinkWithPeer_field_count, handleMountedStream_field_count,
   dialTptAddr_field_count, lookupTptAddr_field_count, lookupTransport_field_count,
   lookupRpcService_field_count, lookupRpcClient_field_count, lookupHTTPHandler_field_count,
   signalPeer_field_count, getPeer_field_count)
  = (4, 2, 3, 3, 1, 2, 2, 2, 3, 3, 1)%nat.
Proof. reflexivity. Qed.
