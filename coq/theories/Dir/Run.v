(* C37 correspondence: the real IsEquivalent on pairs of real directive instances vs the
   generated is_equivalent on the same parameter records.  Peer ids are passed as raw
   bytes, URLs as the text String() renders, so the String() projection is the identity here. *)
From Bifrost Require Export Lib.Base gen.Equiv Dir.Model.

Inductive c37_case :=
| EqSolicit (a b : solicitProtocol) (obs : bool)
| EqEstablish (a b : establishLinkWithPeer) (obs : bool)
| EqHandleStream (a b : handleMountedStream) (obs : bool)
| EqDial (a b : dialTptAddr) (obs : bool)
| EqLookupAddr (a b : lookupTptAddr) (obs : bool)
| EqLookupTpt (a b : lookupTransport) (obs : bool)
| EqRpcService (a b : lookupRpcService) (obs : bool)
| EqRpcClient (a b : lookupRpcClient) (obs : bool)
| EqHttp (a b : lookupHTTPHandler) (obs : bool)
| EqSignal (a b : signalPeer) (obs : bool)
| EqGetPeer (a b : getPeer) (obs : bool)
(* the two real url.URL values of the refutation witness, as records, and the real IsEquivalent on them *)
| HttpWitness (a b : lookupHTTPHandler) (obs : bool).

Definition idb (x : bytes) : bytes := x.

Definition http_eqb (a b : lookupHTTPHandler) : bool :=
  bytes_eqb (lookupHTTPHandler_handlerMethod a) (lookupHTTPHandler_handlerMethod b)
  && bytes_eqb (url_text (lookupHTTPHandler_handlerURL a)) (url_text (lookupHTTPHandler_handlerURL b))
  && bytes_eqb (url_path (lookupHTTPHandler_handlerURL a)) (url_path (lookupHTTPHandler_handlerURL b))
  && bytes_eqb (lookupHTTPHandler_clientID a) (lookupHTTPHandler_clientID b).

Definition c37_agree (c : c37_case) : bool :=
  match c with
  | EqSolicit a b o => Bool.eqb (solicitProtocol_is_equivalent idb a b) o
  | EqEstablish a b o => Bool.eqb (establishLinkWithPeer_is_equivalent idb a b) o
  | EqHandleStream a b o => Bool.eqb (handleMountedStream_is_equivalent idb a b) o
  | EqDial a b o => Bool.eqb (dialTptAddr_is_equivalent idb a b) o
  | EqLookupAddr a b o => Bool.eqb (lookupTptAddr_is_equivalent idb a b) o
  | EqLookupTpt a b o => Bool.eqb (lookupTransport_is_equivalent idb a b) o
  | EqRpcService a b o => Bool.eqb (lookupRpcService_is_equivalent idb a b) o
  | EqRpcClient a b o => Bool.eqb (lookupRpcClient_is_equivalent idb a b) o
  | EqHttp a b o => Bool.eqb (lookupHTTPHandler_is_equivalent idb a b) o
  | EqSignal a b o => Bool.eqb (signalPeer_is_equivalent idb a b) o
  | EqGetPeer a b o => Bool.eqb (getPeer_is_equivalent idb a b) o
  | HttpWitness a b o =>
      http_eqb a c37_witness_a && http_eqb b c37_witness_b
      && Bool.eqb (lookupHTTPHandler_is_equivalent idb a b) o
  end.
