(* C37 model.  gen/Equiv.v (regenerated from the Go source on every run) gives, per
   directive type, the record of constructor parameters and `<type>_is_equivalent`
   built from exactly the comparisons IsEquivalent makes.  This file is the
   hand-written half: which parameters decide how a directive is resolved.

   pv = one resolution parameter value. *)
From Bifrost Require Import Lib.Base gen.Equiv.

Inductive pv := PB (b : bytes) | PZ (z : Z).

(* link/solicit: the controller matches on protocol id + context (hash), the
   remote peer constraint and the transport constraint (SolicitProtocolTransportID
   restricts which links are solicited). *)
Definition solicitProtocol_params (d : solicitProtocol) : list pv :=
  [PB (solicitProtocol_protocolID d); PB (solicitProtocol_context d);
   PB (solicitProtocol_peerID d); PZ (solicitProtocol_transportID d)].

(* link/establish-link: source and destination peer *)
Definition establishLinkWithPeer_params (d : establishLinkWithPeer) : list pv :=
  [PB (establishLinkWithPeer_src d); PB (establishLinkWithPeer_dest d)].

(* link/handle-mounted-stream: protocol, local peer, remote peer (all read by the handlers of C34) *)
Definition handleMountedStream_params (d : handleMountedStream) : list pv :=
  [PB (handleMountedStream_protocolID d); PB (handleMountedStream_localPeerID d);
   PB (handleMountedStream_remotePeerID d)].

(* tptaddr/dial-tpt-addr: source peer, destination peer and the dial ADDRESS.
   The rest of DialerOpts (backoff) only tunes the retry timing of the dialer that is
   keyed by (destination, address) in transport/controller (linkDialerKey); it does
   not select what is dialed, so it is not a resolution parameter. *)
Definition dialTptAddr_params (d : dialTptAddr) : list pv :=
  [PB (dialTptAddr_src d); PB (dialTptAddr_dest d); PB (opts_address (dialTptAddr_dialerOpts d))].

Definition lookupTptAddr_params (d : lookupTptAddr) : list pv := [PB (lookupTptAddr_dest d)].

Definition lookupTransport_params (d : lookupTransport) : list pv :=
  [PB (lookupTransport_peerIDConstraint d); PZ (lookupTransport_transportIDConstraint d)].

Definition lookupRpcService_params (d : lookupRpcService) : list pv :=
  [PB (lookupRpcService_serviceID d); PB (lookupRpcService_serverID d)].

Definition lookupRpcClient_params (d : lookupRpcClient) : list pv :=
  [PB (lookupRpcClient_serviceID d); PB (lookupRpcClient_clientID d)].

(* http lookup: method, URL and client id.
   lookupHTTPHandler_params takes the URL AS ITS String() FORM, which is what the code compares;
   lookupHTTPHandler_resolution_params takes the URL's Path, which is what HTTPHandlerController
   resolves on.  The two differ: URL.String() is not injective on url.URL values
   (c37_lookup_http_handler_refuted; KNOWN FINDING equiv-merges-lookupHTTPHandler-handlerURL-path). *)
Definition lookupHTTPHandler_params (d : lookupHTTPHandler) : list pv :=
  [PB (lookupHTTPHandler_handlerMethod d); PB (url_text (lookupHTTPHandler_handlerURL d));
   PB (lookupHTTPHandler_clientID d)].
Definition lookupHTTPHandler_resolution_params (d : lookupHTTPHandler) : list pv :=
  [PB (lookupHTTPHandler_handlerMethod d); PB (url_path (lookupHTTPHandler_handlerURL d));
   PB (lookupHTTPHandler_clientID d)].

(* the witness: url.URL{Host:"x"} and url.URL{Path:"//x"} both render "//x".
   The harness builds exactly these two values and the correspondence checks that the
   records below are what the real url.URL values look like (case HttpWitness). *)
Definition c37_witness_a : lookupHTTPHandler :=
  mk_lookupHTTPHandler [71;69;84] (mk_url [47;47;120] []) [].
Definition c37_witness_b : lookupHTTPHandler :=
  mk_lookupHTTPHandler [71;69;84] (mk_url [47;47;120] [47;47;120]) [].

Definition signalPeer_params (d : signalPeer) : list pv :=
  [PB (signalPeer_signalingID d); PB (signalPeer_localPeerID d); PB (signalPeer_remotePeerID d)].

Definition getPeer_params (d : getPeer) : list pv := [PB (getPeer_peerIDConstraint d)].
