(* Correspondence for C05 *)
From Bifrost Require Import Lib.Base Link.Model Dial.Model.

Definition dres_code (d : dres) : Z :=
  match d with DLink p => p | DNoLink => 0 | DErr => -1 end.

Inductive c05_case :=
(* independent Transport.DialPeer(x, a) calls on a real quic transport; obs: per
   Attempt the remote peer of the returned link (>0), 0 = (nil,nil), -1 = error;
   final: the peer registered at the address (0 = none) *)
| Calls (x a ra : Z) (e : list env) (obs : list Z) (final : Z)
(* Controller.DialPeerAddr(x, a) with the real retry loop: obs = peer of the
   link it returned (0 = still waiting when the script ended) *)
| Loop (x a ra : Z) (e : list env) (obs : Z)
(* overlapping DialPeer calls to the same address with different requested peers,
   the dial held in flight by the harness; obs: result code per call, in call
   order (-2 = still waiting) *)
| Shared (a : Z) (e : list cev) (obs : list Z)
(* the link obtained by the controller's dialer for (x, a) is lost while the
   dialer key stays referenced (others: the peer has another link): obs = the
   peer registered at the address after the controller had time to re-dial *)
| Redial (x a ra : Z) (others : bool) (e : list env) (obs : Z).

Fixpoint res_lookup (i : nat) (l : list (nat * dres)) : Z :=
  match l with
  | [] => -2
  | (j, d) :: l' => if Nat.eqb i j then dres_code d else res_lookup i l'
  end.

Definition c05_agree (c : c05_case) : bool :=
  match c with
  | Calls x a ra e obs final =>
      let (rs, s) := calls [] x a ra e in
      list_eqb Z.eqb (map dres_code rs) obs &&
      Z.eqb (match aget ra s with Some p => p | None => 0 end) final
  | Loop x a ra e obs =>
      Z.eqb (match dialer_link (fst (dialer_loop [] x a ra e)) with Some p => p | None => 0 end) obs
  | Redial x a ra others e obs =>
      Z.eqb (match aget ra (snd (redial_after_loss others [(ra, x)] x a ra e)) with Some p => p | None => 0 end) obs
  | Shared a e obs =>
      let st := crun a e in
      list_eqb Z.eqb (map (fun i => res_lookup i (c_res st)) (seq 0 (c_next st))) obs
  end.
