(* Model of dialing a peer at an address:
   transport/common/quic/quic.go DialPeer (CheckAlreadyConnected, the per-address
   Dialer, HandleSession registering the link, the remote-peer check),
   handleLinkLost, and the retry loop of transport/common/dialer Dialer.Execute
   as run by transport/controller/link-dialer.go (backoff abstracted to "retry").

   Who answers at the address is an input that changes over time. Peer ids are
   Z, 0 is the empty id; the transport's address table maps an address to the
   authenticated remote peer of the link registered there. *)
From Bifrost Require Import Lib.Base Link.Model.

Inductive ans :=
| Nobody              (* the dial function fails (timeout, refused, handshake error) *)
| Peer (p : Z).       (* the handshake completes; p = authenticated remote peer (C03) *)

Inductive dres :=
| DLink (p : Z)       (* DialPeer returned a link whose remote peer is p, err == nil *)
| DNoLink             (* (nil, false, nil): already connected to that peer at that address *)
| DErr.               (* non-fatal error *)

(* Transport.DialPeer(ctx, x, a) when [who] answers at a.  [a] is the dial
   string, [ra] the resolved form sess.RemoteAddr().String() under which
   HandleSession registers the link (ra = a for canonical addresses; host names
   and other alias forms resolve to something else): CheckAlreadyConnected and
   the dialers table use the dial string, the links table the resolved form. *)
Definition dial_peer (s : amap Z) (x a ra : Z) (who : ans) : dres * amap Z :=
  match aget a s with
  | Some p => if Z.eqb p x then (DNoLink, s) else (DErr, s)   (* CheckAlreadyConnected *)
  | None =>
      match who with
      | Nobody => (DErr, s)
      | Peer p =>
          (* HandleSession: t.links[addr] = lnk; go handler.HandleLinkEstablished(lnk) *)
          let s' := aset ra p s in
          (* the dialers do not constrain the remote identity: compare afterwards *)
          if negb (Z.eqb x 0) && negb (Z.eqb p x) then (DErr, s') else (DLink p, s')
      end
  end.

(* what happens around the dialer as time passes *)
Inductive env :=
| Attempt (who : ans)   (* the next dial attempt is answered by who *)
| Drop.                 (* the link registered at the address is lost (handleLinkLost) *)

(* a sequence of independent DialPeer calls / link losses: results in order *)
Fixpoint calls (s : amap Z) (x a ra : Z) (e : list env) : list dres * amap Z :=
  match e with
  | [] => ([], s)
  | Drop :: e' => calls (adel ra s) x a ra e'
  | Attempt who :: e' =>
      let (r, s') := dial_peer s x a ra who in
      let (rs, s'') := calls s' x a ra e' in
      (r :: rs, s'')
  end.

(* Dialer.Execute: retry until DialPeer returns err == nil; the result is what
   the controller's linkDialer stores in its lnk container (None: still retrying) *)
Fixpoint dialer_loop (s : amap Z) (x a ra : Z) (e : list env) : option dres * amap Z :=
  match e with
  | [] => (None, s)
  | Drop :: e' => dialer_loop (adel ra s) x a ra e'
  | Attempt who :: e' =>
      match dial_peer s x a ra who with
      | (DErr, s') => dialer_loop s' x a ra e'
      | (r, s') => (Some r, s')
      end
  end.

(* the link held by the controller's link dialer for key (x, a) *)
Definition dialer_link (r : option dres) : option Z :=
  match r with Some (DLink p) => Some p | _ => None end.

(* ---- overlapping dials to the same address ----
   t.dialers is keyed by the address only: a DialPeer(x, a) that finds a dialer
   in flight for a joins it, whoever it was created for, and waits for the same
   result; each caller then applies the remote-peer check with ITS OWN
   requested peer.  Calls are numbered in the order they are made. *)
Inductive cev :=
| Call (x : Z)          (* DialPeer(x, a) is entered (up to waiting on the dialer) *)
| Answer (who : ans)    (* the in-flight dial completes *)
| CDrop.                (* the link at a is lost *)

Record cstate := mkC {
  c_tab : amap Z;                 (* t.links *)
  c_wait : list (nat * Z);        (* callers waiting on the in-flight dialer: (call number, requested peer) *)
  c_next : nat;                   (* number of the next call *)
  c_res : list (nat * dres)       (* results delivered so far *)
}.

Definition caller_result (p : Z) (w : nat * Z) : nat * dres :=
  (fst w, if negb (Z.eqb (snd w) 0) && negb (Z.eqb p (snd w)) then DErr else DLink p).

Definition cstep (a : Z) (st : cstate) (e : cev) : cstate :=
  match e with
  | Call x =>
      match c_wait st with
      | _ :: _ =>       (* a dialer is in flight: join it (CheckAlreadyConnected saw no link yet) *)
          mkC (c_tab st) (c_wait st ++ [(c_next st, x)]) (S (c_next st)) (c_res st)
      | [] =>
          match aget a (c_tab st) with
          | Some p =>
              mkC (c_tab st) [] (S (c_next st))
                  (c_res st ++ [(c_next st, if Z.eqb p x then DNoLink else DErr)])
          | None => mkC (c_tab st) [(c_next st, x)] (S (c_next st)) (c_res st)
          end
      end
  | Answer who =>
      match c_wait st with
      | [] => st
      | ws =>
          match who with
          | Nobody => mkC (c_tab st) [] (c_next st) (c_res st ++ map (fun w => (fst w, DErr)) ws)
          | Peer p => mkC (aset a p (c_tab st)) [] (c_next st) (c_res st ++ map (caller_result p) ws)
          end
      end
  | CDrop => mkC (adel a (c_tab st)) (c_wait st) (c_next st) (c_res st)
  end.

Definition crun (a : Z) (es : list cev) : cstate := fold_left (cstep a) es (mkC [] [] 0%nat []).

(* the requested peer of call number i *)
Fixpoint requested (es : list cev) (i : nat) : option Z :=
  match es with
  | [] => None
  | Call x :: es' => match i with O => Some x | S j => requested es' j end
  | _ :: es' => requested es' i
  end.

(* ---- the controller restarts the dialer whose link was lost ----
   controller.go flushEstablishedLink: RestartAllRoutines restarts the link
   dialer keyed (kp, _) iff kp is the lost link's peer, the dialer holds exactly
   that link, and hasNextLink is false.  HandleLinkLost passes hasNextLink =
   false: other links to the same peer play no role. *)
Definition restarts (kp lost_peer : Z) (holds_lost_link has_next : bool) : bool :=
  Z.eqb kp lost_peer && holds_lost_link && negb has_next.

(* after the dialer's link at ra is lost (HandleLinkLost) while the dialer key
   stays referenced: the loop runs again against the environment e; [others] =
   the peer still has other established links *)
Definition redial_after_loss (others : bool) (s : amap Z) (x a ra : Z) (e : list env)
  : option dres * amap Z :=
  if restarts x x true false then dialer_loop (adel ra s) x a ra e else (None, adel ra s).
