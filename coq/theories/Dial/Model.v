(* Model of dialing a peer at an address:
   transport/common/quic/quic.go DialPeer (CheckAlreadyConnected, the per-address
   Dialer, HandleSession registering the link, the remote-peer check),
   handleLinkLost, and the retry loop of transport/common/dialer Dialer.Execute
   as run by transport/controller/link-dialer.go (backoff abstracted to "retry").

   Who answers at the address is an input that changes over time. Peer ids are
   Z, 0 is the empty id; the transport's address table maps an address to the
   authenticated remote peer of the link registered there. *)
From Bifrost Require Import Lib.Base Link.Model.

Inductive ans :=
| Nobody              (* the dial function fails (timeout, refused, handshake error) *)
| Peer (p : Z).       (* the handshake completes; p = authenticated remote peer (C03) *)

Inductive dres :=
| DLink (p : Z)       (* DialPeer returned a link whose remote peer is p, err == nil *)
| DNoLink             (* (nil, false, nil): already connected to that peer at that address *)
| DErr.               (* non-fatal error *)

(* Transport.DialPeer(ctx, x, a) when [who] answers at a *)
Definition dial_peer (s : amap Z) (x a : Z) (who : ans) : dres * amap Z :=
  match aget a s with
  | Some p => if Z.eqb p x then (DNoLink, s) else (DErr, s)   (* CheckAlreadyConnected *)
  | None =>
      match who with
      | Nobody => (DErr, s)
      | Peer p =>
          (* HandleSession: t.links[addr] = lnk; go handler.HandleLinkEstablished(lnk) *)
          let s' := aset a p s in
          (* the dialers do not constrain the remote identity: compare afterwards *)
          if negb (Z.eqb x 0) && negb (Z.eqb p x) then (DErr, s') else (DLink p, s')
      end
  end.

(* what happens around the dialer as time passes *)
Inductive env :=
| Attempt (who : ans)   (* the next dial attempt is answered by who *)
| Drop.                 (* the link registered at the address is lost (handleLinkLost) *)

(* a sequence of independent DialPeer calls / link losses: results in order *)
Fixpoint calls (s : amap Z) (x a : Z) (e : list env) : list dres * amap Z :=
  match e with
  | [] => ([], s)
  | Drop :: e' => calls (adel a s) x a e'
  | Attempt who :: e' =>
      let (r, s') := dial_peer s x a who in
      let (rs, s'') := calls s' x a e' in
      (r :: rs, s'')
  end.

(* Dialer.Execute: retry until DialPeer returns err == nil; the result is what
   the controller's linkDialer stores in its lnk container (None: still retrying) *)
Fixpoint dialer_loop (s : amap Z) (x a : Z) (e : list env) : option dres * amap Z :=
  match e with
  | [] => (None, s)
  | Drop :: e' => dialer_loop (adel a s) x a e'
  | Attempt who :: e' =>
      match dial_peer s x a who with
      | (DErr, s') => dialer_loop s' x a e'
      | (r, s') => (Some r, s')
      end
  end.

(* the link held by the controller's link dialer for key (x, a) *)
Definition dialer_link (r : option dres) : option Z :=
  match r with Some (DLink p) => Some p | _ => None end.
