From Bifrost Require Import Lib.Base Link.Model Link.Maps Dial.Model.

(* success only with a link to the requested peer, registered at the address *)
Theorem dial_peer_safe s x a who p s' :
  x <> 0 -> dial_peer s x a who = (DLink p, s') -> p = x /\ aget a s' = Some x /\ who = Peer x.
Proof.
  intros Hx. unfold dial_peer. destruct (aget a s) as [q|].
  - destruct (Z.eqb q x); discriminate.
  - destruct who as [|q]; [discriminate|].
    destruct (Z.eqb_spec x 0); [contradiction|]. cbn [negb andb].
    destruct (Z.eqb_spec q x) as [->|]; cbn [negb]; [|discriminate].
    intros H; inversion H; subst. rewrite aget_aset, Z.eqb_refl. auto.
Qed.

(* "already connected" is only reported when the link at the address is to x *)
Theorem dial_peer_nolink s x a who s' :
  dial_peer s x a who = (DNoLink, s') -> s' = s /\ aget a s = Some x.
Proof.
  unfold dial_peer. destruct (aget a s) as [q|] eqn:E.
  - destruct (Z.eqb_spec q x) as [->|]; [|discriminate]. intros H; inversion H; auto.
  - destruct who as [|q]; [discriminate|]. destruct (_ && _); discriminate.
Qed.

(* a different peer answering is an error, never a link to x *)
Theorem dial_peer_impostor s x a i :
  x <> 0 -> i <> x -> fst (dial_peer s x a (Peer i)) <> DLink x /\
  (aget a s = None -> fst (dial_peer s x a (Peer i)) = DErr).
Proof.
  intros Hx Hi. unfold dial_peer. destruct (aget a s) as [q|].
  - split; [|discriminate]. destruct (Z.eqb q x); cbn; discriminate.
  - destruct (Z.eqb_spec x 0); [contradiction|]. destruct (Z.eqb_spec i x); [contradiction|].
    cbn. split; [discriminate|reflexivity].
Qed.

Theorem calls_safe : forall e s x a rs s', x <> 0 ->
  calls s x a e = (rs, s') -> forall p, In (DLink p) rs -> p = x.
Proof.
  induction e as [|ev e IH]; intros s x a rs s' Hx; cbn [calls].
  - intros H; inversion H; subst. intros p [].
  - destruct ev as [who|]; [|apply IH; exact Hx].
    destruct (dial_peer s x a who) as [r s1] eqn:Ed.
    destruct (calls s1 x a e) as [rs1 s2] eqn:Ec.
    intros H; inversion H; subst. intros p [Hp|Hp].
    + subst r. apply (dial_peer_safe _ _ _ _ _ _ Hx) in Ed. tauto.
    + eapply IH; eauto.
Qed.

(* the controller's link dialer never holds a link to another peer *)
Theorem dialer_loop_safe : forall e s x a r s', x <> 0 ->
  dialer_loop s x a e = (r, s') -> forall p, dialer_link r = Some p -> p = x /\ aget a s' = Some x.
Proof.
  induction e as [|ev e IH]; intros s x a r s' Hx; cbn [dialer_loop].
  - intros H; inversion H; subst. discriminate.
  - destruct ev as [who|]; [|apply IH; exact Hx].
    destruct (dial_peer s x a who) as [d s1] eqn:Ed. destruct d as [q| |].
    + intros H; inversion H; subst. cbn. intros p Hp; inversion Hp; subst.
      apply (dial_peer_safe _ _ _ _ _ _ Hx) in Ed. tauto.
    + intros H; inversion H; subst. discriminate.
    + apply IH; exact Hx.
Qed.

(* whenever the loop ends, a link to x is registered at the address *)
Theorem dialer_loop_done : forall e s x a d s', x <> 0 ->
  dialer_loop s x a e = (Some d, s') -> aget a s' = Some x /\ (d = DLink x \/ d = DNoLink).
Proof.
  induction e as [|ev e IH]; intros s x a d s' Hx; cbn [dialer_loop]; [discriminate|].
  destruct ev as [who|]; [|apply IH; exact Hx].
  destruct (dial_peer s x a who) as [r s1] eqn:Ed. destruct r as [q| |].
  - intros H; inversion H; subst. apply (dial_peer_safe _ _ _ _ _ _ Hx) in Ed as (-> & ? & _). auto.
  - intros H; inversion H; subst. apply dial_peer_nolink in Ed as [-> ?]. auto.
  - apply IH; exact Hx.
Qed.

Lemma dialer_loop_app : forall pre s x a post,
  dialer_loop s x a (pre ++ post) =
  match dialer_loop s x a pre with
  | (None, s1) => dialer_loop s1 x a post
  | r => r
  end.
Proof.
  induction pre as [|ev pre IH]; intros s x a post; [reflexivity|].
  cbn [app dialer_loop]. destruct ev as [who|]; [|apply IH].
  destruct (dial_peer s x a who) as [r s1]. destruct r; try reflexivity. apply IH.
Qed.

(* once the stale link (if any) is gone and x answers, the next attempt succeeds *)
Theorem retry_succeeds s x a e' :
  x <> 0 ->
  dialer_loop s x a (Drop :: Attempt (Peer x) :: e') = (Some (DLink x), aset a x (adel a s)).
Proof.
  intros Hx. cbn [dialer_loop]. unfold dial_peer. rewrite aget_adel, Z.eqb_refl.
  destruct (Z.eqb_spec x 0); [contradiction|]. rewrite Z.eqb_refl. reflexivity.
Qed.

(* liveness of the retry loop: whatever happened before (impostors answering,
   nobody answering, links coming and going, in any number and order), if the
   loop is still running when the address becomes free and x answers, it ends
   with a link to x; and if it ended earlier it ended with a link to x too *)
Theorem retry_reaches_x s x a mid e' :
  x <> 0 ->
  exists d s', dialer_loop s x a (mid ++ Drop :: Attempt (Peer x) :: e') = (Some d, s')
               /\ aget a s' = Some x /\ (d = DLink x \/ d = DNoLink).
Proof.
  intros Hx. rewrite dialer_loop_app.
  destruct (dialer_loop s x a mid) as [[d|] s1] eqn:E.
  - exists d, s1. split; [reflexivity|]. eapply dialer_loop_done; eauto.
  - rewrite retry_succeeds by exact Hx. eexists _, _. split; [reflexivity|].
    rewrite aget_aset, Z.eqb_refl. auto.
Qed.

(* without a loss of the impostor's link the loop keeps retrying: the address
   is reported as connected to a different peer *)
Theorem impostor_blocks_until_lost s x a i n :
  x <> 0 -> i <> x -> aget a s = None ->
  dialer_loop s x a (Attempt (Peer i) :: repeat (Attempt (Peer x)) n) = (None, aset a i s).
Proof.
  intros Hx Hi Hs. cbn [dialer_loop]. unfold dial_peer at 1. rewrite Hs.
  destruct (Z.eqb_spec x 0); [contradiction|]. destruct (Z.eqb_spec i x); [contradiction|]. cbn [negb andb].
  induction n as [|n IH]; [reflexivity|]. cbn [repeat dialer_loop]. unfold dial_peer at 1.
  rewrite aget_aset, Z.eqb_refl. destruct (Z.eqb_spec i x); [contradiction|]. exact IH.
Qed.
