From Bifrost Require Import Lib.Base Link.Model Link.Maps Dial.Model.

(* a = dial string, ra = resolved address (table key); all theorems hold for any pair *)

(* success only with a link to the requested peer, registered at the resolved address *)
Theorem dial_peer_safe s x a ra who p s' :
  x <> 0 -> dial_peer s x a ra who = (DLink p, s') -> p = x /\ aget ra s' = Some x /\ who = Peer x.
Proof.
  intros Hx. unfold dial_peer. destruct (aget a s) as [q|].
  - destruct (Z.eqb q x); discriminate.
  - destruct who as [|q]; [discriminate|].
    destruct (Z.eqb_spec x 0); [contradiction|]. cbn [negb andb].
    destruct (Z.eqb_spec q x) as [->|]; cbn [negb]; [|discriminate].
    intros H; inversion H; subst. rewrite aget_aset, Z.eqb_refl. auto.
Qed.

(* "already connected" is only reported when the link found under the dial string is to x *)
Theorem dial_peer_nolink s x a ra who s' :
  dial_peer s x a ra who = (DNoLink, s') -> s' = s /\ aget a s = Some x.
Proof.
  unfold dial_peer. destruct (aget a s) as [q|] eqn:E.
  - destruct (Z.eqb_spec q x) as [->|]; [|discriminate]. intros H; inversion H; auto.
  - destruct who as [|q]; [discriminate|]. destruct (_ && _); discriminate.
Qed.

(* a different peer answering is an error, never a link to x *)
Theorem dial_peer_impostor s x a ra i :
  x <> 0 -> i <> x -> fst (dial_peer s x a ra (Peer i)) <> DLink x /\
  (aget a s = None -> fst (dial_peer s x a ra (Peer i)) = DErr).
Proof.
  intros Hx Hi. unfold dial_peer. destruct (aget a s) as [q|].
  - split; [|discriminate]. destruct (Z.eqb q x); cbn; discriminate.
  - destruct (Z.eqb_spec x 0); [contradiction|]. destruct (Z.eqb_spec i x); [contradiction|].
    cbn. split; [discriminate|reflexivity].
Qed.

Theorem calls_safe : forall e s x a ra rs s', x <> 0 ->
  calls s x a ra e = (rs, s') -> forall p, In (DLink p) rs -> p = x.
Proof.
  induction e as [|ev e IH]; intros s x a ra rs s' Hx; cbn [calls].
  - intros H; inversion H; subst. intros p [].
  - destruct ev as [who|]; [|apply IH; exact Hx].
    destruct (dial_peer s x a ra who) as [r s1] eqn:Ed.
    destruct (calls s1 x a ra e) as [rs1 s2] eqn:Ec.
    intros H; inversion H; subst. intros p [Hp|Hp].
    + subst r. apply (dial_peer_safe _ _ _ _ _ _ _ Hx) in Ed. tauto.
    + eapply IH; eauto.
Qed.

(* the controller's link dialer never holds a link to another peer *)
Theorem dialer_loop_safe : forall e s x a ra r s', x <> 0 ->
  dialer_loop s x a ra e = (r, s') -> forall p, dialer_link r = Some p -> p = x /\ aget ra s' = Some x.
Proof.
  induction e as [|ev e IH]; intros s x a ra r s' Hx; cbn [dialer_loop].
  - intros H; inversion H; subst. discriminate.
  - destruct ev as [who|]; [|apply IH; exact Hx].
    destruct (dial_peer s x a ra who) as [d s1] eqn:Ed. destruct d as [q| |].
    + intros H; inversion H; subst. cbn. intros p Hp; inversion Hp; subst.
      apply (dial_peer_safe _ _ _ _ _ _ _ Hx) in Ed. tauto.
    + intros H; inversion H; subst. discriminate.
    + apply IH; exact Hx.
Qed.

(* whenever the loop ends, a link to x is registered *)
Theorem dialer_loop_done : forall e s x a ra d s', x <> 0 ->
  dialer_loop s x a ra e = (Some d, s') ->
  (d = DLink x /\ aget ra s' = Some x) \/ (d = DNoLink /\ aget a s' = Some x).
Proof.
  induction e as [|ev e IH]; intros s x a ra d s' Hx; cbn [dialer_loop]; [discriminate|].
  destruct ev as [who|]; [|apply IH; exact Hx].
  destruct (dial_peer s x a ra who) as [r s1] eqn:Ed. destruct r as [q| |].
  - intros H; inversion H; subst. apply (dial_peer_safe _ _ _ _ _ _ _ Hx) in Ed as (-> & ? & _). auto.
  - intros H; inversion H; subst. apply dial_peer_nolink in Ed as [-> ?]. auto.
  - apply IH; exact Hx.
Qed.

Lemma dialer_loop_app : forall pre s x a ra post,
  dialer_loop s x a ra (pre ++ post) =
  match dialer_loop s x a ra pre with
  | (None, s1) => dialer_loop s1 x a ra post
  | r => r
  end.
Proof.
  induction pre as [|ev pre IH]; intros s x a ra post; [reflexivity|].
  cbn [app dialer_loop]. destruct ev as [who|]; [|apply IH].
  destruct (dial_peer s x a ra who) as [r s1]. destruct r; try reflexivity. apply IH.
Qed.

(* the links table only has resolved addresses as keys: under an alias dial
   string nothing is ever found *)
Definition alias_clean (s : amap Z) (a ra : Z) : Prop := a <> ra -> aget a s = None.

Lemma dial_peer_alias_clean s x a ra who :
  alias_clean s a ra -> alias_clean (snd (dial_peer s x a ra who)) a ra.
Proof.
  intros H Hne. specialize (H Hne). unfold dial_peer. rewrite H.
  destruct who as [|p]; [exact H|]. destruct (_ && _); cbn [snd]; rewrite aget_aset;
    destruct (Z.eqb_spec a ra); try contradiction; exact H.
Qed.

Lemma dialer_loop_alias_clean : forall e s x a ra r s',
  alias_clean s a ra -> dialer_loop s x a ra e = (r, s') -> alias_clean s' a ra.
Proof.
  induction e as [|ev e IH]; intros s x a ra r s' Hc; cbn [dialer_loop].
  - intros H; inversion H; subst; exact Hc.
  - destruct ev as [who|].
    + pose proof (dial_peer_alias_clean s x a ra who Hc) as Hc'.
      destruct (dial_peer s x a ra who) as [d s1]. cbn [snd] in Hc'. destruct d.
      * intros H; inversion H; subst; exact Hc'.
      * intros H; inversion H; subst; exact Hc'.
      * eapply IH; exact Hc'.
    + apply IH. intros Hne. rewrite aget_adel. destruct (Z.eqb a ra); [reflexivity|exact (Hc Hne)].
Qed.

(* once the stale link (if any) is gone and x answers, the next attempt succeeds *)
Theorem retry_succeeds s x a ra e' :
  x <> 0 -> alias_clean s a ra ->
  dialer_loop s x a ra (Drop :: Attempt (Peer x) :: e') = (Some (DLink x), aset ra x (adel ra s)).
Proof.
  intros Hx Hc. cbn [dialer_loop]. unfold dial_peer.
  assert (E : aget a (adel ra s) = None).
  { rewrite aget_adel. destruct (Z.eqb_spec a ra); [reflexivity|exact (Hc n)]. }
  rewrite E. destruct (Z.eqb_spec x 0); [contradiction|]. rewrite Z.eqb_refl. reflexivity.
Qed.

(* liveness of the retry loop: whatever happened before (impostors answering,
   nobody answering, links coming and going, in any number and order), if the
   loop is still running when the address becomes free and x answers, it ends
   with a link to x; and if it ended earlier it ended with a link to x too *)
Theorem retry_reaches_x s x a ra mid e' :
  x <> 0 -> alias_clean s a ra ->
  exists d s', dialer_loop s x a ra (mid ++ Drop :: Attempt (Peer x) :: e') = (Some d, s')
               /\ ((d = DLink x /\ aget ra s' = Some x) \/ (d = DNoLink /\ aget a s' = Some x)).
Proof.
  intros Hx Hc. rewrite dialer_loop_app.
  destruct (dialer_loop s x a ra mid) as [[d|] s1] eqn:E.
  - exists d, s1. split; [reflexivity|]. eapply dialer_loop_done; eauto.
  - rewrite retry_succeeds; [|exact Hx|eapply dialer_loop_alias_clean; eauto].
    eexists _, _. split; [reflexivity|]. left. rewrite aget_aset, Z.eqb_refl. auto.
Qed.

(* under an alias dial string nothing blocks the dial: as soon as x answers the
   very next attempt yields the link to x (the impostor's link is usurped) *)
Theorem alias_retry_reaches_x s x a ra mid e' :
  x <> 0 -> a <> ra -> aget a s = None ->
  exists s', dialer_loop s x a ra (mid ++ Attempt (Peer x) :: e') = (Some (DLink x), s')
             /\ aget ra s' = Some x.
Proof.
  intros Hx Hne Hs. rewrite dialer_loop_app.
  assert (Hc : alias_clean s a ra) by (intros _; exact Hs).
  destruct (dialer_loop s x a ra mid) as [[d|] s1] eqn:E.
  - pose proof (dialer_loop_alias_clean _ _ _ _ _ _ _ Hc E Hne) as Hc1.
    destruct (dialer_loop_done _ _ _ _ _ _ _ Hx E) as [[-> H]|[-> H]].
    + eauto.
    + congruence.
  - pose proof (dialer_loop_alias_clean _ _ _ _ _ _ _ Hc E Hne) as Hc1.
    cbn [dialer_loop]. unfold dial_peer. rewrite Hc1.
    destruct (Z.eqb_spec x 0); [contradiction|]. rewrite Z.eqb_refl. cbn.
    eexists. split; [reflexivity|]. rewrite aget_aset, Z.eqb_refl. reflexivity.
Qed.

(* with a canonical address, until the impostor's link is lost the loop keeps
   retrying: the address is reported as connected to a different peer *)
Theorem impostor_blocks_until_lost s x a i n :
  x <> 0 -> i <> x -> aget a s = None ->
  dialer_loop s x a a (Attempt (Peer i) :: repeat (Attempt (Peer x)) n) = (None, aset a i s).
Proof.
  intros Hx Hi Hs. cbn [dialer_loop]. unfold dial_peer at 1. rewrite Hs.
  destruct (Z.eqb_spec x 0); [contradiction|]. destruct (Z.eqb_spec i x); [contradiction|]. cbn [negb andb].
  induction n as [|n IH]; [reflexivity|]. cbn [repeat dialer_loop]. unfold dial_peer at 1.
  rewrite aget_aset, Z.eqb_refl. destruct (Z.eqb_spec i x); [contradiction|]. exact IH.
Qed.

(* ---- overlapping dials ---- *)
(* every delivered result belongs to a call, and a success carries that call's
   own requested peer *)
Definition res_ok (req : nat -> option Z) (r : nat * dres) : Prop :=
  exists x, req (fst r) = Some x /\ forall p, snd r = DLink p -> x <> 0 -> p = x.

Definition cinv (req : nat -> option Z) (st : cstate) : Prop :=
  Forall (res_ok req) (c_res st) /\ Forall (fun w => req (fst w) = Some (snd w)) (c_wait st).

Lemma cstep_inv a req st e :
  (forall x, e = Call x -> req (c_next st) = Some x) ->
  cinv req st -> cinv req (cstep a st e).
Proof.
  intros He [HR HW]. destruct e as [x|who|]; cbn [cstep].
  - specialize (He x eq_refl). destruct (c_wait st) as [|w ws] eqn:Ew.
    + destruct (aget a (c_tab st)) as [p|]; split; cbn [c_res c_wait]; auto.
      * apply Forall_app. split; [exact HR|]. constructor; [|constructor].
        exists x. split; [exact He|]. intros q Hq. cbn in Hq. destruct (Z.eqb p x); discriminate.
    + split; cbn [c_res c_wait]; [exact HR|].
      apply Forall_app. split; [exact HW|]. constructor; [exact He|constructor].
  - destruct (c_wait st) as [|w ws] eqn:Ew; [split; [exact HR|rewrite Ew; constructor]|].
    destruct who as [|p]; split; cbn [c_res c_wait]; try constructor.
    + apply Forall_app. split; [exact HR|]. apply Forall_forall. intros r Hr.
      apply in_map_iff in Hr as [w' [<- Hin]]. rewrite Forall_forall in HW. specialize (HW _ Hin).
      exists (snd w'). split; [exact HW|]. intros q Hq. discriminate.
    + apply Forall_app. split; [exact HR|]. apply Forall_forall. intros r Hr.
      apply in_map_iff in Hr as [w' [<- Hin]]. rewrite Forall_forall in HW. specialize (HW _ Hin).
      exists (snd w'). split; [exact HW|]. intros q Hq Hx0. cbn [caller_result fst snd] in Hq.
      destruct (Z.eqb_spec (snd w') 0); [contradiction|]. cbn [negb andb] in Hq.
      destruct (Z.eqb_spec p (snd w')); cbn [negb] in Hq; [inversion Hq; congruence|discriminate].
  - split; assumption.
Qed.

Definition is_call (e : cev) : bool := match e with Call _ => true | _ => false end.

Lemma requested_app_call es x : requested (es ++ [Call x]) (length (filter is_call es)) = Some x.
Proof.
  induction es as [|e es IH]; [reflexivity|]. destruct e; cbn [app requested filter is_call length]; exact IH.
Qed.

Lemma requested_app_keep es e i x : requested es i = Some x -> requested (es ++ [e]) i = Some x.
Proof.
  revert i. induction es as [|e' es IH]; intros i; cbn [app requested]; [discriminate|].
  destruct e'; [destruct i|..]; auto.
Qed.

Lemma crun_snoc a es e : crun a (es ++ [e]) = cstep a (crun a es) e.
Proof. unfold crun. rewrite fold_left_app. reflexivity. Qed.

Lemma crun_next a es : c_next (crun a es) = length (filter is_call es).
Proof.
  induction es as [|e es IH] using rev_ind; [reflexivity|].
  rewrite crun_snoc, filter_app, app_length.
  destruct e as [x|who|]; cbn [cstep filter is_call length].
  - destruct (c_wait _); [destruct (aget _ _)|]; cbn [c_next]; rewrite IH; lia.
  - destruct (c_wait _) eqn:E; [rewrite IH; lia|]. destruct who; cbn [c_next]; rewrite IH; lia.
  - cbn [c_next]. rewrite IH; lia.
Qed.

Lemma cinv_run a es : cinv (requested es) (crun a es).
Proof.
  induction es as [|e es IH] using rev_ind; [split; constructor|].
  assert (IH' : cinv (requested (es ++ [e])) (crun a es)).
  { destruct IH as [HR HW]. split.
    - eapply Forall_impl; [|exact HR]. intros r [x [Hx Hp]]. exists x.
      split; [apply requested_app_keep, Hx|exact Hp].
    - eapply Forall_impl; [|exact HW]. intros w Hw. apply requested_app_keep, Hw. }
  rewrite crun_snoc. apply cstep_inv; [|exact IH'].
  intros y ->. rewrite crun_next. apply requested_app_call.
Qed.

(* whatever the overlap of calls, answers and losses: a call that reports a
   link got a link to the peer IT asked for *)
Theorem shared_dialer_safe a es i p x :
  In (i, DLink p) (c_res (crun a es)) -> requested es i = Some x -> x <> 0 -> p = x.
Proof.
  intros Hin Hx Hx0. destruct (cinv_run a es) as [HR _]. rewrite Forall_forall in HR.
  destruct (HR _ Hin) as [y [Hy Hp]]. cbn [fst snd] in *. rewrite Hx in Hy. inversion Hy; subst y.
  apply Hp; auto.
Qed.

(* ---- re-dial after the dialer's link was lost ---- *)
Theorem lost_dialer_link_restarts kp : restarts kp kp true false = true.
Proof. unfold restarts. rewrite Z.eqb_refl. reflexivity. Qed.

(* other links to the same peer do not prevent the re-dial *)
Theorem redial_independent_of_other_links o1 o2 s x a ra e :
  redial_after_loss o1 s x a ra e = redial_after_loss o2 s x a ra e.
Proof. reflexivity. Qed.

(* and once x answers at the address again the re-dial yields a link to x, never to another peer *)
Theorem redial_reaches_x others s x a ra mid e' :
  x <> 0 -> alias_clean s a ra ->
  exists d s', redial_after_loss others s x a ra (mid ++ Drop :: Attempt (Peer x) :: e') = (Some d, s')
               /\ ((d = DLink x /\ aget ra s' = Some x) \/ (d = DNoLink /\ aget a s' = Some x)).
Proof.
  intros Hx Hc. unfold redial_after_loss. rewrite lost_dialer_link_restarts.
  apply retry_reaches_x; [exact Hx|].
  intros Hne. rewrite aget_adel. destruct (Z.eqb a ra); [reflexivity|exact (Hc Hne)].
Qed.

Theorem redial_first_attempt others s x a e' :
  x <> 0 -> alias_clean s a a ->
  redial_after_loss others s x a a (Attempt (Peer x) :: e') = (Some (DLink x), aset a x (adel a s)).
Proof.
  intros Hx Hc. unfold redial_after_loss. rewrite lost_dialer_link_restarts.
  cbn [dialer_loop]. unfold dial_peer. rewrite aget_adel, Z.eqb_refl.
  destruct (Z.eqb_spec x 0); [contradiction|]. rewrite Z.eqb_refl. reflexivity.
Qed.
