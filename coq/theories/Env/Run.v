(* Correspondence for C16 / C17 / C18: the harness runs BuildEnvelope and
   UnlockEnvelope on real keys; the model runs on the symbolic counterpart. *)
From Bifrost Require Import Lib.Base Lib.Sym Enc.Prim Enc.Model Enc.Run Env.Model.

Inductive tamper :=
| TNone
| TThreshold (t : Z)
| TSwapGrants (i j : nat)
| TSwapCts (i j : nat)                 (* grants i and j exchange their ciphertext lists *)
| TSetIdx (gi : nat) (idx : list Z)
| TDropCt (gi : nat)                   (* drop the last ciphertext of grant gi *)
| TMutCt (gi ci : nat) (mu : mutation) (* byte-level change of one grant ciphertext *)
| TEnvId (id : bytes)
| TCtxHash (pos : nat) (d : Z)
| TPayload (mu : mutation)             (* byte-level change of the payload ciphertext *)
| TForge (gi : nat) (ki : Z) (k : nat) (shs : list (bytes * bytes))
    (* grant gi replaced by a freshly encrypted grant for envelope keypair ki
       (= harness key k) with attacker-chosen shares *)
| TDupGrant (gi : nat)                 (* a copy of grant gi appended as a new grant *)
| TNoGrants
| TNoKeypairs
| TCtxHashFor (c2 : bytes)             (* context hash recomputed for another context *)
| TMulti (l : list tamper).            (* several fields changed, in order *)

Inductive uobs :=
| UErr (k : nat)
| UPanic
| URes (success same : bool) (avail needed : Z) (unlocked : list Z).

Definition uobs_eqb (a b : uobs) : bool :=
  match a, b with
  | UErr x, UErr y => Nat.eqb x y
  | UPanic, UPanic => true
  | URes s1 p1 a1 n1 u1, URes s2 p2 a2 n2 u2 =>
      Bool.eqb s1 s2 && Bool.eqb p1 p2 && Z.eqb a1 a2 && Z.eqb n1 n2 && list_eqb Z.eqb u1 u2
  | _, _ => false
  end.

Definition swap_nth {A} (i j : nat) (l : list A) : list A :=
  match nth_error l i, nth_error l j with
  | Some x, Some y => set_nth i (fun _ => y) (set_nth j (fun _ => x) l)
  | _, _ => l
  end.

Definition with_grants (env : envelope) (gs : list grant) : envelope :=
  {| e_id := e_id env; e_ctxhash := e_ctxhash env; e_threshold := e_threshold env; e_ct := e_ct env;
     e_grants := gs; e_keypairs := e_keypairs env |}.

Definition atom (n : nat) (tag : Z) : sbytes := fapp FN_ATOM n [lift [tag]].
Definition the_rnd : rnd := {| r_secret := atom 32 1; r_poly := atom 32 2; r_nonce := atom 24 3 |}.

Fixpoint apply_tamper (o : orc) (ctx : sbytes) (env : envelope) (tm : tamper) : envelope :=
  match tm with
  | TNone => env
  | TThreshold t =>
      {| e_id := e_id env; e_ctxhash := e_ctxhash env; e_threshold := t; e_ct := e_ct env;
         e_grants := e_grants env; e_keypairs := e_keypairs env |}
  | TSwapGrants i j => with_grants env (swap_nth i j (e_grants env))
  | TSwapCts i j =>
      match nth_error (e_grants env) i, nth_error (e_grants env) j with
      | Some gi, Some gj =>
          with_grants env
            (set_nth i (fun g => {| g_idx := g_idx g; g_cts := g_cts gj |})
               (set_nth j (fun g => {| g_idx := g_idx g; g_cts := g_cts gi |}) (e_grants env)))
      | _, _ => env
      end
  | TSetIdx gi idx =>
      with_grants env (set_nth gi (fun g => {| g_idx := idx; g_cts := g_cts g |}) (e_grants env))
  | TDropCt gi =>
      with_grants env (set_nth gi (fun g => {| g_idx := g_idx g; g_cts := removelast (g_cts g) |}) (e_grants env))
  | TMutCt gi ci mu =>
      with_grants env
        (set_nth gi (fun g => {| g_idx := g_idx g;
                                 g_cts := set_nth ci (fun c => match apply_mut o c mu with Ok c' => c' | _ => c end)
                                            (g_cts g) |}) (e_grants env))
  | TEnvId id =>
      {| e_id := lift id; e_ctxhash := e_ctxhash env; e_threshold := e_threshold env; e_ct := e_ct env;
         e_grants := e_grants env; e_keypairs := e_keypairs env |}
  | TCtxHash pos d =>
      {| e_id := e_id env; e_ctxhash := set_nth pos (fun x => mut_byte x d) (e_ctxhash env);
         e_threshold := e_threshold env; e_ct := e_ct env;
         e_grants := e_grants env; e_keypairs := e_keypairs env |}
  | TPayload mu =>
      {| e_id := e_id env; e_ctxhash := e_ctxhash env; e_threshold := e_threshold env;
         e_ct := match apply_mut o (e_ct env) mu with Ok c' => c' | _ => e_ct env end;
         e_grants := e_grants env; e_keypairs := e_keypairs env |}
  | TForge gi ki k shs =>
      let inner := marshal_inner (map (fun s : bytes * bytes => (lift (fst s), lift (snd s))) shs) in
      match encrypt o (edpub (key_of k)) (grant_ctx (e_id env) ctx gi) inner with
      | Ok c => with_grants env (set_nth gi (fun _ => {| g_idx := [ki]; g_cts := [c] |}) (e_grants env))
      | _ => env
      end
  | TDupGrant gi =>
      match nth_error (e_grants env) gi with
      | Some g => with_grants env (e_grants env ++ [g])
      | None => env
      end
  | TNoGrants => with_grants env []
  | TNoKeypairs =>
      {| e_id := e_id env; e_ctxhash := e_ctxhash env; e_threshold := e_threshold env; e_ct := e_ct env;
         e_grants := e_grants env; e_keypairs := [] |}
  | TCtxHashFor c2 =>
      {| e_id := e_id env; e_ctxhash := hash_context (lift c2); e_threshold := e_threshold env; e_ct := e_ct env;
         e_grants := e_grants env; e_keypairs := e_keypairs env |}
  | TMulti l =>
      (fix go (l : list tamper) (e : envelope) : envelope :=
         match l with [] => e | t :: r => go r (apply_tamper o ctx e t) end) l env
  end.

Inductive env_case :=
| EnvCase (kidx : list nat) (payload ctx id : bytes) (t total : Z) (grants : list (Z * list Z))
          (tm : tamper) (privs : list nat) (uctx : bytes)
          (obs_build : nat)            (* 0 = accepted, otherwise the error class *)
          (obs_unlock : option uobs).  (* None when the build was rejected *)

Definition env_agree (c : env_case) : bool :=
  match c with
  | EnvCase kidx payload ctx id t total grants tm privs uctx ob ou =>
      let o := mk_orc true [] in
      let cfg := {| cf_id := lift id; cf_threshold := t; cf_total := total;
                    cf_grants := map (fun g : Z * list Z => {| gc_count := fst g; gc_idx := snd g |}) grants |} in
      let keypairs := map (fun k => edpub (key_of k)) kidx in  (* harness key at each keypair index, repetitions allowed *)
      match build o the_rnd (lift ctx) (lift payload) keypairs (Some cfg) with
      | Panic => false
      | Err k => Nat.eqb ob k && match ou with None => true | Some _ => false end
      | Ok env =>
          Nat.eqb ob 0 &&
          match ou with
          | None => false
          | Some u =>
              let env' := apply_tamper o (lift ctx) env tm in
              let r := match unlock o (lift uctx) env' (map key_of privs) with
                       | Panic => UPanic
                       | Err k => UErr k
                       | Ok (p, res) =>
                           URes (res_success res)
                                (match p with Some p' => sbytes_eqb p' (lift payload) | None => false end)
                                (res_avail res) (res_needed res) (res_unlocked res)
                       end in
              uobs_eqb r u
          end
      end
  end.

Definition c16_case := env_case.
Definition c16_agree := env_agree.
Definition c17_case := env_case.
Definition c17_agree := env_agree.
Definition c18_case := env_case.
Definition c18_agree := env_agree.
