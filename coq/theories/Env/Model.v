(* Model of envelope/build.go (BuildEnvelope), envelope/unlock.go
   (UnlockEnvelope, matchPrivKeys) and envelope/crypto.go.  Definitions only.

   Public-key encryption of the grants is the model of Enc/Model.v; the
   payload AEAD, the KDF and BLAKE3 are the symbolic primitives of Enc/Prim.v.
   Shamir sharing is symbolic: share [i] of the polynomial identified by
   (secret, randomness, degree) has the free value [share_val ...]; Lagrange
   interpolation of t'+1 points returns the secret iff they are points of one
   polynomial of degree <= t' with distinct ids, otherwise a garbage scalar.
   PEM encoding of a public key is injective and modelled as the identity.
   The vtprotobuf codec of EnvelopeGrantInner is a free injective constructor. *)
From Bifrost Require Import Lib.Base Lib.Sym Enc.Prim Enc.Model gen.Env.

Definition E_EMPTY : nat := 1.      (* ErrEmptyPayload *)
Definition E_NOKEYS : nat := 2.     (* ErrNoKeypairs *)
Definition E_NOGRANTS : nat := 3.   (* ErrNoGrants *)
Definition E_KPIDX : nat := 4.      (* ErrInvalidKeypairIndex *)
Definition E_THRESH : nat := 5.     (* ErrInvalidThreshold *)
Definition E_CTX : nat := 6.        (* ErrContextMismatch *)
Definition E_RECOVER : nat := 7.    (* secretsharing.Recover error *)
Definition E_DECRYPT : nat := 8.    (* ErrDecryptionFailed *)
Definition E_ENC : nat := 9.        (* peer.EncryptToPubKey failed *)

Definition two32 : Z := 4294967296.
Definition wrap32 (z : Z) : Z := z mod two32.

Record grant_cfg := { gc_count : Z; gc_idx : list Z }.
Record config := { cf_id : sbytes; cf_threshold : Z; cf_total : Z; cf_grants : list grant_cfg }.
Record grant := { g_idx : list Z; g_cts : list sbytes }.
Record envelope := {
  e_id : sbytes; e_ctxhash : sbytes; e_threshold : Z; e_ct : sbytes;
  e_grants : list grant; e_keypairs : list sbytes }.
(* what BuildEnvelope reads from its random source *)
Record rnd := { r_secret : sbytes; r_poly : sbytes; r_nonce : sbytes }.

Definition share : Type := (sbytes * sbytes)%type.   (* id, value *)

(* strconv.Itoa of a non-negative int *)
Fixpoint itoa_aux (fuel n : nat) (acc : bytes) : bytes :=
  match fuel with
  | O => acc
  | S f => let d := (Z.of_nat (n mod 10) + 48)%Z in
           if Nat.eqb (n / 10) 0 then d :: acc else itoa_aux f (n / 10) (d :: acc)
  end.
Definition itoa (n : nat) : bytes := itoa_aux (S n) n [].

(* envelope/crypto.go *)
Definition len_field (s : sbytes) : sbytes := lift (itoa (length s)) ++ [B 58] ++ s.
Definition kd_ctx (id ctx : sbytes) : sbytes :=
  lift env_base_ctx ++ lift env_kd_label ++ len_field id ++ [B 32] ++ len_field ctx.
Definition grant_ctx (id ctx : sbytes) (gi : nat) : sbytes :=
  lift env_base_ctx ++ lift env_grant_label ++ len_field id ++ [B 32] ++ len_field ctx ++ [B 32] ++ lift (itoa gi).
Definition enc_key (secret id ctx : sbytes) : sbytes := kdf (kd_ctx id ctx) secret.
Definition hash_context (ctx : sbytes) : sbytes := hash32 ctx.
(* hex.EncodeToString(blake3(secret ++ context)[:16]) *)
Definition auto_id (secret ctx : sbytes) : sbytes := fapp FN_HEX 32 [firstn 16 (hash32 (secret ++ ctx))].

(* shares *)
Fixpoint le_bytes (n : nat) (v : Z) : bytes :=
  match n with O => [] | S n' => (v mod 256) :: le_bytes n' (v / 256) end.
Fixpoint le_val (b : bytes) : Z :=
  match b with [] => 0 | x :: b' => x + le_val b' * 256 end.
Definition share_id (i : nat) : sbytes := lift (le_bytes 32 (Z.of_nat i)).
Definition share_val (secret prnd : sbytes) (t : Z) (cid : sbytes) : sbytes :=
  fapp FN_SHARE 32 [secret; prnd; lift [t]; cid].
Definition mk_share (secret prnd : sbytes) (t : Z) (i : nat) : share :=
  (share_id i, share_val secret prnd t (share_id i)).

(* group order of ristretto255 and go-ristretto Scalar.SetBytes: the top 3
   bits are ignored and the value is reduced *)
Definition ord_l : Z := 7237005577332262213973186563042994240857116359379907606001950938285454250989.
Definition canon (s : sbytes) : sbytes :=
  match unlift s with
  | Some b => if Nat.eqb (length b) 32 then lift (le_bytes 32 ((le_val b mod 2 ^ 253) mod ord_l)) else s
  | None => s
  end.

(* EnvelopeGrantInner codec *)
Definition marshal_inner (shs : list share) : sbytes :=
  fapp FN_INNER 1 (concat (map (fun s : share => [fst s; snd s]) shs)).
Fixpoint pair_up (l : list sbytes) : option (list share) :=
  match l with
  | [] => Some []
  | i :: v :: r => match pair_up r with Some p => Some ((i, v) :: p) | None => None end
  | _ => None
  end.
Definition unmarshal_inner (s : sbytes) : option (list share) :=
  match unfapp s with
  | Some (f, l) => if Nat.eqb f FN_INNER && Nat.eqb (length s) 1 then pair_up l else None
  | None => None
  end.

(* ---- BuildEnvelope ---- *)
Definition eff_count (gc : grant_cfg) : Z := if gc_count gc =? 0 then 1 else gc_count gc.

Definition total_of (grants : list grant_cfg) : Z :=
  fold_left (fun acc gc => wrap32 (acc + eff_count gc)) grants 0.

Definition idx_ok (nkeys : nat) (grants : list grant_cfg) : bool :=
  forallb (fun gc => forallb (fun i => i <? Z.of_nat nkeys) (gc_idx gc)) grants.

(* the "reachable" loop of BuildEnvelope (uint32 remaining, uint64 sum) *)
Fixpoint reachable (grants : list grant_cfg) (remaining : Z) : Z :=
  match grants with
  | [] => 0
  | gc :: gs =>
      let sc := Z.min (eff_count gc) remaining in
      (match gc_idx gc with [] => 0 | _ => sc end) + reachable gs (remaining - sc)
  end.

(* the distribution loop with its running share index *)
Fixpoint distribute {A : Type} (grants : list grant_cfg) (shares : list A) : list (grant_cfg * list A) :=
  match grants with
  | [] => []
  | gc :: gs =>
      let sc := Z.to_nat (eff_count gc) in
      (gc, firstn sc shares) :: distribute gs (skipn sc shares)
  end.

Fixpoint enc_to_all (o : orc) (keypairs : list sbytes) (encctx inner : sbytes) (idxs : list Z)
  : outcome (list sbytes) :=
  match idxs with
  | [] => Ok []
  | i :: r =>
      match nth_error keypairs (Z.to_nat i) with
      | None => Panic                       (* keypairs[kpIdx] out of range *)
      | Some pub =>
          match encrypt o pub encctx inner with
          | Ok c => cs <- enc_to_all o keypairs encctx inner r ;; Ok (c :: cs)
          | Err _ => Err E_ENC
          | Panic => Panic
          end
      end
  end.

Fixpoint enc_grants (o : orc) (keypairs : list sbytes) (id ctx : sbytes) (gi : nat)
  (d : list (grant_cfg * list share)) : outcome (list grant) :=
  match d with
  | [] => Ok []
  | (gc, shs) :: r =>
      cts <- enc_to_all o keypairs (grant_ctx id ctx gi) (marshal_inner shs) (gc_idx gc) ;;
      gs <- enc_grants o keypairs id ctx (S gi) r ;;
      Ok ({| g_idx := gc_idx gc; g_cts := cts |} :: gs)
  end.

Definition build (o : orc) (r : rnd) (ctx payload : sbytes) (keypairs : list sbytes)
  (cfg : option config) : outcome envelope :=
  match payload with [] => Err E_EMPTY | _ :: _ =>
  match keypairs with [] => Err E_NOKEYS | _ :: _ =>
  match cfg with None => Err E_NOGRANTS | Some cf =>
  match cf_grants cf with [] => Err E_NOGRANTS | _ :: _ =>
    let grants := cf_grants cf in
    let t := cf_threshold cf in
    if negb (idx_ok (length keypairs) grants) then Err E_KPIDX else
    let total := if 0 <? cf_total cf then cf_total cf else total_of grants in
    if (0 <? t) && (total <? wrap32 (t + 1)) then Err E_THRESH else
    if reachable grants total <? t + 1 then Err E_THRESH else
    let secret := r_secret r in
    let id := match cf_id cf with [] => auto_id secret ctx | _ => cf_id cf end in
    let ct := r_nonce r ++ seal (enc_key secret id ctx) (r_nonce r) [] payload in
    let shares := map (mk_share secret (r_poly r) t) (seq 1 (Z.to_nat total)) in
    gs <- enc_grants o keypairs id ctx 0 (distribute grants shares) ;;
    Ok {| e_id := id; e_ctxhash := hash_context ctx; e_threshold := t; e_ct := ct;
          e_grants := gs; e_keypairs := keypairs |}
  end end end end.

(* ---- UnlockEnvelope ---- *)
Record result := { res_success : bool; res_avail : Z; res_needed : Z; res_unlocked : list Z }.

(* matchPrivKeys: envelope keypair index -> first offered key with that public key *)
Definition matched (env : envelope) (privs : list sbytes) (ki : Z) : option sbytes :=
  if Z.of_nat (length (e_keypairs env)) <=? ki then None else   (* no entry in the map *)
  match nth_error (e_keypairs env) (Z.to_nat ki) with
  | None => None
  | Some pub => find (fun sk => sbytes_eqb (edpub sk) pub) privs
  end.

Fixpoint try_keys (o : orc) (env : envelope) (privs : list sbytes) (encctx : sbytes)
  (idxs : list Z) (cts : list sbytes) : outcome (option sbytes) :=
  match idxs, cts with
  | i :: is', c :: cs =>
      match matched env privs i with
      | None => try_keys o env privs encctx is' cs
      | Some sk =>
          match decrypt o sk encctx c with
          | Ok d => Ok (Some d)
          | Err _ => try_keys o env privs encctx is' cs
          | Panic => Panic
          end
      end
  | _, _ => Ok None
  end.

(* the share loop of the repaired code: decode id, canonical key, dup check,
   decode value, collect *)
Fixpoint collect (shs : list share) (col : list share) (seen : list sbytes) : list share * list sbytes :=
  match shs with
  | [] => (col, seen)
  | (id, v) :: r =>
      if negb (Nat.eqb (length id) 32) then collect r col seen else
      let cid := canon id in
      if existsb (sbytes_eqb cid) seen then collect r col seen else
      if negb (Nat.eqb (length v) 32) then collect r col seen else
      collect r (col ++ [(cid, canon v)]) (seen ++ [cid])
  end.

Record ust := { u_col : list share; u_seen : list sbytes; u_unl : list Z }.

Definition unlock_grant (o : orc) (env : envelope) (privs : list sbytes) (ctx : sbytes)
  (gi : nat) (g : grant) (st : ust) : outcome ust :=
  if negb (Nat.eqb (length (g_idx g)) (length (g_cts g))) then Ok st else
  r <- try_keys o env privs (grant_ctx (e_id env) ctx gi) (g_idx g) (g_cts g) ;;
  match r with
  | None => Ok st
  | Some inner =>
      match unmarshal_inner inner with
      | None => Ok st
      | Some shs =>
          let (col, seen) := collect shs (u_col st) (u_seen st) in
          Ok {| u_col := col; u_seen := seen; u_unl := u_unl st ++ [Z.of_nat gi] |}
      end
  end.

Fixpoint unlock_loop (o : orc) (env : envelope) (privs : list sbytes) (ctx : sbytes)
  (gi : nat) (gs : list grant) (st : ust) : outcome ust :=
  match gs with
  | [] => Ok st
  | g :: r => st' <- unlock_grant o env privs ctx gi g st ;; unlock_loop o env privs ctx (S gi) r st'
  end.

Fixpoint nodupb (l : list sbytes) : bool :=
  match l with [] => true | x :: r => negb (existsb (sbytes_eqb x) r) && nodupb r end.

(* parameters of an honest share value *)
Definition share_params (v : sbytes) : option (sbytes * sbytes * Z) :=
  match unfapp v with
  | Some (f, [s; p; td; _]) =>
      if Nat.eqb f FN_SHARE && Nat.eqb (length v) 32
      then match unlift td with Some [t0] => Some (s, p, t0) | _ => None end
      else None
  | _ => None
  end.
Definition garbage (pts : list share) : sbytes :=
  fapp FN_GARB 32 [concat (map (fun s : share => fst s ++ snd s) pts)].

(* secretsharing.Recover(t, shares): error if len <= t, interpolation of the
   first t+1 shares, panic if two of them have the same id *)
Definition recover (t : Z) (col : list share) : outcome sbytes :=
  if Z.of_nat (length col) <=? t then Err E_RECOVER else
  let pts := firstn (Z.to_nat t + 1) col in
  if negb (nodupb (map fst pts)) then Panic else
  match pts with
  | [] => Panic
  | (_, v0) :: _ =>
      match share_params v0 with
      | Some (s, p, t0) =>
          if (t0 <=? t) && forallb (fun pt : share => sbytes_eqb (snd pt) (share_val s p t0 (fst pt))) pts
          then Ok s else Ok (garbage pts)
      | None => Ok (garbage pts)
      end
  end.

Definition unlock (o : orc) (ctx : sbytes) (env : envelope) (privs : list sbytes)
  : outcome (option sbytes * result) :=
  match e_grants env with [] => Err E_NOGRANTS | _ :: _ =>
  match e_keypairs env with [] => Err E_NOKEYS | _ :: _ =>
    if negb (sbytes_eqb (e_ctxhash env) (hash_context ctx)) then Err E_CTX else
    st <- unlock_loop o env privs ctx 0 (e_grants env) {| u_col := []; u_seen := []; u_unl := [] |} ;;
    let t := e_threshold env in
    let needed := wrap32 (t + 1) in
    let avail := wrap32 (Z.of_nat (length (u_col st))) in
    let res := {| res_success := false; res_avail := avail; res_needed := needed; res_unlocked := u_unl st |} in
    if avail <? needed then Ok (None, res) else
    match recover t (u_col st) with
    | Err k => Err k
    | Panic => Panic
    | Ok sec =>
        let key := enc_key sec (e_id env) ctx in
        let ct := e_ct env in
        if (length ct <? 24)%nat then Err E_DECRYPT else
        match open key (firstn 24 ct) [] (skipn 24 ct) with
        | None => Err E_DECRYPT
        | Some p => Ok (Some p, {| res_success := true; res_avail := avail; res_needed := needed;
                                    res_unlocked := u_unl st |})
        end
    end
  end end.
