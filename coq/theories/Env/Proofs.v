(* Proofs about the envelope model: context binding, tampering, totality
   (C18).  The reach specification (C16, C17) is in Reach.v. *)
From Bifrost Require Import Lib.Base Lib.Sym Enc.Prim Enc.PrimFacts Enc.Model Enc.Proofs Env.Model gen.Env.

(* ---- inversion of a successful build ---- *)
Definition build_total (cf : config) : Z :=
  if 0 <? cf_total cf then cf_total cf else total_of (cf_grants cf).
Definition build_id (r : rnd) (ctx : sbytes) (cf : config) : sbytes :=
  match cf_id cf with [] => auto_id (r_secret r) ctx | _ => cf_id cf end.
Definition build_shares (r : rnd) (cf : config) : list share :=
  map (mk_share (r_secret r) (r_poly r) (cf_threshold cf)) (seq 1 (Z.to_nat (build_total cf))).

Lemma build_inv o r ctx payload kps cfg env :
  build o r ctx payload kps cfg = Ok env ->
  exists cf gs,
    cfg = Some cf /\ payload <> [] /\ kps <> [] /\ cf_grants cf <> [] /\
    idx_ok (length kps) (cf_grants cf) = true /\
    cf_threshold cf + 1 <= reachable (cf_grants cf) (build_total cf) /\
    enc_grants o kps (build_id r ctx cf) ctx 0 (distribute (cf_grants cf) (build_shares r cf)) = Ok gs /\
    env = {| e_id := build_id r ctx cf; e_ctxhash := hash_context ctx; e_threshold := cf_threshold cf;
             e_ct := r_nonce r ++ seal (enc_key (r_secret r) (build_id r ctx cf) ctx) (r_nonce r) [] payload;
             e_grants := gs; e_keypairs := kps |}.
Proof.
  unfold build. destruct payload as [|p0 payload]; [discriminate|].
  destruct kps as [|k0 kps]; [discriminate|]. destruct cfg as [cf|]; [|discriminate].
  destruct (cf_grants cf) as [|g0 grants] eqn:EG; [discriminate|]. rewrite <- EG.
  destruct (idx_ok _ _) eqn:EI; cbn [negb]; [|discriminate].
  fold (build_total cf).
  destruct ((0 <? cf_threshold cf) && (build_total cf <? wrap32 (cf_threshold cf + 1))); [discriminate|].
  destruct (reachable (cf_grants cf) (build_total cf) <? cf_threshold cf + 1) eqn:ER; [discriminate|].
  fold (build_id r ctx cf). fold (build_shares r cf).
  destruct (enc_grants _ _ _ _ _ _) as [gs| |] eqn:EE; cbn [obind]; try discriminate.
  intros H. inversion H. exists cf, gs. rewrite EG. repeat split; try discriminate; try reflexivity.
  - rewrite <- EG. exact EI.
  - rewrite <- EG. lia.
  - rewrite <- EG. exact EE.
Qed.

(* every grant ciphertext of a built envelope is an honest encryption *)
Definition is_enc (o : orc) (c : sbytes) : Prop :=
  exists pub ectx inner, length pub = 32%nat /\ c = enc_ct o pub ectx inner.

Lemma enc_to_all_inv o kps ectx inner idxs cts :
  enc_to_all o kps ectx inner idxs = Ok cts ->
  cts = map (fun i => enc_ct o (nth (Z.to_nat i) kps []) ectx inner) idxs /\
  Forall (fun i => exists pub, nth_error kps (Z.to_nat i) = Some pub /\ length pub = 32%nat /\ o_valid o pub = true) idxs.
Proof.
  revert cts; induction idxs as [|i r IH]; intros cts; cbn [enc_to_all map].
  - intros H; inversion H. split; constructor.
  - destruct (nth_error kps (Z.to_nat i)) as [pub|] eqn:EN; [|discriminate].
    destruct (encrypt o pub ectx inner) as [c|k|] eqn:EE; try discriminate.
    destruct (enc_to_all o kps ectx inner r) as [cs| |] eqn:ER; cbn [obind]; try discriminate.
    intros H; inversion H; subst. destruct (IH cs eq_refl) as [-> HF].
    apply encrypt_ok_inv in EE. destruct EE as (HL & HV & ->).
    split; [|constructor; eauto]. f_equal. f_equal. symmetry. apply nth_error_nth. exact EN.
Qed.

Lemma enc_grants_inv o kps id ctx d : forall gi gs,
  enc_grants o kps id ctx gi d = Ok gs ->
  length gs = length d /\ Forall (fun g => Forall (is_enc o) (g_cts g)) gs.
Proof.
  induction d as [|[gc shs] d IH]; intros gi gs; cbn [enc_grants].
  - intros H; inversion H. split; constructor.
  - destruct (enc_to_all _ _ _ _ _) as [cts| |] eqn:E1; cbn [obind]; try discriminate.
    destruct (enc_grants o kps id ctx (S gi) d) as [gs'| |] eqn:E2; cbn [obind]; try discriminate.
    intros H; inversion H; subst. destruct (IH _ _ E2) as [HL HF]. split; [cbn; lia|].
    constructor; [|exact HF]. cbn [g_cts]. apply enc_to_all_inv in E1. destruct E1 as [-> HI].
    apply Forall_forall. intros c Hc. apply in_map_iff in Hc. destruct Hc as (i & <- & Hi).
    rewrite Forall_forall in HI. destruct (HI i Hi) as (pub & HN & HL' & _).
    exists pub, (grant_ctx id ctx gi), (marshal_inner shs). split; [exact HL'|].
    f_equal. apply nth_error_nth. exact HN.
Qed.

Lemma distribute_length {A} grants (shares : list A) : length (distribute grants shares) = length grants.
Proof. revert shares; induction grants as [|g gs IH]; intros sh; cbn; auto. Qed.

(* ---- C18: context binding ---- *)
Lemma hash_context_inj a b : hash_context a = hash_context b -> a = b.
Proof.
  unfold hash_context, hash32. intros H. apply fapp_inj in H; [|lia]. destruct H as (_ & _ & H).
  apply list1_inj, H.
Qed.

Lemma unlock_wrong_context o r ctx payload kps cfg env ctx' privs :
  build o r ctx payload kps cfg = Ok env -> ctx' <> ctx ->
  unlock o ctx' env privs = Err E_CTX.
Proof.
  intros HB HN. apply build_inv in HB.
  destruct HB as (cf & gs & _ & _ & HK & HG & _ & _ & HE & ->).
  apply enc_grants_inv in HE. destruct HE as [HL _]. rewrite distribute_length in HL.
  unfold unlock. cbn [e_grants e_keypairs e_ctxhash].
  destruct gs as [|g gs]; [destruct (cf_grants cf); [contradiction|discriminate]|].
  destruct kps as [|k kps]; [contradiction|].
  destruct (sbytes_eqb (hash_context ctx) (hash_context ctx')) eqn:E; [|reflexivity].
  apply sbytes_eqb_spec, hash_context_inj in E. congruence.
Qed.

(* ---- C18: tampering ---- *)
Definition env_bytes (env : envelope) : sbytes :=
  e_ct env ++ concat (concat (map g_cts (e_grants env))).

Lemma kdf_ne_dh x y seed pt : kdf x y <> dh seed pt.
Proof.
  intros H. destruct (dh_shape seed pt) as [(s2 & _ & E)|E]; rewrite E in H.
  - rewrite dh_honest in H. destruct (upair seed s2). unfold kdf in H.
    apply fapp_inj in H; [|lia]. destruct H as (H & _). discriminate.
  - unfold kdf in H. apply fapp_inj in H; [|lia]. destruct H as (H & _). discriminate.
Qed.

(* what a successful unlock has opened *)
Lemma unlock_success_inv o ctx env privs p res :
  unlock o ctx env privs = Ok (Some p, res) ->
  exists sec, open (enc_key sec (e_id env) ctx) (firstn 24 (e_ct env)) [] (skipn 24 (e_ct env)) = Some p.
Proof.
  unfold unlock. destruct (e_grants env); [discriminate|]. destruct (e_keypairs env); [discriminate|].
  destruct (negb _); [discriminate|].
  destruct (unlock_loop _ _ _ _ _ _ _) as [st| |]; cbn [obind]; try discriminate.
  destruct (_ <? _); [intros H; inversion H|].
  destruct (recover _ _) as [sec| |]; try discriminate.
  destruct (length (e_ct env) <? 24)%nat; [discriminate|].
  destruct (open _ _ _ _) as [p'|] eqn:EO; [|discriminate].
  intros H; inversion H; subst. eauto.
Qed.

Lemma tamper_same_payload o r ctx payload kps cfg env env' ctx' privs p res :
  build o r ctx payload kps cfg = Ok env ->
  (forall x, In x (r_nonce r) -> is_keyed_out x = false) ->
  keyed_from (env_bytes env) (e_ct env') ->
  unlock o ctx' env' privs = Ok (Some p, res) ->
  p = payload.
Proof.
  intros HB HNonce HF HU. apply build_inv in HB.
  destruct HB as (cf & gs & _ & _ & _ & _ & _ & _ & HE & ->).
  apply enc_grants_inv in HE. destruct HE as [_ HG].
  apply unlock_success_inv in HU. destruct HU as [sec HO]. apply open_spec in HO.
  assert (HI : In (F FN_SEAL (map pack [enc_key sec (e_id env') ctx'; firstn 24 (e_ct env'); []; p]) 0%nat)
                  (e_ct env')).
  { apply (in_skipn 24). rewrite HO. apply fapp_in_head. unfold tag_len. lia. }
  pose proof (HF _ HI eq_refl) as HI2. clear HI. unfold env_bytes in HI2. cbn [e_ct e_grants] in HI2.
  apply in_app_or in HI2. destruct HI2 as [HI|HI].
  - apply in_app_or in HI. destruct HI as [HI|HI].
    + apply HNonce in HI. discriminate.
    + apply in_fapp in HI. destruct HI as (i & HI). apply F_pack_inj in HI. destruct HI as [_ HA].
      apply list4_inj in HA. tauto.
  - exfalso. apply in_concat in HI. destruct HI as (c & Hc & HI).
    apply in_concat in Hc. destruct Hc as (cts & Hcts & Hc). apply in_map_iff in Hcts.
    destruct Hcts as (g & <- & Hg). rewrite Forall_forall in HG. specialize (HG g Hg).
    rewrite Forall_forall in HG. destruct (HG c Hc) as (pub & ectx & inner & HL & ->).
    pose proof (keyed_in_enc_ct _ _ _ _ _ HI eq_refl) as HK. cbv zeta in HK. destruct HK as [HK|HK];
      apply in_fapp in HK; destruct HK as (i & HK); apply F_pack_inj in HK; destruct HK as [Hf HA];
      [discriminate Hf|].
    apply list4_inj in HA. destruct HA as (HA & _). unfold enc_key in HA. eapply kdf_ne_dh; eauto.
Qed.

(* ---- C18: totality ---- *)
Lemma try_keys_total o env privs ectx : forall idxs cts, try_keys o env privs ectx idxs cts <> Panic.
Proof.
  induction idxs as [|i r IH]; intros [|c cs]; cbn [try_keys]; try discriminate.
  destruct (matched env privs i); [|apply IH].
  destruct (decrypt o s ectx c) eqn:E; [discriminate|apply IH|].
  exfalso. eapply decrypt_total; eauto.
Qed.

Lemma sbytes_eqb_sym a b : sbytes_eqb a b = sbytes_eqb b a.
Proof.
  destruct (sbytes_eqb a b) eqn:E1, (sbytes_eqb b a) eqn:E2; auto.
  - apply sbytes_eqb_spec in E1. subst. rewrite (proj2 (sbytes_eqb_spec b b) eq_refl) in E2. discriminate.
  - apply sbytes_eqb_spec in E2. subst. rewrite (proj2 (sbytes_eqb_spec a a) eq_refl) in E1. discriminate.
Qed.

Lemma nodupb_snoc l x : nodupb l = true -> existsb (sbytes_eqb x) l = false -> nodupb (l ++ [x]) = true.
Proof.
  induction l as [|y l IH]; cbn [nodupb existsb app]; [reflexivity|].
  intros H1 H2. apply andb_true_iff in H1. destruct H1 as [H1 H1'].
  apply orb_false_iff in H2. destruct H2 as [H2 H2'].
  apply andb_true_iff. split; [|apply IH; auto].
  rewrite existsb_app. cbn [existsb]. rewrite (sbytes_eqb_sym y x), H2.
  apply negb_true_iff in H1. rewrite H1. reflexivity.
Qed.

Lemma existsb_firstn {A} (f : A -> bool) n l : existsb f l = false -> existsb f (firstn n l) = false.
Proof.
  revert n; induction l as [|x l IH]; intros [|n]; cbn; auto.
  intros H. apply orb_false_iff in H. destruct H as [-> H]. cbn. auto.
Qed.

Lemma nodupb_firstn n l : nodupb l = true -> nodupb (firstn n l) = true.
Proof.
  revert n; induction l as [|x l IH]; intros [|n]; cbn [firstn nodupb]; auto.
  intros H. apply andb_true_iff in H. destruct H as [H1 H2]. apply andb_true_iff. split; [|auto].
  apply negb_true_iff. apply negb_true_iff in H1. apply existsb_firstn, H1.
Qed.

Definition st_inv (col : list share) (seen : list sbytes) : Prop :=
  map fst col = seen /\ nodupb seen = true.

Lemma collect_inv shs : forall (col : list share) seen,
  st_inv col seen -> st_inv (fst (collect shs col seen)) (snd (collect shs col seen)).
Proof.
  induction shs as [|[id v] r IH]; intros col seen HI; cbn [collect]; [exact HI|].
  destruct (negb (Nat.eqb (length id) 32)); [apply IH, HI|].
  destruct (existsb _ seen) eqn:EE; [apply IH, HI|].
  destruct (negb (Nat.eqb (length v) 32)); [apply IH, HI|].
  apply IH. destruct HI as [H1 H2]. split.
  - rewrite map_app. f_equal. exact H1.
  - apply nodupb_snoc; auto.
Qed.

Lemma unlock_grant_inv o env privs ctx gi g st st' :
  unlock_grant o env privs ctx gi g st = Ok st' ->
  st_inv (u_col st) (u_seen st) -> st_inv (u_col st') (u_seen st').
Proof.
  unfold unlock_grant. destruct (negb _); [intros H; inversion H; auto|].
  destruct (try_keys _ _ _ _ _ _) as [[inner|]| |]; cbn [obind]; try discriminate;
    [|intros H; inversion H; auto].
  destruct (unmarshal_inner inner) as [shs|]; [|intros H; inversion H; auto].
  destruct (collect shs (u_col st) (u_seen st)) as [col seen] eqn:EC.
  intros H HI. inversion H; subst. cbn [u_col u_seen].
  pose proof (collect_inv shs _ _ HI) as HC. rewrite EC in HC. exact HC.
Qed.

Lemma unlock_grant_total o env privs ctx gi g st : unlock_grant o env privs ctx gi g st <> Panic.
Proof.
  unfold unlock_grant. destruct (negb _); [discriminate|].
  destruct (try_keys _ _ _ _ _ _) as [[inner|]| |] eqn:E; cbn [obind]; try discriminate.
  - destruct (unmarshal_inner inner); [|discriminate]. destruct (collect _ _ _). discriminate.
  - exfalso. eapply try_keys_total; eauto.
Qed.

Lemma unlock_loop_inv o env privs ctx : forall gs gi st,
  st_inv (u_col st) (u_seen st) ->
  match unlock_loop o env privs ctx gi gs st with
  | Ok st' => st_inv (u_col st') (u_seen st')
  | Err _ => True
  | Panic => False
  end.
Proof.
  induction gs as [|g gs IH]; intros gi st HI; cbn [unlock_loop]; [exact HI|].
  destruct (unlock_grant o env privs ctx gi g st) as [st'|k|] eqn:E; cbn [obind]; auto.
  - apply IH. eapply unlock_grant_inv; eauto.
  - eapply unlock_grant_total; eauto.
Qed.

Lemma recover_total t (col : list share) :
  0 <= t -> nodupb (map fst col) = true -> recover t col <> Panic.
Proof.
  intros Ht HN. unfold recover. destruct (Z.of_nat (length col) <=? t) eqn:EL; [discriminate|].
  rewrite <- firstn_map. rewrite nodupb_firstn by exact HN. cbn [negb].
  destruct col as [|[i0 v0] col]; [cbn in EL; lia|].
  replace (Z.to_nat t + 1)%nat with (S (Z.to_nat t)) by lia. cbn [firstn].
  destruct (share_params v0) as [[[s p] t0]|]; [|discriminate].
  destruct (_ && _); discriminate.
Qed.

Lemma unlock_total o ctx env privs : 0 <= e_threshold env -> unlock o ctx env privs <> Panic.
Proof.
  intros Ht. unfold unlock. destruct (e_grants env) as [|g gs] eqn:EG; [discriminate|].
  destruct (e_keypairs env); [discriminate|]. destruct (negb _); [discriminate|].
  pose proof (unlock_loop_inv o env privs ctx (g :: gs) 0 {| u_col := []; u_seen := []; u_unl := [] |}) as HL.
  destruct (unlock_loop _ _ _ _ _ _ _) as [st|k|]; cbn [obind]; [|discriminate|exfalso; apply HL; split; reflexivity].
  specialize (HL (conj eq_refl eq_refl)). destruct HL as [H1 H2].
  destruct (_ <? _); [discriminate|].
  destruct (recover (e_threshold env) (u_col st)) as [sec|k|] eqn:ER; [|discriminate|].
  - destruct (length (e_ct env) <? 24)%nat; [discriminate|]. destruct (open _ _ _ _); discriminate.
  - exfalso. eapply recover_total; eauto. rewrite H1. exact H2.
Qed.

(* ---- the derivation contexts bind (envelope id, context) injectively ---- *)
Definition digit_step (v : nat) (d : Z) : nat := (v * 10 + Z.to_nat (d - 48))%nat.

Lemma itoa_aux_value : forall fuel n acc,
  (n < fuel)%nat -> fold_left digit_step (itoa_aux fuel n acc) 0%nat = fold_left digit_step acc n.
Proof.
  induction fuel as [|f IH]; intros n acc Hn; [lia|]. cbn [itoa_aux].
  destruct (Nat.eqb (n / 10) 0) eqn:E.
  - apply Nat.eqb_eq in E. cbn [fold_left]. f_equal. unfold digit_step.
    assert (n < 10)%nat by (apply Nat.div_small_iff in E; lia).
    rewrite Nat.mod_small by lia. lia.
  - apply Nat.eqb_neq in E.
    assert (Hd : (n / 10 < f)%nat).
    { assert (n / 10 < n)%nat by (apply Nat.div_lt; lia). lia. }
    rewrite IH by exact Hd. cbn [fold_left]. f_equal. unfold digit_step.
    pose proof (Nat.div_mod n 10). pose proof (Nat.mod_upper_bound n 10). lia.
Qed.

Lemma itoa_inj n m : itoa n = itoa m -> n = m.
Proof.
  intros H. apply (f_equal (fun l => fold_left digit_step l 0%nat)) in H.
  unfold itoa in H. rewrite !itoa_aux_value in H by lia. exact H.
Qed.

Lemma itoa_aux_digits : forall fuel n acc,
  Forall (fun d => d <> 58) acc -> Forall (fun d => d <> 58) (itoa_aux fuel n acc).
Proof.
  induction fuel as [|f IH]; intros n acc HA; [exact HA|]. cbn [itoa_aux].
  assert (Hd : Z.of_nat (n mod 10) + 48 <> 58).
  { pose proof (Nat.mod_upper_bound n 10). lia. }
  destruct (Nat.eqb (n / 10) 0); [constructor; auto|apply IH; constructor; auto].
Qed.

Lemma split_at_colon : forall (l1 l2 : bytes) (r1 r2 : sbytes),
  Forall (fun d => d <> 58) l1 -> Forall (fun d => d <> 58) l2 ->
  lift l1 ++ B 58 :: r1 = lift l2 ++ B 58 :: r2 -> l1 = l2 /\ r1 = r2.
Proof.
  induction l1 as [|x l1 IH]; intros [|y l2] r1 r2 H1 H2 H; cbn [lift map app] in H.
  - inversion H. auto.
  - inversion H; subst. inversion H2; subst. congruence.
  - inversion H; subst. inversion H1; subst. congruence.
  - inversion H; subst. inversion H1; inversion H2; subst.
    destruct (IH l2 r1 r2) as [-> ->]; auto.
Qed.

(* a length-prefixed field is self-delimiting *)
Lemma len_field_inj a b x y : len_field a ++ x = len_field b ++ y -> a = b /\ x = y.
Proof.
  unfold len_field. rewrite <- !app_assoc. cbn [app]. intros H.
  apply split_at_colon in H; try (apply itoa_aux_digits; constructor).
  destruct H as [H1 H2]. apply itoa_inj in H1. apply app_eq_len in H2; auto.
Qed.

Lemma kd_ctx_inj id ctx id' ctx' : kd_ctx id ctx = kd_ctx id' ctx' -> id = id' /\ ctx = ctx'.
Proof.
  unfold kd_ctx. intros H. apply app_inv_head in H. apply app_inv_head in H.
  apply len_field_inj in H. destruct H as [-> H]. split; [reflexivity|].
  cbn [app] in H. inversion H as [H']. rewrite <- (app_nil_r (len_field ctx)), <- (app_nil_r (len_field ctx')) in H'.
  apply len_field_inj in H'. tauto.
Qed.

Lemma grant_ctx_inj id ctx gi id' ctx' gi' :
  grant_ctx id ctx gi = grant_ctx id' ctx' gi' -> id = id' /\ ctx = ctx' /\ gi = gi'.
Proof.
  unfold grant_ctx. intros H. apply app_inv_head in H. apply app_inv_head in H.
  apply len_field_inj in H. destruct H as [-> H]. cbn [app] in H. inversion H as [H'].
  apply len_field_inj in H'. destruct H' as [-> H']. cbn [app] in H'. inversion H' as [H''].
  apply lift_inj, itoa_inj in H''. auto.
Qed.

(* a tampered envelope that still opens does so only under the sealing
   context and with the original envelope id: rewriting the id and
   recomputing the context hash for another context cannot succeed *)
Lemma tamper_binds_context o r ctx payload kps cfg env env' ctx' privs p res :
  build o r ctx payload kps cfg = Ok env ->
  (forall x, In x (r_nonce r) -> is_keyed_out x = false) ->
  keyed_from (env_bytes env) (e_ct env') ->
  unlock o ctx' env' privs = Ok (Some p, res) ->
  p = payload /\ ctx' = ctx /\ e_id env' = e_id env.
Proof.
  intros HB HNonce HF HU. pose proof (tamper_same_payload _ _ _ _ _ _ _ _ _ _ _ _ HB HNonce HF HU) as HP.
  split; [exact HP|]. apply build_inv in HB.
  destruct HB as (cf & gs & _ & _ & _ & _ & _ & _ & HE & ->).
  apply enc_grants_inv in HE. destruct HE as [_ HG].
  apply unlock_success_inv in HU. destruct HU as [sec HO]. apply open_spec in HO.
  assert (HI : In (F FN_SEAL (map pack [enc_key sec (e_id env') ctx'; firstn 24 (e_ct env'); []; p]) 0%nat)
                  (e_ct env')).
  { apply (in_skipn 24). rewrite HO. apply fapp_in_head. unfold tag_len. lia. }
  pose proof (HF _ HI eq_refl) as HI2. clear HI. unfold env_bytes in HI2. cbn [e_ct e_grants] in HI2.
  cbn [e_id]. apply in_app_or in HI2. destruct HI2 as [HI|HI].
  - apply in_app_or in HI. destruct HI as [HI|HI].
    + apply HNonce in HI. discriminate.
    + apply in_fapp in HI. destruct HI as (i & HI). apply F_pack_inj in HI. destruct HI as [_ HA].
      apply list4_inj in HA. destruct HA as (HK & _). unfold enc_key, kdf in HK.
      apply fapp_inj in HK; [|lia]. destruct HK as (_ & _ & HK). apply list2_inj in HK.
      destruct HK as [HK _]. apply kd_ctx_inj in HK. tauto.
  - exfalso. apply in_concat in HI. destruct HI as (c & Hc & HI).
    apply in_concat in Hc. destruct Hc as (cts & Hcts & Hc). apply in_map_iff in Hcts.
    destruct Hcts as (g & <- & Hg). rewrite Forall_forall in HG. specialize (HG g Hg).
    rewrite Forall_forall in HG. destruct (HG c Hc) as (pub & ectx & inner & HL & ->).
    pose proof (keyed_in_enc_ct _ _ _ _ _ HI eq_refl) as HK. cbv zeta in HK. destruct HK as [HK|HK];
      apply in_fapp in HK; destruct HK as (i & HK); apply F_pack_inj in HK; destruct HK as [Hf HA];
      [discriminate Hf|].
    apply list4_inj in HA. destruct HA as (HA & _). unfold enc_key in HA. eapply kdf_ne_dh; eauto.
Qed.
