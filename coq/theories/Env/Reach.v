(* The reach specification of envelopes (C16, C17): unlocking an accepted
   envelope with any set of keys succeeds exactly when the grants those keys
   can decrypt hold at least threshold+1 shares, returns the payload, and
   reports the counts and the unlocked grants. *)
From Bifrost Require Import Lib.Base Lib.Sym Enc.Prim Enc.PrimFacts Enc.Model Enc.Proofs
  Env.Model Env.Proofs.

(* ---- the abstract specification ---- *)
(* an offered private key whose public key is [pub] *)
Definition knows (K : list sbytes) (pub : sbytes) : bool :=
  existsb (fun sk => sbytes_eqb (edpub sk) pub) K.
(* the grant names at least one keypair whose private key is offered *)
Definition can_open (kps K : list sbytes) (gc : grant_cfg) : bool :=
  existsb (fun i => match nth_error kps (Z.to_nat i) with Some pub => knows K pub | None => false end)
          (gc_idx gc).
(* share numbers placed, in order, in the grants that the offered keys open:
   each grant takes its share count from the remaining shares *)
Fixpoint reach_from (kps K : list sbytes) (gs : list grant_cfg) (l : list nat) : list nat :=
  match gs with
  | [] => []
  | gc :: r =>
      let sc := Z.to_nat (eff_count gc) in
      (if can_open kps K gc then firstn sc l else []) ++ reach_from kps K r (skipn sc l)
  end.
Fixpoint open_idx (kps K : list sbytes) (gi : nat) (gs : list grant_cfg) : list Z :=
  match gs with
  | [] => []
  | gc :: r => (if can_open kps K gc then [Z.of_nat gi] else []) ++ open_idx kps K (S gi) r
  end.
Definition reach (kps K : list sbytes) (cf : config) : list nat :=
  reach_from kps K (cf_grants cf) (seq 1 (Z.to_nat (build_total cf))).

(* configuration fields are uint32 values *)
Definition cfg_wf (cf : config) : Prop :=
  0 <= cf_threshold cf /\ cf_total cf < two32 /\ Forall (fun gc => 0 <= gc_count gc) (cf_grants cf).

(* ---- share ids ---- *)
Lemma le_bytes_length n v : length (le_bytes n v) = n.
Proof. revert v; induction n as [|n IH]; intros v; cbn; auto. Qed.

Lemma le_val_le_bytes n : forall v, 0 <= v -> le_val (le_bytes n v) = v mod 256 ^ Z.of_nat n.
Proof.
  induction n as [|n IH]; intros v Hv.
  - cbn. rewrite Z.mod_1_r. reflexivity.
  - cbn [le_bytes le_val]. rewrite IH by (apply Z.div_pos; lia).
    rewrite Nat2Z.inj_succ, Z.pow_succ_r by lia.
    rewrite (Z.rem_mul_r v 256 (256 ^ Z.of_nat n)) by lia. lia.
Qed.

Definition small (i : nat) : Prop := Z.of_nat i < two32.

Lemma le_val_share i : small i -> le_val (le_bytes 32 (Z.of_nat i)) = Z.of_nat i.
Proof.
  intros H. rewrite le_val_le_bytes by lia. apply Z.mod_small. unfold small, two32 in H.
  change (256 ^ Z.of_nat 32) with 115792089237316195423570985008687907853269984665640564039457584007913129639936. lia.
Qed.

Lemma share_id_length i : length (share_id i) = 32%nat.
Proof. unfold share_id, lift. rewrite map_length. apply le_bytes_length. Qed.

Lemma share_id_inj i j : small i -> small j -> share_id i = share_id j -> i = j.
Proof.
  intros Hi Hj H. apply lift_inj in H. apply (f_equal le_val) in H. rewrite !le_val_share in H by assumption. lia.
Qed.

Lemma canon_share_id i : small i -> canon (share_id i) = share_id i.
Proof.
  intros H. unfold canon, share_id. rewrite unlift_lift, le_bytes_length, Nat.eqb_refl.
  rewrite le_val_share by exact H. unfold small, two32 in H.
  rewrite (Z.mod_small (Z.of_nat i) (2 ^ 253)).
  - rewrite Z.mod_small; [reflexivity|]. unfold ord_l. lia.
  - change (2 ^ 253) with 14474011154664524427946373126085988481658748083205070504932198000989141204992. lia.
Qed.

Lemma unlift_fapp f n l : unlift (fapp f (S n) l) = None.
Proof. rewrite fapp_head. reflexivity. Qed.

Lemma canon_share_val s p t c : canon (share_val s p t c) = share_val s p t c.
Proof. unfold canon, share_val. rewrite unlift_fapp. reflexivity. Qed.

Lemma share_val_length s p t c : length (share_val s p t c) = 32%nat.
Proof. apply fapp_length. Qed.

Lemma share_params_val s p t c : share_params (share_val s p t c) = Some (s, p, t).
Proof.
  unfold share_params, share_val. rewrite unfapp_fapp by lia. rewrite fapp_length, !Nat.eqb_refl.
  cbn [andb]. rewrite unlift_lift. reflexivity.
Qed.

(* ---- strictly ascending lists ---- *)
Fixpoint asc (a : nat) (l : list nat) : Prop :=
  match l with [] => True | x :: r => (a <= x)%nat /\ asc (S x) r end.

Lemma asc_seq n : forall a, asc a (seq a n).
Proof. induction n as [|n IH]; intros a; cbn; auto. Qed.

Lemma asc_weaken l : forall a b, (b <= a)%nat -> asc a l -> asc b l.
Proof. destruct l as [|x r]; cbn; intros a b H1 H2; auto. destruct H2. split; auto. lia. Qed.

Lemma asc_split k : forall a l, asc a l ->
  exists a', (a <= a')%nat /\ (forall x, In x (firstn k l) -> (a <= x < a')%nat) /\ asc a' (skipn k l) /\
             asc a (firstn k l).
Proof.
  induction k as [|k IH]; intros a l H.
  - exists a. cbn [firstn skipn asc]. split; [lia|]. split; [intros z Hz; destruct Hz|]. split; [exact H|exact I].
  - destruct l as [|y r].
    + exists a. cbn [firstn skipn asc]. split; [lia|]. split; [intros z Hz; destruct Hz|]. split; exact I.
    + cbn [asc] in H. destruct H as [H1 H2]. destruct (IH (S y) r H2) as (a' & Ha & Hf & Hs & Hp).
      exists a'. cbn [firstn skipn asc]. split; [lia|]. split; [|split; [exact Hs|split; [exact H1|exact Hp]]].
      intros z [<-|Hz]; [lia|]. specialize (Hf z Hz). lia.
Qed.

(* ---- collecting the shares of an honestly built grant ---- *)
Section Honest.
  Variables (s p : sbytes) (t : Z).
  Let mk := mk_share s p t.

  Lemma existsb_share_id_fresh x L :
    small x -> (forall y, In y L -> (y < x)%nat) ->
    existsb (sbytes_eqb (share_id x)) (map share_id L) = false.
  Proof.
    intros Hx HL. destruct (existsb _ _) eqn:E; [|reflexivity]. exfalso.
    apply existsb_exists in E. destruct E as (z & Hz & E). apply in_map_iff in Hz.
    destruct Hz as (y & <- & Hy). apply sbytes_eqb_spec in E. specialize (HL y Hy).
    apply share_id_inj in E; [lia|exact Hx|]. unfold small in *. lia.
  Qed.

  Lemma collect_honest : forall li a L,
    asc a li -> (forall y, In y L -> (y < a)%nat) -> (forall x, In x li -> small x) ->
    collect (map mk li) (map mk L) (map share_id L) = (map mk (L ++ li), map share_id (L ++ li)).
  Proof.
    induction li as [|x r IH]; intros a L HA HL HS.
    - cbn [map collect]. rewrite app_nil_r. reflexivity.
    - cbn [map]. unfold mk at 1, mk_share. cbn [collect]. fold (mk_share s p t x). fold mk.
      destruct HA as [HA1 HA2]. assert (Hx : small x) by (apply HS; left; reflexivity).
      rewrite share_id_length, Nat.eqb_refl. cbn [negb].
      rewrite canon_share_id by exact Hx.
      rewrite existsb_share_id_fresh; [|exact Hx|intros y Hy; specialize (HL y Hy); lia].
      rewrite share_val_length, Nat.eqb_refl. cbn [negb]. rewrite canon_share_val.
      replace (map mk L ++ [(share_id x, share_val s p t (share_id x))]) with (map mk (L ++ [x]))
        by (rewrite map_app; reflexivity).
      replace (map share_id L ++ [share_id x]) with (map share_id (L ++ [x])) by (rewrite map_app; reflexivity).
      rewrite (IH (S x) (L ++ [x])); auto.
      + rewrite <- !app_assoc. reflexivity.
      + intros y Hy. apply in_app_or in Hy. destruct Hy as [Hy|[<-|[]]]; [specialize (HL y Hy)|]; lia.
      + intros y Hy. apply HS. right. exact Hy.
  Qed.
End Honest.

(* ---- the inner codec ---- *)
Lemma pair_up_flat (shs : list share) :
  pair_up (concat (map (fun s : share => [fst s; snd s]) shs)) = Some shs.
Proof.
  induction shs as [|[i v] r IH]; [reflexivity|]. cbn [map concat app fst snd pair_up]. rewrite IH. reflexivity.
Qed.

Lemma unmarshal_marshal shs : unmarshal_inner (marshal_inner shs) = Some shs.
Proof.
  unfold unmarshal_inner, marshal_inner. rewrite unfapp_fapp by lia. rewrite fapp_length.
  cbn [Nat.eqb andb]. apply pair_up_flat.
Qed.

(* ---- honestly built grants ---- *)
Section Built.
  Variables (o : orc) (kps : list sbytes) (id ctx : sbytes) (s p : sbytes) (t : Z).
  Hypothesis HO : honest_orc o.
  Let mk := mk_share s p t.

  Definition hcts (gi : nat) (gc : grant_cfg) (li : list nat) : list sbytes :=
    map (fun i => enc_ct o (nth (Z.to_nat i) kps []) (grant_ctx id ctx gi) (marshal_inner (map mk li))) (gc_idx gc).

  Fixpoint hgrants (gi : nat) (gs : list grant_cfg) (l : list nat) : list grant :=
    match gs with
    | [] => []
    | gc :: r =>
        let sc := Z.to_nat (eff_count gc) in
        {| g_idx := gc_idx gc; g_cts := hcts gi gc (firstn sc l) |} :: hgrants (S gi) r (skipn sc l)
    end.

  Lemma hgrants_length : forall gs gi l, length (hgrants gi gs l) = length gs.
  Proof. induction gs as [|gc r IH]; intros gi l; cbn [hgrants length]; auto. Qed.

  Definition idx_valid (gc : grant_cfg) : Prop :=
    Forall (fun i => exists pub, nth_error kps (Z.to_nat i) = Some pub) (gc_idx gc).

  Lemma enc_grants_h : forall gs gi l res,
    enc_grants o kps id ctx gi (distribute gs (map mk l)) = Ok res ->
    res = hgrants gi gs l /\ Forall idx_valid gs.
  Proof.
    induction gs as [|gc r IH]; intros gi l res; cbn [distribute enc_grants hgrants].
    - intros H; inversion H. split; constructor.
    - destruct (enc_to_all _ _ _ _ _) as [cts| |] eqn:E1; cbn [obind]; try discriminate.
      destruct (enc_grants o kps id ctx (S gi) _) as [gs'| |] eqn:E2; cbn [obind]; try discriminate.
      intros H; inversion H; subst. rewrite skipn_map in E2. destruct (IH _ _ _ E2) as [-> HV].
      apply enc_to_all_inv in E1. destruct E1 as [-> HI]. rewrite firstn_map. split; [reflexivity|].
      constructor; [|exact HV]. unfold idx_valid. rewrite Forall_forall in *. intros i Hi.
      destruct (HI i Hi) as (pub & HN & _). eauto.
  Qed.

  Variables (env : envelope) (K : list sbytes) (uctx : sbytes).
  Hypothesis Hkps : e_keypairs env = kps.

  Lemma matched_knows i pub :
    nth_error kps (Z.to_nat i) = Some pub ->
    match matched env K i with
    | Some sk => knows K pub = true /\ pub = edpub sk
    | None => knows K pub = false
    end.
  Proof.
    intros HN. unfold matched. rewrite Hkps.
    assert (HLt : (Z.to_nat i < length kps)%nat) by (apply nth_error_Some; congruence).
    replace (Z.of_nat (length kps) <=? i) with false by lia. rewrite HN. unfold knows.
    destruct (find _ K) as [sk|] eqn:EF.
    - apply find_some in EF. destruct EF as [HI HE]. split.
      + apply existsb_exists. eauto.
      + apply sbytes_eqb_spec in HE. auto.
    - destruct (existsb _ K) eqn:EE; [|reflexivity]. apply existsb_exists in EE.
      destruct EE as (sk & HI & HE). rewrite (find_none _ _ EF sk HI) in HE. discriminate.
  Qed.

  Lemma try_keys_honest ectx inner : forall idxs,
    Forall (fun i => exists pub, nth_error kps (Z.to_nat i) = Some pub) idxs ->
    try_keys o env K ectx idxs (map (fun i => enc_ct o (nth (Z.to_nat i) kps []) ectx inner) idxs) =
    Ok (if existsb (fun i => match nth_error kps (Z.to_nat i) with Some pub => knows K pub | None => false end) idxs
        then Some inner else None).
  Proof.
    induction idxs as [|i r IH]; intros HV; [reflexivity|].
    pose proof (Forall_inv HV) as (pub & HN). pose proof (Forall_inv_tail HV) as HV'. cbn [map try_keys existsb].
    pose proof (matched_knows i pub HN) as HM. rewrite HN. cbv beta.
    erewrite nth_error_nth by exact HN.
    destruct (matched env K i) as [sk|].
    - destruct HM as [HK ->]. rewrite decrypt_encrypt by exact HO. rewrite HK. reflexivity.
    - rewrite HM. cbn [orb]. apply IH, HV'.
  Qed.

  (* the unlock loop on honestly built grants, context and id as sealed *)
  Hypothesis Hid : e_id env = id.

  Lemma loop_honest : forall gs gi l a L unl,
    Forall idx_valid gs -> asc a l -> (forall y, In y L -> (y < a)%nat) -> (forall x, In x l -> small x) ->
    unlock_loop o env K ctx gi (hgrants gi gs l)
      {| u_col := map mk L; u_seen := map share_id L; u_unl := unl |} =
    Ok {| u_col := map mk (L ++ reach_from kps K gs l); u_seen := map share_id (L ++ reach_from kps K gs l);
          u_unl := unl ++ open_idx kps K gi gs |}.
  Proof.
    induction gs as [|gc r IH]; intros gi l a L unl HV HA HL HS; cbn [hgrants unlock_loop reach_from open_idx];
      unfold mk in *.
    - rewrite !app_nil_r. reflexivity.
    - pose proof (Forall_inv HV) as HV1. pose proof (Forall_inv_tail HV) as HV2.
      set (sc := Z.to_nat (eff_count gc)).
      destruct (asc_split sc a l HA) as (a' & Ha & Hf & Hs & Hp).
      unfold unlock_grant. cbn [g_idx g_cts]. unfold hcts, mk. rewrite map_length, Nat.eqb_refl. cbn [negb].
      rewrite Hid. rewrite (try_keys_honest _ _ _ HV1). fold (can_open kps K gc).
      destruct (can_open kps K gc) eqn:EC; cbn [obind].
      + rewrite unmarshal_marshal. cbn [u_col u_seen u_unl].
        rewrite (collect_honest s p t (firstn sc l) a L Hp HL) by (intros x Hx; apply HS; eapply in_firstn; eauto).
        cbv iota beta. cbn [obind].
        rewrite (IH (S gi) (skipn sc l) a' (L ++ firstn sc l) (unl ++ [Z.of_nat gi]) HV2 Hs).
        * rewrite <- !app_assoc. reflexivity.
        * intros y Hy. apply in_app_or in Hy. destruct Hy as [Hy|Hy]; [specialize (HL y Hy); lia|].
          specialize (Hf y Hy). lia.
        * intros x Hx. apply HS. eapply in_skipn; eauto.
      + rewrite (IH (S gi) (skipn sc l) a' L unl HV2 Hs).
        * reflexivity.
        * intros y Hy. specialize (HL y Hy). lia.
        * intros x Hx. apply HS. eapply in_skipn; eauto.
  Qed.
End Built.

(* ---- arithmetic of the acceptance check ---- *)
Lemma eff_count_pos gc : 0 <= gc_count gc -> 1 <= eff_count gc.
Proof. unfold eff_count. destruct (gc_count gc =? 0) eqn:E; lia. Qed.

Lemma reach_from_length_le kps K gs : forall l, (length (reach_from kps K gs l) <= length l)%nat.
Proof.
  induction gs as [|gc r IH]; intros l; cbn [reach_from]; [cbn; lia|].
  rewrite app_length. specialize (IH (skipn (Z.to_nat (eff_count gc)) l)). rewrite skipn_length in IH.
  destruct (can_open kps K gc); [rewrite firstn_length|cbn [length]]; lia.
Qed.

(* reachable = what keys that open every keyed grant reach *)
Lemma reach_all kps K gs :
  Forall (fun gc => 0 <= gc_count gc) gs ->
  (forall gc, In gc gs -> can_open kps K gc = match gc_idx gc with [] => false | _ => true end) ->
  forall l, Z.of_nat (length (reach_from kps K gs l)) = reachable gs (Z.of_nat (length l)).
Proof.
  induction gs as [|gc r IH]; intros HW HC l; cbn [reach_from reachable]; [reflexivity|].
  inversion HW as [|? ? HW1 HW2]; subst. pose proof (eff_count_pos gc HW1) as HE.
  rewrite app_length, Nat2Z.inj_add.
  rewrite (IH HW2 (fun g Hg => HC g (or_intror Hg))). rewrite skipn_length.
  rewrite (HC gc (or_introl eq_refl)).
  replace (Z.of_nat (length l - Z.to_nat (eff_count gc)))
    with (Z.of_nat (length l) - Z.min (eff_count gc) (Z.of_nat (length l))) by lia.
  destruct (gc_idx gc); [cbn [length]; lia|]. rewrite firstn_length. lia.
Qed.

Lemma reach_le_reachable kps K gs :
  Forall (fun gc => 0 <= gc_count gc) gs ->
  forall l, Z.of_nat (length (reach_from kps K gs l)) <= reachable gs (Z.of_nat (length l)).
Proof.
  induction gs as [|gc r IH]; intros HW l; cbn [reach_from reachable]; [cbn; lia|].
  inversion HW as [|? ? HW1 HW2]; subst. pose proof (eff_count_pos gc HW1) as HE.
  rewrite app_length, Nat2Z.inj_add. specialize (IH HW2 (skipn (Z.to_nat (eff_count gc)) l)).
  rewrite skipn_length in IH.
  replace (Z.of_nat (length l - Z.to_nat (eff_count gc)))
    with (Z.of_nat (length l) - Z.min (eff_count gc) (Z.of_nat (length l))) in IH by lia.
  assert (HN : can_open kps K gc = true -> gc_idx gc <> []).
  { unfold can_open. destruct (gc_idx gc); [discriminate|discriminate]. }
  destruct (can_open kps K gc).
  - destruct (gc_idx gc); [exfalso; apply HN; auto|]. rewrite firstn_length. lia.
  - cbn [length]. destruct (gc_idx gc); lia.
Qed.

Lemma reachable_le gs : Forall (fun gc => 0 <= gc_count gc) gs -> forall rem, 0 <= rem -> reachable gs rem <= rem.
Proof.
  induction gs as [|gc r IH]; intros HW rem Hr; cbn [reachable]; [lia|].
  inversion HW as [|? ? HW1 HW2]; subst. pose proof (eff_count_pos gc HW1) as HE.
  specialize (IH HW2 (rem - Z.min (eff_count gc) rem)). destruct (gc_idx gc); lia.
Qed.

Lemma total_of_lt gs : 0 <= total_of gs < two32.
Proof.
  unfold total_of. assert (H : forall acc, 0 <= acc < two32 ->
     0 <= fold_left (fun acc gc => wrap32 (acc + eff_count gc)) gs acc < two32).
  { induction gs as [|g r IH]; intros acc Ha; cbn [fold_left]; [exact Ha|]. apply IH. unfold wrap32.
    apply Z.mod_pos_bound. unfold two32. lia. }
  apply H. unfold two32. lia.
Qed.

(* ---- the main theorem ---- *)
Definition spec_result (kps K : list sbytes) (cf : config) (ok : bool) : result :=
  {| res_success := ok; res_avail := Z.of_nat (length (reach kps K cf)); res_needed := cf_threshold cf + 1;
     res_unlocked := open_idx kps K 0 (cf_grants cf) |}.

Theorem unlock_spec o r ctx payload kps cf env K :
  honest_orc o -> cfg_wf cf -> length (r_nonce r) = 24%nat ->
  build o r ctx payload kps (Some cf) = Ok env ->
  unlock o ctx env K =
  if Z.of_nat (length (reach kps K cf)) <? cf_threshold cf + 1
  then Ok (None, spec_result kps K cf false)
  else Ok (Some payload, spec_result kps K cf true).
Proof.
  intros HO (Ht & Htot & Hcnt) HN HB. apply build_inv in HB.
  destruct HB as (cf' & gs & Hcf & _ & HK & HG & HI & HR & HE & ->). inversion Hcf; subst cf'. clear Hcf.
  unfold build_shares in HE. apply enc_grants_h in HE. destruct HE as [-> HV].
  set (total := Z.to_nat (build_total cf)) in *.
  assert (Htotal : 0 <= build_total cf < two32).
  { unfold build_total. destruct (0 <? cf_total cf) eqn:E; [lia|apply total_of_lt]. }
  unfold unlock. cbn [e_grants e_keypairs e_ctxhash e_threshold e_ct e_id].
  destruct (hgrants _ _ _ _ _ _ _ _ _ _) as [|hg hgs] eqn:EH.
  { exfalso. apply (f_equal (@length grant)) in EH. rewrite hgrants_length in EH.
    destruct (cf_grants cf); [contradiction|discriminate]. }
  rewrite <- EH. clear EH hg hgs.
  destruct kps as [|k0 kps']; [contradiction|]. set (kps := k0 :: kps') in *.
  replace (sbytes_eqb (hash_context ctx) (hash_context ctx)) with true
    by (symmetry; apply sbytes_eqb_spec; reflexivity). cbn [negb].
  set (env := {| e_id := build_id r ctx cf; e_ctxhash := _; e_threshold := _; e_ct := _; e_grants := _; e_keypairs := _ |}).
  pose proof (loop_honest o kps (build_id r ctx cf) ctx (r_secret r) (r_poly r) (cf_threshold cf) HO env K
                eq_refl eq_refl (cf_grants cf) 0%nat (seq 1 total) 1%nat [] [] HV (asc_seq total 1)) as HL.
  cbn [map app] in HL. rewrite HL; clear HL.
  2:{ intros y []. }
  2:{ intros x Hx. apply in_seq in Hx. unfold small, total in *. lia. }
  cbn [obind u_col u_unl]. change (reach_from kps K (cf_grants cf) (seq 1 total)) with (reach kps K cf).
  rewrite map_length.
  set (R := reach kps K cf).
  assert (HRl : Z.of_nat (length R) <= build_total cf).
  { unfold R, reach. pose proof (reach_from_length_le kps K (cf_grants cf) (seq 1 total)) as H.
    rewrite seq_length in H. unfold total in H. lia. }
  assert (HRt : reachable (cf_grants cf) (build_total cf) <= build_total cf) by (apply reachable_le; [exact Hcnt|lia]).
  unfold wrap32. rewrite (Z.mod_small (Z.of_nat (length R))) by lia.
  rewrite (Z.mod_small (cf_threshold cf + 1)) by lia.
  destruct (Z.of_nat (length R) <? cf_threshold cf + 1) eqn:EL; [reflexivity|].
  (* recovery *)
  assert (HREC : recover (cf_threshold cf) (map (mk_share (r_secret r) (r_poly r) (cf_threshold cf)) R) = Ok (r_secret r)).
  { pose proof (unlock_loop_inv o env K ctx (e_grants env) 0 {| u_col := []; u_seen := []; u_unl := [] |}
                  (conj eq_refl eq_refl)) as HINV.
    unfold env at 2 in HINV. cbn [e_grants] in HINV.
    pose proof (loop_honest o kps (build_id r ctx cf) ctx (r_secret r) (r_poly r) (cf_threshold cf) HO env K
                  eq_refl eq_refl (cf_grants cf) 0%nat (seq 1 total) 1%nat [] [] HV (asc_seq total 1)) as HL.
    cbn [map app] in HL. rewrite HL in HINV; clear HL.
    2:{ intros y []. }
    2:{ intros x Hx. apply in_seq in Hx. unfold small, total in *. lia. }
    cbn [u_col u_seen app] in HINV. destruct HINV as [HI1 HI2].
    change (reach_from kps K (cf_grants cf) (seq 1 total)) with R in HI1, HI2. unfold recover. rewrite map_length.
    replace (Z.of_nat (length R) <=? cf_threshold cf) with false by lia.
    rewrite <- firstn_map, nodupb_firstn by exact (eq_trans (f_equal nodupb HI1) HI2). cbn [negb].
    rewrite firstn_map.
    destruct (firstn (Z.to_nat (cf_threshold cf) + 1) R) as [|x0 rest] eqn:EF.
    { exfalso. apply (f_equal (@length nat)) in EF. rewrite firstn_length in EF. cbn in EF. lia. }
    cbn [map]. unfold mk_share at 1. rewrite share_params_val.
    replace (cf_threshold cf <=? cf_threshold cf) with true by lia. cbn [andb].
    replace (forallb _ _) with true; [reflexivity|]. symmetry. apply forallb_forall.
    intros pt Hpt. change (mk_share (r_secret r) (r_poly r) (cf_threshold cf) x0 :: map (mk_share (r_secret r) (r_poly r) (cf_threshold cf)) rest)
      with (map (mk_share (r_secret r) (r_poly r) (cf_threshold cf)) (x0 :: rest)) in Hpt.
    apply in_map_iff in Hpt. destruct Hpt as (y & <- & _). unfold mk_share. cbn [fst snd].
    apply sbytes_eqb_spec. reflexivity. }
  rewrite HREC.
  replace (length (r_nonce r ++ _) <? 24)%nat with false
    by (symmetry; apply Nat.ltb_ge; rewrite app_length; lia).
  rewrite firstn_app_exact, skipn_app_exact by exact HN. rewrite open_seal. reflexivity.
Qed.

(* ---- C17 ---- *)
Lemma can_open_all kps K gs :
  kps <> [] ->
  idx_ok (length kps) gs = true ->
  (forall pub, In pub kps -> knows K pub = true) ->
  forall gc, In gc gs -> can_open kps K gc = match gc_idx gc with [] => false | _ => true end.
Proof.
  intros HNE HI HK gc Hgc. unfold idx_ok in HI. rewrite forallb_forall in HI. specialize (HI gc Hgc).
  unfold can_open. destruct (gc_idx gc) as [|i rest]; [reflexivity|]. cbn [existsb forallb] in *.
  apply andb_true_iff in HI. destruct HI as [HI _].
  destruct (nth_error kps (Z.to_nat i)) as [pub|] eqn:EN.
  - rewrite (HK pub (nth_error_In _ _ EN)). reflexivity.
  - exfalso. apply nth_error_None in EN. destruct kps; [contradiction|]. cbn [length] in *. lia.
Qed.

Theorem all_recipients_unlock o r ctx payload kps cf env K :
  honest_orc o -> cfg_wf cf -> length (r_nonce r) = 24%nat ->
  build o r ctx payload kps (Some cf) = Ok env ->
  (forall pub, In pub kps -> knows K pub = true) ->
  unlock o ctx env K = Ok (Some payload, spec_result kps K cf true) /\
  cf_threshold cf + 1 <= Z.of_nat (length (reach kps K cf)).
Proof.
  intros HO HW HN HB HK. pose proof HB as HB'. apply build_inv in HB'.
  destruct HB' as (cf' & gs & Hcf & _ & HNE & _ & HI & HR & _ & _). inversion Hcf; subst cf'.
  assert (HL : Z.of_nat (length (reach kps K cf)) = reachable (cf_grants cf) (build_total cf)).
  { unfold reach. destruct HW as (_ & Htot & Hcnt).
    rewrite (reach_all kps K (cf_grants cf) Hcnt (can_open_all kps K _ HNE HI HK)). rewrite seq_length.
    f_equal. apply Z2Nat.id. unfold build_total. destruct (0 <? cf_total cf) eqn:E; [lia|apply total_of_lt]. }
  rewrite (unlock_spec o r ctx payload kps cf env K HO HW HN HB).
  replace (_ <? _) with false by lia. split; [reflexivity|lia].
Qed.

(* a configuration in which even all recipients together reach fewer than
   threshold+1 shares is rejected; no key set reaches more than that *)
Theorem unreachable_rejected o r ctx payload kps cf :
  reachable (cf_grants cf) (build_total cf) < cf_threshold cf + 1 ->
  is_ok (build o r ctx payload kps (Some cf)) = false.
Proof.
  intros H. destruct (build o r ctx payload kps (Some cf)) as [env| |] eqn:E; try reflexivity.
  apply build_inv in E. destruct E as (cf' & gs & Hcf & _ & _ & _ & _ & HR & _). inversion Hcf; subst. lia.
Qed.

Theorem reach_bounded kps K cf :
  cfg_wf cf -> Z.of_nat (length (reach kps K cf)) <= reachable (cf_grants cf) (build_total cf).
Proof.
  intros (_ & Htot & Hcnt). unfold reach.
  pose proof (reach_le_reachable kps K (cf_grants cf) Hcnt (seq 1 (Z.to_nat (build_total cf)))) as H.
  rewrite seq_length in H. rewrite Z2Nat.id in H; [exact H|].
  unfold build_total. destruct (0 <? cf_total cf) eqn:E; [lia|apply total_of_lt].
Qed.

(* success exactly when the offered keys reach threshold+1 shares *)
Theorem unlock_iff o r ctx payload kps cf env K :
  honest_orc o -> cfg_wf cf -> length (r_nonce r) = 24%nat ->
  build o r ctx payload kps (Some cf) = Ok env ->
  ((exists p res, unlock o ctx env K = Ok (Some p, res)) <->
   cf_threshold cf + 1 <= Z.of_nat (length (reach kps K cf))) /\
  (forall p res, unlock o ctx env K = Ok (p, res) ->
     res_success res = (cf_threshold cf + 1 <=? Z.of_nat (length (reach kps K cf))) /\
     (res_success res = true -> p = Some payload) /\ (res_success res = false -> p = None)).
Proof.
  intros HO HW HN HB. rewrite (unlock_spec o r ctx payload kps cf env K HO HW HN HB).
  destruct (Z.of_nat (length (reach kps K cf)) <? cf_threshold cf + 1) eqn:E; split.
  - split; [intros (p & res & H); discriminate H|lia].
  - intros p res H. inversion H; subst. cbn [spec_result res_success].
    repeat split; try lia; try discriminate; auto.
  - split; [lia|eauto].
  - intros p res H. inversion H; subst. cbn [spec_result res_success].
    repeat split; try lia; try discriminate; auto.
Qed.

(* matchPrivKeys as a function of (key identity, index): an offered key is
   found at EVERY index of the keypair list at which its public key occurs,
   however often the key is repeated in the list or in the offered keys *)
Lemma matched_every_index env K i pub :
  nth_error (e_keypairs env) (Z.to_nat i) = Some pub -> knows K pub = true ->
  exists sk, matched env K i = Some sk /\ edpub sk = pub /\ In sk K.
Proof.
  intros HN HK. unfold matched.
  assert (HLt : (Z.to_nat i < length (e_keypairs env))%nat) by (apply nth_error_Some; congruence).
  replace (Z.of_nat (length (e_keypairs env)) <=? i) with false by lia. rewrite HN.
  destruct (find _ K) as [sk|] eqn:EF.
  - apply find_some in EF. destruct EF as [HI HE]. apply sbytes_eqb_spec in HE. eauto.
  - exfalso. unfold knows in HK. apply existsb_exists in HK. destruct HK as (sk & HI & HE).
    rewrite (find_none _ _ EF sk HI) in HE. discriminate.
Qed.

Lemma matched_only_known env K i sk :
  matched env K i = Some sk ->
  In sk K /\ nth_error (e_keypairs env) (Z.to_nat i) = Some (edpub sk).
Proof.
  unfold matched. destruct (_ <=? _); [discriminate|].
  destruct (nth_error _ _) as [pub|]; [|discriminate]. intros EF. apply find_some in EF.
  destruct EF as [HI HE]. apply sbytes_eqb_spec in HE. subst. auto.
Qed.
