(* Correspondence: run the models on the inputs the implementation ran on. *)
From Bifrost Require Import Lib.Base Lib.Varint Lib.Chunk Frame.Model.

(* ---- C07 ---- *)
(* de: the stream reports its end together with the last bytes.
   observed class: 0 accepted, 1 io.EOF, 2 any other readStreamEstablishHeader
   error, 7 ErrEmptyProtocolID, 8 ErrInvalidProtocolID, 99 panic *)
Inductive c07_case :=
| Marsh (pid out : bytes)
| Hdr (de : bool) (chunks : list nat) (data : bytes) (cls : nat) (pid rest : bytes)
| Eqv (p1 l1 r1 p2 l2 r2 : bytes) (equivalent : bool)   (* NewHandleMountedStream(..).IsEquivalent(..) *)
| Multi (evs : list bev) (obs : list bobs)               (* several streams on one bus, within the dispose delay *)
| Disp (de : bool) (chunks : list nat) (local remote data : bytes) (dispatched : bool) (pid l r rest : bytes).

Definition coarse07 (k : nat) : nat :=
  if (k =? E_EOF)%nat then 1%nat
  else if (k =? E_PID_EMPTY)%nat then 7%nat
  else if (k =? E_PID_UTF8)%nat then 8%nat
  else 2%nat.

Definition bobs_eqb (a b : bobs) : bool :=
  match a, b with
  | Served o s r, Served o' s' r' => triple_eqb o o' && triple_eqb s s' && bytes_eqb r r'
  | Rejected _, Rejected _ => true
  | BPanic, BPanic => true
  | _, _ => false
  end.

Definition c07_agree (c : c07_case) : bool :=
  match c with
  | Eqv p1 l1 r1 p2 l2 r2 e => Bool.eqb (triple_eqb (p1, l1, r1) (p2, l2, r2)) e
  | Multi evs obs => list_eqb bobs_eqb (bus_run [] evs) obs
  | Marsh pid out => bytes_eqb (marshal_header pid) out
  | Hdr de ch data cls pid rest =>
      match handle_incoming_de de [] [] (ch, data) with
      | Dispatch p _ _ r => (cls =? 0)%nat && bytes_eqb p pid && bytes_eqb r rest
      | Closed k => (cls =? coarse07 k)%nat
      | HPanic => (cls =? 99)%nat
      end
  | Disp de ch local remote data d pid l r rest =>
      match handle_incoming_de de local remote (ch, data) with
      | Dispatch p l' r' rs => d && bytes_eqb p pid && bytes_eqb l' l && bytes_eqb r' r && bytes_eqb rs rest
      | Closed _ => negb d
      | HPanic => false
      end
  end.

(* ---- C08 ---- *)
(* end class: 1 io.EOF, 2 io.ErrUnexpectedEOF, 3 any other error *)
Inductive c08_case :=
| Fr (p out : bytes)                                   (* what WriteTo / SendMsg put on the stream *)
| Pk (zero_ok : bool) (maxp : Z) (chunks : list nat) (data : bytes) (pkts : list bytes) (endk : nat)
| Rf (buflen : nat) (pkt got : bytes) (short : bool).

Definition coarse08 (k : nat) : nat :=
  if (k =? E_EOF)%nat then 1%nat else if (k =? E_UNEXP)%nat then 2%nat else 3%nat.

Definition c08_agree (c : c08_case) : bool :=
  match c with
  | Fr p out => bytes_eqb (frame p) out
  | Pk z maxp ch data pkts endk =>
      let '(ps, e) := (if z then session_rx maxp (ch, data) else pktconn_rx maxp (ch, data)) in
      list_eqb bytes_eqb ps pkts && (coarse08 e =? endk)%nat
  | Rf n pkt got short =>
      let '(g, s) := read_from n pkt in bytes_eqb g got && Bool.eqb s short
  end.

(* ---- C09 ---- *)
(* position-coded data of the lagging-reader scenarios: byte at offset i *)
Definition posdata (n : nat) : bytes :=
  map (fun i => (Z.of_nat i * 7 + Z.of_nat i / 256 * 13) mod 256) (seq 0 n).

Inductive c09_case :=
| Cn (chunks : list nat) (data : bytes) (e : nat) (bufs : list nat) (obs : list cobs)
| Wr (accepts : list (nat * bool)) (pkt : bytes) (writes : list bytes) (n : nat) (err : bool).

(* the discarded tail is not observable on the implementation *)
Definition cobs_eqb (a b : cobs) : bool :=
  match a, b with
  | OData d s _, OData d' s' _ => bytes_eqb d d' && Bool.eqb s s'
  | OEnd k, OEnd k' => (k =? k')%nat
  | _, _ => false
  end.

Definition c09_agree (c : c09_case) : bool :=
  match c with
  | Cn ch data e bufs obs => list_eqb cobs_eqb (conn_trace (ch, data) e bufs) obs
  | Wr acc pkt ws n err =>
      let '(w, k, er) := conn_write (S (length pkt)) acc pkt in
      list_eqb bytes_eqb w ws && (k =? n)%nat && Bool.eqb er err
  end.
