(* C09: the buffered connection never loses or reorders bytes. *)
From Bifrost Require Import Lib.Base Lib.Chunk gen.Frame Frame.Model.

Definition pending (c : conn) : bytes := concat (cq c) ++ sdata (und c).

Definition cwf (c : conn) : Prop :=
  (ended c = true -> sdata (und c) = []) /\ Forall (fun p => (length p <= cpkt)%nat) (cq c).

Lemma cpkt_pos : (0 < cpkt)%nat.
Proof. unfold cpkt, conn_pkt_size. lia. Qed.

(* one step: what the reader consumed plus what is still pending is what was pending *)
Lemma cstep_conserve c a c1 o1 :
  cstep c a = (c1, o1) ->
  concat (map consumed o1) ++ pending c1 = pending c /\ uerr c1 = uerr c.
Proof.
  unfold cstep, pending. destruct a as [|b].
  - destruct (ended c); [intros H; injection H as <- <-; auto|].
    destruct (sread cpkt (und c)) as [[pkt u']|] eqn:E; intros H; injection H as <- <-; cbn [map concat app cq und uerr]; [|auto].
    apply sread_spec in E as (k & _ & _ & -> & Hs); [|apply cpkt_pos].
    unfold sdata. rewrite Hs, concat_app. cbn [concat]. rewrite app_nil_r, <- app_assoc.
    rewrite firstn_skipn. auto.
  - destruct (cq c) as [|pkt q'] eqn:Eq.
    + destruct (ended c); intros H; injection H as <- <-; rewrite ?Eq; auto.
    + intros H; injection H as <- <-. cbn [map concat app consumed cq und uerr].
      rewrite app_nil_r, firstn_skipn, <- app_assoc. auto.
Qed.

Lemma cstep_wf c a c1 o1 : cwf c -> cstep c a = (c1, o1) -> cwf c1.
Proof.
  unfold cstep, cwf. intros [Hend Hq]. destruct a as [|b].
  - destruct (ended c) eqn:Ee; [intros H; injection H as <- <-; rewrite Ee; auto|].
    destruct (sread cpkt (und c)) as [[pkt u']|] eqn:E; intros H; injection H as <- <-; cbn [cq und ended].
    + split; [discriminate|]. apply Forall_app; split; [assumption|]. constructor; [|constructor].
      apply sread_spec in E as (k & Hk & _ & -> & _); [|apply cpkt_pos]. rewrite firstn_length. lia.
    + split; [|assumption]. intros _. apply sread_none in E. exact E.
  - destruct (cq c) as [|pkt q'] eqn:Eq.
    + destruct (ended c) eqn:Ee; intros H; injection H as <- <-; rewrite ?Eq, ?Ee; auto.
    + intros H; injection H as <- <-. cbn [cq und ended]. inversion Hq; subst. auto.
Qed.

(* the observations a step can make *)
Definition obs_wf (o : cobs) : Prop :=
  match o with
  | OData d s lost => (s = false -> lost = []) /\ (s = true -> lost <> [])
  | OEnd _ => True
  end.

Lemma cstep_obs c a c1 o1 : cstep c a = (c1, o1) -> Forall obs_wf o1.
Proof.
  unfold cstep. destruct a as [|b].
  - destruct (ended c); [intros H; injection H as <- <-; constructor|].
    destruct (sread cpkt (und c)) as [[pkt u']|]; intros H; injection H as <- <-; constructor.
  - destruct (cq c) as [|pkt q'].
    + destruct (ended c); intros H; injection H as <- <-; repeat constructor.
    + intros H; injection H as <- <-. constructor; [|constructor]. cbn [obs_wf].
      destruct (Nat.ltb_spec b (length pkt)); split; intros E; try discriminate.
      * intros C. assert (L : length (skipn b pkt) = 0%nat) by (rewrite C; reflexivity).
        rewrite skipn_length in L. lia.
      * apply skipn_all2. lia.
Qed.

(* ---- all schedules ---- *)

Theorem crun_conserve : forall acts c c' obs,
  crun c acts = (c', obs) ->
  concat (map consumed obs) ++ pending c' = pending c /\ uerr c' = uerr c /\ Forall obs_wf obs.
Proof.
  induction acts as [|a t IH]; intros c c' obs H; cbn [crun] in H.
  - injection H as <- <-. cbn [map concat app]. auto.
  - destruct (cstep c a) as [c1 o1] eqn:E1. destruct (crun c1 t) as [c2 o2] eqn:E2.
    injection H as <- <-.
    destruct (cstep_conserve _ _ _ _ E1) as [H1 U1]. destruct (IH _ _ _ E2) as (H2 & U2 & F2).
    rewrite map_app, concat_app, <- app_assoc, H2, H1. repeat split; [congruence|].
    apply Forall_app; split; [eapply cstep_obs; eassumption|assumption].
Qed.

Lemma crun_wf : forall acts c c' obs, cwf c -> crun c acts = (c', obs) -> cwf c'.
Proof.
  induction acts as [|a t IH]; intros c c' obs W H; cbn [crun] in H.
  - injection H as <- <-. assumption.
  - destruct (cstep c a) as [c1 o1] eqn:E1. destruct (crun c1 t) as [c2 o2] eqn:E2.
    injection H as <- <-. eapply IH; [|eassumption]. eapply cstep_wf; eassumption.
Qed.

(* the end is reported only after everything pending was consumed, and with
   the error of the underlying stream *)
Theorem crun_end : forall acts c c' pre k post,
  cwf c -> crun c acts = (c', pre ++ OEnd k :: post) ->
  k = uerr c /\ concat (map consumed pre) = pending c.
Proof.
  induction acts as [|a t IH]; intros c c' pre k post W H; cbn [crun] in H.
  - injection H as _ H. destruct pre; discriminate.
  - destruct (cstep c a) as [c1 o1] eqn:E1. destruct (crun c1 t) as [c2 o2] eqn:E2.
    injection H as _ H.
    pose proof (cstep_wf _ _ _ _ W E1) as W1.
    destruct (cstep_conserve _ _ _ _ E1) as [H1 U1].
    assert (Ho : o1 = [] \/ exists x, o1 = [x]).
    { unfold cstep in E1. destruct a.
      - destruct (ended c); [injection E1 as _ <-; auto|].
        destruct (sread cpkt (und c)) as [[? ?]|]; injection E1 as _ <-; auto.
      - destruct (cq c); [destruct (ended c)|]; injection E1 as _ <-; eauto. }
    destruct Ho as [->|[x ->]].
    + cbn [app] in H. subst o2. destruct (IH _ _ _ _ _ W1 E2) as [K P].
      cbn [map concat app] in H1. split; congruence.
    + cbn [app] in H. destruct pre as [|y pre'].
      * cbn [app] in H. injection H as -> _.
        unfold cstep in E1. destruct a as [|b].
        { destruct (ended c); [discriminate|]. destruct (sread cpkt (und c)) as [[? ?]|]; discriminate. }
        destruct (cq c) eqn:Eq; [|injection E1 as _ E1; discriminate].
        destruct (ended c) eqn:Ee; [|discriminate]. injection E1 as _ E1.
        split; [symmetry; exact E1|]. unfold pending. rewrite Eq. destruct W as [We _]. rewrite (We Ee). reflexivity.
      * cbn [app] in H. injection H as -> H. subst o2.
        destruct (IH _ _ _ _ _ W1 E2) as [K P]. split; [congruence|].
        cbn [map concat]. rewrite P. cbn [map concat] in H1. rewrite app_nil_r in H1. exact H1.
Qed.

(* buffers of at least connPktSize never lose anything *)
Definition big_reads (acts : list cact) : Prop :=
  Forall (fun a => match a with ARead b => (cpkt <= b)%nat | APump => True end) acts.

Definition lossless (o : cobs) : Prop :=
  match o with OData _ s lost => s = false /\ lost = [] | OEnd _ => True end.

Lemma crun_big : forall acts c c' obs,
  cwf c -> big_reads acts -> crun c acts = (c', obs) -> Forall lossless obs.
Proof.
  induction acts as [|a t IH]; intros c c' obs W B H; cbn [crun] in H.
  - injection H as _ <-. constructor.
  - destruct (cstep c a) as [c1 o1] eqn:E1. destruct (crun c1 t) as [c2 o2] eqn:E2.
    injection H as _ <-. inversion B as [|? ? Ba Bt]; subst.
    apply Forall_app; split; [|eapply IH; [eapply cstep_wf; eassumption|assumption|eassumption]].
    unfold cstep in E1. destruct a as [|b].
    + destruct (ended c); [injection E1 as _ <-; constructor|].
      destruct (sread cpkt (und c)) as [[? ?]|]; injection E1 as _ <-; constructor.
    + destruct (cq c) as [|pkt q'] eqn:Eq.
      * destruct (ended c); injection E1 as _ <-; repeat constructor.
      * injection E1 as _ <-. destruct W as [_ Wq]. rewrite Eq in Wq. inversion Wq; subst.
        constructor; [|constructor]. cbn [lossless].
        destruct (Nat.ltb_spec b (length pkt)); [lia|]. split; [reflexivity|apply skipn_all2; lia].
Qed.

Lemma lossless_returned obs : Forall lossless obs -> map consumed obs = map returned obs.
Proof.
  induction 1 as [|o l H _ IH]; [reflexivity|]. cbn [map]. rewrite IH. f_equal.
  destruct o as [d s lost|k]; [|reflexivity]. destruct H as [_ ->]. cbn. apply app_nil_r.
Qed.

(* ---- statements from a fresh connection ---- *)

Lemma cinit_wf s e : cwf (cinit s e).
Proof. split; [discriminate|constructor]. Qed.

Theorem conn_order : forall acts s e c' obs,
  crun (cinit s e) acts = (c', obs) ->
  concat (map consumed obs) ++ concat (cq c') ++ sdata (und c') = sdata s /\ Forall obs_wf obs.
Proof.
  intros acts s e c' obs H. destruct (crun_conserve _ _ _ _ H) as (H1 & _ & F). split; [|exact F].
  unfold pending in H1. cbn [cinit cq und concat app] in H1. exact H1.
Qed.

Theorem conn_end : forall acts s e c' pre k post,
  crun (cinit s e) acts = (c', pre ++ OEnd k :: post) ->
  k = e /\ concat (map consumed pre) = sdata s.
Proof.
  intros acts s e c' pre k post H. destruct (crun_end _ _ _ _ _ _ (cinit_wf s e) H) as [K P].
  split; [exact K|]. rewrite P. reflexivity.
Qed.

Theorem conn_big_buffers : forall acts s e c' obs,
  big_reads acts -> crun (cinit s e) acts = (c', obs) ->
  concat (map returned obs) ++ concat (cq c') ++ sdata (und c') = sdata s /\ Forall lossless obs.
Proof.
  intros acts s e c' obs B H. pose proof (crun_big _ _ _ _ (cinit_wf s e) B H) as L.
  split; [|exact L]. rewrite <- (lossless_returned _ L). apply (conn_order _ _ _ _ _ H).
Qed.

(* a drained, ended connection reports the end on every read *)
Lemma read_after_end c b : cq c = [] -> ended c = true -> cstep c (ARead b) = (c, [OEnd (uerr c)]).
Proof. intros Hq He. unfold cstep. rewrite Hq, He. reflexivity. Qed.

(* the pump does end: after more iterations than bytes in transit *)
Lemma pump_ended_noop : forall n c, ended c = true -> crun c (repeat APump n) = (c, []).
Proof.
  induction n as [|n IH]; intros c He; [reflexivity|].
  cbn [repeat crun]. unfold cstep at 1. rewrite He. rewrite (IH c He). reflexivity.
Qed.

Lemma pump_ends : forall n c c' obs,
  cwf c -> (length (sdata (und c)) < n)%nat -> crun c (repeat APump n) = (c', obs) ->
  ended c' = true /\ obs = [] /\ sdata (und c') = [] /\ concat (cq c') = pending c.
Proof.
  induction n as [|n IH]; intros c c' obs W Hn H; [lia|].
  cbn [repeat crun] in H. destruct (cstep c APump) as [c1 o1] eqn:E1.
  destruct (crun c1 (repeat APump n)) as [c2 o2] eqn:E2. injection H as <- <-.
  destruct (cstep_conserve _ _ _ _ E1) as [H1 _].
  pose proof (cstep_wf _ _ _ _ W E1) as W1.
  unfold cstep in E1. destruct (ended c) eqn:Ee.
  - injection E1 as <- <-. rewrite (pump_ended_noop n c Ee) in E2. injection E2 as <- <-.
    destruct W as [We _]. specialize (We Ee). repeat split; auto.
    unfold pending. rewrite We, app_nil_r. reflexivity.
  - destruct (sread cpkt (und c)) as [[pkt u']|] eqn:E.
    + injection E1 as <- <-. cbn [map concat app] in H1.
      apply sread_spec in E as (k & Hk & Hkl & _ & Hs); [|apply cpkt_pos].
      apply IH in E2; [|assumption|].
      * destruct E2 as (A & -> & B & C). repeat split; auto. congruence.
      * cbn [und]. unfold sdata. rewrite Hs, skipn_length. unfold sdata in Hn. lia.
    + injection E1 as <- <-. cbn [map concat app] in H1.
      rewrite (pump_ended_noop n) in E2 by reflexivity. injection E2 as <- <-.
      apply sread_none in E. cbn [ended und cq]. repeat split; auto.
      unfold pending. unfold sdata. rewrite E, app_nil_r. reflexivity.
Qed.

(* the canonical schedule used by the correspondence: everything is pumped,
   then the reads happen; its observations obey the same laws *)
Theorem conn_trace_spec : forall s e bufs,
  exists c', crun (cinit s e) (repeat APump (S (length (sdata s))) ++ map ARead bufs) = (c', conn_trace s e bufs).
Proof.
  intros s e bufs. unfold conn_trace.
  destruct (crun (cinit s e) (repeat APump (S (length (sdata s))) ++ map ARead bufs)) as [c' o] eqn:E.
  exists c'. reflexivity.
Qed.

(* Conn.Write: what reaches the stream is a prefix of the packet of exactly the
   reported length, and the whole packet unless an error is reported *)
Theorem conn_write_spec : forall fuel acc pkt ws n err,
  (length pkt < fuel)%nat -> conn_write fuel acc pkt = (ws, n, err) ->
  concat ws = firstn n pkt /\ (n <= length pkt)%nat /\ (err = false -> n = length pkt).
Proof.
  induction fuel as [|f IH]; intros acc pkt ws n err Hf H; [lia|].
  cbn [conn_write] in H. destruct pkt as [|x pkt']; [injection H as <- <- <-; cbn; auto|].
  destruct acc as [|[a fail] t].
  - injection H as <- <- <-. cbn [concat]. rewrite app_nil_r. split; [symmetry; apply (firstn_all (x :: pkt'))|auto].
  - set (k := Nat.min (Nat.max 1 a) (length (x :: pkt'))) in *.
    assert (Hk : (1 <= k <= length (x :: pkt'))%nat) by (unfold k; cbn [length]; lia).
    destruct fail.
    + injection H as <- <- <-. cbn [concat]. rewrite app_nil_r. repeat split; [lia|discriminate].
    + destruct (conn_write f t (skipn k (x :: pkt'))) as [[ws' n'] err'] eqn:E. injection H as <- <- <-.
      apply IH in E; [|rewrite skipn_length; cbn [length] in *; lia].
      destruct E as (C & Ln & Er). rewrite skipn_length in Ln.
      cbn [concat]. rewrite C. repeat split.
      * rewrite firstn_split_add. reflexivity.
      * lia.
      * intros Ee. rewrite (Er Ee), skipn_length. lia.
Qed.
