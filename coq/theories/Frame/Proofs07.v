(* C07: the stream-establish header is framed exactly, for every chunking. *)
From Bifrost Require Import Lib.Base Lib.Varint Lib.Chunk gen.Frame Frame.Model.

Lemma prefetch_is_4 : prefetch = 4%nat.
Proof. reflexivity. Qed.

(* ---- list algebra for the two-stage read ---- *)

Lemma split4 (D : bytes) n0 : (n0 <= 4)%nat -> (4 <= length D)%nat ->
  skipn n0 D = skipn n0 (firstn 4 D) ++ skipn 4 D /\ length (skipn n0 (firstn 4 D)) = (4 - n0)%nat.
Proof.
  intros Hn Hl. split.
  - rewrite <- (firstn_skipn 4 D) at 1. rewrite skipn_app.
    rewrite firstn_length. replace (n0 - Nat.min 4 (length D))%nat with 0%nat by lia. reflexivity.
  - rewrite skipn_length, firstn_length. lia.
Qed.

Lemma body_long (D : bytes) n0 hln : (n0 <= 4)%nat -> (4 <= length D)%nat -> (4 - n0 < hln)%nat ->
  firstn hln (skipn n0 (firstn 4 D)) ++ firstn (hln - (4 - n0)) (skipn 4 D) = firstn hln (skipn n0 D)
  /\ skipn (hln - (4 - n0)) (skipn 4 D) = skipn hln (skipn n0 D).
Proof.
  intros Hn Hl Hh. destruct (split4 D n0 Hn Hl) as [E L]. rewrite E.
  set (A := skipn n0 (firstn 4 D)) in *. set (B := skipn 4 D) in *.
  rewrite firstn_app, skipn_app, L. rewrite (firstn_all2 (n:=hln) A) by lia. rewrite (skipn_all2 (n:=hln) A) by lia.
  split; reflexivity.
Qed.

Lemma body_short (D : bytes) n0 hln : (n0 <= 4)%nat -> (4 <= length D)%nat -> (hln <= 4 - n0)%nat ->
  firstn hln (skipn n0 (firstn 4 D)) = firstn hln (skipn n0 D)
  /\ skipn 4 D = skipn (4 - n0) (skipn n0 D).
Proof.
  intros Hn Hl Hh. destruct (split4 D n0 Hn Hl) as [E L]. rewrite E.
  set (A := skipn n0 (firstn 4 D)) in *. set (B := skipn 4 D) in *.
  rewrite firstn_app, skipn_app, L. replace (hln - (4 - n0))%nat with 0%nat by lia.
  rewrite Nat.sub_diag. rewrite (skipn_all2 (n:=(4 - n0)%nat) A) by lia.
  cbn [firstn skipn app]. rewrite app_nil_r. split; reflexivity.
Qed.

(* ---- chunking independence of readStreamEstablishHeader ---- *)

(* both kinds of reader give the same bytes, rest and failure flag *)
Lemma rd_eq de n s :
  rd de n s = (fst (read_full n s), snd (read_full n s), (length (fst (read_full n s)) <? n)%nat).
Proof.
  unfold rd. destruct de; [apply read_full_de_eq|]. destruct (read_full n s); reflexivity.
Qed.

Theorem read_header_de_pure : forall de ch D,
  exists ch', read_header_de de (ch, D) =
    match parse_header D with
    | Ok (pid, rest) => Ok (pid, (ch', rest))
    | Err k => Err k
    | Panic => Panic
    end.
Proof.
  intros de ch D. unfold read_header_de, parse_header. change prefetch with 4%nat.
  rewrite rd_eq.
  destruct (read_full_spec 4 (ch, D)) as (ch1 & R1). rewrite R1. cbn [fst snd].
  rewrite firstn_length.
  destruct (Nat.ltb_spec (Nat.min 4 (length D)) 4) as [Hs|Hs];
    destruct (Nat.ltb_spec (length D) 4) as [Hd|Hd]; try lia.
  { exists ch. reflexivity. }
  destruct (varint_dec (firstn 4 D)) as [hl n0|] eqn:Ev; [|exists ch; reflexivity].
  pose proof (vdec_n _ _ _ _ _ Ev) as [Hn0 Hn0l]. rewrite firstn_length in Hn0l.
  destruct (Nat.ltb_spec (Nat.min 4 (length D)) n0) as [C|_]; [lia|].
  destruct (hl >? max_int32); [exists ch; reflexivity|].
  destruct ((hl >? stream_establish_max) || (hl =? 0)); [exists ch; reflexivity|].
  destruct (Nat.ltb_spec (Nat.min 4 (length D)) n0) as [C|_]; [lia|].
  assert (Hn4 : (n0 <= 4)%nat) by lia.
  destruct (split4 D n0 Hn4 Hd) as [E L]. rewrite L.
  assert (LX : length (skipn n0 D) = (length D - n0)%nat) by apply skipn_length.
  set (hln := Z.to_nat hl) in *.
  destruct (Nat.ltb_spec (4 - n0) hln) as [Hlong|Hshort].
  - rewrite rd_eq.
    destruct (read_full_spec (hln - (4 - n0)) (ch1, skipn 4 D)) as (ch2 & R2). rewrite R2. cbn [fst snd].
    destruct (body_long D n0 hln Hn4 Hd Hlong) as [B1 B2]. rewrite B1, B2.
    rewrite firstn_length, skipn_length.
    destruct (Nat.ltb_spec (Nat.min (hln - (4 - n0)) (length D - 4)) (hln - (4 - n0)));
      destruct (Nat.ltb_spec (length (skipn n0 D)) hln); try lia.
    + exists ch. reflexivity.
    + replace (Nat.max hln (4 - n0)) with hln by lia.
      exists ch2. destruct (unmarshal (firstn hln (skipn n0 D))); reflexivity.
  - destruct (body_short D n0 hln Hn4 Hd Hshort) as [B1 B2]. rewrite B1.
    destruct (Nat.ltb_spec (length (skipn n0 D)) hln); [lia|].
    replace (Nat.max hln (4 - n0)) with (4 - n0)%nat by lia. rewrite <- B2.
    exists ch1. destruct (unmarshal (firstn hln (skipn n0 D))); reflexivity.
Qed.

Theorem read_header_pure : forall ch D,
  exists ch', read_header (ch, D) =
    match parse_header D with
    | Ok (pid, rest) => Ok (pid, (ch', rest))
    | Err k => Err k
    | Panic => Panic
    end.
Proof. intros. apply (read_header_de_pure false). Qed.

Theorem handle_incoming_de_pure : forall de local remote ch D,
  handle_incoming_de de local remote (ch, D) = handle_pure local remote D.
Proof.
  intros de local remote ch D. unfold handle_incoming_de, handle_pure.
  destruct (read_header_de_pure de ch D) as (ch' & R). rewrite R.
  destruct (parse_header D) as [[pid rest]|k|]; try reflexivity.
Qed.

Theorem handle_incoming_pure : forall local remote ch D,
  handle_incoming local remote (ch, D) = handle_pure local remote D.
Proof.
  intros local remote ch D. unfold handle_incoming, handle_pure.
  destruct (read_header_pure ch D) as (ch' & R). rewrite R.
  destruct (parse_header D) as [[pid rest]|k|]; try reflexivity.
Qed.

Lemma parse_header_no_panic D : parse_header D <> Panic.
Proof.
  unfold parse_header. destruct (length D <? prefetch)%nat; [discriminate|].
  destruct (varint_dec (firstn prefetch D)); [|discriminate].
  destruct (v >? max_int32); [discriminate|].
  destruct ((v >? stream_establish_max) || (v =? 0)); [discriminate|].
  destruct (length (skipn n D) <? Z.to_nat v)%nat; [discriminate|].
  destruct (unmarshal (firstn (Z.to_nat v) (skipn n D))); discriminate.
Qed.

Theorem handle_incoming_total : forall local remote s, handle_incoming local remote s <> HPanic.
Proof.
  intros local remote [ch D]. rewrite handle_incoming_pure. unfold handle_pure.
  pose proof (parse_header_no_panic D). destruct (parse_header D) as [[pid rest]|k|]; [|discriminate|congruence].
  destruct (pid_validate pid); discriminate.
Qed.

(* ---- the StreamEstablish decoder ---- *)

Lemma firstn_app_exact {A} (a b : list A) n : length a = n -> firstn n (a ++ b) = a.
Proof. intros <-. rewrite firstn_app, Nat.sub_diag, firstn_all, firstn_O, app_nil_r. reflexivity. Qed.

Lemma skipn_app_exact {A} (a b : list A) n : length a = n -> skipn n (a ++ b) = b.
Proof. intros <-. rewrite skipn_app, Nat.sub_diag, skipn_all. reflexivity. Qed.

Lemma venc_small : forall k f v,
  (1 <= k)%nat -> (k <= f)%nat -> 0 <= v < 128 ^ Z.of_nat k -> (length (venc f v) <= k)%nat.
Proof.
  induction k as [|k IH]; intros f v Hk Hf Hv; [lia|].
  destruct f as [|f]; [lia|]. cbn [venc]. destruct (v <? 128) eqn:E; cbn [length]; [lia|].
  destruct k as [|k']. { change (128 ^ Z.of_nat 1) with 128 in Hv. lia. }
  assert (Hd : 0 <= v / 128 < 128 ^ Z.of_nat (S k')).
  { rewrite (Nat2Z.inj_succ (S k')) in Hv. rewrite Z.pow_succ_r in Hv by lia.
    set (X := 128 ^ Z.of_nat (S k')) in *. clearbody X.
    split; [apply Z.div_pos; lia|apply Z.div_lt_upper_bound; lia]. }
  specialize (IH f (v / 128) ltac:(lia) ltac:(lia) Hd). lia.
Qed.

(* one iteration of UnmarshalVT on a field-1 record *)
Lemma um_step_field1 f cur l wire n sl m :
  l <> [] -> varint_dec l = VOk wire n -> wire mod 8 = 2 -> wrap_int32 (wire / 8) = 1 ->
  varint_dec (skipn n l) = VOk sl m -> sl <= Z.of_nat (length (skipn m (skipn n l))) ->
  um_loop (S f) cur l =
  um_loop f (firstn (Z.to_nat sl) (skipn m (skipn n l))) (skipn (Z.to_nat sl) (skipn m (skipn n l))).
Proof.
  intros Hl Hw Hwt Hfn Hs Hle. cbn [um_loop]. destruct l as [|b0 l']; [congruence|].
  rewrite Hw, Hwt, Hfn, Hs.
  change (2 =? 4) with false. change (1 <=? 0) with false. change (1 =? 1) with true. change (2 =? 2) with true.
  cbv iota. cbn [negb].
  destruct (Z.ltb_spec (Z.of_nat (length (skipn m (skipn n (b0 :: l'))))) sl); [lia|reflexivity].
Qed.

Lemma um_loop_nil f cur : um_loop (S f) cur [] = Some cur.
Proof. reflexivity. Qed.

Lemma length_lt_two64 {A} (l : list A) : Z.of_nat (length l) < 2 ^ 62 -> 0 <= Z.of_nat (length l) < two64.
Proof. unfold two64. lia. Qed.

Theorem unmarshal_marshal pid :
  Z.of_nat (length pid) < 2 ^ 62 -> unmarshal (marshal_body pid) = Some pid.
Proof.
  intros Hlen. unfold unmarshal, marshal_body. destruct pid as [|x pid']; [reflexivity|].
  set (pid := x :: pid') in *. set (V := varint_enc (Z.of_nat (length pid))).
  cbn [length].
  rewrite (um_step_field1 _ [] (10 :: V ++ pid) 10 1 (Z.of_nat (length pid)) (length V)).
  - cbn [skipn]. rewrite (skipn_app_exact V pid) by reflexivity. rewrite Nat2Z.id, firstn_all, skipn_all.
    destruct (length (V ++ pid)) eqn:E; [|reflexivity].
    rewrite app_length in E. unfold pid in E. cbn [length] in E. lia.
  - discriminate.
  - reflexivity.
  - reflexivity.
  - reflexivity.
  - cbn [skipn]. unfold V. rewrite <- (app_nil_r pid) at 2. rewrite app_assoc, <- app_assoc.
    apply varint_roundtrip. apply length_lt_two64. exact Hlen.
  - cbn [skipn]. rewrite (skipn_app_exact V pid) by reflexivity. lia.
Qed.

(* ---- round trip ---- *)

Lemma marshal_body_length pid : pid <> [] ->
  length (marshal_body pid) = (1 + length (varint_enc (Z.of_nat (length pid))) + length pid)%nat
  /\ (3 <= length (marshal_body pid))%nat /\ (length pid < length (marshal_body pid))%nat.
Proof.
  intros Hp. destruct pid as [|x p]; [congruence|]. unfold marshal_body. cbn [length]. rewrite app_length. cbn [length].
  pose proof (venc_length_pos 10 (Z.of_nat (S (length p))) ltac:(lia)). unfold varint_enc. lia.
Qed.

Theorem parse_header_roundtrip : forall pid payload,
  pid <> [] -> Z.of_nat (length (marshal_body pid)) <= stream_establish_max ->
  parse_header (marshal_header pid ++ payload) = Ok (pid, payload).
Proof.
  intros pid payload Hp Hmax.
  destruct (marshal_body_length pid Hp) as (_ & HB3 & HBp).
  unfold marshal_header. set (B := marshal_body pid) in *. set (L := Z.of_nat (length B)) in *.
  set (V := varint_enc L).
  assert (HL : 0 <= L <= 100000) by (unfold stream_establish_max in Hmax; lia).
  assert (Hn3 : (length V <= 3)%nat).
  { apply (venc_small 3 10 L); try lia. }
  assert (Hn1 : (1 <= length V)%nat) by (apply venc_length_pos; lia).
  rewrite <- app_assoc. unfold parse_header. change prefetch with 4%nat.
  rewrite !app_length. fold L.
  destruct (Nat.ltb_spec (length V + (length B + length payload)) 4); [lia|].
  rewrite firstn_app. rewrite (firstn_all2 (n:=4%nat) V) by lia.
  unfold V at 1. rewrite varint_roundtrip by (unfold two64; lia). fold V.
  rewrite Z.gtb_ltb. destruct (Z.ltb_spec max_int32 L); [unfold max_int32 in *; lia|].
  rewrite Z.gtb_ltb. destruct (Z.ltb_spec stream_establish_max L); [lia|].
  destruct (Z.eqb_spec L 0); [lia|]. cbn [orb].
  rewrite (skipn_app_exact V (B ++ payload)) by reflexivity.
  unfold L. rewrite Nat2Z.id. rewrite app_length.
  destruct (Nat.ltb_spec (length B + length payload) (length B)); [lia|].
  rewrite (firstn_app_exact B payload) by reflexivity.
  unfold B at 1. rewrite unmarshal_marshal by lia.
  replace (Nat.max (length B) (4 - length V)) with (length B) by lia.
  rewrite (skipn_app_exact B payload) by reflexivity. reflexivity.
Qed.

(* the complete statement: any valid protocol ID within the size limit, any
   payload, any chunking, any link peers *)
Definition pid_ok (pid : bytes) : Prop := pid <> [] /\ utf8_valid pid = true.

Lemma pid_validate_ok pid : pid_validate pid = None <-> pid_ok pid.
Proof.
  unfold pid_validate, pid_ok. destruct pid as [|x p]; [split; [discriminate|intros [C _]; congruence]|].
  destruct (utf8_valid (x :: p)); split; try discriminate; auto.
  - intros _. split; [discriminate|reflexivity].
  - intros [_ C]. discriminate.
Qed.

Theorem handle_roundtrip : forall pid payload ch local remote,
  pid_ok pid -> Z.of_nat (length (marshal_body pid)) <= stream_establish_max ->
  handle_incoming local remote (ch, marshal_header pid ++ payload) = Dispatch pid local remote payload.
Proof.
  intros pid payload ch local remote Hok Hmax. rewrite handle_incoming_pure. unfold handle_pure.
  rewrite parse_header_roundtrip by (destruct Hok; assumption).
  apply pid_validate_ok in Hok. rewrite Hok. reflexivity.
Qed.

(* ---- what an accepted header looks like ---- *)

Lemma skip_varint_len : forall f l r, skip_varint f l = Some r -> (length r < length l)%nat.
Proof.
  induction f as [|f IH]; intros l r H; cbn [skip_varint] in H; [discriminate|].
  destruct l as [|b l']; [discriminate|]. destruct (b <? 128).
  - injection H as <-. cbn [length]. lia.
  - apply IH in H. cbn [length]. lia.
Qed.

Lemma raw_varint_len : forall f sh l v r, raw_varint f sh l = Some (v, r) -> (length r < length l)%nat.
Proof.
  induction f as [|f IH]; intros sh l v r H; cbn [raw_varint] in H; [discriminate|].
  destruct l as [|b l']; [discriminate|]. destruct (b <? 128).
  - injection H as _ <-. cbn [length]. lia.
  - destruct (raw_varint f (sh + 7) l') as [[v' r']|] eqn:E; [|discriminate].
    injection H as _ <-. apply IH in E. cbn [length]. lia.
Qed.

Lemma skip_loop_len : forall fuel d l r, skip_loop fuel d l = Some r -> (length r < length l)%nat.
Proof.
  induction fuel as [|f IH]; intros d l r H; cbn [skip_loop] in H; [discriminate|].
  destruct l as [|b0 l']; [discriminate|].
  destruct (skip_varint 10 (b0 :: l')) as [r0|] eqn:E0; [|discriminate].
  apply skip_varint_len in E0.
  assert (Hc : forall dd r', (length r' <= length r0)%nat ->
             match dd with O => Some r' | S _ => skip_loop f dd r' end = Some r ->
             (length r < length (b0 :: l'))%nat).
  { intros dd r' Hr Hm. destruct dd; [injection Hm as <-; lia|]. apply IH in Hm. lia. }
  destruct (b0 mod 8 =? 0).
  { destruct (skip_varint 10 r0) as [r1|] eqn:E1; [|discriminate]. apply skip_varint_len in E1.
    eapply Hc; [|exact H]. lia. }
  destruct (b0 mod 8 =? 1).
  { destruct (length r0 <? 8)%nat; [discriminate|]. eapply Hc; [|exact H]. rewrite skipn_length. lia. }
  destruct (b0 mod 8 =? 2).
  { destruct (raw_varint 10 0 r0) as [[v r1]|] eqn:E1; [|discriminate]. apply raw_varint_len in E1.
    destruct (Z.of_nat (length r1) <? v mod two64'); [discriminate|].
    eapply Hc; [|exact H]. rewrite skipn_length. lia. }
  destruct (b0 mod 8 =? 3).
  { apply IH in H. lia. }
  destruct (b0 mod 8 =? 4).
  { destruct d as [|d']; [discriminate|]. eapply Hc; [|exact H]. lia. }
  destruct (b0 mod 8 =? 5).
  { destruct (length r0 <? 4)%nat; [discriminate|]. eapply Hc; [|exact H]. rewrite skipn_length. lia. }
  discriminate.
Qed.

(* the decoded protocol ID is either the initial one or was carried by a
   field-1 record inside the buffer: tag + length + contents *)
Lemma um_loop_len : forall fuel cur l pid,
  um_loop fuel cur l = Some pid -> pid = cur \/ (length pid + 2 <= length l)%nat.
Proof.
  induction fuel as [|f IH]; intros cur l pid H; cbn [um_loop] in H; [discriminate|].
  destruct l as [|b0 l']; [injection H as <-; auto|].
  destruct (varint_dec (b0 :: l')) as [wire n|] eqn:Ew; [|discriminate].
  pose proof (vdec_n _ _ _ _ _ Ew) as [Hn Hnl].
  destruct (wire mod 8 =? 4); [discriminate|].
  destruct (wrap_int32 (wire / 8) <=? 0); [discriminate|].
  destruct (wrap_int32 (wire / 8) =? 1).
  - destruct (negb (wire mod 8 =? 2)); [discriminate|].
    destruct (varint_dec (skipn n (b0 :: l'))) as [sl m|] eqn:Es; [|discriminate].
    pose proof (vdec_n _ _ _ _ _ Es) as [Hm Hml].
    destruct (Z.ltb_spec (Z.of_nat (length (skipn m (skipn n (b0 :: l'))))) sl) as [|Hsl]; [discriminate|].
    apply IH in H. rewrite !skipn_length in *. destruct H as [->|H].
    + right. rewrite firstn_length, !skipn_length. lia.
    + right. lia.
  - destruct (skip_field (b0 :: l')) as [r'|] eqn:Ek; [|discriminate].
    unfold skip_field in Ek. apply skip_loop_len in Ek. apply IH in H. destruct H as [->|H]; [auto|right; lia].
Qed.

Lemma unmarshal_nonempty body pid : unmarshal body = Some pid -> pid <> [] -> (3 <= length body)%nat.
Proof.
  unfold unmarshal. intros H Hp. apply um_loop_len in H. destruct H as [->|H]; [congruence|].
  destruct pid; [congruence|]. cbn [length] in H. lia.
Qed.

(* a well-formed header: varint length, 1..max, body of that length decoding to pid *)
Definition header_of (hdr pid : bytes) : Prop :=
  exists hl n, varint_dec hdr = VOk hl n /\ 1 <= hl <= stream_establish_max /\
               length hdr = (n + Z.to_nat hl)%nat /\ unmarshal (skipn n hdr) = Some pid.

Lemma varint_dec_firstn4 D hl n :
  varint_dec (firstn 4 D) = VOk hl n -> varint_dec D = VOk hl n /\ (1 <= n <= 4)%nat /\ (n <= length D)%nat.
Proof.
  intros H. pose proof (vdec_n _ _ _ _ _ H) as [Hn Hl]. rewrite firstn_length in Hl.
  pose proof (vdec_prefix _ _ _ _ _ (skipn n D) H) as P.
  rewrite firstn_firstn in P. replace (Nat.min n 4) with n in P by lia.
  rewrite firstn_skipn in P. repeat split; try lia. exact P.
Qed.

(* soundness of acceptance: whatever is dispatched was a well-formed header of
   a valid protocol ID at the very start of the stream, the handler gets
   exactly the bytes after it, and the directive carries the link's peers *)
Theorem handle_pure_sound : forall local remote D pid l r rest,
  handle_pure local remote D = Dispatch pid l r rest ->
  l = local /\ r = remote /\ pid_ok pid /\
  exists hdr, D = hdr ++ rest /\ header_of hdr pid /\ (4 <= length hdr)%nat.
Proof.
  intros local remote D pid l r rest H. unfold handle_pure in H.
  destruct (parse_header D) as [[pid' rest']|k|] eqn:Ep; try discriminate.
  destruct (pid_validate pid') eqn:Ev; [discriminate|]. injection H as -> -> -> ->.
  apply pid_validate_ok in Ev. repeat split; try apply Ev.
  unfold parse_header in Ep. change prefetch with 4%nat in Ep.
  destruct (Nat.ltb_spec (length D) 4) as [|Hd]; [discriminate|].
  destruct (varint_dec (firstn 4 D)) as [hl n|] eqn:Ew; [|discriminate].
  apply varint_dec_firstn4 in Ew as (Ew & Hn & Hnl).
  rewrite Z.gtb_ltb in Ep. destruct (Z.ltb_spec max_int32 hl); [discriminate|].
  rewrite Z.gtb_ltb in Ep. destruct (Z.ltb_spec stream_establish_max hl); [discriminate|].
  destruct (Z.eqb_spec hl 0); [discriminate|]. cbn [orb] in Ep.
  destruct (Nat.ltb_spec (length (skipn n D)) (Z.to_nat hl)) as [|HX]; [discriminate|].
  destruct (unmarshal (firstn (Z.to_nat hl) (skipn n D))) as [p|] eqn:Eu; [|discriminate].
  set (hln := Z.to_nat hl) in *. set (X := skipn n D) in *.
  assert (LX : length X = (length D - n)%nat) by apply skipn_length.
  assert (Hpp : p <> []) by (injection Ep as -> _; apply Ev).
  assert (H3 : (3 <= hln)%nat).
  { pose proof (unmarshal_nonempty _ _ Eu Hpp) as H3. rewrite firstn_length in H3. lia. }
  replace (Nat.max hln (4 - n)) with hln in Ep by lia.
  assert (Ep1 : p = pid) by congruence. assert (Ep2 : skipn hln X = rest) by congruence. clear Ep.
  subst p. subst rest.
  exists (firstn (n + hln) D).
  assert (Hsplit : firstn (n + hln) D = firstn n D ++ firstn hln X) by apply firstn_split_add.
  assert (Hlen : length (firstn (n + hln) D) = (n + hln)%nat) by (rewrite firstn_length; lia).
  repeat split.
  - unfold X. rewrite skipn_skipn_add, firstn_skipn. reflexivity.
  - exists hl, n. repeat split.
    + rewrite Hsplit. apply (vdec_prefix _ _ _ _ _ (firstn hln X) Ew).
    + lia.
    + assumption.
    + exact Hlen.
    + rewrite Hsplit. rewrite (skipn_app_exact (firstn n D)) by (rewrite firstn_length; lia). exact Eu.
  - lia.
Qed.

Theorem handle_incoming_sound : forall local remote ch D pid l r rest,
  handle_incoming local remote (ch, D) = Dispatch pid l r rest ->
  l = local /\ r = remote /\ pid_ok pid /\
  exists hdr, D = hdr ++ rest /\ header_of hdr pid /\ (4 <= length hdr)%nat.
Proof. intros local remote ch D pid l r rest H. rewrite handle_incoming_pure in H. eapply handle_pure_sound; eassumption. Qed.

(* the header written by the opener is a header in that sense *)
Lemma marshal_header_of pid : pid <> [] -> Z.of_nat (length (marshal_body pid)) <= stream_establish_max ->
  header_of (marshal_header pid) pid.
Proof.
  intros Hp Hmax. destruct (marshal_body_length pid Hp) as (_ & HB3 & HBp).
  unfold marshal_header. set (B := marshal_body pid) in *.
  assert (HL : Z.of_nat (length B) <= 100000) by (unfold stream_establish_max in Hmax; lia).
  exists (Z.of_nat (length B)), (length (varint_enc (Z.of_nat (length B)))). repeat split.
  - apply varint_roundtrip. unfold two64. lia.
  - lia.
  - assumption.
  - rewrite app_length, Nat2Z.id. reflexivity.
  - rewrite (skipn_app_exact _ B) by reflexivity. apply unmarshal_marshal. lia.
Qed.

(* ---- rejection classes ---- *)

Inductive malformed (D : bytes) : Prop :=
| mf_short_prefix : (length D < 4)%nat -> malformed D                       (* stream ends inside the prefetch *)
| mf_varint : varint_dec (firstn 4 D) = VErr -> malformed D                 (* length prefix not decodable / longer than 4 bytes *)
| mf_empty hl n : varint_dec (firstn 4 D) = VOk hl n -> hl = 0 -> malformed D
| mf_oversized hl n : varint_dec (firstn 4 D) = VOk hl n -> hl > stream_establish_max -> malformed D
| mf_truncated hl n : varint_dec (firstn 4 D) = VOk hl n -> (length (skipn n D) < Z.to_nat hl)%nat -> malformed D
| mf_undecodable hl n : varint_dec (firstn 4 D) = VOk hl n ->
    unmarshal (firstn (Z.to_nat hl) (skipn n D)) = None -> malformed D
| mf_bad_pid hl n pid : varint_dec (firstn 4 D) = VOk hl n ->
    unmarshal (firstn (Z.to_nat hl) (skipn n D)) = Some pid -> ~ pid_ok pid -> malformed D.

Theorem handle_pure_reject : forall local remote D,
  malformed D -> exists k, handle_pure local remote D = Closed k.
Proof.
  intros local remote D M. unfold handle_pure, parse_header. change prefetch with 4%nat.
  destruct (Nat.ltb_spec (length D) 4) as [|Hd]; [eexists; reflexivity|].
  destruct (varint_dec (firstn 4 D)) as [hl n|] eqn:Ew; [|eexists; reflexivity].
  destruct (hl >? max_int32); [eexists; reflexivity|].
  destruct ((hl >? stream_establish_max) || (hl =? 0)) eqn:Eb; [eexists; reflexivity|].
  apply orb_false_iff in Eb as [Eb1 Eb2]. rewrite Z.gtb_ltb in Eb1.
  destruct (Nat.ltb_spec (length (skipn n D)) (Z.to_nat hl)) as [|HX]; [eexists; reflexivity|].
  destruct (unmarshal (firstn (Z.to_nat hl) (skipn n D))) as [p|] eqn:Eu; [|eexists; reflexivity].
  destruct (pid_validate p) eqn:Ev; [eexists; reflexivity|].
  exfalso. apply pid_validate_ok in Ev.
  apply Z.ltb_ge in Eb1. apply Z.eqb_neq in Eb2.
  destruct M as [H|H|hl' n' H H'|hl' n' H H'|hl' n' H H'|hl' n' H H'|hl' n' p' H H' H''].
  - lia.
  - congruence.
  - rewrite Ew in H. injection H as <- <-. lia.
  - rewrite Ew in H. injection H as <- <-. lia.
  - rewrite Ew in H. injection H as <- <-. lia.
  - rewrite Ew in H. injection H as <- <-. congruence.
  - rewrite Ew in H. injection H as <- <-. rewrite Eu in H'. injection H' as <-. contradiction.
Qed.

Theorem handle_incoming_reject : forall local remote ch D,
  malformed D -> exists k, handle_incoming local remote (ch, D) = Closed k.
Proof. intros. rewrite handle_incoming_pure. apply handle_pure_reject. assumption. Qed.

(* and conversely: a stream that is not dispatched is malformed in one of these ways *)
Theorem handle_pure_closed_malformed : forall local remote D k,
  handle_pure local remote D = Closed k -> malformed D.
Proof.
  intros local remote D k H. unfold handle_pure, parse_header in H. change prefetch with 4%nat in H.
  destruct (Nat.ltb_spec (length D) 4) as [Hd|Hd]; [apply mf_short_prefix; assumption|].
  destruct (varint_dec (firstn 4 D)) as [hl n|] eqn:Ew; [|apply mf_varint; assumption].
  destruct (Z.gtb_spec hl max_int32) as [Hi|Hi].
  { eapply mf_oversized; [eassumption|]. unfold max_int32, stream_establish_max in *. lia. }
  destruct (Z.gtb_spec hl stream_establish_max) as [Ho|Ho]; [eapply mf_oversized; [eassumption|lia]|].
  destruct (Z.eqb_spec hl 0) as [Hz|Hz]; [eapply mf_empty; eassumption|]. cbn [orb] in H.
  destruct (Nat.ltb_spec (length (skipn n D)) (Z.to_nat hl)) as [HX|HX]; [eapply mf_truncated; eassumption|].
  destruct (unmarshal (firstn (Z.to_nat hl) (skipn n D))) as [p|] eqn:Eu; [|eapply mf_undecodable; eassumption].
  destruct (pid_validate p) eqn:Ev; [|discriminate].
  eapply mf_bad_pid; [eassumption|eassumption|]. intros C. apply pid_validate_ok in C. congruence.
Qed.

(* headers shorter than the prefetch make the reader consume bytes beyond the
   header, but they cannot carry a protocol ID and are never dispatched *)
Lemma short_header_empty_pid : forall hdr pid,
  header_of hdr pid -> (length hdr < 4)%nat -> pid = [].
Proof.
  intros hdr pid (hl & n & Hv & Hhl & Hlen & Hu) Hs.
  destruct pid as [|x p]; [reflexivity|]. exfalso.
  assert (Hp : x :: p <> []) by discriminate.
  pose proof (unmarshal_nonempty _ _ Hu Hp) as H3. rewrite skipn_length in H3.
  pose proof (vdec_n _ _ _ _ _ Hv). lia.
Qed.

Lemma nonempty_pid_header_ge_4 : forall pid, pid <> [] -> (4 <= length (marshal_header pid))%nat.
Proof.
  intros pid Hp. destruct (marshal_body_length pid Hp) as (_ & HB3 & _).
  unfold marshal_header. rewrite app_length.
  pose proof (venc_length_pos 10 (Z.of_nat (length (marshal_body pid))) ltac:(lia)). unfold varint_enc. lia.
Qed.

(* ---- readers that report the end together with the last bytes ---- *)

Theorem handle_de_roundtrip : forall de pid payload ch local remote,
  pid_ok pid -> Z.of_nat (length (marshal_body pid)) <= stream_establish_max ->
  handle_incoming_de de local remote (ch, marshal_header pid ++ payload) = Dispatch pid local remote payload.
Proof.
  intros de pid payload ch local remote Hok Hmax. rewrite handle_incoming_de_pure. unfold handle_pure.
  rewrite parse_header_roundtrip by (destruct Hok; assumption).
  apply pid_validate_ok in Hok. rewrite Hok. reflexivity.
Qed.

Theorem handle_incoming_de_indep : forall de local remote s,
  handle_incoming_de de local remote s = handle_incoming local remote s.
Proof.
  intros de local remote [ch D]. rewrite handle_incoming_de_pure, handle_incoming_pure. reflexivity.
Qed.

(* ---- several streams on one bus ---- *)

Lemma triple_eqb_spec a b : triple_eqb a b = true <-> a = b.
Proof.
  destruct a as [[p1 l1] r1], b as [[p2 l2] r2]. unfold triple_eqb.
  rewrite !andb_true_iff, !bytes_eqb_spec. split; [intros [[-> ->] ->]; reflexivity|intros E; inversion E; auto].
Qed.

(* a lookup is served by an instance created for exactly the same triple *)
Lemma bus_lookup_own live t : fst (bus_lookup live t) = t.
Proof.
  unfold bus_lookup. destruct (find (triple_eqb t) live) as [t'|] eqn:E; [|reflexivity].
  apply find_some in E as [_ E]. apply triple_eqb_spec in E. cbn [fst]. congruence.
Qed.

(* any number of streams, any live lookups, any disposal schedule, any
   chunkings, both kinds of reader: each accepted stream is handed to the
   handler resolved for its own (pid, local, remote) and the outcome of a
   stream does not depend on the other streams *)
Theorem bus_run_spec : forall evs live, bus_run live evs = bus_spec evs.
Proof.
  induction evs as [|e r IH]; intros live; [reflexivity|]. destruct e as [de l rm s|t]; cbn [bus_run bus_spec].
  - rewrite handle_incoming_de_indep.
    destruct (handle_incoming l rm s) as [pid l' r' rest|k|] eqn:E; [|rewrite IH; reflexivity|rewrite IH; reflexivity].
    destruct s as [ch D]. apply handle_incoming_sound in E as (-> & -> & _).
    pose proof (bus_lookup_own live (pid, l, rm)) as O.
    destruct (bus_lookup live (pid, l, rm)) as [sv live']. cbn [fst] in O. subst sv. rewrite IH. reflexivity.
  - apply IH.
Qed.

Corollary bus_run_served_own : forall evs live,
  Forall (fun o => match o with Served own sv _ => sv = own | _ => True end) (bus_run live evs).
Proof.
  intros evs live. rewrite bus_run_spec. induction evs as [|e r IH]; [constructor|].
  destruct e as [de l rm s|t]; cbn [bus_spec]; [|exact IH].
  destruct (handle_incoming l rm s); constructor; auto.
Qed.
