(* Models of the byte-stream framing code (C07, C08, C09).  No proofs here.

   C07  transport/controller/establish-header.go  readStreamEstablishHeader,
        marshalStreamEstablishHeader; controller.pb.go StreamEstablish.UnmarshalVT
        (+ protobuf-go-lite Skip); protocol/id.go Validate; controller.go
        HandleIncomingStream (header -> HandleMountedStream triple).
   C08  util/rwc/packet-conn.go rxPump / WriteTo / ReadFrom;
        stream/packet/packet.go Session.SendMsg / RecvMsg.
   C09  util/rwc/conn.go rxPump / Read / Write.

   The underlying transport is a Lib/Chunk.v stream: data + arbitrary chunking. *)
From Bifrost Require Import Lib.Base Lib.Varint Lib.Chunk gen.Frame.

(* ---- error classes ---- *)
Definition E_EOF : nat := 1.        (* io.EOF from the underlying reader *)
Definition E_UNEXP : nat := 2.      (* io.ErrUnexpectedEOF of io.ReadFull *)
Definition E_VARINT : nat := 3.     (* "invalid stream establish varint prefix" *)
Definition E_INT32 : nat := 4.      (* header length > math.MaxInt32 *)
Definition E_LEN : nat := 5.        (* header length 0 or > streamEstablishMaxPacketSize *)
Definition E_UNMARSHAL : nat := 6.  (* StreamEstablish.UnmarshalVT failed *)
Definition E_PID_EMPTY : nat := 7.  (* protocol.ErrEmptyProtocolID *)
Definition E_PID_UTF8 : nat := 8.   (* protocol.ErrInvalidProtocolID *)
Definition E_ZERO : nat := 9.       (* packet conn: zero length prefix *)
Definition E_OVER : nat := 10.      (* length prefix above the limit *)

Definition two32 : Z := 4294967296.
Definition two31 : Z := 2147483648.
Definition max_int32 : Z := 2147483647.

(* ================= C07: stream establish header ================= *)

(* StreamEstablish.MarshalToSizedBufferVT: field 1 (string) if non-empty *)
Definition marshal_body (pid : bytes) : bytes :=
  match pid with
  | [] => []
  | _ :: _ => 10 :: varint_enc (Z.of_nat (length pid)) ++ pid
  end.

(* marshalStreamEstablishHeader: AppendVarint(SizeVT) ++ body *)
Definition marshal_header (pid : bytes) : bytes :=
  varint_enc (Z.of_nat (length (marshal_body pid))) ++ marshal_body pid.

(* -- protobuf-go-lite Skip -- *)

(* the varint loops of Skip: at most ten bytes, content of the tenth unchecked *)
Fixpoint skip_varint (fuel : nat) (l : bytes) : option bytes :=
  match fuel with
  | O => None
  | S f => match l with
           | [] => None
           | b :: r => if b <? 128 then Some r else skip_varint f r
           end
  end.

(* length |= (int(b) & 0x7F) << shift; the caller reduces modulo 2^64 *)
Fixpoint raw_varint (fuel : nat) (shift : Z) (l : bytes) : option (Z * bytes) :=
  match fuel with
  | O => None
  | S f => match l with
           | [] => None
           | b :: r =>
               if b <? 128 then Some (b * 2 ^ shift, r)
               else match raw_varint f (shift + 7) r with
                    | Some (v, r') => Some ((b - 128) * 2 ^ shift + v, r')
                    | None => None
                    end
           end
  end.

Definition two64' : Z := 18446744073709551616.

(* Skip(dAtA): Some rest = the bytes after the skipped field; None = any error
   (including the caller's "skippy beyond the buffer" checks) *)
Fixpoint skip_loop (fuel depth : nat) (l : bytes) : option bytes :=
  match fuel with
  | O => None
  | S f =>
      match l with
      | [] => None
      | b0 :: _ =>
          match skip_varint 10 l with
          | None => None
          | Some r =>
              let wt := b0 mod 8 in
              let cont (d : nat) (r' : bytes) :=
                match d with O => Some r' | S _ => skip_loop f d r' end in
              if wt =? 0 then
                match skip_varint 10 r with None => None | Some r' => cont depth r' end
              else if wt =? 1 then
                if (length r <? 8)%nat then None else cont depth (skipn 8 r)
              else if wt =? 2 then
                match raw_varint 10 0 r with
                | None => None
                | Some (v, r') =>
                    let len := v mod two64' in
                    if Z.of_nat (length r') <? len then None
                    else cont depth (skipn (Z.to_nat len) r')
                end
              else if wt =? 3 then skip_loop f (S depth) r
              else if wt =? 4 then
                match depth with O => None | S d => cont d r end
              else if wt =? 5 then
                if (length r <? 4)%nat then None else cont depth (skipn 4 r)
              else None
          end
      end
  end.

Definition skip_field (l : bytes) : option bytes := skip_loop (S (length l)) 0 l.

(* int32(wire >> 3) *)
Definition wrap_int32 (x : Z) : Z :=
  let y := x mod two32 in if two31 <=? y then y - two32 else y.

(* StreamEstablish.UnmarshalVT: cur = m.ProtocolId so far *)
Fixpoint um_loop (fuel : nat) (cur : bytes) (l : bytes) : option bytes :=
  match fuel with
  | O => None
  | S f =>
      match l with
      | [] => Some cur
      | _ :: _ =>
          match varint_dec l with
          | VErr => None
          | VOk wire n =>
              let r := skipn n l in
              let wt := wire mod 8 in
              let fnum := wrap_int32 (wire / 8) in
              if wt =? 4 then None
              else if fnum <=? 0 then None
              else if fnum =? 1 then
                if negb (wt =? 2) then None
                else match varint_dec r with
                     | VErr => None
                     | VOk sl m =>
                         let r2 := skipn m r in
                         if Z.of_nat (length r2) <? sl then None
                         else um_loop f (firstn (Z.to_nat sl) r2) (skipn (Z.to_nat sl) r2)
                     end
              else match skip_field l with
                   | None => None
                   | Some r' => um_loop f cur r'
                   end
          end
      end
  end.

Definition unmarshal (body : bytes) : option bytes := um_loop (S (length body)) [] body.

(* -- unicode/utf8.ValidString -- *)
Definition cont_byte (b : Z) : bool := (128 <=? b) && (b <=? 191).
Definition in_range (lo hi b : Z) : bool := (lo <=? b) && (b <=? hi).

Fixpoint utf8_valid (l : bytes) : bool :=
  match l with
  | [] => true
  | b0 :: r =>
      if b0 <? 128 then utf8_valid r
      else if in_range 194 223 b0 then
        match r with
        | b1 :: r1 => cont_byte b1 && utf8_valid r1
        | _ => false
        end
      else if in_range 224 239 b0 then
        match r with
        | b1 :: b2 :: r2 =>
            (if b0 =? 224 then in_range 160 191 b1
             else if b0 =? 237 then in_range 128 159 b1
             else cont_byte b1) && cont_byte b2 && utf8_valid r2
        | _ => false
        end
      else if in_range 240 244 b0 then
        match r with
        | b1 :: b2 :: b3 :: r3 =>
            (if b0 =? 240 then in_range 144 191 b1
             else if b0 =? 244 then in_range 128 143 b1
             else cont_byte b1) && cont_byte b2 && cont_byte b3 && utf8_valid r3
        | _ => false
        end
      else false
  end.

(* protocol.ID.Validate: None = valid *)
Definition pid_validate (pid : bytes) : option nat :=
  match pid with
  | [] => Some E_PID_EMPTY
  | _ => if utf8_valid pid then None else Some E_PID_UTF8
  end.

Definition prefetch : nat := Z.to_nat hdr_prefetch.

(* readStreamEstablishHeader over a chunked stream.

   de ("data with error"): the reader is allowed to deliver the last bytes of
   the stream together with the end error in one Read call (quic-go streams,
   iotest.DataErrReader).  readAtLeast counts nr first and returns the error
   only if n < min (Lib/Chunk.v read_n_de); de = false is a reader that reports
   the end by a separate (0, EOF) Read. *)
Definition rd (de : bool) (n : nat) (s : stream) : bytes * stream * bool :=
  if de then read_full_de n s
  else let '(b, s1) := read_full n s in (b, s1, (length b <? n)%nat).

Definition read_header_de (de : bool) (s : stream) : outcome (bytes * stream) :=
  let '(b, s1, fail1) := rd de prefetch s in          (* readAtLeast(r, 0, 4, b) *)
  if fail1 then Err E_EOF else
  match varint_dec b with                              (* ConsumeVarint(b) *)
  | VErr => Err E_VARINT
  | VOk hl n0 =>
      let n := if (length b <? n0)%nat then length b else n0 in   (* "should not be possible" *)
      if hl >? max_int32 then Err E_INT32 else
      if (hl >? stream_establish_max) || (hl =? 0) then Err E_LEN else
      if (length b <? n)%nat then Panic else           (* b[headerLenBytes:] *)
      let hln := Z.to_nat hl in                        (* headerBuf := make([]byte, headerLen) *)
      let tail := skipn n b in
      let have := length tail in                       (* n := len(b) - headerLenBytes *)
      let copied := firstn hln tail in                 (* copy(headerBuf, b[headerLenBytes:]) *)
      if (have <? hln)%nat then                        (* readAtLeast(r, n, headerLen, headerBuf) *)
        let '(more, s2, fail2) := rd de (hln - have) s1 in
        if fail2 then Err E_EOF else
        match unmarshal (copied ++ more) with
        | None => Err E_UNMARSHAL
        | Some pid => Ok (pid, s2)
        end
      else
        match unmarshal copied with
        | None => Err E_UNMARSHAL
        | Some pid => Ok (pid, s1)
        end
  end.

Definition read_header (s : stream) : outcome (bytes * stream) := read_header_de false s.

(* HandleIncomingStream up to the directive: either the stream is closed, or
   HandleMountedStream(pid, lnk.GetLocalPeer(), lnk.GetRemotePeer()) is looked
   up and the handler gets the stream with `rest` still unread. *)
Inductive hres :=
| Dispatch (pid local remote rest : bytes)
| Closed (k : nat)
| HPanic.

Definition handle_incoming_de (de : bool) (local remote : bytes) (s : stream) : hres :=
  match read_header_de de s with
  | Ok (pid, s') =>
      match pid_validate pid with
      | Some k => Closed k
      | None => Dispatch pid local remote (sdata s')
      end
  | Err k => Closed k
  | Panic => HPanic
  end.

Definition handle_incoming (local remote : bytes) (s : stream) : hres :=
  match read_header s with
  | Ok (pid, s') =>
      match pid_validate pid with
      | Some k => Closed k
      | None => Dispatch pid local remote (sdata s')
      end
  | Err k => Closed k
  | Panic => HPanic
  end.

(* ---- several streams on one bus ----
   HandleIncomingStream looks the handler up with the directive
   HandleMountedStream(pid, local, remote).  The controller bus de-duplicates:
   a new directive that IsEquivalent to a live one is merged into it and is
   served by the resolvers (handlers) of the live instance; instances stay
   alive while referenced and for the dispose delay afterwards.  IsEquivalent
   of HandleMountedStream compares all three fields (triple_eqb; tied to
   link/handle-mounted-stream.go by the harness). *)
Definition triple : Type := (bytes * bytes * bytes)%type.

Definition triple_eqb (a b : triple) : bool :=
  let '(p1, l1, r1) := a in let '(p2, l2, r2) := b in
  bytes_eqb p1 p2 && bytes_eqb l1 l2 && bytes_eqb r1 r2.

(* the live instance that serves a lookup of t, and the live set afterwards *)
Definition bus_lookup (live : list triple) (t : triple) : triple * list triple :=
  match find (triple_eqb t) live with
  | Some t' => (t', live)
  | None => (t, live ++ [t])
  end.

Inductive bev :=
| Arrive (de : bool) (local remote : bytes) (s : stream)   (* a stream arrives on a link (local, remote) *)
| Expire (t : triple).                                      (* a lookup instance is disposed *)

Inductive bobs :=
| Served (own served : triple) (rest : bytes)   (* own: the stream's (pid, local, remote); served: the lookup whose handler got it *)
| Rejected (k : nat)
| BPanic.

Fixpoint bus_run (live : list triple) (evs : list bev) : list bobs :=
  match evs with
  | [] => []
  | Expire t :: r => bus_run (filter (fun x => negb (triple_eqb t x)) live) r
  | Arrive de l rm s :: r =>
      match handle_incoming_de de l rm s with
      | Dispatch pid l' r' rest =>
          let '(sv, live') := bus_lookup live (pid, l', r') in
          Served (pid, l', r') sv rest :: bus_run live' r
      | Closed k => Rejected k :: bus_run live r
      | HPanic => BPanic :: bus_run live r
      end
  end.

(* every stream on its own: what bus_run is proved to equal *)
Fixpoint bus_spec (evs : list bev) : list bobs :=
  match evs with
  | [] => []
  | Expire _ :: r => bus_spec r
  | Arrive _ l rm s :: r =>
      match handle_incoming l rm s with
      | Dispatch pid _ _ rest => Served (pid, l, rm) (pid, l, rm) rest :: bus_spec r
      | Closed k => Rejected k :: bus_spec r
      | HPanic => BPanic :: bus_spec r
      end
  end.

(* the same as a function of the data alone (no chunking): what the proofs show
   read_header computes for every chunking *)
Definition parse_header (D : bytes) : outcome (bytes * bytes) :=
  if (length D <? prefetch)%nat then Err E_EOF else
  match varint_dec (firstn prefetch D) with
  | VErr => Err E_VARINT
  | VOk hl n =>
      if hl >? max_int32 then Err E_INT32 else
      if (hl >? stream_establish_max) || (hl =? 0) then Err E_LEN else
      let X := skipn n D in
      let hln := Z.to_nat hl in
      if (length X <? hln)%nat then Err E_EOF else
      match unmarshal (firstn hln X) with
      | None => Err E_UNMARSHAL
      | Some pid => Ok (pid, skipn (Nat.max hln (prefetch - n)) X)
      end
  end.

Definition handle_pure (local remote D : bytes) : hres :=
  match parse_header D with
  | Ok (pid, rest) =>
      match pid_validate pid with
      | Some k => Closed k
      | None => Dispatch pid local remote rest
      end
  | Err k => Closed k
  | Panic => HPanic
  end.

(* ================= C08: length-prefixed packets ================= *)

Definition le32_enc (n : Z) : bytes :=
  [n mod 256; (n / 256) mod 256; (n / 65536) mod 256; (n / 16777216) mod 256].

Definition le32_dec (h : bytes) : Z :=
  match h with
  | [a; b; c; d] => a + b * 256 + c * 65536 + d * 16777216
  | _ => 0
  end.

(* PacketConn.WriteTo / Session.SendMsg: prefix ++ payload, one Write *)
Definition frame (p : bytes) : bytes := le32_enc (Z.of_nat (length p)) ++ p.

Definition plen : nat := Z.to_nat pktconn_prefix_len.
Definition slen : nat := Z.to_nat session_prefix_len.

(* the receive loop: PacketConn.rxPump (zero_ok = false: a zero prefix is an
   error) and repeated Session.RecvMsg (zero_ok = true: a zero prefix is the
   empty message).  Result: packets delivered in order and the terminal error. *)
Fixpoint rx_pump (fuel : nat) (pl : nat) (zero_ok : bool) (maxp : Z) (s : stream) : list bytes * nat :=
  match fuel with
  | O => ([], 0%nat)
  | S f =>
      let '(h, s1) := read_full pl s in                         (* io.ReadFull(header) *)
      if (length h =? 0)%nat then ([], E_EOF)
      else if (length h <? pl)%nat then ([], E_UNEXP)
      else
        let n := le32_dec h in
        if n =? 0 then
          if zero_ok then let '(ps, e) := rx_pump f pl zero_ok maxp s1 in ([] :: ps, e)
          else ([], E_ZERO)
        else if n >? maxp then ([], E_OVER)
        else
          let '(p, s2) := read_full (Z.to_nat n) s1 in         (* io.ReadFull(pktBuf) *)
          if (length p =? 0)%nat then ([], E_EOF)
          else if (length p <? Z.to_nat n)%nat then ([], E_UNEXP)
          else let '(ps, e) := rx_pump f pl zero_ok maxp s2 in (p :: ps, e)
  end.

Definition rx_run (pl : nat) (zero_ok : bool) (maxp : Z) (s : stream) : list bytes * nat :=
  rx_pump (S (length (sdata s))) pl zero_ok maxp s.

Definition pktconn_rx (maxp : Z) (s : stream) := rx_run plen false maxp s.
Definition session_rx (maxm : Z) (s : stream) := rx_run slen true maxm s.

(* chunk-free version *)
Fixpoint parse_frames (fuel : nat) (pl : nat) (zero_ok : bool) (maxp : Z) (D : bytes) : list bytes * nat :=
  match fuel with
  | O => ([], 0%nat)
  | S f =>
      let h := firstn pl D in
      let D1 := skipn pl D in
      if (length h =? 0)%nat then ([], E_EOF)
      else if (length h <? pl)%nat then ([], E_UNEXP)
      else
        let n := le32_dec h in
        if n =? 0 then
          if zero_ok then let '(ps, e) := parse_frames f pl zero_ok maxp D1 in ([] :: ps, e)
          else ([], E_ZERO)
        else if n >? maxp then ([], E_OVER)
        else
          let p := firstn (Z.to_nat n) D1 in
          if (length p =? 0)%nat then ([], E_EOF)
          else if (length p <? Z.to_nat n)%nat then ([], E_UNEXP)
          else let '(ps, e) := parse_frames f pl zero_ok maxp (skipn (Z.to_nat n) D1) in (p :: ps, e)
  end.

(* PacketConn.ReadFrom on a delivered packet: bytes copied, short-buffer flag *)
Definition read_from (buflen : nat) (pkt : bytes) : bytes * bool :=
  (firstn buflen pkt, (buflen <? length pkt)%nat).

(* writers: each WriteTo/SendMsg hands ONE Write of a whole frame to the
   stream (atomicity assumption: the stream does not interleave the bytes of
   two Write calls).  merge a b m: m is an interleaving of a and b. *)
Inductive merge {A} : list A -> list A -> list A -> Prop :=
| merge_nil : merge [] [] []
| merge_l x a b m : merge a b m -> merge (x :: a) b (x :: m)
| merge_r x a b m : merge a b m -> merge a (x :: b) (x :: m).

(* ================= C09: buffered connection ================= *)

Record conn := mkconn {
  und : stream;          (* the underlying ReadWriteCloser: what is still in transit *)
  uerr : nat;            (* the error the underlying Read reports once the data is over *)
  cq : list bytes;       (* packetCh *)
  ended : bool           (* rxPump returned: closeErr set, packetCh closed *)
}.

Inductive cact :=
| APump                  (* one iteration of rxPump *)
| ARead (b : nat).       (* Conn.Read with len(b) = b *)

Inductive cobs :=
| OData (d : bytes) (short : bool) (lost : bytes)   (* n = len d; short: io.ErrShortBuffer; lost: the discarded tail *)
| OEnd (k : nat).                                   (* (0, closeErr) *)

Definition cpkt : nat := Z.to_nat conn_pkt_size.

(* a Read on an empty, still open queue blocks: no transition *)
Definition cstep (c : conn) (a : cact) : conn * list cobs :=
  match a with
  | APump =>
      if ended c then (c, [])
      else match sread cpkt (und c) with
           | None => (mkconn (und c) (uerr c) (cq c) true, [])
           | Some (pkt, u') => (mkconn u' (uerr c) (cq c ++ [pkt]) false, [])
           end
  | ARead b =>
      match cq c with
      | pkt :: q' =>
          (mkconn (und c) (uerr c) q' (ended c),
           [OData (firstn b pkt) (b <? length pkt)%nat (skipn b pkt)])
      | [] => if ended c then (c, [OEnd (uerr c)]) else (c, [])
      end
  end.

Fixpoint crun (c : conn) (acts : list cact) : conn * list cobs :=
  match acts with
  | [] => (c, [])
  | a :: t => let '(c1, o1) := cstep c a in let '(c2, o2) := crun c1 t in (c2, o1 ++ o2)
  end.

Definition cinit (s : stream) (e : nat) : conn := mkconn s e [] false.

Definition consumed (o : cobs) : bytes :=
  match o with OData d _ lost => d ++ lost | OEnd _ => [] end.

Definition returned (o : cobs) : bytes :=
  match o with OData d _ _ => d | OEnd _ => [] end.

(* the schedule the harness observes: reads never find the queue empty before
   the pump is done (a blocked Read just waits) *)
Definition conn_trace (s : stream) (e : nat) (bufs : list nat) : list cobs :=
  snd (crun (cinit s e) (repeat APump (S (length (sdata s))) ++ map ARead bufs)).

(* Conn.Write over an underlying writer that accepts acc_i bytes per call
   (a short write without error makes the loop continue; an error stops it):
   returns the slices handed to the underlying writer and the count reported *)
Fixpoint conn_write (fuel : nat) (accepts : list (nat * bool)) (pkt : bytes) : list bytes * nat * bool :=
  match fuel with
  | O => ([], 0%nat, false)
  | S f =>
      match pkt with
      | [] => ([], 0%nat, false)
      | _ :: _ =>
          match accepts with
          | [] => ([pkt], length pkt, false)           (* a writer that takes everything *)
          | (a, fail) :: t =>
              let k := Nat.min (Nat.max 1 a) (length pkt) in
              if fail then ([firstn k pkt], k, true)
              else let '(ws, n, err) := conn_write f t (skipn k pkt) in
                   (firstn k pkt :: ws, (k + n)%nat, err)
          end
      end
  end.
