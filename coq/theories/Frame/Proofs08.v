(* C08: length-prefixed packet framing is exact for every chunking. *)
From Bifrost Require Import Lib.Base Lib.Chunk gen.Frame Frame.Model.

Lemma le32_length n : length (le32_enc n) = 4%nat.
Proof. reflexivity. Qed.

Lemma le32_roundtrip n : 0 <= n < two32 -> le32_dec (le32_enc n) = n.
Proof.
  intros H. unfold le32_enc, le32_dec, two32 in *.
  replace (n / 65536) with (n / 256 / 256) by (rewrite Z.div_div by lia; reflexivity).
  replace (n / 16777216) with (n / 256 / 256 / 256) by (rewrite !Z.div_div by lia; reflexivity).
  set (a := n / 256). set (b := a / 256). set (c := b / 256).
  pose proof (Z.div_mod n 256 ltac:(lia)) as H0. fold a in H0.
  pose proof (Z.div_mod a 256 ltac:(lia)) as H1. fold b in H1.
  pose proof (Z.div_mod b 256 ltac:(lia)) as H2. fold c in H2.
  pose proof (Z.mod_pos_bound n 256 ltac:(lia)).
  pose proof (Z.mod_pos_bound a 256 ltac:(lia)).
  pose proof (Z.mod_pos_bound b 256 ltac:(lia)).
  assert (0 <= c < 256).
  { unfold c, b, a. rewrite !Z.div_div by lia. split; [apply Z.div_pos; lia|apply Z.div_lt_upper_bound; lia]. }
  rewrite (Z.mod_small c 256) by lia. lia.
Qed.

Lemma le32_bytes n : 0 <= n -> all_bytes (le32_enc n) = true.
Proof.
  intros H. unfold le32_enc, all_bytes, is_byte. cbn [forallb].
  pose proof (Z.mod_pos_bound n 256 ltac:(lia)).
  pose proof (Z.mod_pos_bound (n / 256) 256 ltac:(lia)).
  pose proof (Z.mod_pos_bound (n / 65536) 256 ltac:(lia)).
  pose proof (Z.mod_pos_bound (n / 16777216) 256 ltac:(lia)).
  lia.
Qed.

Lemma frame_length p : length (frame p) = (4 + length p)%nat.
Proof. unfold frame. rewrite app_length. reflexivity. Qed.

(* ---- the receive loop computes a function of the data alone ---- *)

Theorem rx_pump_pure : forall fuel pl z maxp ch D,
  rx_pump fuel pl z maxp (ch, D) = parse_frames fuel pl z maxp D.
Proof.
  induction fuel as [|f IH]; intros pl z maxp ch D; [reflexivity|].
  cbn [rx_pump parse_frames].
  destruct (read_full_spec pl (ch, D)) as (ch1 & R1). rewrite R1. cbn [snd].
  destruct (length (firstn pl D) =? 0)%nat; [reflexivity|].
  destruct (length (firstn pl D) <? pl)%nat; [reflexivity|].
  destruct (le32_dec (firstn pl D) =? 0).
  - destruct z; [|reflexivity]. rewrite IH. reflexivity.
  - destruct (le32_dec (firstn pl D) >? maxp); [reflexivity|].
    destruct (read_full_spec (Z.to_nat (le32_dec (firstn pl D))) (ch1, skipn pl D)) as (ch2 & R2).
    rewrite R2. cbn [snd].
    destruct (length (firstn (Z.to_nat (le32_dec (firstn pl D))) (skipn pl D)) =? 0)%nat; [reflexivity|].
    destruct (length (firstn (Z.to_nat (le32_dec (firstn pl D))) (skipn pl D)) <? Z.to_nat (le32_dec (firstn pl D)))%nat; [reflexivity|].
    rewrite IH. reflexivity.
Qed.

(* enough fuel: one more than the number of bytes *)
Lemma parse_frames_fuel : forall f1 f2 pl z maxp D,
  (0 < pl)%nat -> (length D < f1)%nat -> (length D < f2)%nat ->
  parse_frames f1 pl z maxp D = parse_frames f2 pl z maxp D.
Proof.
  induction f1 as [|f1 IH]; intros f2 pl z maxp D Hpl H1 H2; [lia|].
  destruct f2 as [|f2]; [lia|]. cbn [parse_frames].
  destruct (length (firstn pl D) =? 0)%nat eqn:E0; [reflexivity|].
  apply Nat.eqb_neq in E0. rewrite firstn_length in E0.
  assert (Hs : (length (skipn pl D) < length D)%nat) by (rewrite skipn_length; lia).
  destruct (length (firstn pl D) <? pl)%nat; [reflexivity|].
  destruct (le32_dec (firstn pl D) =? 0).
  - destruct z; [|reflexivity]. rewrite (IH f2) by lia. reflexivity.
  - destruct (le32_dec (firstn pl D) >? maxp); [reflexivity|].
    destruct (length (firstn (Z.to_nat (le32_dec (firstn pl D))) (skipn pl D)) =? 0)%nat; [reflexivity|].
    destruct (length (firstn (Z.to_nat (le32_dec (firstn pl D))) (skipn pl D)) <? Z.to_nat (le32_dec (firstn pl D)))%nat; [reflexivity|].
    rewrite (IH f2); [reflexivity|lia| |].
    + rewrite skipn_length. lia.
    + rewrite skipn_length. lia.
Qed.

(* a packet the receiver accepts *)
Definition pkt_ok (z : bool) (maxp : Z) (p : bytes) : Prop :=
  (z = true \/ (1 <= length p)%nat) /\ Z.of_nat (length p) <= maxp.

Definition stream_of (ps : list bytes) : bytes := concat (map frame ps).

Lemma firstn_app_exact {A} (a b : list A) n : length a = n -> firstn n (a ++ b) = a.
Proof. intros <-. rewrite firstn_app, Nat.sub_diag, firstn_all, firstn_O, app_nil_r. reflexivity. Qed.

Lemma skipn_app_exact {A} (a b : list A) n : length a = n -> skipn n (a ++ b) = b.
Proof. intros <-. rewrite skipn_app, Nat.sub_diag, skipn_all. reflexivity. Qed.

(* frames followed by anything: exactly the framed packets come out, then
   whatever the loop makes of the rest *)
Lemma parse_frames_app : forall ps f z maxp T,
  maxp < two32 -> Forall (pkt_ok z maxp) ps ->
  parse_frames (length ps + f) 4 z maxp (stream_of ps ++ T) =
  (ps ++ fst (parse_frames f 4 z maxp T), snd (parse_frames f 4 z maxp T)).
Proof.
  induction ps as [|p ps IH]; intros f z maxp T Hm Hok.
  - cbn [length plus stream_of map concat app]. destruct (parse_frames f 4 z maxp T); reflexivity.
  - inversion Hok as [|? ? [Hz Hle] Hok']; subst.
    cbn [length plus]. unfold stream_of. cbn [map concat]. fold (stream_of ps).
    unfold frame at 1. rewrite <- !app_assoc.
    cbn [parse_frames].
    rewrite (firstn_app_exact (le32_enc (Z.of_nat (length p)))) by reflexivity.
    rewrite (skipn_app_exact (le32_enc (Z.of_nat (length p)))) by reflexivity.
    rewrite le32_length. change (4 =? 0)%nat with false; change (4 <? 4)%nat with false; cbv iota.
    rewrite le32_roundtrip by lia.
    destruct (Z.of_nat (length p) =? 0) eqn:E0.
    + assert (p = []) by (destruct p; [reflexivity|cbn [length] in E0; lia]). subst p.
      destruct Hz as [->|Hz]; [|cbn in Hz; lia].
      cbn [app]. rewrite IH by assumption. reflexivity.
    + destruct (Z.of_nat (length p) >? maxp) eqn:E1; [lia|].
      rewrite Nat2Z.id.
      rewrite (firstn_app_exact p) by reflexivity. rewrite (skipn_app_exact p) by reflexivity.
      destruct (length p =? 0)%nat eqn:E2; [apply Nat.eqb_eq in E2; lia|].
      rewrite Nat.ltb_irrefl. rewrite IH by assumption. reflexivity.
Qed.

Lemma parse_frames_nil f z maxp : parse_frames (S f) 4 z maxp [] = ([], E_EOF).
Proof. reflexivity. Qed.

Lemma stream_of_length_ge ps : (4 * length ps <= length (stream_of ps))%nat.
Proof.
  induction ps as [|p ps IH]; [cbn; lia|]. unfold stream_of in *. cbn [map concat length].
  rewrite app_length, frame_length. lia.
Qed.

Lemma rx_run_app : forall z maxp ps T ch,
  maxp < two32 -> Forall (pkt_ok z maxp) ps ->
  exists f, rx_run 4 z maxp (ch, stream_of ps ++ T) =
    (ps ++ fst (parse_frames (S f) 4 z maxp T), snd (parse_frames (S f) 4 z maxp T)).
Proof.
  intros z maxp ps T ch Hm Hok. unfold rx_run. cbn [sdata snd]. rewrite rx_pump_pure.
  pose proof (stream_of_length_ge ps) as Hl.
  exists (length (stream_of ps ++ T) - length ps)%nat.
  replace (S (length (stream_of ps ++ T))) with (length ps + S (length (stream_of ps ++ T) - length ps))%nat
    by (rewrite app_length; lia).
  apply parse_frames_app; assumption.
Qed.

(* every packet sequence within the limits is recovered exactly, in order,
   then the clean end is reported - for every chunking *)
Theorem rx_exact : forall z maxp ps ch,
  maxp < two32 -> Forall (pkt_ok z maxp) ps ->
  rx_run 4 z maxp (ch, stream_of ps) = (ps, E_EOF).
Proof.
  intros z maxp ps ch Hm Hok.
  destruct (rx_run_app z maxp ps [] ch Hm Hok) as (f & R). rewrite (app_nil_r (stream_of ps)) in R. eapply eq_trans; [exact R|].
  rewrite parse_frames_nil. cbn [fst snd]. rewrite app_nil_r. reflexivity.
Qed.

(* a bad length prefix after the packets ps (whatever follows it): exactly ps
   is delivered and the loop ends with the framing error *)
Definition bad_prefix (z : bool) (maxp n : Z) : option nat :=
  if n =? 0 then (if z then None else Some E_ZERO) else if n >? maxp then Some E_OVER else None.

Theorem rx_bad_prefix : forall z maxp ps n k junk ch,
  maxp < two32 -> Forall (pkt_ok z maxp) ps -> 0 <= n < two32 ->
  bad_prefix z maxp n = Some k ->
  rx_run 4 z maxp (ch, stream_of ps ++ le32_enc n ++ junk) = (ps, k).
Proof.
  intros z maxp ps n k junk ch Hm Hok Hn Hbad.
  destruct (rx_run_app z maxp ps (le32_enc n ++ junk) ch Hm Hok) as (f & R). eapply eq_trans; [exact R|].
  cbn [parse_frames].
  rewrite (firstn_app_exact (le32_enc n)) by reflexivity. rewrite le32_length.
  change (4 =? 0)%nat with false; change (4 <? 4)%nat with false; cbv iota.
  rewrite le32_roundtrip by assumption.
  unfold bad_prefix in Hbad.
  destruct (n =? 0).
  - destruct z; [discriminate|]. injection Hbad as <-. cbn [fst snd]. rewrite app_nil_r. reflexivity.
  - destruct (n >? maxp); [|discriminate]. injection Hbad as <-. cbn [fst snd]. rewrite app_nil_r. reflexivity.
Qed.

(* a stream cut inside a frame: the complete packets before the cut are
   delivered, then an end-of-stream error (never a packet made of other bytes) *)
Theorem rx_truncated : forall z maxp ps p cut ch,
  maxp < two32 -> Forall (pkt_ok z maxp) ps -> pkt_ok z maxp p ->
  (cut < length (frame p))%nat ->
  exists k, rx_run 4 z maxp (ch, stream_of ps ++ firstn cut (frame p)) = (ps, k) /\ (k = E_EOF \/ k = E_UNEXP).
Proof.
  intros z maxp ps p cut ch Hm Hok [Hz Hle] Hcut.
  destruct (rx_run_app z maxp ps (firstn cut (frame p)) ch Hm Hok) as (f & R).
  rewrite frame_length in Hcut.
  assert (Hc : exists k, parse_frames (S f) 4 z maxp (firstn cut (frame p)) = ([], k) /\ (k = E_EOF \/ k = E_UNEXP)).
  { cbn [parse_frames]. rewrite firstn_firstn.
    destruct (Nat.le_gt_cases 4 cut) as [H4|H4].
    - replace (Nat.min 4 cut) with 4%nat by lia.
      unfold frame. rewrite (firstn_app_exact (le32_enc (Z.of_nat (length p)))) by reflexivity.
      rewrite le32_length. change (4 =? 0)%nat with false; change (4 <? 4)%nat with false; cbv iota.
      rewrite le32_roundtrip by lia.
      destruct (Z.of_nat (length p) =? 0) eqn:E0; [lia|].
      destruct (Z.of_nat (length p) >? maxp) eqn:E1; [lia|].
      rewrite Nat2Z.id.
      rewrite firstn_app, le32_length. rewrite (firstn_all2 (le32_enc _)) by (rewrite le32_length; lia).
      rewrite (skipn_app_exact (le32_enc (Z.of_nat (length p)))) by reflexivity.
      rewrite firstn_firstn. rewrite firstn_length.
      replace (Nat.min (Nat.min (length p) (cut - 4)) (length p)) with (cut - 4)%nat by lia.
      destruct (cut - 4 =? 0)%nat; [eexists; split; [reflexivity|auto]|].
      destruct (cut - 4 <? length p)%nat eqn:E3; [eexists; split; [reflexivity|auto]|].
      apply Nat.ltb_ge in E3. lia.
    - replace (Nat.min 4 cut) with cut by lia.
      rewrite firstn_length, frame_length. replace (Nat.min cut (4 + length p)) with cut by lia.
      destruct (cut =? 0)%nat; [eexists; split; [reflexivity|auto]|].
      destruct (cut <? 4)%nat eqn:E3; [eexists; split; [reflexivity|auto]|].
      apply Nat.ltb_ge in E3. lia. }
  destruct Hc as (k & Hc & Hk). exists k. split; [|exact Hk]. eapply eq_trans; [exact R|]. rewrite Hc. cbn [fst snd]. rewrite app_nil_r. reflexivity.
Qed.

(* ReadFrom with a too-small buffer says so *)
Lemma read_from_spec buflen pkt :
  read_from buflen pkt = (firstn buflen pkt, negb (length pkt <=? buflen)%nat).
Proof. unfold read_from. f_equal. destruct (Nat.leb_spec (length pkt) buflen), (Nat.ltb_spec buflen (length pkt)); try reflexivity; lia. Qed.

Lemma read_from_fits buflen pkt : (length pkt <= buflen)%nat -> read_from buflen pkt = (pkt, false).
Proof.
  intros H. unfold read_from. rewrite firstn_all2 by lia.
  destruct (Nat.ltb_spec buflen (length pkt)); [lia|reflexivity].
Qed.

Lemma read_from_short buflen pkt : (buflen < length pkt)%nat ->
  read_from buflen pkt = (firstn buflen pkt, true) /\ length (firstn buflen pkt) = buflen.
Proof.
  intros H. unfold read_from. destruct (Nat.ltb_spec buflen (length pkt)); [|lia].
  split; [reflexivity|]. rewrite firstn_length. lia.
Qed.

(* concurrent writers: every interleaving of whole frames decodes to the
   interleaved packet sequence *)
Lemma merge_forall {A} (P : A -> Prop) a b m : merge a b m -> Forall P a -> Forall P b -> Forall P m.
Proof.
  induction 1; intros Ha Hb; [constructor| |].
  - inversion Ha; subst. constructor; auto.
  - inversion Hb; subst. constructor; auto.
Qed.

Lemma merge_length {A} (a b m : list A) : merge a b m -> length m = (length a + length b)%nat.
Proof. induction 1; cbn [length]; lia. Qed.

Theorem rx_interleaved : forall z maxp a b m ch,
  maxp < two32 -> Forall (pkt_ok z maxp) a -> Forall (pkt_ok z maxp) b -> merge a b m ->
  rx_run 4 z maxp (ch, stream_of m) = (m, E_EOF).
Proof. intros. apply rx_exact; [assumption|]. eapply merge_forall; eassumption. Qed.

Lemma plen_is_4 : plen = 4%nat. Proof. reflexivity. Qed.
Lemma slen_is_4 : slen = 4%nat. Proof. reflexivity. Qed.

Theorem rx_run_chunking : forall pl z maxp ch1 ch2 D,
  rx_run pl z maxp (ch1, D) = rx_run pl z maxp (ch2, D).
Proof. intros. unfold rx_run. cbn [sdata snd]. rewrite !rx_pump_pure. reflexivity. Qed.
