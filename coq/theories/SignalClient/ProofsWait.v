(* Client half of the quiescence part of C23: no lost wake-ups.  In every
   reachable client state a goroutine that is blocked on the wait channel would
   do nothing if it ran its lock region on the current tracker; hence when no
   internal action is enabled every pending Send has its message in the slot,
   transmitted in the current epoch, and waits only for the relay. *)
From Bifrost Require Import Lib.Base SignalClient.Model SignalClient.Proofs SignalClient.ProofsProgress
  SignalClient.StepCases SignalClient.Compose SignalClient.ProofsLink.

Ltac crush :=
  cbn in *;
  repeat match goal with
         | |- context [match ?x with _ => _ end] => destruct x eqn:?; cbn in *
         | H : context [match ?x with _ => _ end] |- _ => destruct x eqn:?; cbn in *
         end; try congruence; auto.

Definition stable_s (t : tracker) (cl : scall) : Prop :=
  s_st cl = SRun -> s_w cl = WWait -> h_send_iter t cl = (t, false, cl).
Definition stable_r (t : tracker) (cl : rcall) : Prop :=
  r_st cl = RRun -> r_w cl = WWait -> snd (h_recv_iter t) = None.
Definition stable_c (t : tracker) (cn : cconn) : Prop :=
  c_w cn = WWait -> snd (h_loop t) = LNone.

Definition WInv (s : cstate) : Prop :=
  Forall (stable_s (tk s)) (sends s) /\ Forall (stable_r (tk s)) (recvs s) /\
  (forall cn, conn s = Some cn -> stable_c (tk s) cn).

(* a region that does not broadcast does not change the tracker *)
Lemma eta_t t : mkT (t_open t) (t_out t) (t_sent t) (t_acked t) (t_cancel t) (t_recv t) (t_proc t) = t.
Proof. destruct t; reflexivity. Qed.

Lemma close_quiet t t' : h_close t = (t', false) -> t' = t.
Proof.
  destruct t as [op ou se ak ca re pr]. unfold h_close; cbn.
  destruct op, ou, re; intros H; inversion H; reflexivity.
Qed.
Lemma open_quiet n t t' : h_open n t = (t', false) -> t' = t.
Proof. unfold h_open. destruct (zopt_eqb (t_open t) (Some n)); intros H; inversion H; auto. Qed.
Lemma clear_quiet n t t' : h_clear n t = (t', false) -> t' = t.
Proof. unfold h_clear. destruct (seq_is (t_recv t) n); intros H; inversion H; auto. Qed.
Lemma ack_quiet n t t' : h_ack n t = (t', false) -> t' = t.
Proof. unfold h_ack. destruct (seq_is (t_out t) n); [destruct (t_cancel t)|]; intros H; inversion H; auto. Qed.
Lemma send_cancel_quiet t cl t' : h_send_cancel t cl = (t', false) -> t' = t.
Proof. unfold h_send_cancel. intros H. crush. Qed.
Lemma loop_quiet t t' : h_loop t = (t', LNone) -> t' = t.
Proof. unfold h_loop. intros H. crush. Qed.
Lemma send_iter_quiet t cl t' cl' : h_send_iter t cl = (t', false, cl') -> t' = t.
Proof. unfold h_send_iter. intros H. crush. Qed.
Lemma recv_iter_quiet t t' : h_recv_iter t = (t', None) -> t' = t.
Proof. unfold h_recv_iter. intros H. crush. Qed.

Lemma reader_quiet c r t t' : reader c r t = Ok (t', false) -> t' = t.
Proof.
  destruct r as [n|[|]|[m|]|n|n| |]; cbn [reader]; intros H; try discriminate.
  - assert (E : h_open n t = (t', false)) by congruence. exact (open_quiet _ _ _ E).
  - assert (E : h_close t = (t', false)) by congruence. exact (close_quiet _ _ E).
  - inversion H; auto.
  - unfold obind in H. destruct (check_recv (peer_key c) m) as [[]| |]; inversion H.
  - inversion H; auto.
  - assert (E : h_ack n t = (t', false)) by congruence. exact (ack_quiet _ _ _ E).
  - assert (E : h_clear n t = (t', false)) by congruence. exact (clear_quiet _ _ _ E).
Qed.

(* a Send iteration that ends waiting would wait again *)
Lemma send_iter_idem t cl t' b cl' :
  flags_inv t -> h_send_iter t cl = (t', b, cl') -> s_st cl' = SRun -> s_w cl' = WWait ->
  h_send_iter t' cl' = (t', false, cl').
Proof.
  intros [A B] E Hs Hw. unfold h_send_iter in E.
  repeat match type of E with context [match ?x with _ => _ end] => destruct x eqn:? end;
    inversion E; subst; clear E; cbn in Hs, Hw; try discriminate;
    unfold h_send_iter; cbn;
    repeat match goal with Hx : _ = _ |- _ => rewrite Hx; cbn end;
    unfold zopt_eqb, option_eqb; rewrite ?Z.eqb_refl; cbn;
    repeat match goal with Hx : _ = _ |- _ => rewrite Hx; cbn end;
    try reflexivity.
  all: try (destruct (A eq_refl) as (A1 & A2 & A3)).
  all: unfold seq_is; rewrite ?Z.eqb_refl; cbn; rewrite ?A2; cbn; try reflexivity.
  all: destruct (t_out t') as [o|] eqn:Eout; cbn in *; rewrite ?andb_false_r, ?andb_true_r in *; cbn in *; try discriminate; try reflexivity.
  all: repeat match goal with Hx : _ = _ |- _ => rewrite Hx; cbn end; try reflexivity.
  all: destruct (s_txed cl); destruct (m_seq o =? m_seq (s_msg cl)); cbn in *; try discriminate; reflexivity.
Qed.

Lemma wake_not_wait w : wake w <> WWait.
Proof. destruct w; discriminate. Qed.

Lemma stable_s_wake t l : Forall (stable_s t) (map wake_s l).
Proof. apply Forall_map. apply Forall_forall. intros cl _ _ Hw. cbn in Hw. destruct (wake_not_wait _ Hw). Qed.
Lemma stable_r_wake t l : Forall (stable_r t) (map wake_r l).
Proof. apply Forall_map. apply Forall_forall. intros cl _ _ Hw. cbn in Hw. destruct (wake_not_wait _ Hw). Qed.

Lemma Forall_upd {A} (P : A -> Prop) i x l : Forall P l -> P x -> Forall P (upd_nth i x l).
Proof.
  revert i; induction l as [|y l IH]; intros i Hl Hx; destruct i; cbn; auto;
    inversion Hl as [|? ? Hy Hl']; subst; constructor; auto.
Qed.

(* the state after a region: tracker t', broadcast iff b; everybody else is
   either woken (b) or looks at an unchanged tracker (not b) *)
Lemma WInv_region s t' b :
  WInv s -> (b = false -> t' = tk s) ->
  let s1 := bcast_if b (set_tk t' s) in
  Forall (stable_s t') (sends s1) /\ Forall (stable_r t') (recvs s1) /\
  (forall cn, conn s1 = Some cn -> stable_c t' cn).
Proof.
  intros (Ws & Wr & Wc) Hq. destruct b; cbn.
  - split; [apply stable_s_wake|split; [apply stable_r_wake|]].
    intros cn E. destruct (conn s) as [c0|]; cbn in E; inversion E; subst.
    intros Hw. cbn in Hw. destruct (wake_not_wait _ Hw).
  - rewrite (Hq eq_refl). auto.
Qed.

Lemma step_WInv c s a s' o :
  flags_inv (tk s) -> WInv s -> step c s a = Some (s', o) -> WInv s'.
Proof.
  intros Fl W St. pose proof W as (Ws & Wr & Wc). destruct a; cbn [step] in St.
  - destruct (conn s) eqn:Ec; inversion St; subst. split; [|split]; auto.
    cbn. intros cn E. inversion E; subst. intros Hw; discriminate.
  - destruct (conn s) as [cn|] eqn:Ec; [|discriminate]. destruct (c_rerr cn); [discriminate|].
    destruct (reader c r (tk s)) as [[t' b]|k|] eqn:ER; [| |discriminate]; inversion St; subst.
    + assert (Hq : b = false -> t' = tk s) by (intros ->; eapply reader_quiet; eauto).
      destruct (WInv_region s t' b W Hq) as (A & B & C). unfold WInv. rewrite tk_bcast_if'. cbn [tk set_tk]. auto.
    + split; [|split]; auto. cbn. intros cn' E. inversion E; subst. intros Hw. cbn in Hw.
      apply (Wc cn eq_refl Hw).
  - destruct (conn s) as [cn|] eqn:Ec; [|discriminate]. destruct (runnable (c_w cn)); [|discriminate].
    destruct (h_loop (tk s)) as [t' la] eqn:E.
    destruct la; inversion St; subst.
    + pose proof (loop_quiet _ _ E) as ->. split; [|split]; auto. cbn. intros cn' E'. inversion E'; subst.
      intros _. rewrite E. reflexivity.
    + split; [|split]; cbn; [apply stable_s_wake|apply stable_r_wake|]. intros cn' E'. inversion E'; subst. intros Hw; discriminate.
    + split; [|split]; cbn; [apply stable_s_wake|apply stable_r_wake|]. intros cn' E'. inversion E'; subst. intros Hw; discriminate.
    + split; [|split]; cbn; [apply stable_s_wake|apply stable_r_wake|]. intros cn' E'. inversion E'; subst. intros Hw; discriminate.
  - destruct (conn s) as [cn|] eqn:Ec; [|discriminate]. destruct (c_rerr cn); [|discriminate].
    destruct (blocked (c_w cn)); [|discriminate]. unfold conn_end in St.
    destruct (h_close (tk s)) as [t' b] eqn:E. inversion St; subst.
    assert (Hq : b = false -> t' = tk s) by (intros ->; eapply close_quiet; eauto).
    destruct (WInv_region s t' b W Hq) as (A & B & C). unfold WInv. cbn [tk sends recvs conn set_conn].
    rewrite tk_bcast_if'. cbn [tk set_tk]. split; [|split]; auto. discriminate.
  - destruct (conn s) as [cn|] eqn:Ec; [|discriminate]. unfold conn_end in St.
    destruct (h_close (tk s)) as [t' b] eqn:E. inversion St; subst.
    assert (Hq : b = false -> t' = tk s) by (intros ->; eapply close_quiet; eauto).
    destruct (WInv_region s t' b W Hq) as (A & B & C). unfold WInv. cbn [tk sends recvs conn set_conn].
    rewrite tk_bcast_if'. cbn [tk set_tk]. split; [|split]; auto. discriminate.
  - assert (G : forall x, stable_s (tk s) (mkS (sign_msg (self_key c) body (nonce s + 1)) false None WReady x)).
    { intros x _ Hw. discriminate. }
    destruct body; inversion St; subst; (split; [|split]; auto); cbn; apply Forall_app; split; auto.
  - destruct (nth_error (sends s) i) as [cl|] eqn:En; [|discriminate].
    destruct (s_st cl); try discriminate. destruct (runnable (s_w cl)); [|discriminate].
    destruct (h_send_iter (tk s) cl) as [[t' b] cl'] eqn:E. inversion St; subst.
    assert (Hq : b = false -> t' = tk s) by (intros ->; eapply send_iter_quiet; eauto).
    destruct (WInv_region s t' b W Hq) as (A & B & C). unfold WInv. cbn [tk sends recvs conn set_send].
    rewrite tk_bcast_if'. cbn [tk set_tk]. split; [|split]; auto.
    apply Forall_upd; auto. intros Hs Hw. eapply send_iter_idem; eauto.
  - destruct (nth_error (sends s) i) as [cl|] eqn:En; [|discriminate].
    destruct (s_st cl); try discriminate. destruct (blocked (s_w cl)); [|discriminate].
    destruct (h_send_cancel (tk s) cl) as [t' b] eqn:E. inversion St; subst.
    assert (Hq : b = false -> t' = tk s) by (intros ->; eapply send_cancel_quiet; eauto).
    destruct (WInv_region s t' b W Hq) as (A & B & C). unfold WInv. cbn [tk sends recvs conn set_send].
    rewrite tk_bcast_if'. cbn [tk set_tk]. split; [|split]; auto.
    apply Forall_upd; auto. intros Hs; discriminate.
  - inversion St; subst. split; [|split]; auto. cbn. apply Forall_app; split; auto.
    constructor; auto. intros _ Hw; discriminate.
  - destruct (nth_error (recvs s) j) as [cl|] eqn:En; [|discriminate].
    destruct (r_st cl); try discriminate. destruct (runnable (r_w cl)); [|discriminate].
    destruct (h_recv_iter (tk s)) as [t' [m|]] eqn:E; inversion St; subst.
    + split; [|split]; cbn; [apply stable_s_wake| |].
      * apply Forall_upd; [apply stable_r_wake|]. intros Hs; discriminate.
      * intros cn' E'. destruct (conn s); cbn in E'; inversion E'; subst. intros Hw. cbn in Hw. destruct (wake_not_wait _ Hw).
    + split; [|split]; auto. cbn. apply Forall_upd; auto. intros _ _. rewrite E. reflexivity.
  - destruct (nth_error (recvs s) j) as [cl|] eqn:En; [|discriminate].
    destruct (r_st cl); try discriminate. destruct (blocked (r_w cl)); [|discriminate].
    inversion St; subst. split; [|split]; auto. cbn. apply Forall_upd; auto. intros Hs; discriminate.
Qed.

Lemma WInv_init : WInv c_init.
Proof. split; [|split]; cbn; auto. discriminate. Qed.

Lemma run_WInv c acts : forall s s' tr,
  flags_inv (tk s) -> WInv s -> run c s acts = (s', tr) -> WInv s'.
Proof.
  induction acts as [|a acts IH]; intros s s' tr Fl W R; cbn [run] in R.
  - inversion R; subst; auto.
  - destruct (exec c s a) as [s1 o1] eqn:E1. destruct (run c s1 acts) as [s2 o2] eqn:E2. inversion R; subst.
    unfold exec in E1. destruct (step c s a) as [[sx ox]|] eqn:Es; inversion E1; subst.
    + eapply IH; [| |exact E2]; [eapply step_flags; eauto|eapply step_WInv; eauto].
    + eapply IH; eauto.
Qed.

(* ------------------------------------------------------------------ *)
(* ownership: a running Send whose message sits in the slot knows it    *)
(* (this is what the fix of Send across a re-open restored)             *)

Definition closed_ok (t : tracker) : Prop := t_open t = None -> t_out t = None.

Definition own_ok (t : tracker) (cl : scall) : Prop :=
  s_st cl = SRun -> forall o, t_out t = Some o -> m_seq o = m_seq (s_msg cl) -> s_txed cl = true.

Definition OwnInv (s : cstate) : Prop :=
  invM s /\ closed_ok (tk s) /\
  forall i cl, nth_error (sends s) i = Some cl -> own_ok (tk s) cl.

Lemma closed_region a t t' o : region a t t' o -> closed_ok t -> closed_ok t'.
Proof.
  unfold closed_ok. intros R C. destruct R; auto.
  - destruct r as [n|[|]|[m|]|n|n| |]; cbn [reader] in H; try discriminate.
    + unfold h_open in H. destruct (zopt_eqb (t_open t) (Some n)); inversion H; subst; auto. cbn. discriminate.
    + unfold h_close in H. inversion H; subst. auto.
    + inversion H; subst; auto.
    + unfold obind in H. destruct (check_recv (peer_key c) m) as [[]| |]; inversion H; subst. cbn. auto.
    + inversion H; subst; auto.
    + unfold h_ack in H. destruct (seq_is (t_out t) n); [destruct (t_cancel t)|]; inversion H; subst; cbn; auto.
    + unfold h_clear in H. destruct (seq_is (t_recv t) n); inversion H; subst; cbn; auto.
  - unfold h_loop in H. intros E. repeat match type of H with context [match ?x with _ => _ end] => destruct x eqn:? end; inversion H; subst; cbn in *; auto; try congruence.
  - unfold h_close in H. inversion H; subst. auto.
  - unfold h_send_iter in H. intros E. repeat match type of H with context [match ?x with _ => _ end] => destruct x eqn:? end; inversion H; subst; cbn in *; auto; try congruence.
  - unfold h_send_cancel in H. intros E. repeat match type of H with context [match ?x with _ => _ end] => destruct x eqn:? end; inversion H; subst; cbn in *; auto; try congruence.
  - unfold h_recv_iter in H. intros E. repeat match type of H with context [match ?x with _ => _ end] => destruct x eqn:? end; inversion H; subst; cbn in *; auto; try congruence.
Qed.

Lemma own_ok_weaken t t' cl : own_ok t cl -> (t_out t' = t_out t \/ t_out t' = None) -> own_ok t' cl.
Proof. intros O [E|E] Hs o Ho; rewrite E in Ho; [eauto|discriminate]. Qed.

Lemma nth_error_upd {A} i j (x : A) l :
  nth_error (upd_nth i x l) j = if Nat.eqb i j then (match nth_error l i with Some _ => Some x | None => None end) else nth_error l j.
Proof.
  revert i j; induction l as [|y l IH]; intros i j.
  - destruct i, j; cbn; try reflexivity; destruct (Nat.eqb i j); reflexivity.
  - destruct i, j; cbn; auto.
Qed.

(* what a step does to the send slot and to the Send calls *)
Lemma out_region a t t' o :
  region a t t' o ->
  t_out t' = t_out t \/ t_out t' = None \/
  (exists i cl b cl', a = ASendIter i /\ h_send_iter t cl = (t', b, cl') /\ t_out t = None /\ t_out t' = Some (s_msg cl)).
Proof.
  intros R. destruct R; auto.
  - destruct (out_reader _ _ _ _ _ H); auto.
  - destruct (out_loop _ _ _ H) as [[E|E] _]; auto.
  - unfold h_close in H. inversion H; subst; auto.
  - pose proof H as H'. unfold h_send_iter in H'.
    repeat match type of H' with context [match ?x with _ => _ end] => destruct x eqn:? end;
      inversion H'; subst; cbn; auto.
    all: right; right; exists i, cl; eexists; eexists; repeat split; eauto.
  - destruct (out_send_cancel _ _ _ _ H); auto.
  - left. eapply out_recv_iter; eauto.
Qed.

Lemma send_iter_own t cl t' b cl' :
  closed_ok t -> s_st cl = SRun -> own_ok t cl -> h_send_iter t cl = (t', b, cl') -> own_ok t' cl'.
Proof.
  intros C Hrun O E Hs o Ho Hq. unfold h_send_iter in E.
  repeat match type of E with context [match ?x with _ => _ end] => destruct x eqn:? end;
    inversion E; subst; clear E; cbn in *; auto; try discriminate.
  all: try (rewrite (C eq_refl) in Ho; discriminate).
  all: try congruence.
  all: try (inversion Ho; subst;
            repeat match goal with Hx : context [seq_is (Some ?m) _] |- _ => unfold seq_is in Hx end;
            rewrite ?Hq, ?Z.eqb_refl in *; cbn in *;
            rewrite ?andb_true_r, ?andb_false_r in *; cbn in *; try discriminate).
  all: try (destruct (s_txed cl); cbn in *; try discriminate; auto; fail).
  all: rewrite ?Ho in *; cbn in *; unfold seq_is in *; rewrite ?Hq, ?Z.eqb_refl in *; cbn in *;
       rewrite ?andb_true_r, ?andb_false_r in *; cbn in *; try discriminate.
  all: try (pose proof (O Hrun _ eq_refl Hq) as Ht; rewrite Ht in *; cbn in *; try discriminate).
  all: repeat match goal with Hx : Some _ = Some _ |- _ => inversion Hx; subst; clear Hx end.
  all: pose proof (O Hrun _ Ho Hq) as Ht; rewrite ?Ht, ?Hq, ?Z.eqb_refl in *; cbn in *; try discriminate; try congruence.
  all: match goal with Hc : t_open _ = None |- _ => rewrite (C Hc) in Ho; discriminate end.
Qed.

Definition own_all (t : tracker) (l : list scall) : Prop :=
  forall i cl, nth_error l i = Some cl -> own_ok t cl.

Lemma own_all_wake t l : own_all t l -> own_all t (map wake_s l).
Proof.
  intros O i cl Hn. rewrite nth_error_map in Hn. destruct (nth_error l i) as [c0|] eqn:E; inversion Hn; subst.
  intros Hs o Ho Hq. cbn in *. eapply (O i c0 E); eauto.
Qed.

Lemma own_all_bif t b s0 : own_all t (sends s0) -> own_all t (sends (bcast_if b s0)).
Proof. destruct b; cbn; auto. apply own_all_wake. Qed.

Lemma own_all_weaken t t' l : own_all t l -> (t_out t' = t_out t \/ t_out t' = None) -> own_all t' l.
Proof. intros O E i cl Hn. eapply own_ok_weaken; eauto. Qed.

Lemma own_all_upd t i x l : own_all t l -> own_ok t x -> own_all t (upd_nth i x l).
Proof.
  intros O Ox j cl Hn. rewrite nth_error_upd in Hn. destruct (Nat.eqb i j).
  - destruct (nth_error l i); inversion Hn; subst; auto.
  - eauto.
Qed.

Lemma out_bif_quiet c r t t' b : reader c r t = Ok (t', b) -> t_out t' = t_out t \/ t_out t' = None.
Proof. apply out_reader. Qed.

Lemma step_OwnInv c s a s' o : OwnInv s -> step c s a = Some (s', o) -> OwnInv s'.
Proof.
  intros (IM & CL & OW) St. fold (own_all (tk s) (sends s)) in OW.
  destruct (step_invM _ _ _ _ _ St IM) as (IM' & _ & _).
  pose proof (closed_region _ _ _ _ (step_region _ _ _ _ _ St) CL) as CL'.
  split; [exact IM'|split; [exact CL'|]]. fold (own_all (tk s') (sends s')). clear IM' CL'.
  destruct a; cbn [step] in St.
  - destruct (conn s); inversion St; subst; exact OW.
  - destruct (conn s) as [cn|]; [|discriminate]. destruct (c_rerr cn); [discriminate|].
    destruct (reader c r (tk s)) as [[t' b]|k|] eqn:ER; [| |discriminate]; inversion St; subst; [|exact OW].
    rewrite tk_bcast_if'. cbn [tk set_tk]. apply own_all_bif. cbn [sends set_tk].
    eapply own_all_weaken; eauto. eapply out_reader; eauto.
  - destruct (conn s) as [cn|]; [|discriminate]. destruct (runnable (c_w cn)); [|discriminate].
    destruct (h_loop (tk s)) as [t' la] eqn:E. destruct (out_loop _ _ _ E) as [Ho _].
    destruct la; inversion St; subst; cbn [tk sends set_conn bcast set_tk]; auto;
      apply own_all_wake; eapply own_all_weaken; eauto.
  - destruct (conn s) as [cn|]; [|discriminate]. destruct (c_rerr cn); [|discriminate].
    destruct (blocked (c_w cn)); [|discriminate]. unfold conn_end in St.
    destruct (h_close (tk s)) as [t' b] eqn:E. inversion St; subst. cbn [tk sends set_conn].
    rewrite tk_bcast_if'. cbn [tk set_tk]. apply own_all_bif. cbn [sends set_tk].
    eapply own_all_weaken; eauto. right. unfold h_close in E. inversion E; reflexivity.
  - destruct (conn s) as [cn|]; [|discriminate]. unfold conn_end in St.
    destruct (h_close (tk s)) as [t' b] eqn:E. inversion St; subst. cbn [tk sends set_conn].
    rewrite tk_bcast_if'. cbn [tk set_tk]. apply own_all_bif. cbn [sends set_tk].
    eapply own_all_weaken; eauto. right. unfold h_close in E. inversion E; reflexivity.
  - (* ASendStart: the new message has a fresh sequence number *)
    destruct IM as (U & N & O).
    assert (G : forall st, own_all (tk s) (sends s ++ [mkS (sign_msg (self_key c) body (nonce s + 1)) false None WReady st])).
    { intros st i cl Hn. destruct (Nat.lt_ge_cases i (length (sends s))) as [Hl|Hl].
      - rewrite nth_error_app1 in Hn by exact Hl. eauto.
      - rewrite nth_error_app2 in Hn by exact Hl.
        destruct (i - length (sends s))%nat as [|k]; cbn in Hn; [|destruct k; discriminate].
        inversion Hn; subst. intros _ o0 Ho Hq. exfalso. cbn in Hq.
        apply O in Ho. apply In_nth_error in Ho as [j Hj]. pose proof (U _ _ Hj) as Hs.
        assert (j < length (msgs s))%nat by (apply nth_error_Some; congruence).
        unfold msgs in H. rewrite map_length in H. lia. }
    destruct body; inversion St; subst; cbn [tk sends]; apply G.
  - destruct (nth_error (sends s) i) as [cl|] eqn:En; [|discriminate].
    destruct (s_st cl) eqn:Est; try discriminate. destruct (runnable (s_w cl)); [|discriminate].
    destruct (h_send_iter (tk s) cl) as [[t' b] cl'] eqn:E. inversion St; subst.
    cbn [tk sends set_send]. rewrite tk_bcast_if'. cbn [tk set_tk].
    assert (Own' : own_ok t' cl') by (eapply send_iter_own; eauto).
    destruct (out_send_iter _ _ _ _ _ E) as [_ Hout].
    destruct Hout as [Ho|[Ho|Ho]].
    + apply own_all_upd; auto. apply own_all_bif. cbn [sends set_tk]. eapply own_all_weaken; eauto.
    + apply own_all_upd; auto. apply own_all_bif. cbn [sends set_tk]. eapply own_all_weaken; eauto.
    + (* placed its message: nobody else has this sequence number *)
      destruct IM as (U & N & O).
      intros j c2 Hn. rewrite nth_error_upd in Hn. destruct (Nat.eqb i j) eqn:Eij.
      * destruct (nth_error (sends (bcast_if b (set_tk t' s))) i); inversion Hn; subst; auto.
      * assert (Hj : exists c0, nth_error (sends s) j = Some c0 /\ s_msg c2 = s_msg c0).
        { destruct b; cbn in Hn.
          - rewrite nth_error_map in Hn. destruct (nth_error (sends s) j) as [c0|]; inversion Hn; subst. eauto.
          - eauto. }
        destruct Hj as (c0 & Hc0 & Hm). intros _ o0 Ho0 Hq. exfalso.
        rewrite Ho in Ho0. inversion Ho0; subst o0. rewrite Hm in Hq.
        assert (H1 : nth_error (msgs s) i = Some (s_msg cl)) by (unfold msgs; rewrite nth_error_map, En; reflexivity).
        assert (H2 : nth_error (msgs s) j = Some (s_msg c0)) by (unfold msgs; rewrite nth_error_map, Hc0; reflexivity).
        pose proof (U _ _ H1). pose proof (U _ _ H2). apply Nat.eqb_neq in Eij. lia.
  - destruct (nth_error (sends s) i) as [cl|] eqn:En; [|discriminate].
    destruct (s_st cl); try discriminate. destruct (blocked (s_w cl)); [|discriminate].
    destruct (h_send_cancel (tk s) cl) as [t' b] eqn:E. inversion St; subst.
    cbn [tk sends set_send]. rewrite tk_bcast_if'. cbn [tk set_tk].
    apply own_all_upd; [|intros Hs; discriminate].
    apply own_all_bif. cbn [sends set_tk]. eapply own_all_weaken; eauto. eapply out_send_cancel; eauto.
  - inversion St; subst; exact OW.
  - destruct (nth_error (recvs s) j) as [cl|]; [|discriminate].
    destruct (r_st cl); try discriminate. destruct (runnable (r_w cl)); [|discriminate].
    destruct (h_recv_iter (tk s)) as [t' [m|]] eqn:E; inversion St; subst; [|exact OW].
    cbn [tk sends set_recv bcast set_tk]. apply own_all_wake. eapply own_all_weaken; eauto.
    left. eapply out_recv_iter; eauto.
  - destruct (nth_error (recvs s) j) as [cl|]; [|discriminate].
    destruct (r_st cl); try discriminate. destruct (blocked (r_w cl)); [|discriminate].
    inversion St; subst; exact OW.
Qed.

Lemma OwnInv_init : OwnInv c_init.
Proof. split; [apply invM_init|split; [intros _; reflexivity|]]. intros [|i] cl H; discriminate. Qed.

Lemma run_OwnInv c acts : forall s s' tr, OwnInv s -> run c s acts = (s', tr) -> OwnInv s'.
Proof.
  induction acts as [|a acts IH]; intros s s' tr I R; cbn [run] in R.
  - inversion R; subst; auto.
  - destruct (exec c s a) as [s1 o1] eqn:E1. destruct (run c s1 acts) as [s2 o2] eqn:E2. inversion R; subst.
    unfold exec in E1. destruct (step c s a) as [[sx ox]|] eqn:Es; inversion E1; subst.
    + eapply IH; [|exact E2]. eapply step_OwnInv; eauto.
    + eapply IH; eauto.
Qed.

(* ------------------------------------------------------------------ *)
(* quiescence                                                          *)

Lemma first_enabled_none c s l : first_enabled c s l = None -> forall a, In a l -> step c s a = None.
Proof.
  induction l as [|x l IH]; cbn; intros H a Hi; [destruct Hi|].
  destruct (step c s x) eqn:E; [discriminate|]. destruct Hi as [->|Hi]; auto.
Qed.

Lemma send_wait_owner t cl e o :
  t_open t = Some e -> t_out t = Some o -> m_seq o = m_seq (s_msg cl) -> s_txed cl = true ->
  h_send_iter t cl = (t, false, cl) ->
  t_acked t = false /\ s_sess cl = Some e.
Proof.
  intros Eo Ho Hq Ht. destruct cl as [msg txed sess w st]. unfold h_send_iter. cbn in *. subst txed. rewrite Eo, Ho. cbn.
  unfold seq_is. rewrite Hq, Z.eqb_refl. cbn.
  destruct (zopt_eqb sess (Some e)) eqn:Ez; cbn; destruct (t_acked t) eqn:Ea; cbn;
    intros H; inversion H; subst; repeat split; auto;
    try (unfold zopt_eqb, option_eqb in Ez; destruct sess; try discriminate; apply Z.eqb_eq in Ez; congruence).
Qed.

Lemma send_wait_slot t cl e :
  t_open t = Some e -> t_out t = None -> h_send_iter t cl = (t, false, cl) -> False.
Proof.
  intros Eo Ho. unfold h_send_iter. rewrite Eo, Ho. cbn. rewrite !andb_false_r. cbn.
  destruct (negb (zopt_eqb (s_sess cl) (Some e))); cbn; rewrite ?andb_false_r; cbn; intros H; inversion H.
Qed.

Theorem client_quiescent_sends : forall c acts s tr cn e,
  run c c_init acts = (s, tr) ->
  quiescent c s = true -> conn s = Some cn -> t_open (tk s) = Some e ->
  (* the loop has nothing to transmit *)
  snd (h_loop (tk s)) = LNone /\
  (* every pending Send *)
  (forall i cl, nth_error (sends s) i = Some cl -> s_st cl = SRun ->
     exists o, t_out (tk s) = Some o /\ t_sent (tk s) = true /\ t_cancel (tk s) = false /\
               (* if it is this Send's own message, the Send knows it and the ack is outstanding *)
               (m_seq o = m_seq (s_msg cl) -> t_acked (tk s) = false /\ s_txed cl = true /\ s_sess cl = Some e)) /\
  (* a pending Recv means there is nothing to hand over *)
  (forall j cl, nth_error (recvs s) j = Some cl -> r_st cl = RRun ->
     t_recv (tk s) = None) /\
  (* nothing received is waiting for an acknowledgement to be written *)
  (forall r, t_recv (tk s) = Some r -> t_proc (tk s) = false).
Proof.
  intros c acts s tr cn e R Q Ec Eo.
  assert (Fl : flags_inv (tk s)) by (eapply run_flags; [apply flags_init|exact R]).
  assert (W : WInv s) by (eapply run_WInv; [apply flags_init|apply WInv_init|exact R]).
  destruct W as (Ws & Wr & Wc).
  assert (OI : OwnInv s) by (eapply run_OwnInv; [apply OwnInv_init|exact R]).
  destruct OI as (_ & _ & OW).
  unfold quiescent in Q. destruct (first_enabled c s (internal_candidates s)) eqn:Ef; [discriminate|].
  pose proof (first_enabled_none _ _ _ Ef) as Hn. clear Q Ef.
  (* the loop waits *)
  assert (Hloop : snd (h_loop (tk s)) = LNone).
  { apply (Wc cn Ec). specialize (Hn ALoop). cbn [step] in Hn. rewrite Ec in Hn.
    assert (Hi : In ALoop (internal_candidates s)) by (unfold internal_candidates; cbn; auto).
    specialize (Hn Hi). destruct (c_w cn); cbn in Hn; auto;
      destruct (h_loop (tk s)) as [t' la]; destruct la; discriminate. }
  assert (Hlp : forall o, t_out (tk s) = Some o -> t_cancel (tk s) = false /\ t_sent (tk s) = true).
  { intros o Ho. unfold h_loop in Hloop. rewrite Eo, Ho in Hloop.
    destruct (t_cancel (tk s)); [discriminate|]. destruct (t_sent (tk s)); cbn in Hloop; [auto|discriminate]. }
  assert (Hpr : forall r, t_recv (tk s) = Some r -> t_proc (tk s) = false).
  { intros r Hr. unfold h_loop in Hloop. rewrite Eo, Hr in Hloop.
    destruct (t_proc (tk s)) eqn:Ep; auto. exfalso.
    destruct (t_out (tk s)); [destruct (t_cancel (tk s)); [discriminate|]; destruct (negb (t_sent (tk s))); discriminate|discriminate]. }
  split; [exact Hloop|]. split; [|split; [|exact Hpr]].
  - intros i cl En Hs.
    assert (Hi : In (ASendIter i) (internal_candidates s)).
    { unfold internal_candidates. apply in_or_app. right. apply in_or_app. left.
      apply in_map. apply in_seq. split; [lia|]. cbn. apply nth_error_Some. congruence. }
    specialize (Hn _ Hi). cbn [step] in Hn. rewrite En, Hs in Hn.
    assert (Hw : s_w cl = WWait).
    { destruct (s_w cl); cbn in Hn; auto; destruct (h_send_iter (tk s) cl) as [[? ?] ?]; discriminate. }
    rewrite Forall_forall in Ws. pose proof (Ws cl (nth_error_In _ _ En) Hs Hw) as Hst.
    destruct (t_out (tk s)) as [o|] eqn:Ho.
    + exists o. destruct (Hlp o eq_refl) as [Hc Hse].
      split; [reflexivity|]. split; [exact Hse|]. split; [exact Hc|]. intros Hq.
      pose proof (OW i cl En Hs o Ho Hq) as Ht.
      destruct (send_wait_owner _ _ _ _ Eo Ho Hq Ht Hst) as (A1 & A3). auto.
    + exfalso. eapply send_wait_slot; eauto.
  - intros j cl En Hs.
    assert (Hi : In (ARecvIter j) (internal_candidates s)).
    { unfold internal_candidates. apply in_or_app. right. apply in_or_app. right.
      apply in_map. apply in_seq. split; [lia|]. cbn. apply nth_error_Some. congruence. }
    specialize (Hn _ Hi). cbn [step] in Hn. rewrite En, Hs in Hn.
    assert (Hw : r_w cl = WWait).
    { destruct (r_w cl); cbn in Hn; auto; destruct (h_recv_iter (tk s)) as [? [?|]]; discriminate. }
    rewrite Forall_forall in Wr. pose proof (Wr cl (nth_error_In _ _ En) Hs Hw) as Hst.
    unfold h_recv_iter in Hst. destruct (t_recv (tk s)) as [r|] eqn:Hr; auto.
    rewrite (Hpr r eq_refl) in Hst. discriminate.
Qed.
