(* Relay part of the stable-suffix measure of C23: the relay's own actions
   (request handler RReq, write-loop pass RLoop) strictly decrease a
   lexicographic measure of the relay state and of its request queues; they
   never touch a client (except that a rejected request ends that stream). *)
From Bifrost Require Import Lib.Base SignalClient.Model SignalClient.Compose SignalClient.ProofsProgress
  SignalClient.ProofsE2E.

Definition lt3 (a b : nat * nat * nat) : Prop :=
  let '(a1, a2, a3) := a in let '(b1, b2, b3) := b in
  (a1 < b1 \/ (a1 = b1 /\ (a2 < b2 \/ (a2 = b2 /\ a3 < b3))))%nat.

Lemma lt3_wf : well_founded lt3.
Proof.
  intros [[a b] c]. revert b c.
  induction a as [a IHa] using lt_wf_ind. intros b.
  induction b as [b IHb] using lt_wf_ind. intros c.
  induction c as [c IHc] using lt_wf_ind.
  constructor. intros [[a' b'] c'] Hlt. cbn in Hlt.
  destruct Hlt as [H|[-> [H|[-> H]]]]; auto.
Qed.

Definition osome {A} (o : option A) : nat := match o with Some _ => 1%nat | None => 0%nat end.

Definition box_count (b : mbox) : nat := (osome (b_recv b) + osome (b_clear b) + osome (b_acked b))%nat.

Definition call_box (s : side) : nat := match s_call s with Some c => box_count (rc_box c) | None => 0%nat end.
Definition call_run (s : side) : nat := match s_call s with Some c => b2n (runnable (rc_w c)) | None => 0%nat end.

(* (queued requests, mailbox contents, runnable write loops) *)
Definition muR (w : world) : nat * nat * nat :=
  ((length (s_cq (w_a w)) + length (s_cq (w_b w)))%nat,
   (call_box (w_a w) + call_box (w_b w))%nat,
   (call_run (w_a w) + call_run (w_b w))%nat).

Lemma cq_total x w : (length (s_cq (w_a w)) + length (s_cq (w_b w)) =
                      length (s_cq (gs x w)) + length (s_cq (gs (negb x) w)))%nat.
Proof. destruct x; cbn; lia. Qed.

Theorem relay_req_decreases : forall x w w' o,
  wstep w (RReq x) = Some (w', o) -> lt3 (muR w') (muR w).
Proof.
  intros x w w' o St. cbn [wstep] in St.
  destruct (s_call (gs x w)) as [c|]; [|discriminate].
  destruct (s_cq (gs x w)) as [|r rest] eqn:Eq; [discriminate|].
  destruct (rc_linked c); [|discriminate].
  set (w1 := ss x (set_cq rest (gs x w)) w) in *.
  assert (L1 : (length (s_cq (gs x w1)) = length rest /\ s_cq (gs (negb x) w1) = s_cq (gs (negb x) w))).
  { unfold w1. rewrite gs_ss_same, gs_ss_other'. cbn. auto. }
  destruct L1 as [La Lb].
  assert (G : forall w2, (length (s_cq (gs x w2)) <= length rest)%nat -> s_cq (gs (negb x) w2) = s_cq (gs (negb x) w) ->
              lt3 (muR w2) (muR w)).
  { intros w2 H1 H2. unfold muR, lt3. rewrite (cq_total x w2), (cq_total x w), H2, Eq. cbn [length]. left. lia. }
  destruct (relay_req x r w1) as [|w2] eqn:Er.
  - destruct (step (cfg_of x) (s_cl (gs x w1)) (AResp PFail)) as [[c' oc]|]; inversion St; subst; apply G.
    + rewrite gs_ss_same. cbn. lia.
    + rewrite gs_ss_other'. exact Lb.
    + rewrite gs_ss_same. cbn. lia.
    + rewrite gs_ss_other'. exact Lb.
  - inversion St; subst. destruct (relay_req_frame _ _ _ _ Er) as [_ F].
    destruct (F x) as (_ & F2 & _). destruct (F (negb x)) as (_ & F3 & _). apply G.
    + rewrite F2, La. lia.
    + rewrite F3. exact Lb.
Qed.

Theorem relay_loop_decreases : forall x w w' o,
  wstep w (RLoop x) = Some (w', o) ->
  lt3 (muR w') (muR w) /\ (forall z, s_cl (gs z w') = s_cl (gs z w)) /\ o = [].
Proof.
  intros x w w' o St. cbn [wstep] in St.
  destruct (s_call (gs x w)) as [c|] eqn:Ec; [|discriminate].
  destruct (runnable (rc_w c)) eqn:Er; [|discriminate].
  assert (K : forall z : bool, s_cl (gs z w') = s_cl (gs z w) /\ o = []).
  { intros z. destruct (s_call (gs (negb x) w)); cbn in St; [destruct (b_recv (rc_box c))|];
      inversion St; subst; split; auto; destruct x, z; reflexivity. }
  split; [|split; [intros z; apply (K z)|apply (K true)]]. clear K.
  destruct w as [sa sb ep]. unfold muR, lt3, call_box, call_run.
  destruct x; cbn in *; rewrite ?Ec in *.
  - destruct (s_call sb) as [pc|] eqn:Ep; cbn in *.
    + destruct (b_recv (rc_box c)) eqn:Eb; inversion St; subst; cbn; rewrite ?Ep; cbn;
        unfold box_count; cbn; rewrite ?Eb, ?Er; cbn.
      * right. split; [lia|]. left. lia.
      * destruct (b_clear (rc_box c)), (b_acked (rc_box c)); cbn; right; (split; [lia|]);
          first [left; lia|right; split; [lia|lia]].
    + inversion St; subst; cbn. rewrite ?Ep, ?Er; cbn. right. split; [lia|]. right. split; [lia|lia].
  - destruct (s_call sa) as [pc|] eqn:Ep; cbn in *.
    + destruct (b_recv (rc_box c)) eqn:Eb; inversion St; subst; cbn; rewrite ?Ep; cbn;
        unfold box_count; cbn; rewrite ?Eb, ?Er; cbn.
      * right. split; [lia|]. left. lia.
      * destruct (b_clear (rc_box c)), (b_acked (rc_box c)); cbn; right; (split; [lia|]);
          first [left; lia|right; split; [lia|lia]].
    + inversion St; subst; cbn. rewrite ?Ep, ?Er; cbn. right. split; [lia|]. right. split; [lia|lia].
Qed.
