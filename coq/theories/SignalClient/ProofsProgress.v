(* Client half of C23: on a stable suffix (no relay response, no application
   call, no restart) every enabled internal action of the client strictly
   decreases a well-founded measure, so the client always comes to rest. *)
From Bifrost Require Import Lib.Base SignalClient.Model SignalClient.Proofs.

(* ------------------------------------------------------------------ *)
(* lexicographic order on nat^4                                        *)

Definition lt4 (a b : nat * nat * nat * nat) : Prop :=
  let '(a1, a2, a3, a4) := a in
  let '(b1, b2, b3, b4) := b in
  (a1 < b1 \/ (a1 = b1 /\ (a2 < b2 \/ (a2 = b2 /\ (a3 < b3 \/ (a3 = b3 /\ a4 < b4))))))%nat.

Lemma lt4_wf : well_founded lt4.
Proof.
  intros [[[a b] c] d]. revert b c d.
  induction a as [a IHa] using lt_wf_ind. intros b.
  induction b as [b IHb] using lt_wf_ind. intros c.
  induction c as [c IHc] using lt_wf_ind. intros d.
  induction d as [d IHd] using lt_wf_ind.
  constructor. intros [[[a' b'] c'] d'] Hlt. cbn in Hlt.
  destruct Hlt as [H|[-> [H|[-> [H|[-> H]]]]]]; auto.
Qed.

(* ------------------------------------------------------------------ *)
(* the measure                                                         *)

Definition internal (a : action) : bool :=
  match a with ALoop | ALoopErr | ASendIter _ | ARecvIter _ => true | _ => false end.

Definition b2n (b : bool) : nat := if b then 1%nat else 0%nat.

Fixpoint count {A} (f : A -> bool) (l : list A) : nat :=
  match l with [] => 0%nat | x :: l' => (b2n (f x) + count f l')%nat end.

Definition s_running (cl : scall) : bool := match s_st cl with SRun => true | _ => false end.
Definition r_running (cl : rcall) : bool := match r_st cl with RRun => true | _ => false end.
Definition s_ready (cl : scall) : bool := s_running cl && runnable (s_w cl).
Definition r_ready (cl : rcall) : bool := r_running cl && runnable (r_w cl).

(* how far the tracker is from having nothing left to transmit *)
Definition out_part (t : tracker) : nat :=
  match t_out t with
  | None => 2
  | Some _ => if t_cancel t then 3 else if t_sent t then 0 else 1
  end%nat.
Definition recv_part (t : tracker) : nat :=
  match t_recv t with Some _ => b2n (t_proc t) | None => 0%nat end.

Definition mu (s : cstate) : nat * nat * nat * nat :=
  (match conn s with Some _ => 1 | None => 0 end,
   count s_running (sends s) + count r_running (recvs s),
   out_part (tk s) + recv_part (tk s),
   count s_ready (sends s) + count r_ready (recvs s) +
   match conn s with Some cn => b2n (runnable (c_w cn)) | None => 0 end)%nat.

(* flags of the send slot are only meaningful while a message is pending *)
Definition flags_inv (t : tracker) : Prop :=
  (t_out t = None -> t_sent t = false /\ t_acked t = false /\ t_cancel t = false) /\
  (t_acked t = true -> t_cancel t = false).

(* ------------------------------------------------------------------ *)
(* flags_inv is an invariant of every step                             *)

Ltac crush :=
  cbn in *;
  repeat match goal with
         | |- context [match ?x with _ => _ end] => destruct x eqn:?; cbn in *
         | H : context [match ?x with _ => _ end] |- _ => destruct x eqn:?; cbn in *
         end; try congruence; auto.

Ltac useA A :=
  first [ destruct (A eq_refl) as (?A1 & ?A2 & ?A3)
        | match goal with H : t_out _ = None |- _ => destruct (A H) as (?A1 & ?A2 & ?A3) end ].

Ltac fl I :=
  unfold flags_inv in *; destruct I as [A B]; crush;
  try (split; intros; try congruence; auto);
  try (useA A; repeat split; congruence);
  try (repeat split; congruence);
  try (match goal with H : t_out _ = None |- _ => rewrite H in *; cbn in *; congruence end).

Lemma flags_close t : flags_inv t -> flags_inv (fst (h_close t)).
Proof. intros I. unfold h_close. fl I. Qed.
Lemma flags_open n t : flags_inv t -> flags_inv (fst (h_open n t)).
Proof. intros I. unfold h_open. fl I. Qed.
Lemma flags_recv m t : flags_inv t -> flags_inv (fst (h_recv m t)).
Proof. intros I. unfold h_recv. fl I. Qed.
Lemma flags_clear n t : flags_inv t -> flags_inv (fst (h_clear n t)).
Proof. intros I. unfold h_clear. fl I. Qed.
Lemma flags_ack n t : flags_inv t -> flags_inv (fst (h_ack n t)).
Proof. intros I. unfold h_ack. fl I. Qed.
Lemma flags_loop t : flags_inv t -> flags_inv (fst (h_loop t)).
Proof. intros I. unfold h_loop. fl I. Qed.
Lemma flags_send_iter t cl : flags_inv t -> flags_inv (fst (fst (h_send_iter t cl))).
Proof. intros I. unfold h_send_iter. fl I. Qed.
Lemma flags_send_cancel t cl : flags_inv t -> flags_inv (fst (h_send_cancel t cl)).
Proof. intros I. unfold h_send_cancel. fl I. Qed.
Lemma flags_recv_iter t : flags_inv t -> flags_inv (fst (h_recv_iter t)).
Proof. intros I. unfold h_recv_iter. fl I. Qed.
