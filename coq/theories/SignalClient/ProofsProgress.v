(* Client half of C23: on a stable suffix (no relay response, no application
   call, no restart) every enabled internal action of the client strictly
   decreases a well-founded measure, so the client always comes to rest. *)
From Bifrost Require Import Lib.Base SignalClient.Model SignalClient.Proofs.

(* ------------------------------------------------------------------ *)
(* lexicographic order on nat^4                                        *)

Definition lt4 (a b : nat * nat * nat * nat) : Prop :=
  let '(a1, a2, a3, a4) := a in
  let '(b1, b2, b3, b4) := b in
  (a1 < b1 \/ (a1 = b1 /\ (a2 < b2 \/ (a2 = b2 /\ (a3 < b3 \/ (a3 = b3 /\ a4 < b4))))))%nat.

Lemma lt4_wf : well_founded lt4.
Proof.
  intros [[[a b] c] d]. revert b c d.
  induction a as [a IHa] using lt_wf_ind. intros b.
  induction b as [b IHb] using lt_wf_ind. intros c.
  induction c as [c IHc] using lt_wf_ind. intros d.
  induction d as [d IHd] using lt_wf_ind.
  constructor. intros [[[a' b'] c'] d'] Hlt. cbn in Hlt.
  destruct Hlt as [H|[-> [H|[-> [H|[-> H]]]]]]; auto.
Qed.

(* ------------------------------------------------------------------ *)
(* the measure                                                         *)

Definition internal (a : action) : bool :=
  match a with ALoop | ALoopErr | ASendIter _ | ARecvIter _ => true | _ => false end.

Definition b2n (b : bool) : nat := if b then 1%nat else 0%nat.

Fixpoint count {A} (f : A -> bool) (l : list A) : nat :=
  match l with [] => 0%nat | x :: l' => (b2n (f x) + count f l')%nat end.

Definition s_running (cl : scall) : bool := match s_st cl with SRun => true | _ => false end.
Definition r_running (cl : rcall) : bool := match r_st cl with RRun => true | _ => false end.
Definition s_ready (cl : scall) : bool := s_running cl && runnable (s_w cl).
Definition r_ready (cl : rcall) : bool := r_running cl && runnable (r_w cl).

(* how far the tracker is from having nothing left to transmit *)
Definition out_part (t : tracker) : nat :=
  match t_out t with
  | None => 2
  | Some _ => if t_cancel t then 3 else if t_sent t then 0 else 1
  end%nat.
Definition recv_part (t : tracker) : nat :=
  match t_recv t with Some _ => b2n (t_proc t) | None => 0%nat end.

Definition mu (s : cstate) : nat * nat * nat * nat :=
  (match conn s with Some _ => 1 | None => 0 end,
   count s_running (sends s) + count r_running (recvs s),
   out_part (tk s) + recv_part (tk s),
   count s_ready (sends s) + count r_ready (recvs s) +
   match conn s with Some cn => b2n (runnable (c_w cn)) | None => 0 end)%nat.

(* flags of the send slot are only meaningful while a message is pending *)
Definition flags_inv (t : tracker) : Prop :=
  (t_out t = None -> t_sent t = false /\ t_acked t = false /\ t_cancel t = false) /\
  (t_acked t = true -> t_cancel t = false).

(* ------------------------------------------------------------------ *)
(* flags_inv is an invariant of every step                             *)

Ltac crush :=
  cbn in *;
  repeat match goal with
         | |- context [match ?x with _ => _ end] => destruct x eqn:?; cbn in *
         | H : context [match ?x with _ => _ end] |- _ => destruct x eqn:?; cbn in *
         end; try congruence; auto.

Ltac useA A :=
  first [ destruct (A eq_refl) as (?A1 & ?A2 & ?A3)
        | match goal with H : t_out _ = None |- _ => destruct (A H) as (?A1 & ?A2 & ?A3) end ].

Ltac fl I :=
  unfold flags_inv in *; destruct I as [A B]; crush;
  try (split; intros; try congruence; auto);
  try (useA A; repeat split; congruence);
  try (repeat split; congruence);
  try (match goal with H : t_out _ = None |- _ => rewrite H in *; cbn in *; congruence end);
  try (match goal with t : tracker |- _ =>
         destruct (t_sent t) eqn:?, (t_acked t) eqn:?, (t_cancel t) eqn:?; cbn in *; intuition congruence end).

Lemma flags_close t : flags_inv t -> flags_inv (fst (h_close t)).
Proof. intros I. unfold h_close. fl I. Qed.
Lemma flags_open n t : flags_inv t -> flags_inv (fst (h_open n t)).
Proof. intros I. unfold h_open. fl I. Qed.
Lemma flags_recv m t : flags_inv t -> flags_inv (fst (h_recv m t)).
Proof. intros I. unfold h_recv. fl I. Qed.
Lemma flags_clear n t : flags_inv t -> flags_inv (fst (h_clear n t)).
Proof. intros I. unfold h_clear. fl I. Qed.
Lemma flags_ack n t : flags_inv t -> flags_inv (fst (h_ack n t)).
Proof. intros I. unfold h_ack. fl I. Qed.
Lemma flags_loop t : flags_inv t -> flags_inv (fst (h_loop t)).
Proof. intros I. unfold h_loop. fl I. Qed.
Lemma flags_send_iter t cl : flags_inv t -> flags_inv (fst (fst (h_send_iter t cl))).
Proof. intros I. unfold h_send_iter. fl I. Qed.
Lemma flags_send_cancel t cl : flags_inv t -> flags_inv (fst (h_send_cancel t cl)).
Proof. intros I. unfold h_send_cancel. fl I. Qed.
Lemma flags_recv_iter t : flags_inv t -> flags_inv (fst (h_recv_iter t)).
Proof. intros I. unfold h_recv_iter. fl I. Qed.

(* ------------------------------------------------------------------ *)
(* projections through the state updaters                              *)

Lemma tk_bcast s : tk (bcast s) = tk s. Proof. reflexivity. Qed.
Lemma tk_bcast_if' b s : tk (bcast_if b s) = tk s. Proof. destruct b; reflexivity. Qed.

Lemma step_flags c s a s' o : flags_inv (tk s) -> step c s a = Some (s', o) -> flags_inv (tk s').
Proof.
  intros I St. destruct a; cbn [step] in St.
  - destruct (conn s); inversion St; subst; exact I.
  - destruct (conn s) as [cn|]; [|discriminate]. destruct (c_rerr cn); [discriminate|].
    destruct (reader c r (tk s)) as [[t' b]|k|] eqn:ER; [| |discriminate].
    2:{ inversion St; subst. exact I. }
    inversion St; subst. rewrite tk_bcast_if'. cbn [tk set_tk].
    destruct r as [n|[|]|[m|]|n|n| |]; cbn [reader] in ER; try discriminate.
    + injection ER as ER. replace t' with (fst (h_open n (tk s))) by (rewrite ER; reflexivity). apply flags_open, I.
    + injection ER as ER. replace t' with (fst (h_close (tk s))) by (rewrite ER; reflexivity). apply flags_close, I.
    + inversion ER; subst. exact I.
    + unfold obind in ER. destruct (check_recv (peer_key c) m) as [[]| |]; inversion ER; subst.
      apply (flags_recv m), I.
    + inversion ER; subst. exact I.
    + injection ER as ER. replace t' with (fst (h_ack n (tk s))) by (rewrite ER; reflexivity). apply flags_ack, I.
    + injection ER as ER. replace t' with (fst (h_clear n (tk s))) by (rewrite ER; reflexivity). apply flags_clear, I.
  - destruct (conn s) as [cn|]; [|discriminate]. destruct (runnable (c_w cn)); [|discriminate].
    destruct (h_loop (tk s)) as [t' la] eqn:E.
    assert (I' : flags_inv t') by (replace t' with (fst (h_loop (tk s))) by (rewrite E; reflexivity); apply flags_loop, I).
    destruct la; inversion St; subst; cbn [tk set_conn bcast set_tk]; auto.
  - destruct (conn s) as [cn|]; [|discriminate]. destruct (c_rerr cn); [|discriminate].
    destruct (blocked (c_w cn)); [|discriminate]. unfold conn_end in St.
    destruct (h_close (tk s)) as [t' b] eqn:E. inversion St; subst. cbn [tk set_conn]. rewrite tk_bcast_if'. cbn [tk set_tk].
    replace t' with (fst (h_close (tk s))) by (rewrite E; reflexivity). apply flags_close, I.
  - destruct (conn s) as [cn|]; [|discriminate]. unfold conn_end in St.
    destruct (h_close (tk s)) as [t' b] eqn:E. inversion St; subst. cbn [tk set_conn]. rewrite tk_bcast_if'. cbn [tk set_tk].
    replace t' with (fst (h_close (tk s))) by (rewrite E; reflexivity). apply flags_close, I.
  - destruct body; inversion St; subst; exact I.
  - destruct (nth_error (sends s) i) as [cl|]; [|discriminate].
    destruct (s_st cl); try discriminate. destruct (runnable (s_w cl)); [|discriminate].
    destruct (h_send_iter (tk s) cl) as [[t' b] cl'] eqn:E. inversion St; subst.
    cbn [tk set_send]. rewrite tk_bcast_if'. cbn [tk set_tk].
    replace t' with (fst (fst (h_send_iter (tk s) cl))) by (rewrite E; reflexivity). apply flags_send_iter, I.
  - destruct (nth_error (sends s) i) as [cl|]; [|discriminate].
    destruct (s_st cl); try discriminate. destruct (blocked (s_w cl)); [|discriminate].
    destruct (h_send_cancel (tk s) cl) as [t' b] eqn:E. inversion St; subst.
    cbn [tk set_send]. rewrite tk_bcast_if'. cbn [tk set_tk].
    replace t' with (fst (h_send_cancel (tk s) cl)) by (rewrite E; reflexivity). apply flags_send_cancel, I.
  - inversion St; subst; exact I.
  - destruct (nth_error (recvs s) j) as [cl|]; [|discriminate].
    destruct (r_st cl); try discriminate. destruct (runnable (r_w cl)); [|discriminate].
    destruct (h_recv_iter (tk s)) as [t' [m|]] eqn:E; inversion St; subst; cbn [tk set_recv bcast set_tk]; auto.
    replace t' with (fst (h_recv_iter (tk s))) by (rewrite E; reflexivity). apply flags_recv_iter, I.
  - destruct (nth_error (recvs s) j) as [cl|]; [|discriminate].
    destruct (r_st cl); try discriminate. destruct (blocked (r_w cl)); [|discriminate].
    inversion St; subst; exact I.
Qed.

Lemma flags_init : flags_inv (tk c_init).
Proof. split; cbn; auto. Qed.

Lemma run_flags c acts : forall s s' tr, flags_inv (tk s) -> run c s acts = (s', tr) -> flags_inv (tk s').
Proof.
  induction acts as [|a acts IH]; intros s s' tr I R; cbn [run] in R.
  - inversion R; subst; auto.
  - destruct (exec c s a) as [s1 o1] eqn:E1. destruct (run c s1 acts) as [s2 o2] eqn:E2. inversion R; subst.
    eapply IH; [|exact E2]. unfold exec in E1.
    destruct (step c s a) as [[sx ox]|] eqn:Es; inversion E1; subst; auto.
    eapply step_flags; eauto.
Qed.

(* ------------------------------------------------------------------ *)
(* counting                                                            *)

Lemma count_upd {A} (f : A -> bool) i (x y : A) l :
  nth_error l i = Some y ->
  (count f (upd_nth i x l) + b2n (f y) = count f l + b2n (f x))%nat.
Proof.
  revert i; induction l as [|z l IH]; intros [|i] H; cbn in *; try discriminate.
  - inversion H; subst. lia.
  - specialize (IH i H). lia.
Qed.

Lemma count_wake_s_running l : count s_running (map wake_s l) = count s_running l.
Proof. induction l; cbn; auto. Qed.
Lemma count_wake_r_running l : count r_running (map wake_r l) = count r_running l.
Proof. induction l; cbn; auto. Qed.

Lemma nth_wake_s l i cl : nth_error l i = Some cl -> nth_error (map wake_s l) i = Some (wake_s cl).
Proof. intros H. rewrite nth_error_map, H. reflexivity. Qed.
Lemma nth_wake_r l i cl : nth_error l i = Some cl -> nth_error (map wake_r l) i = Some (wake_r cl).
Proof. intros H. rewrite nth_error_map, H. reflexivity. Qed.

(* ------------------------------------------------------------------ *)
(* what each internal region does to the measure                       *)

Definition parts (t : tracker) : nat := (out_part t + recv_part t)%nat.

Lemma loop_progress t t' la :
  flags_inv t -> h_loop t = (t', la) ->
  (la = LNone /\ t' = t) \/ (la <> LNone /\ (parts t' < parts t)%nat).
Proof.
  intros [A B] E. unfold h_loop, parts, out_part, recv_part in *.
  repeat match type of E with context [match ?x with _ => _ end] => destruct x eqn:? end;
    inversion E; subst; cbn; try (left; split; reflexivity);
    right; (split; [discriminate|]); rewrite ?Heqo0, ?Heqo1, ?Heqb, ?Heqb0, ?Heqb1; cbn;
    try lia;
    repeat match goal with |- context [match ?x with _ => _ end] => destruct x eqn:?; cbn end; try lia;
    try (destruct (t_sent t); cbn in *; try discriminate; lia).
Qed.

Lemma send_iter_progress t cl t' b cl' :
  flags_inv t -> h_send_iter t cl = (t', b, cl') ->
  s_st cl' = SOk \/
  (s_st cl' = SRun /\ (parts t' < parts t)%nat) \/
  (s_st cl' = SRun /\ b = false /\ t' = t /\ s_w cl' = WWait).
Proof.
  intros [A B] E. unfold h_send_iter in E.
  repeat match type of E with context [match ?x with _ => _ end] => destruct x eqn:? end;
    inversion E; subst; cbn;
    try (left; reflexivity); try (right; right; repeat split; reflexivity).
  all: right; left; split; auto.
  all: destruct (A eq_refl) as (A1 & A2 & A3).
  all: unfold parts, out_part, recv_part; cbn; rewrite ?Heqo0, ?A1, ?A3; cbn; lia.
Qed.

Lemma recv_iter_progress t t' r :
  h_recv_iter t = (t', r) -> (r = None /\ t' = t) \/ (exists m, r = Some m).
Proof.
  unfold h_recv_iter. destruct (t_recv t); [destruct (t_proc t)|]; intros E; inversion E; subst; eauto.
Qed.

Ltac lex :=
  unfold parts in *; cbn [b2n] in *;
  first [ left; lia
        | right; split; [lia|];
          first [ left; lia
                | right; split; [lia|];
                  first [ left; lia | right; split; [lia|lia] ] ] ].

Theorem internal_decreases : forall c s a s' o,
  flags_inv (tk s) -> internal a = true -> step c s a = Some (s', o) -> lt4 (mu s') (mu s).
Proof.
  intros c s a s' o I Hin St. destruct a; try discriminate; cbn [step] in St.
  - (* ALoop *)
    destruct (conn s) as [cn|] eqn:Ec; [|discriminate].
    destruct (runnable (c_w cn)) eqn:Er; [|discriminate].
    destruct (h_loop (tk s)) as [t' la] eqn:E.
    destruct (loop_progress _ _ _ I E) as [[-> ->]|[Hne Hlt]].
    + inversion St; subst. unfold mu, lt4. cbn [conn set_conn sends recvs tk]. rewrite Ec, Er.
      cbn [c_w runnable b2n]. lex.
    + assert (St' : s' = set_conn (Some (mkConn WReady (c_rerr cn))) (bcast (set_tk t' s))).
      { destruct la; try congruence; inversion St; reflexivity. }
      subst s'. unfold mu, lt4. cbn [conn set_conn sends recvs tk bcast set_tk]. rewrite Ec.
      rewrite count_wake_s_running, count_wake_r_running. lex.
  - (* ALoopErr *)
    destruct (conn s) as [cn|] eqn:Ec; [|discriminate].
    destruct (c_rerr cn); [|discriminate]. destruct (blocked (c_w cn)); [|discriminate].
    unfold conn_end in St. destruct (h_close (tk s)) as [t' b]. inversion St; subst.
    unfold mu, lt4. cbn [conn set_conn]. rewrite Ec. left. lia.
  - (* ASendIter *)
    destruct (nth_error (sends s) i) as [cl|] eqn:En; [|discriminate].
    destruct (s_st cl) eqn:Est; try discriminate.
    destruct (runnable (s_w cl)) eqn:Er; [|discriminate].
    destruct (h_send_iter (tk s) cl) as [[t' b] cl'] eqn:E. inversion St; subst. clear St.
    assert (Hrun_cl : s_running cl = true) by (unfold s_running; rewrite Est; reflexivity).
    set (L := sends (bcast_if b (set_tk t' s))).
    assert (HL : exists y, nth_error L i = Some y /\ s_running y = true /\ count s_running L = count s_running (sends s)).
    { unfold L. destruct b; cbn.
      - exists (wake_s cl). split; [apply nth_wake_s, En|]. split; [exact Hrun_cl|apply count_wake_s_running].
      - exists cl. auto. }
    destruct HL as (y & Hy & Hry & HcL).
    assert (HR : count r_running (recvs (bcast_if b (set_tk t' s))) = count r_running (recvs s)).
    { destruct b; cbn; auto. apply count_wake_r_running. }
    assert (HC : match conn (bcast_if b (set_tk t' s)) with Some _ => 1%nat | None => 0%nat end =
                 match conn s with Some _ => 1%nat | None => 0%nat end).
    { destruct b; cbn; destruct (conn s); reflexivity. }
    pose proof (count_upd s_running i cl' y L Hy) as Hcu. rewrite Hry in Hcu.
    destruct (send_iter_progress _ _ _ _ _ I E) as [Hok|[[Hrun Hlt]|(Hrun & Hb & Ht & Hw)]].
    + assert (H : s_running cl' = false) by (unfold s_running; rewrite Hok; reflexivity).
      rewrite H in Hcu. unfold mu, lt4. cbn [conn sends recvs set_send tk]. fold L. rewrite HC, HR. lex.
    + assert (H : s_running cl' = true) by (unfold s_running; rewrite Hrun; reflexivity).
      rewrite H in Hcu. unfold mu, lt4. cbn [conn sends recvs set_send tk]. fold L.
      rewrite HC, HR, tk_bcast_if'. cbn [tk set_tk]. lex.
    + subst b t'. cbn [bcast_if] in *.
      assert (H : s_running cl' = true) by (unfold s_running; rewrite Hrun; reflexivity).
      rewrite H in Hcu. unfold L in *. cbn [sends set_tk] in *.
      pose proof (count_upd s_ready i cl' cl (sends s) En) as Hcr.
      assert (H0 : s_ready cl = true) by (unfold s_ready; rewrite Hrun_cl, Er; reflexivity).
      assert (H1 : s_ready cl' = false) by (unfold s_ready; rewrite Hw; cbn; apply andb_false_r).
      rewrite H0, H1 in Hcr.
      unfold mu, lt4. cbn [conn sends recvs set_send set_tk tk]. lex.
  - (* ARecvIter *)
    destruct (nth_error (recvs s) j) as [cl|] eqn:En; [|discriminate].
    destruct (r_st cl) eqn:Est; try discriminate.
    destruct (runnable (r_w cl)) eqn:Er; [|discriminate].
    assert (Hrun_cl : r_running cl = true) by (unfold r_running; rewrite Est; reflexivity).
    destruct (h_recv_iter (tk s)) as [t' [m|]] eqn:E; inversion St; subst; clear St.
    + pose proof (count_upd r_running j (mkR WReady (RGot m)) (wake_r cl) (map wake_r (recvs s)) (nth_wake_r _ _ _ En)) as Hcu.
      assert (H : r_running (wake_r cl) = true) by exact Hrun_cl.
      rewrite H in Hcu. change (r_running (mkR WReady (RGot m))) with false in Hcu.
      rewrite count_wake_r_running in Hcu.
      assert (HC : match option_map wake_c (conn s) with Some _ => 1%nat | None => 0%nat end =
                   match conn s with Some _ => 1%nat | None => 0%nat end) by (destruct (conn s); reflexivity).
      unfold mu, lt4. cbn [conn sends recvs set_recv bcast set_tk tk].
      rewrite count_wake_s_running, HC. lex.
    + destruct (recv_iter_progress _ _ _ E) as [[_ ->]|[m Hm]]; [|discriminate].
      pose proof (count_upd r_running j (mkR WWait RRun) cl (recvs s) En) as Hcu.
      pose proof (count_upd r_ready j (mkR WWait RRun) cl (recvs s) En) as Hcr.
      assert (H : r_ready cl = true) by (unfold r_ready; rewrite Hrun_cl, Er; reflexivity).
      rewrite Hrun_cl in Hcu. rewrite H in Hcr.
      change (r_running (mkR WWait RRun)) with true in Hcu. change (r_ready (mkR WWait RRun)) with false in Hcr.
      unfold mu, lt4. cbn [conn sends recvs set_recv tk]. lex.
Qed.

(* in every reachable state *)
Theorem reachable_internal_decreases : forall c acts s tr a s' o,
  run c c_init acts = (s, tr) ->
  internal a = true -> step c s a = Some (s', o) -> lt4 (mu s') (mu s).
Proof.
  intros c acts s tr a s' o R Hi St.
  eapply internal_decreases; eauto. eapply run_flags; [apply flags_init|exact R].
Qed.
