(* Proofs about the client LTS with the relay as an arbitrary environment:
   C19 (only authentic messages of the session peer reach Recv; the session
   ends on the first bad message) and the client halves of C21. *)
From Bifrost Require Import Lib.Base SignalClient.Model.

(* ------------------------------------------------------------------ *)
(* run / exec                                                          *)

Lemma run_app c s l1 l2 :
  run c s (l1 ++ l2) =
  let '(s1, o1) := run c s l1 in let '(s2, o2) := run c s1 l2 in (s2, o1 ++ o2).
Proof.
  revert s; induction l1 as [|a l1 IH]; intros s; cbn [run app].
  - destruct (run c s l2); reflexivity.
  - destruct (exec c s a) as [s1 o1]. rewrite IH.
    destruct (run c s1 l1) as [s2 o2]. destruct (run c s2 l2) as [s3 o3].
    rewrite app_assoc. reflexivity.
Qed.

(* ------------------------------------------------------------------ *)
(* C19                                                                 *)

Definition authentic (c : cfg) (m : smsg) : Prop :=
  m_from m = FromKey (peer_key c) /\
  m_sig m = SigOf (peer_key c) sig_ctx (m_ht m) (m_data m) /\
  m_data m <> [] /\
  ht_ok (m_ht m) = true /\
  m_att m <> AttBad.

(* the shape of verify_msg *)
Lemma verify_msg_cases m :
  (exists k, verify_msg m = Ok k /\
     m_from m = FromKey k /\ m_sig m = SigOf k sig_ctx (m_ht m) (m_data m) /\ m_data m <> [] /\
     ht_ok (m_ht m) = true /\ m_att m <> AttBad) \/
  verify_msg m = Err EVerify.
Proof.
  unfold verify_msg. destruct (m_data m) as [|d ds] eqn:Ed; [right; reflexivity|].
  destruct (m_from m) as [k0|]; [|right; reflexivity].
  destruct (ht_ok (m_ht m)) eqn:Eh; cbn [negb]; [|right; reflexivity].
  assert (Hsig : m_att m <> AttBad ->
          (exists k, match m_sig m with
                     | SigOf k' c h b =>
                         if Nat.eqb k' k0 && bytes_eqb c sig_ctx && Z.eqb h (m_ht m) && bytes_eqb b (d :: ds)
                         then Ok k0 else Err EVerify
                     | SigJunk => Err EVerify
                     end = Ok k /\
             FromKey k0 = FromKey k /\ m_sig m = SigOf k sig_ctx (m_ht m) (d :: ds) /\ d :: ds <> [] /\
             true = true /\ m_att m <> AttBad) \/
          match m_sig m with
          | SigOf k' c h b =>
              if Nat.eqb k' k0 && bytes_eqb c sig_ctx && Z.eqb h (m_ht m) && bytes_eqb b (d :: ds)
              then Ok k0 else Err EVerify
          | SigJunk => Err EVerify
          end = Err EVerify).
  { intros Ha. destruct (m_sig m) as [k' cx h b|]; [|right; reflexivity].
    destruct (Nat.eqb k' k0 && bytes_eqb cx sig_ctx && Z.eqb h (m_ht m) && bytes_eqb b (d :: ds)) eqn:E; [|right; reflexivity].
    left. exists k0. apply andb_true_iff in E as [E E4]. apply andb_true_iff in E as [E E3].
    apply andb_true_iff in E as [E1 E2].
    apply Nat.eqb_eq in E1. apply bytes_eqb_spec in E2. apply Z.eqb_eq in E3. apply bytes_eqb_spec in E4.
    subst. repeat split; auto. discriminate. }
  destruct (m_att m) eqn:Ea.
  - apply Hsig. discriminate.
  - apply Hsig. discriminate.
  - right. reflexivity.
Qed.

Lemma verify_msg_ok m k :
  verify_msg m = Ok k ->
  m_from m = FromKey k /\ m_sig m = SigOf k sig_ctx (m_ht m) (m_data m) /\ m_data m <> [] /\
  ht_ok (m_ht m) = true /\ m_att m <> AttBad.
Proof.
  intros E. destruct (verify_msg_cases m) as [(k' & E' & H)|E']; rewrite E' in E; [|discriminate].
  inversion E; subst. exact H.
Qed.

Lemma check_recv_ok c m : check_recv (peer_key c) m = Ok tt -> authentic c m.
Proof.
  unfold check_recv, obind. destruct (verify_msg m) as [k| |] eqn:E; try discriminate.
  destruct (Nat.eqb k (peer_key c)) eqn:Ek; [|discriminate]. intros _.
  apply Nat.eqb_eq in Ek. subst k. apply verify_msg_ok in E. exact E.
Qed.

Lemma check_recv_complete c m : authentic c m -> check_recv (peer_key c) m = Ok tt.
Proof.
  intros (Hf & Hs & Hd & Hh & Ha). unfold check_recv, obind, verify_msg.
  destruct (m_data m) as [|d ds] eqn:Ed; [congruence|].
  rewrite Hf, Hh, Hs. cbn [negb]. rewrite Nat.eqb_refl, !bytes_eqb_refl, Z.eqb_refl. cbn.
  destruct (m_att m); try congruence; rewrite Nat.eqb_refl; reflexivity.
Qed.

(* the decision on an incoming message is a function of the message alone: no
   tracker state (earlier deliveries, epoch, pending slots) enters it *)
Lemma accept_stateless c t m :
  reader c (PRecv (Some m)) t =
  match check_recv (peer_key c) m with
  | Ok _ => Ok (h_recv m t)
  | Err k => Err k
  | Panic => Panic
  end.
Proof. cbn [reader]. unfold obind. destruct (check_recv (peer_key c) m); reflexivity. Qed.

Lemma accept_stateless_step c s s' cn cn' m :
  conn s = Some cn -> c_rerr cn = None -> conn s' = Some cn' -> c_rerr cn' = None ->
  (exists k, step c s (AResp (PRecv (Some m))) = Some (set_conn (Some (mkConn (c_w cn) (Some k))) s, [OBad k])) <->
  (exists k, step c s' (AResp (PRecv (Some m))) = Some (set_conn (Some (mkConn (c_w cn') (Some k))) s', [OBad k])).
Proof.
  intros H1 H2 H3 H4. cbn [step]. rewrite H1, H2, H3, H4, !accept_stateless.
  destruct (check_recv (peer_key c) m) as [[]|k|]; split; intros [k' E]; try discriminate;
    inversion E; subst; eexists; reflexivity.
Qed.

(* a well-formed attached key never influences the decision *)
Lemma attached_key_ignored p m k :
  check_recv p (with_att (AttKey k) m) = check_recv p (with_att AttNone m).
Proof. reflexivity. Qed.

Section RecvInv.
  Variable c : cfg.
  Variable Q : smsg -> Prop.

  Definition recv_ok (t : tracker) : Prop :=
    match t_recv t with Some m => Q m | None => True end.

  Definition rcall_ok (cl : rcall) : Prop :=
    match r_st cl with RGot m => Q m | _ => True end.

  Definition obs_ok (o : obs) : Prop :=
    match o with ORecvDone _ (Some m) _ => Q m | _ => True end.

  Definition inv19 (s : cstate) : Prop := recv_ok (tk s) /\ Forall rcall_ok (recvs s).

  Lemma Forall_upd_nth {A} (P : A -> Prop) i x l : Forall P l -> P x -> Forall P (upd_nth i x l).
  Proof.
    revert i; induction l as [|y l IH]; intros i Hl Hx; destruct i; cbn; auto;
      inversion Hl as [|? ? Hy Hl']; subst; constructor; auto.
  Qed.

  Lemma Forall_wake_r l : Forall rcall_ok l -> Forall rcall_ok (map wake_r l).
  Proof. intros H. apply Forall_map. eapply Forall_impl; [|exact H]. intros a Ha. exact Ha. Qed.

  Lemma inv19_bcast_if b s : inv19 s -> inv19 (bcast_if b s).
  Proof. destruct b; cbn; auto. intros [H1 H2]; split; cbn; auto. apply Forall_wake_r, H2. Qed.

  Ltac tk_crush :=
    unfold recv_ok in *; cbn in *;
    repeat match goal with
           | |- context [match ?x with _ => _ end] => destruct x eqn:?; cbn in *
           | H : context [match ?x with _ => _ end] |- _ => destruct x eqn:?; cbn in *
           end; try congruence; auto.

  Lemma recv_ok_close t : recv_ok t -> recv_ok (fst (h_close t)).
  Proof. unfold h_close. tk_crush. Qed.
  Lemma recv_ok_open n t : recv_ok t -> recv_ok (fst (h_open n t)).
  Proof. unfold h_open. tk_crush. Qed.
  Lemma recv_ok_clear n t : recv_ok t -> recv_ok (fst (h_clear n t)).
  Proof. unfold h_clear. tk_crush. Qed.
  Lemma recv_ok_ack n t : recv_ok t -> recv_ok (fst (h_ack n t)).
  Proof. unfold h_ack. tk_crush. Qed.
  Lemma recv_ok_loop t : recv_ok t -> recv_ok (fst (h_loop t)).
  Proof. unfold h_loop. tk_crush. Qed.
  Lemma recv_ok_send_iter t cl : recv_ok t -> recv_ok (fst (fst (h_send_iter t cl))).
  Proof. unfold h_send_iter. tk_crush. Qed.
  Lemma recv_ok_send_cancel t cl : recv_ok t -> recv_ok (fst (h_send_cancel t cl)).
  Proof. unfold h_send_cancel. tk_crush. Qed.
  Lemma recv_ok_recv_iter t : recv_ok t -> recv_ok (fst (h_recv_iter t)).
  Proof. unfold h_recv_iter. tk_crush. Qed.
  Lemma recv_iter_got t t' m : recv_ok t -> h_recv_iter t = (t', Some m) -> Q m.
  Proof. unfold h_recv_iter. tk_crush. Qed.

  Lemma reader_ok r t t' b :
    (forall m, r = PRecv (Some m) -> check_recv (peer_key c) m = Ok tt -> Q m) ->
    recv_ok t -> reader c r t = Ok (t', b) -> recv_ok t'.
  Proof.
    intros HQ Ht. destruct r as [n|[|]|[m|]|n|n| |]; cbn [reader]; intros H; try discriminate.
    - injection H as H. replace t' with (fst (h_open n t)) by (rewrite H; reflexivity).
      apply recv_ok_open, Ht.
    - injection H as H. replace t' with (fst (h_close t)) by (rewrite H; reflexivity).
      apply recv_ok_close, Ht.
    - inversion H; subst; auto.
    - unfold obind in H. destruct (check_recv (peer_key c) m) as [[]| |] eqn:E; try discriminate.
      inversion H; subst. unfold recv_ok; cbn. apply HQ; auto.
    - inversion H; subst; auto.
    - injection H as H. replace t' with (fst (h_ack n t)) by (rewrite H; reflexivity).
      apply recv_ok_ack, Ht.
    - injection H as H. replace t' with (fst (h_clear n t)) by (rewrite H; reflexivity).
      apply recv_ok_clear, Ht.
  Qed.

  (* one step preserves the invariant and only emits good Recv results *)
  Lemma step_inv19 s a s' o :
    (forall m, a = AResp (PRecv (Some m)) -> check_recv (peer_key c) m = Ok tt -> Q m) ->
    inv19 s -> step c s a = Some (s', o) -> inv19 s' /\ Forall obs_ok o.
  Proof.
    intros HQ [Ht Hr] H. destruct a; cbn [step] in H.
    - (* AConnStart *)
      destruct (conn s); inversion H; subst. split; [split; cbn; auto|repeat constructor].
    - (* AResp *)
      destruct (conn s) as [cn|]; [|discriminate].
      destruct (c_rerr cn); [discriminate|].
      destruct (reader c r (tk s)) as [[t' b]|k|] eqn:E; [| |discriminate].
      + inversion H; subst. split.
        * apply inv19_bcast_if. split; cbn; auto.
          eapply reader_ok; eauto. intros m Hm. apply HQ. congruence.
        * destruct r; try constructor. destruct (ack_marks n (tk s)); repeat constructor.
      + inversion H; subst. split; [split; cbn; auto|repeat constructor].
    - (* ALoop *)
      destruct (conn s) as [cn|]; [|discriminate].
      destruct (runnable (c_w cn)); [|discriminate].
      destruct (h_loop (tk s)) as [t' la] eqn:E.
      assert (Ht' : recv_ok t') by (change t' with (fst (t', la)); rewrite <- E; apply recv_ok_loop, Ht).
      assert (Hobs : forall l, Forall obs_ok (map OReq l)).
      { induction l; cbn; constructor; cbn; auto. }
      destruct la; inversion H; subst;
        (split; [split; cbn; auto; apply Forall_wake_r, Hr | try apply Hobs; repeat constructor]).
    - (* ALoopErr *)
      destruct (conn s) as [cn|]; [|discriminate].
      destruct (c_rerr cn); [|discriminate].
      destruct (blocked (c_w cn)); [|discriminate].
      unfold conn_end in H. destruct (h_close (tk s)) as [t' b] eqn:E. inversion H; subst.
      split; [|repeat constructor].
      assert (Ht' : recv_ok t') by (change t' with (fst (t', b)); rewrite <- E; apply recv_ok_close, Ht).
      destruct b; split; cbn; auto. apply Forall_wake_r, Hr.
    - (* AConnAbort *)
      destruct (conn s) as [cn|]; [|discriminate].
      unfold conn_end in H. destruct (h_close (tk s)) as [t' b] eqn:E. inversion H; subst.
      split; [|repeat constructor].
      assert (Ht' : recv_ok t') by (change t' with (fst (t', b)); rewrite <- E; apply recv_ok_close, Ht).
      destruct b; split; cbn; auto. apply Forall_wake_r, Hr.
    - (* ASendStart *)
      destruct body; inversion H; subst; (split; [split; cbn; auto|constructor]).
    - (* ASendIter *)
      destruct (nth_error (sends s) i) as [cl|]; [|discriminate].
      destruct (s_st cl); try discriminate.
      destruct (runnable (s_w cl)); [|discriminate].
      destruct (h_send_iter (tk s) cl) as [[t' b] cl'] eqn:E. inversion H; subst.
      assert (Ht' : recv_ok t').
      { change t' with (fst (fst (t', b, cl'))). rewrite <- E. apply recv_ok_send_iter, Ht. }
      split.
      + destruct b; split; cbn; auto. apply Forall_wake_r, Hr.
      + destruct (s_st cl'); repeat constructor.
    - (* ASendCancel *)
      destruct (nth_error (sends s) i) as [cl|]; [|discriminate].
      destruct (s_st cl); try discriminate.
      destruct (blocked (s_w cl)); [|discriminate].
      destruct (h_send_cancel (tk s) cl) as [t' b] eqn:E. inversion H; subst.
      assert (Ht' : recv_ok t').
      { change t' with (fst (t', b)). rewrite <- E. apply recv_ok_send_cancel, Ht. }
      split; [|repeat constructor].
      destruct b; split; cbn; auto. apply Forall_wake_r, Hr.
    - (* ARecvStart *)
      inversion H; subst. split; [split; cbn; auto|constructor].
      apply Forall_app; split; auto. repeat constructor.
    - (* ARecvIter *)
      destruct (nth_error (recvs s) j) as [cl|]; [|discriminate].
      destruct (r_st cl); try discriminate.
      destruct (runnable (r_w cl)); [|discriminate].
      destruct (h_recv_iter (tk s)) as [t' [m|]] eqn:E; inversion H; subst.
      + assert (Ht' : recv_ok t').
        { change t' with (fst (t', Some m)). rewrite <- E. apply recv_ok_recv_iter, Ht. }
        assert (Hm : Q m) by (exact (recv_iter_got _ _ _ Ht E)).
        split; [split; cbn; auto|repeat constructor; cbn; auto].
        apply Forall_upd_nth; [apply Forall_wake_r, Hr|exact Hm].
      + split; [split; cbn; auto|constructor]. apply Forall_upd_nth; cbn; auto.
    - (* ARecvCancel *)
      destruct (nth_error (recvs s) j) as [cl|]; [|discriminate].
      destruct (r_st cl); try discriminate.
      destruct (blocked (r_w cl)); [|discriminate]. inversion H; subst.
      split; [split; cbn; auto|repeat constructor]. apply Forall_upd_nth; cbn; auto.
  Qed.

  Lemma exec_inv19 s a s' o :
    (forall m, a = AResp (PRecv (Some m)) -> check_recv (peer_key c) m = Ok tt -> Q m) ->
    inv19 s -> exec c s a = (s', o) -> inv19 s' /\ Forall obs_ok o.
  Proof.
    intros HQ Hi. unfold exec. destruct (step c s a) as [[s1 o1]|] eqn:E; intros H; inversion H; subst.
    - eapply step_inv19; eauto.
    - split; auto.
  Qed.

  Lemma run_inv19 acts : forall s s' tr,
    (forall m, In (AResp (PRecv (Some m))) acts -> check_recv (peer_key c) m = Ok tt -> Q m) ->
    inv19 s -> run c s acts = (s', tr) -> inv19 s' /\ Forall obs_ok tr.
  Proof.
    induction acts as [|a acts IH]; intros s s' tr HQ Hi H; cbn [run] in H.
    - inversion H; subst. split; auto.
    - destruct (exec c s a) as [s1 o1] eqn:E1. destruct (run c s1 acts) as [s2 o2] eqn:E2.
      inversion H; subst.
      destruct (exec_inv19 s a s1 o1) as [Hi1 Ho1]; auto.
      { intros m Hm. apply HQ. left. auto. }
      destruct (IH s1 s' o2) as [Hi2 Ho2]; auto.
      { intros m Hm. apply HQ. right. auto. }
      split; auto. apply Forall_app; split; auto.
  Qed.
End RecvInv.

Lemma inv19_init Q : inv19 Q c_init.
Proof. split; cbn; auto. Qed.

(* Every message Recv returns, in any history and against any relay, is a
   message the relay delivered in this history that is signed by the session
   peer's key under the signaling context over exactly its body. *)
Theorem recv_returns_authentic : forall c acts s tr j m e,
  run c c_init acts = (s, tr) ->
  In (ORecvDone j (Some m) e) tr ->
  authentic c m /\ In (AResp (PRecv (Some m))) acts.
Proof.
  intros c acts s tr j m e Hrun Hin.
  destruct (run_inv19 c (fun m => authentic c m /\ In (AResp (PRecv (Some m))) acts) acts c_init s tr)
    as [_ Ho]; auto.
  - intros m0 H0 Hc. split; auto. apply check_recv_ok, Hc.
  - apply inv19_init.
  - rewrite Forall_forall in Ho. apply (Ho _ Hin).
Qed.

(* state form: whatever is pending in the tracker or held by a finished Recv *)
Theorem recv_state_authentic : forall c acts s tr,
  run c c_init acts = (s, tr) ->
  (forall m, t_recv (tk s) = Some m -> authentic c m) /\
  (forall j cl m, nth_error (recvs s) j = Some cl -> r_st cl = RGot m -> authentic c m).
Proof.
  intros c acts s tr Hrun.
  destruct (run_inv19 c (authentic c) acts c_init s tr) as [[H1 H2] _]; auto.
  - intros m0 _ Hc. apply check_recv_ok, Hc.
  - apply inv19_init.
  - split.
    + intros m Hm. unfold recv_ok in H1. rewrite Hm in H1. exact H1.
    + intros j cl m Hn Hs. rewrite Forall_forall in H2. apply nth_error_In in Hn.
      specialize (H2 _ Hn). unfold rcall_ok in H2. rewrite Hs in H2. exact H2.
Qed.

(* What a relay (or network adversary) that does not hold A's private key can
   put into the signature field: junk, signatures under other keys, or
   signatures A has produced, (context, body) listed in [signed]. *)
Definition sig_available (A : nat) (signed : list (bytes * Z * bytes)) (g : sgn) : Prop :=
  match g with
  | SigJunk => True
  | SigOf k cx h b => k <> A \/ In (cx, h, b) signed
  end.

Definition act_available (A : nat) (signed : list (bytes * Z * bytes)) (a : action) : Prop :=
  match a with
  | AResp (PRecv (Some m)) => sig_available A signed (m_sig m)
  | _ => True
  end.

Theorem recv_returns_submitted : forall c signed acts s tr j m e,
  Forall (act_available (peer_key c) signed) acts ->
  run c c_init acts = (s, tr) ->
  In (ORecvDone j (Some m) e) tr ->
  authentic c m /\ In (sig_ctx, m_ht m, m_data m) signed.
Proof.
  intros c signed acts s tr j m e Hav Hrun Hin.
  destruct (recv_returns_authentic c acts s tr j m e Hrun Hin) as [Ha Hact].
  split; auto. rewrite Forall_forall in Hav. specialize (Hav _ Hact). cbn in Hav.
  destruct Ha as (_ & Hs & _ & _ & _). rewrite Hs in Hav. cbn in Hav. destruct Hav as [H|H]; [congruence|exact H].
Qed.

(* the session errors on the first bad message: the message does not reach the
   tracker, the reader stops (no later response is processed on this stream)
   and execute returns that error as soon as its loop waits. *)
Theorem bad_message_ends_session : forall c s cn m,
  conn s = Some cn -> c_rerr cn = None ->
  check_recv (peer_key c) m <> Ok tt ->
  exists k, step c s (AResp (PRecv (Some m))) =
            Some (set_conn (Some (mkConn (c_w cn) (Some k))) s, [OBad k]) /\
            (k = EVerify \/ k = EPeer).
Proof.
  intros c s cn m Hc Hr Hbad. cbn [step]. rewrite Hc, Hr. cbn [reader].
  unfold check_recv, obind in *.
  destruct (verify_msg_cases m) as [(k0 & Ev & _)|Ev]; rewrite Ev in *.
  - destruct (Nat.eqb k0 (peer_key c)); [congruence|]. exists EPeer. split; auto.
  - exists EVerify. split; auto.
Qed.

Theorem reader_stopped_after_error : forall c s cn k r,
  conn s = Some cn -> c_rerr cn = Some k -> step c s (AResp r) = None.
Proof. intros c s cn k r Hc Hr. cbn [step]. rewrite Hc, Hr. reflexivity. Qed.

Theorem error_ends_execute : forall c s cn k,
  conn s = Some cn -> c_rerr cn = Some k -> blocked (c_w cn) = true ->
  exists s', step c s ALoopErr = Some (s', [OConnEnd k]) /\ conn s' = None /\
             t_recv (tk s') = None /\ t_open (tk s') = None.
Proof.
  intros c s cn k Hc Hr Hb. cbn [step]. rewrite Hc, Hr, Hb. unfold conn_end.
  destruct (h_close (tk s)) as [t' b] eqn:E. eexists; split; [reflexivity|].
  unfold h_close in E. inversion E; subst. destruct (match t_open (tk s) with Some _ => _ | None => _ end); cbn; auto.
Qed.
