(* Model of signaling/rpc/client/client.go: the per-peer tracker, the
   application calls Send / Recv, the execute loop and the incoming handlers,
   as a labelled transition system with one action per lock region
   (tkr.bcast.HoldLock).  The relay is the environment: any response may
   arrive.  No proofs here. *)
From Bifrost Require Import Lib.Base gen.Sigclient.

(* ------------------------------------------------------------------ *)
(* Symbolic signed messages (Dolev-Yao): a signature is a free term.   *)

Inductive sgn :=
| SigOf (key : nat) (ctx : bytes) (ht : Z) (body : bytes)
                                         (* Ed25519 signature by [key] over (ctx, hash type, hash body) *)
| SigJunk.                               (* any byte string that is not a signature made by a key *)

(* Signature.pub_key: the optional public key attached to the signature object.
   Honest senders leave it empty; verification must not depend on it. *)
Inductive att_key :=
| AttNone                                (* field empty *)
| AttKey (k : nat)                       (* a well-formed public key *)
| AttBad.                                (* bytes that do not parse as a public key *)

Inductive from_id :=
| FromKey (k : nat)                      (* well-formed peer id of public key k *)
| FromBad.                               (* empty or unparsable peer id *)

(* SessionMsg { SignedMsg { from_peer_id, signature { pub_key, hash_type, sig_data }, data }, seqno } *)
Record smsg := mkMsg { m_from : from_id; m_data : bytes; m_sig : sgn; m_seq : Z;
                       m_ht : Z; m_att : att_key }.

(* hash types accepted by HashType.Validate and usable by VerifyWithPublic
   (UNKNOWN = 0 passes Validate but not VerifyWithPublic); regenerated *)
Definition ht_ok (h : Z) : bool :=
  Z.eqb h hash_type_sha256 || Z.eqb h hash_type_sha1 || Z.eqb h hash_type_blake3.

(* encContext, regenerated from signaling/rpc/signaling.go *)
Definition sig_ctx : bytes := signaling_enc_context.

(* error classes *)
Definition EVerify : nat := 1%nat.        (* SessionMsg.ExtractAndVerify failed *)
Definition EPeer : nat := 2%nat.          (* verified, but not from the session peer *)
Definition EStream : nat := 3%nat.        (* stream Recv failed *)
Definition EUnrecognized : nat := 4%nat.  (* response without a known body *)
Definition ECtx : nat := 5%nat.           (* context cancelled / stream send failed *)

(* peer.SignedMsg.ExtractAndVerify(encContext): empty body, empty / unparsable
   peer id, Signature.Validate (hash type, attached key must parse if present),
   signature check against the key NAMED BY from_peer_id; a well-formed
   attached key is ignored. *)
Definition verify_msg (m : smsg) : outcome nat :=
  match m_data m with
  | [] => Err EVerify
  | _ :: _ =>
      match m_from m with
      | FromBad => Err EVerify
      | FromKey k =>
          if negb (ht_ok (m_ht m)) then Err EVerify
          else match m_att m with
               | AttBad => Err EVerify
               | _ =>
                   match m_sig m with
                   | SigJunk => Err EVerify
                   | SigOf k' c h b =>
                       if Nat.eqb k' k && bytes_eqb c sig_ctx && Z.eqb h (m_ht m) && bytes_eqb b (m_data m)
                       then Ok k else Err EVerify
                   end
               end
      end
  end.

(* handleRecv up to the lock region: verify, then compare with the session peer *)
Definition check_recv (peer : nat) (m : smsg) : outcome unit :=
  k <- verify_msg m ;;
  if Nat.eqb k peer then Ok tt else Err EPeer.

(* the hash type Send signs with (HashType_BLAKE3), regenerated *)
Definition ht_blake3 : Z := hash_type_blake3.
Definition ht_sha256 : Z := hash_type_sha256.

(* NewSessionMsg(privKey, BLAKE3, body, seqno) *)
Definition sign_msg (self : nat) (body : bytes) (seq : Z) : smsg :=
  mkMsg (FromKey self) body (SigOf self sig_ctx ht_blake3 body) seq ht_blake3 AttNone.

Definition with_att (a : att_key) (m : smsg) : smsg :=
  mkMsg (m_from m) (m_data m) (m_sig m) (m_seq m) (m_ht m) a.

(* ------------------------------------------------------------------ *)
(* Wire messages                                                      *)

Inductive request :=
| RInit
| RSend (sess : Z) (m : smsg)
| RAck (sess : Z) (n : Z)
| RClear (sess : Z) (n : Z).

Inductive resp :=
| POpened (n : Z)
| PClosed (b : bool)
| PRecv (m : option smsg)
| PAck (n : Z)
| PClear (n : Z)
| PUnknown          (* no / unknown body *)
| PFail.            (* stream.Recv returns an error *)

(* ------------------------------------------------------------------ *)
(* State                                                               *)

Record tracker := mkT {
  t_open : option Z;
  t_out : option smsg;
  t_sent : bool;
  t_acked : bool;
  t_cancel : bool;
  t_recv : option smsg;
  t_proc : bool }.

Definition t_init : tracker := mkT None None false false false None false.

(* where a goroutine stands with respect to the broadcast channel *)
Inductive wst :=
| WReady    (* will run its next lock region without waiting *)
| WWait     (* blocked on the wait channel it took in its last region *)
| WWoken.   (* that channel has been closed by a broadcast *)

Definition wake (w : wst) : wst := match w with WWait => WWoken | _ => w end.
Definition runnable (w : wst) : bool := match w with WWait => false | _ => true end.
Definition blocked (w : wst) : bool := match w with WReady => false | _ => true end.

Inductive sstatus := SRun | SOk | SCancelled | SErr.
Record scall := mkS { s_msg : smsg; s_txed : bool; s_sess : option Z; s_w : wst; s_st : sstatus }.

Inductive rstatus := RRun | RGot (m : smsg) | RCancelled.
Record rcall := mkR { r_w : wst; r_st : rstatus }.

(* one run of clientPeerTracker.execute *)
Record cconn := mkConn { c_w : wst; c_rerr : option nat }.

Record cstate := mkC {
  tk : tracker;
  sends : list scall;
  recvs : list rcall;
  conn : option cconn;
  nonce : Z }.

Definition c_init : cstate := mkC t_init [] [] None 0.

Record cfg := mkCfg { self_key : nat; peer_key : nat }.

(* ------------------------------------------------------------------ *)
(* Observations = ghost history                                        *)

Inductive obs :=
| OReq (r : request)                          (* request written to the stream *)
| OSendDone (i : nat) (ok : bool) (m : smsg) (e : option Z)   (* Send returned *)
| ORecvDone (j : nat) (m : option smsg) (e : option Z)        (* Recv returned *)
| OAckProc (n : Z) (e : option Z)             (* handleAckMsg marked out as acked *)
| OBad (k : nat)                              (* the reader rejected a response *)
| OConnEnd (k : nat).                         (* execute returned *)

(* ------------------------------------------------------------------ *)
(* List helpers                                                        *)

Fixpoint upd_nth {A} (i : nat) (x : A) (l : list A) : list A :=
  match l, i with
  | [], _ => []
  | _ :: l', O => x :: l'
  | y :: l', S i' => y :: upd_nth i' x l'
  end.

Definition zopt_eqb (a : option Z) (b : option Z) : bool := option_eqb Z.eqb a b.

Definition seq_is (o : option smsg) (n : Z) : bool :=
  match o with Some m => Z.eqb (m_seq m) n | None => false end.

(* ------------------------------------------------------------------ *)
(* Broadcast: every goroutine blocked on the current channel is woken  *)

Definition wake_s (c : scall) : scall := mkS (s_msg c) (s_txed c) (s_sess c) (wake (s_w c)) (s_st c).
Definition wake_r (c : rcall) : rcall := mkR (wake (r_w c)) (r_st c).
Definition wake_c (c : cconn) : cconn := mkConn (wake (c_w c)) (c_rerr c).

Definition bcast (s : cstate) : cstate :=
  mkC (tk s) (map wake_s (sends s)) (map wake_r (recvs s)) (option_map wake_c (conn s)) (nonce s).

Definition bcast_if (b : bool) (s : cstate) : cstate := if b then bcast s else s.

Definition set_tk (t : tracker) (s : cstate) : cstate := mkC t (sends s) (recvs s) (conn s) (nonce s).
Definition set_send (i : nat) (c : scall) (s : cstate) : cstate :=
  mkC (tk s) (upd_nth i c (sends s)) (recvs s) (conn s) (nonce s).
Definition set_recv (j : nat) (c : rcall) (s : cstate) : cstate :=
  mkC (tk s) (sends s) (upd_nth j c (recvs s)) (conn s) (nonce s).
Definition set_conn (c : option cconn) (s : cstate) : cstate :=
  mkC (tk s) (sends s) (recvs s) c (nonce s).

(* ------------------------------------------------------------------ *)
(* Lock regions on the tracker                                         *)
(* Each returns the new tracker and whether broadcast() was called.    *)

(* handleClose *)
Definition h_close (t : tracker) : tracker * bool :=
  let b := match t_open t, t_out t, t_recv t with None, None, None => false | _, _, _ => true end in
  let has_out := match t_out t with Some _ => true | None => false end in
  let has_recv := match t_recv t with Some _ => true | None => false end in
  (mkT None None
       (if has_out then false else t_sent t) (if has_out then false else t_acked t)
       (if has_out then false else t_cancel t)
       None (if has_recv then false else t_proc t), b).

(* handleOpen seqno *)
Definition h_open (n : Z) (t : tracker) : tracker * bool :=
  if zopt_eqb (t_open t) (Some n) then (t, false)
  else (mkT (Some n) (t_out t) false false (t_cancel t) None false, true).

(* handleRecv, the lock region (after verification) *)
Definition h_recv (m : smsg) (t : tracker) : tracker * bool :=
  (mkT (t_open t) (t_out t) (t_sent t) (t_acked t) (t_cancel t) (Some m) false, true).

(* handleClearMsg n *)
Definition h_clear (n : Z) (t : tracker) : tracker * bool :=
  if seq_is (t_recv t) n
  then (mkT (t_open t) (t_out t) (t_sent t) (t_acked t) (t_cancel t) None false, true)
  else (t, false).

(* handleAckMsg n *)
Definition h_ack (n : Z) (t : tracker) : tracker * bool :=
  if seq_is (t_out t) n then
    if t_cancel t
    then (mkT (t_open t) None false false false (t_recv t) (t_proc t), true)
    else (mkT (t_open t) (t_out t) (t_sent t) true (t_cancel t) (t_recv t) (t_proc t), true)
  else (t, false).

(* did h_ack mark the pending message as acknowledged? *)
Definition ack_marks (n : Z) (t : tracker) : bool := seq_is (t_out t) n && negb (t_cancel t).

(* the execute loop's region: what it decides to transmit *)
Inductive loop_act := LNone | LCancel (e n : Z) | LSend (e : Z) (m : smsg) | LAck (e n : Z).

Definition h_loop (t : tracker) : tracker * loop_act :=
  match t_open t with
  | None => (t, LNone)
  | Some e =>
      match t_out t with
      | Some o =>
          if t_cancel t then
            (mkT (t_open t) None false false false (t_recv t) (t_proc t), LCancel e (m_seq o))
          else if negb (t_sent t) then
            (mkT (t_open t) (t_out t) true (t_acked t) (t_cancel t) (t_recv t) (t_proc t), LSend e o)
          else
            match t_recv t with
            | Some r => if t_proc t
                        then (mkT (t_open t) (t_out t) (t_sent t) (t_acked t) (t_cancel t) None false, LAck e (m_seq r))
                        else (t, LNone)
            | None => (t, LNone)
            end
      | None =>
          match t_recv t with
          | Some r => if t_proc t
                      then (mkT (t_open t) (t_out t) (t_sent t) (t_acked t) (t_cancel t) None false, LAck e (m_seq r))
                      else (t, LNone)
          | None => (t, LNone)
          end
      end
  end.

(* requests written after the region: `if ackRecvMsg != 0`, `if cancelMsg != 0`, `if sendMsg != nil` *)
Definition loop_reqs (a : loop_act) : list request :=
  match a with
  | LNone => []
  | LCancel e n => if Z.eqb n 0 then [] else [RClear e n]
  | LSend e m => [RSend e m]
  | LAck e n => if Z.eqb n 0 then [] else [RAck e n]
  end.

(* Send: one iteration of the for loop (one lock region).
   Result: new tracker, broadcast?, new call record. *)
Definition h_send_iter (t : tracker) (c : scall) : tracker * bool * scall :=
  let seqno := m_seq (s_msg c) in
  match t_open t with
  | None => (t, false, mkS (s_msg c) false (s_sess c) WWait SRun)
  | Some e =>
      (* Stream with remote was re-opened. *)
      let reopened := negb (zopt_eqb (s_sess c) (Some e)) in
      let txed1 := if reopened then s_txed c && seq_is (t_out t) seqno else s_txed c in
      let sess1 := if reopened then Some e else s_sess c in
      (* If we transmitted already make sure the connection didn't close in the meantime. *)
      let other := txed1 && match t_out t with Some o => negb (Z.eqb (m_seq o) seqno) | None => false end in
      if other then (t, false, mkS (s_msg c) false sess1 WWait SRun)
      else
        let txed2 := txed1 && match t_out t with Some _ => true | None => false end in
        if negb txed2 then
          match t_out t with
          | None =>
              (mkT (t_open t) (Some (s_msg c)) (t_sent t) (t_acked t) (t_cancel t) (t_recv t) (t_proc t),
               true, mkS (s_msg c) true sess1 WWait SRun)
          | Some _ => (t, false, mkS (s_msg c) false sess1 WWait SRun)
          end
        else if t_acked t then
          (mkT (t_open t) None false false (t_cancel t) (t_recv t) (t_proc t),
           true, mkS (s_msg c) true sess1 WReady SOk)
        else (t, false, mkS (s_msg c) true sess1 WWait SRun)
  end.

(* Send: ctx.Done taken in the select; the deferred region *)
Definition h_send_cancel (t : tracker) (c : scall) : tracker * bool :=
  if negb (s_txed c) then (t, false)
  else if seq_is (t_out t) (m_seq (s_msg c)) then
    if negb (t_sent t) || t_acked t
    then (mkT (t_open t) None false false false (t_recv t) (t_proc t), true)
    else if negb (t_cancel t)
         then (mkT (t_open t) (t_out t) (t_sent t) (t_acked t) true (t_recv t) (t_proc t), true)
         else (t, false)
  else (t, false).

(* Recv: one iteration *)
Definition h_recv_iter (t : tracker) : tracker * option smsg :=
  match t_recv t with
  | Some m => if t_proc t then (t, None)
              else (mkT (t_open t) (t_out t) (t_sent t) (t_acked t) (t_cancel t) (t_recv t) true, Some m)
  | None => (t, None)
  end.

(* ------------------------------------------------------------------ *)
(* Actions                                                             *)

Inductive action :=
| AConnStart                 (* execute starts: Session(), Init *)
| AResp (r : resp)           (* the reader goroutine handles one response *)
| ALoop                      (* one pass of the execute loop *)
| ALoopErr                   (* the select takes errCh: execute returns the reader's error *)
| AConnAbort                 (* ctx cancelled / stream send failed: execute returns *)
| ASendStart (body : bytes)  (* the application calls Send *)
| ASendIter (i : nat)
| ASendCancel (i : nat)      (* the caller's ctx is cancelled while Send waits *)
| ARecvStart                 (* the application calls Recv *)
| ARecvIter (j : nat)
| ARecvCancel (j : nat).

(* the reader goroutine: effect of one response on the tracker *)
Definition reader (c : cfg) (r : resp) (t : tracker) : outcome (tracker * bool) :=
  match r with
  | POpened n => Ok (h_open n t)
  | PClosed true => Ok (h_close t)
  | PClosed false => Ok (t, false)
  | PRecv None => Ok (t, false)
  | PRecv (Some m) => _ <- check_recv (peer_key c) m ;; Ok (h_recv m t)
  | PAck n => Ok (h_ack n t)
  | PClear n => Ok (h_clear n t)
  | PUnknown => Err EUnrecognized
  | PFail => Err EStream
  end.

(* execute returns: deferred sess.Close(); handleClose() *)
Definition conn_end (k : nat) (s : cstate) : cstate * list obs :=
  let '(t', b) := h_close (tk s) in
  (set_conn None (bcast_if b (set_tk t' s)), [OConnEnd k]).

Definition step (c : cfg) (s : cstate) (a : action) : option (cstate * list obs) :=
  match a with
  | AConnStart =>
      match conn s with
      | Some _ => None
      | None => Some (set_conn (Some (mkConn WReady None)) s, [OReq RInit])
      end
  | AResp r =>
      match conn s with
      | Some cn =>
          match c_rerr cn with
          | Some _ => None      (* the reader goroutine has returned *)
          | None =>
              match reader c r (tk s) with
              | Ok (t', b) =>
                  let o := match r with
                           | PAck n => if ack_marks n (tk s) then [OAckProc n (t_open (tk s))] else []
                           | _ => []
                           end in
                  Some (bcast_if b (set_tk t' s), o)
              | Err k => Some (set_conn (Some (mkConn (c_w cn) (Some k))) s, [OBad k])
              | Panic => None
              end
          end
      | None => None
      end
  | ALoop =>
      match conn s with
      | Some cn =>
          if runnable (c_w cn) then
            let '(t', la) := h_loop (tk s) in
            match la with
            | LNone => Some (set_conn (Some (mkConn WWait (c_rerr cn))) s, [])
            | _ => Some (set_conn (Some (mkConn WReady (c_rerr cn))) (bcast (set_tk t' s)),
                         map OReq (loop_reqs la))
            end
          else None
      | None => None
      end
  | ALoopErr =>
      match conn s with
      | Some cn =>
          match c_rerr cn with
          | Some k => if blocked (c_w cn) then Some (conn_end k s) else None
          | None => None
          end
      | None => None
      end
  | AConnAbort =>
      match conn s with
      | Some _ => Some (conn_end ECtx s)
      | None => None
      end
  | ASendStart body =>
      let seq := nonce s + 1 in
      let m := sign_msg (self_key c) body seq in
      match body with
      | [] => (* NewSessionMsg fails with ErrEmptyBody; the nonce is consumed *)
          Some (mkC (tk s) (sends s ++ [mkS m false None WReady SErr]) (recvs s) (conn s) seq, [])
      | _ :: _ =>
          Some (mkC (tk s) (sends s ++ [mkS m false None WReady SRun]) (recvs s) (conn s) seq, [])
      end
  | ASendIter i =>
      match nth_error (sends s) i with
      | Some cl =>
          match s_st cl with
          | SRun =>
              if runnable (s_w cl) then
                let '(t', b, cl') := h_send_iter (tk s) cl in
                let o := match s_st cl' with
                         | SOk => [OSendDone i true (s_msg cl) (t_open (tk s))]
                         | _ => []
                         end in
                Some (set_send i cl' (bcast_if b (set_tk t' s)), o)
              else None
          | _ => None
          end
      | None => None
      end
  | ASendCancel i =>
      match nth_error (sends s) i with
      | Some cl =>
          match s_st cl with
          | SRun =>
              if blocked (s_w cl) then
                let '(t', b) := h_send_cancel (tk s) cl in
                Some (set_send i (mkS (s_msg cl) (s_txed cl) (s_sess cl) WReady SCancelled)
                               (bcast_if b (set_tk t' s)),
                      [OSendDone i false (s_msg cl) (t_open (tk s))])
              else None
          | _ => None
          end
      | None => None
      end
  | ARecvStart =>
      Some (mkC (tk s) (sends s) (recvs s ++ [mkR WReady RRun]) (conn s) (nonce s), [])
  | ARecvIter j =>
      match nth_error (recvs s) j with
      | Some cl =>
          match r_st cl with
          | RRun =>
              if runnable (r_w cl) then
                match h_recv_iter (tk s) with
                | (t', Some m) =>
                    Some (set_recv j (mkR WReady (RGot m)) (bcast (set_tk t' s)),
                          [ORecvDone j (Some m) (t_open (tk s))])
                | (_, None) => Some (set_recv j (mkR WWait RRun) s, [])
                end
              else None
          | _ => None
          end
      | None => None
      end
  | ARecvCancel j =>
      match nth_error (recvs s) j with
      | Some cl =>
          match r_st cl with
          | RRun =>
              if blocked (r_w cl)
              then Some (set_recv j (mkR WReady RCancelled) s, [ORecvDone j None (t_open (tk s))])
              else None
          | _ => None
          end
      | None => None
      end
  end.

(* actions that are not enabled are skipped, so every action list is a history *)
Definition exec (c : cfg) (s : cstate) (a : action) : cstate * list obs :=
  match step c s a with Some r => r | None => (s, []) end.

Fixpoint run (c : cfg) (s : cstate) (l : list action) : cstate * list obs :=
  match l with
  | [] => (s, [])
  | a :: l' =>
      let '(s1, o1) := exec c s a in
      let '(s2, o2) := run c s1 l' in
      (s2, o1 ++ o2)
  end.

(* ------------------------------------------------------------------ *)
(* Deterministic scheduler used by the sequential correspondence and   *)
(* by the progress examples: run internal actions until none is enabled *)

Definition internal_candidates (s : cstate) : list action :=
  [ALoopErr; ALoop] ++ map ASendIter (seq 0 (length (sends s))) ++ map ARecvIter (seq 0 (length (recvs s))).

Fixpoint first_enabled (c : cfg) (s : cstate) (l : list action) : option (action * (cstate * list obs)) :=
  match l with
  | [] => None
  | a :: l' => match step c s a with
               | Some r => Some (a, r)
               | None => first_enabled c s l'
               end
  end.

Fixpoint settle (fuel : nat) (c : cfg) (s : cstate) : cstate * list obs * bool :=
  match fuel with
  | O => (s, [], false)
  | S f =>
      match first_enabled c s (internal_candidates s) with
      | None => (s, [], true)
      | Some (_, (s1, o1)) =>
          let '(s2, o2, q) := settle f c s1 in (s2, o1 ++ o2, q)
      end
  end.

Definition quiescent (c : cfg) (s : cstate) : bool :=
  match first_enabled c s (internal_candidates s) with None => true | Some _ => false end.
