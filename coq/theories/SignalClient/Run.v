(* Correspondence: sequential scripts against the real client behind a scripted
   relay.  After every operation the implementation is run to quiescence and
   the harness records the requests written to the stream, the errors with
   which execute returned, and a snapshot of the tracker and of every
   application call.  The model runs the same script with the deterministic
   scheduler [settle] and must produce exactly the same observations. *)
From Bifrost Require Export Lib.Base SignalClient.Model SignalClient.Compose.

Definition sgn_eqb (a b : sgn) : bool :=
  match a, b with
  | SigOf k c h x, SigOf k' c' h' x' => Nat.eqb k k' && bytes_eqb c c' && Z.eqb h h' && bytes_eqb x x'
  | SigJunk, SigJunk => true
  | _, _ => false
  end.

Definition from_eqb (a b : from_id) : bool :=
  match a, b with
  | FromKey k, FromKey k' => Nat.eqb k k'
  | FromBad, FromBad => true
  | _, _ => false
  end.

Definition att_eqb (a b : att_key) : bool :=
  match a, b with
  | AttNone, AttNone => true
  | AttKey k, AttKey k' => Nat.eqb k k'
  | AttBad, AttBad => true
  | _, _ => false
  end.

Definition smsg_eqb (a b : smsg) : bool :=
  from_eqb (m_from a) (m_from b) && bytes_eqb (m_data a) (m_data b) &&
  sgn_eqb (m_sig a) (m_sig b) && Z.eqb (m_seq a) (m_seq b) &&
  Z.eqb (m_ht a) (m_ht b) && att_eqb (m_att a) (m_att b).

Definition request_eqb (a b : request) : bool :=
  match a, b with
  | RInit, RInit => true
  | RSend e m, RSend e' m' => Z.eqb e e' && smsg_eqb m m'
  | RAck e n, RAck e' n' => Z.eqb e e' && Z.eqb n n'
  | RClear e n, RClear e' n' => Z.eqb e e' && Z.eqb n n'
  | _, _ => false
  end.

Definition tracker_eqb (a b : tracker) : bool :=
  zopt_eqb (t_open a) (t_open b) && option_eqb smsg_eqb (t_out a) (t_out b) &&
  Bool.eqb (t_sent a) (t_sent b) && Bool.eqb (t_acked a) (t_acked b) &&
  Bool.eqb (t_cancel a) (t_cancel b) && option_eqb smsg_eqb (t_recv a) (t_recv b) &&
  Bool.eqb (t_proc a) (t_proc b).

(* script operations *)
Inductive op :=
| OpConn                      (* start execute *)
| OpResp (r : resp)           (* the relay delivers one response *)
| OpAbort                     (* cancel execute's context *)
| OpSend (body : bytes)       (* the application calls Send in a new goroutine *)
| OpCancelSend (i : nat)
| OpRecv
| OpCancelRecv (j : nat)
| OpResp2 (r1 r2 : resp)      (* two responses queued back to back: the reader handles both before anybody else runs *)
| OpRecvC                     (* the application calls Recv with an ALREADY CANCELLED context *)
| OpSendC (body : bytes)      (* the application calls Send with an already cancelled context *)
| OpHold                      (* the relay stops reading: the client's next stream write blocks *)
| OpRelease.                  (* the blocked write returns *)

Definition op_action (o : op) : action :=
  match o with
  | OpConn => AConnStart
  | OpResp r => AResp r
  | OpAbort => AConnAbort
  | OpSend b => ASendStart b
  | OpCancelSend i => ASendCancel i
  | OpRecv => ARecvStart
  | OpCancelRecv j => ARecvCancel j
  | _ => ARecvCancel 0%nat (* unused: see op_actions *)
  end.

(* the actions an operation stands for, performed before anybody else runs *)
Definition op_actions (s : cstate) (o : op) : list action :=
  match o with
  | OpResp2 r1 r2 => [AResp r1; AResp r2]
  | OpRecvC => let j := length (recvs s) in [ARecvStart; ARecvIter j; ARecvCancel j]
  | OpSendC b => let i := length (sends s) in [ASendStart b; ASendIter i; ASendCancel i]
  | OpHold | OpRelease => []
  | _ => [op_action o]
  end.

(* status codes: Send 0 running, 1 ok, 2 cancelled, 3 error;
   Recv: running = (0, None), got = (1, Some m), cancelled = (2, None) *)
Definition send_code (c : scall) : nat :=
  match s_st c with SRun => 0 | SOk => 1 | SCancelled => 2 | SErr => 3 end%nat.
Definition recv_code (c : rcall) : nat * option smsg :=
  match r_st c with RRun => (0, None) | RGot m => (1, Some m) | RCancelled => (2, None) end%nat.

Record opobs := mkO {
  o_reqs : list request;        (* requests written during this operation *)
  o_ends : list nat;            (* error classes with which execute returned *)
  o_up : bool;                  (* execute running afterwards *)
  o_tk : tracker;
  o_sends : list nat;
  o_recvs : list (nat * option smsg) }.

Fixpoint reqs_of (l : list obs) : list request :=
  match l with
  | [] => []
  | OReq r :: l' => r :: reqs_of l'
  | _ :: l' => reqs_of l'
  end.

Fixpoint ends_of (l : list obs) : list nat :=
  match l with
  | [] => []
  | OConnEnd k :: l' => k :: ends_of l'
  | _ :: l' => ends_of l'
  end.

Definition recvobs_eqb (a b : nat * option smsg) : bool :=
  Nat.eqb (fst a) (fst b) && option_eqb smsg_eqb (snd a) (snd b).

Definition opobs_agree (s : cstate) (o : list obs) (w : opobs) : bool :=
  list_eqb request_eqb (reqs_of o) (o_reqs w) &&
  list_eqb Nat.eqb (ends_of o) (o_ends w) &&
  Bool.eqb (match conn s with Some _ => true | None => false end) (o_up w) &&
  tracker_eqb (tk s) (o_tk w) &&
  list_eqb Nat.eqb (map send_code (sends s)) (o_sends w) &&
  list_eqb recvobs_eqb (map recv_code (recvs s)) (o_recvs w).

Definition settle_fuel : nat := 400%nat.

(* one script step: the operation, then internal actions until quiescence *)
Definition script_step (c : cfg) (s : cstate) (o : op) : cstate * list obs * bool :=
  let '(s1, o1) := exec c s (op_action o) in
  let '(s2, o2, q) := settle settle_fuel c s1 in
  (s2, o1 ++ o2, q).

(* Back pressure: while the relay holds the stream, the loop pass that writes a
   request blocks in that write (the request is already on its way) and the
   loop goroutine does nothing else until the write returns. *)
Definition emits (o : list obs) : bool := match reqs_of o with [] => false | _ => true end.

Definition held_candidates (stuck : bool) (s : cstate) : list action :=
  if stuck
  then map ASendIter (seq 0 (length (sends s))) ++ map ARecvIter (seq 0 (length (recvs s)))
  else internal_candidates s.

Fixpoint settleH (fuel : nat) (c : cfg) (held stuck : bool) (s : cstate) : cstate * list obs * bool * bool :=
  match fuel with
  | O => (s, [], false, stuck)
  | S f =>
      match first_enabled c s (held_candidates stuck s) with
      | None => (s, [], true, stuck)
      | Some (a, (s1, o1)) =>
          let stuck1 := stuck || (held && match a with ALoop => emits o1 | _ => false end) in
          let '(s2, o2, q, st2) := settleH f c held stuck1 s1 in (s2, o1 ++ o2, q, st2)
      end
  end.

Record sstate := mkSS { ss_c : cstate; ss_held : bool; ss_stuck : bool }.

Definition script_stepH (c : cfg) (z : sstate) (o : op) : sstate * list obs * bool :=
  let held := match o with OpHold => true | OpRelease => false | _ => ss_held z end in
  let stuck := match o with OpRelease => false | _ => ss_stuck z end in
  let '(s1, o1) := run c (ss_c z) (op_actions (ss_c z) o) in
  let '(s2, o2, q, st2) := settleH settle_fuel c held stuck s1 in
  (mkSS s2 held st2, o1 ++ o2, q).

Fixpoint script_agree (c : cfg) (z : sstate) (ops : list op) (ws : list opobs) : bool :=
  match ops, ws with
  | [], [] => true
  | o :: ops', w :: ws' =>
      let '(z1, ob, q) := script_stepH c z o in
      q && opobs_agree (ss_c z1) ob w && script_agree c z1 ops' ws'
  | _, _ => false
  end.

Inductive script_case :=
| Script (self peer : nat) (ops : list op) (obs : list opobs).

Definition script_case_agree (c : script_case) : bool :=
  match c with
  | Script self peer ops ws => script_agree (mkCfg self peer) (mkSS c_init false false) ops ws
  end.

(* ------------------------------------------------------------------ *)
(* Composition scripts: the real relay server between two real clients.
   After every operation everything is run to quiescence; the model uses the
   deterministic scheduler [wsettle]. *)

Inductive wop :=
| WoConn (x : bool)                    (* client x starts execute (a new stream to the relay) *)
| WoFail (x : bool)                    (* the stream of x breaks *)
| WoSend (x : bool) (body : bytes)
| WoCancelSend (x : bool) (i : nat)
| WoRecv (x : bool)
| WoCancelRecv (x : bool) (j : nat)
| WoRecvC (x : bool)                   (* Recv with an already cancelled context *)
| WoSendC (x : bool) (body : bytes).   (* Send with an already cancelled context *)

Definition wop_action (o : wop) : wact :=
  match o with
  | WoConn x => WConn x
  | WoFail x => WFail x
  | WoSend x b => WCli x (ASendStart b)
  | WoCancelSend x i => WCli x (ASendCancel i)
  | WoRecv x => WCli x ARecvStart
  | WoCancelRecv x j => WCli x (ARecvCancel j)
  | WoRecvC x => WCli x ARecvStart
  | WoSendC x b => WCli x (ASendStart b)
  end.

Definition wop_actions (w : world) (o : wop) : list wact :=
  match o with
  | WoRecvC x => let j := length (recvs (s_cl (gs x w))) in
                 [WCli x ARecvStart; WCli x (ARecvIter j); WCli x (ARecvCancel j)]
  | WoSendC x b => let i := length (sends (s_cl (gs x w))) in
                   [WCli x (ASendStart b); WCli x (ASendIter i); WCli x (ASendCancel i)]
  | _ => [wop_action o]
  end.

Definition side_internal (x : bool) (w : world) : list wact :=
  let c := s_cl (gs x w) in
  [RDetach x; RAttach x; RReq x; RLoop x; WDeliver x; WCli x ALoopErr; WCli x ALoop] ++
  map (fun i => WCli x (ASendIter i)) (seq 0 (length (sends c))) ++
  map (fun j => WCli x (ARecvIter j)) (seq 0 (length (recvs c))).

Fixpoint wfirst_enabled (w : world) (l : list wact) : option (world * list (bool * obs)) :=
  match l with
  | [] => None
  | a :: l' => match wstep w a with Some r => Some r | None => wfirst_enabled w l' end
  end.

Fixpoint wsettle (fuel : nat) (w : world) : world * list (bool * obs) * bool :=
  match fuel with
  | O => (w, [], false)
  | S f =>
      match wfirst_enabled w (side_internal true w ++ side_internal false w) with
      | None => (w, [], true)
      | Some (w1, o1) => let '(w2, o2, q) := wsettle f w1 in (w2, o1 ++ o2, q)
      end
  end.

Definition wquiescent (w : world) : bool :=
  match wfirst_enabled w (side_internal true w ++ side_internal false w) with None => true | Some _ => false end.

Record sideobs := mkSO {
  so_up : bool; so_tk : tracker; so_sends : list nat; so_recvs : list (nat * option smsg) }.

Definition side_agree (c : cstate) (w : sideobs) : bool :=
  Bool.eqb (match conn c with Some _ => true | None => false end) (so_up w) &&
  tracker_eqb (tk c) (so_tk w) &&
  list_eqb Nat.eqb (map send_code (sends c)) (so_sends w) &&
  list_eqb recvobs_eqb (map recv_code (recvs c)) (so_recvs w).

Definition wsettle_fuel : nat := 2000%nat.

Definition wscript_step (w : world) (o : wop) : world * list (bool * obs) * bool :=
  let '(w1, o1) := wrun w (wop_actions w o) in
  let '(w2, o2, q) := wsettle wsettle_fuel w1 in
  (w2, o1 ++ o2, q).

Fixpoint wscript_agree (w : world) (ops : list wop) (ws : list (sideobs * sideobs)) : bool :=
  match ops, ws with
  | [], [] => true
  | o :: ops', (oa, ob) :: ws' =>
      let '(w1, _, q) := wscript_step w o in
      q && side_agree (s_cl (w_a w1)) oa && side_agree (s_cl (w_b w1)) ob && wscript_agree w1 ops' ws'
  | _, _ => false
  end.

Inductive sig_case :=
| SC (c : script_case)
| WC (ops : list wop) (obs : list (sideobs * sideobs)).

Definition sig_case_agree (c : sig_case) : bool :=
  match c with
  | SC s => script_case_agree s
  | WC ops ws => wscript_agree w_init ops ws
  end.

Definition c19_case := script_case.
Definition c19_agree := script_case_agree.
Definition c21_case := sig_case.
Definition c21_agree := sig_case_agree.
Definition c23_case := sig_case.
Definition c23_agree := sig_case_agree.
