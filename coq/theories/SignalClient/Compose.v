(* Composition: two honest clients (the client LTS of Model.v), FIFO streams,
   and a compact model of the relay's Session RPC for this one pair of peers
   (signaling/rpc/server/session.go as it is now, i.e. with pending acks and
   clears dropped on every epoch change).  Serves the end-to-end halves of C21
   and C23.  No proofs here. *)
From Bifrost Require Import Lib.Base SignalClient.Model.

(* sessionPeerTracker *)
Record mbox := mkMb {
  b_recv : option smsg;     (* recv *)
  b_sent : option Z;        (* recvSent *)
  b_clear : option Z;       (* recvClear *)
  b_acked : option Z }.     (* outAcked *)

Definition mb_empty : mbox := mkMb None None None None.

(* one Session call of the relay *)
Record relcall := mkRc {
  rc_box : mbox;
  rc_prev : option Z;       (* prevSentOpenToLocal *)
  rc_w : wst;               (* the write loop *)
  rc_linked : bool }.       (* its stream is the client's current stream *)

Record side := mkSide {
  s_cl : cstate;            (* the client *)
  s_cq : list request;      (* client -> relay, not yet read *)
  s_rq : list resp;         (* relay -> client, not yet read *)
  s_call : option relcall }.

Record world := mkW { w_a : side; w_b : side; w_epoch : Z }.

Definition side_init : side := mkSide c_init [] [] None.
Definition w_init : world := mkW side_init side_init 0.

(* side true = peer A (key 0), side false = peer B (key 1) *)
Definition key_of (x : bool) : nat := if x then 0%nat else 1%nat.
Definition cfg_of (x : bool) : cfg := mkCfg (key_of x) (key_of (negb x)).

Definition gs (x : bool) (w : world) : side := if x then w_a w else w_b w.
Definition ss (x : bool) (v : side) (w : world) : world :=
  if x then mkW v (w_b w) (w_epoch w) else mkW (w_a w) v (w_epoch w).
Definition set_epoch (e : Z) (w : world) : world := mkW (w_a w) (w_b w) e.

Definition set_cl (c : cstate) (s : side) : side := mkSide c (s_cq s) (s_rq s) (s_call s).
Definition set_cq (q : list request) (s : side) : side := mkSide (s_cl s) q (s_rq s) (s_call s).
Definition set_rq (q : list resp) (s : side) : side := mkSide (s_cl s) (s_cq s) q (s_call s).
Definition set_call (c : option relcall) (s : side) : side := mkSide (s_cl s) (s_cq s) (s_rq s) c.

Definition set_box (b : mbox) (c : relcall) : relcall := mkRc b (rc_prev c) (rc_w c) (rc_linked c).
Definition wake_rc (c : relcall) : relcall := mkRc (rc_box c) (rc_prev c) (wake (rc_w c)) (rc_linked c).
Definition unlink (c : relcall) : relcall := mkRc (rc_box c) (rc_prev c) (rc_w c) false.

(* sess.broadcast(): both write loops *)
Definition sess_bcast (w : world) : world :=
  mkW (set_call (option_map wake_rc (s_call (w_a w))) (w_a w))
      (set_call (option_map wake_rc (s_call (w_b w))) (w_b w)) (w_epoch w).

(* what attach and detach do to the remaining peer's mailbox:
   recv, recvSent = nil, nil; recvClear, outAcked = nil, nil *)
Definition clear_partner (c : relcall) : relcall := set_box mb_empty c.

Fixpoint reqs_of_obs (l : list obs) : list request :=
  match l with
  | [] => []
  | OReq r :: l' => r :: reqs_of_obs l'
  | _ :: l' => reqs_of_obs l'
  end.

Fixpoint ended (l : list obs) : bool :=
  match l with
  | [] => false
  | OConnEnd _ :: _ => true
  | _ :: l' => ended l'
  end.

Inductive wact :=
| WCli (x : bool) (a : action)   (* an application call or a goroutine of client x (not AConnStart / AResp) *)
| WConn (x : bool)               (* client x starts execute: a new stream *)
| WDeliver (x : bool)            (* the reader of client x handles the next response *)
| WFail (x : bool)               (* the stream of x breaks *)
| RAttach (x : bool)             (* relay: Session() of x reads Init and registers *)
| RReq (x : bool)                (* relay: the read goroutine of x handles the next request *)
| RLoop (x : bool)               (* relay: one pass of the write loop of x *)
| RDetach (x : bool)             (* relay: the call of x, whose stream is gone, returns *)
| WDrop (x : bool) (req : bool) (k : nat).
                                 (* message-dropping relay / network: the k-th queued request (req) or
                                    response of x is lost; Init and Opened/Closed are never dropped *)

Fixpoint remove_nth {A} (k : nat) (l : list A) : list A :=
  match l, k with
  | [], _ => []
  | _ :: l', O => l'
  | y :: l', S k' => y :: remove_nth k' l'
  end.

Definition droppable_req (r : request) : bool := match r with RInit => false | _ => true end.
Definition droppable_resp (r : resp) : bool :=
  match r with PRecv _ | PAck _ | PClear _ => true | _ => false end.

Definition tag (x : bool) (l : list obs) : list (bool * obs) := map (fun o => (x, o)) l.

(* the stream of x is gone: queues dropped, the relay call (if any) is a zombie *)
Definition drop_stream (s : side) : side :=
  mkSide (s_cl s) [] [] (option_map unlink (s_call s)).

Definition client_allowed (a : action) : bool :=
  match a with AConnStart | AResp _ => false | _ => true end.

(* handleSendMsg / handleAckMsg / handleClearMsg of the call of x *)
Inductive req_result := QErr | QDone (w : world).

Definition relay_req (x : bool) (r : request) (w : world) : req_result :=
  let me := gs x w in
  let pa := gs (negb x) w in
  match r with
  | RInit => QErr                                    (* ErrUnexpectedSessionMsg *)
  | RSend e m =>
      match check_recv (key_of x) m with
      | Ok _ =>
          if w_epoch w <? e then QErr                (* checkSeqno: too high *)
          else if negb (e =? w_epoch w) then QDone w (* stale: dropped *)
          else match s_call pa with
               | None => QDone w
               | Some pc =>
                   let b := rc_box pc in
                   QDone (sess_bcast (ss (negb x)
                            (set_call (Some (set_box (mkMb (Some m) None (b_clear b) (b_acked b)) pc)) pa) w))
               end
      | _ => QErr
      end
  | RAck e n =>
      if w_epoch w <? e then QErr
      else if negb (e =? w_epoch w) then QDone w
      else match s_call me, s_call pa with
           | Some mc, Some pc =>
               if zopt_eqb (b_sent (rc_box mc)) (Some n) then
                 let mb := rc_box mc in
                 let pb := rc_box pc in
                 let w1 := ss x (set_call (Some (set_box (mkMb (b_recv mb) None (b_clear mb) (b_acked mb)) mc)) me) w in
                 let pa1 := gs (negb x) w1 in
                 QDone (sess_bcast (ss (negb x)
                          (set_call (Some (set_box (mkMb (b_recv pb) (b_sent pb) (b_clear pb) (Some n)) pc)) pa1) w1))
               else QDone w
           | _, _ => QDone w
           end
  | RClear e n =>
      if w_epoch w <? e then QErr
      else if negb (e =? w_epoch w) then QDone w
      else match s_call pa with
           | Some pc =>
               let pb := rc_box pc in
               if seq_is (b_recv pb) n then
                 QDone (ss (negb x) (set_call (Some (set_box (mkMb None (b_sent pb) (b_clear pb) (b_acked pb)) pc)) pa) w)
               else if zopt_eqb (b_sent pb) (Some n) then
                 QDone (ss (negb x) (set_call (Some (set_box (mkMb (b_recv pb) None (Some n) (b_acked pb)) pc)) pa) w)
               else QDone w
           | None => QDone w
           end
  end.

Definition opt_resp {A} (o : option A) (f : A -> resp) : list resp :=
  match o with Some a => [f a] | None => [] end.

Definition wstep (w : world) (a : wact) : option (world * list (bool * obs)) :=
  match a with
  | WCli x ca =>
      if client_allowed ca then
        let sd := gs x w in
        match step (cfg_of x) (s_cl sd) ca with
        | Some (c', o) =>
            let sd1 := mkSide c' (s_cq sd ++ reqs_of_obs o) (s_rq sd) (s_call sd) in
            let sd2 := if ended o then drop_stream sd1 else sd1 in
            Some (ss x sd2 w, tag x o)
        | None => None
        end
      else None
  | WConn x =>
      let sd := gs x w in
      match step (cfg_of x) (s_cl sd) AConnStart with
      | Some (c', o) => Some (ss x (mkSide c' (reqs_of_obs o) [] (s_call sd)) w, tag x o)
      | None => None
      end
  | WDeliver x =>
      let sd := gs x w in
      match s_rq sd with
      | r :: rest =>
          match step (cfg_of x) (s_cl sd) (AResp r) with
          | Some (c', o) => Some (ss x (mkSide c' (s_cq sd) rest (s_call sd)) w, tag x o)
          | None => None
          end
      | [] => None
      end
  | WFail x =>
      let sd := gs x w in
      match step (cfg_of x) (s_cl sd) (AResp PFail) with
      | Some (c', o) => Some (ss x (drop_stream (set_cl c' sd)) w, tag x o)
      | None => None
      end
  | RAttach x =>
      let sd := gs x w in
      match s_cq sd with
      | RInit :: rest =>
          (* own side := a fresh tracker; the remaining peer's mailbox is cleared;
             seqno++; wait channel taken, then broadcast: the first pass runs at once *)
          let w1 := ss x (mkSide (s_cl sd) rest (s_rq sd) (Some (mkRc mb_empty None WReady true))) w in
          let pa := gs (negb x) w1 in
          let w2 := ss (negb x) (set_call (option_map (fun c => wake_rc (clear_partner c)) (s_call pa)) pa) w1 in
          Some (set_epoch (w_epoch w + 1) w2, [])
      | _ => None
      end
  | RReq x =>
      let sd := gs x w in
      match s_call sd, s_cq sd with
      | Some c, r :: rest =>
          if rc_linked c then
            let w1 := ss x (set_cq rest sd) w in
            match relay_req x r w1 with
            | QDone w2 => Some (w2, [])
            | QErr =>
                (* the call returns with an error: the stream ends for the client too *)
                let sd1 := gs x w1 in
                match step (cfg_of x) (s_cl sd1) (AResp PFail) with
                | Some (c', o) => Some (ss x (drop_stream (set_cl c' sd1)) w1, tag x o)
                | None => Some (ss x (drop_stream sd1) w1, [])
                end
            end
          else None
      | _, _ => None
      end
  | RLoop x =>
      let sd := gs x w in
      let pa := gs (negb x) w in
      match s_call sd with
      | Some c =>
          if runnable (rc_w c) then
            let op := match s_call pa with Some _ => Some (w_epoch w) | None => None end in
            let b := rc_box c in
            (* the wait channel is taken first: a broadcast in this region wakes this loop again *)
            let took := match op with Some _ => true | None => false end in
            let b' := if took then mkMb None (match b_recv b with Some m => Some (m_seq m) | None => b_sent b end) None None
                      else b in
            let announce := if zopt_eqb (rc_prev c) op then []
                            else match op with Some e => [POpened e] | None => [PClosed true] end in
            let out := if took
                       then opt_resp (b_acked b) PAck ++ opt_resp (b_clear b) PClear ++
                            opt_resp (b_recv b) (fun m => PRecv (Some m))
                       else [] in
            let c' := mkRc b' op WWait (rc_linked c) in
            let sd' := mkSide (s_cl sd) (s_cq sd) (if rc_linked c then s_rq sd ++ announce ++ out else s_rq sd) (Some c') in
            let w1 := ss x sd' w in
            let w2 := if took then match b_recv b with Some _ => sess_bcast w1 | None => w1 end else w1 in
            Some (w2, [])
          else None
      | None => None
      end
  | RDetach x =>
      let sd := gs x w in
      match s_call sd with
      | Some c =>
          if rc_linked c then None
          else
            let w1 := ss x (set_call None sd) w in
            let pa := gs (negb x) w1 in
            let w2 := ss (negb x) (set_call (option_map (fun c => wake_rc (clear_partner c)) (s_call pa)) pa) w1 in
            (* seqno++; maybeReleaseSession: with no peer left the tracker is deleted and the
               next Session call starts a fresh one at seqno 0 *)
            Some (set_epoch (match s_call pa with Some _ => w_epoch w + 1 | None => 0 end) w2, [])
      | None => None
      end
  | WDrop x req k =>
      let sd := gs x w in
      if req then
        match nth_error (s_cq sd) k with
        | Some r => if droppable_req r then Some (ss x (set_cq (remove_nth k (s_cq sd)) sd) w, []) else None
        | None => None
        end
      else
        match nth_error (s_rq sd) k with
        | Some r => if droppable_resp r then Some (ss x (set_rq (remove_nth k (s_rq sd)) sd) w, []) else None
        | None => None
        end
  end.

Definition wexec (w : world) (a : wact) : world * list (bool * obs) :=
  match wstep w a with Some r => r | None => (w, []) end.

Fixpoint wrun (w : world) (l : list wact) : world * list (bool * obs) :=
  match l with
  | [] => (w, [])
  | a :: l' =>
      let '(w1, o1) := wexec w a in
      let '(w2, o2) := wrun w1 l' in
      (w2, o1 ++ o2)
  end.
