(* Client-level trace facts used by the end-to-end proof of C21:
   - an ack request for n in epoch e is preceded by Recv returning a message
     with sequence number n in epoch e;
   - messages transmitted and reported by Send are the Send calls' messages,
     which carry pairwise different sequence numbers;
   - how one step changes the session epoch and the receive slot. *)
From Bifrost Require Import Lib.Base SignalClient.Model SignalClient.StepCases SignalClient.Compose.

Ltac crush :=
  cbn in *;
  repeat match goal with
         | |- context [match ?x with _ => _ end] => destruct x eqn:?; cbn in *
         | H : context [match ?x with _ => _ end] |- _ => destruct x eqn:?; cbn in *
         end; try congruence; auto.

(* ------------------------------------------------------------------ *)
(* T2: ack requests are justified by a returned Recv                   *)

Definition invR (H : list obs) (t : tracker) : Prop :=
  forall m, t_recv t = Some m -> t_proc t = true -> exists j, In (ORecvDone j (Some m) (t_open t)) H.

Definition ack_justified (H : list obs) (o : list obs) : Prop :=
  forall e n, In (OReq (RAck e n)) o ->
    exists j m, m_seq m = n /\ In (ORecvDone j (Some m) (Some e)) H.

Lemma invR_mono H H' t : invR H t -> invR (H ++ H') t.
Proof. intros I m E P. destruct (I m E P) as [j Hj]. exists j. apply in_or_app; auto. Qed.

Lemma reader_invR c r t t' b H : reader c r t = Ok (t', b) -> invR H t -> invR H t'.
Proof.
  intros E I. destruct r as [n|[|]|[m|]|n|n| |]; cbn [reader] in E; try discriminate.
  - unfold h_open in E. destruct (zopt_eqb (t_open t) (Some n)); inversion E; subst; auto.
    intros m; cbn; discriminate.
  - unfold h_close in E. inversion E; subst. intros m; cbn; discriminate.
  - inversion E; subst; auto.
  - unfold obind in E. destruct (check_recv (peer_key c) m) as [[]| |]; inversion E; subst.
    intros m'; cbn; discriminate.
  - inversion E; subst; auto.
  - unfold h_ack in E. destruct (seq_is (t_out t) n); [destruct (t_cancel t)|]; inversion E; subst; auto.
  - unfold h_clear in E. destruct (seq_is (t_recv t) n); inversion E; subst; auto.
    intros m; cbn; discriminate.
Qed.

Lemma region_invR a t t' o H :
  region a t t' o -> invR H t -> invR (H ++ o) t' /\ ack_justified H o.
Proof.
  intros R I. destruct R.
  - split; [apply invR_mono, I|]. intros e n Hin. specialize (H0 _ Hin). destruct H0.
  - split; [apply invR_mono; eapply reader_invR; eauto|].
    intros e n Hin. destruct r; try (destruct Hin; fail).
    destruct (ack_marks n0 t); [destruct Hin as [E|[]]; discriminate|destruct Hin].
  - unfold h_loop in H0.
    destruct (t_open t) as [e|] eqn:Eo.
    2:{ inversion H0; subst. cbn. rewrite app_nil_r. split; auto. intros ? ? []. }
    assert (Hack : forall t1 r, t_recv t = Some r -> t_proc t = true -> t_recv t1 = None ->
                   invR (H ++ map OReq (loop_reqs (LAck e (m_seq r)))) t1 /\
                   ack_justified H (map OReq (loop_reqs (LAck e (m_seq r))))).
    { intros t1 r Er Ep E1. split; [intros m; rewrite E1; discriminate|].
      intros e' n Hin. cbn in Hin. destruct (m_seq r =? 0); [destruct Hin|].
      destruct Hin as [E|[]]. inversion E; subst. destruct (I r Er Ep) as [j Hj]. rewrite Eo in Hj. eauto. }
    assert (Hkeep : forall t1 la0, t_recv t1 = t_recv t -> t_proc t1 = t_proc t -> t_open t1 = t_open t ->
                    (forall e' n, ~ In (OReq (RAck e' n)) (map OReq (loop_reqs la0))) ->
                    invR (H ++ map OReq (loop_reqs la0)) t1 /\ ack_justified H (map OReq (loop_reqs la0))).
    { intros t1 la0 E1 E2 E3 Hno. split.
      - apply invR_mono. intros m Em Ep. rewrite E1 in Em. rewrite E2 in Ep. rewrite E3. auto.
      - intros e' n Hin. destruct (Hno _ _ Hin). }
    destruct (t_out t) as [o|] eqn:Eout.
    + destruct (t_cancel t).
      * inversion H0; subst. apply Hkeep; auto. intros e' n. cbn. destruct (m_seq o =? 0); cbn; [tauto|]. intros [E|[]]; discriminate.
      * destruct (negb (t_sent t)).
        -- inversion H0; subst. apply Hkeep; auto. intros e' n. cbn. intros [E|[]]; discriminate.
        -- destruct (t_recv t) as [r|] eqn:Er; [destruct (t_proc t) eqn:Ep|]; inversion H0; subst.
           ++ apply Hack; auto.
           ++ cbn. rewrite app_nil_r. split; auto. intros ? ? [].
           ++ cbn. rewrite app_nil_r. split; auto. intros ? ? [].
    + destruct (t_recv t) as [r|] eqn:Er; [destruct (t_proc t) eqn:Ep|]; inversion H0; subst.
      * apply Hack; auto.
      * cbn. rewrite app_nil_r. split; auto. intros ? ? [].
      * cbn. rewrite app_nil_r. split; auto. intros ? ? [].
  - unfold h_close in H0. inversion H0; subst. split; [intros m; cbn; discriminate|].
    intros e n [E|[]]; discriminate.
  - assert (E3 : t_recv t' = t_recv t /\ t_proc t' = t_proc t /\ t_open t' = t_open t).
    { unfold h_send_iter in H0.
      repeat match type of H0 with context [match ?x with _ => _ end] => destruct x eqn:? end;
        inversion H0; subst; cbn; auto. }
    destruct E3 as (E1 & E2 & E3). split.
    + apply invR_mono. intros m Em Ep. rewrite E1 in Em. rewrite E2 in Ep. rewrite E3. auto.
    + intros e n Hin. destruct (s_st cl'); try (destruct Hin; fail). destruct Hin as [E|[]]; discriminate.
  - assert (E3 : t_recv t' = t_recv t /\ t_proc t' = t_proc t /\ t_open t' = t_open t).
    { unfold h_send_cancel in H0.
      repeat match type of H0 with context [match ?x with _ => _ end] => destruct x eqn:? end;
        inversion H0; subst; cbn; auto. }
    destruct E3 as (E1 & E2 & E3). split.
    + apply invR_mono. intros m Em Ep. rewrite E1 in Em. rewrite E2 in Ep. rewrite E3. auto.
    + intros e n [E|[]]; discriminate.
  - unfold h_recv_iter in H0. destruct (t_recv t) as [r|] eqn:Er; [|discriminate].
    destruct (t_proc t) eqn:Ep; [discriminate|]. inversion H0; subst. split.
    + intros m' Em _. cbn in *. inversion Em; subst. exists j. apply in_or_app. right. left. reflexivity.
    + intros e n [E|[]]; discriminate.
Qed.

Lemma run_invR c acts : forall H s s' tr,
  invR H (tk s) -> run c s acts = (s', tr) ->
  invR (H ++ tr) (tk s') /\
  (forall pre post e n, tr = pre ++ OReq (RAck e n) :: post ->
     exists j m, m_seq m = n /\ In (ORecvDone j (Some m) (Some e)) (H ++ pre)).
Proof.
  induction acts as [|a acts IH]; intros H s s' tr I R; cbn [run] in R.
  - inversion R; subst. rewrite app_nil_r. split; auto. intros [|? ?] ? ? ? E; discriminate.
  - destruct (exec c s a) as [s1 o1] eqn:E1. destruct (run c s1 acts) as [s2 o2] eqn:E2. inversion R; subst.
    assert (S1 : invR (H ++ o1) (tk s1) /\ ack_justified H o1).
    { unfold exec in E1. destruct (step c s a) as [[sx ox]|] eqn:Es; inversion E1; subst.
      - eapply region_invR; eauto. eapply step_region; eauto.
      - rewrite app_nil_r. split; auto. intros ? ? []. }
    destruct S1 as [I1 J1]. destruct (IH (H ++ o1) s1 s' o2 I1 E2) as [I2 J2].
    rewrite app_assoc. split; auto.
    intros pre post e n Eq.
    assert (Hsplit : (exists post1, o1 = pre ++ OReq (RAck e n) :: post1) \/
                     (exists pre2, pre = o1 ++ pre2 /\ o2 = pre2 ++ OReq (RAck e n) :: post)).
    { clear - Eq. revert pre Eq. induction o1 as [|x o1 IHo]; intros pre Eq; cbn in *.
      - right. exists pre. split; auto.
      - destruct pre as [|y pre]; cbn in *.
        + inversion Eq; subst. left. exists o1. reflexivity.
        + inversion Eq; subst. destruct (IHo pre H1) as [(p1 & Hp)|(p2 & Hp & Hq)].
          * left. exists p1. rewrite Hp. reflexivity.
          * right. exists p2. split; auto. rewrite Hp. reflexivity. }
    destruct Hsplit as [(post1 & Hp)|(pre2 & Hp & Hq)].
    + destruct (J1 e n) as (j & m & Hm & Hi). { rewrite Hp. apply in_or_app. right. left. reflexivity. }
      exists j, m. split; auto. apply in_or_app. left. exact Hi.
    + subst pre. rewrite app_assoc. apply (J2 pre2 post e n Hq).
Qed.

Theorem ack_request_after_recv : forall c acts s tr pre post e n,
  run c c_init acts = (s, tr) ->
  tr = pre ++ OReq (RAck e n) :: post ->
  exists j m, m_seq m = n /\ In (ORecvDone j (Some m) (Some e)) pre.
Proof.
  intros c acts s tr pre post e n R E.
  destruct (run_invR c acts [] c_init s tr) as [_ H]; auto.
  - intros m; cbn; discriminate.
  - apply (H pre post e n E).
Qed.

(* ------------------------------------------------------------------ *)
(* messages of the Send calls                                          *)

Definition msgs (s : cstate) : list smsg := map s_msg (sends s).

Definition seq_ok (l : list smsg) : Prop :=
  forall i m, nth_error l i = Some m -> m_seq m = Z.of_nat i + 1.

Definition invM (s : cstate) : Prop :=
  seq_ok (msgs s) /\ nonce s = Z.of_nat (length (sends s)) /\
  (forall m, t_out (tk s) = Some m -> In m (msgs s)).

Lemma map_upd_nth_same {A B} (f : A -> B) i x y l :
  nth_error l i = Some y -> f x = f y -> map f (upd_nth i x l) = map f l.
Proof.
  revert i; induction l as [|z l IH]; intros [|i] H E; cbn in *; try discriminate; auto.
  - inversion H; subst. rewrite E. reflexivity.
  - rewrite (IH i H E). reflexivity.
Qed.

Lemma msgs_wake l : map s_msg (map wake_s l) = map s_msg l.
Proof. rewrite map_map. reflexivity. Qed.

Lemma out_close t : t_out (fst (h_close t)) = None. Proof. reflexivity. Qed.
Lemma out_reader c r t t' b : reader c r t = Ok (t', b) -> t_out t' = t_out t \/ t_out t' = None.
Proof.
  intros E. destruct r as [n|[|]|[m|]|n|n| |]; cbn [reader] in E; try discriminate.
  - unfold h_open in E. destruct (zopt_eqb (t_open t) (Some n)); inversion E; subst; auto.
  - inversion E; subst; auto.
  - inversion E; subst; auto.
  - unfold obind in E. destruct (check_recv (peer_key c) m) as [[]| |]; inversion E; subst; auto.
  - inversion E; subst; auto.
  - unfold h_ack in E. destruct (seq_is (t_out t) n); [destruct (t_cancel t)|]; inversion E; subst; auto.
  - unfold h_clear in E. destruct (seq_is (t_recv t) n); inversion E; subst; auto.
Qed.

Lemma out_loop t t' la : h_loop t = (t', la) ->
  (t_out t' = t_out t \/ t_out t' = None) /\
  (forall e m, In (OReq (RSend e m)) (map OReq (loop_reqs la)) -> t_out t = Some m).
Proof.
  intros E. unfold h_loop in E.
  repeat match type of E with context [match ?x with _ => _ end] => destruct x eqn:? end;
    inversion E; subst; cbn; (split; [auto|]); intros e m Hin;
    repeat match type of Hin with context [if ?x then _ else _] => destruct x; cbn in Hin end;
    try (destruct Hin as [Hx|[]]; inversion Hx; subst; auto; fail); try (destruct Hin; fail).
Qed.

Lemma out_send_iter t cl t' b cl' : h_send_iter t cl = (t', b, cl') ->
  s_msg cl' = s_msg cl /\ (t_out t' = t_out t \/ t_out t' = None \/ t_out t' = Some (s_msg cl)).
Proof.
  intros E. unfold h_send_iter in E.
  repeat match type of E with context [match ?x with _ => _ end] => destruct x eqn:? end;
    inversion E; subst; cbn; auto.
Qed.

Lemma out_send_cancel t cl t' b : h_send_cancel t cl = (t', b) -> t_out t' = t_out t \/ t_out t' = None.
Proof.
  intros E. unfold h_send_cancel in E.
  repeat match type of E with context [match ?x with _ => _ end] => destruct x eqn:? end;
    inversion E; subst; cbn; auto.
Qed.

Lemma out_recv_iter t t' r : h_recv_iter t = (t', r) -> t_out t' = t_out t.
Proof.
  intros E. unfold h_recv_iter in E.
  repeat match type of E with context [match ?x with _ => _ end] => destruct x eqn:? end;
    inversion E; subst; cbn; auto.
Qed.

Definition step_facts (s : cstate) (o : list obs) : Prop :=
  (forall e m, In (OReq (RSend e m)) o -> In m (msgs s)) /\
  (forall i ok m eo, In (OSendDone i ok m eo) o -> nth_error (msgs s) i = Some m).

Lemma no_facts s o :
  (forall x, In x o -> match x with OReq (RSend _ _) | OSendDone _ _ _ _ => False | _ => True end) ->
  step_facts s o.
Proof.
  intros Hn. split.
  - intros e m Hin. destruct (Hn _ Hin).
  - intros i ok m eo Hin. destruct (Hn _ Hin).
Qed.

Lemma keep_invM s s' :
  invM s -> msgs s' = msgs s -> nonce s' = nonce s -> length (sends s') = length (sends s) ->
  (t_out (tk s') = t_out (tk s) \/ t_out (tk s') = None) -> invM s'.
Proof.
  intros (U & N & O) Em En El Eo. unfold invM. rewrite Em, En, El. repeat split; auto.
  intros m Hm. destruct Eo as [E|E]; rewrite E in Hm; [auto|discriminate].
Qed.

Lemma length_upd_nth {A} i (x : A) l : length (upd_nth i x l) = length l.
Proof. revert i; induction l as [|y l IH]; intros [|i]; cbn; auto. Qed.

Lemma step_invM c s a s' o :
  step c s a = Some (s', o) -> invM s ->
  invM s' /\ (exists ext, msgs s' = msgs s ++ ext) /\ step_facts s o.
Proof.
  intros St Iv. pose proof Iv as (U & N & O).
  assert (Hsame : forall s1, msgs s1 = msgs s -> exists ext, msgs s1 = msgs s ++ ext).
  { intros s1 E. exists []. rewrite app_nil_r. exact E. }
  assert (Hb : forall b s0, msgs (bcast_if b s0) = msgs s0 /\ nonce (bcast_if b s0) = nonce s0 /\
                            length (sends (bcast_if b s0)) = length (sends s0)).
  { intros [|] s0; cbn; auto. unfold msgs; cbn. rewrite msgs_wake, map_length. auto. }
  destruct a; cbn [step] in St.
  - destruct (conn s); inversion St; subst. split; [|split].
    + apply (keep_invM s); auto.
    + apply Hsame; reflexivity.
    + apply no_facts. intros x [<-|[]]; exact I.
  - destruct (conn s) as [cn|]; [|discriminate]. destruct (c_rerr cn); [discriminate|].
    destruct (reader c r (tk s)) as [[t' b]|k|] eqn:ER; [| |discriminate]; inversion St; subst.
    + destruct (Hb b (set_tk t' s)) as (B1 & B2 & B3). split; [|split].
      * apply (keep_invM s); auto. rewrite tk_bcast_if_. cbn. eapply out_reader; eauto.
      * apply Hsame; auto.
      * apply no_facts. intros x Hin. destruct r; try (destruct Hin; fail).
        destruct (ack_marks n (tk s)); [destruct Hin as [<-|[]]; exact I|destruct Hin].
    + split; [|split]; [apply (keep_invM s); auto|apply Hsame; reflexivity|].
      apply no_facts. intros x [<-|[]]; exact I.
  - destruct (conn s) as [cn|]; [|discriminate]. destruct (runnable (c_w cn)); [|discriminate].
    destruct (h_loop (tk s)) as [t' la] eqn:E. destruct (out_loop _ _ _ E) as [Ho Hs].
    assert (F : step_facts s (map OReq (loop_reqs la))).
    { split.
      - intros e m Hin. apply O. eapply Hs; eauto.
      - intros i ok m eo Hin. apply in_map_iff in Hin as (x & Hx & _). discriminate. }
    destruct la; inversion St; subst.
    + split; [|split]; [apply (keep_invM s); auto|apply Hsame; reflexivity|apply no_facts; intros x []].
    + split; [|split]; [apply (keep_invM s); cbn; auto|apply Hsame; unfold msgs; cbn; apply msgs_wake|exact F].
      * unfold msgs; cbn; apply msgs_wake.
      * rewrite map_length; reflexivity.
    + split; [|split]; [apply (keep_invM s); cbn; auto|apply Hsame; unfold msgs; cbn; apply msgs_wake|exact F].
      * unfold msgs; cbn; apply msgs_wake.
      * rewrite map_length; reflexivity.
    + split; [|split]; [apply (keep_invM s); cbn; auto|apply Hsame; unfold msgs; cbn; apply msgs_wake|exact F].
      * unfold msgs; cbn; apply msgs_wake.
      * rewrite map_length; reflexivity.
  - destruct (conn s) as [cn|]; [|discriminate]. destruct (c_rerr cn); [|discriminate].
    destruct (blocked (c_w cn)); [|discriminate]. unfold conn_end in St.
    destruct (h_close (tk s)) as [t' b] eqn:E. inversion St; subst.
    destruct (Hb b (set_tk t' s)) as (B1 & B2 & B3). split; [|split].
    + apply (keep_invM s); auto. cbn [tk set_conn]. rewrite tk_bcast_if_. cbn. right.
      replace t' with (fst (h_close (tk s))) by (rewrite E; reflexivity). reflexivity.
    + apply Hsame; auto.
    + apply no_facts. intros x [<-|[]]; exact I.
  - destruct (conn s) as [cn|]; [|discriminate]. unfold conn_end in St.
    destruct (h_close (tk s)) as [t' b] eqn:E. inversion St; subst.
    destruct (Hb b (set_tk t' s)) as (B1 & B2 & B3). split; [|split].
    + apply (keep_invM s); auto. cbn [tk set_conn]. rewrite tk_bcast_if_. cbn. right.
      replace t' with (fst (h_close (tk s))) by (rewrite E; reflexivity). reflexivity.
    + apply Hsame; auto.
    + apply no_facts. intros x [<-|[]]; exact I.
  - (* ASendStart *)
    assert (G : forall st, invM (mkC (tk s) (sends s ++ [mkS (sign_msg (self_key c) body (nonce s + 1)) false None WReady st])
                                    (recvs s) (conn s) (nonce s + 1)) /\
                           msgs (mkC (tk s) (sends s ++ [mkS (sign_msg (self_key c) body (nonce s + 1)) false None WReady st])
                                    (recvs s) (conn s) (nonce s + 1)) = msgs s ++ [sign_msg (self_key c) body (nonce s + 1)]).
    { intros st. split; [|unfold msgs; cbn; rewrite map_app; reflexivity].
      unfold invM, msgs; cbn. rewrite map_app. cbn. repeat split.
      - intros i m Hn. destruct (Nat.lt_ge_cases i (length (map s_msg (sends s)))) as [Hl|Hl].
        + rewrite nth_error_app1 in Hn by exact Hl. apply U. exact Hn.
        + rewrite nth_error_app2 in Hn by exact Hl. rewrite map_length in *.
          destruct (i - length (sends s))%nat as [|k] eqn:Ek; cbn in Hn; [|destruct k; discriminate].
          inversion Hn; subst. cbn. rewrite N. lia.
      - rewrite app_length. cbn. rewrite N. lia.
      - intros m Hm. apply in_or_app. left. apply O, Hm. }
    destruct body; inversion St; subst.
    + destruct (G SErr) as [G1 G2]. split; [exact G1|split; [eexists; exact G2|apply no_facts; intros x []]].
    + destruct (G SRun) as [G1 G2]. split; [exact G1|split; [eexists; exact G2|apply no_facts; intros x []]].
  - destruct (nth_error (sends s) i) as [cl|] eqn:En; [|discriminate].
    destruct (s_st cl); try discriminate. destruct (runnable (s_w cl)); [|discriminate].
    destruct (h_send_iter (tk s) cl) as [[t' b] cl'] eqn:E. inversion St; subst.
    destruct (out_send_iter _ _ _ _ _ E) as [Em Eo].
    assert (Hin_cl : In (s_msg cl) (msgs s)).
    { unfold msgs. apply in_map. eapply nth_error_In; eauto. }
    assert (Hm : msgs (set_send i cl' (bcast_if b (set_tk t' s))) = msgs s).
    { unfold msgs; cbn [sends set_send]. destruct b; cbn.
      - rewrite (map_upd_nth_same s_msg i cl' (wake_s cl)); [apply msgs_wake| |exact Em].
        rewrite nth_error_map, En. reflexivity.
      - apply (map_upd_nth_same s_msg i cl' cl); auto. }
    split; [|split].
    + unfold invM. rewrite Hm. cbn [tk set_send nonce sends]. rewrite tk_bcast_if_. cbn [tk set_tk].
      repeat split; auto.
      * rewrite length_upd_nth. destruct b; cbn; [rewrite map_length|]; exact N.
      * intros m Hm'. destruct Eo as [Eo|[Eo|Eo]]; rewrite Eo in Hm'; try discriminate; auto.
        inversion Hm'; subst. exact Hin_cl.
    + apply Hsame, Hm.
    + split.
      * intros e m Hin. destruct (s_st cl'); try (destruct Hin; fail). destruct Hin as [Hx|[]]; discriminate.
      * intros i0 ok m eo Hin. destruct (s_st cl'); try (destruct Hin; fail).
        destruct Hin as [Hx|[]]. inversion Hx; subst. unfold msgs. rewrite nth_error_map, En. reflexivity.
  - destruct (nth_error (sends s) i) as [cl|] eqn:En; [|discriminate].
    destruct (s_st cl); try discriminate. destruct (blocked (s_w cl)); [|discriminate].
    destruct (h_send_cancel (tk s) cl) as [t' b] eqn:E. inversion St; subst.
    assert (Hm : msgs (set_send i (mkS (s_msg cl) (s_txed cl) (s_sess cl) WReady SCancelled) (bcast_if b (set_tk t' s))) = msgs s).
    { unfold msgs; cbn [sends set_send]. destruct b; cbn.
      - rewrite (map_upd_nth_same s_msg i _ (wake_s cl)); [apply msgs_wake| |reflexivity].
        rewrite nth_error_map, En. reflexivity.
      - apply (map_upd_nth_same s_msg i _ cl); auto. }
    split; [|split].
    + apply (keep_invM s); [exact Iv|exact Hm| | |].
      * cbn [nonce set_send]. destruct b; reflexivity.
      * cbn [sends set_send]. rewrite length_upd_nth. destruct b; cbn; [rewrite map_length|]; reflexivity.
      * cbn [tk set_send]. rewrite tk_bcast_if_. cbn. eapply out_send_cancel; eauto.
    + apply Hsame, Hm.
    + split.
      * intros e m [Hx|[]]; discriminate.
      * intros i0 ok m eo [Hx|[]]. inversion Hx; subst. unfold msgs. rewrite nth_error_map, En. reflexivity.
  - inversion St; subst. split; [|split]; [apply (keep_invM s); auto|apply Hsame; reflexivity|apply no_facts; intros x []].
  - destruct (nth_error (recvs s) j) as [cl|]; [|discriminate].
    destruct (r_st cl); try discriminate. destruct (runnable (r_w cl)); [|discriminate].
    destruct (h_recv_iter (tk s)) as [t' [m|]] eqn:E; inversion St; subst.
    + split; [|split].
      * apply (keep_invM s); cbn; auto; [unfold msgs; cbn; apply msgs_wake|rewrite map_length; reflexivity|].
        left. eapply out_recv_iter; eauto.
      * apply Hsame. unfold msgs; cbn; apply msgs_wake.
      * apply no_facts. intros x [<-|[]]; exact I.
    + split; [|split]; [apply (keep_invM s); auto|apply Hsame; reflexivity|apply no_facts; intros x []].
  - destruct (nth_error (recvs s) j) as [cl|]; [|discriminate].
    destruct (r_st cl); try discriminate. destruct (blocked (r_w cl)); [|discriminate].
    inversion St; subst. split; [|split]; [apply (keep_invM s); auto|apply Hsame; reflexivity|].
    apply no_facts. intros x [<-|[]]; exact I.
Qed.

Lemma invM_init : invM c_init.
Proof. unfold invM, msgs; cbn. repeat split; try discriminate. intros [|i] m; discriminate. Qed.

(* over a whole history *)
Lemma run_invM c acts : forall s s' tr,
  invM s -> run c s acts = (s', tr) ->
  invM s' /\ (exists ext, msgs s' = msgs s ++ ext) /\
  (forall e m, In (OReq (RSend e m)) tr -> In m (msgs s')) /\
  (forall i ok m eo, In (OSendDone i ok m eo) tr -> nth_error (msgs s') i = Some m).
Proof.
  induction acts as [|a acts IH]; intros s s' tr I R; cbn [run] in R.
  - inversion R; subst. split; auto. split; [exists []; rewrite app_nil_r; reflexivity|]. split; intros; contradiction.
  - destruct (exec c s a) as [s1 o1] eqn:E1. destruct (run c s1 acts) as [s2 o2] eqn:E2. inversion R; subst.
    assert (S1 : invM s1 /\ (exists ext, msgs s1 = msgs s ++ ext) /\ step_facts s o1).
    { unfold exec in E1. destruct (step c s a) as [[sx ox]|] eqn:Es; inversion E1; subst.
      - eapply step_invM; eauto.
      - split; auto. split; [exists []; rewrite app_nil_r; reflexivity|apply no_facts; intros x []]. }
    destruct S1 as (I1 & [ext1 X1] & [F1 F2]).
    destruct (IH s1 s' o2 I1 E2) as (I2 & [ext2 X2] & G1 & G2).
    split; auto. split; [exists (ext1 ++ ext2); rewrite X2, X1, app_assoc; reflexivity|].
    split.
    + intros e m Hin. apply in_app_or in Hin as [Hin|Hin]; [|eauto].
      rewrite X2, X1. apply in_or_app. left. apply in_or_app. left. eapply F1; eauto.
    + intros i ok m eo Hin. apply in_app_or in Hin as [Hin|Hin]; [|eauto].
      rewrite X2, X1. specialize (F2 _ _ _ _ Hin).
      rewrite nth_error_app1; [rewrite nth_error_app1; auto|].
      * apply nth_error_Some. congruence.
      * rewrite app_length. assert (i < length (msgs s))%nat by (apply nth_error_Some; congruence). lia.
Qed.

(* two messages of the same client with the same sequence number are equal *)
Lemma seq_ok_inj l m m' i :
  seq_ok l -> nth_error l i = Some m -> In m' l -> m_seq m' = m_seq m -> m' = m.
Proof.
  intros U Hn Hin Es. apply In_nth_error in Hin as [i' Hn'].
  pose proof (U _ _ Hn) as E1. pose proof (U _ _ Hn') as E2.
  assert (i' = i) by lia. subst. congruence.
Qed.

(* ------------------------------------------------------------------ *)
(* how one step changes the epoch, the receive slot, the connection    *)

Definition scan_step (o : option Z) (r : resp) : option Z :=
  match r with POpened n => Some n | PClosed true => None | _ => o end.

Lemma open_step c s a s' o :
  step c s a = Some (s', o) ->
  t_open (tk s') =
  match a with
  | AResp r => scan_step (t_open (tk s)) r
  | ALoopErr | AConnAbort => None
  | _ => t_open (tk s)
  end.
Proof.
  intros St. destruct a; cbn [step] in St.
  - destruct (conn s); inversion St; subst; reflexivity.
  - destruct (conn s) as [cn|]; [|discriminate]. destruct (c_rerr cn); [discriminate|].
    destruct (reader c r (tk s)) as [[t' b]|k|] eqn:ER; [| |discriminate]; inversion St; subst.
    + rewrite tk_bcast_if_. cbn [tk set_tk].
      destruct r as [n|[|]|[m|]|n|n| |]; cbn [reader] in ER; try discriminate; cbn [scan_step].
      * unfold h_open in ER. destruct (zopt_eqb (t_open (tk s)) (Some n)) eqn:Ez; inversion ER; subst; auto.
        unfold zopt_eqb, option_eqb in Ez. destruct (t_open (tk s)); [|discriminate]. apply Z.eqb_eq in Ez. congruence.
      * inversion ER; subst; reflexivity.
      * inversion ER; subst; reflexivity.
      * unfold obind in ER. destruct (check_recv (peer_key c) m) as [[]| |]; inversion ER; subst; reflexivity.
      * inversion ER; subst; reflexivity.
      * unfold h_ack in ER. destruct (seq_is (t_out (tk s)) n); [destruct (t_cancel (tk s))|]; inversion ER; subst; reflexivity.
      * unfold h_clear in ER. destruct (seq_is (t_recv (tk s)) n); inversion ER; subst; reflexivity.
    + cbn [tk set_conn]. destruct r as [n|[|]|[m|]|n|n| |]; cbn [reader] in ER; try discriminate; try reflexivity.
  - destruct (conn s) as [cn|]; [|discriminate]. destruct (runnable (c_w cn)); [|discriminate].
    destruct (h_loop (tk s)) as [t' la] eqn:E.
    assert (t_open t' = t_open (tk s)).
    { unfold h_loop in E. repeat match type of E with context [match ?x with _ => _ end] => destruct x eqn:? end;
        inversion E; subst; cbn; auto. }
    destruct la; inversion St; subst; cbn [tk set_conn bcast set_tk]; auto.
  - destruct (conn s) as [cn|]; [|discriminate]. destruct (c_rerr cn); [|discriminate].
    destruct (blocked (c_w cn)); [|discriminate]. unfold conn_end in St.
    destruct (h_close (tk s)) as [t' b] eqn:E. inversion St; subst. cbn [tk set_conn]. rewrite tk_bcast_if_.
    cbn. unfold h_close in E. inversion E; reflexivity.
  - destruct (conn s) as [cn|]; [|discriminate]. unfold conn_end in St.
    destruct (h_close (tk s)) as [t' b] eqn:E. inversion St; subst. cbn [tk set_conn]. rewrite tk_bcast_if_.
    cbn. unfold h_close in E. inversion E; reflexivity.
  - destruct body; inversion St; subst; reflexivity.
  - destruct (nth_error (sends s) i) as [cl|]; [|discriminate].
    destruct (s_st cl); try discriminate. destruct (runnable (s_w cl)); [|discriminate].
    destruct (h_send_iter (tk s) cl) as [[t' b] cl'] eqn:E. inversion St; subst.
    cbn [tk set_send]. rewrite tk_bcast_if_. cbn.
    unfold h_send_iter in E. repeat match type of E with context [match ?x with _ => _ end] => destruct x eqn:? end;
      inversion E; subst; cbn; auto.
  - destruct (nth_error (sends s) i) as [cl|]; [|discriminate].
    destruct (s_st cl); try discriminate. destruct (blocked (s_w cl)); [|discriminate].
    destruct (h_send_cancel (tk s) cl) as [t' b] eqn:E. inversion St; subst.
    cbn [tk set_send]. rewrite tk_bcast_if_. cbn.
    unfold h_send_cancel in E. repeat match type of E with context [match ?x with _ => _ end] => destruct x eqn:? end;
      inversion E; subst; cbn; auto.
  - inversion St; subst; reflexivity.
  - destruct (nth_error (recvs s) j) as [cl|]; [|discriminate].
    destruct (r_st cl); try discriminate. destruct (runnable (r_w cl)); [|discriminate].
    destruct (h_recv_iter (tk s)) as [t' [m|]] eqn:E; inversion St; subst; cbn [tk set_recv bcast set_tk]; auto.
    unfold h_recv_iter in E. repeat match type of E with context [match ?x with _ => _ end] => destruct x eqn:? end;
      inversion E; subst; cbn; auto.
  - destruct (nth_error (recvs s) j) as [cl|]; [|discriminate].
    destruct (r_st cl); try discriminate. destruct (blocked (r_w cl)); [|discriminate].
    inversion St; subst; reflexivity.
Qed.

(* the receive slot only ever takes a message delivered by the relay, and
   Recv only returns the message in the slot *)
Lemma recv_region a t t' o :
  region a t t' o ->
  (forall m, t_recv t' = Some m -> t_recv t = Some m \/ a = AResp (PRecv (Some m))) /\
  (forall j m eo, In (ORecvDone j (Some m) eo) o -> t_recv t = Some m).
Proof.
  intros R. destruct R.
  - split; auto. intros j m eo Hin. specialize (H _ Hin). destruct H.
  - split.
    + intros m Hm. destruct r as [n|[|]|[m0|]|n|n| |]; cbn [reader] in H; try discriminate.
      * unfold h_open in H. destruct (zopt_eqb (t_open t) (Some n)); inversion H; subst; auto. discriminate.
      * inversion H; subst. discriminate.
      * inversion H; subst; auto.
      * unfold obind in H. destruct (check_recv (peer_key c) m0) as [[]| |]; inversion H; subst.
        cbn in Hm. inversion Hm; subst. auto.
      * inversion H; subst; auto.
      * unfold h_ack in H. destruct (seq_is (t_out t) n); [destruct (t_cancel t)|]; inversion H; subst; auto.
      * unfold h_clear in H. destruct (seq_is (t_recv t) n); inversion H; subst; auto. discriminate.
    + intros j m eo Hin. destruct r; try (destruct Hin; fail).
      destruct (ack_marks n t); [destruct Hin as [E|[]]; discriminate|destruct Hin].
  - split.
    + intros m Hm. left. unfold h_loop in H.
      repeat match type of H with context [match ?x with _ => _ end] => destruct x eqn:? end;
        inversion H; subst; cbn in *; try discriminate; auto; try congruence.
    + intros j m eo Hin. apply in_map_iff in Hin as (x & Hx & _). discriminate.
  - split.
    + intros m Hm. unfold h_close in H. inversion H; subst. discriminate.
    + intros j m eo [E|[]]; discriminate.
  - split.
    + intros m Hm. left. unfold h_send_iter in H.
      repeat match type of H with context [match ?x with _ => _ end] => destruct x eqn:? end;
        inversion H; subst; cbn in *; auto; try congruence.
    + intros j m eo Hin. destruct (s_st cl'); try (destruct Hin; fail). destruct Hin as [E|[]]; discriminate.
  - split.
    + intros m Hm. left. unfold h_send_cancel in H.
      repeat match type of H with context [match ?x with _ => _ end] => destruct x eqn:? end;
        inversion H; subst; cbn in *; auto; try congruence.
    + intros j m eo [E|[]]; discriminate.
  - split.
    + intros m' Hm. left. unfold h_recv_iter in H.
      repeat match type of H with context [match ?x with _ => _ end] => destruct x eqn:? end;
        inversion H; subst; cbn in *; auto; try congruence.
    + intros j0 m' eo [E|[]]. inversion E; subst. unfold h_recv_iter in H.
      destruct (t_recv t); [destruct (t_proc t)|]; inversion H; subst; reflexivity.
Qed.

(* events of a step *)
Lemma ackproc_region a t t' o n eo :
  region a t t' o -> In (OAckProc n eo) o -> a = AResp (PAck n) /\ eo = t_open t.
Proof.
  intros R Hin. destruct R.
  - specialize (H _ Hin). destruct H.
  - destruct r; try (destruct Hin; fail). destruct (ack_marks n0 t); [|destruct Hin].
    destruct Hin as [E|[]]. inversion E; subst. auto.
  - apply in_map_iff in Hin as (x & Hx & _). discriminate.
  - destruct Hin as [E|[]]; discriminate.
  - destruct (s_st cl'); try (destruct Hin; fail). destruct Hin as [E|[]]; discriminate.
  - destruct Hin as [E|[]]; discriminate.
  - destruct Hin as [E|[]]; discriminate.
Qed.

Lemma senddone_region a t t' o i m eo :
  region a t t' o -> In (OSendDone i true m eo) o -> exists e, eo = Some e.
Proof.
  intros R Hin. destruct R.
  - specialize (H _ Hin). destruct H.
  - destruct r; try (destruct Hin; fail). destruct (ack_marks n t); [destruct Hin as [E|[]]; discriminate|destruct Hin].
  - apply in_map_iff in Hin as (x & Hx & _). discriminate.
  - destruct Hin as [E|[]]; discriminate.
  - destruct (s_st cl') eqn:Es; try (destruct Hin; fail). destruct Hin as [E|[]]. inversion E; subst.
    unfold h_send_iter in H. destruct (t_open t); eauto. inversion H; subst. discriminate.
  - destruct Hin as [E|[]]; discriminate.
  - destruct Hin as [E|[]]; discriminate.
Qed.

(* requests written by a step *)
Lemma reqs_step c s a s' o r :
  step c s a = Some (s', o) -> In (OReq r) o ->
  (a = AConnStart /\ r = RInit) \/ (a = ALoop /\ r <> RInit).
Proof.
  intros St Hin. pose proof (step_region _ _ _ _ _ St) as R. destruct R.
  - specialize (H _ Hin). destruct r; try destruct H. left. split; auto.
    destruct a; cbn [step] in St; auto.
    + destruct (conn s) as [cn|]; [|discriminate]. destruct (c_rerr cn); [discriminate|].
      destruct (reader c r (tk s)) as [[t' b]|k|]; inversion St; subst.
      * destruct r; try (destruct Hin; fail). destruct (ack_marks n (tk s)); [destruct Hin as [E|[]]; discriminate|destruct Hin].
      * destruct Hin as [E|[]]; discriminate.
    + destruct (conn s) as [cn|]; [|discriminate]. destruct (runnable (c_w cn)); [|discriminate].
      destruct (h_loop (tk s)) as [t' la]. destruct la; inversion St; subst; cbn in Hin;
        repeat match type of Hin with context [if ?x then _ else _] => destruct x; cbn in Hin end;
        try (destruct Hin as [E|[]]; discriminate); try (destruct Hin; fail).
    + destruct (conn s) as [cn|]; [|discriminate]. destruct (c_rerr cn); [|discriminate].
      destruct (blocked (c_w cn)); [|discriminate]. unfold conn_end in St. destruct (h_close (tk s)).
      inversion St; subst. destruct Hin as [E|[]]; discriminate.
    + destruct (conn s) as [cn|]; [|discriminate]. unfold conn_end in St. destruct (h_close (tk s)).
      inversion St; subst. destruct Hin as [E|[]]; discriminate.
    + destruct body; inversion St; subst; destruct Hin.
    + destruct (nth_error (sends s) i) as [cl|]; [|discriminate]. destruct (s_st cl); try discriminate.
      destruct (runnable (s_w cl)); [|discriminate]. destruct (h_send_iter (tk s) cl) as [[t' b] cl'].
      inversion St; subst. destruct (s_st cl'); try (destruct Hin; fail). destruct Hin as [E|[]]; discriminate.
    + destruct (nth_error (sends s) i) as [cl|]; [|discriminate]. destruct (s_st cl); try discriminate.
      destruct (blocked (s_w cl)); [|discriminate]. destruct (h_send_cancel (tk s) cl).
      inversion St; subst. destruct Hin as [E|[]]; discriminate.
    + inversion St; subst. destruct Hin.
    + destruct (nth_error (recvs s) j) as [cl|]; [|discriminate]. destruct (r_st cl); try discriminate.
      destruct (runnable (r_w cl)); [|discriminate]. destruct (h_recv_iter (tk s)) as [t' [m|]]; inversion St; subst.
      * destruct Hin as [E|[]]; discriminate.
      * destruct Hin.
    + destruct (nth_error (recvs s) j) as [cl|]; [|discriminate]. destruct (r_st cl); try discriminate.
      destruct (blocked (r_w cl)); [|discriminate]. inversion St; subst. destruct Hin as [E|[]]; discriminate.
  - destruct r0; try (destruct Hin; fail). destruct (ack_marks n t); [destruct Hin as [E|[]]; discriminate|destruct Hin].
  - right. split; auto. apply in_map_iff in Hin as (x & Hx & Hi). inversion Hx; subst.
    destruct la; cbn in Hi; repeat match type of Hi with context [if ?x then _ else _] => destruct x; cbn in Hi end;
      try (destruct Hi as [E|[]]; subst; discriminate); destruct Hi.
  - destruct Hin as [E|[]]; discriminate.
  - destruct (s_st cl'); try (destruct Hin; fail). destruct Hin as [E|[]]; discriminate.
  - destruct Hin as [E|[]]; discriminate.
  - destruct Hin as [E|[]]; discriminate.
Qed.

(* the connection *)
Lemma conn_step c s a s' o :
  step c s a = Some (s', o) ->
  match a with
  | AConnStart => conn s = None /\ conn s' <> None /\ ended o = false
  | ALoopErr | AConnAbort => conn s <> None /\ conn s' = None /\ ended o = true
  | _ => (conn s = None <-> conn s' = None) /\ ended o = false
  end.
Proof.
  intros St. destruct a; cbn [step] in St.
  - destruct (conn s); inversion St; subst; cbn. repeat split; auto. discriminate.
  - destruct (conn s) as [cn|] eqn:Ec; [|discriminate]. destruct (c_rerr cn); [discriminate|].
    destruct (reader c r (tk s)) as [[t' b]|k|]; inversion St; subst.
    + split; [destruct b; cbn; rewrite ?Ec; cbn; split; intros; discriminate|].
      destruct r; try reflexivity. destruct (ack_marks n (tk s)); reflexivity.
    + cbn. split; [split; intros; discriminate|reflexivity].
  - destruct (conn s) as [cn|] eqn:Ec; [|discriminate]. destruct (runnable (c_w cn)); [|discriminate].
    destruct (h_loop (tk s)) as [t' la].
    destruct la; inversion St; subst; cbn; rewrite ?Ec; cbn; (split; [split; intros; discriminate|]); auto;
      repeat match goal with |- context [if ?x then _ else _] => destruct x; cbn end; reflexivity.
  - destruct (conn s) as [cn|] eqn:Ec; [|discriminate]. destruct (c_rerr cn); [|discriminate].
    destruct (blocked (c_w cn)); [|discriminate]. unfold conn_end in St. destruct (h_close (tk s)).
    inversion St; subst; cbn. repeat split; auto. discriminate.
  - destruct (conn s) as [cn|] eqn:Ec; [|discriminate]. unfold conn_end in St. destruct (h_close (tk s)).
    inversion St; subst; cbn. repeat split; auto. discriminate.
  - destruct body; inversion St; subst; cbn; split; tauto.
  - destruct (nth_error (sends s) i) as [cl|]; [|discriminate]. destruct (s_st cl); try discriminate.
    destruct (runnable (s_w cl)); [|discriminate]. destruct (h_send_iter (tk s) cl) as [[t' b] cl'].
    inversion St; subst. split.
    + cbn [conn set_send]. destruct b; cbn; destruct (conn s); cbn; split; intros; congruence.
    + destruct (s_st cl'); reflexivity.
  - destruct (nth_error (sends s) i) as [cl|]; [|discriminate]. destruct (s_st cl); try discriminate.
    destruct (blocked (s_w cl)); [|discriminate]. destruct (h_send_cancel (tk s) cl) as [t' b].
    inversion St; subst. split; [|reflexivity].
    cbn [conn set_send]. destruct b; cbn; destruct (conn s); cbn; split; intros; congruence.
  - inversion St; subst; cbn; split; tauto.
  - destruct (nth_error (recvs s) j) as [cl|]; [|discriminate]. destruct (r_st cl); try discriminate.
    destruct (runnable (r_w cl)); [|discriminate]. destruct (h_recv_iter (tk s)) as [t' [m|]]; inversion St; subst.
    + split; [|reflexivity]. cbn. destruct (conn s); cbn; split; intros; congruence.
    + cbn; split; tauto.
  - destruct (nth_error (recvs s) j) as [cl|]; [|discriminate]. destruct (r_st cl); try discriminate.
    destruct (blocked (r_w cl)); [|discriminate]. inversion St; subst; cbn; split; tauto.
Qed.
