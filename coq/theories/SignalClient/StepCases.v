(* A case-analysis principle for [step]: every transition is one tracker
   region applied to the tracker plus bookkeeping that does not touch it. *)
From Bifrost Require Import Lib.Base SignalClient.Model.

Lemma tk_bcast_if_ b s : tk (bcast_if b s) = tk s.
Proof. destruct b; reflexivity. Qed.

(* what a transition did, seen from the tracker *)
Inductive region : action -> tracker -> tracker -> list obs -> Prop :=
| RgNone a t o : (forall x, In x o -> match x with OReq RInit | OBad _ | OSendDone _ false _ _ | ORecvDone _ None _ => True | _ => False end) ->
    region a t t o
| RgReader r t t' b c : reader c r t = Ok (t', b) ->
    region (AResp r) t t'
      (match r with PAck n => if ack_marks n t then [OAckProc n (t_open t)] else [] | _ => [] end)
| RgLoop t t' la : h_loop t = (t', la) -> region ALoop t t' (map OReq (loop_reqs la))
| RgEnd a t t' b k : h_close t = (t', b) -> region a t t' [OConnEnd k]
| RgSendIter i t t' b cl cl' : h_send_iter t cl = (t', b, cl') -> s_st cl = SRun ->
    region (ASendIter i) t t' (match s_st cl' with SOk => [OSendDone i true (s_msg cl) (t_open t)] | _ => [] end)
| RgSendCancel i t t' b cl : h_send_cancel t cl = (t', b) ->
    region (ASendCancel i) t t' [OSendDone i false (s_msg cl) (t_open t)]
| RgRecvIter j t t' m : h_recv_iter t = (t', Some m) ->
    region (ARecvIter j) t t' [ORecvDone j (Some m) (t_open t)].

Lemma step_region c s a s' o : step c s a = Some (s', o) -> region a (tk s) (tk s') o.
Proof.
  intros St. destruct a; cbn [step] in St.
  - destruct (conn s); inversion St; subst. apply RgNone. intros x [<-|[]]; exact I.
  - destruct (conn s) as [cn|]; [|discriminate]. destruct (c_rerr cn); [discriminate|].
    destruct (reader c r (tk s)) as [[t' b]|k|] eqn:ER; [| |discriminate].
    + inversion St; subst. rewrite tk_bcast_if_. cbn [tk set_tk]. eapply RgReader; eauto.
    + inversion St; subst. apply RgNone. intros x [<-|[]]; exact I.
  - destruct (conn s) as [cn|]; [|discriminate]. destruct (runnable (c_w cn)); [|discriminate].
    destruct (h_loop (tk s)) as [t' la] eqn:E.
    destruct la; inversion St; subst; cbn [tk set_conn bcast set_tk].
    + assert (t' = tk s).
      { unfold h_loop in E. repeat match type of E with context [match ?x with _ => _ end] => destruct x end; inversion E; reflexivity. }
      subst t'. apply RgNone. intros x [].
    + apply (RgLoop _ _ _ E).
    + apply (RgLoop _ _ _ E).
    + apply (RgLoop _ _ _ E).
  - destruct (conn s) as [cn|]; [|discriminate]. destruct (c_rerr cn); [|discriminate].
    destruct (blocked (c_w cn)); [|discriminate]. unfold conn_end in St.
    destruct (h_close (tk s)) as [t' b] eqn:E. inversion St; subst. cbn [tk set_conn]. rewrite tk_bcast_if_.
    cbn [tk set_tk]. eapply RgEnd; eauto.
  - destruct (conn s) as [cn|]; [|discriminate]. unfold conn_end in St.
    destruct (h_close (tk s)) as [t' b] eqn:E. inversion St; subst. cbn [tk set_conn]. rewrite tk_bcast_if_.
    cbn [tk set_tk]. eapply RgEnd; eauto.
  - destruct body; inversion St; subst; cbn [tk]; apply RgNone; intros x [].
  - destruct (nth_error (sends s) i) as [cl|]; [|discriminate].
    destruct (s_st cl) eqn:Est; try discriminate. destruct (runnable (s_w cl)); [|discriminate].
    destruct (h_send_iter (tk s) cl) as [[t' b] cl'] eqn:E. inversion St; subst.
    cbn [tk set_send]. rewrite tk_bcast_if_. cbn [tk set_tk]. eapply RgSendIter; eauto.
  - destruct (nth_error (sends s) i) as [cl|]; [|discriminate].
    destruct (s_st cl); try discriminate. destruct (blocked (s_w cl)); [|discriminate].
    destruct (h_send_cancel (tk s) cl) as [t' b] eqn:E. inversion St; subst.
    cbn [tk set_send]. rewrite tk_bcast_if_. cbn [tk set_tk]. eapply RgSendCancel; eauto.
  - inversion St; subst; cbn [tk]. apply RgNone. intros x [].
  - destruct (nth_error (recvs s) j) as [cl|]; [|discriminate].
    destruct (r_st cl); try discriminate. destruct (runnable (r_w cl)); [|discriminate].
    destruct (h_recv_iter (tk s)) as [t' [m|]] eqn:E; inversion St; subst; cbn [tk set_recv bcast set_tk].
    + eapply RgRecvIter; eauto.
    + apply RgNone. intros x [].
  - destruct (nth_error (recvs s) j) as [cl|]; [|discriminate].
    destruct (r_st cl); try discriminate. destruct (blocked (r_w cl)); [|discriminate].
    inversion St; subst; cbn [tk set_recv]. apply RgNone. intros x [<-|[]]; exact I.
Qed.
