(* Client halves of C21, for all relay behaviours:
   - an Ack n / Clear n response changes only state whose message has Seqno n;
   - a Send reports success only after an Ack naming its message was processed
     in the epoch in which it returns. *)
From Bifrost Require Import Lib.Base SignalClient.Model SignalClient.Proofs.

Lemma set_tk_same s : set_tk (tk s) s = s.
Proof. destruct s; reflexivity. Qed.

(* ------------------------------------------------------------------ *)
(* "named" : per handler                                               *)

Lemma ack_other n t : seq_is (t_out t) n = false -> h_ack n t = (t, false).
Proof. unfold h_ack. intros ->. reflexivity. Qed.

Lemma ack_frame n t :
  let t' := fst (h_ack n t) in
  t_open t' = t_open t /\ t_recv t' = t_recv t /\ t_proc t' = t_proc t /\
  (t_out t' = t_out t \/ (t_out t' = None /\ t_cancel t = true)).
Proof.
  unfold h_ack. destruct (seq_is (t_out t) n); [destruct (t_cancel t)|]; cbn; auto 6.
Qed.

Lemma clear_other n t : seq_is (t_recv t) n = false -> h_clear n t = (t, false).
Proof. unfold h_clear. intros ->. reflexivity. Qed.

Lemma clear_frame n t :
  let t' := fst (h_clear n t) in
  t_open t' = t_open t /\ t_out t' = t_out t /\ t_sent t' = t_sent t /\
  t_acked t' = t_acked t /\ t_cancel t' = t_cancel t.
Proof. unfold h_clear. destruct (seq_is (t_recv t) n); cbn; auto 6. Qed.

(* lifted to the transition system *)
Theorem ack_names_only_its_message : forall c s n,
  seq_is (t_out (tk s)) n = false ->
  step c s (AResp (PAck n)) = None \/ step c s (AResp (PAck n)) = Some (s, []).
Proof.
  intros c s n H. cbn [step]. destruct (conn s) as [cn|]; auto.
  destruct (c_rerr cn); auto. right. cbn [reader].
  rewrite (ack_other _ _ H). unfold ack_marks. rewrite H. cbn. rewrite set_tk_same. reflexivity.
Qed.

Theorem clear_names_only_its_message : forall c s n,
  seq_is (t_recv (tk s)) n = false ->
  step c s (AResp (PClear n)) = None \/ step c s (AResp (PClear n)) = Some (s, []).
Proof.
  intros c s n H. cbn [step]. destruct (conn s) as [cn|]; auto.
  destruct (c_rerr cn); auto. right. cbn [reader].
  rewrite (clear_other _ _ H). cbn. rewrite set_tk_same. reflexivity.
Qed.

Theorem ack_touches_only_send_slot : forall c s n s' o,
  step c s (AResp (PAck n)) = Some (s', o) ->
  t_open (tk s') = t_open (tk s) /\ t_recv (tk s') = t_recv (tk s) /\ t_proc (tk s') = t_proc (tk s) /\
  (t_out (tk s') = t_out (tk s) \/ (t_out (tk s') = None /\ t_cancel (tk s) = true)) /\
  map r_st (recvs s') = map r_st (recvs s) /\ map s_st (sends s') = map s_st (sends s).
Proof.
  intros c s n s' o. cbn [step]. destruct (conn s) as [cn|]; [|discriminate].
  destruct (c_rerr cn); [discriminate|]. cbn [reader].
  destruct (h_ack n (tk s)) as [t' b] eqn:E. intros H. inversion H; subst. clear H.
  pose proof (ack_frame n (tk s)) as F. rewrite E in F. cbn in F.
  destruct F as (F1 & F2 & F3 & F4).
  assert (G : forall b s0, map r_st (recvs (bcast_if b s0)) = map r_st (recvs s0) /\
                           map s_st (sends (bcast_if b s0)) = map s_st (sends s0) /\
                           tk (bcast_if b s0) = tk s0).
  { intros [|] s0; cbn; auto. rewrite !map_map. cbn. auto. }
  destruct (G b (set_tk t' s)) as (G1 & G2 & G3). rewrite G1, G2, G3. cbn. auto 8.
Qed.

Theorem clear_touches_only_recv_slot : forall c s n s' o,
  step c s (AResp (PClear n)) = Some (s', o) ->
  t_open (tk s') = t_open (tk s) /\ t_out (tk s') = t_out (tk s) /\ t_sent (tk s') = t_sent (tk s) /\
  t_acked (tk s') = t_acked (tk s) /\ t_cancel (tk s') = t_cancel (tk s) /\
  map r_st (recvs s') = map r_st (recvs s) /\ map s_st (sends s') = map s_st (sends s).
Proof.
  intros c s n s' o. cbn [step]. destruct (conn s) as [cn|]; [|discriminate].
  destruct (c_rerr cn); [discriminate|]. cbn [reader].
  destruct (h_clear n (tk s)) as [t' b] eqn:E. intros H. inversion H; subst. clear H.
  pose proof (clear_frame n (tk s)) as F. rewrite E in F. cbn in F.
  destruct F as (F1 & F2 & F3 & F4 & F5).
  assert (G : forall b s0, map r_st (recvs (bcast_if b s0)) = map r_st (recvs s0) /\
                           map s_st (sends (bcast_if b s0)) = map s_st (sends s0) /\
                           tk (bcast_if b s0) = tk s0).
  { intros [|] s0; cbn; auto. rewrite !map_map. cbn. auto. }
  destruct (G b (set_tk t' s)) as (G1 & G2 & G3). rewrite G1, G2, G3. cbn. auto 10.
Qed.

(* ------------------------------------------------------------------ *)
(* Send reports success only after an ack naming its message           *)

Section AckInv.
  Variable c : cfg.

  (* H = the history so far *)
  Definition inv_ack (H : list obs) (t : tracker) : Prop :=
    (t_out t = None -> t_acked t = false) /\
    (t_acked t = true ->
     exists o, t_out t = Some o /\ In (OAckProc (m_seq o) (t_open t)) H).

  Ltac crush :=
    cbn in *;
    repeat match goal with
           | |- context [match ?x with _ => _ end] => destruct x eqn:?; cbn in *
           | H : context [match ?x with _ => _ end] |- _ => destruct x eqn:?; cbn in *
           end; try congruence; auto.

  Lemma inv_ack_mono H H' t : inv_ack H t -> inv_ack (H ++ H') t.
  Proof.
    intros [A B]; split; auto. intros E. destruct (B E) as (o & Ho & Hi).
    exists o; split; auto. apply in_or_app; auto.
  Qed.

  Ltac pre I :=
    unfold inv_ack in *; destruct I as [A B]; split; intros; crush;
    try (rewrite (A eq_refl) in *; congruence);
    try (match goal with
         | E : t_acked _ = true |- _ =>
             let o' := fresh "o" in let Ho := fresh "Ho" in let Hi := fresh "Hi" in
             destruct (B E) as (o' & Ho & Hi); try congruence;
             exists o'; split; [congruence|]; try exact Hi; try congruence
         end).

  Lemma inv_ack_close H t : inv_ack H t -> inv_ack H (fst (h_close t)).
  Proof. intros I. unfold h_close. pre I. Qed.

  Lemma inv_ack_open H n t : inv_ack H t -> inv_ack H (fst (h_open n t)).
  Proof. intros I. unfold h_open. pre I. Qed.

  Lemma inv_ack_recv H m t : inv_ack H t -> inv_ack H (fst (h_recv m t)).
  Proof. intros I. unfold h_recv. pre I. Qed.

  Lemma inv_ack_clear H n t : inv_ack H t -> inv_ack H (fst (h_clear n t)).
  Proof. intros I. unfold h_clear. pre I. Qed.

  Lemma inv_ack_ack H n t :
    inv_ack H t ->
    inv_ack (H ++ (if ack_marks n t then [OAckProc n (t_open t)] else [])) (fst (h_ack n t)).
  Proof.
    intros [A B]. unfold h_ack, ack_marks.
    destruct (seq_is (t_out t) n) eqn:E1; [destruct (t_cancel t) eqn:E2|]; cbn.
    - split; cbn; intros; try congruence.
    - split; cbn.
      + unfold seq_is in E1. destruct (t_out t); congruence.
      + intros _. unfold seq_is in E1. destruct (t_out t) as [o|]; [|discriminate].
        exists o; split; auto. apply Z.eqb_eq in E1. subst n. apply in_or_app. right. left. reflexivity.
    - rewrite app_nil_r. split; auto.
  Qed.

  Lemma inv_ack_loop H t : inv_ack H t -> inv_ack H (fst (h_loop t)).
  Proof. intros I. unfold h_loop. pre I. Qed.

  Lemma inv_ack_send_cancel H t cl : inv_ack H t -> inv_ack H (fst (h_send_cancel t cl)).
  Proof. intros I. unfold h_send_cancel. pre I. Qed.

  Lemma inv_ack_recv_iter H t : inv_ack H t -> inv_ack H (fst (h_recv_iter t)).
  Proof. intros I. unfold h_recv_iter. pre I. Qed.

  (* the Send iteration: keeps the invariant, and when it reports success an
     ack naming its message is in the history, in the current epoch *)
  Lemma inv_ack_send_iter H t cl t' b cl' :
    inv_ack H t -> h_send_iter t cl = (t', b, cl') ->
    inv_ack H t' /\
    (s_st cl' = SOk -> In (OAckProc (m_seq (s_msg cl)) (t_open t)) H).
  Proof.
    intros [A B] E. unfold h_send_iter in E.
    repeat match type of E with context [match ?x with _ => _ end] => destruct x eqn:? end;
      inversion E; subst; cbn in *;
      (split; [split; cbn; intros; try congruence; auto | intros; try discriminate]);
      try (rewrite (A eq_refl) in *; congruence);
      try (match goal with
         | E : t_acked _ = true |- exists _, _ =>
             let o' := fresh "o" in let Ho := fresh "Ho" in let Hi := fresh "Hi" in
             destruct (B E) as (o' & Ho & Hi); try congruence;
             exists o'; split; [congruence|]; try exact Hi; try congruence
         end).
    all: destruct (B eq_refl) as (o & Ho & Hi); rewrite Ho in *; cbn in *.
    all: match goal with
         | Hb : negb (?X && true) = false |- _ =>
             assert (HX : X = true) by (destruct X; cbn in Hb; congruence); rewrite HX in *; cbn in *
         end.
    all: match goal with
         | Hn : negb (m_seq _ =? _) = false |- _ =>
             apply negb_false_iff, Z.eqb_eq in Hn; rewrite <- Hn; exact Hi
         end.
  Qed.

  Definition inv_ack_s (H : list obs) (s : cstate) : Prop := inv_ack H (tk s).

  Lemma tk_bcast_if b s : tk (bcast_if b s) = tk s.
  Proof. destruct b; reflexivity. Qed.

  (* a successful Send in the output of a step is justified by the history before the step *)
  Definition okd (H : list obs) (o : list obs) : Prop :=
    forall i m e, In (OSendDone i true m e) o -> In (OAckProc (m_seq m) e) H.

  Lemma step_inv_ack H s a s' o :
    inv_ack_s H s -> step c s a = Some (s', o) -> inv_ack_s (H ++ o) s' /\ okd H o.
  Proof.
    unfold inv_ack_s, okd. intros I St. destruct a; cbn [step] in St.
    - destruct (conn s); inversion St; subst; cbn. split; [apply inv_ack_mono, I|intros ? ? ? [E|[]]; discriminate].
    - destruct (conn s) as [cn|]; [|discriminate]. destruct (c_rerr cn); [discriminate|].
      destruct (reader c r (tk s)) as [[t' b]|k|] eqn:ER; [| |discriminate].
      2:{ inversion St; subst. cbn. split; [apply inv_ack_mono, I|intros ? ? ? [E|[]]; discriminate]. }
      inversion St; subst. rewrite tk_bcast_if. cbn [tk set_tk].
      split.
      2:{ intros i m e Hin. destruct r; try (destruct Hin; fail).
          destruct (ack_marks n (tk s)); [destruct Hin as [E|[]]; discriminate|destruct Hin]. }
      destruct r as [n|[|]|[m|]|n|n| |]; cbn [reader] in ER; try discriminate; rewrite ?app_nil_r.
      + injection ER as ER. replace t' with (fst (h_open n (tk s))) by (rewrite ER; reflexivity). apply inv_ack_open, I.
      + injection ER as ER. replace t' with (fst (h_close (tk s))) by (rewrite ER; reflexivity). apply inv_ack_close, I.
      + inversion ER; subst. exact I.
      + unfold obind in ER. destruct (check_recv (peer_key c) m) as [[]| |]; inversion ER; subst.
        apply (inv_ack_recv H m), I.
      + inversion ER; subst. exact I.
      + injection ER as ER. replace t' with (fst (h_ack n (tk s))) by (rewrite ER; reflexivity). apply inv_ack_ack, I.
      + injection ER as ER. replace t' with (fst (h_clear n (tk s))) by (rewrite ER; reflexivity). apply inv_ack_clear, I.
    - destruct (conn s) as [cn|]; [|discriminate]. destruct (runnable (c_w cn)); [|discriminate].
      destruct (h_loop (tk s)) as [t' la] eqn:E.
      assert (I' : inv_ack H t') by (replace t' with (fst (h_loop (tk s))) by (rewrite E; reflexivity); apply inv_ack_loop, I).
      assert (Hno : forall l i m e, ~ In (OSendDone i true m e) (map OReq l)).
      { intros l i m e Hin. apply in_map_iff in Hin as (x & Hx & _). discriminate. }
      destruct la; inversion St; subst; cbn [tk set_conn bcast set_tk];
        (split; [first [apply inv_ack_mono, I'|apply inv_ack_mono, I]|intros ? ? ? Hin; exfalso; revert Hin; first [apply Hno|intros [Hx|[]]; discriminate|intros []]]).
    - destruct (conn s) as [cn|]; [|discriminate]. destruct (c_rerr cn); [|discriminate].
      destruct (blocked (c_w cn)); [|discriminate]. unfold conn_end in St.
      destruct (h_close (tk s)) as [t' b] eqn:E. inversion St; subst. cbn [tk set_conn]. rewrite tk_bcast_if. cbn [tk set_tk].
      split; [apply inv_ack_mono; replace t' with (fst (h_close (tk s))) by (rewrite E; reflexivity); apply inv_ack_close, I|].
      intros ? ? ? [E'|[]]; discriminate.
    - destruct (conn s) as [cn|]; [|discriminate]. unfold conn_end in St.
      destruct (h_close (tk s)) as [t' b] eqn:E. inversion St; subst. cbn [tk set_conn]. rewrite tk_bcast_if. cbn [tk set_tk].
      split; [apply inv_ack_mono; replace t' with (fst (h_close (tk s))) by (rewrite E; reflexivity); apply inv_ack_close, I|].
      intros ? ? ? [E'|[]]; discriminate.
    - destruct body; inversion St; subst; cbn; rewrite app_nil_r; (split; [exact I|intros ? ? ? []]).
    - destruct (nth_error (sends s) i) as [cl|]; [|discriminate].
      destruct (s_st cl); try discriminate. destruct (runnable (s_w cl)); [|discriminate].
      destruct (h_send_iter (tk s) cl) as [[t' b] cl'] eqn:E. inversion St; subst.
      destruct (inv_ack_send_iter H (tk s) cl t' b cl' I E) as [I' Hok].
      cbn [tk set_send]. rewrite tk_bcast_if. cbn [tk set_tk]. split; [apply inv_ack_mono, I'|].
      intros i0 m e Hin. destruct (s_st cl') eqn:Es; try (destruct Hin; fail).
      destruct Hin as [E'|[]]. inversion E'; subst. apply Hok. reflexivity.
    - destruct (nth_error (sends s) i) as [cl|]; [|discriminate].
      destruct (s_st cl); try discriminate. destruct (blocked (s_w cl)); [|discriminate].
      destruct (h_send_cancel (tk s) cl) as [t' b] eqn:E. inversion St; subst.
      cbn [tk set_send]. rewrite tk_bcast_if. cbn [tk set_tk].
      split; [apply inv_ack_mono; replace t' with (fst (h_send_cancel (tk s) cl)) by (rewrite E; reflexivity); apply inv_ack_send_cancel, I|].
      intros ? ? ? [E'|[]]; discriminate.
    - inversion St; subst; cbn. rewrite app_nil_r. split; [exact I|intros ? ? ? []].
    - destruct (nth_error (recvs s) j) as [cl|]; [|discriminate].
      destruct (r_st cl); try discriminate. destruct (runnable (r_w cl)); [|discriminate].
      destruct (h_recv_iter (tk s)) as [t' [m|]] eqn:E; inversion St; subst; cbn [tk set_recv bcast set_tk].
      + split; [apply inv_ack_mono; replace t' with (fst (h_recv_iter (tk s))) by (rewrite E; reflexivity); apply inv_ack_recv_iter, I|].
        intros ? ? ? [E'|[]]; discriminate.
      + rewrite app_nil_r. split; [exact I|intros ? ? ? []].
    - destruct (nth_error (recvs s) j) as [cl|]; [|discriminate].
      destruct (r_st cl); try discriminate. destruct (blocked (r_w cl)); [|discriminate].
      inversion St; subst; cbn [tk set_recv]. split; [apply inv_ack_mono, I|intros ? ? ? [E'|[]]; discriminate].
  Qed.

  Lemma run_inv_ack acts : forall H s s' tr,
    inv_ack_s H s -> run c s acts = (s', tr) ->
    inv_ack_s (H ++ tr) s' /\
    (forall pre post i m e, tr = pre ++ OSendDone i true m e :: post -> In (OAckProc (m_seq m) e) (H ++ pre)).
  Proof.
    induction acts as [|a acts IH]; intros H s s' tr I R; cbn [run] in R.
    - inversion R; subst. rewrite app_nil_r. split; auto. intros [|? ?] ? ? ? ? E; discriminate.
    - destruct (exec c s a) as [s1 o1] eqn:E1. destruct (run c s1 acts) as [s2 o2] eqn:E2. inversion R; subst.
      assert (S1 : inv_ack_s (H ++ o1) s1 /\ okd H o1).
      { unfold exec in E1. destruct (step c s a) as [[sx ox]|] eqn:Es; inversion E1; subst.
        - eapply step_inv_ack; eauto.
        - rewrite app_nil_r. split; auto. intros ? ? ? []. }
      destruct S1 as [I1 Ok1]. destruct (IH (H ++ o1) s1 s' o2 I1 E2) as [I2 Ok2].
      rewrite app_assoc. split; auto.
      intros pre post i m e Eq.
      (* locate the OSendDone either in o1 or in o2 *)
      assert (Hsplit : (exists post1, o1 = pre ++ OSendDone i true m e :: post1) \/
                       (exists pre2, pre = o1 ++ pre2 /\ o2 = pre2 ++ OSendDone i true m e :: post)).
      { clear - Eq. revert pre Eq. induction o1 as [|x o1 IHo]; intros pre Eq; cbn in *.
        - right. exists pre. split; auto.
        - destruct pre as [|y pre]; cbn in *.
          + inversion Eq; subst. left. exists o1. reflexivity.
          + inversion Eq; subst. destruct (IHo pre H1) as [(p1 & Hp)|(p2 & Hp & Hq)].
            * left. exists p1. rewrite Hp. reflexivity.
            * right. exists p2. split; auto. rewrite Hp. reflexivity. }
      destruct Hsplit as [(post1 & Hp)|(pre2 & Hp & Hq)].
      + apply in_or_app. left. apply (Ok1 i m e). rewrite Hp. apply in_or_app. right. left. reflexivity.
      + subst pre. rewrite app_assoc. apply (Ok2 pre2 post i m e Hq).
  Qed.
End AckInv.

Theorem send_ok_after_ack : forall c acts s tr pre post i m e,
  run c c_init acts = (s, tr) ->
  tr = pre ++ OSendDone i true m e :: post ->
  In (OAckProc (m_seq m) e) pre.
Proof.
  intros c acts s tr pre post i m e R E.
  destruct (run_inv_ack c acts [] c_init s tr) as [_ H]; auto.
  - split; cbn; auto. discriminate.
  - apply (H pre post i m e E).
Qed.

(* ------------------------------------------------------------------ *)
(* a Recv call that does not return a message never touches the tracker *)

Theorem recv_cancel_frame : forall c s j s' o,
  step c s (ARecvCancel j) = Some (s', o) ->
  tk s' = tk s /\ sends s' = sends s /\ o = [ORecvDone j None (t_open (tk s))].
Proof.
  intros c s j s' o St. cbn [step] in St.
  destruct (nth_error (recvs s) j) as [cl|]; [|discriminate].
  destruct (r_st cl); try discriminate. destruct (blocked (r_w cl)); [|discriminate].
  inversion St; subst. auto.
Qed.

Theorem recv_iter_frame : forall c s j s' o,
  step c s (ARecvIter j) = Some (s', o) ->
  (exists m, o = [ORecvDone j (Some m) (t_open (tk s))] /\ t_recv (tk s) = Some m) \/
  (o = [] /\ tk s' = tk s /\ sends s' = sends s).
Proof.
  intros c s j s' o St. cbn [step] in St.
  destruct (nth_error (recvs s) j) as [cl|]; [|discriminate].
  destruct (r_st cl); try discriminate. destruct (runnable (r_w cl)); [|discriminate].
  destruct (h_recv_iter (tk s)) as [t' [m|]] eqn:E; inversion St; subst.
  - left. exists m. split; auto. unfold h_recv_iter in E.
    destruct (t_recv (tk s)); [destruct (t_proc (tk s))|]; inversion E; reflexivity.
  - right. auto.
Qed.
