(* End-to-end half of C21 on the composition (two clients, FIFO streams, relay):
   a Send reports success only after the partner's Recv returned the same
   message in the same session epoch. *)
From Bifrost Require Import Lib.Base SignalClient.Model SignalClient.Proofs SignalClient.ProofsAck
  SignalClient.StepCases SignalClient.Compose SignalClient.ProofsLink.

Definition wev := (bool * obs)%type.

Definition proj (x : bool) (H : list wev) : list obs :=
  map snd (filter (fun e => Bool.eqb (fst e) x) H).

Lemma proj_app x H1 H2 : proj x (H1 ++ H2) = proj x H1 ++ proj x H2.
Proof. unfold proj. rewrite filter_app, map_app. reflexivity. Qed.

Lemma proj_tag_same x o : proj x (tag x o) = o.
Proof.
  unfold proj, tag. induction o as [|a o IH]; cbn; auto.
  rewrite Bool.eqb_reflx. cbn. rewrite IH. reflexivity.
Qed.

Lemma proj_tag_other x o : proj x (tag (negb x) o) = [].
Proof.
  unfold proj, tag. induction o as [|a o IH]; cbn; auto.
  destruct x; cbn; exact IH.
Qed.

Lemma in_proj x o H : In o (proj x H) <-> In (x, o) H.
Proof.
  unfold proj. rewrite in_map_iff. split.
  - intros ([y o'] & E & Hin). cbn in E. subst o'. apply filter_In in Hin as [Hin Hb].
    cbn in Hb. apply Bool.eqb_prop in Hb. subst. exact Hin.
  - intros Hin. exists (x, o). split; auto. apply filter_In. split; auto. cbn. apply Bool.eqb_reflx.
Qed.

Lemma in_tag x y o l : In (y, o) (tag x l) <-> y = x /\ In o l.
Proof.
  unfold tag. rewrite in_map_iff. split.
  - intros (o' & E & Hin). inversion E; subst. auto.
  - intros [-> Hin]. exists o. auto.
Qed.

(* ------------------------------------------------------------------ *)
(* reachable worlds with their history                                 *)

Inductive reach : world -> list wev -> Prop :=
| reach_init : reach w_init []
| reach_step w H a w' o : reach w H -> wstep w a = Some (w', o) -> reach w' (H ++ o).

Lemma wrun_reach acts : forall w0 H0 w H,
  reach w0 H0 -> wrun w0 acts = (w, H) -> reach w (H0 ++ H).
Proof.
  induction acts as [|a acts IH]; intros w0 H0 w H R E; cbn [wrun] in E.
  - inversion E; subst. rewrite app_nil_r. exact R.
  - destruct (wexec w0 a) as [w1 o1] eqn:E1. destruct (wrun w1 acts) as [w2 o2] eqn:E2. inversion E; subst.
    rewrite app_assoc. eapply IH; [|exact E2].
    unfold wexec in E1. destruct (wstep w0 a) as [[wx ox]|] eqn:Es; inversion E1; subst.
    + eapply reach_step; eauto.
    + rewrite app_nil_r. exact R.
Qed.

(* side access *)
Lemma gs_ss_same x v w : gs x (ss x v w) = v.
Proof. destruct x; reflexivity. Qed.
Lemma gs_ss_other x v w : gs x (ss (negb x) v w) = gs x w.
Proof. destruct x; reflexivity. Qed.
Lemma gs_ss_other' x v w : gs (negb x) (ss x v w) = gs (negb x) w.
Proof. destruct x; reflexivity. Qed.
Lemma gs_set_epoch x e w : gs x (set_epoch e w) = gs x w.
Proof. destruct x; reflexivity. Qed.
Lemma epoch_ss x v w : w_epoch (ss x v w) = w_epoch w.
Proof. destruct x; reflexivity. Qed.

Lemma gs_sess_bcast x w :
  gs x (sess_bcast w) = set_call (option_map wake_rc (s_call (gs x w))) (gs x w).
Proof. destruct x; reflexivity. Qed.

(* relay_req only touches the two calls *)
Lemma relay_req_frame x r w w2 :
  relay_req x r w = QDone w2 ->
  w_epoch w2 = w_epoch w /\
  forall z, s_cl (gs z w2) = s_cl (gs z w) /\ s_cq (gs z w2) = s_cq (gs z w) /\ s_rq (gs z w2) = s_rq (gs z w).
Proof.
  unfold relay_req. intros E.
  repeat match type of E with context [match ?t with _ => _ end] => destruct t eqn:? end;
    inversion E; subst; (split; [destruct x; reflexivity|]); intros z; destruct x, z; cbn; auto.
Qed.

(* what a world step is for client x *)
Lemma wstep_view x w a w' o :
  wstep w a = Some (w', o) ->
  (s_cl (gs x w') = s_cl (gs x w) /\ proj x o = []) \/
  (exists ca, step (cfg_of x) (s_cl (gs x w)) ca = Some (s_cl (gs x w'), proj x o)).
Proof.
  intros St. destruct a as [z ca|z|z|z|z|z|z|z|z rq k]; cbn [wstep] in St.
  9:{ left. split; [|destruct rq;
         [destruct (nth_error (s_cq (gs z w)) k) as [r|]; [destruct (droppable_req r)|]|
          destruct (nth_error (s_rq (gs z w)) k) as [r|]; [destruct (droppable_resp r)|]];
         inversion St; reflexivity].
       destruct rq;
         [destruct (nth_error (s_cq (gs z w)) k) as [r|]; [destruct (droppable_req r)|]|
          destruct (nth_error (s_rq (gs z w)) k) as [r|]; [destruct (droppable_resp r)|]];
         inversion St; subst; destruct x, z; reflexivity. }
  - destruct (client_allowed ca); [|discriminate].
    destruct (step (cfg_of z) (s_cl (gs z w)) ca) as [[c' oc]|] eqn:Es; [|discriminate]. inversion St; subst.
    destruct (Bool.bool_dec x z) as [->|Hne].
    + right. exists ca. rewrite gs_ss_same, proj_tag_same.
      destruct (ended oc); cbn; exact Es.
    + left. assert (z = negb x) by (destruct x, z; cbn; congruence). subst z.
      rewrite gs_ss_other, proj_tag_other. auto.
  - destruct (step (cfg_of z) (s_cl (gs z w)) AConnStart) as [[c' oc]|] eqn:Es; [|discriminate]. inversion St; subst.
    destruct (Bool.bool_dec x z) as [->|Hne].
    + right. exists AConnStart. rewrite gs_ss_same, proj_tag_same. exact Es.
    + left. assert (z = negb x) by (destruct x, z; cbn; congruence). subst z.
      rewrite gs_ss_other, proj_tag_other. auto.
  - destruct (s_rq (gs z w)) as [|r rest]; [discriminate|].
    destruct (step (cfg_of z) (s_cl (gs z w)) (AResp r)) as [[c' oc]|] eqn:Es; [|discriminate]. inversion St; subst.
    destruct (Bool.bool_dec x z) as [->|Hne].
    + right. exists (AResp r). rewrite gs_ss_same, proj_tag_same. exact Es.
    + left. assert (z = negb x) by (destruct x, z; cbn; congruence). subst z.
      rewrite gs_ss_other, proj_tag_other. auto.
  - destruct (step (cfg_of z) (s_cl (gs z w)) (AResp PFail)) as [[c' oc]|] eqn:Es; [|discriminate]. inversion St; subst.
    destruct (Bool.bool_dec x z) as [->|Hne].
    + right. exists (AResp PFail). rewrite gs_ss_same, proj_tag_same. exact Es.
    + left. assert (z = negb x) by (destruct x, z; cbn; congruence). subst z.
      rewrite gs_ss_other, proj_tag_other. auto.
  - destruct (s_cq (gs z w)) as [|[| | |] rest]; try discriminate. inversion St; subst.
    left. split; [|reflexivity]. rewrite gs_set_epoch. destruct x, z; reflexivity.
  - destruct (s_call (gs z w)) as [c|]; [|discriminate]. destruct (s_cq (gs z w)) as [|r rest] eqn:Eq; [discriminate|].
    destruct (rc_linked c); [|discriminate].
    destruct (relay_req z r (ss z (set_cq rest (gs z w)) w)) as [|w2] eqn:Er.
    + set (w1 := ss z (set_cq rest (gs z w)) w) in *.
      destruct (step (cfg_of z) (s_cl (gs z w1)) (AResp PFail)) as [[c' oc]|] eqn:Es; inversion St; subst.
      * destruct (Bool.bool_dec x z) as [->|Hne].
        -- right. exists (AResp PFail). rewrite gs_ss_same, proj_tag_same. cbn.
           unfold w1 in Es. rewrite gs_ss_same in Es. exact Es.
        -- left. assert (z = negb x) by (destruct x, z; cbn; congruence). subst z.
           rewrite gs_ss_other, proj_tag_other. unfold w1. rewrite gs_ss_other. auto.
      * left. split; [|reflexivity]. unfold w1. destruct x, z; reflexivity.
    + inversion St; subst. left. split; [|reflexivity].
      destruct (relay_req_frame _ _ _ _ Er) as [_ F]. destruct (F x) as (F1 & _). rewrite F1.
      destruct x, z; reflexivity.
  - destruct (s_call (gs z w)) as [c|]; [|discriminate]. destruct (runnable (rc_w c)); [|discriminate].
    inversion St; subst. left. split; [|reflexivity].
    destruct (s_call (gs (negb z) w)); cbn; destruct (b_recv (rc_box c)); destruct x, z; reflexivity.
  - destruct (s_call (gs z w)) as [c|]; [|discriminate]. destruct (rc_linked c); [discriminate|].
    inversion St; subst. left. split; [|reflexivity]. rewrite gs_set_epoch. destruct x, z; reflexivity.
Qed.

Lemma run_one c s a : run c s [a] = exec c s a.
Proof. cbn [run]. destruct (exec c s a) as [s1 o1]. rewrite app_nil_r. reflexivity. Qed.

(* the history of client x is a history of the client transition system *)
Lemma reach_proj x w H :
  reach w H -> exists cacts, run (cfg_of x) c_init cacts = (s_cl (gs x w), proj x H).
Proof.
  induction 1 as [|w H a w' o R IH St].
  - exists []. destruct x; reflexivity.
  - destruct IH as [cacts IH]. rewrite proj_app.
    destruct (wstep_view x _ _ _ _ St) as [[E1 E2]|[ca Es]].
    + exists cacts. rewrite E1, E2, app_nil_r. exact IH.
    + exists (cacts ++ [ca]). rewrite run_app, IH, run_one. unfold exec. rewrite Es. reflexivity.
Qed.

(* ------------------------------------------------------------------ *)
(* the invariant                                                       *)

Definition Just (H : list wev) (y : bool) (n e : Z) : Prop :=
  exists j m, m_seq m = n /\ In (y, ORecvDone j (Some m) (Some e)) H.

Definition Sent (H : list wev) (x : bool) (m : smsg) : Prop :=
  exists e, In (x, OReq (RSend e m)) H.

Lemma Just_mono H H' y n e : Just H y n e -> Just (H ++ H') y n e.
Proof. intros (j & m & E & Hi). exists j, m. split; auto. apply in_or_app; auto. Qed.
Lemma Sent_mono H H' x m : Sent H x m -> Sent (H ++ H') x m.
Proof. intros (e & Hi). exists e. apply in_or_app; auto. Qed.

(* acks in a response stream, read from session epoch o onwards *)
Fixpoint acks_ok (P : Z -> Z -> Prop) (o : option Z) (l : list resp) : Prop :=
  match l with
  | [] => True
  | r :: l' =>
      match r, o with PAck n, Some e => P n e | _, _ => True end /\ acks_ok P (scan_step o r) l'
  end.

Fixpoint scan_end (o : option Z) (l : list resp) : option Z :=
  match l with [] => o | r :: l' => scan_end (scan_step o r) l' end.

Lemma acks_ok_app P o l1 l2 : acks_ok P o (l1 ++ l2) <-> acks_ok P o l1 /\ acks_ok P (scan_end o l1) l2.
Proof. revert o; induction l1 as [|r l1 IH]; intros o; cbn; [tauto|]. rewrite IH. tauto. Qed.

Lemma scan_end_app o l1 l2 : scan_end o (l1 ++ l2) = scan_end (scan_end o l1) l2.
Proof. revert o; induction l1 as [|r l1 IH]; intros o; cbn; auto. Qed.

Lemma acks_ok_mono (P Q : Z -> Z -> Prop) o l : (forall n e, P n e -> Q n e) -> acks_ok P o l -> acks_ok Q o l.
Proof.
  intros PQ. revert o; induction l as [|r l IH]; intros o; cbn; auto. intros [A B]. split; auto.
  destruct r; auto. destruct o; auto.
Qed.

(* accessors *)
Definition box_recv (s : side) : option smsg := match s_call s with Some c => b_recv (rc_box c) | None => None end.
Definition box_acked (s : side) : option Z := match s_call s with Some c => b_acked (rc_box c) | None => None end.
Definition link_prev (s : side) : option (option Z) :=
  match s_call s with Some c => if rc_linked c then Some (rc_prev c) else None | None => None end.
Definition is_linked (s : side) : bool := match s_call s with Some c => rc_linked c | None => false end.
Definition open_of (s : side) : option Z := t_open (tk (s_cl s)).
Definition recv_of (s : side) : option smsg := t_recv (tk (s_cl s)).
Definition conn_of (s : side) : option cconn := conn (s_cl s).

(* integrity of what travels from x to y *)
Record IA (H : list wev) (x : bool) (cq_x : list request) (br_y : option smsg) (rq_y : list resp)
          (recv_y : option smsg) : Prop := mkIA {
  a1 : forall e m, In (RSend e m) cq_x -> Sent H x m;
  a2 : forall m, br_y = Some m -> Sent H x m;
  a3 : forall m, In (PRecv (Some m)) rq_y -> Sent H x m;
  a4 : forall m, recv_y = Some m -> Sent H x m;
  a5 : forall j m eo, In (negb x, ORecvDone j (Some m) eo) H -> Sent H x m }.

(* acknowledgements travelling from y back to x *)
Record IB (H : list wev) (x : bool) (cq_y : list request) (acked_x : option Z) (ep : Z)
          (open_x : option Z) (rq_x : list resp) (lp_x : option (option Z)) : Prop := mkIB {
  b1 : forall e n, In (RAck e n) cq_y -> In (negb x, OReq (RAck e n)) H;
  b2 : forall n, acked_x = Some n -> Just H (negb x) n ep;
  b3 : acks_ok (Just H (negb x)) open_x rq_x;
  b4 : forall prev, lp_x = Some prev -> scan_end open_x rq_x = prev;
  b5 : forall n e, In (x, OAckProc n (Some e)) H -> Just H (negb x) n e }.

(* stream structure of side x *)
Record IL (cn : option cconn) (open_x : option Z) (rq_x : list resp) (cq_x : list request) (lk : bool) : Prop := mkIL {
  l0 : cn = None -> open_x = None /\ rq_x = [] /\ cq_x = [];
  l1 : lk = true -> cn <> None /\ ~ In RInit cq_x;
  l2 : In RInit cq_x -> rq_x = [] /\ open_x = None /\ exists rest, cq_x = RInit :: rest /\ ~ In RInit rest }.

Definition InvX (x : bool) (w : world) (H : list wev) : Prop :=
  let sx := gs x w in let sy := gs (negb x) w in
  IA H x (s_cq sx) (box_recv sy) (s_rq sy) (recv_of sy) /\
  IB H x (s_cq sy) (box_acked sx) (w_epoch w) (open_of sx) (s_rq sx) (link_prev sx) /\
  IL (conn_of sx) (open_of sx) (s_rq sx) (s_cq sx) (is_linked sx).

Definition Inv (w : world) (H : list wev) : Prop := InvX true w H /\ InvX false w H.

(* weakening lemmas: what an action has to establish *)
Lemma IA_step H H' x cq br rq rv cq' br' rq' rv' :
  IA H x cq br rq rv ->
  (forall e m, In (RSend e m) cq' -> In (RSend e m) cq \/ Sent (H ++ H') x m) ->
  (forall m, br' = Some m -> br = Some m \/ Sent (H ++ H') x m) ->
  (forall m, In (PRecv (Some m)) rq' -> In (PRecv (Some m)) rq \/ Sent (H ++ H') x m) ->
  (forall m, rv' = Some m -> rv = Some m \/ Sent (H ++ H') x m) ->
  (forall j m eo, In (negb x, ORecvDone j (Some m) eo) H' -> Sent (H ++ H') x m) ->
  IA (H ++ H') x cq' br' rq' rv'.
Proof.
  intros [A1 A2 A3 A4 A5] C1 C2 C3 C4 C5. constructor.
  - intros e m Hi. destruct (C1 _ _ Hi) as [Hx|Hx]; auto. eapply Sent_mono; eauto.
  - intros m Hi. destruct (C2 _ Hi) as [Hx|Hx]; auto. eapply Sent_mono; eauto.
  - intros m Hi. destruct (C3 _ Hi) as [Hx|Hx]; auto. eapply Sent_mono; eauto.
  - intros m Hi. destruct (C4 _ Hi) as [Hx|Hx]; auto. eapply Sent_mono; eauto.
  - intros j m eo Hi. apply in_app_or in Hi as [Hi|Hi]; [eapply Sent_mono; eauto|eauto].
Qed.

Lemma IB_step H H' x cq ak ep op rq lp cq' ak' ep' op' rq' lp' :
  IB H x cq ak ep op rq lp ->
  (forall e n, In (RAck e n) cq' -> In (RAck e n) cq \/ In (negb x, OReq (RAck e n)) (H ++ H')) ->
  (forall n, ak' = Some n -> (ak = Some n /\ ep' = ep) \/ Just (H ++ H') (negb x) n ep') ->
  acks_ok (Just (H ++ H') (negb x)) op' rq' ->
  (forall prev, lp' = Some prev -> scan_end op' rq' = prev) ->
  (forall n e, In (x, OAckProc n (Some e)) H' -> Just (H ++ H') (negb x) n e) ->
  IB (H ++ H') x cq' ak' ep' op' rq' lp'.
Proof.
  intros [B1 B2 B3 B4 B5] C1 C2 C3 C4 C5. constructor; auto.
  - intros e n Hi. destruct (C1 _ _ Hi) as [Hx|Hx]; auto. apply in_or_app; auto.
  - intros n Hi. destruct (C2 _ Hi) as [[Hx ->]|Hx]; auto. apply Just_mono; auto.
  - intros n e Hi. apply in_app_or in Hi as [Hi|Hi]; [apply Just_mono; auto|auto].
Qed.

Lemma IB_same_stream H H' x cq ak ep op rq lp cq' ak' ep' lp' :
  IB H x cq ak ep op rq lp ->
  (forall e n, In (RAck e n) cq' -> In (RAck e n) cq \/ In (negb x, OReq (RAck e n)) (H ++ H')) ->
  (forall n, ak' = Some n -> (ak = Some n /\ ep' = ep) \/ Just (H ++ H') (negb x) n ep') ->
  (forall prev, lp' = Some prev -> lp = Some prev) ->
  (forall n e, ~ In (x, OAckProc n (Some e)) H') ->
  IB (H ++ H') x cq' ak' ep' op rq lp'.
Proof.
  intros I C1 C2 C4 C5. eapply IB_step; eauto.
  - eapply acks_ok_mono; [|apply (b3 _ _ _ _ _ _ _ _ I)]. intros; apply Just_mono; auto.
  - intros prev E. apply (b4 _ _ _ _ _ _ _ _ I). auto.
  - intros n e Hi. destruct (C5 _ _ Hi).
Qed.

(* ------------------------------------------------------------------ *)
(* preservation, action by action                                      *)

Lemma in_reqs_of_obs r o : In r (reqs_of_obs o) <-> In (OReq r) o.
Proof.
  induction o as [|x o IH]; cbn; [tauto|].
  destruct x; cbn; rewrite IH; split; try tauto; try (intros [E|Hx]; [discriminate|tauto]).
  - intros [->|Hx]; auto.
  - intros [E|Hx]; [inversion E; auto|auto].
Qed.

Lemma negb_neq z : negb z <> z. Proof. destruct z; discriminate. Qed.
Lemma neq_negb z : z <> negb z. Proof. destruct z; discriminate. Qed.

Lemma box_recv_drop s : box_recv (drop_stream s) = box_recv s.
Proof. unfold box_recv, drop_stream; cbn. destruct (s_call s); reflexivity. Qed.
Lemma box_acked_drop s : box_acked (drop_stream s) = box_acked s.
Proof. unfold box_acked, drop_stream; cbn. destruct (s_call s); reflexivity. Qed.
Lemma link_prev_drop s : link_prev (drop_stream s) = None.
Proof. unfold link_prev, drop_stream; cbn. destruct (s_call s); reflexivity. Qed.
Lemma is_linked_drop s : is_linked (drop_stream s) = false.
Proof. unfold is_linked, drop_stream; cbn. destruct (s_call s); reflexivity. Qed.

Lemma IA_keep H H' x cq br rq rv :
  IA H x cq br rq rv ->
  (forall j m eo, ~ In (negb x, ORecvDone j (Some m) eo) H') ->
  IA (H ++ H') x cq br rq rv.
Proof. intros I N. eapply IA_step; eauto. intros j m eo Hi. destruct (N _ _ _ Hi). Qed.

Lemma IB_keep H H' x cq ak ep op rq lp :
  IB H x cq ak ep op rq lp ->
  (forall n e, ~ In (x, OAckProc n (Some e)) H') ->
  IB (H ++ H') x cq ak ep op rq lp.
Proof. intros I N. eapply IB_same_stream; eauto. Qed.

Lemma pres_cli z ca w H w' o :
  InvX z w H -> InvX (negb z) w H ->
  wstep w (WCli z ca) = Some (w', o) ->
  InvX z w' (H ++ o) /\ InvX (negb z) w' (H ++ o).
Proof.
  intros (IAz & IBz & ILz) (IAy & IBy & ILy) St. cbn [wstep] in St.
  destruct (client_allowed ca) eqn:Eal; [|discriminate].
  set (sd := gs z w) in *.
  destruct (step (cfg_of z) (s_cl sd) ca) as [[c' oc]|] eqn:Es; [|discriminate]. inversion St; subst w' o. clear St.
  rewrite Bool.negb_involutive in *.
  pose proof (step_region _ _ _ _ _ Es) as Rg.
  pose proof (open_step _ _ _ _ _ Es) as Eop.
  pose proof (conn_step _ _ _ _ _ Es) as Ecn.
  assert (Hreq : forall r, In (OReq r) oc -> ca = ALoop /\ r <> RInit).
  { intros r Hi. destruct (reqs_step _ _ _ _ _ _ Es Hi) as [[-> _]|Hx]; [discriminate|exact Hx]. }
  assert (Hnoack : forall n e, ~ In (z, OAckProc n e) (tag z oc)).
  { intros n e Hi. apply in_tag in Hi as [_ Hi]. destruct (ackproc_region _ _ _ _ _ _ Rg Hi) as [-> _]. discriminate. }
  assert (Hother : forall ob, ~ In (negb z, ob) (tag z oc)).
  { intros ob Hi. apply in_tag in Hi as [E _]. exact (negb_neq _ E). }
  set (sd1 := mkSide c' (s_cq sd ++ reqs_of_obs oc) (s_rq sd) (s_call sd)).
  set (sd2 := if ended oc then drop_stream sd1 else sd1).
  assert (Ecl : s_cl sd2 = c') by (unfold sd2; destruct (ended oc); reflexivity).
  assert (Ebr : box_recv sd2 = box_recv sd) by (unfold sd2; destruct (ended oc); [rewrite box_recv_drop|]; reflexivity).
  assert (Eak : box_acked sd2 = box_acked sd) by (unfold sd2; destruct (ended oc); [rewrite box_acked_drop|]; reflexivity).
  assert (Ecq : forall r, In r (s_cq sd2) -> In r (s_cq sd) \/ In (z, OReq r) (tag z oc)).
  { intros r Hi. unfold sd2 in Hi. destruct (ended oc); [destruct Hi|].
    cbn in Hi. apply in_app_or in Hi as [Hi|Hi]; auto. right. apply in_tag. split; auto. apply in_reqs_of_obs, Hi. }
  assert (Erq : forall r, In r (s_rq sd2) -> In r (s_rq sd)).
  { intros r Hi. unfold sd2 in Hi. destruct (ended oc); [destruct Hi|exact Hi]. }
  split.
  - (* InvX z *)
    unfold InvX. rewrite gs_ss_same, gs_ss_other', epoch_ss. fold sd. split; [|split].
    + eapply IA_step; try exact IAz; auto.
      * intros e m Hi. destruct (Ecq _ Hi) as [Hx|Hx]; auto. right. exists e. apply in_or_app. auto.
      * intros j m eo Hi. destruct (Hother _ Hi).
    + rewrite Eak. unfold open_of. rewrite Ecl.
      destruct (ended oc) eqn:Een.
      * (* execute returned: the stream is gone *)
        unfold sd2. rewrite link_prev_drop. cbn [s_rq drop_stream].
        eapply IB_step; try exact IBz; auto; cbn; auto.
        -- discriminate.
        -- intros n e Hi. destruct (Hnoack _ _ Hi).
      * assert (Eo : t_open (tk c') = t_open (tk (s_cl sd))).
        { destruct ca; try discriminate; auto; destruct Ecn as (_ & _ & E); congruence. }
        rewrite Eo. unfold sd2. cbn [s_rq sd1 link_prev s_call].
        eapply IB_keep; eauto.
    + unfold conn_of, open_of, is_linked. rewrite Ecl.
      destruct ILz as [L0 L1 L2]. unfold conn_of, open_of, is_linked in *. fold sd in L0, L1, L2.
      destruct (ended oc) eqn:Een.
      * assert (Hend : conn c' = None /\ t_open (tk c') = None).
        { destruct ca; try discriminate; try (destruct Ecn as [_ E]; congruence); destruct Ecn as (_ & E & _); auto. }
        destruct Hend as [Hc Ho]. unfold sd2. cbn. rewrite Ho. constructor; auto.
        -- destruct (s_call sd); cbn; discriminate.
        -- intros [].
      * assert (Eo : t_open (tk c') = t_open (tk (s_cl sd))).
        { destruct ca; try discriminate; auto; destruct Ecn as (_ & _ & E); congruence. }
        assert (Ec : conn c' = None <-> conn (s_cl sd) = None).
        { destruct ca; try discriminate; try (destruct Ecn as [E _]; tauto);
            destruct Ecn as (_ & _ & E); congruence. }
        assert (Hloop : reqs_of_obs oc <> [] -> conn (s_cl sd) <> None).
        { intros Hne. destruct (reqs_of_obs oc) as [|r rs] eqn:Er; [congruence|].
          assert (Hi : In (OReq r) oc) by (apply in_reqs_of_obs; rewrite Er; left; reflexivity).
          destruct (Hreq _ Hi) as [-> _]. cbn [step] in Es. destruct (conn (s_cl sd)); [discriminate|discriminate]. }
        assert (Hnoinit : ~ In RInit (reqs_of_obs oc)).
        { intros Hi. apply in_reqs_of_obs in Hi. destruct (Hreq _ Hi) as [_ E]. congruence. }
        rewrite Eo. unfold sd2. cbn [s_rq s_cq sd1 s_call]. constructor.
        -- intros Hc. apply Ec in Hc. destruct (L0 Hc) as (A & B & C). rewrite C. repeat split; auto.
           destruct (reqs_of_obs oc) eqn:Er; auto. exfalso. apply Hloop; [discriminate|exact Hc].
        -- intros Hl. destruct (L1 Hl) as [A B]. split; [rewrite Ec; exact A|].
           intros Hi. apply in_app_or in Hi as [Hi|Hi]; auto.
        -- intros Hi. apply in_app_or in Hi as [Hi|Hi]; [|contradiction].
           destruct (L2 Hi) as (A & B & rest & C & D). repeat split; auto.
           exists (rest ++ reqs_of_obs oc). rewrite C. split; auto.
           intros Hx. apply in_app_or in Hx as [Hx|Hx]; auto.
  - (* InvX (negb z) *)
    unfold InvX. rewrite Bool.negb_involutive, gs_ss_same, gs_ss_other', epoch_ss. fold sd. split; [|split].
    + rewrite Ebr. unfold recv_of. rewrite Ecl.
      destruct (recv_region _ _ _ _ Rg) as [Rv Rd].
      eapply IA_step; try exact IAy; auto.
      * intros m Hi. left. destruct (Rv _ Hi) as [Hx|Hx]; auto. subst ca. discriminate.
      * intros j m eo Hi. rewrite Bool.negb_involutive in Hi. apply in_tag in Hi as [_ Hi].
        apply Sent_mono. apply (a4 _ _ _ _ _ _ IAy). apply (Rd _ _ _ Hi).
    + eapply IB_same_stream; [exact IBy| | | |].
      * intros e n Hi. rewrite Bool.negb_involutive. destruct (Ecq _ Hi) as [Hx|Hx]; auto. right. apply in_or_app. auto.
      * auto.
      * auto.
      * intros n e Hi. destruct (Hother _ Hi).
    + exact ILy.
Qed.

Lemma pres_conn z w H w' o :
  InvX z w H -> InvX (negb z) w H ->
  wstep w (WConn z) = Some (w', o) ->
  InvX z w' (H ++ o) /\ InvX (negb z) w' (H ++ o).
Proof.
  intros (IAz & IBz & ILz) (IAy & IBy & ILy) St. cbn [wstep] in St.
  set (sd := gs z w) in *.
  destruct (step (cfg_of z) (s_cl sd) AConnStart) as [[c' oc]|] eqn:Es; [|discriminate]. inversion St; subst w' o. clear St.
  rewrite Bool.negb_involutive in *.
  pose proof (step_region _ _ _ _ _ Es) as Rg.
  pose proof (open_step _ _ _ _ _ Es) as Eop. cbn in Eop.
  destruct (conn_step _ _ _ _ _ Es) as (Ec0 & Ec1 & _).
  assert (Eoc : oc = [OReq RInit]).
  { cbn [step] in Es. destruct (conn (s_cl sd)); inversion Es; reflexivity. }
  subst oc. cbn [reqs_of_obs].
  assert (Hother : forall ob, ~ In (negb z, ob) (tag z [OReq RInit])).
  { intros ob Hi. apply in_tag in Hi as [E _]. exact (negb_neq _ E). }
  destruct ILz as [L0 L1 L2]. unfold conn_of, open_of, is_linked in L0, L1, L2. fold sd in L0, L1, L2.
  destruct (L0 Ec0) as (Lo & Lr & Lc).
  assert (Hnl : link_prev sd = None /\ is_linked sd = false).
  { unfold link_prev, is_linked. destruct (s_call sd) as [c|]; auto.
    destruct (rc_linked c) eqn:El; auto. exfalso. destruct (L1 eq_refl) as [A _]. auto. }
  destruct Hnl as [Hlp Hlk].
  split.
  - unfold InvX. rewrite gs_ss_same, gs_ss_other', epoch_ss. fold sd. split; [|split].
    + eapply IA_step; try exact IAz; auto.
      * cbn. intros e m [E|[]]; discriminate.
      * intros j m eo Hi. destruct (Hother _ Hi).
    + unfold open_of, box_acked, link_prev. cbn [s_cl s_rq s_call]. fold (box_acked sd). fold (link_prev sd).
      rewrite Hlp. eapply IB_step; try exact IBz; auto; cbn; auto.
      * discriminate.
      * intros n e [E|[]]. discriminate.
    + unfold conn_of, open_of, is_linked. cbn [s_cl s_rq s_cq s_call]. fold (is_linked sd). rewrite Hlk, Eop, Lo.
      constructor.
      * intros E. contradiction.
      * discriminate.
      * intros _. repeat split; auto. exists []. split; auto.
  - unfold InvX. rewrite Bool.negb_involutive, gs_ss_same, gs_ss_other', epoch_ss. fold sd. split; [|split].
    + unfold box_recv, recv_of. cbn [s_cl s_rq s_call]. fold (box_recv sd).
      destruct (recv_region _ _ _ _ Rg) as [Rv Rd].
      eapply IA_step; try exact IAy; auto.
      * cbn. intros m [].
      * intros m Hi. left. destruct (Rv _ Hi) as [Hx|Hx]; auto. discriminate.
      * intros j m eo Hi. rewrite Bool.negb_involutive in Hi. apply in_tag in Hi as [_ [E|[]]]. discriminate.
    + eapply IB_same_stream; [exact IBy| |auto|auto|].
      * cbn. intros e n [E|[]]; discriminate.
      * intros n e Hi. destruct (Hother _ Hi).
    + exact ILy.
Qed.

Lemma pres_deliver z w H w' o :
  InvX z w H -> InvX (negb z) w H ->
  wstep w (WDeliver z) = Some (w', o) ->
  InvX z w' (H ++ o) /\ InvX (negb z) w' (H ++ o).
Proof.
  intros (IAz & IBz & ILz) (IAy & IBy & ILy) St. cbn [wstep] in St.
  rewrite Bool.negb_involutive in *.
  set (sd := gs z w) in *.
  destruct (s_rq sd) as [|r rest] eqn:Erq; [discriminate|].
  destruct (step (cfg_of z) (s_cl sd) (AResp r)) as [[c' oc]|] eqn:Es; [|discriminate]. inversion St; subst w' o. clear St.
  pose proof (step_region _ _ _ _ _ Es) as Rg.
  pose proof (open_step _ _ _ _ _ Es) as Eop. cbn in Eop.
  destruct (conn_step _ _ _ _ _ Es) as (Ec & _).
  assert (Hup : conn (s_cl sd) <> None).
  { cbn [step] in Es. destruct (conn (s_cl sd)); [discriminate|discriminate]. }
  assert (Hother : forall ob, ~ In (negb z, ob) (tag z oc)).
  { intros ob Hi. apply in_tag in Hi as [E _]. exact (negb_neq _ E). }
  assert (Hnoreq : forall q, ~ In (OReq q) oc).
  { intros q Hi. destruct (reqs_step _ _ _ _ _ _ Es Hi) as [[E _]|[E _]]; discriminate. }
  split.
  - unfold InvX. rewrite gs_ss_same, gs_ss_other', epoch_ss. fold sd. split; [|split].
    + eapply IA_step; try exact IAz; auto.
      intros j m eo Hi. destruct (Hother _ Hi).
    + unfold open_of, box_acked, link_prev. cbn [s_cl s_rq s_call]. fold (box_acked sd). fold (link_prev sd).
      rewrite Eop. pose proof (b3 _ _ _ _ _ _ _ _ IBz) as B3. pose proof (b4 _ _ _ _ _ _ _ _ IBz) as B4.
      cbn [acks_ok scan_end] in B3, B4. unfold open_of in B3, B4. destruct B3 as [B3h B3t].
      eapply IB_step; try exact IBz; auto.
      * eapply acks_ok_mono; [|exact B3t]. intros; apply Just_mono; auto.
      * intros n e Hi. apply in_tag in Hi as [_ Hi].
        destruct (ackproc_region _ _ _ _ _ _ Rg Hi) as [Er Eo]. inversion Er; subst r.
        apply Just_mono. rewrite <- Eo in B3h. exact B3h.
    + unfold conn_of, open_of, is_linked. cbn [s_cl s_rq s_cq s_call]. fold (is_linked sd).
      destruct ILz as [L0 L1 L2]. unfold conn_of, open_of, is_linked in L0, L1, L2. fold sd in L0, L1, L2.
      constructor.
      * intros E. apply Ec in E. contradiction.
      * intros Hl. destruct (L1 Hl) as [A B]. split; auto. intros E. apply Ec in E. contradiction.
      * intros Hi. destruct (L2 Hi) as (A & _). discriminate.
  - unfold InvX. rewrite Bool.negb_involutive, gs_ss_same, gs_ss_other', epoch_ss. fold sd. split; [|split].
    + unfold box_recv, recv_of. cbn [s_cl s_rq s_call]. fold (box_recv sd).
      destruct (recv_region _ _ _ _ Rg) as [Rv Rd].
      pose proof (a3 _ _ _ _ _ _ IAy) as A3.
      eapply IA_step; try exact IAy; auto.
      * intros m Hi. left. right. exact Hi.
      * intros m Hi. destruct (Rv _ Hi) as [Hx|Hx]; auto. inversion Hx; subst r.
        right. apply Sent_mono. apply A3. left. reflexivity.
      * intros j m eo Hi. rewrite Bool.negb_involutive in Hi. apply in_tag in Hi as [_ Hi].
        apply Sent_mono. apply (a4 _ _ _ _ _ _ IAy). apply (Rd _ _ _ Hi).
    + eapply IB_same_stream; [exact IBy|auto|auto|auto|].
      intros n e Hi. destruct (Hother _ Hi).
    + exact ILy.
Qed.

(* the stream of z breaks: reader error, queues dropped, relay call unlinked *)
Lemma pres_break z w H c' oc :
  InvX z w H -> InvX (negb z) w H ->
  step (cfg_of z) (s_cl (gs z w)) (AResp PFail) = Some (c', oc) ->
  InvX z (ss z (drop_stream (set_cl c' (gs z w))) w) (H ++ tag z oc) /\
  InvX (negb z) (ss z (drop_stream (set_cl c' (gs z w))) w) (H ++ tag z oc).
Proof.
  intros (IAz & IBz & ILz) (IAy & IBy & ILy) Es.
  set (sd := gs z w) in *. rewrite Bool.negb_involutive in *.
  pose proof (step_region _ _ _ _ _ Es) as Rg.
  pose proof (open_step _ _ _ _ _ Es) as Eop. cbn in Eop.
  destruct (conn_step _ _ _ _ _ Es) as (Ec & _).
  assert (Hup : conn (s_cl sd) <> None).
  { cbn [step] in Es. destruct (conn (s_cl sd)); [discriminate|discriminate]. }
  assert (Hother : forall ob, ~ In (negb z, ob) (tag z oc)).
  { intros ob Hi. apply in_tag in Hi as [E _]. exact (negb_neq _ E). }
  split.
  - unfold InvX. rewrite gs_ss_same, gs_ss_other', epoch_ss. fold sd. split; [|split].
    + eapply IA_step; try exact IAz; auto.
      * cbn. intros e m [].
      * intros j m eo Hi. destruct (Hother _ Hi).
    + rewrite box_acked_drop, link_prev_drop. unfold open_of. cbn [s_cl s_rq drop_stream set_cl].
      unfold box_acked. cbn [s_call set_cl]. fold (box_acked sd).
      eapply IB_step; try exact IBz; auto; cbn; auto.
      * discriminate.
      * intros n e Hi. apply in_tag in Hi as [_ Hi].
        destruct (ackproc_region _ _ _ _ _ _ Rg Hi) as [Er _]. discriminate.
    + unfold conn_of, open_of. rewrite is_linked_drop. cbn [s_cl s_rq s_cq drop_stream set_cl].
      constructor.
      * intros E. apply Ec in E. contradiction.
      * discriminate.
      * intros [].
  - unfold InvX. rewrite Bool.negb_involutive, gs_ss_same, gs_ss_other', epoch_ss. fold sd. split; [|split].
    + rewrite box_recv_drop. unfold recv_of, box_recv. cbn [s_cl s_rq s_call drop_stream set_cl]. fold (box_recv sd).
      destruct (recv_region _ _ _ _ Rg) as [Rv Rd].
      eapply IA_step; try exact IAy; auto.
      * cbn. intros m [].
      * intros m Hi. left. destruct (Rv _ Hi) as [Hx|Hx]; auto. discriminate.
      * intros j m eo Hi. rewrite Bool.negb_involutive in Hi. apply in_tag in Hi as [_ Hi].
        apply Sent_mono. apply (a4 _ _ _ _ _ _ IAy). apply (Rd _ _ _ Hi).
    + eapply IB_same_stream; [exact IBy| |auto|auto|].
      * cbn. intros e n [].
      * intros n e Hi. destruct (Hother _ Hi).
    + exact ILy.
Qed.

Lemma pres_fail z w H w' o :
  InvX z w H -> InvX (negb z) w H ->
  wstep w (WFail z) = Some (w', o) ->
  InvX z w' (H ++ o) /\ InvX (negb z) w' (H ++ o).
Proof.
  intros Iz Iy St. cbn [wstep] in St.
  destruct (step (cfg_of z) (s_cl (gs z w)) (AResp PFail)) as [[c' oc]|] eqn:Es; [|discriminate].
  inversion St; subst. apply pres_break; auto.
Qed.

(* ------------------------------------------------------------------ *)
(* the invariant only looks at these projections of a side             *)

Definition side_eq (s s' : side) : Prop :=
  s_cl s' = s_cl s /\ s_cq s' = s_cq s /\ s_rq s' = s_rq s /\ box_recv s' = box_recv s /\
  box_acked s' = box_acked s /\ link_prev s' = link_prev s /\ is_linked s' = is_linked s.

Lemma side_eq_refl s : side_eq s s.
Proof. repeat split. Qed.

Lemma InvX_sides x w H sx sy ep :
  side_eq (gs x w) sx -> side_eq (gs (negb x) w) sy -> ep = w_epoch w ->
  InvX x w H ->
  IA H x (s_cq sx) (box_recv sy) (s_rq sy) (recv_of sy) /\
  IB H x (s_cq sy) (box_acked sx) ep (open_of sx) (s_rq sx) (link_prev sx) /\
  IL (conn_of sx) (open_of sx) (s_rq sx) (s_cq sx) (is_linked sx).
Proof.
  intros (A1 & A2 & A3 & A4 & A5 & A6 & A7) (B1 & B2 & B3 & B4 & B5 & B6 & B7) -> I.
  unfold InvX in I. unfold recv_of, open_of, conn_of in *.
  rewrite A1, A2, A3, A5, A6, A7, B1, B2, B3, B4. exact I.
Qed.

Lemma side_eq_wake s : side_eq s (set_call (option_map wake_rc (s_call s)) s).
Proof.
  unfold side_eq, box_recv, box_acked, link_prev, is_linked; cbn.
  destruct (s_call s); cbn; repeat split.
Qed.

Lemma InvX_bcast x w H : InvX x w H -> InvX x (sess_bcast w) H.
Proof.
  intros I. unfold InvX. rewrite !gs_sess_bcast.
  apply (InvX_sides x w H); auto using side_eq_wake.
Qed.

Lemma set_cl_eta s : set_cl (s_cl s) s = s.
Proof. destruct s; reflexivity. Qed.

(* a request of z is taken from its queue *)
Lemma pres_pop z w H r rest :
  s_cq (gs z w) = r :: rest -> is_linked (gs z w) = true ->
  InvX z w H -> InvX (negb z) w H ->
  InvX z (ss z (set_cq rest (gs z w)) w) H /\ InvX (negb z) (ss z (set_cq rest (gs z w)) w) H.
Proof.
  intros Eq Hl (IAz & IBz & ILz) (IAy & IBy & ILy).
  rewrite Bool.negb_involutive in *. set (sd := gs z w) in *.
  split.
  - unfold InvX. rewrite gs_ss_same, gs_ss_other', epoch_ss. split; [|split].
    + cbn [s_cq set_cq]. rewrite <- (app_nil_r H). eapply IA_step; try exact IAz; auto.
      * intros e m Hi. left. rewrite Eq. right. exact Hi.
      * intros j m eo [].
    + exact IBz.
    + destruct ILz as [L0 L1 L2]. destruct (L1 Hl) as [Hc Hn]. rewrite Eq in Hn.
      unfold conn_of, open_of, is_linked. cbn [s_cl s_cq s_rq s_call set_cq]. fold (is_linked sd).
      constructor.
      * intros E. contradiction.
      * intros _. split; auto. intros Hi. apply Hn. right. exact Hi.
      * intros Hi. exfalso. apply Hn. right. exact Hi.
  - unfold InvX. rewrite Bool.negb_involutive, gs_ss_same, gs_ss_other', epoch_ss. split; [|split].
    + exact IAy.
    + cbn [s_cq set_cq]. rewrite <- (app_nil_r H). eapply IB_same_stream; [exact IBy| |auto|auto|].
      * intros e n Hi. left. rewrite Eq. right. exact Hi.
      * intros n e [].
    + exact ILy.
Qed.

(* attach / detach clear the remaining peer's mailbox *)
Definition cleared (sp : side) : side :=
  set_call (option_map (fun c => wake_rc (clear_partner c)) (s_call sp)) sp.

Lemma cleared_facts sp :
  s_cl (cleared sp) = s_cl sp /\ s_cq (cleared sp) = s_cq sp /\ s_rq (cleared sp) = s_rq sp /\
  box_recv (cleared sp) = None /\ box_acked (cleared sp) = None /\
  link_prev (cleared sp) = link_prev sp /\ is_linked (cleared sp) = is_linked sp.
Proof.
  unfold cleared, box_recv, box_acked, link_prev, is_linked; cbn.
  destruct (s_call sp); cbn; repeat split.
Qed.

Lemma pres_epoch_change z w H sz' e' :
  (* the new state of side z, the partner cleared, the epoch incremented *)
  s_cl sz' = s_cl (gs z w) -> s_rq sz' = s_rq (gs z w) ->
  (forall r, In r (s_cq sz') -> In r (s_cq (gs z w))) ->
  box_recv sz' = None -> box_acked sz' = None ->
  (forall prev, link_prev sz' = Some prev -> scan_end (open_of (gs z w)) (s_rq (gs z w)) = prev) ->
  IL (conn_of (gs z w)) (open_of (gs z w)) (s_rq (gs z w)) (s_cq sz') (is_linked sz') ->
  InvX z w H -> InvX (negb z) w H ->
  let w' := set_epoch e' (ss (negb z) (cleared (gs (negb z) w)) (ss z sz' w)) in
  InvX z w' H /\ InvX (negb z) w' H.
Proof.
  intros Ecl Erq Ecq Ebr Eak Elp ILnew (IAz & IBz & ILz) (IAy & IBy & ILy) w'.
  rewrite Bool.negb_involutive in *.
  assert (Gz : gs z w' = sz').
  { unfold w'. rewrite gs_set_epoch. destruct z; reflexivity. }
  assert (Gy : gs (negb z) w' = cleared (gs (negb z) w)).
  { unfold w'. rewrite gs_set_epoch. destruct z; reflexivity. }
  assert (Ge : w_epoch w' = e') by (unfold w'; destruct z; reflexivity).
  destruct (cleared_facts (gs (negb z) w)) as (C1 & C2 & C3 & C4 & C5 & C6 & C7).
  split.
  - unfold InvX. rewrite Gz, Gy, Ge. unfold recv_of, open_of, conn_of. rewrite C1, C2, C3, C4, Ecl, Erq, Eak.
    split; [|split].
    + rewrite <- (app_nil_r H). eapply IA_step; try exact IAz; auto.
      * discriminate.
      * intros j m eo [].
    + rewrite <- (app_nil_r H). eapply IB_step; try exact IBz; auto.
      * discriminate.
      * rewrite app_nil_r. exact (b3 _ _ _ _ _ _ _ _ IBz).
      * intros n e [].
    + exact ILnew.
  - unfold InvX. rewrite Bool.negb_involutive, Gz, Gy, Ge. unfold recv_of, open_of, conn_of.
    rewrite C1, C2, C3, C5, C6, C7, Ecl, Erq, Ebr. split; [|split].
    + rewrite <- (app_nil_r H). eapply IA_step; try exact IAy; auto.
      * discriminate.
      * intros j m eo [].
    + rewrite <- (app_nil_r H). eapply IB_step; try exact IBy; auto.
      * discriminate.
      * rewrite app_nil_r. exact (b3 _ _ _ _ _ _ _ _ IBy).
      * exact (b4 _ _ _ _ _ _ _ _ IBy).
      * intros n e [].
    + exact ILy.
Qed.

Lemma pres_attach z w H w' o :
  InvX z w H -> InvX (negb z) w H ->
  wstep w (RAttach z) = Some (w', o) ->
  InvX z w' (H ++ o) /\ InvX (negb z) w' (H ++ o).
Proof.
  intros Iz Iy St. cbn [wstep] in St.
  destruct (s_cq (gs z w)) as [|[| | |] rest] eqn:Eq; try discriminate. inversion St; subst w' o. clear St.
  rewrite app_nil_r. rewrite gs_ss_other'.
  pose proof Iz as (_ & _ & ILz). destruct ILz as [L0 L1 L2].
  destruct (L2 ltac:(rewrite Eq; left; reflexivity)) as (Lr & Lo & rest0 & Er & Hn).
  rewrite Eq in Er. inversion Er; subst rest0.
  assert (Hc : conn_of (gs z w) <> None).
  { intros E. destruct (L0 E) as (_ & _ & E'). rewrite Eq in E'. discriminate. }
  apply (pres_epoch_change z w H (mkSide (s_cl (gs z w)) rest (s_rq (gs z w)) (Some (mkRc mb_empty None WReady true))) (w_epoch w + 1)); auto.
  - cbn. intros r Hi. rewrite Eq. right. exact Hi.
  - cbn. intros prev E. inversion E; subst. rewrite Lr, Lo. reflexivity.
  - cbn. constructor.
    + intros E. contradiction.
    + intros _. split; auto.
    + intros Hi. contradiction.
Qed.

Lemma pres_detach z w H w' o :
  InvX z w H -> InvX (negb z) w H ->
  wstep w (RDetach z) = Some (w', o) ->
  InvX z w' (H ++ o) /\ InvX (negb z) w' (H ++ o).
Proof.
  intros Iz Iy St. cbn [wstep] in St.
  destruct (s_call (gs z w)) as [c|] eqn:Ec; [|discriminate]. destruct (rc_linked c) eqn:El; [discriminate|].
  inversion St; subst w' o. clear St. rewrite app_nil_r. rewrite gs_ss_other'.
  pose proof Iz as (_ & _ & ILz). destruct ILz as [L0 L1 L2].
  apply (pres_epoch_change z w H (set_call None (gs z w))
           (match s_call (gs (negb z) w) with Some _ => w_epoch w + 1 | None => 0 end)); auto.
  - cbn. discriminate.
  - cbn. constructor; auto. discriminate.
Qed.

Lemma acks_ok_noack P o l :
  (forall n, ~ In (PAck n) l) -> acks_ok P o l.
Proof.
  revert o; induction l as [|r l IH]; intros o Hn; cbn; auto. split.
  - destruct r; auto. exfalso. apply (Hn n). left. reflexivity.
  - apply IH. intros n Hi. apply (Hn n). right. exact Hi.
Qed.

Lemma scan_end_plain o l :
  (forall r, In r l -> match r with POpened _ | PClosed _ => False | _ => True end) -> scan_end o l = o.
Proof.
  revert o; induction l as [|r l IH]; intros o Hn; cbn; auto.
  rewrite IH; [|intros r' Hi; apply Hn; right; exact Hi].
  specialize (Hn r (or_introl eq_refl)). destruct r; try reflexivity; destruct Hn.
Qed.

Lemma pres_loop z w H w' o :
  InvX z w H -> InvX (negb z) w H ->
  wstep w (RLoop z) = Some (w', o) ->
  InvX z w' (H ++ o) /\ InvX (negb z) w' (H ++ o).
Proof.
  intros Iz Iy St. cbn [wstep] in St.
  destruct (s_call (gs z w)) as [c|] eqn:Ec; [|discriminate]. destruct (runnable (rc_w c)); [|discriminate].
  set (sd := gs z w) in *. set (sp := gs (negb z) w) in *.
  set (op := match s_call sp with Some _ => Some (w_epoch w) | None => None end) in *.
  set (took := match op with Some _ => true | None => false end) in *.
  set (b := rc_box c) in *.
  set (b' := if took then mkMb None (match b_recv b with Some m => Some (m_seq m) | None => b_sent b end) None None else b) in *.
  set (announce := if zopt_eqb (rc_prev c) op then [] else match op with Some e => [POpened e] | None => [PClosed true] end) in *.
  set (out := if took then opt_resp (b_acked b) PAck ++ opt_resp (b_clear b) PClear ++ opt_resp (b_recv b) (fun m => PRecv (Some m)) else []) in *.
  set (sd' := mkSide (s_cl sd) (s_cq sd) (if rc_linked c then s_rq sd ++ announce ++ out else s_rq sd)
                     (Some (mkRc b' op WWait (rc_linked c)))) in *.
  (* the broadcast only wakes loops *)
  assert (Hw : InvX z (ss z sd' w) H /\ InvX (negb z) (ss z sd' w) H -> InvX z w' (H ++ o) /\ InvX (negb z) w' (H ++ o)).
  { intros [A B]. destruct took; [destruct (b_recv b)|]; inversion St; subst w' o; rewrite app_nil_r;
      auto using InvX_bcast. }
  apply Hw. clear Hw St.
  destruct Iz as (IAz & IBz & ILz). destruct Iy as (IAy & IBy & ILy).
  rewrite Bool.negb_involutive in *. fold sd in IAz, IBz, ILz, IAy, IBy, ILy. fold sp in IAz, IBz, IAy, IBy, ILy.
  assert (Hbr : box_recv sd = b_recv b) by (unfold box_recv; rewrite Ec; reflexivity).
  assert (Hak : box_acked sd = b_acked b) by (unfold box_acked; rewrite Ec; reflexivity).
  assert (Hlk : is_linked sd = rc_linked c) by (unfold is_linked; rewrite Ec; reflexivity).
  assert (Hlp : link_prev sd = if rc_linked c then Some (rc_prev c) else None) by (unfold link_prev; rewrite Ec; reflexivity).
  (* what the appended responses contain *)
  assert (Hann : forall r, In r announce -> match r with POpened _ | PClosed _ => True | _ => False end).
  { intros r Hi. unfold announce in Hi. destruct (zopt_eqb (rc_prev c) op); [destruct Hi|].
    destruct op; destruct Hi as [<-|[]]; exact I. }
  assert (Hout : forall r, In r out -> took = true /\
            ((exists n, r = PAck n /\ b_acked b = Some n) \/ (exists n, r = PClear n) \/
             (exists m, r = PRecv (Some m) /\ b_recv b = Some m))).
  { intros r Hi. unfold out in Hi. destruct took; [|destruct Hi]. split; auto.
    apply in_app_or in Hi as [Hi|Hi]; [|apply in_app_or in Hi as [Hi|Hi]].
    - destruct (b_acked b); [|destruct Hi]. destruct Hi as [<-|[]]. eauto.
    - destruct (b_clear b); [|destruct Hi]. destruct Hi as [<-|[]]. eauto.
    - destruct (b_recv b); [|destruct Hi]. destruct Hi as [<-|[]]. eauto 6. }
  split.
  - unfold InvX. rewrite gs_ss_same, gs_ss_other', epoch_ss. fold sp. split; [|split].
    + exact IAz.
    + unfold box_acked, open_of, link_prev. cbn [s_cl s_rq s_call sd' rc_box rc_linked rc_prev b_acked].
      rewrite <- (app_nil_r H). eapply IB_step; try exact IBz; auto.
      * intros n E. left. split; auto. fold sd. rewrite Hak. unfold b' in E. destruct took; [discriminate|exact E].
      * rewrite app_nil_r. pose proof (b3 _ _ _ _ _ _ _ _ IBz) as B3. pose proof (b4 _ _ _ _ _ _ _ _ IBz) as B4.
        rewrite Hlp in B4. unfold open_of in B3, B4. destruct (rc_linked c); [|exact B3].
        specialize (B4 _ eq_refl). apply acks_ok_app. split; [exact B3|]. rewrite B4.
        apply acks_ok_app. split.
        -- apply acks_ok_noack. intros n Hi. apply Hann in Hi. exact Hi.
        -- (* after the announcement the stream epoch is op *)
           assert (Hse : scan_end (rc_prev c) announce = op).
           { unfold announce. destruct (zopt_eqb (rc_prev c) op) eqn:Ez; cbn.
             - unfold zopt_eqb, option_eqb in Ez. destruct (rc_prev c), op; try discriminate; auto.
               apply Z.eqb_eq in Ez. congruence.
             - destruct op; reflexivity. }
           rewrite Hse. unfold out. destruct took eqn:Et; [|exact I].
           destruct op as [e|] eqn:Eop; [|discriminate].
           assert (Ee : e = w_epoch w) by (unfold op in Eop; destruct (s_call sp); inversion Eop; reflexivity).
           destruct (b_acked b) as [n|] eqn:Eb; cbn.
           ++ split; [subst e; apply (b2 _ _ _ _ _ _ _ _ IBz); rewrite Hak; reflexivity|].
              apply acks_ok_noack. intros n' Hi. apply in_app_or in Hi as [Hi|Hi].
              ** destruct (b_clear b); [destruct Hi as [E|[]]; discriminate|destruct Hi].
              ** destruct (b_recv b); [destruct Hi as [E|[]]; discriminate|destruct Hi].
           ++ apply acks_ok_noack. intros n' Hi. apply in_app_or in Hi as [Hi|Hi].
              ** destruct (b_clear b); [destruct Hi as [E|[]]; discriminate|destruct Hi].
              ** destruct (b_recv b); [destruct Hi as [E|[]]; discriminate|destruct Hi].
      * intros prev E. pose proof (b4 _ _ _ _ _ _ _ _ IBz) as B4. rewrite Hlp in B4. unfold open_of in B4.
        destruct (rc_linked c); [|discriminate]. inversion E; subst prev. specialize (B4 _ eq_refl).
        rewrite !scan_end_app, B4.
        assert (Hse : scan_end (rc_prev c) announce = op).
        { unfold announce. destruct (zopt_eqb (rc_prev c) op) eqn:Ez; cbn.
          - unfold zopt_eqb, option_eqb in Ez. destruct (rc_prev c), op; try discriminate; auto.
            apply Z.eqb_eq in Ez. congruence.
          - destruct op; reflexivity. }
        rewrite Hse. apply scan_end_plain. intros r Hi. destruct (Hout _ Hi) as (_ & [(n & -> & _)|[(n & ->)|(m & -> & _)]]); exact I.
      * intros n e [].
    + destruct ILz as [L0 L1 L2]. rewrite Hlk in L1.
      unfold conn_of, open_of, is_linked. cbn [s_cl s_rq s_cq s_call sd' rc_linked]. fold (conn_of sd) (open_of sd).
      destruct (rc_linked c) eqn:El.
      * destruct (L1 eq_refl) as [Hc Hn]. constructor.
        -- intros E. contradiction.
        -- auto.
        -- intros Hi. contradiction.
      * constructor; auto.
  - unfold InvX. rewrite Bool.negb_involutive, gs_ss_same, gs_ss_other', epoch_ss. fold sp. split; [|split].
    + unfold box_recv, recv_of. cbn [s_cl s_rq s_call sd' rc_box]. fold (recv_of sd).
      rewrite <- (app_nil_r H). eapply IA_step; try exact IAy; auto.
      * intros m E. left. fold sd. rewrite Hbr. unfold b' in E. destruct took; [discriminate|exact E].
      * intros m Hi. destruct (rc_linked c); [|auto].
        apply in_app_or in Hi as [Hi|Hi]; auto. apply in_app_or in Hi as [Hi|Hi].
        -- apply Hann in Hi. destruct Hi.
        -- destruct (Hout _ Hi) as (_ & [(n & E & _)|[(n & E)|(m' & E & Em)]]); try discriminate.
           inversion E; subst m'. right. rewrite app_nil_r. apply (a2 _ _ _ _ _ _ IAy). rewrite Hbr. exact Em.
      * intros j m eo [].
    + exact IBy.
    + exact ILy.
Qed.

(* what the relay's request handlers change *)
Lemma relay_req_obs z r w1 w2 :
  relay_req z r w1 = QDone w2 ->
  w_epoch w2 = w_epoch w1 /\
  (forall u, s_cl (gs u w2) = s_cl (gs u w1) /\ s_cq (gs u w2) = s_cq (gs u w1) /\ s_rq (gs u w2) = s_rq (gs u w1) /\
             link_prev (gs u w2) = link_prev (gs u w1) /\ is_linked (gs u w2) = is_linked (gs u w1)) /\
  box_recv (gs z w2) = box_recv (gs z w1) /\ box_acked (gs z w2) = box_acked (gs z w1) /\
  (box_recv (gs (negb z) w2) = box_recv (gs (negb z) w1) \/ box_recv (gs (negb z) w2) = None \/
   exists e m, r = RSend e m /\ box_recv (gs (negb z) w2) = Some m) /\
  (box_acked (gs (negb z) w2) = box_acked (gs (negb z) w1) \/
   exists n, r = RAck (w_epoch w1) n /\ box_acked (gs (negb z) w2) = Some n).
Proof.
  unfold relay_req. intros E.
  repeat match type of E with context [match ?t with _ => _ end] => destruct t eqn:? end;
    inversion E; subst; clear E.
  all: destruct z; unfold box_recv, box_acked, link_prev, is_linked in *; cbn in *.
  all: repeat match goal with Hx : s_call _ = Some _ |- _ => rewrite Hx in *; cbn in * end.
  all: try (split; [reflexivity|]; split; [intros [|]; cbn; rewrite ?Heqo, ?Heqo0, ?Heqo1; cbn; auto|]; cbn; rewrite ?Heqo, ?Heqo0, ?Heqo1; cbn; auto 10; fail).
  all: try (apply negb_false_iff, Z.eqb_eq in Heqb0; subst).
  all: split; [reflexivity|].
  all: split; [intros [|]; cbn; rewrite ?Heqo0, ?Heqo1; cbn;
               repeat match goal with |- context [s_call ?x] => destruct (s_call x) eqn:?; cbn end; auto|].
  all: cbn; rewrite ?Heqo0, ?Heqo1; cbn;
       repeat match goal with |- context [s_call ?x] => destruct (s_call x) eqn:?; cbn end.
  all: try (repeat split; auto; try (right; right; eexists; eexists; split; reflexivity); try (right; eexists; split; reflexivity); fail).
  all: repeat match goal with Hx : Some _ = Some _ |- _ => inversion Hx; subst; clear Hx end; try discriminate; auto.
Qed.

(* the stream of z is dropped without the client noticing yet *)
Lemma pres_drop z w H :
  InvX z w H -> InvX (negb z) w H -> conn_of (gs z w) <> None ->
  InvX z (ss z (drop_stream (gs z w)) w) H /\ InvX (negb z) (ss z (drop_stream (gs z w)) w) H.
Proof.
  intros (IAz & IBz & ILz) (IAy & IBy & ILy) Hc.
  rewrite Bool.negb_involutive in *. set (sd := gs z w) in *.
  split.
  - unfold InvX. rewrite gs_ss_same, gs_ss_other', epoch_ss. split; [|split].
    + rewrite <- (app_nil_r H). eapply IA_step; try exact IAz; auto.
      * cbn. intros e m [].
      * intros j m eo [].
    + rewrite box_acked_drop, link_prev_drop. unfold open_of. cbn [s_cl s_rq drop_stream].
      rewrite <- (app_nil_r H). eapply IB_step; try exact IBz; auto; cbn; auto.
      * discriminate.
      * intros n e [].
    + unfold conn_of, open_of. rewrite is_linked_drop. cbn [s_cl s_rq s_cq drop_stream].
      constructor.
      * intros E. contradiction.
      * discriminate.
      * intros [].
  - unfold InvX. rewrite Bool.negb_involutive, gs_ss_same, gs_ss_other', epoch_ss. split; [|split].
    + rewrite box_recv_drop. unfold recv_of. cbn [s_cl s_rq drop_stream].
      rewrite <- (app_nil_r H). eapply IA_step; try exact IAy; auto.
      * cbn. intros m [].
      * intros j m eo [].
    + cbn [s_cq drop_stream]. rewrite <- (app_nil_r H). eapply IB_same_stream; [exact IBy| |auto|auto|].
      * intros e n [].
      * intros n e [].
    + exact ILy.
Qed.

Lemma pres_req z w H w' o :
  reach w H -> InvX z w H -> InvX (negb z) w H ->
  wstep w (RReq z) = Some (w', o) ->
  InvX z w' (H ++ o) /\ InvX (negb z) w' (H ++ o).
Proof.
  intros Rch Iz Iy St. cbn [wstep] in St.
  destruct (s_call (gs z w)) as [c|] eqn:Ec; [|discriminate].
  destruct (s_cq (gs z w)) as [|r rest] eqn:Eq; [discriminate|].
  destruct (rc_linked c) eqn:El; [|discriminate].
  assert (Hl : is_linked (gs z w) = true) by (unfold is_linked; rewrite Ec; exact El).
  destruct (pres_pop z w H r rest Eq Hl Iz Iy) as [Iz1 Iy1].
  set (w1 := ss z (set_cq rest (gs z w)) w) in *.
  destruct (relay_req z r w1) as [|w2] eqn:Er.
  - (* error: the call ends, the stream is gone *)
    destruct (step (cfg_of z) (s_cl (gs z w1)) (AResp PFail)) as [[c' oc]|] eqn:Es; inversion St; subst w' o.
    + apply pres_break; auto.
    + rewrite app_nil_r. apply pres_drop; auto.
      pose proof Iz as (_ & _ & ILz). destruct ILz as [L0 L1 L2]. destruct (L1 Hl) as [Hc _].
      unfold w1. rewrite gs_ss_same. exact Hc.
  - inversion St; subst w' o. clear St. rewrite app_nil_r.
    destruct (relay_req_obs _ _ _ _ Er) as (Ee & Hu & Hbr & Hak & Hbrp & Hakp).
    destruct (Hu z) as (U1 & U2 & U3 & U4 & U5). destruct (Hu (negb z)) as (V1 & V2 & V3 & V4 & V5).
    destruct Iz1 as (IAz & IBz & ILz). destruct Iy1 as (IAy & IBy & ILy).
    rewrite Bool.negb_involutive in *.
    (* the request was in the queue of z *)
    assert (Hin : In r (s_cq (gs z w))) by (rewrite Eq; left; reflexivity).
    split.
    + unfold InvX. unfold recv_of, open_of, conn_of. rewrite U1, U2, U3, U4, U5, V1, V2, V3, Hak, Ee.
      split; [|split]; auto.
      rewrite <- (app_nil_r H). eapply IA_step; try exact IAz; auto.
      * intros m Em. destruct Hbrp as [E|[E|(e & m' & -> & E)]]; rewrite E in Em; auto; [discriminate|].
        inversion Em; subst m'. right. rewrite app_nil_r.
        destruct Iz as (IAz0 & _). apply (a1 _ _ _ _ _ _ IAz0 e m Hin).
      * intros j m eo [].
    + unfold InvX. rewrite Bool.negb_involutive. unfold recv_of, open_of, conn_of.
      rewrite U1, U2, U3, V1, V2, V3, V4, V5, Hbr, Ee. split; [|split]; auto.
      rewrite <- (app_nil_r H). eapply IB_step; try exact IBy; auto.
      * intros n En. destruct Hakp as [E|(n' & -> & E)]; rewrite E in En; auto.
        inversion En; subst n'. right. rewrite app_nil_r.
        (* the ack request was written by client z after its Recv returned the message *)
        destruct Iy as (_ & IBy0 & _). rewrite Bool.negb_involutive in IBy0.
        pose proof (b1 _ _ _ _ _ _ _ _ IBy0 _ _ Hin) as Hev. rewrite Bool.negb_involutive in Hev.
        destruct (reach_proj z w H Rch) as [cacts Hrun].
        apply (proj2 (in_proj _ _ _)) in Hev. apply in_split in Hev as (pre & post & Hsp).
        destruct (ack_request_after_recv _ _ _ _ _ _ _ _ Hrun Hsp) as (j & m & Hm & Hi).
        exists j, m. split; auto. rewrite Bool.negb_involutive. apply (proj1 (in_proj _ _ _)). rewrite Hsp. apply in_or_app. left. exact Hi.
      * rewrite app_nil_r. exact (b3 _ _ _ _ _ _ _ _ IBy).
      * exact (b4 _ _ _ _ _ _ _ _ IBy).
      * intros n e [].
Qed.

(* ------------------------------------------------------------------ *)
(* a message-dropping relay / network                                  *)

Lemma in_remove_nth {A} k (l : list A) x : In x (remove_nth k l) -> In x l.
Proof.
  revert k; induction l as [|y l IH]; intros [|k] Hi; cbn in *; auto.
  destruct Hi as [E|Hi]; auto. right. eapply IH; eauto.
Qed.

Lemma droppable_scan o r : droppable_resp r = true -> scan_step o r = o.
Proof. destruct r; cbn; try discriminate; auto. Qed.

Lemma acks_ok_remove P o l k r :
  nth_error l k = Some r -> droppable_resp r = true -> acks_ok P o l -> acks_ok P o (remove_nth k l).
Proof.
  revert o k; induction l as [|y l IH]; intros o [|k] Hn Hd A; cbn in *; try discriminate.
  - inversion Hn; subst. destruct A as [_ A]. rewrite (droppable_scan _ _ Hd) in A. exact A.
  - destruct A as [A1 A2]. split; eauto.
Qed.

Lemma scan_end_remove o l k r :
  nth_error l k = Some r -> droppable_resp r = true -> scan_end o (remove_nth k l) = scan_end o l.
Proof.
  revert o k; induction l as [|y l IH]; intros o [|k] Hn Hd; cbn in *; try discriminate.
  - inversion Hn; subst. rewrite (droppable_scan _ _ Hd). reflexivity.
  - eapply IH; eauto.
Qed.

Lemma pres_drop_msg z rq k w H w' o :
  InvX z w H -> InvX (negb z) w H ->
  wstep w (WDrop z rq k) = Some (w', o) ->
  InvX z w' (H ++ o) /\ InvX (negb z) w' (H ++ o).
Proof.
  intros (IAz & IBz & ILz) (IAy & IBy & ILy) St. cbn [wstep] in St.
  rewrite Bool.negb_involutive in *. set (sd := gs z w) in *.
  destruct rq.
  - destruct (nth_error (s_cq sd) k) as [r|] eqn:En; [|discriminate].
    destruct (droppable_req r) eqn:Ed; inversion St; subst w' o. clear St. rewrite app_nil_r.
    split.
    + unfold InvX. rewrite gs_ss_same, gs_ss_other', epoch_ss. split; [|split].
      * cbn [s_cq set_cq]. rewrite <- (app_nil_r H). eapply IA_step; try exact IAz; auto.
        -- intros e m Hi. left. eapply in_remove_nth; eauto.
        -- intros j m eo [].
      * exact IBz.
      * destruct ILz as [L0 L1 L2]. fold sd in L0, L1, L2.
        unfold conn_of, open_of, is_linked. cbn [s_cl s_cq s_rq s_call set_cq]. fold (is_linked sd) (conn_of sd) (open_of sd).
        constructor.
        -- intros E. destruct (L0 E) as (A & B & C). rewrite C. destruct k; auto.
        -- intros Hl. destruct (L1 Hl) as [A B]. split; auto. intros Hi. apply B. eapply in_remove_nth; eauto.
        -- intros Hi. apply in_remove_nth in Hi. destruct (L2 Hi) as (A & B & rest & C & D).
           repeat split; auto. rewrite C in En |- *. destruct k as [|k]; cbn in En.
           ++ inversion En; subst r. discriminate.
           ++ exists (remove_nth k rest). cbn. split; auto. intros Hx. apply D. eapply in_remove_nth; eauto.
    + unfold InvX. rewrite Bool.negb_involutive, gs_ss_same, gs_ss_other', epoch_ss. split; [|split].
      * exact IAy.
      * cbn [s_cq set_cq]. rewrite <- (app_nil_r H). eapply IB_same_stream; [exact IBy| |auto|auto|].
        -- intros e n Hi. left. eapply in_remove_nth; eauto.
        -- intros n e [].
      * exact ILy.
  - destruct (nth_error (s_rq sd) k) as [r|] eqn:En; [|discriminate].
    destruct (droppable_resp r) eqn:Ed; inversion St; subst w' o. clear St. rewrite app_nil_r.
    split.
    + unfold InvX. rewrite gs_ss_same, gs_ss_other', epoch_ss. split; [|split].
      * exact IAz.
      * unfold box_acked, open_of, link_prev. cbn [s_cl s_rq s_call set_rq].
        fold (box_acked sd) (open_of sd) (link_prev sd).
        rewrite <- (app_nil_r H). eapply IB_step; try exact IBz; auto.
        -- rewrite app_nil_r. eapply acks_ok_remove; eauto. exact (b3 _ _ _ _ _ _ _ _ IBz).
        -- intros prev E. rewrite (scan_end_remove _ _ _ _ En Ed). exact (b4 _ _ _ _ _ _ _ _ IBz prev E).
        -- intros n e [].
      * destruct ILz as [L0 L1 L2]. fold sd in L0, L1, L2.
        unfold conn_of, open_of, is_linked. cbn [s_cl s_cq s_rq s_call set_rq]. fold (is_linked sd) (conn_of sd) (open_of sd).
        constructor; auto.
        -- intros E. destruct (L0 E) as (A & B & C). rewrite B. destruct k; auto.
        -- intros Hi. destruct (L2 Hi) as (A & B & C). rewrite A. destruct k; auto.
    + unfold InvX. rewrite Bool.negb_involutive, gs_ss_same, gs_ss_other', epoch_ss. split; [|split].
      * unfold box_recv, recv_of. cbn [s_cl s_rq s_call set_rq]. fold (box_recv sd) (recv_of sd).
        rewrite <- (app_nil_r H). eapply IA_step; try exact IAy; auto.
        -- intros m Hi. left. eapply in_remove_nth; eauto.
        -- intros j m eo [].
      * exact IBy.
      * exact ILy.
Qed.

(* ------------------------------------------------------------------ *)
(* the invariant holds in every reachable world                        *)

Lemma Inv_init : Inv w_init [].
Proof.
  assert (G : forall x, InvX x w_init []).
  { intros x. unfold InvX. destruct x; cbn; (split; [|split]); constructor; cbn; intros;
      try discriminate; try contradiction; auto. }
  split; apply G.
Qed.

Lemma inv_step w H a w' o :
  reach w H -> Inv w H -> wstep w a = Some (w', o) -> Inv w' (H ++ o).
Proof.
  intros Rch [It If] St.
  assert (G : forall z, InvX z w H /\ InvX (negb z) w H) by (intros [|]; cbn; auto).
  assert (K : forall z, InvX z w' (H ++ o) /\ InvX (negb z) w' (H ++ o) -> Inv w' (H ++ o)).
  { intros [|] [A B]; cbn in B; split; auto. }
  destruct a as [z ca|z|z|z|z|z|z|z|z rq k]; apply (K z); destruct (G z) as [Iz Iy].
  - eapply pres_cli; eauto.
  - eapply pres_conn; eauto.
  - eapply pres_deliver; eauto.
  - eapply pres_fail; eauto.
  - eapply pres_attach; eauto.
  - eapply pres_req; eauto.
  - eapply pres_loop; eauto.
  - eapply pres_detach; eauto.
  - eapply pres_drop_msg; eauto.
Qed.

Lemma reach_inv w H : reach w H -> Inv w H.
Proof. induction 1; [apply Inv_init|eapply inv_step; eauto]. Qed.

Lemma Inv_X x w H : Inv w H -> InvX x w H.
Proof. intros [A B]. destruct x; auto. Qed.

(* ------------------------------------------------------------------ *)
(* C21 end to end                                                      *)

Lemma resp_no_senddone r t t' o i m eo :
  region (AResp r) t t' o -> ~ In (OSendDone i true m eo) o.
Proof.
  intros R Hin. inversion R; subst.
  - match goal with Hk : forall x, In x o -> _ |- _ => specialize (Hk _ Hin); destruct Hk end.
  - destruct r; try (destruct Hin; fail).
    match goal with |- _ => idtac end.
    destruct (ack_marks n t); [destruct Hin as [E|[]]; discriminate|destruct Hin].
  - destruct Hin as [E|[]]; discriminate.
Qed.

(* in a reachable world with history H, a Send of x that succeeds now (event
   in the output o of the next step) was preceded by the partner's Recv
   returning the same message in the same epoch *)
Lemma send_ok_step w H a w' o x i m eo :
  reach w H -> wstep w a = Some (w', o) ->
  In (x, OSendDone i true m eo) o ->
  exists j, In (negb x, ORecvDone j (Some m) eo) H.
Proof.
  intros Rch St Hin.
  assert (Rch' : reach w' (H ++ o)) by (eapply reach_step; eauto).
  pose proof (reach_inv _ _ Rch) as I0.
  (* the client history of x *)
  destruct (reach_proj x w' (H ++ o) Rch') as [cacts Hrun].
  assert (Hev : In (OSendDone i true m eo) (proj x (H ++ o))).
  { apply (proj2 (in_proj _ _ _)). apply in_or_app. right. exact Hin. }
  apply in_split in Hev as (pre & post & Hsp).
  pose proof (send_ok_after_ack _ _ _ _ _ _ _ _ _ Hrun Hsp) as Hack.
  (* the epoch is Some e *)
  assert (He : exists e, eo = Some e).
  { destruct (wstep_view x _ _ _ _ St) as [[_ E2]|[ca Es]].
    - exfalso. assert (Hx : In (OSendDone i true m eo) (proj x o)) by (apply (proj2 (in_proj _ _ _)); exact Hin).
      rewrite E2 in Hx. destruct Hx.
    - eapply senddone_region; [eapply step_region; exact Es|]. apply (proj2 (in_proj _ _ _)). exact Hin. }
  destruct He as [e ->].
  (* the ack event lies in H: the step that reports success emits nothing before it *)
  assert (HackH : In (x, OAckProc (m_seq m) (Some e)) H).
  { assert (Hx : In (x, OAckProc (m_seq m) (Some e)) (H ++ o)).
    { apply (proj1 (in_proj _ _ _)). rewrite Hsp. apply in_or_app. left. exact Hack. }
    apply in_app_or in Hx as [Hx|Hx]; auto. exfalso.
    destruct (wstep_view x _ _ _ _ St) as [[_ E2]|[ca Es]].
    - assert (Hy : In (OAckProc (m_seq m) (Some e)) (proj x o)) by (apply (proj2 (in_proj _ _ _)); exact Hx).
      rewrite E2 in Hy. destruct Hy.
    - pose proof (step_region _ _ _ _ _ Es) as Rg.
      assert (H1 : In (OAckProc (m_seq m) (Some e)) (proj x o)) by (apply (proj2 (in_proj _ _ _)); exact Hx).
      assert (H2 : In (OSendDone i true m (Some e)) (proj x o)) by (apply (proj2 (in_proj _ _ _)); exact Hin).
      destruct (ackproc_region _ _ _ _ _ _ Rg H1) as [-> _].
      exact (resp_no_senddone _ _ _ _ _ _ _ Rg H2). }
  (* justified by the partner's Recv *)
  destruct (Inv_X x _ _ I0) as (_ & IBx & _).
  destruct (b5 _ _ _ _ _ _ _ _ IBx _ _ HackH) as (j & m' & Hseq & Hrecv).
  (* it is the same message *)
  destruct (Inv_X x _ _ I0) as (IAx & _ & _).
  destruct (a5 _ _ _ _ _ _ IAx _ _ _ Hrecv) as (e' & Hsent).
  assert (Hm : m' = m).
  { destruct (run_invM _ _ _ _ _ invM_init Hrun) as ((U & _ & _) & _ & F1 & F2).
    assert (S1 : In m' (msgs (s_cl (gs x w')))).
    { apply (F1 e' m'). apply (proj2 (in_proj _ _ _)). apply in_or_app. left. exact Hsent. }
    assert (S2 : nth_error (msgs (s_cl (gs x w'))) i = Some m).
    { apply (F2 i true m (Some e)). apply (proj2 (in_proj _ _ _)). apply in_or_app. right. exact Hin. }
    eapply seq_ok_inj; eauto. }
  subst m'. exists j. exact Hrecv.
Qed.

Theorem send_ok_after_partner_recv : forall acts w tr pre post x i m eo,
  wrun w_init acts = (w, tr) ->
  tr = pre ++ (x, OSendDone i true m eo) :: post ->
  exists j, In (negb x, ORecvDone j (Some m) eo) pre.
Proof.
  intros acts.
  assert (G : forall w0 H0 w tr, reach w0 H0 -> wrun w0 acts = (w, tr) ->
              forall pre post x i m eo, tr = pre ++ (x, OSendDone i true m eo) :: post ->
              exists j, In (negb x, ORecvDone j (Some m) eo) (H0 ++ pre)).
  { induction acts as [|a acts IH]; intros w0 H0 w tr R E; cbn [wrun] in E.
    - inversion E; subst. intros [|? ?] ? ? ? ? ? Eq; discriminate.
    - destruct (wexec w0 a) as [w1 o1] eqn:E1. destruct (wrun w1 acts) as [w2 o2] eqn:E2. inversion E; subst.
      unfold wexec in E1. destruct (wstep w0 a) as [[wx ox]|] eqn:Es; inversion E1; subst.
      + intros pre post x i m eo Eq.
        assert (Hsplit : (exists post1, o1 = pre ++ (x, OSendDone i true m eo) :: post1) \/
                         (exists pre2, pre = o1 ++ pre2 /\ o2 = pre2 ++ (x, OSendDone i true m eo) :: post)).
        { clear - Eq. revert pre Eq. induction o1 as [|y o1 IHo]; intros pre Eq; cbn in *.
          - right. exists pre. split; auto.
          - destruct pre as [|y' pre]; cbn in *.
            + inversion Eq; subst. left. exists o1. reflexivity.
            + inversion Eq; subst. destruct (IHo pre H1) as [(p1 & Hp)|(p2 & Hp & Hq)].
              * left. exists p1. rewrite Hp. reflexivity.
              * right. exists p2. split; auto. rewrite Hp. reflexivity. }
        destruct Hsplit as [(post1 & Hp)|(pre2 & Hp & Hq)].
        * destruct (send_ok_step w0 H0 a w1 o1 x i m eo R Es) as [j Hj].
          { rewrite Hp. apply in_or_app. right. left. reflexivity. }
          exists j. apply in_or_app. left. exact Hj.
        * subst pre. rewrite app_assoc. eapply (IH w1 (H0 ++ o1)); eauto. eapply reach_step; eauto.
      + cbn. eapply (IH w1 H0); eauto. }
  intros w tr pre post x i m eo E Eq. apply (G w_init [] w tr reach_init E pre post x i m eo Eq).
Qed.
