(* C29: three small models.
   1. the opener rule of pubsub/controller/tracked-link.go trackLink;
   2. subscription handles of pubsub/floodsub/sub.go and the callback
      goroutines spawned by handleValidMessage (per-subscription mutex);
   3. the Execute loop of pubsub/floodsub/floodsub.go: the loop body
      (incSessions/initSet pass and sweep with pubbedChannels) is one m.mtx
      region since /repo commit 4585b8b.
   No proofs in this file. *)
From Bifrost Require Import Lib.Base Lib.Lex gen.Pubsub.

(* ---------- 1. who opens the pubsub stream ---------- *)

(* the comparison found in the source, applied to the two String() texts *)
Definition cmp_op (op a b : bytes) : bool :=
  if bytes_eqb op [62] then lex_gt a b                  (* >  *)
  else if bytes_eqb op [60] then lex_lt a b             (* <  *)
  else if bytes_eqb op [62; 61] then negb (lex_lt a b)  (* >= *)
  else if bytes_eqb op [60; 61] then negb (lex_gt a b)  (* <= *)
  else false.

(* trackLink returns early (does not open) when the comparison holds *)
Definition opens_str (local remote : bytes) : bool :=
  negb (cmp_op pubsub_opener_skip_op local remote).

(* ---------- 2. subscription handles and callbacks ---------- *)

Record sstate := SState {
  ss_chan : list (nat * nat);   (* (subscription, channel): membership in m.channels[channel] *)
  ss_h : list (nat * nat);      (* (subscription, handler): the handlers map *)
  ss_jobs : list (nat * nat)    (* (subscription, message): callback goroutines spawned and not yet run *)
}.

Inductive sact :=
| SSubscribe (s ch : nat)       (* AddSubscription, m.mtx region *)
| SAddHandler (s h : nat)       (* AddHandler, s.mtx region *)
| SRemoveHandler (s h : nat)    (* the remove function, s.mtx region *)
| SReleaseA (s : nat)           (* Release, first region: handlers emptied under s.mtx *)
| SReleaseB (s : nat)           (* Release, second region: removed from m.channels under m.mtx *)
| SIncoming (ch msg : nat)      (* handleValidMessage, m.mtx region: one goroutine per subscription of the channel *)
| SRunJob (i : nat).            (* the i-th pending goroutine takes s.mtx and calls every current handler *)

Inductive sobs := Invoke (s h msg : nat).

Definition pair_b (a b : nat) (l : list (nat * nat)) : bool :=
  existsb (fun e => Nat.eqb (fst e) a && Nat.eqb (snd e) b) l.

Definition has_sub (s : nat) (l : list (nat * nat)) : bool := existsb (fun e => Nat.eqb (fst e) s) l.

Fixpoint remove_nth {A} (i : nat) (l : list A) : list A :=
  match l, i with
  | [], _ => []
  | _ :: l', O => l'
  | x :: l', S j => x :: remove_nth j l'
  end.

Definition sstep (st : sstate) (a : sact) : sstate * list sobs :=
  match a with
  | SSubscribe s ch =>
      if has_sub s (ss_chan st) then (st, [])
      else (SState (ss_chan st ++ [(s, ch)]) (ss_h st) (ss_jobs st), [])
  | SAddHandler s h =>
      if pair_b s h (ss_h st) then (st, [])
      else (SState (ss_chan st) (ss_h st ++ [(s, h)]) (ss_jobs st), [])
  | SRemoveHandler s h =>
      (SState (ss_chan st) (filter (fun e => negb (Nat.eqb (fst e) s && Nat.eqb (snd e) h)) (ss_h st)) (ss_jobs st), [])
  | SReleaseA s =>
      (SState (ss_chan st) (filter (fun e => negb (Nat.eqb (fst e) s)) (ss_h st)) (ss_jobs st), [])
  | SReleaseB s =>
      (SState (filter (fun e => negb (Nat.eqb (fst e) s)) (ss_chan st)) (ss_h st) (ss_jobs st), [])
  | SIncoming ch msg =>
      (SState (ss_chan st) (ss_h st)
              (ss_jobs st ++ map (fun e => (fst e, msg)) (filter (fun e => Nat.eqb (snd e) ch) (ss_chan st))), [])
  | SRunJob i =>
      match nth_error (ss_jobs st) i with
      | None => (st, [])
      | Some (s, msg) =>
          (SState (ss_chan st) (ss_h st) (remove_nth i (ss_jobs st)),
           map (fun e => Invoke s (snd e) msg) (filter (fun e => Nat.eqb (fst e) s) (ss_h st)))
      end
  end.

Fixpoint srun (st : sstate) (l : list sact) : sstate * list sobs :=
  match l with
  | [] => (st, [])
  | a :: l' =>
      let '(s1, o1) := sstep st a in
      let '(s2, o2) := srun s1 l' in
      (s2, o1 ++ o2)
  end.

(* ---------- 3. the Execute loop ---------- *)

(* Since /repo commit 4585b8b the loop body is ONE m.mtx region: the
   incSessions/initSet pass and the sweep see the same m.channels. *)
Inductive phase :=
| PIdle     (* waiting on wakeCh *)
| PArmed.   (* woken (or just started): waiting for the timer, next is the loop body *)

Record lstate := LState {
  l_ch : list (nat * nat);            (* m.channels: key with the number of subscriptions below it (0 = released, not swept) *)
  l_pubbed : list nat;                (* pubbedChannels *)
  l_inc : list nat;                   (* incSessions *)
  l_started : list nat;               (* peer streams with a context (executing) *)
  l_all : list nat;                   (* every stream id ever added *)
  l_wire : list (nat * nat * bool);   (* subscription entries written, newest first: (stream, channel, subscribe) *)
  l_wake : bool;                      (* token in wakeCh *)
  l_phase : phase
}.

Inductive lact :=
| LSubscribe (ch : nat)   (* AddSubscription *)
| LRelease (ch : nat)     (* Release of one subscription of ch (m.mtx region) *)
| LAddPeer (p : nat)      (* AddPeerStream *)
| LDropPeer (p : nat)     (* session goroutine exit: delete(m.peers) *)
| LReplace (p : nat)      (* AddPeerStream for the tuple of an executing stream: the old session is cancelled and leaves
                             m.peers, the new stream is pending; what the remote peer was told is keyed by the tuple
                             and survives, so l_wire keeps the entries of p *)
| LWake                   (* the loop takes the wake token *)
| LPass.                  (* the loop body: initSet to every incSession, sweep, writes of subChanges *)

Definition mem_nat (x : nat) (l : list nat) : bool := existsb (Nat.eqb x) l.

Fixpoint nsubs (ch : nat) (l : list (nat * nat)) : nat :=
  match l with
  | [] => 0%nat
  | (c, n) :: l' => if Nat.eqb c ch then n else nsubs ch l'
  end.

Definition has_key (ch : nat) (l : list (nat * nat)) : bool := existsb (fun e => Nat.eqb (fst e) ch) l.

Fixpoint set_key (ch n : nat) (l : list (nat * nat)) : list (nat * nat) :=
  match l with
  | [] => [(ch, n)]
  | (c, k) :: l' => if Nat.eqb c ch then (c, n) :: l' else (c, k) :: set_key ch n l'
  end.

(* last subscription state written to stream p for channel ch (false if none) *)
Fixpoint told (w : list (nat * nat * bool)) (p ch : nat) : bool :=
  match w with
  | [] => false
  | (p', c', b) :: w' => if Nat.eqb p' p && Nat.eqb c' ch then b else told w' p ch
  end.

(* entries written when [changes] are sent to every stream of [ps]; newest first *)
Definition bcast (ps : list nat) (changes : list (nat * bool)) : list (nat * nat * bool) :=
  flat_map (fun p => map (fun cb => (p, fst cb, snd cb)) changes) ps.

(* the sweep over m.channels: subChanges, new pubbedChannels *)
Fixpoint sweep (chs : list (nat * nat)) (pubbed : list nat) : list (nat * bool) * list nat :=
  match chs with
  | [] => ([], pubbed)
  | (ch, n) :: chs' =>
      if Nat.eqb n 0 then
        (if mem_nat ch pubbed then
           let '(c, p) := sweep chs' (filter (fun x => negb (Nat.eqb x ch)) pubbed) in ((ch, false) :: c, p)
         else sweep chs' pubbed)
      else
        (if mem_nat ch pubbed then sweep chs' pubbed
         else let '(c, p) := sweep chs' (ch :: pubbed) in ((ch, true) :: c, p))
  end.

(* first half of the loop body: every incSession is written the non-empty channels and starts executing *)
Definition pass_init (s : lstate) : lstate :=
  let init := map (fun e => (fst e, true)) (filter (fun e => negb (Nat.eqb (snd e) 0)) (l_ch s)) in
  LState (l_ch s) (l_pubbed s) [] (l_started s ++ l_inc s) (l_all s)
         (bcast (l_inc s) init ++ l_wire s) (l_wake s) (l_phase s).

(* second half, same lock region: sweep of m.channels, subChanges to every executing stream *)
Definition pass_sweep (s : lstate) : lstate :=
  let '(changes, pubbed') := sweep (l_ch s) (l_pubbed s) in
  LState (filter (fun e => negb (Nat.eqb (snd e) 0)) (l_ch s)) pubbed' (l_inc s) (l_started s) (l_all s)
         (bcast (l_started s) changes ++ l_wire s) (l_wake s) PIdle.

Definition lstep (s : lstate) (a : lact) : lstate :=
  match a with
  | LSubscribe ch =>
      if has_key ch (l_ch s) then
        LState (set_key ch (S (nsubs ch (l_ch s))) (l_ch s)) (l_pubbed s) (l_inc s) (l_started s) (l_all s)
               (l_wire s) (l_wake s) (l_phase s)
      else
        LState (set_key ch 1 (l_ch s)) (l_pubbed s) (l_inc s) (l_started s) (l_all s)
               (l_wire s) true (l_phase s)
  | LRelease ch =>
      match nsubs ch (l_ch s) with
      | O => LState (l_ch s) (l_pubbed s) (l_inc s) (l_started s) (l_all s) (l_wire s) true (l_phase s)
      | S k =>
          LState (set_key ch k (l_ch s)) (l_pubbed s) (l_inc s) (l_started s) (l_all s) (l_wire s)
                 (if Nat.eqb k 0 then true else l_wake s) (l_phase s)
      end
  | LAddPeer p =>
      if mem_nat p (l_all s) then s
      else LState (l_ch s) (l_pubbed s) (l_inc s ++ [p]) (l_started s) (p :: l_all s) (l_wire s) true (l_phase s)
  | LReplace p =>
      if mem_nat p (l_started s) then
        LState (l_ch s) (l_pubbed s) (l_inc s ++ [p]) (filter (fun x => negb (Nat.eqb x p)) (l_started s)) (l_all s)
               (l_wire s) true (l_phase s)
      else s
  | LDropPeer p =>
      LState (l_ch s) (l_pubbed s) (l_inc s) (filter (fun x => negb (Nat.eqb x p)) (l_started s)) (l_all s)
             (l_wire s) (l_wake s) (l_phase s)
  | LWake =>
      match l_phase s with
      | PIdle => if l_wake s
                 then LState (l_ch s) (l_pubbed s) (l_inc s) (l_started s) (l_all s) (l_wire s) false PArmed
                 else s
      | PArmed => s
      end
  | LPass =>
      match l_phase s with
      | PArmed => pass_sweep (pass_init s)
      | PIdle => s
      end
  end.

Definition lrun (s : lstate) (l : list lact) : lstate := fold_left lstep l s.

(* Execute has just been started: the loop body runs once without a wake *)
Definition linit : lstate := LState [] [] [] [] [] [] false PArmed.

Definition lquiescent (s : lstate) : Prop := l_phase s = PIdle /\ l_wake s = false.

(* one full turn of the loop, used by the canonical schedule of the correspondence *)
Definition lpass (s : lstate) : lstate := lstep (lstep s LWake) LPass.
