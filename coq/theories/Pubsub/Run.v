(* Correspondence for C27, C28, C29: run the models on what the implementation ran on. *)
From Bifrost Require Import Lib.Base Lib.Lex gen.Pubsub Pubsub.Model Pubsub.Net Pubsub.Sub.

(* ---------- C27 ---------- *)

Inductive c27_case :=
(* pubmessage.ExtractAndVerify on one message: 0 = accepted, otherwise the error class *)
| Verify27 (m : smsg) (obs : nat)
(* a real FloodSub with channel keys [subs] (channel, number of handlers), peers
   announced as in [pcs], receiving [msgs] from peer [prev]; observed: handler
   invocations aggregated per message (channel of the subscription, key of
   GetFrom, data, count) in the order of [msgs], and per observing peer the
   indices (first occurrence in [msgs]) of the packets forwarded to it, in order *)
| Node27 (subs : list (bytes * nat)) (pcs : list (nat * bytes)) (prev : nat) (msgs : list smsg)
         (delivered : list (bytes * nat * bytes * nat)) (forwarded : list (nat * list nat)).

Definition verify_class (m : smsg) : nat :=
  match extract_and_verify m with Ok _ => 0%nat | Err k => k | Panic => 99%nat end.

Fixpoint index_of (m : smsg) (l : list smsg) (i : nat) : nat :=
  match l with
  | [] => i
  | x :: l' => if smsg_eqb x m then i else index_of m l' (S i)
  end.

Definition deliveries (os : list obs) : list (bytes * nat * bytes * nat) :=
  flat_map (fun o => match o with
                     | Deliver ch k d n => if Nat.eqb n 0 then [] else [(ch, k, d, n)]
                     | _ => []
                     end) os.

Definition forwards_to (p : nat) (msgs : list smsg) (os : list obs) : list nat :=
  flat_map (fun o => match o with
                     | Forward q m => if Nat.eqb q p then [index_of m msgs 0] else []
                     | _ => []
                     end) os.

Definition deliv_eqb (a b : bytes * nat * bytes * nat) : bool :=
  match a, b with
  | (c, k, d, n), (c', k', d', n') => bytes_eqb c c' && Nat.eqb k k' && bytes_eqb d d' && Nat.eqb n n'
  end.

Definition c27_agree (c : c27_case) : bool :=
  match c with
  | Verify27 m o => Nat.eqb (verify_class m) o
  | Node27 subs pcs prev msgs delivered forwarded =>
      let os := snd (run (Node subs [] pcs) (map (RecvPublish prev) msgs)) in
      list_eqb deliv_eqb (deliveries os) delivered &&
      forallb (fun pf => list_eqb Nat.eqb (forwards_to (fst pf) msgs os) (snd pf)) forwarded
  end.

(* ---------- C28 ---------- *)

(* events of a mesh history, all issued while the mesh is quiescent *)
Inductive mev :=
| EPub (o ch : nat)       (* node o publishes on ch; the harness waits for quiescence *)
| EDown (u v l : nat)     (* link l between u and v is closed; both sessions end *)
| EUp (u v l : nat).      (* link l between u and v is (re-)established and the subscriptions are announced over it *)

(* a mesh of n nodes, links (u, v, link id) - several links may join the same
   two nodes -, (node, channel) subscriptions, a history; observed per publish:
   the number of handler invocations at every node 0..n-1 (one subscription
   with one handler per subscribed channel) and the packets carrying the
   message per directed link (u, v, link id, count) *)
Inductive c28_case :=
| Mesh28 (n : nat) (links : list (nat * nat * nat)) (subs : list (nat * nat)) (evs : list mev)
         (handed : list (list nat)) (wire : list (list (nat * nat * nat * nat))).

Definition link_pc (subs : list (nat * nat)) (u v l : nat) : list pce :=
  map (fun s => PC u v l (snd s)) (filter (fun s => Nat.eqb (fst s) v) subs) ++
  map (fun s => PC v u l (snd s)) (filter (fun s => Nat.eqb (fst s) u) subs).

Definition mesh_init (links : list (nat * nat * nat)) (subs : list (nat * nat)) : net :=
  Net [] [] []
      (flat_map (fun e => let '(u, v, l) := e in link_pc subs u v l) links)
      subs
      (flat_map (fun e => let '(u, v, l) := e in [LK u v l; LK v u l]) links)
      [].

Definition wire_count (w : list (nat * nat * nat * nat)) (u v l : nat) : nat :=
  fold_left (fun acc e => let '(a, b, c, k) := e in
                          if Nat.eqb a u && Nat.eqb b v && Nat.eqb c l then (acc + k)%nat else acc) w 0%nat.

Definition wire_count_peer (w : list (nat * nat * nat * nat)) (u v : nat) : nat :=
  fold_left (fun acc e => let '(a, b, c, k) := e in
                          if Nat.eqb a u && Nat.eqb b v then (acc + k)%nat else acc) w 0%nat.

(* schedule independent facts about the packets of one message m at quiescence:
   at most one copy per directed link, only from holders over sessions that
   are up to announced tuples whose peer is not the origin; the origin wrote to
   all of them; every other holder u left out exactly the tuples of one peer,
   its previous hop, which wrote to u - or none when its previous hop is the origin *)
Definition wire_ok (n : nat) (s : net) (m : msg) (w : list (nat * nat * nat * nat)) : bool :=
  forallb (fun e =>
    let '(u, v, l, k) := e in
    Nat.leb k 1 &&
    (Nat.eqb k 0 ||
     (seen_b u m (seen s) && pc_b u v l (m_ch m) (pc s) && up_b u v l (up s) && negb (Nat.eqb v (m_origin m))))) w &&
  forallb (fun u =>
    if seen_b u m (seen s) then
      let au := filter (fun e => Nat.eqb (c_u e) u && Nat.eqb (c_ch e) (m_ch m)
                                 && negb (Nat.eqb (c_v e) (m_origin m)) && up_b u (c_v e) (c_l e) (up s)) (pc s) in
      let missing := filter (fun e => Nat.eqb (wire_count w u (c_v e) (c_l e)) 0) au in
      if Nat.eqb u (m_origin m) then is_nil missing
      else match missing with
           | [] => Nat.leb 1 (wire_count_peer w (m_origin m) u)
           | x :: _ =>
               forallb (fun e => Nat.eqb (c_v e) (c_v x)) missing &&
               forallb (fun e => negb (Nat.eqb (c_v e) (c_v x)) || Nat.eqb (wire_count w u (c_v e) (c_l e)) 0) au &&
               Nat.leb 1 (wire_count_peer w (c_v x) u)
           end
    else true) (seq 0 n).

Fixpoint apply_acts (s : net) (l : list nact) : net :=
  match l with [] => s | a :: l' => apply_acts (fst (nstep s a)) l' end.

Fixpoint mesh_run (fuel : nat) (n : nat) (subs : list (nat * nat)) (s : net) (i : nat) (evs : list mev)
         (handed : list (list nat)) (wire : list (list (nat * nat * nat * nat))) : bool :=
  match evs with
  | [] => is_nil handed && is_nil wire
  | EDown u v l :: evs' =>
      mesh_run fuel n subs (apply_acts s [PeerGone u v l; PeerGone v u l]) i evs' handed wire
  | EUp u v l :: evs' =>
      let s1 := apply_acts s [LinkAdd u v l; LinkAdd v u l; LinkStart u v l; LinkStart v u l] in
      let s2 := apply_acts s1 (map (fun e => SetPC (c_u e) (c_v e) (c_l e) (c_ch e) true) (link_pc subs u v l)) in
      mesh_run fuel n subs s2 i evs' handed wire
  | EPub o ch :: evs' =>
      match handed, wire with
      | h :: handed', w :: wire' =>
          let m := Msg o ch i in
          let '(s1, o1) := nstep s (Publish m) in
          let '(s2, o2) := drain fuel s1 in
          let os := o1 ++ o2 in
          is_nil (flight s2) && is_nil (pubq s2) &&
          list_eqb Nat.eqb (map (fun k => count_obs (Handed k m) os) (seq 0 n)) h &&
          wire_ok n s2 m w &&
          mesh_run fuel n subs s2 (S i) evs' handed' wire'
      | _, _ => false
      end
  end.

Definition c28_agree (c : c28_case) : bool :=
  match c with
  | Mesh28 n links subs evs handed wire =>
      mesh_run 2000 n subs (mesh_init links subs) 0 evs handed wire
  end.

(* ---------- C29 ---------- *)

Inductive hop :=
| HSub (s ch : nat)        (* AddSubscription: handle s on channel ch *)
| HAddH (s h : nat)        (* AddHandler *)
| HRemH (s h : nat)        (* the remove function of handler h *)
| HRel (s ch : nat)        (* first Release of handle s (on channel ch) *)
| HRelAgain (s : nat)      (* a further Release of the same handle *)
| HPeer (p : nat)          (* AddPeerStream of a new stream *)
| HReplace (p : nat)       (* AddPeerStream again for the tuple of stream p: the stream is replaced, the remote peer's view stays *)
| HMsg (ch msg : nat)      (* an authentic message on ch arrives; the harness waits for the callbacks *)
| HQuiesce.                (* the harness waits until the Execute loop is idle *)

Inductive c29_case :=
(* String() texts of two peer ids; observed: whether trackLink opened the stream with (local=a, remote=b) and with (local=b, remote=a) *)
| Opener29 (a b : bytes) (a_opens b_opens : bool)
(* a sequence of links (String() of the local peer, String() of the remote peer) tracked one after the
   other by ONE controller instance (a node may host several local identities); observed: whether
   trackLink opened the stream, per link *)
| OpenerSeq29 (links : list (bytes * bytes)) (opened : list bool)
(* a history; observed at each HQuiesce: the (stream, channel) pairs whose last
   written subscription entry is Subscribe=true, and all handler invocations
   (subscription, handler, message) so far *)
| Hist29 (ops : list hop) (chans : list nat) (obs : list (list (nat * nat) * list (nat * nat * nat))).

Fixpoint run_jobs (fuel : nat) (st : sstate) (acc : list sobs) : sstate * list sobs :=
  match fuel with
  | O => (st, acc)
  | S f => match ss_jobs st with
           | [] => (st, acc)
           | _ => let '(s1, o1) := sstep st (SRunJob 0) in run_jobs f s1 (acc ++ o1)
           end
  end.

(* the loop runs until idle without a pending wake *)
Definition settle (s : lstate) : lstate :=
  let s1 := match l_phase s with
            | PArmed => lstep s LPass
            | PIdle => s
            end in
  lpass (lpass (lpass s1)).

Definition pairs_eqb (a b : nat * nat) : bool := Nat.eqb (fst a) (fst b) && Nat.eqb (snd a) (snd b).
Definition inv_eqb (a b : nat * nat * nat) : bool :=
  Nat.eqb (fst (fst a)) (fst (fst b)) && Nat.eqb (snd (fst a)) (snd (fst b)) && Nat.eqb (snd a) (snd b).

Definition same_multiset {A} (eqb : A -> A -> bool) (a b : list A) : bool :=
  forallb (fun x => Nat.eqb (count_occ_b eqb x a) (count_occ_b eqb x b)) (a ++ b).

Definition told_pairs (s : lstate) (chans : list nat) : list (nat * nat) :=
  flat_map (fun p => flat_map (fun ch => if told (l_wire s) p ch then [(p, ch)] else []) chans) (l_started s).

Fixpoint hist_run (ops : list hop) (chans : list nat) (ss : sstate) (ls : lstate) (inv : list (nat * nat * nat))
         (obs : list (list (nat * nat) * list (nat * nat * nat))) : bool :=
  match ops with
  | [] => is_nil obs
  | op :: ops' =>
      match op with
      | HSub s ch => hist_run ops' chans (fst (sstep ss (SSubscribe s ch))) (lstep ls (LSubscribe ch)) inv obs
      | HAddH s h => hist_run ops' chans (fst (sstep ss (SAddHandler s h))) ls inv obs
      | HRemH s h => hist_run ops' chans (fst (sstep ss (SRemoveHandler s h))) ls inv obs
      | HRel s ch =>
          hist_run ops' chans (fst (sstep (fst (sstep ss (SReleaseA s))) (SReleaseB s))) (lstep ls (LRelease ch)) inv obs
      | HRelAgain s => hist_run ops' chans (fst (sstep ss (SReleaseA s))) ls inv obs
      | HPeer p => hist_run ops' chans ss (lstep ls (LAddPeer p)) inv obs
      | HReplace p => hist_run ops' chans ss (lstep ls (LReplace p)) inv obs
      | HMsg ch msg =>
          let '(s1, _) := sstep ss (SIncoming ch msg) in
          let '(s2, os) := run_jobs 64 s1 [] in
          hist_run ops' chans s2 ls (inv ++ map (fun o => match o with Invoke s h m => (s, h, m) end) os) obs
      | HQuiesce =>
          let ls' := settle ls in
          match obs with
          | (t, i) :: obs' =>
              match l_phase ls', l_wake ls' with
              | PIdle, false =>
                  same_multiset pairs_eqb (told_pairs ls' chans) t && same_multiset inv_eqb inv i &&
                  hist_run ops' chans ss ls' inv obs'
              | _, _ => false
              end
          | [] => false
          end
      end
  end.

Definition c29_agree (c : c29_case) : bool :=
  match c with
  | Opener29 a b oa ob => Bool.eqb (opens_str a b) oa && Bool.eqb (opens_str b a) ob
  | OpenerSeq29 links opened => list_eqb Bool.eqb (map (fun lr => opens_str (fst lr) (snd lr)) links) opened
  | Hist29 ops chans obs => hist_run ops chans (SState [] [] []) (settle linit) [] obs
  end.
