(* C28: a network of floodsub nodes as one labelled transition system.

   Per node: seenMessages, the keys of m.channels, peerChannels, the peers map
   and the publishCh queue.  As in the code a peer session is identified by a
   pubsub.PeerLinkTuple (peer, link id): two nodes may be joined by several
   parallel links, each with its own FIFO queue per direction (one global list
   from which the first packet of a given (src, dst, link) triple is taken),
   its own peers entry on either side and its own peerChannels entries.  Messages are
   identified by (origin, channel, sequence number): the message id is a free
   function of the signed message, so different publishes have different ids
   (named assumption: two publishes never produce the same signed bytes).
   Messages in this model are authentic (C27 covers the rest).

   One action per lock region of the Go code:
     Publish m   FloodSub.Publish -> handleValidMessage at the origin
                 (seenMessages.Add, callbacks spawned under m.mtx, publishCh push)
     Recv u v l  readPump of v reads the next packet of link l from u;
                 handlePublish (subscribed check) -> handleValidMessage; if the
                 session of v on that link has ended the packet is lost
     Exec n      Execute loop of n takes one publishCh entry: execPublish
                 (writes to every announced tuple whose peer is neither the origin
                 nor the previous hop and which is in the peers map)
     LinkAdd u v l   AddPeerStream: u has a peers entry for tuple (v, l) whose
                 stream has no context yet (a running session of the same tuple
                 is cancelled and replaced)
     LinkStart u v l the loop body gives the stream its context: the session
                 is executing (readPump and writer run)
     PeerGone u v l  the session of u for tuple (v, l) ended: delete(m.peers);
                 the peerChannels entries of the tuple are NOT removed (as in
                 the code) - they are ignored while the tuple is not in peers
     SetPC/SetChan  handleSubscriptions / AddSubscription+sweep (used only to
                 show the safety theorems do not depend on a stable topology)
   No proofs in this file. *)
From Bifrost Require Import Lib.Base.

Record msg := Msg { m_origin : nat; m_ch : nat; m_seq : nat }.
Record pkt := Pkt { p_src : nat; p_dst : nat; p_lid : nat; p_msg : msg }.
Record lk := LK { k_u : nat; k_v : nat; k_l : nat }.              (* u has a peers entry for tuple (v, l) *)
Record pce := PC { c_u : nat; c_v : nat; c_l : nat; c_ch : nat }.  (* peerChannels[ch] of u contains tuple (v, l) *)
Record pend := Pend { q_node : nat; q_prev : nat; q_msg : msg }.

Definition msg_eqb (a b : msg) : bool :=
  Nat.eqb (m_origin a) (m_origin b) && Nat.eqb (m_ch a) (m_ch b) && Nat.eqb (m_seq a) (m_seq b).

Record net := Net {
  seen : list (nat * msg);          (* (node, message) pairs in the seen caches *)
  flight : list pkt;                (* packets written and not yet read *)
  pubq : list pend;                 (* publishCh entries not yet executed *)
  pc : list pce;                    (* peerChannels *)
  chans : list (nat * nat);         (* (n, ch): m.channels of n has key ch *)
  up : list lk;                     (* peers entries whose stream is executing (ctx != nil) *)
  waiting : list lk                    (* peers entries added by AddPeerStream and not started yet (ctx == nil) *)
}.

Inductive nact :=
| Publish (m : msg)
| Recv (u v l : nat)
| Exec (n : nat)
| SetPC (u v l ch : nat) (b : bool)
| SetChan (n ch : nat) (b : bool)
| LinkAdd (u v l : nat)
| LinkStart (u v l : nat)
| PeerGone (u v l : nat).

Inductive nobs :=
| Handed (n : nat) (m : msg)          (* every subscription of n on the channel gets one callback job for m *)
| Accepted (n from : nat) (m : msg)   (* n inserted m into its seen cache, having it from [from] (itself when publishing) *)
| Sent (u v l : nat) (m : msg).       (* u wrote m on its stream of link l to v *)

Definition seen_b (n : nat) (m : msg) (l : list (nat * msg)) : bool :=
  existsb (fun e => Nat.eqb (fst e) n && msg_eqb (snd e) m) l.

Definition chan_b (n ch : nat) (l : list (nat * nat)) : bool :=
  existsb (fun e => Nat.eqb (fst e) n && Nat.eqb (snd e) ch) l.

Definition pce_is (u v l ch : nat) (e : pce) : bool :=
  Nat.eqb (c_u e) u && Nat.eqb (c_v e) v && Nat.eqb (c_l e) l && Nat.eqb (c_ch e) ch.
Definition pc_b (u v l ch : nat) (pcl : list pce) : bool := existsb (pce_is u v l ch) pcl.

Definition lk_is (u v l : nat) (e : lk) : bool := Nat.eqb (k_u e) u && Nat.eqb (k_v e) v && Nat.eqb (k_l e) l.
Definition up_b (u v l : nat) (ups : list lk) : bool := existsb (lk_is u v l) ups.

(* first packet of link lid from u to v *)
Fixpoint take_pkt (u v lid : nat) (l : list pkt) : option (pkt * list pkt) :=
  match l with
  | [] => None
  | p :: l' =>
      if Nat.eqb (p_src p) u && Nat.eqb (p_dst p) v && Nat.eqb (p_lid p) lid then Some (p, l')
      else match take_pkt u v lid l' with
           | Some (q, r) => Some (q, p :: r)
           | None => None
           end
  end.

(* first publishCh entry of node n *)
Fixpoint take_pend (n : nat) (l : list pend) : option (pend * list pend) :=
  match l with
  | [] => None
  | q :: l' =>
      if Nat.eqb (q_node q) n then Some (q, l')
      else match take_pend n l' with
           | Some (x, r) => Some (x, q :: r)
           | None => None
           end
  end.

(* execPublish: tuples announced for the channel whose peer is neither the
   origin nor the previous hop, which are in the peers map and whose stream has
   been started (the "ok && peer.ctx != nil" guard: an entry that is only
   pending is skipped) *)
Definition targets (pcl : list pce) (ups : list lk) (n prev : nat) (m : msg) : list (nat * nat) :=
  map (fun e => (c_v e, c_l e))
      (filter (fun e => Nat.eqb (c_u e) n && Nat.eqb (c_ch e) (m_ch m)
                        && negb (Nat.eqb (c_v e) (m_origin m))
                        && negb (Nat.eqb (c_v e) prev)
                        && up_b n (c_v e) (c_l e) ups) pcl).

(* handleValidMessage at node n for message m coming from [from] *)
Definition handle_valid (s : net) (n from : nat) (m : msg) : net * list nobs :=
  if seen_b n m (seen s) then (s, [])
  else
    (Net ((n, m) :: seen s) (flight s) (pubq s ++ [Pend n from m]) (pc s) (chans s) (up s) (waiting s),
     Accepted n from m :: (if chan_b n (m_ch m) (chans s) then [Handed n m] else [])).

Definition nstep (s : net) (a : nact) : net * list nobs :=
  match a with
  | Publish m => handle_valid s (m_origin m) (m_origin m) m
  | Recv u v l =>
      if up_b v u l (waiting s) && negb (up_b v u l (up s)) then (s, [])  (* the reader has not been started: the packet waits *)
      else
      match take_pkt u v l (flight s) with
      | None => (s, [])
      | Some (p, rest) =>
          let s1 := Net (seen s) rest (pubq s) (pc s) (chans s) (up s) (waiting s) in
          if up_b v u l (up s) && chan_b v (m_ch (p_msg p)) (chans s) then handle_valid s1 v u (p_msg p)
          else (s1, [])
      end
  | Exec n =>
      match take_pend n (pubq s) with
      | None => (s, [])
      | Some (q, rest) =>
          let ts := targets (pc s) (up s) n (q_prev q) (q_msg q) in
          (Net (seen s) (flight s ++ map (fun t => Pkt n (fst t) (snd t) (q_msg q)) ts) rest (pc s) (chans s) (up s) (waiting s),
           map (fun t => Sent n (fst t) (snd t) (q_msg q)) ts)
      end
  | SetPC u v l ch b =>
      if b then
        (if pc_b u v l ch (pc s) then (s, [])
         else (Net (seen s) (flight s) (pubq s) (pc s ++ [PC u v l ch]) (chans s) (up s) (waiting s), []))
      else
        (Net (seen s) (flight s) (pubq s) (filter (fun e => negb (pce_is u v l ch e)) (pc s)) (chans s) (up s) (waiting s), [])
  | SetChan n ch b =>
      if b then
        (if chan_b n ch (chans s) then (s, [])
         else (Net (seen s) (flight s) (pubq s) (pc s) (chans s ++ [(n, ch)]) (up s) (waiting s), []))
      else
        (Net (seen s) (flight s) (pubq s) (pc s)
             (filter (fun e => negb (Nat.eqb (fst e) n && Nat.eqb (snd e) ch)) (chans s)) (up s) (waiting s), [])
  | LinkAdd u v l =>
      if up_b u v l (waiting s) then (s, [])
      else (Net (seen s) (flight s) (pubq s) (pc s) (chans s)
                (filter (fun e => negb (lk_is u v l e)) (up s)) (waiting s ++ [LK u v l]), [])
  | LinkStart u v l =>
      if up_b u v l (waiting s) then
        (Net (seen s) (flight s) (pubq s) (pc s) (chans s) (up s ++ [LK u v l])
             (filter (fun e => negb (lk_is u v l e)) (waiting s)), [])
      else (s, [])
  | PeerGone u v l =>
      (Net (seen s) (flight s) (pubq s) (pc s) (chans s) (filter (fun e => negb (lk_is u v l e)) (up s)) (waiting s), [])
  end.

Fixpoint nrun (s : net) (l : list nact) : net * list nobs :=
  match l with
  | [] => (s, [])
  | a :: l' =>
      let '(s1, o1) := nstep s a in
      let '(s2, o2) := nrun s1 l' in
      (s2, o1 ++ o2)
  end.

(* only message traffic: the topology and the subscriptions stay as they are *)
Definition traffic (a : nact) : bool :=
  match a with Publish _ | Recv _ _ _ | Exec _ => true | _ => false end.

Definition quiescent (s : net) : Prop := flight s = [] /\ pubq s = [].

(* u has a session to v that is up on both sides *)
Definition linked (s : net) (u v : nat) : Prop := exists l, In (LK u v l) (up s).

(* v is connected to x by a path of links that are up, on which every node after x has the channel key *)
Inductive reach (s : net) (ch : nat) (x : nat) : nat -> Prop :=
| reach_refl : reach s ch x x
| reach_step u v : reach s ch x u -> linked s u v -> chan_b v ch (chans s) = true -> reach s ch x v.

(* stabilised: sessions are up on both sides or on neither; over the sessions
   that are up, peerChannels mirror the neighbours' channel keys (entries of
   tuples that are not in the peers map may be anything) *)
Definition announced (s : net) : Prop :=
  (forall u v l, In (LK u v l) (up s) -> In (LK v u l) (up s)) /\
  (forall u v l ch, In (PC u v l ch) (pc s) -> In (LK u v l) (up s) -> chan_b v ch (chans s) = true) /\
  (forall u v l ch, In (LK u v l) (up s) -> chan_b v ch (chans s) = true -> In (PC u v l ch) (pc s)).

(* nothing in flight, nothing pending; the message has not been published yet *)
Definition stable (s : net) : Prop := flight s = [] /\ pubq s = [].
Definition unseen (m : msg) (s : net) : Prop := forall n, ~ In (n, m) (seen s).

Definition nobs_eqb (a b : nobs) : bool :=
  match a, b with
  | Handed n m, Handed n' m' => Nat.eqb n n' && msg_eqb m m'
  | Accepted n f m, Accepted n' f' m' => Nat.eqb n n' && Nat.eqb f f' && msg_eqb m m'
  | Sent u v l m, Sent u' v' l' m' => Nat.eqb u u' && Nat.eqb v v' && Nat.eqb l l' && msg_eqb m m'
  | _, _ => false
  end.

Definition count_obs (o : nobs) (l : list nobs) : nat := count_occ_b nobs_eqb o l.

(* ---------- canonical schedule, used by the correspondence check ---------- *)

Definition next_act (s : net) : option nact :=
  match pubq s with
  | q :: _ => Some (Exec (q_node q))
  | [] => match flight s with
          | p :: _ => Some (Recv (p_src p) (p_dst p) (p_lid p))
          | [] => None
          end
  end.

Fixpoint drain (fuel : nat) (s : net) : net * list nobs :=
  match fuel with
  | O => (s, [])
  | S f =>
      match next_act s with
      | None => (s, [])
      | Some a =>
          let '(s1, o1) := nstep s a in
          let '(s2, o2) := drain f s1 in
          (s2, o1 ++ o2)
      end
  end.
