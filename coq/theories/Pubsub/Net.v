(* C28: a network of floodsub nodes as one labelled transition system.

   Per node: seenMessages, the keys of m.channels, peerChannels and the
   publishCh queue; per directed link a FIFO queue (one global list from which
   the first packet of a given (src, dst) pair is taken).  Messages are
   identified by (origin, channel, sequence number): the message id is a free
   function of the signed message, so different publishes have different ids
   (named assumption: two publishes never produce the same signed bytes).
   Messages in this model are authentic (C27 covers the rest).

   One action per lock region of the Go code:
     Publish m   FloodSub.Publish -> handleValidMessage at the origin
                 (seenMessages.Add, callbacks spawned under m.mtx, publishCh push)
     Recv u v    readPump of v reads the next packet of link u->v;
                 handlePublish (subscribed check) -> handleValidMessage
     Exec n      Execute loop of n takes one publishCh entry: execPublish
                 (writes to every announced peer except origin and previous hop)
     SetPC/SetChan  handleSubscriptions / AddSubscription+sweep (used only to
                 show the safety theorems do not depend on a stable topology)
   No proofs in this file. *)
From Bifrost Require Import Lib.Base.

Record msg := Msg { m_origin : nat; m_ch : nat; m_seq : nat }.
Record pkt := Pkt { p_src : nat; p_dst : nat; p_msg : msg }.
Record pend := Pend { q_node : nat; q_prev : nat; q_msg : msg }.

Definition msg_eqb (a b : msg) : bool :=
  Nat.eqb (m_origin a) (m_origin b) && Nat.eqb (m_ch a) (m_ch b) && Nat.eqb (m_seq a) (m_seq b).

Record net := Net {
  seen : list (nat * msg);          (* (node, message) pairs in the seen caches *)
  flight : list pkt;                (* packets written and not yet read *)
  pubq : list pend;                 (* publishCh entries not yet executed *)
  pc : list (nat * nat * nat);      (* (u, v, ch): peerChannels[ch] of u contains v *)
  chans : list (nat * nat)          (* (n, ch): m.channels of n has key ch *)
}.

Inductive nact :=
| Publish (m : msg)
| Recv (u v : nat)
| Exec (n : nat)
| SetPC (u v ch : nat) (b : bool)
| SetChan (n ch : nat) (b : bool).

Inductive nobs :=
| Handed (n : nat) (m : msg)          (* every subscription of n on the channel gets one callback job for m *)
| Accepted (n from : nat) (m : msg)   (* n inserted m into its seen cache, having it from [from] (itself when publishing) *)
| Sent (u v : nat) (m : msg).         (* u wrote m on its stream to v *)

Definition seen_b (n : nat) (m : msg) (l : list (nat * msg)) : bool :=
  existsb (fun e => Nat.eqb (fst e) n && msg_eqb (snd e) m) l.

Definition chan_b (n ch : nat) (l : list (nat * nat)) : bool :=
  existsb (fun e => Nat.eqb (fst e) n && Nat.eqb (snd e) ch) l.

Definition pc_b (u v ch : nat) (l : list (nat * nat * nat)) : bool :=
  existsb (fun e => Nat.eqb (fst (fst e)) u && Nat.eqb (snd (fst e)) v && Nat.eqb (snd e) ch) l.

(* first packet of link u->v *)
Fixpoint take_pkt (u v : nat) (l : list pkt) : option (pkt * list pkt) :=
  match l with
  | [] => None
  | p :: l' =>
      if Nat.eqb (p_src p) u && Nat.eqb (p_dst p) v then Some (p, l')
      else match take_pkt u v l' with
           | Some (q, r) => Some (q, p :: r)
           | None => None
           end
  end.

(* first publishCh entry of node n *)
Fixpoint take_pend (n : nat) (l : list pend) : option (pend * list pend) :=
  match l with
  | [] => None
  | q :: l' =>
      if Nat.eqb (q_node q) n then Some (q, l')
      else match take_pend n l' with
           | Some (x, r) => Some (x, q :: r)
           | None => None
           end
  end.

(* execPublish: peers announced for the channel, except the origin and the previous hop *)
Definition targets (pcl : list (nat * nat * nat)) (n prev : nat) (m : msg) : list nat :=
  map (fun e => snd (fst e))
      (filter (fun e => Nat.eqb (fst (fst e)) n && Nat.eqb (snd e) (m_ch m)
                        && negb (Nat.eqb (snd (fst e)) (m_origin m))
                        && negb (Nat.eqb (snd (fst e)) prev)) pcl).

(* handleValidMessage at node n for message m coming from [from] *)
Definition handle_valid (s : net) (n from : nat) (m : msg) : net * list nobs :=
  if seen_b n m (seen s) then (s, [])
  else
    (Net ((n, m) :: seen s) (flight s) (pubq s ++ [Pend n from m]) (pc s) (chans s),
     Accepted n from m :: (if chan_b n (m_ch m) (chans s) then [Handed n m] else [])).

Definition nstep (s : net) (a : nact) : net * list nobs :=
  match a with
  | Publish m => handle_valid s (m_origin m) (m_origin m) m
  | Recv u v =>
      match take_pkt u v (flight s) with
      | None => (s, [])
      | Some (p, rest) =>
          let s1 := Net (seen s) rest (pubq s) (pc s) (chans s) in
          if chan_b v (m_ch (p_msg p)) (chans s) then handle_valid s1 v u (p_msg p)
          else (s1, [])
      end
  | Exec n =>
      match take_pend n (pubq s) with
      | None => (s, [])
      | Some (q, rest) =>
          let ts := targets (pc s) n (q_prev q) (q_msg q) in
          (Net (seen s) (flight s ++ map (fun v => Pkt n v (q_msg q)) ts) rest (pc s) (chans s),
           map (fun v => Sent n v (q_msg q)) ts)
      end
  | SetPC u v ch b =>
      if b then
        (if pc_b u v ch (pc s) then (s, [])
         else (Net (seen s) (flight s) (pubq s) (pc s ++ [(u, v, ch)]) (chans s), []))
      else
        (Net (seen s) (flight s) (pubq s)
             (filter (fun e => negb (Nat.eqb (fst (fst e)) u && Nat.eqb (snd (fst e)) v && Nat.eqb (snd e) ch)) (pc s))
             (chans s), [])
  | SetChan n ch b =>
      if b then
        (if chan_b n ch (chans s) then (s, [])
         else (Net (seen s) (flight s) (pubq s) (pc s) (chans s ++ [(n, ch)]), []))
      else
        (Net (seen s) (flight s) (pubq s) (pc s)
             (filter (fun e => negb (Nat.eqb (fst e) n && Nat.eqb (snd e) ch)) (chans s)), [])
  end.

Fixpoint nrun (s : net) (l : list nact) : net * list nobs :=
  match l with
  | [] => (s, [])
  | a :: l' =>
      let '(s1, o1) := nstep s a in
      let '(s2, o2) := nrun s1 l' in
      (s2, o1 ++ o2)
  end.

(* only message traffic: the topology and the subscriptions stay as they are *)
Definition traffic (a : nact) : bool :=
  match a with Publish _ | Recv _ _ | Exec _ => true | _ => false end.

Definition quiescent (s : net) : Prop := flight s = [] /\ pubq s = [].

(* v is connected to x by a path of links on which every node after x has the channel key *)
Inductive reach (link : nat -> nat -> bool) (s : net) (ch : nat) (x : nat) : nat -> Prop :=
| reach_refl : reach link s ch x x
| reach_step u v : reach link s ch x u -> link u v = true -> chan_b v ch (chans s) = true -> reach link s ch x v.

(* subscriptions announced over the links: peerChannels mirror the neighbours' channel keys *)
Definition announced (link : nat -> nat -> bool) (s : net) : Prop :=
  (forall u v ch, In (u, v, ch) (pc s) -> chan_b v ch (chans s) = true) /\
  (forall u v ch, link u v = true -> chan_b v ch (chans s) = true -> In (u, v, ch) (pc s)).

Definition fresh (s : net) : Prop := seen s = [] /\ flight s = [] /\ pubq s = [].

Definition nobs_eqb (a b : nobs) : bool :=
  match a, b with
  | Handed n m, Handed n' m' => Nat.eqb n n' && msg_eqb m m'
  | Accepted n f m, Accepted n' f' m' => Nat.eqb n n' && Nat.eqb f f' && msg_eqb m m'
  | Sent u v m, Sent u' v' m' => Nat.eqb u u' && Nat.eqb v v' && msg_eqb m m'
  | _, _ => false
  end.

Definition count_obs (o : nobs) (l : list nobs) : nat := count_occ_b nobs_eqb o l.

(* ---------- canonical schedule, used by the correspondence check ---------- *)

Definition next_act (s : net) : option nact :=
  match pubq s with
  | q :: _ => Some (Exec (q_node q))
  | [] => match flight s with
          | p :: _ => Some (Recv (p_src p) (p_dst p))
          | [] => None
          end
  end.

Fixpoint drain (fuel : nat) (s : net) : net * list nobs :=
  match fuel with
  | O => (s, [])
  | S f =>
      match next_act s with
      | None => (s, [])
      | Some a =>
          let '(s1, o1) := nstep s a in
          let '(s2, o2) := drain f s1 in
          (s2, o1 ++ o2)
      end
  end.
