(* C28: proofs about the floodsub network model Pubsub/Net.v *)
From Bifrost Require Import Lib.Base Pubsub.Net.

(* ---------- boolean tests ---------- *)

Lemma msg_eqb_spec a b : msg_eqb a b = true <-> a = b.
Proof.
  destruct a as [a1 a2 a3], b as [b1 b2 b3]; unfold msg_eqb; cbn [m_origin m_ch m_seq].
  rewrite !andb_true_iff, !Nat.eqb_eq. split; [intros [[? ?] ?]|intros E; inversion E]; subst; auto.
Qed.

Lemma msg_eqb_refl a : msg_eqb a a = true.
Proof. apply msg_eqb_spec; reflexivity. Qed.

Lemma seen_b_spec n m l : seen_b n m l = true <-> In (n, m) l.
Proof.
  unfold seen_b. rewrite existsb_exists. split.
  - intros [[n' m'] [Hx E]]. cbn [fst snd] in E. apply andb_true_iff in E as [E1 E2].
    apply Nat.eqb_eq in E1. apply msg_eqb_spec in E2. subst. exact Hx.
  - intros H. exists (n, m). split; [exact H|]. cbn [fst snd]. rewrite Nat.eqb_refl, msg_eqb_refl. reflexivity.
Qed.

Lemma seen_b_false n m l : seen_b n m l = false <-> ~ In (n, m) l.
Proof. rewrite <- seen_b_spec. destruct (seen_b n m l); split; congruence. Qed.

Lemma chan_b_spec n ch l : chan_b n ch l = true <-> In (n, ch) l.
Proof.
  unfold chan_b. rewrite existsb_exists. split.
  - intros [[n' c'] [Hx E]]. cbn [fst snd] in E. apply andb_true_iff in E as [E1 E2].
    apply Nat.eqb_eq in E1. apply Nat.eqb_eq in E2. subst. exact Hx.
  - intros H. exists (n, ch). split; [exact H|]. cbn [fst snd]. rewrite !Nat.eqb_refl. reflexivity.
Qed.

Lemma nobs_eqb_spec a b : nobs_eqb a b = true <-> a = b.
Proof.
  destruct a, b; cbn [nobs_eqb]; try (split; discriminate);
    rewrite ?andb_true_iff, ?Nat.eqb_eq, msg_eqb_spec.
  - split; [intros [? ?]|intros E; inversion E]; subst; auto.
  - split; [intros [[? ?] ?]|intros E; inversion E]; subst; auto.
  - split; [intros [[[? ?] ?] ?]|intros E; inversion E]; subst; auto.
Qed.

Lemma up_b_spec u v l ups : up_b u v l ups = true <-> In (LK u v l) ups.
Proof.
  unfold up_b, lk_is. rewrite existsb_exists. split.
  - intros [[a b c] [Hx E]]. cbn [k_u k_v k_l] in E. rewrite !andb_true_iff, !Nat.eqb_eq in E.
    destruct E as [[-> ->] ->]. exact Hx.
  - intros H. exists (LK u v l). split; [exact H|]. cbn [k_u k_v k_l]. rewrite !Nat.eqb_refl. reflexivity.
Qed.

Lemma count_app o a b : count_obs o (a ++ b) = (count_obs o a + count_obs o b)%nat.
Proof. unfold count_obs. induction a as [|x a IH]; cbn [count_occ_b app]; [reflexivity|]. rewrite IH. lia. Qed.

Lemma count_pos_in o l : (0 < count_obs o l)%nat <-> In o l.
Proof.
  unfold count_obs. induction l as [|x l IH]; cbn [count_occ_b In]; [split; [lia|tauto]|].
  destruct (nobs_eqb o x) eqn:E.
  - apply nobs_eqb_spec in E. subst. split; [auto|lia].
  - split.
    + intros H. right. apply IH. lia.
    + intros [H|H]; [subst; rewrite (proj2 (nobs_eqb_spec o o) eq_refl) in E; discriminate|].
      apply IH in H. lia.
Qed.

Lemma count_zero_notin o l : count_obs o l = 0%nat <-> ~ In o l.
Proof. rewrite <- count_pos_in. lia. Qed.

(* ---------- queue extraction ---------- *)

Lemma take_pkt_spec u v lid l p r :
  take_pkt u v lid l = Some (p, r) ->
  p_src p = u /\ p_dst p = v /\ p_lid p = lid /\ (forall x, In x l <-> x = p \/ In x r).
Proof.
  revert p r; induction l as [|y l IH]; intros p r; cbn [take_pkt]; [discriminate|].
  destruct (Nat.eqb (p_src y) u && Nat.eqb (p_dst y) v && Nat.eqb (p_lid y) lid) eqn:E.
  - intros H; inversion H; subst. apply andb_true_iff in E as [E E3]. apply andb_true_iff in E as [E1 E2].
    apply Nat.eqb_eq in E1, E2, E3. repeat split; auto; cbn [In]; intuition congruence.
  - destruct (take_pkt u v lid l) as [[q r']|] eqn:T; [|discriminate].
    intros H; inversion H; subst. destruct (IH _ _ eq_refl) as [H1 [H2 [H2' H3]]].
    repeat split; auto; cbn [In]; intros Hx.
    + destruct Hx as [->|Hx]; [right; left; reflexivity|]. apply H3 in Hx as [->|Hx]; auto.
    + destruct Hx as [->|[->|Hx]]; [right; apply H3; auto|auto|right; apply H3; auto].
Qed.

Lemma take_pend_spec n l q r :
  take_pend n l = Some (q, r) ->
  q_node q = n /\ (forall x, In x l <-> x = q \/ In x r).
Proof.
  revert q r; induction l as [|y l IH]; intros q r; cbn [take_pend]; [discriminate|].
  destruct (Nat.eqb (q_node y) n) eqn:E.
  - intros H; inversion H; subst. apply Nat.eqb_eq in E. split; auto; cbn [In]; intuition congruence.
  - destruct (take_pend n l) as [[x r']|] eqn:T; [|discriminate].
    intros H; inversion H; subst. destruct (IH _ _ eq_refl) as [H1 H3].
    split; auto; cbn [In]; intros z; split; intros Hx.
    + destruct Hx as [->|Hx]; [right; left; reflexivity|]. apply H3 in Hx as [->|Hx]; auto.
    + destruct Hx as [->|[->|Hx]]; [right; apply H3; auto|auto|right; apply H3; auto].
Qed.

Lemma targets_spec pcl ups n prev m v l :
  In (v, l) (targets pcl ups n prev m) <->
  In (PC n v l (m_ch m)) pcl /\ v <> m_origin m /\ v <> prev /\ In (LK n v l) ups.
Proof.
  unfold targets. rewrite in_map_iff. split.
  - intros [[a b c d] [E H]]. cbn [c_v c_l] in E. inversion E; subst. apply filter_In in H as [H1 H2].
    cbn [c_u c_v c_l c_ch] in H2. rewrite !andb_true_iff, !negb_true_iff, !Nat.eqb_eq, !Nat.eqb_neq, up_b_spec in H2.
    destruct H2 as [[[[-> ->] H3] H4] H5]. auto.
  - intros [H1 [H2 [H3 H4]]]. exists (PC n v l (m_ch m)). split; [reflexivity|]. apply filter_In. split; [exact H1|].
    cbn [c_u c_v c_l c_ch]. rewrite !andb_true_iff, !negb_true_iff, !Nat.eqb_eq, !Nat.eqb_neq, up_b_spec. auto.
Qed.

(* ---------- handleValidMessage ---------- *)

Lemma handle_valid_cases s n from m :
  (In (n, m) (seen s) /\ handle_valid s n from m = (s, [])) \/
  (~ In (n, m) (seen s) /\
   handle_valid s n from m =
     (Net ((n, m) :: seen s) (flight s) (pubq s ++ [Pend n from m]) (pc s) (chans s) (up s) (waiting s),
      Accepted n from m :: (if chan_b n (m_ch m) (chans s) then [Handed n m] else []))).
Proof.
  unfold handle_valid. destruct (seen_b n m (seen s)) eqn:E.
  - left. split; [apply seen_b_spec, E|reflexivity].
  - right. split; [apply seen_b_false, E|reflexivity].
Qed.

Lemma nrun_app s l1 l2 :
  nrun s (l1 ++ l2) = let '(s1, o1) := nrun s l1 in let '(s2, o2) := nrun s1 l2 in (s2, o1 ++ o2).
Proof.
  revert s; induction l1 as [|a l1 IH]; intros s; cbn [nrun app].
  - destruct (nrun s l2). reflexivity.
  - destruct (nstep s a) as [s1 o1]. rewrite IH.
    destruct (nrun s1 l1) as [s2 o2]. destruct (nrun s2 l2) as [s3 o3]. rewrite app_assoc. reflexivity.
Qed.

(* ---------- at most once ---------- *)

Section Once.
  Variables (n : nat) (m : msg).

  Definition once_facts (s s1 : net) (os : list nobs) : Prop :=
    (forall x, In x (seen s) -> In x (seen s1)) /\
    (In (n, m) (seen s) -> count_obs (Handed n m) os = 0%nat) /\
    (count_obs (Handed n m) os <= 1)%nat /\
    (count_obs (Handed n m) os = 1%nat -> In (n, m) (seen s1)).

  Lemma once_silent s s1 : seen s1 = seen s -> once_facts s s1 [].
  Proof. intros E. unfold once_facts. rewrite E. cbn. repeat split; auto; lia. Qed.

  Lemma once_handle_valid s n' from m' s1 os :
    handle_valid s n' from m' = (s1, os) -> once_facts s s1 os.
  Proof.
    intros H. unfold once_facts.
    destruct (handle_valid_cases s n' from m') as [[Hs E]|[Hs E]]; rewrite E in H; inversion H; subst; clear H.
    - cbn. repeat split; auto; lia.
    - cbn [seen]. split; [intros x Hx; right; exact Hx|].
      destruct (chan_b n' (m_ch m') (chans s)); unfold count_obs; cbn [count_occ_b nobs_eqb].
      + destruct (Nat.eqb n n' && msg_eqb m m') eqn:E1.
        * apply andb_true_iff in E1 as [E1 E2]. apply Nat.eqb_eq in E1. apply msg_eqb_spec in E2. subst.
          repeat split; try lia; [contradiction|intros _; left; reflexivity].
        * repeat split; try lia.
      + repeat split; try lia.
  Qed.

  (* facts about one step *)
  Lemma step_once s a s1 os : nstep s a = (s1, os) -> once_facts s s1 os.
  Proof.
    destruct a as [m0|u v l|k|u v l ch b|k ch b|u v l|u v l|u v l]; cbn [nstep].
    - apply once_handle_valid.
    - destruct (up_b v u l (waiting s) && negb (up_b v u l (up s))); [intros H; inversion H; subst; apply once_silent; reflexivity|].
      destruct (take_pkt u v l (flight s)) as [[p rest]|] eqn:T.
      + destruct (up_b v u l (up s) && chan_b v (m_ch (p_msg p)) (chans s)).
        * intros H. apply once_handle_valid in H. exact H.
        * intros H; inversion H; subst. apply once_silent. reflexivity.
      + intros H; inversion H; subst. apply once_silent. reflexivity.
    - destruct (take_pend k (pubq s)) as [[q rest]|] eqn:T.
      + intros H; inversion H; subst. unfold once_facts. cbn [seen].
        assert (Z0 : count_obs (Handed n m)
                  (map (fun t => Sent k (fst t) (snd t) (q_msg q)) (targets (pc s) (up s) k (q_prev q) (q_msg q))) = 0%nat).
        { apply count_zero_notin. intros Hin. apply in_map_iff in Hin as [x [E _]]. discriminate. }
        rewrite Z0. repeat split; auto; lia.
      + intros H; inversion H; subst. apply once_silent. reflexivity.
    - destruct b; [destruct (pc_b u v l ch (pc s))|]; intros H; inversion H; subst; apply once_silent; reflexivity.
    - destruct b; [destruct (chan_b k ch (chans s))|]; intros H; inversion H; subst; apply once_silent; reflexivity.
    - destruct (up_b u v l (waiting s)); intros H; inversion H; subst; apply once_silent; reflexivity.
    - destruct (up_b u v l (waiting s)); intros H; inversion H; subst; apply once_silent; reflexivity.
    - intros H; inversion H; subst; apply once_silent; reflexivity.
  Qed.

  Lemma once_aux l : forall s,
    (In (n, m) (seen s) -> count_obs (Handed n m) (snd (nrun s l)) = 0%nat) /\
    (count_obs (Handed n m) (snd (nrun s l)) <= 1)%nat.
  Proof.
    induction l as [|a l IH]; intros s; cbn [nrun].
    - cbn. split; auto.
    - destruct (nstep s a) as [s1 o1] eqn:E1. destruct (step_once _ _ _ _ E1) as [F1 [F2 [F3 F4]]].
      destruct (IH s1) as [G1 G2]. destruct (nrun s1 l) as [s2 o2]. cbn [snd] in *.
      rewrite count_app. split.
      + intros Hs. rewrite (F2 Hs), (G1 (F1 _ Hs)). reflexivity.
      + destruct (Nat.eq_dec (count_obs (Handed n m) o1) 1) as [E|E].
        * rewrite (G1 (F4 E)). lia.
        * lia.
  Qed.
End Once.

(* each node's subscriptions are handed a given message at most once, whatever
   the initial state, the topology changes (links coming up and going down,
   parallel links, subscription changes) and the schedule *)
Theorem handed_at_most_once s l n m : (count_obs (Handed n m) (snd (nrun s l)) <= 1)%nat.
Proof. apply once_aux. Qed.

(* ---------- never back to the origin or the previous hop ---------- *)

Definition echo_inv (s : net) (os : list nobs) : Prop :=
  (forall q, In q (pubq s) -> In (Accepted (q_node q) (q_prev q) (q_msg q)) os) /\
  (forall u w m, In (Accepted u w m) os -> In (u, m) (seen s)) /\
  (forall u w w' m, In (Accepted u w m) os -> In (Accepted u w' m) os -> w = w') /\
  (forall u v l m, In (Sent u v l m) os ->
     v <> m_origin m /\ exists w, In (Accepted u w m) os /\ v <> w).

Lemma echo_silent s os s1 : pubq s1 = pubq s -> seen s1 = seen s -> echo_inv s os -> echo_inv s1 (os ++ []).
Proof. intros Ep Es H. rewrite app_nil_r. unfold echo_inv in *. rewrite Ep, Es. exact H. Qed.

Lemma echo_step s os a s1 o1 :
  echo_inv s os -> nstep s a = (s1, o1) -> echo_inv s1 (os ++ o1).
Proof.
  intros I. pose proof I as [I1 [I2 [I3 I4]]].
  assert (HV : forall s' n from m s1 o1,
    pubq s' = pubq s -> seen s' = seen s ->
    handle_valid s' n from m = (s1, o1) -> echo_inv s1 (os ++ o1)).
  { intros s' n from m s2 o2 Ep Es H.
    destruct (handle_valid_cases s' n from m) as [[Hs E]|[Hs E]]; rewrite E in H; inversion H; subst; clear H E.
    - apply (echo_silent s); auto.
    - rewrite Es in Hs. unfold echo_inv. cbn [pubq seen]. rewrite Ep, Es.
      assert (NoAcc : forall w, ~ In (Accepted n w m) os) by (intros w Hw; apply Hs; eapply I2; eauto).
      assert (InNew : forall o, In o (os ++ Accepted n from m :: (if chan_b n (m_ch m) (chans s') then [Handed n m] else [])) ->
                 In o os \/ o = Accepted n from m \/ o = Handed n m).
      { intros o Ho. apply in_app_or in Ho as [Ho|[Ho|Ho]]; auto.
        destruct (chan_b n (m_ch m) (chans s')); cbn in Ho; intuition. }
      split; [|split; [|split]].
      + intros q Hq. apply in_app_or in Hq as [Hq|[<-|[]]]; apply in_or_app; [left; auto|right; left; reflexivity].
      + intros u w m0 H. apply InNew in H as [H|[H|H]]; [right; eapply I2; eauto|inversion H; subst; left; reflexivity|discriminate].
      + intros u w w' m0 H H'. apply InNew in H as [H|[H|H]]; apply InNew in H' as [H'|[H'|H']]; try discriminate.
        * eapply I3; eauto.
        * inversion H'; subst. destruct (NoAcc _ H).
        * inversion H; subst. destruct (NoAcc _ H').
        * inversion H; inversion H'; subst. reflexivity.
      + intros u v l m0 H. apply InNew in H as [H|[H|H]]; try discriminate. apply I4 in H as [H1 [w [Hw Hn]]].
        split; [exact H1|]. exists w. split; [apply in_or_app; left; exact Hw|exact Hn]. }
  destruct a as [m0|u v l|k|u v l ch b|k ch b|u v l|u v l|u v l]; cbn [nstep].
  - apply HV; reflexivity.
  - destruct (up_b v u l (waiting s) && negb (up_b v u l (up s))); [intros H; inversion H; subst; exact (echo_silent _ _ _ eq_refl eq_refl I)|].
    destruct (take_pkt u v l (flight s)) as [[p rest]|] eqn:T.
    + destruct (up_b v u l (up s) && chan_b v (m_ch (p_msg p)) (chans s)).
      * apply HV; reflexivity.
      * intros H; inversion H; subst. exact (echo_silent _ _ _ eq_refl eq_refl I).
    + intros H; inversion H; subst. exact (echo_silent _ _ _ eq_refl eq_refl I).
  - destruct (take_pend k (pubq s)) as [[q rest]|] eqn:T.
    + intros H; inversion H; subst. clear H. apply take_pend_spec in T as [Tn Tin].
      unfold echo_inv. cbn [pubq seen].
      set (ts := targets (pc s) (up s) k (q_prev q) (q_msg q)).
      assert (InNew : forall o, In o (os ++ map (fun t => Sent k (fst t) (snd t) (q_msg q)) ts) ->
                 In o os \/ exists v l, o = Sent k v l (q_msg q) /\ In (v, l) ts).
      { intros o Ho. apply in_app_or in Ho as [Ho|Ho]; auto. apply in_map_iff in Ho as [[v l] [<- Hv]]. right. eauto. }
      split; [|split; [|split]].
      * intros x Hx. apply in_or_app. left. apply I1. apply Tin. auto.
      * intros u w m H. apply InNew in H as [H|[v [l [H _]]]]; [eapply I2; eauto|discriminate].
      * intros u w w' m H H'. apply InNew in H as [H|[v [l [H _]]]]; [|discriminate].
        apply InNew in H' as [H'|[v [l [H' _]]]]; [|discriminate]. eapply I3; eauto.
      * intros u v l m H. apply InNew in H as [H|[x [l' [H Hx]]]].
        { apply I4 in H as [H1 [w [Hw Hn]]]. split; [exact H1|]. exists w. split; [apply in_or_app; left; exact Hw|exact Hn]. }
        inversion H; subst. apply targets_spec in Hx as [_ [Ho [Hp _]]].
        split; [exact Ho|]. exists (q_prev q). split; [|exact Hp]. apply in_or_app. left.
        exact (I1 q (proj2 (Tin q) (or_introl eq_refl))).
    + intros H; inversion H; subst. exact (echo_silent _ _ _ eq_refl eq_refl I).
  - destruct b; [destruct (pc_b u v l ch (pc s))|]; intros H; inversion H; subst; exact (echo_silent _ _ _ eq_refl eq_refl I).
  - destruct b; [destruct (chan_b k ch (chans s))|]; intros H; inversion H; subst; exact (echo_silent _ _ _ eq_refl eq_refl I).
  - destruct (up_b u v l (waiting s)); intros H; inversion H; subst; exact (echo_silent _ _ _ eq_refl eq_refl I).
  - destruct (up_b u v l (waiting s)); intros H; inversion H; subst; exact (echo_silent _ _ _ eq_refl eq_refl I).
  - intros H; inversion H; subst; exact (echo_silent _ _ _ eq_refl eq_refl I).
Qed.

Lemma echo_run l : forall s os, echo_inv s os ->
  echo_inv (fst (nrun s l)) (os ++ snd (nrun s l)).
Proof.
  induction l as [|a l IH]; intros s os H; cbn [nrun].
  - cbn. rewrite app_nil_r. exact H.
  - destruct (nstep s a) as [s1 o1] eqn:E1. pose proof (echo_step _ _ _ _ _ H E1) as H1.
    specialize (IH s1 (os ++ o1) H1). destruct (nrun s1 l) as [s2 o2]. cbn [fst snd] in *.
    rewrite app_assoc. exact IH.
Qed.

(* a node never writes a message (on any of its links) to its origin nor to the peer it accepted it from *)
Theorem no_echo s l u v lid m :
  pubq s = [] ->
  In (Sent u v lid m) (snd (nrun s l)) ->
  v <> m_origin m /\
  (exists w, In (Accepted u w m) (snd (nrun s l))) /\
  (forall w, In (Accepted u w m) (snd (nrun s l)) -> v <> w).
Proof.
  intros Hp H.
  assert (I0 : echo_inv s []).
  { unfold echo_inv. rewrite Hp. cbn. repeat split; intros; contradiction. }
  apply (echo_run l) in I0. cbn [app] in I0. destruct I0 as [_ [_ [I3 I4]]].
  destruct (I4 _ _ _ _ H) as [H1 [w [Hw Hn]]]. split; [exact H1|]. split; [eauto|].
  intros w' Hw'. rewrite (I3 _ _ _ _ Hw' Hw). exact Hn.
Qed.

(* ---------- every subscriber reachable through subscribers over the links that are up ---------- *)

Section Live.
  Variable s0 : net.
  Variable m : msg.
  Hypothesis Hann : announced s0.

  Definition live_inv (s : net) (os : list nobs) : Prop :=
    (pc s = pc s0 /\ chans s = chans s0 /\ up s = up s0) /\
    (forall p, In p (flight s) -> In (p_src p, p_msg p) (seen s)) /\
    (forall q, In q (pubq s) -> In (q_node q, q_msg q) (seen s) /\ In (q_prev q, q_msg q) (seen s)) /\
    (forall n, In (n, m) (seen s) -> In (m_origin m, m) (seen s)) /\
    (forall u v l, In (u, m) (seen s) -> In (PC u v l (m_ch m)) (pc s) -> In (LK u v l) (up s) ->
       In (v, m) (seen s) \/ In (Pkt u v l m) (flight s) \/ exists prev, In (Pend u prev m) (pubq s)) /\
    (forall n, In (n, m) (seen s) -> chan_b n (m_ch m) (chans s) = true -> In (Handed n m) os).

  Lemma live_handle_valid s os s' n from m' s1 o1 :
    live_inv s os ->
    seen s' = seen s -> pubq s' = pubq s -> pc s' = pc s -> chans s' = chans s -> up s' = up s ->
    (forall p, In p (flight s') -> In p (flight s)) ->
    (forall u v l, In (Pkt u v l m) (flight s) -> In (Pkt u v l m) (flight s') \/ (v = n /\ m' = m)) ->
    In (from, m') (seen s) \/ from = n -> (m' = m -> In (m_origin m, m) (seen s) \/ m_origin m = n) ->
    handle_valid s' n from m' = (s1, o1) -> live_inv s1 (os ++ o1).
  Proof.
    intros [[K0a [K0b K0c]] [K1 [K2 [K3 [K4 K5]]]]] Es Ep Epc Ech Eup Hfl Hgone Hfrom Horig H.
    destruct (handle_valid_cases s' n from m') as [[Hs E]|[Hs E]]; rewrite E in H; inversion H; subst; clear H E.
    - rewrite app_nil_r. unfold live_inv. rewrite Es, Ep, Epc, Ech, Eup. rewrite Es in Hs.
      split; [repeat split; assumption|].
      split; [intros p Hp; apply K1; auto|].
      split; [exact K2|].
      split; [exact K3|].
      split; [|exact K5].
      intros u v l Hu Hpc Hup. destruct (K4 _ _ _ Hu Hpc Hup) as [H|[H|H]]; auto.
      destruct (Hgone _ _ _ H) as [H'|[-> ->]]; auto.
    - unfold live_inv. cbn [seen flight pubq pc chans up]. rewrite Es, Ep, Epc, Ech, Eup. rewrite Es in Hs.
      split; [repeat split; assumption|].
      split; [intros p Hp; right; apply K1; auto|].
      split.
      { intros q Hq. apply in_app_or in Hq as [Hq|[<-|[]]].
        - destruct (K2 _ Hq). split; right; assumption.
        - cbn [q_node q_prev q_msg]. split; [left; reflexivity|]. destruct Hfrom as [Hf| ->]; [right; exact Hf|left; reflexivity]. }
      split.
      { intros n0 [H|H].
        - inversion H; subst. destruct (Horig eq_refl) as [Ho|Ho]; [right; exact Ho|left; rewrite Ho; reflexivity].
        - right. eapply K3; eauto. }
      split.
      { intros u v l [Hu|Hu] Hpc Hup.
        - inversion Hu; subst. right. right. exists from. apply in_or_app. right. left. reflexivity.
        - destruct (K4 _ _ _ Hu Hpc Hup) as [H|[H|[prev H]]].
          + left. right. exact H.
          + destruct (Hgone _ _ _ H) as [H'|[-> ->]]; [auto|left; left; reflexivity].
          + right. right. exists prev. apply in_or_app. left. exact H. }
      intros n0 [H|H] Hc.
      + inversion H; subst. rewrite Hc. apply in_or_app. right. right. left. reflexivity.
      + apply in_or_app. left. destruct (chan_b n (m_ch m') (chans s)); apply K5; auto.
  Qed.

  Lemma live_step s os a s1 o1 :
    traffic a = true -> live_inv s os -> nstep s a = (s1, o1) -> live_inv s1 (os ++ o1).
  Proof.
    intros Ht I. pose proof I as [[K0a [K0b K0c]] [K1 [K2 [K3 [K4 K5]]]]].
    destruct Hann as [A0 [A1 A2]].
    destruct a as [m0|u v l|k|u v l ch b|k ch b|u v l|u v l|u v l]; try discriminate; cbn [nstep].
    - (* Publish *)
      intros H. apply (live_handle_valid s os s (m_origin m0) (m_origin m0) m0 s1 o1 I); auto.
      intros ->. right. reflexivity.
    - (* Recv *)
      destruct (up_b v u l (waiting s) && negb (up_b v u l (up s))); [intros H; inversion H; subst; rewrite app_nil_r; exact I|].
      destruct (take_pkt u v l (flight s)) as [[p rest]|] eqn:T.
      2:{ intros H; inversion H; subst. rewrite app_nil_r. exact I. }
      apply take_pkt_spec in T as [Tu [Tv [Tl Tin]]].
      assert (Hp : In p (flight s)) by (apply Tin; auto).
      assert (Hsrc : In (u, p_msg p) (seen s)) by (rewrite <- Tu; apply K1; exact Hp).
      assert (Hgone : forall u0 v0 l0, In (Pkt u0 v0 l0 m) (flight s) ->
                 In (Pkt u0 v0 l0 m) rest \/ (u0 = u /\ v0 = v /\ l0 = l /\ p_msg p = m)).
      { intros u0 v0 l0 H. apply Tin in H as [H|H]; auto. right. subst p. cbn in *. auto. }
      destruct (up_b v u l (up s) && chan_b v (m_ch (p_msg p)) (chans s)) eqn:Ec.
      + intros H.
        apply (live_handle_valid s os (Net (seen s) rest (pubq s) (pc s) (chans s) (up s) (waiting s)) v u (p_msg p) s1 o1 I); auto.
        * cbn [flight]. intros x Hx. apply Tin. auto.
        * cbn [flight]. intros u0 v0 l0 Hin. destruct (Hgone _ _ _ Hin) as [H'|[_ [-> [_ E]]]]; auto.
        * intros E. left. rewrite E in Hsrc. eapply K3; eauto.
      + (* session of the reader gone, or no channel key: impossible for a packet of m on a stabilised link *)
        intros H; inversion H; subst. rewrite app_nil_r.
        unfold live_inv. cbn [seen flight pubq pc chans up].
        split; [repeat split; assumption|].
        split; [intros x Hx; apply K1; apply Tin; auto|].
        split; [exact K2|].
        split; [exact K3|].
        split; [|exact K5].
        intros u0 v0 l0 Hu Hpc Hup. destruct (K4 _ _ _ Hu Hpc Hup) as [H1|[H1|H1]]; auto.
        destruct (Hgone _ _ _ H1) as [H2|[-> [-> [-> Em]]]]; auto.
        exfalso. rewrite K0c in Hup. pose proof (A0 _ _ _ Hup) as Hback. rewrite <- K0c in Hback.
        rewrite K0a in Hpc. pose proof (A1 _ _ _ _ Hpc Hup) as Hch. rewrite <- K0b in Hch.
        apply up_b_spec in Hback. rewrite Em, Hback, Hch in Ec. discriminate.
    - (* Exec *)
      destruct (take_pend k (pubq s)) as [[q rest]|] eqn:T.
      2:{ intros H; inversion H; subst. rewrite app_nil_r. exact I. }
      apply take_pend_spec in T as [Tn Tin].
      assert (Hq : In q (pubq s)) by (apply Tin; auto).
      destruct (K2 _ Hq) as [Hq1 Hq2]. rewrite Tn in Hq1.
      intros H; inversion H; subst; clear H.
      unfold live_inv. cbn [seen flight pubq pc chans up].
      split; [repeat split; assumption|].
      split.
      { intros p Hp. apply in_app_or in Hp as [Hp|Hp]; [apply K1; exact Hp|].
        apply in_map_iff in Hp as [t [<- _]]. cbn. exact Hq1. }
      split; [intros x Hx; apply K2; apply Tin; auto|].
      split; [exact K3|].
      split.
      { intros u v l Hu Hpc Hup. destruct (K4 _ _ _ Hu Hpc Hup) as [H1|[H1|[prev H1]]]; auto.
        - right. left. apply in_or_app. left. exact H1.
        - apply Tin in H1 as [H1|H1]; [|right; right; eauto].
          subst q. cbn [q_node q_prev q_msg] in *.
          destruct (Nat.eq_dec v (m_origin m)) as [->|Ho]; [left; eapply K3; eauto|].
          destruct (Nat.eq_dec v prev) as [->|Hpv]; [left; exact Hq2|].
          right. left. apply in_or_app. right. apply in_map_iff. exists (v, l). split; [reflexivity|].
          apply targets_spec. auto. }
      intros n Hs Hc. apply in_or_app. left. apply K5; auto.
  Qed.

  Lemma live_run l : forall s os,
    forallb traffic l = true -> live_inv s os ->
    live_inv (fst (nrun s l)) (os ++ snd (nrun s l)).
  Proof.
    induction l as [|a l IH]; intros s os Ht H; cbn [nrun].
    - cbn. rewrite app_nil_r. exact H.
    - cbn [forallb] in Ht. apply andb_true_iff in Ht as [Ha Hl].
      destruct (nstep s a) as [s1 o1] eqn:E1. pose proof (live_step _ _ _ _ _ Ha H E1) as H1.
      specialize (IH s1 (os ++ o1) Hl H1). destruct (nrun s1 l) as [s2 o2]. cbn [fst snd] in *.
      rewrite app_assoc. exact IH.
  Qed.

  Lemma seen_mono l : forall s x, In x (seen s) -> In x (seen (fst (nrun s l))).
  Proof.
    induction l as [|a l IH]; intros s x H; cbn [nrun]; [exact H|].
    destruct (nstep s a) as [s1 o1] eqn:E1.
    destruct (step_once 0%nat (Msg 0 0 0) _ _ _ _ E1) as [F1 _].
    specialize (IH s1 x (F1 _ H)). destruct (nrun s1 l). exact IH.
  Qed.

  Lemma publish_seen l : forall s, In (Publish m) l -> In (m_origin m, m) (seen (fst (nrun s l))).
  Proof.
    induction l as [|a l IH]; intros s H; [destruct H|]. cbn [nrun].
    destruct (nstep s a) as [s1 o1] eqn:E1. destruct H as [->|H].
    - assert (In (m_origin m, m) (seen s1)).
      { cbn [nstep] in E1. destruct (handle_valid_cases s (m_origin m) (m_origin m) m) as [[Hs E]|[Hs E]];
          rewrite E in E1; inversion E1; subst; [exact Hs|left; reflexivity]. }
      pose proof (seen_mono l s1 _ H) as H2. destruct (nrun s1 l). exact H2.
    - specialize (IH s1 H). destruct (nrun s1 l). exact IH.
  Qed.

  (* main liveness statement: s0 is any stabilised state (links may have come
     and gone before, earlier messages may have been flooded) *)
  Theorem all_reached l v :
    stable s0 -> unseen m s0 -> forallb traffic l = true ->
    stable (fst (nrun s0 l)) ->
    In (Publish m) l ->
    reach s0 (m_ch m) (m_origin m) v ->
    chan_b v (m_ch m) (chans s0) = true ->
    count_obs (Handed v m) (snd (nrun s0 l)) = 1%nat.
  Proof.
    intros [F2 F3] F1 Ht [Q1 Q2] Hpub Hreach Hc.
    assert (I0 : live_inv s0 []).
    { unfold live_inv. rewrite F2, F3. cbn.
      split; [auto|]. split; [intros; contradiction|]. split; [intros; contradiction|].
      split; [intros n Hn; destruct (F1 n Hn)|]. split; [intros u w l0 Hn; destruct (F1 u Hn)|].
      intros n Hn; destruct (F1 n Hn). }
    apply (live_run l) in I0; [|exact Ht]. cbn [app] in I0.
    destruct I0 as [[K0a [K0b K0c]] [K1 [K2 [K3 [K4 K5]]]]].
    destruct Hann as [A0 [A1 A2]].
    assert (Hseen : In (v, m) (seen (fst (nrun s0 l)))).
    { induction Hreach as [|u v Hr IHr [lid Hl] Hcv].
      - apply publish_seen. exact Hpub.
      - assert (Hu : In (u, m) (seen (fst (nrun s0 l)))).
        { inversion Hr; subst; [apply publish_seen; exact Hpub|]. apply IHr. assumption. }
        pose proof (A2 _ _ _ _ Hl Hcv) as Hpc. rewrite <- K0a in Hpc. rewrite <- K0c in Hl.
        destruct (K4 _ _ _ Hu Hpc Hl) as [H|[H|[prev H]]]; [exact H| |].
        + rewrite Q1 in H. destruct H.
        + rewrite Q2 in H. destruct H. }
    rewrite <- K0b in Hc. pose proof (K5 _ Hseen Hc) as Hin.
    apply count_pos_in in Hin. pose proof (handed_at_most_once s0 l v m). lia.
  Qed.
End Live.
