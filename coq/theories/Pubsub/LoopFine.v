(* The Execute loop of floodsub with its body split in TWO lock regions
   (incSessions/initSet pass, then the sweep), i.e. with m.mtx released in
   between.  This was the code before /repo commit 4585b8b.  It is kept
   (a) as the fine-grained transition system in which the proof about the
   current one-region loop body is carried out (Proofs29Loop.v proves the
   invariant here, Proofs29Pass.v shows that the current model Sub.v is the
   sub-system in which nothing interleaves between the two regions), and
   (b) to record why the hold-break was a defect (gap_trace).
   No proofs in this file. *)
From Bifrost Require Import Lib.Base Pubsub.Sub.

Module Fine.


Inductive phase :=
| PIdle     (* waiting on wakeCh *)
| PArmed    (* woken (or just started): waiting for the timer, next is the incSessions pass *)
| PGap.     (* incSessions pass done, m.mtx released, next is the sweep *)

Record lstate := LState {
  l_ch : list (nat * nat);            (* m.channels: key with the number of subscriptions below it (0 = released, not swept) *)
  l_pubbed : list nat;                (* pubbedChannels *)
  l_inc : list nat;                   (* incSessions *)
  l_started : list nat;               (* peer streams with a context (executing) *)
  l_all : list nat;                   (* every stream id ever added *)
  l_wire : list (nat * nat * bool);   (* subscription entries written, newest first: (stream, channel, subscribe) *)
  l_wake : bool;                      (* token in wakeCh *)
  l_phase : phase;
  l_ghost : bool                      (* ghost: a release in the gap emptied a channel that is not in pubbedChannels *)
}.

Inductive lact :=
| LSubscribe (ch : nat)   (* AddSubscription *)
| LRelease (ch : nat)     (* Release of one subscription of ch (m.mtx region) *)
| LAddPeer (p : nat)      (* AddPeerStream *)
| LDropPeer (p : nat)     (* session goroutine exit: delete(m.peers) *)
| LReplace (p : nat)      (* AddPeerStream for the tuple of an executing stream: the old session is cancelled, the new stream is pending *)
| LWake                   (* the loop takes the wake token *)
| LInit                   (* first m.mtx region of the loop body *)
| LSweep.                 (* second m.mtx region + writes of subChanges *)

Definition lstep (s : lstate) (a : lact) : lstate :=
  match a with
  | LSubscribe ch =>
      if has_key ch (l_ch s) then
        LState (set_key ch (S (nsubs ch (l_ch s))) (l_ch s)) (l_pubbed s) (l_inc s) (l_started s) (l_all s)
               (l_wire s) (l_wake s) (l_phase s) (l_ghost s)
      else
        LState (set_key ch 1 (l_ch s)) (l_pubbed s) (l_inc s) (l_started s) (l_all s)
               (l_wire s) true (l_phase s) (l_ghost s)
  | LRelease ch =>
      match nsubs ch (l_ch s) with
      | O => LState (l_ch s) (l_pubbed s) (l_inc s) (l_started s) (l_all s) (l_wire s) true (l_phase s) (l_ghost s)
      | S k =>
          LState (set_key ch k (l_ch s)) (l_pubbed s) (l_inc s) (l_started s) (l_all s) (l_wire s)
                 (if Nat.eqb k 0 then true else l_wake s) (l_phase s)
                 (l_ghost s ||
                  (Nat.eqb k 0 && negb (mem_nat ch (l_pubbed s)) &&
                   match l_phase s with PGap => true | _ => false end))
      end
  | LAddPeer p =>
      if mem_nat p (l_all s) then s
      else LState (l_ch s) (l_pubbed s) (l_inc s ++ [p]) (l_started s) (p :: l_all s) (l_wire s) true (l_phase s) (l_ghost s)
  | LReplace p =>
      if mem_nat p (l_started s) then
        LState (l_ch s) (l_pubbed s) (l_inc s ++ [p]) (filter (fun x => negb (Nat.eqb x p)) (l_started s)) (l_all s)
               (l_wire s) true (l_phase s)
               (l_ghost s || match l_phase s with PGap => true | _ => false end)
      else s
  | LDropPeer p =>
      LState (l_ch s) (l_pubbed s) (l_inc s) (filter (fun x => negb (Nat.eqb x p)) (l_started s)) (l_all s)
             (l_wire s) (l_wake s) (l_phase s) (l_ghost s)
  | LWake =>
      match l_phase s with
      | PIdle => if l_wake s
                 then LState (l_ch s) (l_pubbed s) (l_inc s) (l_started s) (l_all s) (l_wire s) false PArmed (l_ghost s)
                 else s
      | _ => s
      end
  | LInit =>
      match l_phase s with
      | PArmed =>
          let init := map (fun e => (fst e, true)) (filter (fun e => negb (Nat.eqb (snd e) 0)) (l_ch s)) in
          LState (l_ch s) (l_pubbed s) [] (l_started s ++ l_inc s) (l_all s)
                 (bcast (l_inc s) init ++ l_wire s) (l_wake s) PGap (l_ghost s)
      | _ => s
      end
  | LSweep =>
      match l_phase s with
      | PGap =>
          let '(changes, pubbed') := sweep (l_ch s) (l_pubbed s) in
          LState (filter (fun e => negb (Nat.eqb (snd e) 0)) (l_ch s)) pubbed' (l_inc s) (l_started s) (l_all s)
                 (bcast (l_started s) changes ++ l_wire s) (l_wake s) PIdle (l_ghost s)
      | _ => s
      end
  end.

Definition lrun (s : lstate) (l : list lact) : lstate := fold_left lstep l s.

(* Execute has just been started: the loop body runs once without a wake *)
Definition linit : lstate := LState [] [] [] [] [] [] false PArmed false.

Definition lquiescent (s : lstate) : Prop := l_phase s = PIdle /\ l_wake s = false.

(* one full pass of the loop, used by the canonical schedule of the correspondence *)
Definition lpass (s : lstate) : lstate := lstep (lstep (lstep s LWake) LInit) LSweep.

End Fine.
