(* C29: the current Execute loop (Pubsub/Sub.v part 3, loop body = one lock
   region) is exactly the two-region system of LoopFine.v restricted to
   histories in which nothing happens between LInit and LSweep; the theorem
   proved there for such histories is therefore unconditional here. *)
From Bifrost Require Import Lib.Base Pubsub.Sub Pubsub.LoopFine Pubsub.Proofs29Loop.

Definition embed_phase (p : phase) : Fine.phase :=
  match p with PIdle => Fine.PIdle | PArmed => Fine.PArmed end.

Definition embed (s : lstate) : Fine.lstate :=
  Fine.LState (l_ch s) (l_pubbed s) (l_inc s) (l_started s) (l_all s) (l_wire s) (l_wake s)
              (embed_phase (l_phase s)) false.

Definition to_pact (a : lact) : pact :=
  match a with
  | LSubscribe ch => PSubscribe ch
  | LRelease ch => PRelease ch
  | LAddPeer p => PAddPeer p
  | LDropPeer p => PDropPeer p
  | LReplace p => PReplace p
  | LWake => PWake
  | LPass => PPass
  end.

Lemma sim_step s a : embed (lstep s a) = Fine.lrun (embed s) (expand1 (to_pact a)).
Proof.
  destruct s as [c0 pb inc st al w wk ph]. unfold Fine.lrun.
  destruct ph; destruct a as [ch|ch|p|p|p| |];
    cbn [to_pact expand1 fold_left lstep Fine.lstep embed embed_phase pass_init pass_sweep
         l_ch l_pubbed l_inc l_started l_all l_wire l_wake l_phase
         Fine.l_ch Fine.l_pubbed Fine.l_inc Fine.l_started Fine.l_all Fine.l_wire Fine.l_wake Fine.l_phase Fine.l_ghost];
    unfold pass_sweep, pass_init;
    cbn [l_ch l_pubbed l_inc l_started l_all l_wire l_wake l_phase];
    repeat match goal with
           | |- context [let '(_, _) := ?x in _] => destruct x
           | |- context [match ?x with _ => _ end] => destruct x
           | |- context [if ?x then _ else _] => destruct x
           end;
    cbn [embed embed_phase l_ch l_pubbed l_inc l_started l_all l_wire l_wake l_phase orb andb negb];
    rewrite ?andb_false_r; reflexivity.
Qed.

Lemma sim_run l : forall s, embed (lrun s l) = Fine.lrun (embed s) (expand (map to_pact l)).
Proof.
  induction l as [|a l IH]; intros s; [reflexivity|].
  change (lrun s (a :: l)) with (lrun (lstep s a) l).
  cbn [map expand flat_map]. rewrite lrun_app, <- sim_step. apply IH.
Qed.

(* the property, unconditionally, for every interleaving of subscribe, release,
   new stream, dropped stream, wake and loop body *)
Theorem unsub_at_quiescence l p ch :
  let s := lrun linit l in
  lquiescent s -> In p (l_started s) -> nsubs ch (l_ch s) = 0%nat -> told (l_wire s) p ch = false.
Proof.
  intros s [Qp Qw] Hp Hz.
  pose proof (sim_run l linit) as E. fold s in E.
  change (embed linit) with Fine.linit in E.
  pose proof (unsub_at_quiescence_atomic_pass (map to_pact l) p ch) as T. cbn zeta in T. rewrite <- E in T.
  apply T; cbn [embed Fine.l_started Fine.l_ch Fine.l_wire]; auto.
  split; cbn [embed Fine.l_phase Fine.l_wake]; [rewrite Qp; reflexivity|exact Qw].
Qed.

(* the history that broke the two-region loop: the release can no longer fall
   between the initial set and the sweep - wherever it is placed, the stream
   ends without Subscribe=true *)
Example gap_closed_before :
  let s := lrun linit [LSubscribe 7; LAddPeer 1; LRelease 7; LPass; LWake; LPass] in
  lquiescent s /\ In 1%nat (l_started s) /\ nsubs 7 (l_ch s) = 0%nat /\ told (l_wire s) 1 7 = false.
Proof. vm_compute. repeat split; auto. Qed.

Example gap_closed_after :
  let s := lrun linit [LSubscribe 7; LAddPeer 1; LPass; LRelease 7; LWake; LPass] in
  lquiescent s /\ In 1%nat (l_started s) /\ nsubs 7 (l_ch s) = 0%nat /\ told (l_wire s) 1 7 = false /\
  In (1%nat, 7%nat, true) (l_wire s) /\ In (1%nat, 7%nat, false) (l_wire s).
Proof. vm_compute. repeat split; auto 10. Qed.
