(* C27: model of pubsub/util/pubmessage ExtractAndVerify and of the receiving
   side of a floodsub node (pubsub/floodsub/stream.go handlePublish,
   floodsub.go handleValidMessage + execPublish).

   Messages are symbolic (Dolev-Yao): a signature is a free term over the
   signing key, the signing context and the signed body, so a signature
   verifies exactly when it was made by that key over that context and body.
   No proofs in this file. *)
From Bifrost Require Import Lib.Base Lib.Lex gen.Pubsub.

(* ---------- symbolic wire messages ---------- *)

(* SignedMsg.Data: either an encoding of PubMessageInner{data; channel;
   timestamp} ([variant] distinguishes different byte encodings of the same
   inner message, [ts_ok] is the result of the timestamp validity check of the
   protobuf library, passed in as data) or bytes that do not unmarshal. *)
Inductive body :=
| Enc (data chan : bytes) (ts_ok : bool) (variant : nat)
| Junk (n : nat).

(* SignedMsg.Signature: made by key k over (context, body), or anything else
   (missing, malformed, random bytes). *)
Inductive sigt :=
| Sig (k : nat) (ctx : bytes) (b : body)
| NoSig (n : nat).

(* SignedMsg.FromPeerId: the base58 peer id of key k, or a string that is
   empty / does not decode / embeds no public key. *)
Inductive sender :=
| Peer (k : nat)
| NoPeer (n : nat).

(* Signature.pub_key: nothing attached, the marshalled public key of key k, or
   bytes that do not parse as a public key.  The attached key is only checked
   for well-formedness (Signature.Validate); the verification key is the one
   embedded in FromPeerId. *)
Inductive attach :=
| NoKey
| KeyOf (k : nat)
| BadKey (n : nat).

Record smsg := SMsg { s_from : sender; s_body : body; s_sig : sigt; s_att : attach }.

Definition att_ok (a : attach) : bool := match a with BadKey _ => false | _ => true end.

Definition attach_eqb (a b : attach) : bool :=
  match a, b with
  | NoKey, NoKey => true
  | KeyOf k, KeyOf k' => Nat.eqb k k'
  | BadKey n, BadKey n' => Nat.eqb n n'
  | _, _ => false
  end.

Definition body_eqb (a b : body) : bool :=
  match a, b with
  | Enc d c t v, Enc d' c' t' v' => bytes_eqb d d' && bytes_eqb c c' && Bool.eqb t t' && Nat.eqb v v'
  | Junk n, Junk n' => Nat.eqb n n'
  | _, _ => false
  end.

Definition sigt_eqb (a b : sigt) : bool :=
  match a, b with
  | Sig k c x, Sig k' c' x' => Nat.eqb k k' && bytes_eqb c c' && body_eqb x x'
  | NoSig n, NoSig n' => Nat.eqb n n'
  | _, _ => false
  end.

Definition sender_eqb (a b : sender) : bool :=
  match a, b with
  | Peer k, Peer k' => Nat.eqb k k'
  | NoPeer n, NoPeer n' => Nat.eqb n n'
  | _, _ => false
  end.

Definition smsg_eqb (a b : smsg) : bool :=
  sender_eqb (s_from a) (s_from b) && body_eqb (s_body a) (s_body b) && sigt_eqb (s_sig a) (s_sig b) &&
  attach_eqb (s_att a) (s_att b).

(* ---------- pubmessage.ExtractAndVerify ---------- *)

Definition E_INNER : nat := 1%nat.    (* PubMessageInner does not unmarshal *)
Definition E_CHANNEL : nat := 2%nat.  (* ErrInvalidChannelID: empty channel *)
Definition E_TS : nat := 3%nat.       (* invalid timestamp *)
Definition E_SIGNED : nat := 4%nat.   (* SignedMsg.ExtractAndVerify failed: peer id, signature object or signature *)

(* the signing context of a channel: pubMessageEncContext + channel *)
Definition pub_ctx (ch : bytes) : bytes := pubsub_ctx_prefix ++ ch.

Definition is_nil {A} (l : list A) : bool := match l with [] => true | _ => false end.

(* verified message: signer key, data, channel *)
Record vmsg := VMsg { v_key : nat; v_data : bytes; v_chan : bytes }.

Definition extract_and_verify (m : smsg) : outcome vmsg :=
  match s_body m with
  | Junk _ => Err E_INNER
  | Enc data ch ts_ok _ =>
      if is_nil ch then Err E_CHANNEL
      else if negb ts_ok then Err E_TS
      else
        match s_from m, s_sig m with
        | Peer k, Sig k' ctx b =>
            if att_ok (s_att m) && Nat.eqb k k' && bytes_eqb ctx (pub_ctx ch) && body_eqb b (s_body m)
            then Ok (VMsg k data ch)
            else Err E_SIGNED
        | _, _ => Err E_SIGNED
        end
  end.

(* ---------- the receiving node ---------- *)

(* SignedMsg.ComputeMessageID = BLAKE3(sig_data || from_peer_id): a free
   function of the signature and the sender string (the attached public key
   and the body are not part of it). *)
Definition msgid := (sigt * sender)%type.
Definition msg_id (m : smsg) : msgid := (s_sig m, s_from m).
Definition msgid_eqb (a b : msgid) : bool := sigt_eqb (fst a) (fst b) && sender_eqb (snd a) (snd b).

Record node := Node {
  n_chans : list (bytes * nat);   (* keys of m.channels, with the number of handlers registered below the key *)
  n_seen : list msgid;            (* seenMessages *)
  n_pc : list (nat * bytes)       (* peerChannels: (peer, channel); peer p is the peer whose key is p *)
}.

Inductive act :=
| RecvPublish (prev : nat) (m : smsg)            (* one entry of Packet.Publish read from peer prev *)
| RecvSub (p : nat) (ch : bytes) (sub : bool)    (* one entry of Packet.Subscriptions read from peer p *)
| LocalSubscribe (ch : bytes) (handlers : nat)   (* m.channels[ch] set, [handlers] callbacks registered *)
| LocalSweep (ch : bytes).                       (* m.channels[ch] deleted by the sweep *)

Inductive obs :=
| Deliver (ch : bytes) (from : nat) (data : bytes) (n : nat)  (* the n handlers below channel key ch are called with (from, data) *)
| Forward (to : nat) (m : smsg).                               (* packet written to peer [to] *)

Definition has_chan (ch : bytes) (l : list (bytes * nat)) : bool :=
  existsb (fun e => bytes_eqb (fst e) ch) l.

Fixpoint chan_handlers (ch : bytes) (l : list (bytes * nat)) : nat :=
  match l with
  | [] => 0%nat
  | (c, n) :: l' => if bytes_eqb c ch then n else chan_handlers ch l'
  end.

Definition seen_mem (i : msgid) (l : list msgid) : bool := existsb (msgid_eqb i) l.

(* execPublish: every peer announced for the channel except the signer and the previous hop *)
Definition fwd_targets (pc : list (nat * bytes)) (ch : bytes) (signer prev : nat) : list nat :=
  map fst (filter (fun e => bytes_eqb (snd e) ch && negb (Nat.eqb (fst e) signer) && negb (Nat.eqb (fst e) prev)) pc).

Definition remove_chan (ch : bytes) (l : list (bytes * nat)) : list (bytes * nat) :=
  filter (fun e => negb (bytes_eqb (fst e) ch)) l.

Definition remove_pc (p : nat) (ch : bytes) (l : list (nat * bytes)) : list (nat * bytes) :=
  filter (fun e => negb (Nat.eqb (fst e) p && bytes_eqb (snd e) ch)) l.

Definition has_pc (p : nat) (ch : bytes) (l : list (nat * bytes)) : bool :=
  existsb (fun e => Nat.eqb (fst e) p && bytes_eqb (snd e) ch) l.

Definition step (st : node) (a : act) : node * list obs :=
  match a with
  | RecvPublish prev m =>
      (* handlePublish: verify, subscribed check, then handleValidMessage *)
      match extract_and_verify m with
      | Ok v =>
          if has_chan (v_chan v) (n_chans st) then
            if seen_mem (msg_id m) (n_seen st) then (st, [])
            else
              (Node (n_chans st) (msg_id m :: n_seen st) (n_pc st),
               Deliver (v_chan v) (v_key v) (v_data v) (chan_handlers (v_chan v) (n_chans st))
                 :: map (fun p => Forward p m) (fwd_targets (n_pc st) (v_chan v) (v_key v) prev))
          else (st, [])
      | _ => (st, [])
      end
  | RecvSub p ch sub =>
      if is_nil ch then (st, [])
      else if sub then
        (if has_pc p ch (n_pc st) then (st, [])
         else (Node (n_chans st) (n_seen st) (n_pc st ++ [(p, ch)]), []))
      else (Node (n_chans st) (n_seen st) (remove_pc p ch (n_pc st)), [])
  | LocalSubscribe ch h =>
      (Node ((ch, h) :: remove_chan ch (n_chans st)) (n_seen st) (n_pc st), [])
  | LocalSweep ch =>
      (Node (remove_chan ch (n_chans st)) (n_seen st) (n_pc st), [])
  end.

(* run a history, collecting the observations in order *)
Fixpoint run (st : node) (l : list act) : node * list obs :=
  match l with
  | [] => (st, [])
  | a :: l' =>
      let '(st1, o1) := step st a in
      let '(st2, o2) := run st1 l' in
      (st2, o1 ++ o2)
  end.

(* what it means for a packet to be authentic for channel ch *)
Definition authentic (m : smsg) (k : nat) (data ch : bytes) : Prop :=
  ch <> [] /\
  s_from m = Peer k /\
  (exists ts v, s_body m = Enc data ch ts v) /\
  s_sig m = Sig k (pubsub_ctx_prefix ++ ch) (s_body m).
