(* C29: the Execute loop of floodsub, proofs in the fine-grained two-region
   transition system Pubsub/LoopFine.v (the loop body as it was before /repo
   commit 4585b8b; the current one-region body is the sub-system in which
   nothing interleaves between LInit and LSweep, see Proofs29Pass.v): once the
   last local subscription of a channel is released, at quiescence no executing
   peer stream is left with Subscribe=true for it. *)
From Bifrost Require Import Lib.Base Pubsub.Sub Pubsub.LoopFine.
Import Fine.

(* ---------- association lists ---------- *)

Lemma mem_nat_spec x l : mem_nat x l = true <-> In x l.
Proof.
  unfold mem_nat. rewrite existsb_exists. split.
  - intros [y [Hy E]]. apply Nat.eqb_eq in E. subst. exact Hy.
  - intros H. exists x. split; [exact H|apply Nat.eqb_refl].
Qed.

Lemma has_key_spec ch l : has_key ch l = true <-> In ch (map fst l).
Proof.
  unfold has_key. rewrite existsb_exists, in_map_iff. split.
  - intros [e [He E]]. apply Nat.eqb_eq in E. exists e. auto.
  - intros [e [E He]]. exists e. split; [exact He|apply Nat.eqb_eq; exact E].
Qed.

Lemma nsubs_nokey ch l : ~ In ch (map fst l) -> nsubs ch l = 0%nat.
Proof.
  induction l as [|[c n] l IH]; cbn [nsubs map fst In]; [reflexivity|].
  intros H. destruct (Nat.eqb_spec c ch); [subst; tauto|]. apply IH. tauto.
Qed.

Lemma nsubs_nonzero_key ch l : nsubs ch l <> 0%nat -> In ch (map fst l).
Proof.
  intros H. destruct (in_dec Nat.eq_dec ch (map fst l)) as [Hi|Hi]; [exact Hi|].
  apply nsubs_nokey in Hi. congruence.
Qed.

Lemma nsubs_in ch n l : NoDup (map fst l) -> In (ch, n) l -> nsubs ch l = n.
Proof.
  induction l as [|[c k] l IH]; cbn [nsubs map fst In]; [tauto|].
  intros Hnd [H|H].
  - inversion H; subst. rewrite Nat.eqb_refl. reflexivity.
  - inversion Hnd; subst. destruct (Nat.eqb_spec c ch).
    + subst. exfalso. apply H2. apply in_map_iff. exists (ch, n). auto.
    + apply IH; auto.
Qed.

Lemma set_key_keys ch n l x : In x (map fst (set_key ch n l)) <-> x = ch \/ In x (map fst l).
Proof.
  induction l as [|[c k] l IH]; cbn [set_key map fst In]; [intuition|].
  destruct (Nat.eqb_spec c ch); cbn [map fst In].
  - subst. intuition.
  - rewrite IH. intuition.
Qed.

Lemma set_key_nodup ch n l : NoDup (map fst l) -> NoDup (map fst (set_key ch n l)).
Proof.
  induction l as [|[c k] l IH]; cbn [set_key map fst]; intros H.
  - constructor; [intros []|constructor].
  - destruct (Nat.eqb_spec c ch); cbn [map fst].
    + exact H.
    + inversion H; subst. constructor; [|apply IH; assumption].
      rewrite set_key_keys. intros [E|E]; [congruence|contradiction].
Qed.

Lemma nsubs_set_key ch n l x : nsubs x (set_key ch n l) = if Nat.eqb ch x then n else nsubs x l.
Proof.
  induction l as [|[c k] l IH]; cbn [set_key nsubs].
  - reflexivity.
  - destruct (Nat.eqb_spec c ch) as [->|Hc]; cbn [nsubs].
    + destruct (Nat.eqb_spec ch x); reflexivity.
    + rewrite IH. destruct (Nat.eqb_spec c x) as [->|Hx]; [|reflexivity].
      destruct (Nat.eqb_spec ch x); [congruence|reflexivity].
Qed.

Lemma nsubs_filter ch l : NoDup (map fst l) ->
  nsubs ch (filter (fun e => negb (Nat.eqb (snd e) 0)) l) = nsubs ch l.
Proof.
  induction l as [|[c k] l IH]; cbn [filter nsubs snd map fst]; [reflexivity|].
  intros Hnd. inversion Hnd; subst.
  destruct (Nat.eqb_spec k 0) as [->|Hk]; cbn [negb nsubs].
  - destruct (Nat.eqb_spec c ch) as [->|Hc]; [|apply IH; assumption].
    rewrite IH by assumption. apply nsubs_nokey. assumption.
  - destruct (Nat.eqb_spec c ch); [reflexivity|apply IH; assumption].
Qed.

Lemma filter_keys_nodup (f : nat * nat -> bool) l : NoDup (map fst l) -> NoDup (map fst (filter f l)).
Proof.
  induction l as [|e l IH]; cbn [filter map]; intros H; [constructor|].
  inversion H; subst. destruct (f e); cbn [map]; [|apply IH; assumption].
  constructor; [|apply IH; assumption].
  intros Hin. apply H2. apply in_map_iff in Hin as [x [E Hx]]. apply filter_In in Hx as [Hx _].
  apply in_map_iff. exists x. auto.
Qed.

(* ---------- told / bcast ---------- *)

Fixpoint lookup (ch : nat) (cs : list (nat * bool)) : option bool :=
  match cs with
  | [] => None
  | (c, b) :: cs' => if Nat.eqb c ch then Some b else lookup ch cs'
  end.

Lemma told_app_one p cs w q ch :
  told (map (fun cb => (q, fst cb, snd cb)) cs ++ w) p ch =
  if Nat.eqb q p then match lookup ch cs with Some b => b | None => told w p ch end else told w p ch.
Proof.
  induction cs as [|[c b] cs IH]; cbn [map app told lookup fst snd].
  - destruct (Nat.eqb q p); reflexivity.
  - rewrite IH. destruct (Nat.eqb_spec q p); cbn [andb]; [|reflexivity].
    destruct (Nat.eqb c ch); reflexivity.
Qed.

Lemma told_bcast ps cs w p ch :
  told (bcast ps cs ++ w) p ch =
  if mem_nat p ps then match lookup ch cs with Some b => b | None => told w p ch end else told w p ch.
Proof.
  unfold bcast. induction ps as [|q ps IH]; cbn [flat_map app mem_nat existsb]; [reflexivity|].
  rewrite <- app_assoc, told_app_one, IH. fold (mem_nat p ps).
  rewrite (Nat.eqb_sym p q). destruct (Nat.eqb q p); cbn [orb]; [|reflexivity].
  destruct (lookup ch cs); [reflexivity|]. destruct (mem_nat p ps); reflexivity.
Qed.

Lemma told_true_entry w p ch : told w p ch = true -> exists b, In (p, ch, b) w.
Proof.
  induction w as [|[[q c] b] w IH]; cbn [told]; [discriminate|].
  destruct (Nat.eqb q p && Nat.eqb c ch) eqn:E.
  - apply andb_true_iff in E as [E1 E2]. apply Nat.eqb_eq in E1, E2. subst. intros _. exists b. left. reflexivity.
  - intros H. destruct (IH H) as [b' Hb]. exists b'. right. exact Hb.
Qed.

Lemma in_bcast ps cs p c b : In (p, c, b) (bcast ps cs) -> In p ps /\ In (c, b) cs.
Proof.
  unfold bcast. rewrite in_flat_map. intros [q [Hq H]]. apply in_map_iff in H as [[c' b'] [E H]].
  cbn [fst snd] in E. inversion E; subst. auto.
Qed.

Lemma lookup_init ch l :
  lookup ch (map (fun e : nat * nat => (fst e, true)) l) = Some true \/
  lookup ch (map (fun e : nat * nat => (fst e, true)) l) = None.
Proof.
  induction l as [|[c k] l IH]; cbn [map lookup fst]; [auto|]. destruct (Nat.eqb c ch); auto.
Qed.

Lemma lookup_some_in ch cs b : lookup ch cs = Some b -> In (ch, b) cs.
Proof.
  induction cs as [|[c b'] cs IH]; cbn [lookup]; [discriminate|].
  destruct (Nat.eqb_spec c ch); [intros H; inversion H; subst; left; reflexivity|intros H; right; auto].
Qed.

(* ---------- the sweep ---------- *)

Lemma sweep_keep chs : forall pb ch,
  In ch pb -> ~ In ch (map fst chs) -> In ch (snd (sweep chs pb)).
Proof.
  induction chs as [|[c n] chs IH]; intros pb ch Hin Hk; cbn [sweep]; [exact Hin|].
  cbn [map fst In] in Hk.
  assert (Hc : c <> ch) by tauto. assert (Hk' : ~ In ch (map fst chs)) by tauto.
  destruct (Nat.eqb n 0); destruct (mem_nat c pb).
  - specialize (IH (filter (fun x => negb (Nat.eqb x c)) pb) ch).
    destruct (sweep chs (filter (fun x => negb (Nat.eqb x c)) pb)) as [cs p]. cbn [snd] in *. apply IH; auto.
    apply filter_In. split; [exact Hin|]. apply negb_true_iff, Nat.eqb_neq. congruence.
  - apply IH; auto.
  - apply IH; auto.
  - specialize (IH (c :: pb) ch). destruct (sweep chs (c :: pb)) as [cs p]. cbn [snd] in *. apply IH; auto. right. exact Hin.
Qed.

(* who is in pubbedChannels afterwards *)
Lemma sweep_pubbed chs : forall pb ch, NoDup (map fst chs) ->
  (nsubs ch chs <> 0%nat -> In ch (snd (sweep chs pb))) /\
  (In ch (snd (sweep chs pb)) -> In ch pb \/ nsubs ch chs <> 0%nat) /\
  (In ch (snd (sweep chs pb)) -> In ch (map fst chs) -> nsubs ch chs <> 0%nat).
Proof.
  induction chs as [|[c n] chs IH]; intros pb ch Hnd; cbn [sweep nsubs map fst In].
  - cbn. repeat split; auto; tauto.
  - inversion Hnd as [|x l Hc Hnd']; subst.
    destruct (Nat.eqb_spec c ch) as [->|Hne].
    + (* the entry of ch itself *)
      destruct (Nat.eqb_spec n 0) as [->|Hn].
      * destruct (mem_nat ch pb) eqn:Em.
        -- destruct (IH (filter (fun x => negb (Nat.eqb x ch)) pb) ch Hnd') as [_ [I2 _]].
           destruct (sweep chs (filter (fun x => negb (Nat.eqb x ch)) pb)) as [cs p]. cbn [snd] in *.
           assert (Hno : ~ In ch p).
           { intros Hin. destruct (I2 Hin) as [H|H].
             - apply filter_In in H as [_ H]. rewrite Nat.eqb_refl in H. discriminate.
             - apply H. apply nsubs_nokey. exact Hc. }
           repeat split; try tauto.
        -- destruct (IH pb ch Hnd') as [_ [I2 _]].
           assert (Hno : ~ In ch (snd (sweep chs pb))).
           { intros Hin. destruct (I2 Hin) as [H|H].
             - apply mem_nat_spec in H. congruence.
             - apply H. apply nsubs_nokey. exact Hc. }
           repeat split; try tauto.
      * destruct (mem_nat ch pb) eqn:Em.
        -- apply mem_nat_spec in Em. pose proof (sweep_keep chs pb ch Em Hc). repeat split; auto.
        -- pose proof (sweep_keep chs (ch :: pb) ch (or_introl eq_refl) Hc).
           destruct (sweep chs (ch :: pb)) as [cs p]. cbn [snd] in *. repeat split; auto.
    + (* another channel *)
      assert (Hx : forall pb', (nsubs ch chs <> 0%nat -> In ch (snd (sweep chs pb'))) /\
                   (In ch (snd (sweep chs pb')) -> In ch pb' \/ nsubs ch chs <> 0%nat) /\
                   (In ch (snd (sweep chs pb')) -> In ch (map fst chs) -> nsubs ch chs <> 0%nat))
        by (intros pb'; apply IH; exact Hnd').
      destruct (Nat.eqb n 0); destruct (mem_nat c pb).
      * destruct (Hx (filter (fun x => negb (Nat.eqb x c)) pb)) as [I1 [I2 I3]].
        destruct (sweep chs (filter (fun x => negb (Nat.eqb x c)) pb)) as [cs p]. cbn [snd] in *.
        split; [exact I1|]. split.
        -- intros Hin. destruct (I2 Hin) as [H|H]; auto. apply filter_In in H as [H _]. auto.
        -- intros Hin [E|Hk]; [congruence|auto].
      * destruct (Hx pb) as [I1 [I2 I3]]. split; [exact I1|]. split; [exact I2|].
        intros Hin [E|Hk]; [congruence|auto].
      * destruct (Hx pb) as [I1 [I2 I3]]. split; [exact I1|]. split; [exact I2|].
        intros Hin [E|Hk]; [congruence|auto].
      * destruct (Hx (c :: pb)) as [I1 [I2 I3]].
        destruct (sweep chs (c :: pb)) as [cs p]. cbn [snd] in *.
        split; [exact I1|]. split.
        -- intros Hin. destruct (I2 Hin) as [[E|H]|H]; auto; congruence.
        -- intros Hin [E|Hk]; [congruence|auto].
Qed.

(* what is written *)
Lemma sweep_changes chs : forall pb ch, NoDup (map fst chs) ->
  (lookup ch (fst (sweep chs pb)) = Some true -> In ch (snd (sweep chs pb))) /\
  (In ch pb -> In ch (map fst chs) -> nsubs ch chs = 0%nat -> lookup ch (fst (sweep chs pb)) = Some false).
Proof.
  induction chs as [|[c n] chs IH]; intros pb ch Hnd; cbn [sweep nsubs map fst In].
  - cbn. split; [discriminate|tauto].
  - inversion Hnd as [|x l Hc Hnd']; subst.
    destruct (Nat.eqb_spec c ch) as [->|Hne].
    + destruct (Nat.eqb_spec n 0) as [->|Hn].
      * destruct (mem_nat ch pb) eqn:Em.
        -- destruct (sweep chs (filter (fun x => negb (Nat.eqb x ch)) pb)) as [cs p]. cbn [fst snd lookup].
           rewrite Nat.eqb_refl. split; [discriminate|reflexivity].
        -- split.
           ++ apply IH. exact Hnd'.
           ++ intros Hin. apply mem_nat_spec in Hin. congruence.
      * destruct (mem_nat ch pb) eqn:Em.
        -- split; [apply IH; exact Hnd'|]. intros _ _ E. congruence.
        -- pose proof (sweep_keep chs (ch :: pb) ch (or_introl eq_refl) Hc).
           destruct (sweep chs (ch :: pb)) as [cs p]. cbn [fst snd lookup] in *.
           rewrite Nat.eqb_refl. split; [auto|]. intros _ _ E. congruence.
    + destruct (Nat.eqb n 0); destruct (mem_nat c pb).
      * destruct (IH (filter (fun x => negb (Nat.eqb x c)) pb) ch Hnd') as [I1 I2].
        destruct (sweep chs (filter (fun x => negb (Nat.eqb x c)) pb)) as [cs p]. cbn [fst snd lookup] in *.
        destruct (Nat.eqb_spec c ch); [congruence|]. split; [exact I1|].
        intros Hin [E|Hk] Hz; [congruence|]. apply I2; auto.
        apply filter_In. split; [exact Hin|]. apply negb_true_iff, Nat.eqb_neq. congruence.
      * destruct (IH pb ch Hnd') as [I1 I2]. split; [exact I1|]. intros Hin [E|Hk] Hz; [congruence|auto].
      * destruct (IH pb ch Hnd') as [I1 I2]. split; [exact I1|]. intros Hin [E|Hk] Hz; [congruence|auto].
      * destruct (IH (c :: pb) ch Hnd') as [I1 I2].
        destruct (sweep chs (c :: pb)) as [cs p]. cbn [fst snd lookup] in *.
        destruct (Nat.eqb_spec c ch); [congruence|]. split; [exact I1|].
        intros Hin [E|Hk] Hz; [congruence|]. apply I2; auto. right. exact Hin.
Qed.

(* ---------- the invariant ---------- *)

Definition linv (s : lstate) : Prop :=
  NoDup (map fst (l_ch s)) /\
  (forall ch, In ch (l_pubbed s) -> In ch (map fst (l_ch s))) /\
  (forall p ch, In p (l_started s) \/ In p (l_inc s) -> told (l_wire s) p ch = true ->
     In ch (l_pubbed s) \/ (l_phase s = PGap /\ nsubs ch (l_ch s) <> 0%nat) \/ l_ghost s = true) /\
  (forall ch, In ch (l_pubbed s) -> nsubs ch (l_ch s) = 0%nat -> l_wake s = true \/ l_phase s <> PIdle) /\
  (forall p c b, In (p, c, b) (l_wire s) -> In p (l_all s)) /\
  (forall p, In p (l_inc s) -> In p (l_all s)) /\
  (forall p, In p (l_started s) -> In p (l_all s) /\ ~ In p (l_inc s)) /\
  (l_phase s = PGap -> forall p, In p (l_inc s) -> (forall c b, ~ In (p, c, b) (l_wire s)) \/ l_ghost s = true).

Lemma linv_init : linv linit.
Proof.
  unfold linv, linit. cbn. repeat split; try tauto; try constructor; try discriminate.
Qed.

Lemma linv_step s a : linv s -> linv (lstep s a).
Proof.
  intros [U [I1 [I2 [I3 [I5 [I6 [I7 I8]]]]]]].
  destruct a as [ch0|ch0|p0|p0|p0| | |]; cbn [lstep].
  - (* LSubscribe *)
    assert (HI2 : forall n0, (0 < n0)%nat -> forall p ch, In p (l_started s) \/ In p (l_inc s) -> told (l_wire s) p ch = true ->
              In ch (l_pubbed s) \/ (l_phase s = PGap /\ nsubs ch (set_key ch0 (n0 + nsubs ch0 (l_ch s)) (l_ch s)) <> 0%nat) \/ l_ghost s = true).
    { intros n0 Hn p ch Hp Ht. destruct (I2 p ch Hp Ht) as [H|[[H1 H2]|H]]; auto.
      right. left. split; [exact H1|]. rewrite nsubs_set_key. destruct (Nat.eqb_spec ch0 ch); [lia|exact H2]. }
    destruct (has_key ch0 (l_ch s)) eqn:Hk; unfold linv; cbn [l_ch l_pubbed l_inc l_started l_all l_wire l_wake l_phase l_ghost].
    + split; [apply set_key_nodup, U|].
      split; [intros ch H; apply set_key_keys; right; auto|].
      split; [exact (HI2 1%nat ltac:(lia))|].
      split.
      { intros ch Hin Hz. rewrite nsubs_set_key in Hz. destruct (Nat.eqb_spec ch0 ch); [lia|]. apply (I3 ch); auto. }
      repeat (split; [assumption|]). assumption.
    + assert (Hz0 : nsubs ch0 (l_ch s) = 0%nat).
      { apply nsubs_nokey. intros Hin. apply has_key_spec in Hin. congruence. }
      split; [apply set_key_nodup, U|].
      split; [intros ch H; apply set_key_keys; right; auto|].
      split; [pose proof (HI2 1%nat ltac:(lia)) as H; rewrite Hz0 in H; exact H|].
      split; [intros; left; reflexivity|].
      repeat (split; [assumption|]). assumption.
  - (* LRelease *)
    destruct (nsubs ch0 (l_ch s)) as [|k] eqn:En; unfold linv; cbn [l_ch l_pubbed l_inc l_started l_all l_wire l_wake l_phase l_ghost].
    + split; [exact U|]. split; [exact I1|]. split; [exact I2|]. split; [intros; left; reflexivity|].
      repeat (split; [assumption|]). assumption.
    + split; [apply set_key_nodup, U|].
      split; [intros ch H; apply set_key_keys; right; auto|].
      split.
      { intros p ch Hp Ht. destruct (I2 p ch Hp Ht) as [H|[[H1 H2]|H]]; auto.
        - rewrite nsubs_set_key. destruct (Nat.eqb_spec ch0 ch) as [->|Hne].
          + destruct (Nat.eqb_spec k 0) as [->|Hk0].
            * destruct (mem_nat ch (l_pubbed s)) eqn:Em.
              -- left. apply mem_nat_spec. exact Em.
              -- right. right. rewrite H1. cbn. apply orb_true_r.
            * right. left. auto.
          + right. left. auto.
        - right. right. rewrite H. reflexivity. }
      split.
      { intros ch Hin Hz. rewrite nsubs_set_key in Hz. destruct (Nat.eqb_spec ch0 ch) as [->|Hne].
        - subst k. left. reflexivity.
        - destruct (I3 ch Hin Hz) as [H|H]; auto. left. rewrite H. destruct (Nat.eqb k 0); reflexivity. }
      split; [assumption|]. split; [assumption|]. split; [assumption|].
      intros Hp p Hin. destruct (I8 Hp p Hin) as [H|H]; [left; exact H|right; rewrite H; reflexivity].
  - (* LAddPeer *)
    destruct (mem_nat p0 (l_all s)) eqn:Em; [unfold linv; auto 12|].
    assert (Hnew : ~ In p0 (l_all s)) by (rewrite <- mem_nat_spec; congruence).
    assert (Hnoent : forall c b, ~ In (p0, c, b) (l_wire s)) by (intros c b H; apply Hnew; eapply I5; eauto).
    unfold linv; cbn [l_ch l_pubbed l_inc l_started l_all l_wire l_wake l_phase l_ghost].
    split; [exact U|]. split; [exact I1|].
    split.
    { intros p ch Hp Ht. destruct Hp as [Hp|Hp]; [apply (I2 p ch); auto|].
      apply in_app_or in Hp as [Hp|[<-|[]]]; [apply (I2 p ch); auto|].
      apply told_true_entry in Ht as [b Hb]. destruct (Hnoent _ _ Hb). }
    split; [intros; left; reflexivity|].
    split; [intros p c b Hin; right; eapply I5; eauto|].
    split.
    { intros p Hi. apply in_app_or in Hi as [Hi|[Hi|[]]]; [right; auto|left; auto]. }
    split.
    { intros p Hp. destruct (I7 p Hp) as [H1 H2]. split; [right; exact H1|].
      intros Hi. apply in_app_or in Hi as [Hi|[Hi|[]]]; [auto|]. subst. auto. }
    intros Hp p Hin. apply in_app_or in Hin as [Hin|[<-|[]]]; [apply I8; auto|left; exact Hnoent].
  - (* LDropPeer *)
    unfold linv; cbn [l_ch l_pubbed l_inc l_started l_all l_wire l_wake l_phase l_ghost].
    split; [exact U|]. split; [exact I1|].
    split.
    { intros p ch [Hp|Hp]; [apply filter_In in Hp as [Hp _]|]; apply I2; auto. }
    split; [exact I3|]. split; [assumption|]. split; [assumption|].
    split; [intros p Hp; apply filter_In in Hp as [Hp _]; auto|exact I8].
  - (* LReplace *)
    destruct (mem_nat p0 (l_started s)) eqn:Em; [|unfold linv; auto 12].
    apply mem_nat_spec in Em. destruct (I7 p0 Em) as [Hall Hninc].
    unfold linv; cbn [l_ch l_pubbed l_inc l_started l_all l_wire l_wake l_phase l_ghost].
    split; [exact U|]. split; [exact I1|].
    split.
    { intros p ch Hp Ht.
      assert (Hp' : In p (l_started s) \/ In p (l_inc s)).
      { destruct Hp as [Hp|Hp]; [apply filter_In in Hp as [Hp _]; auto|].
        apply in_app_or in Hp as [Hp|[<-|[]]]; auto. }
      destruct (I2 p ch Hp' Ht) as [H|[H|H]]; auto. right. right. rewrite H. reflexivity. }
    split; [intros; left; reflexivity|].
    split; [assumption|].
    split; [intros p Hi; apply in_app_or in Hi as [Hi|[<-|[]]]; auto|].
    split.
    { intros p Hp. apply filter_In in Hp as [Hp Hne]. destruct (I7 p Hp) as [H1 H2]. split; [exact H1|].
      intros Hi. apply in_app_or in Hi as [Hi|[<-|[]]]; [auto|]. rewrite Nat.eqb_refl in Hne. discriminate. }
    intros Hp p Hin. right. rewrite Hp. apply orb_true_r.
  - (* LWake *)
    destruct (l_phase s) eqn:Ep; try (unfold linv; rewrite Ep; auto 12; fail).
    destruct (l_wake s) eqn:Ew; [|unfold linv; rewrite Ep, Ew; auto 12].
    unfold linv; cbn [l_ch l_pubbed l_inc l_started l_all l_wire l_wake l_phase l_ghost].
    split; [exact U|]. split; [exact I1|].
    split.
    { intros p ch Hp Ht. destruct (I2 p ch Hp Ht) as [H|[[H1 H2]|H]]; auto; congruence. }
    split; [intros; right; discriminate|]. split; [assumption|]. split; [assumption|]. split; [assumption|].
    intros; discriminate.
  - (* LInit *)
    destruct (l_phase s) eqn:Ep; try (unfold linv; rewrite Ep; auto 12; fail).
    unfold linv; cbn [l_ch l_pubbed l_inc l_started l_all l_wire l_wake l_phase l_ghost].
    split; [exact U|]. split; [exact I1|].
    split.
    { intros p ch Hp Ht. rewrite told_bcast in Ht.
      set (init := map (fun e : nat * nat => (fst e, true)) (filter (fun e => negb (Nat.eqb (snd e) 0)) (l_ch s))) in *.
      assert (Hinit : lookup ch init = Some true -> nsubs ch (l_ch s) <> 0%nat).
      { intros Hl. apply lookup_some_in in Hl. apply in_map_iff in Hl as [[c k] [E Hin]]. cbn [fst] in E.
        inversion E; subst. apply filter_In in Hin as [Hin Hk]. cbn [snd] in Hk.
        apply negb_true_iff, Nat.eqb_neq in Hk. rewrite (nsubs_in _ _ _ U Hin). exact Hk. }
      assert (Hp' : In p (l_started s) \/ In p (l_inc s)).
      { destruct Hp as [Hp|[]]. apply in_app_or in Hp. exact Hp. }
      assert (Hold : told (l_wire s) p ch = true ->
                     In ch (l_pubbed s) \/ (PGap = PGap /\ nsubs ch (l_ch s) <> 0%nat) \/ l_ghost s = true).
      { intros Ht'. destruct (I2 p ch Hp' Ht') as [H|[[H1 H2]|H]]; auto; congruence. }
      destruct (mem_nat p (l_inc s)) eqn:Em; [|auto].
      destruct (lookup_init ch (filter (fun e => negb (Nat.eqb (snd e) 0)) (l_ch s))) as [El|El];
        fold init in El; rewrite El in Ht; [right; left; split; [reflexivity|auto]|auto]. }
    split; [intros; right; discriminate|].
    split.
    { intros p c b Hin. apply in_app_or in Hin as [Hin|Hin]; [|eapply I5; eauto].
      apply in_bcast in Hin as [Hin _]. apply I6; exact Hin. }
    split; [intros p []|].
    split.
    { intros p Hp. split; [|intros []]. apply in_app_or in Hp as [Hp|Hp]; [apply I7; exact Hp|apply I6; exact Hp]. }
    intros _ p [].
  - (* LSweep *)
    destruct (l_phase s) eqn:Ep; try (unfold linv; rewrite Ep; auto 12; fail).
    pose proof (fun ch => sweep_pubbed (l_ch s) (l_pubbed s) ch U) as SP.
    pose proof (fun ch => sweep_changes (l_ch s) (l_pubbed s) ch U) as SC.
    destruct (sweep (l_ch s) (l_pubbed s)) as [changes pubbed'] eqn:Es. cbn [fst snd] in SP, SC.
    unfold linv; cbn [l_ch l_pubbed l_inc l_started l_all l_wire l_wake l_phase l_ghost].
    assert (Hnz : forall ch, In ch pubbed' -> nsubs ch (l_ch s) <> 0%nat).
    { intros ch Hin. destruct (SP ch) as [_ [S2 S3]]. destruct (S2 Hin) as [H|H]; [|exact H].
      apply S3; auto. }
    split; [apply filter_keys_nodup, U|].
    split.
    { intros ch Hin. apply nsubs_nonzero_key. rewrite nsubs_filter by exact U. auto. }
    split.
    { intros p ch Hp Ht. rewrite told_bcast in Ht.
      destruct (mem_nat p (l_started s)) eqn:Em.
      - apply mem_nat_spec in Em. destruct (SP ch) as [S1 _]. destruct (SC ch) as [C1 C2].
        destruct (lookup ch changes) as [[|]|] eqn:El.
        + left. apply C1. reflexivity.
        + discriminate.
        + destruct (I2 p ch (or_introl Em) Ht) as [H|[[_ H2]|H]]; auto.
          destruct (Nat.eq_dec (nsubs ch (l_ch s)) 0) as [Hz|Hz]; [|left; auto].
          discriminate (C2 H (I1 _ H) Hz).
      - (* a stream that is pending during the gap: it has no entries, unless the ghost is raised *)
        destruct Hp as [Hp|Hp]; [apply mem_nat_spec in Hp; congruence|].
        destruct (I8 eq_refl p Hp) as [H|H]; [|auto].
        apply told_true_entry in Ht as [b Hb]. destruct (H _ _ Hb). }
    split.
    { intros ch Hin Hz. rewrite nsubs_filter in Hz by exact U. destruct (Hnz ch Hin Hz). }
    split.
    { intros p c b Hin. apply in_app_or in Hin as [Hin|Hin]; [|eapply I5; eauto].
      apply in_bcast in Hin as [Hin _]. apply I7. exact Hin. }
    split; [assumption|]. split; [assumption|]. intros; discriminate.
Qed.

Lemma linv_run l : forall s, linv s -> linv (lrun s l).
Proof.
  unfold lrun. induction l as [|a l IH]; intros s H; cbn [fold_left]; [exact H|]. apply IH, linv_step, H.
Qed.

(* Once no local subscription of ch is left and the loop is idle with no wake
   pending, no executing peer stream holds Subscribe=true for ch - provided no
   release fell into the window between the two lock regions of the loop body
   on a channel that the loop had not recorded in pubbedChannels (ghost flag). *)
Theorem unsub_at_quiescence_partial l p ch :
  let s := lrun linit l in
  lquiescent s -> l_ghost s = false ->
  In p (l_started s) -> nsubs ch (l_ch s) = 0%nat ->
  told (l_wire s) p ch = false.
Proof.
  intros s [Qp Qw] Hg Hp Hz.
  destruct (linv_run l linit linv_init) as [U [I1 [I2 [I3 _]]]]. fold s in U, I1, I2, I3.
  destruct (told (l_wire s) p ch) eqn:Et; [|reflexivity]. exfalso.
  destruct (I2 p ch (or_introl Hp) Et) as [H|[[H _]|H]]; [|congruence|congruence].
  destruct (I3 ch H Hz) as [H'|H']; congruence.
Qed.

(* ... and an executing stream that never saw Subscribe=true for ch needs no retraction *)
Lemma told_false_never w p ch : (forall b, ~ In (p, ch, b) w) -> told w p ch = false.
Proof.
  intros H. destruct (told w p ch) eqn:E; [|reflexivity]. apply told_true_entry in E as [b Hb]. destruct (H b Hb).
Qed.

(* The full statement is FALSE for the loop as written: a Release that falls
   between the incSessions pass and the sweep, on a channel that was announced
   to a new stream by initSet only, is never retracted. *)
Definition gap_trace : list lact :=
  [LSubscribe 7; LAddPeer 1; LInit; LRelease 7; LSweep; LWake; LInit; LSweep].

Theorem unsub_at_quiescence_refuted :
  exists l p ch,
    let s := lrun linit l in
    lquiescent s /\ In p (l_started s) /\ nsubs ch (l_ch s) = 0%nat /\ told (l_wire s) p ch = true.
Proof.
  exists gap_trace, 1%nat, 7%nat. vm_compute. repeat split; auto.
Qed.

(* the same history without the window (release before the pass, or after the sweep) is handled *)
Example gap_trace_ok_before :
  let s := lrun linit [LSubscribe 7; LAddPeer 1; LRelease 7; LInit; LSweep; LWake; LInit; LSweep] in
  lquiescent s /\ l_ghost s = false /\ In 1%nat (l_started s) /\ told (l_wire s) 1 7 = false.
Proof. vm_compute. repeat split; auto. Qed.

Example gap_trace_ok_after :
  let s := lrun linit [LSubscribe 7; LAddPeer 1; LInit; LSweep; LRelease 7; LWake; LInit; LSweep] in
  lquiescent s /\ l_ghost s = false /\ In 1%nat (l_started s) /\ told (l_wire s) 1 7 = false /\
  In (1%nat, 7%nat, true) (l_wire s) /\ In (1%nat, 7%nat, false) (l_wire s).
Proof. vm_compute. repeat split; auto 10. Qed.

(* ---------- the same loop with the two regions executed as one ---------- *)

(* If the incSessions pass and the sweep are one atomic step (no release of
   m.mtx between them), the ghost flag can never be raised and the full
   statement holds.  This is the statement for the loop body without the
   "intentional mtx hold-break". *)
Inductive pact :=
| PSubscribe (ch : nat) | PRelease (ch : nat) | PAddPeer (p : nat) | PDropPeer (p : nat) | PReplace (p : nat) | PWake | PPass.

Definition expand1 (a : pact) : list lact :=
  match a with
  | PSubscribe ch => [LSubscribe ch]
  | PRelease ch => [LRelease ch]
  | PAddPeer p => [LAddPeer p]
  | PDropPeer p => [LDropPeer p]
  | PReplace p => [LReplace p]
  | PWake => [LWake]
  | PPass => [LInit; LSweep]
  end.

Definition expand (l : list pact) : list lact := flat_map expand1 l.

Lemma lrun_app s l1 l2 : lrun s (l1 ++ l2) = lrun (lrun s l1) l2.
Proof. unfold lrun. apply fold_left_app. Qed.

Lemma nogap_step s a :
  l_phase s <> PGap -> l_ghost s = false ->
  l_phase (lrun s (expand1 a)) <> PGap /\ l_ghost (lrun s (expand1 a)) = false.
Proof.
  destruct s as [c0 pb inc st al w wk ph g]. cbn [l_phase l_ghost]. intros Hp Hg. subst g.
  destruct ph; try contradiction; destruct a as [ch|ch|p|p|p| |]; unfold lrun;
    cbn [expand1 fold_left lstep l_phase l_ghost l_ch l_pubbed l_inc l_started l_all l_wire l_wake];
    repeat match goal with
           | |- context [match ?x with _ => _ end] => destruct x
           | |- context [if ?x then _ else _] => destruct x
           end;
    cbn [l_phase l_ghost orb andb negb]; rewrite ?andb_false_r; split; try discriminate; reflexivity.
Qed.

Lemma nogap_run l : forall s,
  l_phase s <> PGap -> l_ghost s = false ->
  l_phase (lrun s (expand l)) <> PGap /\ l_ghost (lrun s (expand l)) = false.
Proof.
  induction l as [|a l IH]; intros s Hp Hg; cbn [expand flat_map]; [cbn; auto|].
  rewrite lrun_app. destruct (nogap_step s a Hp Hg) as [H1 H2]. apply IH; assumption.
Qed.

Theorem unsub_at_quiescence_atomic_pass l p ch :
  let s := lrun linit (expand l) in
  lquiescent s -> In p (l_started s) -> nsubs ch (l_ch s) = 0%nat -> told (l_wire s) p ch = false.
Proof.
  intros s Q Hp Hz. apply unsub_at_quiescence_partial; auto.
  apply (nogap_run l linit); [discriminate|reflexivity].
Qed.
